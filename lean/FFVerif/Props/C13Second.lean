/-
C13, second order — invariances of the second-order filter function computed by
`numeric.calculate_second_order_filter_function` without cached intermediates (model
`Model.secondOrderFFFromScratch`): change of the time unit, zero-duration segments, cutting a
segment in two / merging two equal neighbours, order of the noise operators and basis elements,
(bi)linearity in the sensitivities and noise operators.  Exact real/complex arithmetic.
Which guard of `_first_order_integral` each statement needs:
* time unit: any guard whose entries scale with the unit (`|x·dt| > thr` of the current source,
  or the exact `x ≠ 0`); the exact-zero masks of `_second_order_integral` need nothing;
* zero-duration segments, operator order, (bi)linearity: every guard;
* cutting / merging: the first-order entries of the cut segment must not be truncated (exact guard,
  or masks true) and noise operators / basis elements must be Hermitian.
Consequences for `calculate_frequency_shifts`: `Props/C13SecondShifts.lean`; arbitrary refinements:
`Props/C13SecondRefine.lean`.  Property theorems only; helpers are in
`Lemmas/SecondOrderKernelInvAux.lean`, `SecondOrderLoopAux.lean`, `SecondOrderInvAux.lean`,
`SecondOrderCutAux.lean`, `SecondOrderSplitAux.lean`, `SecondOrderLinAux.lean`.
-/
import FFVerif.Lemmas.SecondOrderInvAux
import FFVerif.Lemmas.SecondOrderSplitAux
import FFVerif.Props.C13Prop
import FFVerif.Lemmas.SecondOrderLinAux

namespace FFVerif.C13
open FFVerif FFVerif.Model FFVerif.SecondOrderInv FFVerif.SecondOrderAux FFVerif.C02 Complex Matrix

/-! ### 1. Change of the time unit -/

/-- **Time-unit covariance of one entry of `_second_order_integral`.**  With the duration
multiplied by `lam` and `ω`, `Ω_ij`, `Ω_mn` divided by `lam ≠ 0` the entry is multiplied by `lam²`;
all three cases of the code, all resonances.  The masks of `_second_order_integral` are EXACT
comparisons with zero (`EdE != 0`, `dEE != 0`, `dEdE != 0`), and `x/lam = 0 ↔ x = 0`, so the case
that is taken does not depend on the unit: no guard hypothesis is needed here (in contrast to
`_first_order_integral`, see `C13.absGt_not_scale_covariant`). -/
theorem secondOrderEntry_scale (E Oij Omn dt lam : ℝ) (hl : lam ≠ 0) :
    (secondOrderEntry (E / lam) (Oij / lam) (Omn / lam) (lam * dt) : ℂ)
      = (lam : ℂ) ^ 2 * secondOrderEntry E Oij Omn dt :=
  secondOrderEntry_scale' E Oij Omn dt lam hl

/-- the exact-zero masks of `_second_order_integral` do not see the time unit -/
theorem secondOrder_masks_scale (E Oij Omn lam : ℝ) (hl : lam ≠ 0) :
    neZero (E / lam + Omn / lam) = neZero (E + Omn) ∧
    neZero (-(E / lam) - -(Oij / lam)) = neZero (-E - -Oij) ∧
    neZero (Oij / lam + Omn / lam) = neZero (Oij + Omn) := by
  have h : ∀ x y : ℝ, neZero (x / lam + y / lam) = neZero (x + y) := by
    intro x y
    rw [← add_div, Bool.eq_iff_iff, neZero_eq_true_iff, neZero_eq_true_iff, ne_eq, ne_eq,
      div_eq_zero_iff, or_iff_left hl]
  refine ⟨h E Omn, ?_, h Oij Omn⟩
  have e1 : -(E / lam) - -(Oij / lam) = (-E) / lam + Oij / lam := by ring
  have e2 : -E - -Oij = -E + Oij := by ring
  rw [e1, e2]
  exact h (-E) Oij

/-- **Time-unit covariance of the second-order filter function, any guard that is
scale-covariant.**  Durations and segment start times `× lam`, eigenvalues and frequencies `÷ lam`
(`lam ≠ 0`; same eigenvectors, propagators, basis, noise operators, sensitivities): every entry of
`F2` is multiplied by `lam²`.  The only hypothesis on the guard of `_first_order_integral` (used by
the one-segment control-matrix calls of the loop) is that ITS entries scale by `lam`; the
second-order kernel needs none (`secondOrderEntry_scale`).  All dimensions, segment counts,
frequencies; operators Hermitian or not. -/
theorem secondOrder_time_unit_of_guard {nG d nO nA nK : ℕ} (kind : MaskKind) (thr : ℝ)
    (eigvals : Mat ℝ nG d) (eigvecs props : Vector (Mat ℂ d d) nG) (omega : Vec ℝ nO)
    (basis : Vector (Mat ℂ d d) nK) (nOpers : Vector (Mat ℂ d d) nA) (nCoeffs : Mat ℝ nA nG)
    (dt t : Vec ℝ nG) (lam : ℝ) (hl : lam ≠ 0)
    (hI : ∀ x τ : ℝ, (firstOrderEntry kind thr (x / lam) (lam * τ) : ℂ)
      = (lam : ℂ) * firstOrderEntry kind thr x τ)
    (a b : Fin nA) (k l : Fin nK) (o : Fin nO) :
    (secondOrderFFFromScratch kind thr (Vector.map (Vector.map (· / lam)) eigvals) eigvecs props
        (Vector.map (· / lam) omega) basis nOpers nCoeffs (Vector.map (lam * ·) dt)
        (Vector.map (lam * ·) t))[a][b][k][l][o]
      = (lam : ℂ) ^ 2 * (secondOrderFFFromScratch kind thr eigvals eigvecs props omega basis nOpers
          nCoeffs dt t)[a][b][k][l][o] := by
  rw [F2_entry, F2_entry]
  simp only [InvAux.vec_map_get]
  have h := loopSum_smul nG
    (fun g => segStep (fun i => eigvals[g][i]) omega[o] dt[g]
      (nMat eigvecs[g] nOpers[a] nCoeffs[a][g]) (nMat eigvecs[g] nOpers[b] nCoeffs[b][g])
      (bMat eigvecs[g] props[g] basis[k]) (bMat eigvecs[g] props[g] basis[l]))
    (fun g => (starRingEnd ℂ) (segCm kind thr (fun i => eigvals[g][i]) omega[o] dt[g] t[g]
      (nMat eigvecs[g] nOpers[a] nCoeffs[a][g]) (bMat eigvecs[g] props[g] basis[k])))
    (fun g => segCm kind thr (fun i => eigvals[g][i]) omega[o] dt[g] t[g]
      (nMat eigvecs[g] nOpers[b] nCoeffs[b][g]) (bMat eigvecs[g] props[g] basis[l]))
    (lam : ℂ) (lam : ℂ)
  rw [sq, ← h]
  congr 1
  · funext g
    rw [segStep_scale _ _ _ _ hl, sq]
  · funext g
    rw [segCm_scale kind thr _ _ _ _ _ _ _ (fun x => hI x _) hl, map_mul, Complex.conj_ofReal]
  · funext g
    rw [segCm_scale kind thr _ _ _ _ _ _ _ (fun x => hI x _) hl]

/-- the exact guard `x ≠ 0` of `_first_order_integral` is scale covariant -/
theorem firstOrderEntry_neZero_scale (thr x dt lam : ℝ) (hl : lam ≠ 0) :
    (firstOrderEntry .neZero thr (x / lam) (lam * dt) : ℂ)
      = (lam : ℂ) * firstOrderEntry .neZero thr x dt := by
  have hlc : (lam : ℂ) ≠ 0 := by exact_mod_cast hl
  rw [firstOrderEntry_neZero, firstOrderEntry_neZero]
  by_cases hx : x = 0
  · subst hx; simp
  · rw [segI_closed _ _ (div_ne_zero hx hl), segI_closed _ _ hx]
    have hxc : (x : ℂ) ≠ 0 := by exact_mod_cast hx
    have e : I * ((x / lam : ℝ) : ℂ) * ((lam * dt : ℝ) : ℂ) = I * x * dt := by
      push_cast; field_simp
    rw [e]
    push_cast
    field_simp

/-- **Time-unit covariance of the second-order filter function, code as it is** (the
dimensionless guard `|x·dt| > thr` that the translator reads from the source, `C13.scale_current`;
any threshold): `F2' = lam² · F2`. -/
theorem secondOrder_time_unit {nG d nO nA nK : ℕ} (thr : ℝ)
    (eigvals : Mat ℝ nG d) (eigvecs props : Vector (Mat ℂ d d) nG) (omega : Vec ℝ nO)
    (basis : Vector (Mat ℂ d d) nK) (nOpers : Vector (Mat ℂ d d) nA) (nCoeffs : Mat ℝ nA nG)
    (dt t : Vec ℝ nG) (lam : ℝ) (hl : lam ≠ 0) (a b : Fin nA) (k l : Fin nK) (o : Fin nO) :
    (secondOrderFFFromScratch .absTimesDtGt thr (Vector.map (Vector.map (· / lam)) eigvals) eigvecs
        props (Vector.map (· / lam) omega) basis nOpers nCoeffs (Vector.map (lam * ·) dt)
        (Vector.map (lam * ·) t))[a][b][k][l][o]
      = (lam : ℂ) ^ 2 * (secondOrderFFFromScratch .absTimesDtGt thr eigvals eigvecs props omega
          basis nOpers nCoeffs dt t)[a][b][k][l][o] :=
  secondOrder_time_unit_of_guard .absTimesDtGt thr eigvals eigvecs props omega basis nOpers nCoeffs
    dt t lam hl (fun x τ => firstOrderEntry_scale thr x τ lam hl) a b k l o

/-- the same with the exact guard `x ≠ 0` (the setting of `C10.secondOrderFFFromScratch_plus_adjoint`
and of the re-segmentation theorems below) -/
theorem secondOrder_time_unit_neZero {nG d nO nA nK : ℕ} (thr : ℝ)
    (eigvals : Mat ℝ nG d) (eigvecs props : Vector (Mat ℂ d d) nG) (omega : Vec ℝ nO)
    (basis : Vector (Mat ℂ d d) nK) (nOpers : Vector (Mat ℂ d d) nA) (nCoeffs : Mat ℝ nA nG)
    (dt t : Vec ℝ nG) (lam : ℝ) (hl : lam ≠ 0) (a b : Fin nA) (k l : Fin nK) (o : Fin nO) :
    (secondOrderFFFromScratch .neZero thr (Vector.map (Vector.map (· / lam)) eigvals) eigvecs
        props (Vector.map (· / lam) omega) basis nOpers nCoeffs (Vector.map (lam * ·) dt)
        (Vector.map (lam * ·) t))[a][b][k][l][o]
      = (lam : ℂ) ^ 2 * (secondOrderFFFromScratch .neZero thr eigvals eigvecs props omega
          basis nOpers nCoeffs dt t)[a][b][k][l][o] :=
  secondOrder_time_unit_of_guard .neZero thr eigvals eigvecs props omega basis nOpers nCoeffs
    dt t lam hl (fun x τ => firstOrderEntry_neZero_scale thr x τ lam hl) a b k l o

/-- the hypothesis `lam ≠ 0` is all that is needed; e.g. seconds → nanoseconds -/
example : (1e9 : ℝ) ≠ 0 := by norm_num

/-! ### 2. Zero-duration segments -/

/-- **Dropping zero-duration segments.**  Let the strictly increasing `ι` embed the segments of a
shorter list into a longer one such that every segment of the long list that is not hit has
`dt = 0` (its eigenvalues, eigenvectors, cumulative propagator, sensitivities and start time are
arbitrary); if the short list carries the data of the long one along `ι`, both give the same
second-order filter function.  Every guard of `_first_order_integral`, every threshold, all
dimensions and frequencies, operators Hermitian or not.  (Unlike for the control matrix,
`C13.cm_drop_zero_segments`, the ORDER of the segments matters here: `ι` must be monotone.) -/
theorem secondOrder_drop_zero_segments {nG nG' d nO nA nK : ℕ} (kind : MaskKind) (thr : ℝ)
    (eigvals : Mat ℝ nG d) (eigvecs props : Vector (Mat ℂ d d) nG) (omega : Vec ℝ nO)
    (basis : Vector (Mat ℂ d d) nK) (nOpers : Vector (Mat ℂ d d) nA) (nCoeffs : Mat ℝ nA nG)
    (dt t : Vec ℝ nG) (ι : Fin nG' → Fin nG) (hι : StrictMono ι)
    (h0 : ∀ g : Fin nG, (∀ g', ι g' ≠ g) → dt[g] = 0)
    (a b : Fin nA) (k l : Fin nK) (o : Fin nO) :
    (secondOrderFFFromScratch kind thr (Vector.ofFn fun g' => eigvals[ι g'])
        (Vector.ofFn fun g' => eigvecs[ι g']) (Vector.ofFn fun g' => props[ι g']) omega basis nOpers
        (Mat.ofFn fun a g' => nCoeffs[a][ι g']) (Vector.ofFn fun g' => dt[ι g'])
        (Vector.ofFn fun g' => t[ι g']))[a][b][k][l][o]
      = (secondOrderFFFromScratch kind thr eigvals eigvecs props omega basis nOpers nCoeffs dt
          t)[a][b][k][l][o] := by
  rw [F2_entry, F2_entry]
  symm
  rw [loopSum_strictMono ι hι]
  · simp only [InvAux.vec_ofFn_get, Mat.ofFn_get]
  · intro g hg
    simp only [h0 g hg, segStep_zero_dt]
  · intro g hg
    simp only [h0 g hg, segCm_zero_dt, map_zero]
  · intro g hg
    simp only [h0 g hg, segCm_zero_dt]

/-- **Inserting a zero-duration segment with arbitrary amplitudes changes nothing.**  A pulse
with `nG + 1` segments whose segment `p` (any position, also first or last) has `dt = 0` — with
its own, arbitrary, `eigh` data, cumulative propagator, sensitivities and start time — has the same
second-order filter function as the pulse with that segment removed. -/
theorem secondOrder_zero_dt_segment {nG d nO nA nK : ℕ} (kind : MaskKind) (thr : ℝ)
    (eigvals : Mat ℝ (nG + 1) d) (eigvecs props : Vector (Mat ℂ d d) (nG + 1)) (omega : Vec ℝ nO)
    (basis : Vector (Mat ℂ d d) nK) (nOpers : Vector (Mat ℂ d d) nA)
    (nCoeffs : Mat ℝ nA (nG + 1)) (dt t : Vec ℝ (nG + 1)) (p : Fin (nG + 1)) (h0 : dt[p] = 0)
    (a b : Fin nA) (k l : Fin nK) (o : Fin nO) :
    (secondOrderFFFromScratch kind thr eigvals eigvecs props omega basis nOpers nCoeffs dt
        t)[a][b][k][l][o]
      = (secondOrderFFFromScratch kind thr (Vector.ofFn fun i : Fin nG => eigvals[p.succAbove i])
          (Vector.ofFn fun i => eigvecs[p.succAbove i]) (Vector.ofFn fun i => props[p.succAbove i])
          omega basis nOpers (Mat.ofFn fun a i => nCoeffs[a][p.succAbove i])
          (Vector.ofFn fun i => dt[p.succAbove i])
          (Vector.ofFn fun i => t[p.succAbove i]))[a][b][k][l][o] := by
  symm
  refine secondOrder_drop_zero_segments kind thr eigvals eigvecs props omega basis nOpers nCoeffs dt
    t p.succAbove (Fin.strictMono_succAbove p) (fun g hg => ?_) a b k l o
  by_cases h : g = p
  · rw [h]; exact h0
  · obtain ⟨i, hi⟩ := Fin.exists_succAbove_eq h
    exact absurd hi (hg i)

/-- **Two pulses that differ only in a zero-duration segment** (both have `dt = 0` at `g₀`; the
`eigh` data, propagator, sensitivities, start time of that segment arbitrary and possibly
different) have the same second-order filter function. -/
theorem secondOrder_zero_dt_segment_congr {nG d nO nA nK : ℕ} (kind : MaskKind) (thr : ℝ)
    (eigvals eigvals' : Mat ℝ nG d) (eigvecs eigvecs' props props' : Vector (Mat ℂ d d) nG)
    (omega : Vec ℝ nO) (basis : Vector (Mat ℂ d d) nK) (nOpers : Vector (Mat ℂ d d) nA)
    (nCoeffs nCoeffs' : Mat ℝ nA nG) (dt dt' t t' : Vec ℝ nG) (g₀ : Fin nG)
    (h0 : dt[g₀] = 0) (h0' : dt'[g₀] = 0)
    (hag : ∀ g : Fin nG, g ≠ g₀ → eigvals'[g] = eigvals[g] ∧ eigvecs'[g] = eigvecs[g] ∧
      props'[g] = props[g] ∧ (∀ a : Fin nA, nCoeffs'[a][g] = nCoeffs[a][g]) ∧ dt'[g] = dt[g] ∧
      t'[g] = t[g])
    (a b : Fin nA) (k l : Fin nK) (o : Fin nO) :
    (secondOrderFFFromScratch kind thr eigvals' eigvecs' props' omega basis nOpers nCoeffs' dt'
        t')[a][b][k][l][o]
      = (secondOrderFFFromScratch kind thr eigvals eigvecs props omega basis nOpers nCoeffs dt
          t)[a][b][k][l][o] := by
  rw [F2_entry, F2_entry]
  congr 1
  · funext g
    by_cases hg : g = g₀
    · subst hg; simp only [h0, h0', segStep_zero_dt]
    · obtain ⟨h1, h2, h3, h4, h5, h6⟩ := hag g hg
      rw [h1, h2, h3, h4 a, h4 b, h5]
  · funext g
    by_cases hg : g = g₀
    · subst hg; simp only [h0, h0', segCm_zero_dt]
    · obtain ⟨h1, h2, h3, h4, h5, h6⟩ := hag g hg
      rw [h1, h2, h3, h4 a, h5, h6]
  · funext g
    by_cases hg : g = g₀
    · subst hg; simp only [h0, h0', segCm_zero_dt]
    · obtain ⟨h1, h2, h3, h4, h5, h6⟩ := hag g hg
      rw [h1, h2, h3, h4 b, h5, h6]

/-- the hypotheses of `secondOrder_drop_zero_segments` are satisfiable: three segments, the middle
one of zero length, dropped by `ι = (1 : Fin 3).succAbove` -/
example : StrictMono ((1 : Fin 3).succAbove) ∧
    ∀ g : Fin 3, (∀ g' : Fin 2, (1 : Fin 3).succAbove g' ≠ g) → (#v[1, 0, 2] : Vec ℝ 3)[g] = 0 := by
  refine ⟨Fin.strictMono_succAbove _, fun g hg => ?_⟩
  fin_cases g
  · exact absurd rfl (hg 0)
  · rfl
  · exact absurd rfl (hg 1)

/-! ### 3. Order of the noise operators -/

/-- **Re-ordering / selecting noise operators.**  Listing the noise operators together with their
sensitivity rows along any index map `σ` (a permutation, a sub-selection, repetitions) re-indexes
the two noise axes of the second-order filter function along the same map.  (The order of the
CONTROL operators does not enter at all: `secondOrderFFFromScratch` sees the control Hamiltonian
only through `eigvals`, `eigvecs`, `props`, and the Hamiltonian of every segment is the same for
any order of the control operators, `C13.hamiltonian_perm_opers`.) -/
theorem secondOrder_perm_opers {nG d nO nA nA' nK : ℕ} (kind : MaskKind) (thr : ℝ)
    (eigvals : Mat ℝ nG d) (eigvecs props : Vector (Mat ℂ d d) nG) (omega : Vec ℝ nO)
    (basis : Vector (Mat ℂ d d) nK) (nOpers : Vector (Mat ℂ d d) nA) (nCoeffs : Mat ℝ nA nG)
    (dt t : Vec ℝ nG) (σ : Fin nA' → Fin nA) (a b : Fin nA') (k l : Fin nK) (o : Fin nO) :
    (secondOrderFFFromScratch kind thr eigvals eigvecs props omega basis
        (Vector.ofFn fun a' => nOpers[σ a']) (Vector.ofFn fun a' => nCoeffs[σ a']) dt
        t)[a][b][k][l][o]
      = (secondOrderFFFromScratch kind thr eigvals eigvecs props omega basis nOpers nCoeffs dt
          t)[σ a][σ b][k][l][o] := by
  rw [F2_entry, F2_entry]
  simp only [InvAux.vec_ofFn_get]

/-- **Re-ordering / selecting basis elements** re-indexes the two basis axes. -/
theorem secondOrder_perm_basis {nG d nO nA nK nK' : ℕ} (kind : MaskKind) (thr : ℝ)
    (eigvals : Mat ℝ nG d) (eigvecs props : Vector (Mat ℂ d d) nG) (omega : Vec ℝ nO)
    (basis : Vector (Mat ℂ d d) nK) (nOpers : Vector (Mat ℂ d d) nA) (nCoeffs : Mat ℝ nA nG)
    (dt t : Vec ℝ nG) (σ : Fin nK' → Fin nK) (a b : Fin nA) (k l : Fin nK') (o : Fin nO) :
    (secondOrderFFFromScratch kind thr eigvals eigvecs props omega
        (Vector.ofFn fun k' => basis[σ k']) nOpers nCoeffs dt t)[a][b][k][l][o]
      = (secondOrderFFFromScratch kind thr eigvals eigvecs props omega basis nOpers nCoeffs dt
          t)[a][b][σ k][σ l][o] := by
  rw [F2_entry, F2_entry]
  simp only [InvAux.vec_ofFn_get]

/-! ### 4. Cutting a segment in two, merging two equal neighbours -/

/-- **Cutting one segment into two consecutive ones leaves the second-order filter function
unchanged — whenever the first-order integrals of the cut segment are not truncated.**  The fine
pulse arises from the coarse one by `C13.IsSegmentCut` with the second piece listed directly after
the first (`p = g₀.succ`): segment `g₀` of duration `τ₁ + τ₂` is replaced by two segments with the
same `eigh` data and sensitivities, durations `τ₁`, `τ₂`, the second one starting at `t[g₀] + τ₁`
with cumulative propagator `V e^{-iλτ₁} V† Q` (for the outputs of the model of `diagonalize` this is
`C13.isSegmentCut_of_model`, i.e. `C13.propagators_split_segment`).
Hypotheses: `V†V = 1` for the eigenvector matrix of the cut segment; Hermitian noise operators and
Hermitian basis elements (the loop uses `conj(ctrlmat_step)` for the first factor of the cross
term, which is the right quantity only for Hermitian operators); at the frequency considered the
entries of `_first_order_integral` of the cut segment for the durations `τ₁`, `τ₂`, `τ₁ + τ₂` are the
segment integrals (`SecondOrderInv.ExactAt`: true for the exact guard, and for every guard where
the masks hold, see the two corollaries).  Any guard and threshold, all dimensions, segment counts,
positions `g₀`, `τ₁`, `τ₂` of any sign; ALL resonances of the second-order kernel.
The mechanism: the nested integral over the triangle `{0 < t' < t < τ₁+τ₂}` is the sum of the two
small triangles (the "last interval" terms of the two pieces) and the rectangle
`[τ₁,τ₁+τ₂] × [0,τ₁]`, which is the cross term `conj(cm₂)·cm₁` that the running sum
`ctrlmat_step_cumulative` contributes at the second piece (`SecondOrderInv.segStep_cut`,
`SecondOrderInv.loopSum_split`). -/
theorem secondOrder_split_segment_of_exact {nG d nO nA nK : ℕ} (kind : MaskKind) (thr : ℝ)
    (eigvals : Mat ℝ nG d) (eigvecs props : Vector (Mat ℂ d d) nG)
    (eigvals' : Mat ℝ (nG + 1) d) (eigvecs' props' : Vector (Mat ℂ d d) (nG + 1))
    (omega : Vec ℝ nO) (basis : Vector (Mat ℂ d d) nK) (nOpers : Vector (Mat ℂ d d) nA)
    (nCoeffs : Mat ℝ nA nG) (nCoeffs' : Mat ℝ nA (nG + 1)) (dt t : Vec ℝ nG)
    (dt' t' : Vec ℝ (nG + 1)) (g₀ : Fin nG) (τ₁ τ₂ : ℝ)
    (hcut : IsSegmentCut eigvals eigvecs props nCoeffs dt t eigvals' eigvecs' props' nCoeffs' dt' t'
      g₀ g₀.succ τ₁ τ₂)
    (hV : (eigvecs[g₀].toMatrix)ᴴ * eigvecs[g₀].toMatrix = 1)
    (hN : ∀ (a : Fin nA) (i j : Fin d), (starRingEnd ℂ) nOpers[a][i][j] = nOpers[a][j][i])
    (hC : ∀ (k : Fin nK) (i j : Fin d), (starRingEnd ℂ) basis[k][i][j] = basis[k][j][i])
    (a b : Fin nA) (k l : Fin nK) (o : Fin nO)
    (h1 : ExactAt kind thr (fun m => eigvals[g₀][m]) omega[o] τ₁)
    (h2 : ExactAt kind thr (fun m => eigvals[g₀][m]) omega[o] τ₂)
    (h12 : ExactAt kind thr (fun m => eigvals[g₀][m]) omega[o] (τ₁ + τ₂)) :
    (secondOrderFFFromScratch kind thr eigvals' eigvecs' props' omega basis nOpers nCoeffs' dt'
        t')[a][b][k][l][o]
      = (secondOrderFFFromScratch kind thr eigvals eigvecs props omega basis nOpers nCoeffs dt
          t)[a][b][k][l][o] := by
  rw [F2_entry', F2_entry']
  exact loopSum_split nG g₀ _ _ _ _ _ _
    (fun i hi => cut_other_step eigvals eigvecs props eigvals' eigvecs' props' omega basis nOpers
      nCoeffs nCoeffs' dt t dt' t' g₀ τ₁ τ₂ hcut a b k l o i hi)
    (fun i hi => congrArg (starRingEnd ℂ) (cut_other_cm kind thr eigvals eigvecs props eigvals'
      eigvecs' props' omega basis nOpers nCoeffs nCoeffs' dt t dt' t' g₀ τ₁ τ₂ hcut a k o i hi))
    (fun i hi => cut_other_cm kind thr eigvals eigvecs props eigvals' eigvecs' props' omega basis
      nOpers nCoeffs nCoeffs' dt t dt' t' g₀ τ₁ τ₂ hcut b l o i hi)
    ((map_add _ _ _).symm.trans (congrArg (starRingEnd ℂ) (cut_cm kind thr eigvals eigvecs props
      eigvals' eigvecs' props' omega basis nOpers nCoeffs nCoeffs' dt t dt' t' g₀ τ₁ τ₂ hcut hV a k o
      h1 h2 h12)))
    (cut_cm kind thr eigvals eigvecs props eigvals' eigvecs' props' omega basis nOpers nCoeffs
      nCoeffs' dt t dt' t' g₀ τ₁ τ₂ hcut hV b l o h1 h2 h12)
    (cut_step kind thr eigvals eigvecs props eigvals' eigvecs' props' omega basis nOpers nCoeffs
      nCoeffs' dt t dt' t' g₀ τ₁ τ₂ hcut hV hN hC a b k l o h1 h2)

/-- **Cutting a segment, exact guard `x ≠ 0` in `_first_order_integral`** (the setting of
`C10.secondOrderFFFromScratch_plus_adjoint`): the second-order filter function is unchanged at
EVERY frequency, including all resonances of both kernels. -/
theorem secondOrder_split_segment {nG d nO nA nK : ℕ} (thr : ℝ)
    (eigvals : Mat ℝ nG d) (eigvecs props : Vector (Mat ℂ d d) nG)
    (eigvals' : Mat ℝ (nG + 1) d) (eigvecs' props' : Vector (Mat ℂ d d) (nG + 1))
    (omega : Vec ℝ nO) (basis : Vector (Mat ℂ d d) nK) (nOpers : Vector (Mat ℂ d d) nA)
    (nCoeffs : Mat ℝ nA nG) (nCoeffs' : Mat ℝ nA (nG + 1)) (dt t : Vec ℝ nG)
    (dt' t' : Vec ℝ (nG + 1)) (g₀ : Fin nG) (τ₁ τ₂ : ℝ)
    (hcut : IsSegmentCut eigvals eigvecs props nCoeffs dt t eigvals' eigvecs' props' nCoeffs' dt' t'
      g₀ g₀.succ τ₁ τ₂)
    (hV : (eigvecs[g₀].toMatrix)ᴴ * eigvecs[g₀].toMatrix = 1)
    (hN : ∀ (a : Fin nA) (i j : Fin d), (starRingEnd ℂ) nOpers[a][i][j] = nOpers[a][j][i])
    (hC : ∀ (k : Fin nK) (i j : Fin d), (starRingEnd ℂ) basis[k][i][j] = basis[k][j][i])
    (a b : Fin nA) (k l : Fin nK) (o : Fin nO) :
    (secondOrderFFFromScratch .neZero thr eigvals' eigvecs' props' omega basis nOpers nCoeffs' dt'
        t')[a][b][k][l][o]
      = (secondOrderFFFromScratch .neZero thr eigvals eigvecs props omega basis nOpers nCoeffs dt
          t)[a][b][k][l][o] :=
  secondOrder_split_segment_of_exact .neZero thr eigvals eigvecs props eigvals' eigvecs' props' omega
    basis nOpers nCoeffs nCoeffs' dt t dt' t' g₀ τ₁ τ₂ hcut hV hN hC a b k l o
    (exactAt_neZero _ _ _ _) (exactAt_neZero _ _ _ _) (exactAt_neZero _ _ _ _)

/-- **Cutting a segment, code as it is (any guard, `thr ≥ 0`), away from the truncated branch**:
if at the frequency considered the masks of `_first_order_integral` hold for all level pairs of the
cut segment and the three durations `τ₁`, `τ₂`, `τ₁ + τ₂` (the hypothesis of `C13.cm_split_segment`),
the second-order filter function is unchanged.  (Where an entry falls into the truncated branch the
control-matrix contributions of the pieces no longer add up exactly, `C13.cm_split_segment_error`,
and neither do the cross terms.) -/
theorem secondOrder_split_segment_masks {nG d nO nA nK : ℕ} (kind : MaskKind) (thr : ℝ)
    (hthr : 0 ≤ thr)
    (eigvals : Mat ℝ nG d) (eigvecs props : Vector (Mat ℂ d d) nG)
    (eigvals' : Mat ℝ (nG + 1) d) (eigvecs' props' : Vector (Mat ℂ d d) (nG + 1))
    (omega : Vec ℝ nO) (basis : Vector (Mat ℂ d d) nK) (nOpers : Vector (Mat ℂ d d) nA)
    (nCoeffs : Mat ℝ nA nG) (nCoeffs' : Mat ℝ nA (nG + 1)) (dt t : Vec ℝ nG)
    (dt' t' : Vec ℝ (nG + 1)) (g₀ : Fin nG) (τ₁ τ₂ : ℝ)
    (hcut : IsSegmentCut eigvals eigvecs props nCoeffs dt t eigvals' eigvecs' props' nCoeffs' dt' t'
      g₀ g₀.succ τ₁ τ₂)
    (hV : (eigvecs[g₀].toMatrix)ᴴ * eigvecs[g₀].toMatrix = 1)
    (hN : ∀ (a : Fin nA) (i j : Fin d), (starRingEnd ℂ) nOpers[a][i][j] = nOpers[a][j][i])
    (hC : ∀ (k : Fin nK) (i j : Fin d), (starRingEnd ℂ) basis[k][i][j] = basis[k][j][i])
    (a b : Fin nA) (k l : Fin nK) (o : Fin nO)
    (hmask : ∀ m n : Fin d,
      firstOrderMask kind thr (omega[o] + (eigvals[g₀][m] - eigvals[g₀][n])) τ₁ = true ∧
      firstOrderMask kind thr (omega[o] + (eigvals[g₀][m] - eigvals[g₀][n])) τ₂ = true ∧
      firstOrderMask kind thr (omega[o] + (eigvals[g₀][m] - eigvals[g₀][n])) (τ₁ + τ₂) = true) :
    (secondOrderFFFromScratch kind thr eigvals' eigvecs' props' omega basis nOpers nCoeffs' dt'
        t')[a][b][k][l][o]
      = (secondOrderFFFromScratch kind thr eigvals eigvecs props omega basis nOpers nCoeffs dt
          t)[a][b][k][l][o] :=
  secondOrder_split_segment_of_exact kind thr eigvals eigvecs props eigvals' eigvecs' props' omega
    basis nOpers nCoeffs nCoeffs' dt t dt' t' g₀ τ₁ τ₂ hcut hV hN hC a b k l o
    (exactAt_of_mask kind thr hthr _ _ _ fun m n => (hmask m n).1)
    (exactAt_of_mask kind thr hthr _ _ _ fun m n => (hmask m n).2.1)
    (exactAt_of_mask kind thr hthr _ _ _ fun m n => (hmask m n).2.2)

/-- the mask hypothesis of `secondOrder_split_segment_masks` is satisfiable for the current guard
and threshold (a 2-level segment with splitting 1, `ω = 3`, durations `1`, `2`, `3`) -/
example : ∀ x ∈ ({3 + (1 - 0), 3 + (0 - 1), 3 + (0 - 0)} : Set ℝ),
    firstOrderMask .absTimesDtGt (1e-7 : ℝ) x 1 = true ∧
    firstOrderMask .absTimesDtGt (1e-7 : ℝ) x 2 = true ∧
    firstOrderMask .absTimesDtGt (1e-7 : ℝ) x (1 + 2) = true := by
  intro x hx
  simp only [Set.mem_insert_iff, Set.mem_singleton_iff] at hx
  rcases hx with rfl | rfl | rfl <;>
    (simp only [firstOrderMask, ropsLt, ropsAbs, decide_eq_true_eq]; norm_num)

/-- `IsSegmentCut` with the second piece directly after the first is satisfiable for every coarse
pulse, every segment `g₀` and every splitting `dt[g₀] = τ₁ + τ₂` (`C13.isSegmentCut_exists`) -/
example {nG d nA : ℕ} (eigvals : Mat ℝ nG d) (eigvecs props : Vector (Mat ℂ d d) nG)
    (nCoeffs : Mat ℝ nA nG) (dt t : Vec ℝ nG) (g₀ : Fin nG) (τ₁ τ₂ : ℝ) (hdt : dt[g₀] = τ₁ + τ₂) :
    ∃ (eigvals' : Mat ℝ (nG + 1) d) (eigvecs' props' : Vector (Mat ℂ d d) (nG + 1))
      (nCoeffs' : Mat ℝ nA (nG + 1)) (dt' t' : Vec ℝ (nG + 1)),
      IsSegmentCut eigvals eigvecs props nCoeffs dt t eigvals' eigvecs' props' nCoeffs' dt' t'
        g₀ g₀.succ τ₁ τ₂ :=
  isSegmentCut_exists eigvals eigvecs props nCoeffs dt t g₀ g₀.succ τ₁ τ₂ hdt

/-- `IsCutData coarse… fine… g₀ τ₁ τ₂`: the `eigh` data, sensitivities and durations of the fine
pulse (one segment more) are those of the coarse pulse with segment `g₀`, `dt[g₀] = τ₁ + τ₂`, replaced
by two consecutive segments (positions `g₀.castSucc = g₀.succ.succAbove g₀` and `g₀.succ`) of
durations `τ₁`, `τ₂` with the same eigenvalues, eigenvectors and sensitivities.  (Nothing about
propagators or times: those are computed by the model for each pulse.) -/
def IsCutData {nG d nA : ℕ} (eigvals : Mat ℝ nG d) (eigvecs : Vector (Mat ℂ d d) nG)
    (nCoeffs : Mat ℝ nA nG) (dt : Vec ℝ nG) (eigvals' : Mat ℝ (nG + 1) d)
    (eigvecs' : Vector (Mat ℂ d d) (nG + 1)) (nCoeffs' : Mat ℝ nA (nG + 1)) (dt' : Vec ℝ (nG + 1))
    (g₀ : Fin nG) (τ₁ τ₂ : ℝ) : Prop :=
  dt[g₀] = τ₁ + τ₂ ∧
  (∀ i : Fin nG, eigvals'[g₀.succ.succAbove i] = eigvals[i]) ∧
  (∀ i : Fin nG, eigvecs'[g₀.succ.succAbove i] = eigvecs[i]) ∧
  (∀ (a : Fin nA) (i : Fin nG), nCoeffs'[a][g₀.succ.succAbove i] = nCoeffs[a][i]) ∧
  (∀ i : Fin nG, i ≠ g₀ → dt'[g₀.succ.succAbove i] = dt[i]) ∧
  dt'[g₀.succ.succAbove g₀] = τ₁ ∧
  eigvals'[g₀.succ] = eigvals[g₀] ∧ eigvecs'[g₀.succ] = eigvecs[g₀] ∧
  (∀ a : Fin nA, nCoeffs'[a][g₀.succ] = nCoeffs[a][g₀]) ∧ dt'[g₀.succ] = τ₂

/-- `IsCutData` is satisfiable for every coarse pulse, every segment and every splitting of its
duration: insert the second piece at position `g₀ + 1` -/
theorem isCutData_exists {nG d nA : ℕ} (eigvals : Mat ℝ nG d) (eigvecs : Vector (Mat ℂ d d) nG)
    (nCoeffs : Mat ℝ nA nG) (dt : Vec ℝ nG) (g₀ : Fin nG) (τ₁ τ₂ : ℝ) (hdt : dt[g₀] = τ₁ + τ₂) :
    ∃ (eigvals' : Mat ℝ (nG + 1) d) (eigvecs' : Vector (Mat ℂ d d) (nG + 1))
      (nCoeffs' : Mat ℝ nA (nG + 1)) (dt' : Vec ℝ (nG + 1)),
      IsCutData eigvals eigvecs nCoeffs dt eigvals' eigvecs' nCoeffs' dt' g₀ τ₁ τ₂ := by
  refine ⟨Vector.ofFn (Fin.insertNth (α := fun _ => Vec ℝ d) g₀.succ eigvals[g₀] fun i => eigvals[i]),
    Vector.ofFn (Fin.insertNth (α := fun _ => Mat ℂ d d) g₀.succ eigvecs[g₀] fun i => eigvecs[i]),
    Mat.ofFn (fun a => Fin.insertNth (α := fun _ => ℝ) g₀.succ nCoeffs[a][g₀] fun i => nCoeffs[a][i]),
    Vector.ofFn (Fin.insertNth (α := fun _ => ℝ) g₀.succ τ₂ fun i => if i = g₀ then τ₁ else dt[i]),
    ?_⟩
  unfold IsCutData
  simp only [InvAux.vec_ofFn_get, Mat.ofFn_get, Fin.insertNth_apply_same,
    Fin.insertNth_apply_succAbove, if_true]
  exact ⟨hdt, fun _ => trivial, fun _ => trivial, fun _ _ => trivial, fun i hi => if_neg hi, trivial,
    trivial, trivial, fun _ => trivial, trivial⟩

/-- **Cutting a segment, end to end on the outputs of the model of `diagonalize`.**  Coarse pulse
with `eigh` outputs satisfying the contract `C02.IsEigh`; fine pulse = the coarse one with segment
`g₀` cut after `τ₁`, the `eigh` data of `g₀` used for both pieces (`IsCutData`); for EACH pulse the
cumulative propagators `propagators[:-1]` and the segment start times `t[:-1]` are those computed by
the model (`Model.propagators`, `Model.times`).  Then the two second-order filter functions
coincide.  No assumption on the propagators is left (`C13.isSegmentCut_of_model`, which rests on
`C13.propagators_split_segment` / `C13.times_split_segment`); `V†V = 1` comes from the contract. -/
theorem secondOrder_split_segment_model {nG d nO nA nK : ℕ} (thr : ℝ)
    (eigvals : Mat ℝ nG d) (eigvecs : Vector (Mat ℂ d d) nG) (nCoeffs : Mat ℝ nA nG)
    (dt : Vec ℝ nG)
    (eigvals' : Mat ℝ (nG + 1) d) (eigvecs' : Vector (Mat ℂ d d) (nG + 1))
    (nCoeffs' : Mat ℝ nA (nG + 1)) (dt' : Vec ℝ (nG + 1))
    (omega : Vec ℝ nO) (basis : Vector (Mat ℂ d d) nK) (nOpers : Vector (Mat ℂ d d) nA)
    (H : Fin nG → Matrix (Fin d) (Fin d) ℂ)
    (hE : ∀ g : Fin nG, IsEigh (H g) (fun j => eigvals[g.1][j]) eigvecs[g.1].toMatrix)
    (g₀ : Fin nG) (τ₁ τ₂ : ℝ)
    (hd : IsCutData eigvals eigvecs nCoeffs dt eigvals' eigvecs' nCoeffs' dt' g₀ τ₁ τ₂)
    (hN : ∀ (a : Fin nA) (i j : Fin d), (starRingEnd ℂ) nOpers[a][i][j] = nOpers[a][j][i])
    (hC : ∀ (k : Fin nK) (i j : Fin d), (starRingEnd ℂ) basis[k][i][j] = basis[k][j][i])
    (a b : Fin nA) (k l : Fin nK) (o : Fin nO) :
    (secondOrderFFFromScratch .neZero thr eigvals' eigvecs'
        (Vector.ofFn fun i : Fin (nG + 1) => (propagators eigvals' eigvecs' dt')[i.1]) omega basis
        nOpers nCoeffs' dt' (Vector.ofFn fun i : Fin (nG + 1) => (times dt')[i.1]))[a][b][k][l][o]
      = (secondOrderFFFromScratch .neZero thr eigvals eigvecs
          (Vector.ofFn fun i : Fin nG => (propagators eigvals eigvecs dt)[i.1]) omega basis nOpers
          nCoeffs dt (Vector.ofFn fun i : Fin nG => (times dt)[i.1]))[a][b][k][l][o] := by
  obtain ⟨hdt, hev, hvec, hco, hdt', hdt1, hev2, hvec2, hco2, hdt2⟩ := hd
  have hcut := isSegmentCut_of_model eigvals eigvecs nCoeffs dt eigvals' eigvecs' nCoeffs' dt' H hE g₀
    τ₁ τ₂ hdt hev hvec hco hdt' hdt1 hev2 hvec2 hco2 hdt2
  have hV : (eigvecs[g₀].toMatrix)ᴴ * eigvecs[g₀].toMatrix = 1 := by
    have h := (hE g₀).left
    simpa only [Fin.getElem_fin] using h
  exact secondOrder_split_segment thr eigvals eigvecs
    (Vector.ofFn fun i : Fin nG => (propagators eigvals eigvecs dt)[i.1]) eigvals' eigvecs'
    (Vector.ofFn fun i : Fin (nG + 1) => (propagators eigvals' eigvecs' dt')[i.1]) omega basis
    nOpers nCoeffs nCoeffs' dt (Vector.ofFn fun i : Fin nG => (times dt)[i.1]) dt'
    (Vector.ofFn fun i : Fin (nG + 1) => (times dt')[i.1]) g₀ τ₁ τ₂ hcut hV hN hC a b k l o

/-- **Merging two equal neighbouring segments.**  A pulse with `nG + 1` segments in which the
segments `g₀` and `g₀ + 1` (positions `g₀.castSucc`, `g₀.succ`) have the same `eigh` data and the
same sensitivities, the second starting where the first ends (`t`) with the cumulative propagator
`V e^{-iλ dt_{g₀}} V† Q_{g₀}` advanced accordingly, has the same second-order filter function as the
pulse with segment `g₀ + 1` deleted and `dt[g₀]` replaced by the sum of the two durations
(what `_join_equal_segments` produces).  Hypotheses as in `secondOrder_split_segment`. -/
theorem secondOrder_merge_equal {nG d nO nA nK : ℕ} (thr : ℝ)
    (eigvals : Mat ℝ (nG + 1) d) (eigvecs props : Vector (Mat ℂ d d) (nG + 1)) (omega : Vec ℝ nO)
    (basis : Vector (Mat ℂ d d) nK) (nOpers : Vector (Mat ℂ d d) nA)
    (nCoeffs : Mat ℝ nA (nG + 1)) (dt t : Vec ℝ (nG + 1)) (g₀ : Fin nG)
    (hev : eigvals[g₀.succ] = eigvals[g₀.castSucc]) (hvec : eigvecs[g₀.succ] = eigvecs[g₀.castSucc])
    (hco : ∀ a : Fin nA, nCoeffs[a][g₀.succ] = nCoeffs[a][g₀.castSucc])
    (ht : t[g₀.succ] = t[g₀.castSucc] + dt[g₀.castSucc])
    (hprop : props[g₀.succ].toMatrix = C01.Useg (fun m => eigvals[g₀.castSucc][m])
      eigvecs[g₀.castSucc].toMatrix props[g₀.castSucc].toMatrix dt[g₀.castSucc])
    (hV : (eigvecs[g₀.castSucc].toMatrix)ᴴ * eigvecs[g₀.castSucc].toMatrix = 1)
    (hN : ∀ (a : Fin nA) (i j : Fin d), (starRingEnd ℂ) nOpers[a][i][j] = nOpers[a][j][i])
    (hC : ∀ (k : Fin nK) (i j : Fin d), (starRingEnd ℂ) basis[k][i][j] = basis[k][j][i])
    (a b : Fin nA) (k l : Fin nK) (o : Fin nO) :
    (secondOrderFFFromScratch .neZero thr eigvals eigvecs props omega basis nOpers nCoeffs dt
        t)[a][b][k][l][o]
      = (secondOrderFFFromScratch .neZero thr
          (Vector.ofFn fun i : Fin nG => eigvals[g₀.succ.succAbove i])
          (Vector.ofFn fun i => eigvecs[g₀.succ.succAbove i])
          (Vector.ofFn fun i => props[g₀.succ.succAbove i]) omega basis nOpers
          (Mat.ofFn fun a i => nCoeffs[a][g₀.succ.succAbove i])
          (Vector.ofFn fun i => if i = g₀ then dt[g₀.castSucc] + dt[g₀.succ]
            else dt[g₀.succ.succAbove i])
          (Vector.ofFn fun i => t[g₀.succ.succAbove i]))[a][b][k][l][o] := by
  have hs : g₀.succ.succAbove g₀ = g₀.castSucc := Fin.succAbove_succ_self g₀
  refine secondOrder_split_segment thr _ _ _ eigvals eigvecs props omega basis nOpers _ nCoeffs _ _
    dt t g₀ dt[g₀.castSucc] dt[g₀.succ] ?_ ?_ hN hC a b k l o
  · unfold IsSegmentCut
    simp only [InvAux.vec_ofFn_get, Mat.ofFn_get, if_true, hs]
    refine ⟨trivial, fun _ => trivial, fun _ => trivial, fun _ => trivial, fun _ _ => trivial,
      fun _ => trivial, fun i hi => (if_neg hi).symm, trivial, hev, hvec, hprop, hco, ht, trivial⟩
  · rw [InvAux.vec_ofFn_get, show eigvecs[g₀.succ.succAbove g₀] = eigvecs[g₀.castSucc] from
      congrArg (fun i : Fin (nG + 1) => eigvecs[i]) hs]
    exact hV

/-! ### 5. Sensitivities and noise operators: bilinearity -/

/-- **The sensitivities enter bilinearly, segment by segment.**  Entry `[a][b]` of the second-order
filter function is the loop value
`Σ_g ( s_a(g) s_b(g) · step¹_g + s_a(g) conj(cm¹_g[a]) · Σ_{g'<g} s_b(g') cm¹_{g'}[b] )`
where `step¹`, `cm¹` are the per-segment numbers computed with all sensitivities equal to one: it
depends on the sensitivities only through the rows `s_a`, `s_b`, linearly in each (for `a = b`:
quadratically in `s_a`).  Every guard, operators Hermitian or not. -/
theorem secondOrder_coeffs_factor {nG d nO nA nK : ℕ} (kind : MaskKind) (thr : ℝ)
    (eigvals : Mat ℝ nG d) (eigvecs props : Vector (Mat ℂ d d) nG) (omega : Vec ℝ nO)
    (basis : Vector (Mat ℂ d d) nK) (nOpers : Vector (Mat ℂ d d) nA) (nCoeffs : Mat ℝ nA nG)
    (dt t : Vec ℝ nG) (a b : Fin nA) (k l : Fin nK) (o : Fin nO) :
    (secondOrderFFFromScratch kind thr eigvals eigvecs props omega basis nOpers nCoeffs dt
        t)[a][b][k][l][o]
      = loopSum nG
          (fun g => (nCoeffs[a][g] : ℂ) * (nCoeffs[b][g] : ℂ)
            * stepOf eigvals eigvecs props omega basis nOpers (Mat.ofFn fun _ _ => (1 : ℝ)) dt
                a b k l o g)
          (fun g => (nCoeffs[a][g] : ℂ) * (starRingEnd ℂ) (cmOf kind thr eigvals eigvecs props omega
            basis nOpers (Mat.ofFn fun _ _ => (1 : ℝ)) dt t a k o g))
          (fun g => (nCoeffs[b][g] : ℂ) * cmOf kind thr eigvals eigvecs props omega basis nOpers
            (Mat.ofFn fun _ _ => (1 : ℝ)) dt t b l o g) := by
  rw [F2_entry']
  have hn : ∀ (a' : Fin nA) (g : Fin nG), nMat eigvecs[g] nOpers[a'] nCoeffs[a'][g]
      = (nCoeffs[a'][g] : ℂ) • nMat eigvecs[g] nOpers[a'] 1 := by
    intro a' g
    rw [← nMat_coeff_mul, mul_one]
  congr 1
  · funext g
    unfold stepOf
    rw [hn a g, hn b g, segStep_smul, Mat.ofFn_get, Mat.ofFn_get]
  · funext g
    unfold cmOf
    rw [hn a g, segCm_smul, map_mul, Complex.conj_ofReal, Mat.ofFn_get]
  · funext g
    unfold cmOf
    rw [hn b g, segCm_smul, Mat.ofFn_get]

/-- **Rescaling the sensitivity rows**: with row `a` of `n_coeffs` multiplied by a real constant
`c a` (on all segments), `F2[a,b]` is multiplied by `c a · c b`. -/
theorem secondOrder_scale_coeffs {nG d nO nA nK : ℕ} (kind : MaskKind) (thr : ℝ)
    (eigvals : Mat ℝ nG d) (eigvecs props : Vector (Mat ℂ d d) nG) (omega : Vec ℝ nO)
    (basis : Vector (Mat ℂ d d) nK) (nOpers : Vector (Mat ℂ d d) nA) (nCoeffs : Mat ℝ nA nG)
    (dt t : Vec ℝ nG) (c : Fin nA → ℝ) (a b : Fin nA) (k l : Fin nK) (o : Fin nO) :
    (secondOrderFFFromScratch kind thr eigvals eigvecs props omega basis nOpers
        (Mat.ofFn fun a g => c a * nCoeffs[a][g]) dt t)[a][b][k][l][o]
      = (c a : ℂ) * (c b : ℂ) * (secondOrderFFFromScratch kind thr eigvals eigvecs props omega basis
          nOpers nCoeffs dt t)[a][b][k][l][o] := by
  rw [F2_entry', F2_entry', ← loopSum_smul]
  congr 1
  · funext g
    unfold stepOf
    rw [Mat.ofFn_get, Mat.ofFn_get, nMat_coeff_mul, nMat_coeff_mul, segStep_smul]
  · funext g
    unfold cmOf
    rw [Mat.ofFn_get, nMat_coeff_mul, segCm_smul, map_mul, Complex.conj_ofReal]
  · funext g
    unfold cmOf
    rw [Mat.ofFn_get, nMat_coeff_mul, segCm_smul]

/-- **Linearity in the sensitivity row of the FIRST noise index** (`a ≠ b` implicit in the
hypotheses): if row `a` is `c·s₁ + s₂` on every segment and row `b` is the same in the three
sensitivity matrices, then `F2[a,b] = c·F2₁[a,b] + F2₂[a,b]`. -/
theorem secondOrder_linear_coeffs_left {nG d nO nA nK : ℕ} (kind : MaskKind) (thr : ℝ)
    (eigvals : Mat ℝ nG d) (eigvecs props : Vector (Mat ℂ d d) nG) (omega : Vec ℝ nO)
    (basis : Vector (Mat ℂ d d) nK) (nOpers : Vector (Mat ℂ d d) nA)
    (nCoeffs nCoeffs₁ nCoeffs₂ : Mat ℝ nA nG) (dt t : Vec ℝ nG) (a b : Fin nA) (c : ℝ)
    (ha : ∀ g : Fin nG, nCoeffs[a][g] = c * nCoeffs₁[a][g] + nCoeffs₂[a][g])
    (hb : ∀ g : Fin nG, nCoeffs₁[b][g] = nCoeffs[b][g] ∧ nCoeffs₂[b][g] = nCoeffs[b][g])
    (k l : Fin nK) (o : Fin nO) :
    (secondOrderFFFromScratch kind thr eigvals eigvecs props omega basis nOpers nCoeffs dt
        t)[a][b][k][l][o]
      = (c : ℂ) * (secondOrderFFFromScratch kind thr eigvals eigvecs props omega basis nOpers
          nCoeffs₁ dt t)[a][b][k][l][o]
        + (secondOrderFFFromScratch kind thr eigvals eigvecs props omega basis nOpers nCoeffs₂ dt
          t)[a][b][k][l][o] := by
  rw [F2_entry', F2_entry', F2_entry']
  have hy : ∀ n' : Mat ℝ nA nG, (∀ g : Fin nG, n'[b][g] = nCoeffs[b][g]) →
      cmOf kind thr eigvals eigvecs props omega basis nOpers n' dt t b l o
        = cmOf kind thr eigvals eigvecs props omega basis nOpers nCoeffs dt t b l o := by
    intro n' h
    funext g
    unfold cmOf
    rw [h g]
  rw [hy nCoeffs₁ (fun g => (hb g).1), hy nCoeffs₂ (fun g => (hb g).2), ← loopSum_linear_left]
  congr 1
  · funext g
    unfold stepOf
    rw [ha g, (hb g).1, (hb g).2, nMat_coeff_linear, segStep_linear_left]
  · funext g
    unfold cmOf
    rw [ha g, nMat_coeff_linear, segCm_linear, map_add, map_mul, Complex.conj_ofReal]

/-- **Linearity in the sensitivity row of the SECOND noise index.** -/
theorem secondOrder_linear_coeffs_right {nG d nO nA nK : ℕ} (kind : MaskKind) (thr : ℝ)
    (eigvals : Mat ℝ nG d) (eigvecs props : Vector (Mat ℂ d d) nG) (omega : Vec ℝ nO)
    (basis : Vector (Mat ℂ d d) nK) (nOpers : Vector (Mat ℂ d d) nA)
    (nCoeffs nCoeffs₁ nCoeffs₂ : Mat ℝ nA nG) (dt t : Vec ℝ nG) (a b : Fin nA) (c : ℝ)
    (hb : ∀ g : Fin nG, nCoeffs[b][g] = c * nCoeffs₁[b][g] + nCoeffs₂[b][g])
    (ha : ∀ g : Fin nG, nCoeffs₁[a][g] = nCoeffs[a][g] ∧ nCoeffs₂[a][g] = nCoeffs[a][g])
    (k l : Fin nK) (o : Fin nO) :
    (secondOrderFFFromScratch kind thr eigvals eigvecs props omega basis nOpers nCoeffs dt
        t)[a][b][k][l][o]
      = (c : ℂ) * (secondOrderFFFromScratch kind thr eigvals eigvecs props omega basis nOpers
          nCoeffs₁ dt t)[a][b][k][l][o]
        + (secondOrderFFFromScratch kind thr eigvals eigvecs props omega basis nOpers nCoeffs₂ dt
          t)[a][b][k][l][o] := by
  rw [F2_entry', F2_entry', F2_entry']
  have hx : ∀ n' : Mat ℝ nA nG, (∀ g : Fin nG, n'[a][g] = nCoeffs[a][g]) →
      (fun g => (starRingEnd ℂ)
        (cmOf kind thr eigvals eigvecs props omega basis nOpers n' dt t a k o g))
        = fun g => (starRingEnd ℂ)
          (cmOf kind thr eigvals eigvecs props omega basis nOpers nCoeffs dt t a k o g) := by
    intro n' h
    funext g
    unfold cmOf
    rw [h g]
  rw [hx nCoeffs₁ (fun g => (ha g).1), hx nCoeffs₂ (fun g => (ha g).2), ← loopSum_linear_right]
  congr 1
  · funext g
    unfold stepOf
    rw [hb g, (ha g).1, (ha g).2, nMat_coeff_linear, segStep_linear_right]
  · funext g
    unfold cmOf
    rw [hb g, nMat_coeff_linear, segCm_linear]

/-- **Linearity in the noise operator of the SECOND noise index** (complex coefficient): if
`B_b = c·B¹_b + B²_b` and the operator `a` is the same in the three lists, then
`F2[a,b] = c·F2¹[a,b] + F2²[a,b]`. -/
theorem secondOrder_linear_opers_right {nG d nO nA nK : ℕ} (kind : MaskKind) (thr : ℝ)
    (eigvals : Mat ℝ nG d) (eigvecs props : Vector (Mat ℂ d d) nG) (omega : Vec ℝ nO)
    (basis : Vector (Mat ℂ d d) nK) (nOpers nOpers₁ nOpers₂ : Vector (Mat ℂ d d) nA)
    (nCoeffs : Mat ℝ nA nG) (dt t : Vec ℝ nG) (a b : Fin nA) (c : ℂ)
    (hb : nOpers[b].toMatrix = c • nOpers₁[b].toMatrix + nOpers₂[b].toMatrix)
    (ha : nOpers₁[a].toMatrix = nOpers[a].toMatrix ∧ nOpers₂[a].toMatrix = nOpers[a].toMatrix)
    (k l : Fin nK) (o : Fin nO) :
    (secondOrderFFFromScratch kind thr eigvals eigvecs props omega basis nOpers nCoeffs dt
        t)[a][b][k][l][o]
      = c * (secondOrderFFFromScratch kind thr eigvals eigvecs props omega basis nOpers₁
          nCoeffs dt t)[a][b][k][l][o]
        + (secondOrderFFFromScratch kind thr eigvals eigvecs props omega basis nOpers₂ nCoeffs dt
          t)[a][b][k][l][o] := by
  rw [F2_entry', F2_entry', F2_entry']
  have hx : ∀ n' : Vector (Mat ℂ d d) nA, n'[a].toMatrix = nOpers[a].toMatrix →
      (fun g => (starRingEnd ℂ)
        (cmOf kind thr eigvals eigvecs props omega basis n' nCoeffs dt t a k o g))
        = fun g => (starRingEnd ℂ)
          (cmOf kind thr eigvals eigvecs props omega basis nOpers nCoeffs dt t a k o g) := by
    intro n' h
    funext g
    unfold cmOf
    rw [nMat_congr _ _ _ _ h]
  rw [hx nOpers₁ ha.1, hx nOpers₂ ha.2, ← loopSum_linear_right]
  congr 1
  · funext g
    unfold stepOf
    rw [nMat_oper_linear _ _ _ _ c _ hb, nMat_congr _ _ _ _ ha.1, nMat_congr _ _ _ _ ha.2,
      segStep_linear_right]
  · funext g
    unfold cmOf
    rw [nMat_oper_linear _ _ _ _ c _ hb, segCm_linear]

/-- **Linearity in the noise operator of the FIRST noise index** — for a REAL coefficient: the
"last interval" term is complex-linear in `B_a`, the cross term contains
`conj(ctrlmat_step[a])` and is conjugate-linear, so for complex `c` the two parts scale
differently (`c` resp. `conj c`); Hermitian noise operators only allow real combinations anyway. -/
theorem secondOrder_linear_opers_left {nG d nO nA nK : ℕ} (kind : MaskKind) (thr : ℝ)
    (eigvals : Mat ℝ nG d) (eigvecs props : Vector (Mat ℂ d d) nG) (omega : Vec ℝ nO)
    (basis : Vector (Mat ℂ d d) nK) (nOpers nOpers₁ nOpers₂ : Vector (Mat ℂ d d) nA)
    (nCoeffs : Mat ℝ nA nG) (dt t : Vec ℝ nG) (a b : Fin nA) (c : ℝ)
    (ha : nOpers[a].toMatrix = (c : ℂ) • nOpers₁[a].toMatrix + nOpers₂[a].toMatrix)
    (hb : nOpers₁[b].toMatrix = nOpers[b].toMatrix ∧ nOpers₂[b].toMatrix = nOpers[b].toMatrix)
    (k l : Fin nK) (o : Fin nO) :
    (secondOrderFFFromScratch kind thr eigvals eigvecs props omega basis nOpers nCoeffs dt
        t)[a][b][k][l][o]
      = (c : ℂ) * (secondOrderFFFromScratch kind thr eigvals eigvecs props omega basis nOpers₁
          nCoeffs dt t)[a][b][k][l][o]
        + (secondOrderFFFromScratch kind thr eigvals eigvecs props omega basis nOpers₂ nCoeffs dt
          t)[a][b][k][l][o] := by
  rw [F2_entry', F2_entry', F2_entry']
  have hy : ∀ n' : Vector (Mat ℂ d d) nA, n'[b].toMatrix = nOpers[b].toMatrix →
      cmOf kind thr eigvals eigvecs props omega basis n' nCoeffs dt t b l o
        = cmOf kind thr eigvals eigvecs props omega basis nOpers nCoeffs dt t b l o := by
    intro n' h
    funext g
    unfold cmOf
    rw [nMat_congr _ _ _ _ h]
  rw [hy nOpers₁ hb.1, hy nOpers₂ hb.2, ← loopSum_linear_left]
  congr 1
  · funext g
    unfold stepOf
    rw [nMat_oper_linear _ _ _ _ (c : ℂ) _ ha, nMat_congr _ _ _ _ hb.1, nMat_congr _ _ _ _ hb.2,
      segStep_linear_left]
  · funext g
    unfold cmOf
    rw [nMat_oper_linear _ _ _ _ (c : ℂ) _ ha, segCm_linear, map_add, map_mul, Complex.conj_ofReal]

/-- the hypotheses of `secondOrder_linear_coeffs_left` are satisfiable with `a ≠ b` -/
example : ∃ (n n₁ n₂ : Mat ℝ 2 1) (c : ℝ),
    (∀ g : Fin 1, n[(0 : Fin 2)][g] = c * n₁[(0 : Fin 2)][g] + n₂[(0 : Fin 2)][g]) ∧
    (∀ g : Fin 1, n₁[(1 : Fin 2)][g] = n[(1 : Fin 2)][g] ∧ n₂[(1 : Fin 2)][g] = n[(1 : Fin 2)][g]) := by
  refine ⟨#v[#v[7], #v[5]], #v[#v[2], #v[5]], #v[#v[1], #v[5]], 3, ?_, ?_⟩
  · intro g; fin_cases g; norm_num
  · intro g; fin_cases g; exact ⟨rfl, rfl⟩

end FFVerif.C13
