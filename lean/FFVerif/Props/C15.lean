/-
C15 — Liouville representation, basis expansion and Choi matrix: algebraic properties of the
specification (`Spec.liou`) and correspondence of the executable model (`Model.liouville`,
`Model.expand`, `Model.liouvilleToChoi`) with it.
Property theorems only (helper lemmas live in FFVerif/Lemmas/LiouvilleAux.lean).
-/
import FFVerif.Lemmas.LiouvilleAux
import FFVerif.Gen.Constants

namespace FFVerif.C15
open FFVerif Matrix

section spec
variable {N d : Nat} {C : Fin N → Matrix (Fin d) (Fin d) ℂ}

/-- **Swap identity.** For a complete family, `Σ_j (C_j)_{ab} (C_j)_{ce} = δ_{ae} δ_{bc}`
(completeness applied to a matrix unit). -/
theorem swap_identity (hC : Spec.IsComplete C) (a b c e : Fin d) :
    ∑ j, C j a b * C j c e = if a = e ∧ b = c then 1 else 0 := by
  have h := Spec.complete_apply hC (Matrix.single b a (1 : ℂ)) c e
  simp only [Spec.trace_single_mul'] at h
  rw [← h, Matrix.single_apply]
  simp only [and_comm]

/-- Converse of `swap_identity`: the swap identity implies completeness. -/
theorem complete_of_swap
    (h : ∀ a b c e : Fin d, ∑ j, C j a b * C j c e = if a = e ∧ b = c then 1 else 0) :
    Spec.IsComplete C := by
  intro M
  ext c e
  simp only [Matrix.sum_apply, Matrix.smul_apply, smul_eq_mul, Matrix.trace, Matrix.diag_apply,
    Matrix.mul_apply, Finset.sum_mul]
  have h1 : ∀ j, ∑ x, ∑ y, M x y * C j y x * C j c e = ∑ x, ∑ y, M x y * (C j y x * C j c e) := by
    intro j
    exact Finset.sum_congr rfl fun x _ => Finset.sum_congr rfl fun y _ => mul_assoc _ _ _
  simp only [h1]
  rw [Finset.sum_comm]
  have h2 : ∀ x, ∑ j, ∑ y, M x y * (C j y x * C j c e) = if x = c then M x e else 0 := by
    intro x
    rw [Finset.sum_comm]
    simp only [← Finset.mul_sum, h]
    simp [ite_and, eq_comm]
  simp only [h2]
  simp

/-- **Reality.** For Hermitian basis elements every entry of the Liouville representation
`tr(C_i U C_j U†)` is real, for *every* matrix `U` (unitary or not). -/
theorem liou_real (hC : Spec.IsOrthoHerm C) (U : Matrix (Fin d) (Fin d) ℂ) (i j : Fin N) :
    starRingEnd ℂ (Spec.liou C U i j) = Spec.liou C U i j := by
  unfold Spec.liou
  rw [starRingEnd_apply, ← trace_conjTranspose]
  simp only [conjTranspose_mul, conjTranspose_conjTranspose, hC.herm]
  rw [← Matrix.mul_assoc, ← Matrix.mul_assoc, trace_mul_comm]
  simp only [Matrix.mul_assoc]

/-- the identity channel is represented by the identity matrix -/
theorem liou_one (hC : Spec.IsOrthoHerm C) : Spec.liou C 1 = 1 := by
  ext i j
  simp only [Spec.liou, Matrix.mul_one, conjTranspose_one, hC.ortho, Matrix.one_apply]

/-- **Multiplicativity.** For a complete family, `L(UV) = L(U) L(V)` for all matrices `U`, `V`. -/
theorem liou_mul (hC : Spec.IsComplete C) (U V : Matrix (Fin d) (Fin d) ℂ) :
    Spec.liou C (U * V) = Spec.liou C U * Spec.liou C V := by
  ext i j
  simp only [Spec.liou, Matrix.mul_apply, conjTranspose_mul]
  have h := Spec.trace_expand hC (V * C j * Vᴴ) (C i * U) Uᴴ
  simp only [Matrix.mul_assoc] at h ⊢
  rw [h]
  refine Finset.sum_congr rfl fun k _ => ?_
  rw [mul_comm]
  congr 1
  rw [← Matrix.mul_assoc, ← Matrix.mul_assoc, trace_mul_comm]
  simp only [Matrix.mul_assoc]

/-- `L(U)ᵀ = L(U†)` (trace cyclicity; no hypothesis on the family or on `U`). -/
theorem liou_transpose (U : Matrix (Fin d) (Fin d) ℂ) :
    (Spec.liou C U)ᵀ = Spec.liou C Uᴴ := by
  ext i j
  simp only [Spec.liou, Matrix.transpose_apply, conjTranspose_conjTranspose]
  rw [Matrix.mul_assoc, trace_mul_comm]
  simp only [Matrix.mul_assoc]

/-- **Orthogonality.** For a complete Hermitian orthonormal family and unitary `U`, the Liouville
representation is an orthogonal matrix. -/
theorem liou_orthogonal (hC : Spec.IsComplete C) (hH : Spec.IsOrthoHerm C)
    (U : Matrix (Fin d) (Fin d) ℂ) (h1 : U * Uᴴ = 1) (h2 : Uᴴ * U = 1) :
    Spec.liou C U * (Spec.liou C U)ᵀ = 1 ∧ (Spec.liou C U)ᵀ * Spec.liou C U = 1 := by
  rw [liou_transpose, ← liou_mul hC, ← liou_mul hC, h1, h2]
  exact ⟨liou_one hH, liou_one hH⟩

/-- **Transfer identity** (algebraic core of pulse concatenation): the expansion coefficients of
`U† X U` are those of `X` multiplied by the Liouville representation of `U`. -/
theorem liouville_transfer (hC : Spec.IsComplete C) (X U : Matrix (Fin d) (Fin d) ℂ) (k : Fin N) :
    trace (Uᴴ * X * U * C k) = ∑ j, trace (X * C j) * Spec.liou C U j k := by
  have h := Spec.trace_expand hC X Uᴴ (U * C k)
  simp only [Matrix.mul_assoc] at h ⊢
  rw [h]
  refine Finset.sum_congr rfl fun j _ => ?_
  congr 1
  unfold Spec.liou
  rw [trace_mul_comm]
  simp only [Matrix.mul_assoc]

end spec

/-! ### Model ↔ specification -/

section model
variable {N d : Nat}

/-- **`basis.expand` computes the Hilbert–Schmidt coefficients** `c_j = tr(M C_j)`. -/
theorem expand_entries (M : Mat ℂ d d) (C : Vector (Mat ℂ d d) N) (j : Fin N) :
    (Model.expand M C false)[j] = trace (M.toMatrix * Spec.basisOf C j) := by
  rw [Fin.getElem_fin, Model.expand_getElem_nat]

/-- **`basis.expand` is inverted by the basis sum** for a complete basis:
`M = Σ_j expand(M)_j C_j`. -/
theorem expand_inverse (M : Mat ℂ d d) (C : Vector (Mat ℂ d d) N)
    (hC : Spec.IsComplete (Spec.basisOf C)) :
    M.toMatrix = ∑ j, (Model.expand M C false)[j] • Spec.basisOf C j := by
  simp only [expand_entries]
  exact hC M.toMatrix

/-- **`liouville_representation` computes `tr(C_i U C_j U†)`** (every `U`, every basis). -/
theorem liouville_entries (U : Mat ℂ d d) (C : Vector (Mat ℂ d d) N) (i j : Fin N) :
    (Model.liouville U C false)[i][j] = Spec.liou (Spec.basisOf C) U.toMatrix i j := by
  rw [Fin.getElem_fin, Fin.getElem_fin, Model.liouville_getElem_nat, Model.expand_getElem_nat,
    Model.conjBasis_toMatrix]
  unfold Spec.liou
  simp only [Matrix.mul_assoc]
  rw [trace_mul_comm]
  simp only [Matrix.mul_assoc]

/-- **The `.real` cast of `liouville_representation` loses nothing** for a Hermitian basis
(for every `U`, unitary or not). -/
theorem liouville_castReal (U : Mat ℂ d d) (C : Vector (Mat ℂ d d) N)
    (hC : Spec.IsOrthoHerm (Spec.basisOf C)) :
    Model.liouville U C true = Model.liouville U C false := by
  apply Vector.ext; intro i hi
  apply Vector.ext; intro j hj
  have h := liouville_entries U C ⟨i, hi⟩ ⟨j, hj⟩
  have hr := liou_real hC U.toMatrix ⟨i, hi⟩ ⟨j, hj⟩
  rw [← h] at hr
  simp only [Fin.getElem_fin] at hr
  rw [Model.liouville_getElem_nat, Model.expand_true_getElem_nat, ← Model.liouville_getElem_nat]
  exact Complex.conj_eq_iff_re.mp hr

end model

/-! ### Choi matrix -/

section choi
variable {N d : Nat}

/-- **Entry formula of `liouville_to_choi`** at row `(a, c)`, column `(b, e)` (row-major
flattening): `Σ_ij S_ij (C_j)_{ba} (C_i)_{ce}`. -/
theorem choi_entries (S : Mat ℂ N N) (C : Vector (Mat ℂ d d) N) (a c b e : Fin d) :
    (Model.liouvilleToChoi S C)[Fin.flat a c][Fin.flat b e]
      = ∑ i : Fin N, ∑ j : Fin N, S[i][j] * C[j][b][a] * C[i][c][e] := by
  rw [Model.choi_getElem]
  simp only [Fin.hi_flat, Fin.lo_flat]

/-- **Choi matrix of a unitary channel**: for a complete basis the Choi matrix of
`liouville_representation(U)` is the rank-one matrix `v v†` with `v_{(a,c)} = U_{ca}`. -/
theorem choi_of_unitary (U : Mat ℂ d d) (C : Vector (Mat ℂ d d) N)
    (hC : Spec.IsComplete (Spec.basisOf C)) (a c b e : Fin d) :
    (Model.liouvilleToChoi (Model.liouville U C false) C)[Fin.flat a c][Fin.flat b e]
      = U[c][a] * starRingEnd ℂ U[e][b] := by
  rw [choi_entries]
  simp only [liouville_entries]
  exact Spec.choi_sum_liou hC U.toMatrix a b c e

/-- the quadratic form of the Choi matrix of a unitary channel is a squared modulus -/
theorem choi_of_unitary_quadForm (U : Mat ℂ d d) (C : Vector (Mat ℂ d d) N)
    (hC : Spec.IsComplete (Spec.basisOf C)) (x : Fin (d * d) → ℂ) :
    ∑ r, ∑ s, starRingEnd ℂ (x r)
        * (Model.liouvilleToChoi (Model.liouville U C false) C)[r][s] * x s
      = ((‖∑ r : Fin (d * d), starRingEnd ℂ (x r) * U[Fin.lo r][Fin.hi r]‖ ^ 2 : ℝ) : ℂ) := by
  have hent : ∀ r s : Fin (d * d),
      (Model.liouvilleToChoi (Model.liouville U C false) C)[r][s]
        = U[Fin.lo r][Fin.hi r] * starRingEnd ℂ U[Fin.lo s][Fin.hi s] := by
    intro r s
    have h := choi_of_unitary U C hC (Fin.hi r) (Fin.lo r) (Fin.hi s) (Fin.lo s)
    simpa only [Fin.flat_hi_lo] using h
  simp only [hent]
  push_cast
  rw [← Complex.mul_conj', map_sum, Finset.sum_mul_sum]
  refine Finset.sum_congr rfl fun r _ => Finset.sum_congr rfl fun s _ => ?_
  rw [map_mul, Complex.conj_conj]; ring

/-- **Complete positivity of unitary channels**: the Choi matrix of
`liouville_representation(U)` is positive semidefinite (real, non-negative quadratic form), for
every matrix `U` and every complete basis. -/
theorem choi_of_unitary_posSemidef (U : Mat ℂ d d) (C : Vector (Mat ℂ d d) N)
    (hC : Spec.IsComplete (Spec.basisOf C)) (x : Fin (d * d) → ℂ) :
    0 ≤ (∑ r, ∑ s, starRingEnd ℂ (x r)
        * (Model.liouvilleToChoi (Model.liouville U C false) C)[r][s] * x s).re ∧
    (∑ r, ∑ s, starRingEnd ℂ (x r)
        * (Model.liouvilleToChoi (Model.liouville U C false) C)[r][s] * x s).im = 0 := by
  rw [choi_of_unitary_quadForm U C hC x]
  refine ⟨?_, Complex.ofReal_im _⟩
  have h : (0 : ℝ) ≤ ‖∑ r : Fin (d * d), starRingEnd ℂ (x r) * U[Fin.lo r][Fin.hi r]‖ ^ 2 :=
    pow_nonneg (norm_nonneg _) 2
  exact_mod_cast h

/-- **Choi matrix of the transposition map** `S_ij = tr(C_i C_jᵀ)`: for a complete basis it is
the SWAP operator. -/
theorem transpose_choi_entries (S : Mat ℂ N N) (C : Vector (Mat ℂ d d) N)
    (hC : Spec.IsComplete (Spec.basisOf C))
    (hS : ∀ i j : Fin N, S[i][j] = trace (Spec.basisOf C i * (Spec.basisOf C j)ᵀ))
    (a c b e : Fin d) :
    (Model.liouvilleToChoi S C)[Fin.flat a c][Fin.flat b e]
      = if a = e ∧ c = b then 1 else 0 := by
  rw [choi_entries]
  have h1 : ∀ i : Fin N, ∑ j : Fin N, S[i][j] * C[j][b][a] * C[i][c][e]
      = Spec.basisOf C i a b * Spec.basisOf C i c e := by
    intro i
    rw [← Finset.sum_mul]
    congr 1
    have h := Spec.complete_apply hC (Spec.basisOf C i)ᵀ b a
    rw [Matrix.transpose_apply] at h
    rw [h]
    refine Finset.sum_congr rfl fun j _ => ?_
    rw [hS, ← trace_transpose_mul, Matrix.transpose_transpose]
    rfl
  simp only [h1]
  rw [swap_identity hC]
  simp only [eq_comm]

/-- **Transposition is not completely positive**: for `d ≥ 2` the Choi matrix computed by
`liouville_to_choi` from the Liouville representation of the transposition map has a vector with
negative quadratic form (`x = e_{(0,1)} − e_{(1,0)}`, value `-2`). -/
theorem transpose_not_cp (S : Mat ℂ N N) (C : Vector (Mat ℂ d d) N)
    (hC : Spec.IsComplete (Spec.basisOf C))
    (hS : ∀ i j : Fin N, S[i][j] = trace (Spec.basisOf C i * (Spec.basisOf C j)ᵀ))
    (hd : 2 ≤ d) :
    ∃ x : Fin (d * d) → ℂ,
      (∑ r, ∑ s, starRingEnd ℂ (x r) * (Model.liouvilleToChoi S C)[r][s] * x s).re < 0 := by
  let i0 : Fin d := ⟨0, by omega⟩
  let i1 : Fin d := ⟨1, by omega⟩
  have h01 : i0 ≠ i1 := by
    intro h; exact absurd (congrArg Fin.val h) (by simp [i0, i1])
  have h10 : i1 ≠ i0 := h01.symm
  let p : Fin (d * d) := Fin.flat i0 i1
  let q : Fin (d * d) := Fin.flat i1 i0
  have hpp : (Model.liouvilleToChoi S C)[p][p] = 0 := by
    simp only [p]; rw [transpose_choi_entries S C hC hS]; simp [h01]
  have hqq : (Model.liouvilleToChoi S C)[q][q] = 0 := by
    simp only [q]; rw [transpose_choi_entries S C hC hS]; simp [h10]
  have hpq : (Model.liouvilleToChoi S C)[p][q] = 1 := by
    simp only [p, q]; rw [transpose_choi_entries S C hC hS]; simp
  have hqp : (Model.liouvilleToChoi S C)[q][p] = 1 := by
    simp only [p, q]; rw [transpose_choi_entries S C hC hS]; simp
  refine ⟨fun r => (if r = p then 1 else 0) - (if r = q then 1 else 0), ?_⟩
  have hsum : ∑ r, ∑ s, starRingEnd ℂ ((if r = p then (1 : ℂ) else 0) - (if r = q then 1 else 0))
        * (Model.liouvilleToChoi S C)[r][s]
        * ((if s = p then (1 : ℂ) else 0) - (if s = q then 1 else 0))
      = (Model.liouvilleToChoi S C)[p][p] - (Model.liouvilleToChoi S C)[p][q]
        - ((Model.liouvilleToChoi S C)[q][p] - (Model.liouvilleToChoi S C)[q][q]) := by
    simp only [map_sub, apply_ite (starRingEnd ℂ), map_one, map_zero, sub_mul, mul_sub, ite_mul,
      mul_ite, one_mul, mul_one, zero_mul, mul_zero, Finset.sum_sub_distrib, Finset.sum_ite_eq',
      Finset.mem_univ, if_true]
    ring
  rw [hsum, hpp, hqq, hpq, hqp]
  norm_num

end choi

/-! ### Verdict of the complete-positivity check -/

/-- model of `(D >= -atol).all()` on the eigenvalues `D` of the Choi matrix -/
def cpVerdict {n : Nat} (D : Fin n → ℝ) (atol : ℝ) : Prop := ∀ i, -atol ≤ D i

/-- a positive semidefinite spectrum is accepted for every non-negative tolerance -/
theorem cp_verdict_of_nonneg {n : Nat} (D : Fin n → ℝ) (atol : ℝ) (hatol : 0 ≤ atol)
    (hD : ∀ i, 0 ≤ D i) : cpVerdict D atol :=
  fun i => le_trans (neg_nonpos.mpr hatol) (hD i)

/-- an eigenvalue below `-atol` makes the verdict false -/
theorem cp_verdict_false_of_neg {n : Nat} (D : Fin n → ℝ) (atol : ℝ) (i : Fin n)
    (h : D i < -atol) : ¬ cpVerdict D atol :=
  fun hv => absurd (hv i) (not_le.mpr h)

end FFVerif.C15
