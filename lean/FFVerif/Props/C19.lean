/-
C19 — the closed-form dephasing filter functions shipped in `analytic.py` equal the
specification `Spec.ddF` (first-order integral of the sign sequence) for every order and every real
`z = ω τ` away from the removable singularities.
Property theorems only (helper lemmas live in FFVerif/Lemmas/DecouplingAux.lean).
-/
import Mathlib.Analysis.SpecialFunctions.Trigonometric.Basic
import Mathlib.Analysis.Complex.Exponential
import Mathlib.Algebra.BigOperators.Intervals
import FFVerif.Lemmas.Inst
import FFVerif.Lemmas.DecouplingAux
import FFVerif.Model.Analytic
import FFVerif.Spec.Decoupling

namespace FFVerif.C19
open FFVerif FFVerif.DecouplingAux Complex

/-- **FID.** No flips (`δ₀ = 0`, `δ₁ = 1`): the specification equals the shipped
`FID(z) = 2 sin²(z/2)` for every real `z`. -/
theorem fid_closed_form (z : ℝ) :
    Spec.ddF 0 (fun j => (j : ℝ)) z = Model.Analytic.FID (R := ℝ) z := by
  simp only [Spec.ddF, Spec.ddY, Model.Analytic.FID, Model.Analytic.sq, Model.Analytic.two,
    ropsSin]
  simp only [zero_add, Finset.sum_range_one, pow_zero, one_mul, Nat.cast_one, Nat.cast_zero,
    Complex.ofReal_one, Complex.ofReal_zero, mul_one, mul_zero, Complex.exp_zero, Nat.cast_ofNat]
  rw [normSq_expI_sub_one]
  ring

/-- **Spin echo.** One flip at `δ₁ = 1/2`: the specification equals the shipped
`SE(z) = 8 sin⁴(z/4)` for every real `z`. -/
theorem se_closed_form (z : ℝ) :
    Spec.ddF 1 (fun j => (j : ℝ) / 2) z = Model.Analytic.SE (R := ℝ) z := by
  simp only [Spec.ddF, Spec.ddY, Model.Analytic.SE, Model.Analytic.sq, Model.Analytic.pow4,
    ropsSin]
  have hy : ∑ j ∈ Finset.range (1 + 1), (-1 : ℂ) ^ j *
      (Complex.exp (Complex.I * z * ((((j + 1 : ℕ) : ℝ) / 2 : ℝ) : ℂ)) -
        Complex.exp (Complex.I * z * (((j : ℝ) / 2 : ℝ) : ℂ))) =
      -(Complex.exp (Complex.I * ((z / 2 : ℝ) : ℂ)) - 1) ^ 2 := by
    have h1 : Complex.exp (Complex.I * z) = Complex.exp (Complex.I * ((z / 2 : ℝ) : ℂ)) ^ 2 := by
      rw [← Complex.exp_nat_mul]; congr 1; push_cast; ring
    rw [Finset.sum_range_succ, Finset.sum_range_one]
    have e1 : Complex.I * z * ((((0 + 1 : ℕ) : ℝ) / 2 : ℝ) : ℂ) = Complex.I * ((z / 2 : ℝ) : ℂ) := by
      push_cast; ring
    have e2 : Complex.I * z * ((((1 + 1 : ℕ) : ℝ) / 2 : ℝ) : ℂ) = Complex.I * z := by
      push_cast; ring
    have e0 : Complex.I * z * ((((0 : ℕ) : ℝ) / 2 : ℝ) : ℂ) = 0 := by
      push_cast; ring
    rw [e1, e2, e0, h1, Complex.exp_zero]
    ring
  rw [hy, norm_neg, norm_pow, ← pow_mul, mul_comm 2 2, pow_mul, normSq_expI_sub_one]
  have : z / 2 / 2 = z / ((4 : ℕ) : ℝ) := by push_cast; ring
  rw [this]
  push_cast
  ring

/-- the shipped `PDD` at `ℝ`, with the parity test unfolded -/
theorem pdd_model_eq (n : ℕ) (z : ℝ) :
    Model.Analytic.PDD (R := ℝ) z n =
      2 * Real.tan (z / (2 * n + 2)) ^ 2 *
        (if Even n then Real.cos (z / 2) ^ 2 else Real.sin (z / 2) ^ 2) := by
  simp only [Model.Analytic.PDD, Model.Analytic.sq, Model.Analytic.two, ropsTan, ropsCos, ropsSin]
  push_cast
  rcases Nat.even_or_odd n with h | h
  · have h2 : n % 2 = 0 := Nat.even_iff.mp h
    simp only [h2, h, beq_self_eq_true, if_true]
    ring
  · have h2 : n % 2 = 1 := Nat.odd_iff.mp h
    have h3 : ¬ Even n := Nat.not_even_iff_odd.mpr h
    simp only [h2, h3, if_false]
    simp
    ring

/-- **PDD.** `n` equidistant flips at `j/(n+1)`: the specification equals the shipped `PDD(z, n)`
for every order `n` (both parities) and every real `z` with `cos(z/(2n+2)) ≠ 0` (where the shipped
`tan` has its pole; there the true value is the finite limit, so the singularity is removable). -/
theorem pdd_closed_form (n : ℕ) (z : ℝ) (hc : Real.cos (z / (2 * n + 2)) ≠ 0) :
    Spec.ddF n (Spec.pddTimes n) z = Model.Analytic.PDD (R := ℝ) z n := by
  rw [pdd_model_eq, Spec.ddF]
  have hθ : z / (n + 1) / 2 = z / (2 * n + 2) := by
    have : ((n : ℝ) + 1) ≠ 0 := by exact_mod_cast Nat.succ_ne_zero n
    field_simp
  have h := congrArg (fun w : ℂ => ‖w‖ ^ 2) (ddY_pdd n z)
  simp only [norm_mul, mul_pow] at h
  rw [normSq_one_add_expI, normSq_expI_sub_one, normSq_one_sub_sign_expI, hθ] at h
  rw [Real.tan_eq_sin_div_cos, div_pow]
  have hc2 : Real.cos (z / (2 * n + 2)) ^ 2 ≠ 0 := pow_ne_zero 2 hc
  have hy : ‖Spec.ddY n (Spec.pddTimes n) z‖ ^ 2 =
      Real.sin (z / (2 * n + 2)) ^ 2 / Real.cos (z / (2 * n + 2)) ^ 2 *
        (if Even (n + 1) then 4 * Real.sin (z / 2) ^ 2 else 4 * Real.cos (z / 2) ^ 2) := by
    rw [div_mul_eq_mul_div, eq_div_iff hc2]
    linarith
  rw [hy]
  by_cases hn : Even n
  · have : ¬ Even (n + 1) := by rw [Nat.even_add_one]; exact not_not.mpr hn
    rw [if_pos hn, if_neg this]; ring
  · have : Even (n + 1) := by rw [Nat.even_add_one]; exact hn
    rw [if_neg hn, if_pos this]; ring

/-- non-vacuity: the hypothesis of `pdd_closed_form` is satisfiable, e.g. `n = 3`, `z = 1` -/
example : Real.cos ((1 : ℝ) / (2 * (3 : ℕ) + 2)) ≠ 0 := by
  apply ne_of_gt
  apply Real.cos_pos_of_mem_Ioo
  constructor
  · have := Real.pi_pos; push_cast; linarith [show (0:ℝ) < 1 / (2 * 3 + 2) by norm_num]
  · have := Real.two_le_pi; push_cast; linarith [show (1:ℝ) / (2 * 3 + 2) < 1 by norm_num]

/-- the shipped `CPMG` at `ℝ`, with the parity test unfolded -/
theorem cpmg_model_eq (n : ℕ) (z : ℝ) :
    Model.Analytic.CPMG (R := ℝ) z n =
      8 * Real.sin (z / 4 / n) ^ 4 *
        (if Even n then Real.sin (z / 2) ^ 2 else Real.cos (z / 2) ^ 2) /
          Real.cos (z / 2 / n) ^ 2 := by
  simp only [Model.Analytic.CPMG, Model.Analytic.sq, Model.Analytic.pow4, Model.Analytic.two,
    ropsCos, ropsSin]
  push_cast
  rcases Nat.even_or_odd n with h | h
  · have h2 : n % 2 = 0 := Nat.even_iff.mp h
    simp only [h2, h, beq_self_eq_true, if_true]
    ring
  · have h2 : n % 2 = 1 := Nat.odd_iff.mp h
    have h3 : ¬ Even n := Nat.not_even_iff_odd.mpr h
    simp only [h2, h3, if_false]
    simp
    ring

/-- **CPMG.** `n ≥ 1` flips at `(j - 1/2)/n`, `j = 1..n`: the specification equals the shipped
`CPMG(z, n)` for every order `n ≥ 1` (both parities) and every real `z` with `cos(z/(2n)) ≠ 0`
(the zero of the shipped denominator; there the true value is the finite limit). -/
theorem cpmg_closed_form (n : ℕ) (z : ℝ) (hn : 1 ≤ n) (hc : Real.cos (z / (2 * n)) ≠ 0) :
    Spec.ddF n (Spec.cpmgTimes n) z = Model.Analytic.CPMG (R := ℝ) z n := by
  rw [cpmg_model_eq, Spec.ddF]
  have hn0 : (n : ℝ) ≠ 0 := by exact_mod_cast (Nat.pos_iff_ne_zero.mp hn)
  have hθ1 : z / n / 2 = z / (2 * n) := by field_simp
  have hθ2 : z / (2 * n) / 2 = z / 4 / n := by field_simp; ring
  have hθ3 : z / 2 / n = z / (2 * n) := by field_simp
  have h := congrArg (fun w : ℂ => ‖w‖ ^ 2) (ddY_cpmg n hn z)
  simp only [norm_mul, norm_neg, norm_pow, mul_pow] at h
  rw [normSq_one_add_expI, normSq_expI_sub_one, normSq_one_sub_sign_expI, hθ1, hθ2] at h
  rw [hθ3]
  have hc2 : Real.cos (z / (2 * n)) ^ 2 ≠ 0 := pow_ne_zero 2 hc
  have hy : ‖Spec.ddY n (Spec.cpmgTimes n) z‖ ^ 2 =
      4 * Real.sin (z / 4 / n) ^ 4 *
        (if Even n then 4 * Real.sin (z / 2) ^ 2 else 4 * Real.cos (z / 2) ^ 2) /
          Real.cos (z / (2 * n)) ^ 2 := by
    rw [eq_div_iff hc2]
    linear_combination (1 / 4 : ℝ) * h
  rw [hy]
  by_cases hn : Even n
  · rw [if_pos hn, if_pos hn]; ring
  · rw [if_neg hn, if_neg hn]; ring

/-- non-vacuity: the hypotheses of `cpmg_closed_form` are satisfiable, e.g. `n = 3`, `z = 1` -/
example : 1 ≤ 3 ∧ Real.cos ((1 : ℝ) / (2 * (3 : ℕ))) ≠ 0 := by
  refine ⟨by norm_num, ?_⟩
  apply ne_of_gt
  apply Real.cos_pos_of_mem_Ioo
  constructor
  · have := Real.pi_pos; push_cast; linarith [show (0:ℝ) < 1 / (2 * 3) by norm_num]
  · have := Real.two_le_pi; push_cast; linarith [show (1:ℝ) / (2 * 3) < 1 by norm_num]

/-- the shipped `UDD` at `ℝ`/`ℂ`: the list fold is the `Finset` sum of `uddTerm`, and
`re² + im²` is the squared norm -/
theorem udd_model_eq (n : ℕ) (z : ℝ) :
    Model.Analytic.UDD (R := ℝ) (K := ℂ) z n =
      ‖∑ j ∈ Finset.range (2 * n + 2), uddTerm n z ((j : ℤ) - (n : ℤ) - 1)‖ ^ 2 / 2 := by
  simp only [Model.Analytic.UDD, Model.Analytic.sq, Model.Analytic.two, ropsCos, ropsPi, copsExpI,
    copsRe, copsIm]
  rw [foldl_range_add, Complex.sq_norm, Complex.normSq_apply]
  have hterm : ∀ k : ℤ,
      (if (k % 2 == 0) = true then
          Complex.exp (Complex.I * ((z / ((2 : ℕ) : ℝ) * Real.cos (Real.pi *
            (if k < 0 then -((k.natAbs : ℕ) : ℝ) else ((k.natAbs : ℕ) : ℝ)) / ((n + 1 : ℕ) : ℝ)) : ℝ) : ℂ))
        else
          -Complex.exp (Complex.I * ((z / ((2 : ℕ) : ℝ) * Real.cos (Real.pi *
            (if k < 0 then -((k.natAbs : ℕ) : ℝ) else ((k.natAbs : ℕ) : ℝ)) / ((n + 1 : ℕ) : ℝ)) : ℝ) : ℂ))) =
        uddTerm n z k := by
    intro k
    have hk : (if k < 0 then -((k.natAbs : ℕ) : ℝ) else ((k.natAbs : ℕ) : ℝ)) = (k : ℝ) := by
      have h1 : ((k.natAbs : ℕ) : ℝ) = |(k : ℝ)| := by
        rw [← Int.cast_natCast, Int.natCast_natAbs, Int.cast_abs]
      rw [h1]
      split_ifs with h
      · rw [abs_of_neg (by exact_mod_cast h), neg_neg]
      · rw [abs_of_nonneg (by exact_mod_cast (not_lt.mp h))]
    rw [hk]
    unfold uddTerm
    push_cast
    rcases Int.even_or_odd k with h | h
    · have h2 : k % 2 = 0 := Int.even_iff.mp h
      simp only [h2, beq_self_eq_true, if_true, h.neg_one_zpow, one_mul]
    · have h2 : k % 2 = 1 := Int.odd_iff.mp h
      rw [h.neg_one_zpow, h2]
      simp
  simp only [hterm]
  norm_num

/-- **UDD.** `n` flips at `sin²(π j/(2n+2))`: the specification equals the shipped
`UDD(z, n) = |Σ_{k=-n-1}^{n} (-1)^k e^{i z/2 cos(π k/(n+1))}|²/2` for every order `n` and every
real `z` (no singularities). -/
theorem udd_closed_form (n : ℕ) (z : ℝ) :
    Spec.ddF n (Spec.uddTimes n) z = Model.Analytic.UDD (R := ℝ) (K := ℂ) z n := by
  rw [udd_model_eq, Spec.ddF, norm_ddY_udd]

/-! ### Concatenated dynamical decoupling

Definition used.  The level-`g` sequence is described by its sign (switching) function on `[0,1]`,
which is piecewise constant on the `2^g` dyadic intervals `[j/2^g, (j+1)/2^g)`:
level 0 is free evolution (`s₀ ≡ +1`), and level `g+1` is level `g` compressed onto `[0,½]`
followed by the *sign-reversed* level `g` compressed onto `[½,1]`,
`s_{g+1}(t) = s_g(2t)` for `t < ½` and `s_{g+1}(t) = -s_g(2t-1)` for `t ≥ ½`.
This is the standard recursion `C_{g+1} = C_g π C_g π` (each level ends with the π pulse that
returns the toggling frame to `+`, so the level-`g` block on `[½,1]` starts from `-`, and where
two π pulses coincide they cancel: there is a flip at `t = ½` exactly for odd `g+1`).
E.g. `s₁ = (+,-)` (spin echo), `s₂ = (+,-,-,+)` (flips at `¼, ¾`), `s₃ = (+,-,-,+,-,+,+,-)`. -/

/-- sign of the level-`g` concatenated sequence on the `j`-th of the `2^g` dyadic subintervals -/
def cddSign : ℕ → ℕ → ℤ
  | 0, _ => 1
  | g + 1, j => if j < 2 ^ g then cddSign g j else -cddSign g (j - 2 ^ g)

/-- `y_g(z) = Σ_j s_g(j) (e^{i z (j+1)/2^g} - e^{i z j/2^g})`: the first-order integral (times `iω`)
of the level-`g` sign function, cf. `Spec.ddY`. -/
noncomputable def cddY (g : ℕ) (z : ℝ) : ℂ :=
  ∑ j ∈ Finset.range (2 ^ g), (cddSign g j : ℂ) *
    (Complex.exp (Complex.I * z * ((((j + 1 : ℕ) : ℝ) / 2 ^ g : ℝ) : ℂ)) -
      Complex.exp (Complex.I * z * (((j : ℝ) / 2 ^ g : ℝ) : ℂ)))

/-- level 0 is the free evolution of `fid_closed_form` -/
theorem cddY_zero (z : ℝ) : cddY 0 z = Spec.ddY 0 (fun j => (j : ℝ)) z := by
  simp [cddY, cddSign, Spec.ddY]

/-- level 1 is the spin echo of `se_closed_form` -/
theorem cddY_one (z : ℝ) : cddY 1 z = Spec.ddY 1 (fun j => (j : ℝ) / 2) z := by
  simp [cddY, cddSign, Spec.ddY, Finset.sum_range_succ]

/-- level 2 has its two flips at `¼, ¾` (the midpoint flips cancel): it is the 2-pulse CPMG
sequence of `cpmg_closed_form` -/
theorem cddY_two (z : ℝ) : cddY 2 z = Spec.ddY 2 (Spec.cpmgTimes 2) z := by
  simp [cddY, cddSign, Spec.ddY, Spec.cpmgTimes, Finset.sum_range_succ]
  norm_num
  ring

/-- the concatenation step on the level of `y`: `y_{g+1}(z) = y_g(z/2) (1 - e^{iz/2})` -/
theorem cddY_succ (g : ℕ) (z : ℝ) :
    cddY (g + 1) z = cddY g (z / 2) * (1 - Complex.exp (Complex.I * ((z / 2 : ℝ) : ℂ))) := by
  have h2 : ((2 : ℂ) ^ g) ≠ 0 := pow_ne_zero g two_ne_zero
  have hA : ∀ j : ℕ, Complex.exp (Complex.I * z * (((j : ℝ) / 2 ^ (g + 1) : ℝ) : ℂ)) =
      Complex.exp (Complex.I * ((z / 2 : ℝ) : ℂ) * (((j : ℝ) / 2 ^ g : ℝ) : ℂ)) := by
    intro j; congr 1; push_cast; field_simp; ring
  have hB : ∀ x : ℕ, Complex.exp (Complex.I * z * ((((2 ^ g + x : ℕ) : ℝ) / 2 ^ (g + 1) : ℝ) : ℂ)) =
      Complex.exp (Complex.I * ((z / 2 : ℝ) : ℂ)) *
        Complex.exp (Complex.I * ((z / 2 : ℝ) : ℂ) * (((x : ℝ) / 2 ^ g : ℝ) : ℂ)) := by
    intro x; rw [← Complex.exp_add]; congr 1; push_cast; field_simp; ring
  unfold cddY
  rw [pow_succ, mul_two, Finset.sum_range_add, Finset.sum_mul, ← Finset.sum_add_distrib]
  apply Finset.sum_congr rfl
  intro x hx
  have hx' : x < 2 ^ g := Finset.mem_range.mp hx
  have hs1 : cddSign (g + 1) x = cddSign g x := by simp only [cddSign, if_pos hx']
  have hs2 : cddSign (g + 1) (2 ^ g + x) = -cddSign g x := by
    simp only [cddSign, if_neg (show ¬ (2 ^ g + x < 2 ^ g) by omega), Nat.add_sub_cancel_left]
  rw [Nat.add_assoc, hB (x + 1), hB x, hA, hA, hs1, hs2]
  push_cast
  ring

/-- `‖y_g(z)‖² = 2^{2g+2} sin²(z/2^{g+1}) Π_{k<g} sin²(z/2^{k+2})` -/
theorem normSq_cddY (g : ℕ) : ∀ z : ℝ,
    ‖cddY g z‖ ^ 2 = 2 ^ (2 * g + 2) * Real.sin (z / 2 ^ (g + 1)) ^ 2 *
      ∏ k ∈ Finset.range g, Real.sin (z / 2 ^ (k + 2)) ^ 2 := by
  induction g with
  | zero =>
    intro z
    rw [cddY_zero]
    have := fid_closed_form z
    simp only [Spec.ddF, Model.Analytic.FID, Model.Analytic.sq, Model.Analytic.two, ropsSin] at this
    push_cast at this
    simp only [Finset.range_zero, Finset.prod_empty]
    norm_num
    linarith
  | succ g ih =>
    intro z
    rw [cddY_succ, norm_mul, mul_pow, ih (z / 2), normSq_one_sub_expI, Finset.prod_range_succ']
    have h1 : z / 2 / 2 ^ (g + 1) = z / 2 ^ (g + 1 + 1) := by rw [pow_succ 2 (g + 1)]; field_simp
    have h2 : ∀ k : ℕ, z / 2 / 2 ^ (k + 2) = z / 2 ^ (k + 1 + 2) := by
      intro k; rw [show k + 1 + 2 = (k + 2) + 1 by ring, pow_succ 2 (k + 2)]; field_simp
    have h3 : z / 2 / 2 = z / 2 ^ (0 + 2) := by norm_num; ring
    simp only [h1, h2, h3]
    ring

/-- **CDD.** For the level-`g` concatenated sequence defined by the sign function `cddSign`
(level 0 = free evolution; level `g+1` on `[0,1]` = level `g` on `[0,½]` followed by the
sign-reversed level `g` on `[½,1]`, i.e. `C_{g+1} = C_g π C_g π` with coinciding π pulses
cancelling; see the section comment), `‖y_g(z)‖²/2` equals the shipped
`CDD(z, g) = 2^{2g+1} sin²(z/2^{g+1}) Π_{k=1}^{g} sin²(z/2^{k+1})` for every level `g` and every
real `z`. -/
theorem cdd_closed_form (g : ℕ) (z : ℝ) :
    ‖cddY g z‖ ^ 2 / 2 = Model.Analytic.CDD (R := ℝ) z g := by
  simp only [Model.Analytic.CDD, Model.Analytic.sq, ropsSin]
  rw [foldl_range_mul, normSq_cddY]
  push_cast
  simp only [← pow_two]
  rw [show 2 * g + 2 = (2 * g + 1) + 1 by ring, pow_succ (2 : ℝ) (2 * g + 1)]
  ring

end FFVerif.C19
