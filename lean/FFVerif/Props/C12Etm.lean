/-
C12 (continued) — basis covariance at the level of the decay amplitudes, the cumulant function and
the error transfer matrix; basis independence of the process fidelity.

Models: `Model.decayAmplitudes1/2/3` (+ the memory-parsimonious loops; `calculate_decay_amplitudes`),
`Model.fourElementTraces` (`Basis.four_element_traces`), `Model.cumulantGeneral` (general branch of
`calculate_cumulant_function`, first order and with `second_order`), `Model.cumulantSingleQubit`
(the shortcut), `Model.controlMatrixFromScratch`.  `numeric.error_transfer_matrix` is
`scipy.linalg.expm(K.sum(leading axes))`; `expm` is an external routine, the statements are about
the mathematical exponential `NormedSpace.exp` (as in `FFVerif.Props.C09Exp`).

Throughout, `O = basisTransition basis basis'` is the REAL matrix `O_kl = Re tr(C'_k C_l)`; for two
complete orthonormal Hermitian bases `tr(C'_k C_l)` is real, `C'_k = Σ_l O_kl C_l`, `OᵀO = 1`,
`OOᵀ = 1` and both bases have the same length (`basis_transition_orthogonal`).  All statements are
for ONE pair of noise sources unless a sum over a finite family is written; the frequency shifts
`Δ` (no model of `calculate_frequency_shifts` exists) enter abstractly as a matrix transforming as
`O Δ Oᵀ`.
Property theorems only (helper lemmas: FFVerif/Lemmas/EtmBasisAux.lean).
-/
import FFVerif.Lemmas.EtmBasisAux
import FFVerif.Props.C08Inv
import FFVerif.Props.C09Exp

namespace FFVerif.C12
open FFVerif FFVerif.Model Matrix NormedSpace

variable {nG d nO nA N N' m : Nat}

/-! ### Vocabulary -/

/-- the real transition matrix `O_kl = Re tr(C'_k C_l)` from `basis` (`C`) to `basis'` (`C'`) -/
noncomputable def basisTransition (basis : Vector (Mat ℂ d d) N) (basis' : Vector (Mat ℂ d d) N') :
    Matrix (Fin N') (Fin N) ℝ :=
  Spec.transitionR (Spec.basisOf basis) (Spec.basisOf basis')

/-- a real array used as operand of a complex contraction (numpy's upcast of `decay_amplitudes`
in `oe.contract(…, decay_amplitudes, traces)`) -/
noncomputable def toComplexMat (G : Mat ℝ N N) : Mat ℂ N N :=
  Mat.ofFn fun k l => ((G[k][l] : ℝ) : ℂ)

/-- the final `.real` of `calculate_cumulant_function` -/
noncomputable def realPart (K : Mat ℂ N N) : Matrix (Fin N) (Fin N) ℝ :=
  Matrix.of fun i j => (K[i][j]).re

/-- the optional frequency shifts of the two bases are related by `Δ' = O Δ Oᵀ` (both absent:
`second_order=False` on both sides) -/
def ShiftsRelated (O : Matrix (Fin N') (Fin N) ℂ) :
    Option (Mat ℂ N N) → Option (Mat ℂ N' N') → Prop
  | none, none => True
  | some Δ, some Δ' => Δ'.toMatrix = O * Δ.toMatrix * Oᵀ
  | _, _ => False

theorem toComplexMat_toMatrix (G : Mat ℝ N N) :
    (toComplexMat G).toMatrix = Spec.toCplx G.toMatrix := by
  ext k l
  simp only [toComplexMat, Mat.toMatrix_apply, Mat.ofFn_get, Spec.toCplx_apply]

/-- `toComplexMat` is the `Γ` of the specification used in `C08.infidelity_eq_neg_trace_cumulant` -/
theorem fn_toComplexMat (G : Mat ℝ N N) : C09.fn (toComplexMat G) = C08.gammaOf G := by
  funext k l
  simp only [C09.fn, C08.gammaOf, toComplexMat, Mat.ofFn_get]

/-! ### 0. The transition matrix -/

/-- **Two complete orthonormal Hermitian bases are related by a real orthogonal matrix.**  For
`O_kl = Re tr(C'_k C_l)`: the traces are real (`↑O_kl = tr(C'_k C_l)`), `C'_k = Σ_l O_kl C_l`,
`OᵀO = 1`, `OOᵀ = 1`, and the two bases have the same number of elements. -/
theorem basis_transition_orthogonal (basis : Vector (Mat ℂ d d) N) (basis' : Vector (Mat ℂ d d) N')
    (hC : Spec.IsComplete (Spec.basisOf basis)) (hH : Spec.IsOrthoHerm (Spec.basisOf basis))
    (hC' : Spec.IsComplete (Spec.basisOf basis')) (hH' : Spec.IsOrthoHerm (Spec.basisOf basis')) :
    (∀ k l, ((basisTransition basis basis' k l : ℝ) : ℂ)
      = trace (basis'[k].toMatrix * basis[l].toMatrix)) ∧
    (∀ k : Fin N', basis'[k].toMatrix
      = ∑ l : Fin N, ((basisTransition basis basis' k l : ℝ) : ℂ) • basis[l].toMatrix) ∧
    (basisTransition basis basis')ᵀ * basisTransition basis basis' = 1 ∧
    basisTransition basis basis' * (basisTransition basis basis')ᵀ = 1 ∧ N = N' :=
  ⟨fun k l => Spec.transitionR_cast hH hH' k l, (Spec.transitionR_spec hC hH hC' hH').1,
    (Spec.transitionR_spec hC hH hC' hH').2.1, (Spec.transitionR_spec hC hH hC' hH').2.2,
    Spec.card_eq_of_complete hC hH hC' hH'⟩

/-- the transition matrix of a re-ordering `C'_k = C_{e k}` is the permutation matrix of `e` -/
theorem basisTransition_reorder (C : Fin N → Matrix (Fin d) (Fin d) ℂ) (hH : Spec.IsOrthoHerm C)
    (e : Fin N' → Fin N) (k : Fin N') (l : Fin N) :
    Spec.transitionR C (fun i => C (e i)) k l = if e k = l then 1 else 0 := by
  unfold Spec.transitionR
  rw [Matrix.of_apply, hH.ortho]
  split_ifs <;> simp

/-- **The control matrices in two complete orthonormal Hermitian bases are related by the real
transition matrix** (`C12.cm_basis_change` with the coefficients read off from the bases): every
guard, both branches of the integral. -/
theorem cm_basis_change_real (kind : MaskKind) (thr : ℝ)
    (eigvals : Mat ℝ nG d) (eigvecs props : Vector (Mat ℂ d d) nG)
    (omega : Vec ℝ nO) (basis : Vector (Mat ℂ d d) N) (basis' : Vector (Mat ℂ d d) N')
    (nOpers : Vector (Mat ℂ d d) nA) (nCoeffs : Mat ℝ nA nG) (dt t : Vec ℝ nG)
    (hC : Spec.IsComplete (Spec.basisOf basis)) (hH : Spec.IsOrthoHerm (Spec.basisOf basis))
    (hC' : Spec.IsComplete (Spec.basisOf basis')) (hH' : Spec.IsOrthoHerm (Spec.basisOf basis'))
    (a : Fin nA) (k : Fin N') (o : Fin nO) :
    (controlMatrixFromScratch kind thr eigvals eigvecs props omega basis' nOpers nCoeffs dt t)[a][k][o]
      = ∑ l : Fin N, ((basisTransition basis basis' k l : ℝ) : ℂ) *
          (controlMatrixFromScratch kind thr eigvals eigvecs props omega basis nOpers nCoeffs dt t)[a][l][o] :=
  cm_basis_change kind thr eigvals eigvecs props omega basis basis' nOpers nCoeffs dt t
    (Spec.toCplx (basisTransition basis basis'))
    (basis_transition_orthogonal basis basis' hC hH hC' hH').2.1 a k o

/-! ### 1. Decay amplitudes -/

/-- **Decay amplitudes transform as `Γ' = O Γ Oᵀ`.**  If the control matrices in two bases are
related by `B'[a][k][o] = Σ_l O_kl B[a][l][o]` with a REAL matrix `O` (any real `O`, rectangular
allowed, no orthogonality needed; this is the conclusion of `cm_basis_change_real`), then for every
grid, every selection `idx`, all three spectrum shapes and both the one-shot and the
memory-parsimonious evaluation, `Γ'_{kl} = Σ_{k'l'} O_kk' Γ_{k'l'} O_ll'` for every pair of noise
sources.  (Reality of `O` is used: the integrand is `Re(conj(B_ak) S B_bl)`, the real part being
taken before integrating, and only real factors can be pulled out of `Re`; two Hermitian bases
always give a real `O`.) -/
theorem decay_amplitudes_basis_change (ω : Vec ℝ nO) (B : Ten3 ℂ nA N nO) (B' : Ten3 ℂ nA N' nO)
    (O : Matrix (Fin N') (Fin N) ℝ)
    (hB : ∀ (a : Fin nA) (k : Fin N') (o : Fin nO),
      B'[a][k][o] = ∑ l : Fin N, (O k l : ℂ) * B[a][l][o])
    (idx : Vec (Fin nA) m) (S1 : Vec ℂ nO) (S2 : Mat ℂ m nO) (S3 : Ten3 ℂ m m nO)
    (a b : Fin m) (k l : Fin N') :
    (decayAmplitudes1 ω B' idx S1)[a][k][l]
      = ∑ k' : Fin N, ∑ l' : Fin N, O k k' * (decayAmplitudes1 ω B idx S1)[a][k'][l'] * O l l' ∧
    (decayAmplitudes2 ω B' idx S2)[a][k][l]
      = ∑ k' : Fin N, ∑ l' : Fin N, O k k' * (decayAmplitudes2 ω B idx S2)[a][k'][l'] * O l l' ∧
    (decayAmplitudes3 ω B' idx S3)[a][b][k][l]
      = ∑ k' : Fin N, ∑ l' : Fin N, O k k' * (decayAmplitudes3 ω B idx S3)[a][b][k'][l'] * O l l' ∧
    (decayAmplitudes2Pars ω B' idx S2)[a][k][l]
      = ∑ k' : Fin N, ∑ l' : Fin N, O k k' * (decayAmplitudes2Pars ω B idx S2)[a][k'][l'] * O l l' ∧
    (decayAmplitudes3Pars ω B' idx S3)[a][b][k][l]
      = ∑ k' : Fin N, ∑ l' : Fin N,
          O k k' * (decayAmplitudes3Pars ω B idx S3)[a][b][k'][l'] * O l l' := by
  have g := fun (a b : Fin m) (S : Vec ℂ nO) =>
    gammaEntry_basis_change ω B[idx[a]] B[idx[b]] B'[idx[a]] B'[idx[b]] O (hB idx[a]) (hB idx[b])
      S k l
  rw [(C08.decay_amplitudes_parsimonious ω B' idx S2 S3).1,
    (C08.decay_amplitudes_parsimonious ω B' idx S2 S3).2,
    (C08.decay_amplitudes_parsimonious ω B idx S2 S3).1,
    (C08.decay_amplitudes_parsimonious ω B idx S2 S3).2]
  have h1 : (decayAmplitudes1 ω B' idx S1)[a][k][l]
      = ∑ k' : Fin N, ∑ l' : Fin N, O k k' * (decayAmplitudes1 ω B idx S1)[a][k'][l'] * O l l' := by
    rw [(C08.decay_amplitudes_entries ω B' idx S1 S2 S3 a b k l).1, g a a S1]
    exact Finset.sum_congr rfl fun k' _ => Finset.sum_congr rfl fun l' _ => by
      rw [(C08.decay_amplitudes_entries ω B idx S1 S2 S3 a b k' l').1]
  have h2 : (decayAmplitudes2 ω B' idx S2)[a][k][l]
      = ∑ k' : Fin N, ∑ l' : Fin N, O k k' * (decayAmplitudes2 ω B idx S2)[a][k'][l'] * O l l' := by
    rw [(C08.decay_amplitudes_entries ω B' idx S1 S2 S3 a b k l).2.1, g a a S2[a]]
    exact Finset.sum_congr rfl fun k' _ => Finset.sum_congr rfl fun l' _ => by
      rw [(C08.decay_amplitudes_entries ω B idx S1 S2 S3 a b k' l').2.1]
  have h3 : (decayAmplitudes3 ω B' idx S3)[a][b][k][l]
      = ∑ k' : Fin N, ∑ l' : Fin N,
          O k k' * (decayAmplitudes3 ω B idx S3)[a][b][k'][l'] * O l l' := by
    rw [(C08.decay_amplitudes_entries ω B' idx S1 S2 S3 a b k l).2.2, g a b S3[a][b]]
    exact Finset.sum_congr rfl fun k' _ => Finset.sum_congr rfl fun l' _ => by
      rw [(C08.decay_amplitudes_entries ω B idx S1 S2 S3 a b k' l').2.2]
  exact ⟨h1, h2, h3, h2, h3⟩

/-- the same in matrix form, with the upcast to complex numbers: this is the hypothesis `hΓ` of
the cumulant-function theorems below -/
theorem decay_amplitudes_basis_change_matrix (ω : Vec ℝ nO) (B : Ten3 ℂ nA N nO)
    (B' : Ten3 ℂ nA N' nO) (O : Matrix (Fin N') (Fin N) ℝ)
    (hB : ∀ (a : Fin nA) (k : Fin N') (o : Fin nO),
      B'[a][k][o] = ∑ l : Fin N, (O k l : ℂ) * B[a][l][o])
    (idx : Vec (Fin nA) m) (S1 : Vec ℂ nO) (S2 : Mat ℂ m nO) (S3 : Ten3 ℂ m m nO) (a b : Fin m) :
    (toComplexMat (decayAmplitudes1 ω B' idx S1)[a]).toMatrix
      = Spec.toCplx O * (toComplexMat (decayAmplitudes1 ω B idx S1)[a]).toMatrix
          * (Spec.toCplx O)ᵀ ∧
    (toComplexMat (decayAmplitudes2 ω B' idx S2)[a]).toMatrix
      = Spec.toCplx O * (toComplexMat (decayAmplitudes2 ω B idx S2)[a]).toMatrix
          * (Spec.toCplx O)ᵀ ∧
    (toComplexMat (decayAmplitudes3 ω B' idx S3)[a][b]).toMatrix
      = Spec.toCplx O * (toComplexMat (decayAmplitudes3 ω B idx S3)[a][b]).toMatrix
          * (Spec.toCplx O)ᵀ := by
  have key : ∀ (G : Mat ℝ N N) (G' : Mat ℝ N' N'),
      (∀ k l : Fin N', G'[k][l] = ∑ k' : Fin N, ∑ l' : Fin N, O k k' * G[k'][l'] * O l l') →
      (toComplexMat G').toMatrix
        = Spec.toCplx O * (toComplexMat G).toMatrix * (Spec.toCplx O)ᵀ := by
    intro G G' h
    ext k l
    rw [Spec.sandwich_apply, toComplexMat_toMatrix, Spec.toCplx_apply, Mat.toMatrix_apply, h k l]
    push_cast
    refine Finset.sum_congr rfl fun k' _ => Finset.sum_congr rfl fun l' _ => ?_
    rw [toComplexMat_toMatrix, Spec.toCplx_apply, Spec.toCplx_apply, Spec.toCplx_apply,
      Mat.toMatrix_apply]
  exact ⟨key _ _ fun k l => (decay_amplitudes_basis_change ω B B' O hB idx S1 S2 S3 a b k l).1,
    key _ _ fun k l => (decay_amplitudes_basis_change ω B B' O hB idx S1 S2 S3 a b k l).2.1,
    key _ _ fun k l => (decay_amplitudes_basis_change ω B B' O hB idx S1 S2 S3 a b k l).2.2.1⟩

/-! ### 2. Cumulant function -/

/-- **Covariance of the cumulant function, general form.**  Let the new basis elements be
combinations `C'_k = Σ_l O_kl C_l` of the old ones with `OᵀO = 1` (complex `O` allowed, `N' ≥ N`
allowed, bases need not be complete, orthonormal or Hermitian) and `Γ' = O Γ Oᵀ`, `Δ' = O Δ Oᵀ`.
Then the general branch of `calculate_cumulant_function`, evaluated with the trace tensor
`four_element_traces` of the respective basis, satisfies `K' = O K Oᵀ` to first order and with
`second_order`.  (The eight contractions are rewritten as the documented nested-commutator traces
by `C09.cumulant_general_model`; these are 4-linear in the basis elements and the two contracted
indices meet `OᵀO = 1`.) -/
theorem cumulant_basis_change_of_mix (basis : Vector (Mat ℂ d d) N)
    (basis' : Vector (Mat ℂ d d) N') (O : Matrix (Fin N') (Fin N) ℂ)
    (hO : ∀ k : Fin N', basis'[k].toMatrix = ∑ l : Fin N, O k l • basis[l].toMatrix)
    (horth : Oᵀ * O = 1) (Γ Δ : Mat ℂ N N) (Γ' Δ' : Mat ℂ N' N')
    (hΓ : Γ'.toMatrix = O * Γ.toMatrix * Oᵀ) (hΔ : Δ'.toMatrix = O * Δ.toMatrix * Oᵀ) :
    (cumulantGeneral Γ' none (fourElementTraces basis')).toMatrix
      = O * (cumulantGeneral Γ none (fourElementTraces basis)).toMatrix * Oᵀ ∧
    (cumulantGeneral Γ' (some Δ') (fourElementTraces basis')).toMatrix
      = O * (cumulantGeneral Γ (some Δ) (fourElementTraces basis)).toMatrix * Oᵀ := by
  have hO' : ∀ k, Spec.basisOf basis' k = ∑ l, O k l • Spec.basisOf basis l := hO
  have hΓ' : ∀ k l, C09.fn Γ' k l = ∑ k', ∑ l', O k k' * C09.fn Γ k' l' * O l l' := by
    intro k l
    have h := congrFun (congrFun hΓ k) l
    rw [Spec.sandwich_apply] at h
    exact h
  have hΔ' : ∀ k l, C09.fn Δ' k l = ∑ k', ∑ l', O k k' * C09.fn Δ k' l' * O l l' := by
    intro k l
    have h := congrFun (congrFun hΔ k) l
    rw [Spec.sandwich_apply] at h
    exact h
  constructor
  · ext i j
    rw [Mat.toMatrix_apply, (C09.cumulant_general_model basis' Γ' Δ' i j).1, Spec.sandwich_apply,
      Spec.K1_basis_change hO' horth _ _ hΓ' i j]
    exact Finset.sum_congr rfl fun a _ => Finset.sum_congr rfl fun b _ => by
      rw [Mat.toMatrix_apply, (C09.cumulant_general_model basis Γ Δ a b).1]
  · ext i j
    rw [Mat.toMatrix_apply, (C09.cumulant_general_model basis' Γ' Δ' i j).2, Spec.sandwich_apply,
      Spec.Kfull_basis_change hO' horth _ _ _ _ hΓ' hΔ' i j]
    exact Finset.sum_congr rfl fun a _ => Finset.sum_congr rfl fun b _ => by
      rw [Mat.toMatrix_apply, (C09.cumulant_general_model basis Γ Δ a b).2]

/-- `cumulant_basis_change_of_mix` for either setting of `second_order` -/
theorem cumulant_basis_change_of_mix_opt (basis : Vector (Mat ℂ d d) N)
    (basis' : Vector (Mat ℂ d d) N') (O : Matrix (Fin N') (Fin N) ℂ)
    (hO : ∀ k : Fin N', basis'[k].toMatrix = ∑ l : Fin N, O k l • basis[l].toMatrix)
    (horth : Oᵀ * O = 1) (Γ : Mat ℂ N N) (Γ' : Mat ℂ N' N')
    (hΓ : Γ'.toMatrix = O * Γ.toMatrix * Oᵀ)
    (Δ : Option (Mat ℂ N N)) (Δ' : Option (Mat ℂ N' N')) (hΔ : ShiftsRelated O Δ Δ') :
    (cumulantGeneral Γ' Δ' (fourElementTraces basis')).toMatrix
      = O * (cumulantGeneral Γ Δ (fourElementTraces basis)).toMatrix * Oᵀ := by
  cases Δ with
  | none =>
    cases Δ' with
    | none => exact (cumulant_basis_change_of_mix basis basis' O hO horth Γ Γ Γ' Γ' hΓ hΓ).1
    | some D' => exact absurd hΔ (by simp [ShiftsRelated])
  | some D =>
    cases Δ' with
    | none => exact absurd hΔ (by simp [ShiftsRelated])
    | some D' => exact (cumulant_basis_change_of_mix basis basis' O hO horth Γ D Γ' D' hΓ hΔ).2

/-- **`cumulant_basis_change`: the cumulant functions in two complete orthonormal Hermitian bases
are related by the orthogonal change-of-basis matrix.**  Nothing is assumed but that both bases are
complete, orthonormal and Hermitian (traceless or not, in any order); `O = basisTransition basis
basis'` (`O_kl = tr(C'_k C_l)`, real orthogonal, `basis_transition_orthogonal`).  If
`Γ' = O Γ Oᵀ` (as the decay amplitudes do: `decay_amplitudes_basis_change_matrix` with
`cm_basis_change_real`) and the frequency shifts satisfy `Δ' = O Δ Oᵀ`, then the general branch of
`calculate_cumulant_function` gives `K' = O K Oᵀ`, to first order and with `second_order`; and the
same holds for the real matrices returned after the final `.real`. -/
theorem cumulant_basis_change (basis : Vector (Mat ℂ d d) N) (basis' : Vector (Mat ℂ d d) N')
    (hC : Spec.IsComplete (Spec.basisOf basis)) (hH : Spec.IsOrthoHerm (Spec.basisOf basis))
    (hC' : Spec.IsComplete (Spec.basisOf basis')) (hH' : Spec.IsOrthoHerm (Spec.basisOf basis'))
    (Γ : Mat ℂ N N) (Γ' : Mat ℂ N' N')
    (hΓ : Γ'.toMatrix = Spec.toCplx (basisTransition basis basis') * Γ.toMatrix
      * (Spec.toCplx (basisTransition basis basis'))ᵀ)
    (Δ : Option (Mat ℂ N N)) (Δ' : Option (Mat ℂ N' N'))
    (hΔ : ShiftsRelated (Spec.toCplx (basisTransition basis basis')) Δ Δ') :
    (cumulantGeneral Γ' Δ' (fourElementTraces basis')).toMatrix
      = Spec.toCplx (basisTransition basis basis')
        * (cumulantGeneral Γ Δ (fourElementTraces basis)).toMatrix
        * (Spec.toCplx (basisTransition basis basis'))ᵀ ∧
    realPart (cumulantGeneral Γ' Δ' (fourElementTraces basis'))
      = basisTransition basis basis' * realPart (cumulantGeneral Γ Δ (fourElementTraces basis))
        * (basisTransition basis basis')ᵀ := by
  obtain ⟨_, hO, horth, _, _⟩ := basis_transition_orthogonal basis basis' hC hH hC' hH'
  have h := cumulant_basis_change_of_mix_opt basis basis'
    (Spec.toCplx (basisTransition basis basis')) hO (Spec.toCplx_orth _ horth) Γ Γ' hΓ Δ Δ' hΔ
  refine ⟨h, ?_⟩
  ext i j
  have hij := congrArg Complex.re (congrFun (congrFun h i) j)
  rw [Spec.re_sandwich] at hij
  exact hij

/-- **The single-qubit shortcut is covered too**: if `basis` is the normalised Pauli basis
(`Basis.pauli(1)`, for which `calculate_cumulant_function` takes the shortcut
`Model.cumulantSingleQubit`) and `basis'` is any other complete orthonormal Hermitian basis of
`2 × 2` matrices (general branch), the two results are again related by `K' = O K Oᵀ`. -/
theorem cumulant_single_qubit_basis_change (basis : Vector (Mat ℂ 2 2) 4)
    (basis' : Vector (Mat ℂ 2 2) N') (hP : Spec.basisOf basis = Spec.pauliBasis)
    (hC' : Spec.IsComplete (Spec.basisOf basis')) (hH' : Spec.IsOrthoHerm (Spec.basisOf basis'))
    (Γ : Mat ℂ 4 4) (Γ' : Mat ℂ N' N')
    (hΓ : Γ'.toMatrix = Spec.toCplx (basisTransition basis basis') * Γ.toMatrix
      * (Spec.toCplx (basisTransition basis basis'))ᵀ)
    (Δ : Option (Mat ℂ 4 4)) (Δ' : Option (Mat ℂ N' N'))
    (hΔ : ShiftsRelated (Spec.toCplx (basisTransition basis basis')) Δ Δ') :
    (cumulantGeneral Γ' Δ' (fourElementTraces basis')).toMatrix
      = Spec.toCplx (basisTransition basis basis') * (cumulantSingleQubit Γ Δ).toMatrix
        * (Spec.toCplx (basisTransition basis basis'))ᵀ := by
  have hC : Spec.IsComplete (Spec.basisOf basis) := hP ▸ Spec.pauliBasis_complete
  have hH : Spec.IsOrthoHerm (Spec.basisOf basis) := hP ▸ Spec.pauliBasis_orthoHerm
  have h := (cumulant_basis_change basis basis' hC hH hC' hH' Γ Γ' hΓ Δ Δ' hΔ).1
  cases Δ with
  | none => rw [(C09.cumulant_single_qubit_eq_general basis hP Γ Γ).1]; exact h
  | some D => rw [(C09.cumulant_single_qubit_eq_general basis hP Γ D).2]; exact h

/-! ### 3. Error transfer matrix and process fidelity -/

/-- **`etm_basis_change`: the error transfer matrices in two complete orthonormal Hermitian bases
are related by the orthogonal change-of-basis matrix**, `exp(K') = O exp(K) Oᵀ`, for one pair of
noise sources; hypotheses as in `cumulant_basis_change`.  Stated for the complex matrix before
`.real` and for the real matrix `K.real` that the Python passes to `expm`. -/
theorem etm_basis_change (basis : Vector (Mat ℂ d d) N) (basis' : Vector (Mat ℂ d d) N')
    (hC : Spec.IsComplete (Spec.basisOf basis)) (hH : Spec.IsOrthoHerm (Spec.basisOf basis))
    (hC' : Spec.IsComplete (Spec.basisOf basis')) (hH' : Spec.IsOrthoHerm (Spec.basisOf basis'))
    (Γ : Mat ℂ N N) (Γ' : Mat ℂ N' N')
    (hΓ : Γ'.toMatrix = Spec.toCplx (basisTransition basis basis') * Γ.toMatrix
      * (Spec.toCplx (basisTransition basis basis'))ᵀ)
    (Δ : Option (Mat ℂ N N)) (Δ' : Option (Mat ℂ N' N'))
    (hΔ : ShiftsRelated (Spec.toCplx (basisTransition basis basis')) Δ Δ') :
    exp (cumulantGeneral Γ' Δ' (fourElementTraces basis')).toMatrix
      = Spec.toCplx (basisTransition basis basis')
        * exp (cumulantGeneral Γ Δ (fourElementTraces basis)).toMatrix
        * (Spec.toCplx (basisTransition basis basis'))ᵀ ∧
    exp (realPart (cumulantGeneral Γ' Δ' (fourElementTraces basis')))
      = basisTransition basis basis'
        * exp (realPart (cumulantGeneral Γ Δ (fourElementTraces basis)))
        * (basisTransition basis basis')ᵀ := by
  obtain ⟨_, _, h1, h2, _⟩ := basis_transition_orthogonal basis basis' hC hH hC' hH'
  obtain ⟨hK, hKr⟩ := cumulant_basis_change basis basis' hC hH hC' hH' Γ Γ' hΓ Δ Δ' hΔ
  exact ⟨by rw [hK, Spec.exp_sandwich_cplx _ h1 h2], by rw [hKr, Spec.exp_sandwich_real _ h1 h2]⟩

/-- **… also for the sum over noise sources**, as `error_transfer_matrix` computes it
(`expm(K.sum(axis=leading axes))`): for any finite family `a ∈ s` of pairs of noise sources with
`Γ'_a = O Γ_a Oᵀ` and `Δ'_a = O Δ_a Oᵀ` (or absent), `exp(Σ_a K'_a) = O exp(Σ_a K_a) Oᵀ`, complex
and real (`.real`) version. -/
theorem etm_sum_basis_change {ι : Type} (s : Finset ι) (basis : Vector (Mat ℂ d d) N)
    (basis' : Vector (Mat ℂ d d) N')
    (hC : Spec.IsComplete (Spec.basisOf basis)) (hH : Spec.IsOrthoHerm (Spec.basisOf basis))
    (hC' : Spec.IsComplete (Spec.basisOf basis')) (hH' : Spec.IsOrthoHerm (Spec.basisOf basis'))
    (Γ : ι → Mat ℂ N N) (Γ' : ι → Mat ℂ N' N')
    (hΓ : ∀ a ∈ s, (Γ' a).toMatrix = Spec.toCplx (basisTransition basis basis') * (Γ a).toMatrix
      * (Spec.toCplx (basisTransition basis basis'))ᵀ)
    (Δ : ι → Option (Mat ℂ N N)) (Δ' : ι → Option (Mat ℂ N' N'))
    (hΔ : ∀ a ∈ s, ShiftsRelated (Spec.toCplx (basisTransition basis basis')) (Δ a) (Δ' a)) :
    exp (∑ a ∈ s, (cumulantGeneral (Γ' a) (Δ' a) (fourElementTraces basis')).toMatrix)
      = Spec.toCplx (basisTransition basis basis')
        * exp (∑ a ∈ s, (cumulantGeneral (Γ a) (Δ a) (fourElementTraces basis)).toMatrix)
        * (Spec.toCplx (basisTransition basis basis'))ᵀ ∧
    exp (∑ a ∈ s, realPart (cumulantGeneral (Γ' a) (Δ' a) (fourElementTraces basis')))
      = basisTransition basis basis'
        * exp (∑ a ∈ s, realPart (cumulantGeneral (Γ a) (Δ a) (fourElementTraces basis)))
        * (basisTransition basis basis')ᵀ := by
  obtain ⟨_, _, h1, h2, _⟩ := basis_transition_orthogonal basis basis' hC hH hC' hH'
  have hK : ∑ a ∈ s, (cumulantGeneral (Γ' a) (Δ' a) (fourElementTraces basis')).toMatrix
      = Spec.toCplx (basisTransition basis basis')
        * (∑ a ∈ s, (cumulantGeneral (Γ a) (Δ a) (fourElementTraces basis)).toMatrix)
        * (Spec.toCplx (basisTransition basis basis'))ᵀ := by
    rw [Matrix.mul_sum, Matrix.sum_mul]
    exact Finset.sum_congr rfl fun a ha =>
      (cumulant_basis_change basis basis' hC hH hC' hH' (Γ a) (Γ' a) (hΓ a ha) (Δ a) (Δ' a)
        (hΔ a ha)).1
  have hKr : ∑ a ∈ s, realPart (cumulantGeneral (Γ' a) (Δ' a) (fourElementTraces basis'))
      = basisTransition basis basis'
        * (∑ a ∈ s, realPart (cumulantGeneral (Γ a) (Δ a) (fourElementTraces basis)))
        * (basisTransition basis basis')ᵀ := by
    rw [Matrix.mul_sum, Matrix.sum_mul]
    exact Finset.sum_congr rfl fun a ha =>
      (cumulant_basis_change basis basis' hC hH hC' hH' (Γ a) (Γ' a) (hΓ a ha) (Δ a) (Δ' a)
        (hΔ a ha)).2
  exact ⟨by rw [hK, Spec.exp_sandwich_cplx _ h1 h2], by rw [hKr, Spec.exp_sandwich_real _ h1 h2]⟩

/-- **`process_fidelity_basis_independent`: the process fidelity `tr(exp K)/d²` obtained from the
error transfer matrix is the same in both bases** (sum over any finite family of pairs of noise
sources; complex and real version); hypotheses as in `etm_sum_basis_change`. -/
theorem process_fidelity_basis_independent {ι : Type} (s : Finset ι)
    (basis : Vector (Mat ℂ d d) N) (basis' : Vector (Mat ℂ d d) N')
    (hC : Spec.IsComplete (Spec.basisOf basis)) (hH : Spec.IsOrthoHerm (Spec.basisOf basis))
    (hC' : Spec.IsComplete (Spec.basisOf basis')) (hH' : Spec.IsOrthoHerm (Spec.basisOf basis'))
    (Γ : ι → Mat ℂ N N) (Γ' : ι → Mat ℂ N' N')
    (hΓ : ∀ a ∈ s, (Γ' a).toMatrix = Spec.toCplx (basisTransition basis basis') * (Γ a).toMatrix
      * (Spec.toCplx (basisTransition basis basis'))ᵀ)
    (Δ : ι → Option (Mat ℂ N N)) (Δ' : ι → Option (Mat ℂ N' N'))
    (hΔ : ∀ a ∈ s, ShiftsRelated (Spec.toCplx (basisTransition basis basis')) (Δ a) (Δ' a)) :
    trace (exp (∑ a ∈ s, (cumulantGeneral (Γ' a) (Δ' a) (fourElementTraces basis')).toMatrix))
        / (d : ℂ) ^ 2
      = trace (exp (∑ a ∈ s, (cumulantGeneral (Γ a) (Δ a) (fourElementTraces basis)).toMatrix))
        / (d : ℂ) ^ 2 ∧
    trace (exp (∑ a ∈ s, realPart (cumulantGeneral (Γ' a) (Δ' a) (fourElementTraces basis'))))
        / (d : ℝ) ^ 2
      = trace (exp (∑ a ∈ s, realPart (cumulantGeneral (Γ a) (Δ a) (fourElementTraces basis))))
        / (d : ℝ) ^ 2 := by
  obtain ⟨_, _, h1, _, _⟩ := basis_transition_orthogonal basis basis' hC hH hC' hH'
  obtain ⟨hE, hEr⟩ := etm_sum_basis_change s basis basis' hC hH hC' hH' Γ Γ' hΓ Δ Δ' hΔ
  exact ⟨by rw [hE, Spec.trace_sandwich _ (Spec.toCplx_orth _ h1)],
    by rw [hEr, Spec.trace_sandwich _ h1]⟩

/-! ### 4. Trace of the cumulant function -/

/-- **`cumulant_trace_basis_independent`: `tr K' = tr K`** (corollary without the exponential;
hypotheses as in `cumulant_basis_change`).  By `infidelity_eq_neg_trace_model_cumulant` below,
`-tr K_ab/d²` is the infidelity of the pair `(a, b)`, so this is the cumulant-function form of
`C08.infidelity_basis_independent`. -/
theorem cumulant_trace_basis_independent (basis : Vector (Mat ℂ d d) N)
    (basis' : Vector (Mat ℂ d d) N')
    (hC : Spec.IsComplete (Spec.basisOf basis)) (hH : Spec.IsOrthoHerm (Spec.basisOf basis))
    (hC' : Spec.IsComplete (Spec.basisOf basis')) (hH' : Spec.IsOrthoHerm (Spec.basisOf basis'))
    (Γ : Mat ℂ N N) (Γ' : Mat ℂ N' N')
    (hΓ : Γ'.toMatrix = Spec.toCplx (basisTransition basis basis') * Γ.toMatrix
      * (Spec.toCplx (basisTransition basis basis'))ᵀ)
    (Δ : Option (Mat ℂ N N)) (Δ' : Option (Mat ℂ N' N'))
    (hΔ : ShiftsRelated (Spec.toCplx (basisTransition basis basis')) Δ Δ') :
    trace (cumulantGeneral Γ' Δ' (fourElementTraces basis')).toMatrix
      = trace (cumulantGeneral Γ Δ (fourElementTraces basis)).toMatrix ∧
    trace (realPart (cumulantGeneral Γ' Δ' (fourElementTraces basis')))
      = trace (realPart (cumulantGeneral Γ Δ (fourElementTraces basis))) := by
  obtain ⟨_, _, h1, _, _⟩ := basis_transition_orthogonal basis basis' hC hH hC' hH'
  obtain ⟨hK, hKr⟩ := cumulant_basis_change basis basis' hC hH hC' hH' Γ Γ' hΓ Δ Δ' hΔ
  exact ⟨by rw [hK, Spec.trace_sandwich _ (Spec.toCplx_orth _ h1)],
    by rw [hKr, Spec.trace_sandwich _ h1]⟩

/-- **The infidelity is `-tr K/d²` of the MODEL cumulant function** (`C08.infidelity_eq_neg_trace_cumulant`
read through `C09.cumulant_general_model`): for a complete orthonormal Hermitian basis the
trace-tensor branch of `infidelity` returns, for the pair `(a, b)` (cross-spectral matrix) resp.
the source `a` (one spectrum per source), `-tr K/d²` with `K = cumulantGeneral Γ_ab Δ T`, for every
`Δ` (or none). -/
theorem infidelity_eq_neg_trace_model_cumulant {q : Nat} (C : Vector (Mat ℂ d d) N)
    (hC : Spec.IsComplete (Spec.basisOf C)) (hH : Spec.IsOrthoHerm (Spec.basisOf C))
    (ω : Vec ℝ nO) (B : Ten3 ℂ nA N nO) (idIdx : Vec (Fin N) q) (idx : Vec (Fin nA) m)
    (S3 : Ten3 ℂ m m nO) (S2 : Mat ℂ m nO) (Δ : Option (Mat ℂ N N)) (a b : Fin m) :
    (((infidelityFromCM3 false d ω B (fourElementTraces C) idIdx idx S3)[a][b] : ℝ) : ℂ)
      = -(1 / (d : ℂ) ^ 2) * trace (cumulantGeneral
          (toComplexMat (decayAmplitudes3 ω B idx S3)[a][b]) Δ (fourElementTraces C)).toMatrix ∧
    (((infidelityFromCM2 false d ω B (fourElementTraces C) idIdx idx S2)[a] : ℝ) : ℂ)
      = -(1 / (d : ℂ) ^ 2) * trace (cumulantGeneral
          (toComplexMat (decayAmplitudes2 ω B idx S2)[a]) Δ (fourElementTraces C)).toMatrix := by
  have key : ∀ (G : Mat ℝ N N), trace (cumulantGeneral (toComplexMat G) Δ (fourElementTraces C)).toMatrix
      = ∑ i, Spec.Kfull (Spec.basisOf C) (C08.gammaOf G)
          (match Δ with | none => fun _ _ => 0 | some D => C09.fn D) i i := by
    intro G
    unfold Matrix.trace
    refine Finset.sum_congr rfl fun i _ => ?_
    rw [Matrix.diag_apply, Mat.toMatrix_apply, ← fn_toComplexMat]
    cases Δ with
    | none =>
      rw [(C09.cumulant_general_model C (toComplexMat G) (toComplexMat G) i i).1, Spec.Kfull,
        Spec.K2_diag, add_zero]
    | some D => rw [(C09.cumulant_general_model C (toComplexMat G) D i i).2]
  rw [key, key]
  exact C08.infidelity_eq_neg_trace_cumulant C hC hH ω B idIdx idx S3 S2 _ a b

/-! ### 5. From the pulse data to the error transfer matrix -/

/-- **End to end, first order.**  For the same pulse data and two complete orthonormal Hermitian
operator bases: control matrices `calculate_control_matrix_from_scratch` in the two bases, decay
amplitudes `calculate_decay_amplitudes` (cross-spectral matrix `S3`, all selected pairs `(a, b)`;
one spectrum per source `S2`, sources `a`), cumulant function on the general branch with the trace
tensor of the respective basis.  Then, with `O = basisTransition basis basis'`:
`K'_ab = O K_ab Oᵀ` for every pair, the error transfer matrices `exp(Σ K')`, `exp(Σ K)` (sum over
all pairs resp. sources, real matrices after `.real`, as in `error_transfer_matrix`) are related by
`O … Oᵀ`, and the process fidelities `tr(exp Σ K)/d²` coincide.  Every guard, both branches of the
integral, every grid, every selection. -/
theorem etm_basis_change_from_scratch (kind : MaskKind) (thr : ℝ)
    (eigvals : Mat ℝ nG d) (eigvecs props : Vector (Mat ℂ d d) nG)
    (omega : Vec ℝ nO) (basis : Vector (Mat ℂ d d) N) (basis' : Vector (Mat ℂ d d) N')
    (nOpers : Vector (Mat ℂ d d) nA) (nCoeffs : Mat ℝ nA nG) (dt t : Vec ℝ nG)
    (hC : Spec.IsComplete (Spec.basisOf basis)) (hH : Spec.IsOrthoHerm (Spec.basisOf basis))
    (hC' : Spec.IsComplete (Spec.basisOf basis')) (hH' : Spec.IsOrthoHerm (Spec.basisOf basis'))
    (idx : Vec (Fin nA) m) (S2 : Mat ℂ m nO) (S3 : Ten3 ℂ m m nO) :
    let O := basisTransition basis basis'
    let B := controlMatrixFromScratch kind thr eigvals eigvecs props omega basis nOpers nCoeffs dt t
    let B' := controlMatrixFromScratch kind thr eigvals eigvecs props omega basis' nOpers nCoeffs dt t
    let K3 := fun p : Fin m × Fin m => realPart (cumulantGeneral
      (toComplexMat (decayAmplitudes3 omega B idx S3)[p.1][p.2]) none (fourElementTraces basis))
    let K3' := fun p : Fin m × Fin m => realPart (cumulantGeneral
      (toComplexMat (decayAmplitudes3 omega B' idx S3)[p.1][p.2]) none (fourElementTraces basis'))
    let K2 := fun a : Fin m => realPart (cumulantGeneral
      (toComplexMat (decayAmplitudes2 omega B idx S2)[a]) none (fourElementTraces basis))
    let K2' := fun a : Fin m => realPart (cumulantGeneral
      (toComplexMat (decayAmplitudes2 omega B' idx S2)[a]) none (fourElementTraces basis'))
    (∀ p, K3' p = O * K3 p * Oᵀ) ∧ (∀ a, K2' a = O * K2 a * Oᵀ) ∧
    exp (∑ p, K3' p) = O * exp (∑ p, K3 p) * Oᵀ ∧
    exp (∑ a, K2' a) = O * exp (∑ a, K2 a) * Oᵀ ∧
    trace (exp (∑ p, K3' p)) / (d : ℝ) ^ 2 = trace (exp (∑ p, K3 p)) / (d : ℝ) ^ 2 ∧
    trace (exp (∑ a, K2' a)) / (d : ℝ) ^ 2 = trace (exp (∑ a, K2 a)) / (d : ℝ) ^ 2 := by
  intro O B B' K3 K3' K2 K2'
  have hB := cm_basis_change_real kind thr eigvals eigvecs props omega basis basis' nOpers nCoeffs
    dt t hC hH hC' hH'
  have hΓ3 : ∀ p ∈ (Finset.univ : Finset (Fin m × Fin m)),
      (toComplexMat (decayAmplitudes3 omega B' idx S3)[p.1][p.2]).toMatrix
        = Spec.toCplx O * (toComplexMat (decayAmplitudes3 omega B idx S3)[p.1][p.2]).toMatrix
          * (Spec.toCplx O)ᵀ := fun p _ =>
    (decay_amplitudes_basis_change_matrix omega B B' O hB idx (Vector.ofFn fun _ => 0) S2 S3
      p.1 p.2).2.2
  have hΓ2 : ∀ a ∈ (Finset.univ : Finset (Fin m)),
      (toComplexMat (decayAmplitudes2 omega B' idx S2)[a]).toMatrix
        = Spec.toCplx O * (toComplexMat (decayAmplitudes2 omega B idx S2)[a]).toMatrix
          * (Spec.toCplx O)ᵀ := fun a _ =>
    (decay_amplitudes_basis_change_matrix omega B B' O hB idx (Vector.ofFn fun _ => 0) S2 S3
      a a).2.1
  refine ⟨fun p => ?_, fun a => ?_, ?_, ?_, ?_, ?_⟩
  · exact (cumulant_basis_change basis basis' hC hH hC' hH' _ _ (hΓ3 p (Finset.mem_univ p)) none
      none trivial).2
  · exact (cumulant_basis_change basis basis' hC hH hC' hH' _ _ (hΓ2 a (Finset.mem_univ a)) none
      none trivial).2
  · exact (etm_sum_basis_change Finset.univ basis basis' hC hH hC' hH' _ _ hΓ3 (fun _ => none)
      (fun _ => none) (fun _ _ => trivial)).2
  · exact (etm_sum_basis_change Finset.univ basis basis' hC hH hC' hH' _ _ hΓ2 (fun _ => none)
      (fun _ => none) (fun _ _ => trivial)).2
  · exact (process_fidelity_basis_independent Finset.univ basis basis' hC hH hC' hH' _ _ hΓ3
      (fun _ => none) (fun _ => none) (fun _ _ => trivial)).2
  · exact (process_fidelity_basis_independent Finset.univ basis basis' hC hH hC' hH' _ _ hΓ2
      (fun _ => none) (fun _ => none) (fun _ _ => trivial)).2

/-! ### Non-vacuity -/

/-- the hypotheses on the bases are satisfiable by two DIFFERENT bases — the normalised Pauli basis
`(1, σx, σy, σz)/√2` and its re-ordering `(σx, 1, σy, σz)/√2` — and the transition matrix between
them is the (non-identity) permutation matrix of the transposition `(0 1)`. -/
example : ∃ basis basis' : Vector (Mat ℂ 2 2) 4,
    Spec.IsComplete (Spec.basisOf basis) ∧ Spec.IsOrthoHerm (Spec.basisOf basis) ∧
    Spec.IsComplete (Spec.basisOf basis') ∧ Spec.IsOrthoHerm (Spec.basisOf basis') ∧
    (∀ k l, basisTransition basis basis' k l = if Equiv.swap 0 1 k = l then 1 else 0) ∧
    basisTransition basis basis' 0 0 = 0 ∧ basisTransition basis basis' 0 1 = 1 := by
  refine ⟨Vector.ofFn fun i => Mat.ofFn (Spec.pauliBasis i),
    Vector.ofFn fun i => Mat.ofFn (Spec.pauliBasis (Equiv.swap 0 1 i)), ?_⟩
  have h : ∀ f : Fin 4 → Matrix (Fin 2) (Fin 2) ℂ,
      Spec.basisOf (Vector.ofFn fun i => Mat.ofFn (f i)) = f := by
    intro f
    funext i
    ext a b
    simp [Spec.basisOf, Mat.toMatrix, Mat.ofFn]
  have hT : ∀ k l, basisTransition (Vector.ofFn fun i => Mat.ofFn (Spec.pauliBasis i))
      (Vector.ofFn fun i => Mat.ofFn (Spec.pauliBasis (Equiv.swap 0 1 i))) k l
      = if Equiv.swap 0 1 k = l then 1 else 0 := by
    intro k l
    unfold basisTransition
    rw [h, h fun i => Spec.pauliBasis (Equiv.swap 0 1 i)]
    exact basisTransition_reorder Spec.pauliBasis Spec.pauliBasis_orthoHerm (Equiv.swap 0 1) k l
  rw [h, h fun i => Spec.pauliBasis (Equiv.swap 0 1 i)]
  refine ⟨Spec.pauliBasis_complete, Spec.pauliBasis_orthoHerm,
    Spec.pauliBasis_complete.comp_equiv (Equiv.swap 0 1),
    Spec.pauliBasis_orthoHerm.comp_equiv (Equiv.swap 0 1), hT, ?_, ?_⟩
  · rw [hT]; simp
  · rw [hT]; simp

/-- the hypothesis `Γ' = O Γ Oᵀ` is satisfiable for every `O` and `Γ` (take `Γ'` to be that
matrix), and `ShiftsRelated` holds for absent frequency shifts and for `Δ' = O Δ Oᵀ` -/
example (O : Matrix (Fin N') (Fin N) ℂ) (Γ : Mat ℂ N N) :
    ∃ Γ' : Mat ℂ N' N', Γ'.toMatrix = O * Γ.toMatrix * Oᵀ ∧ ShiftsRelated O none none ∧
      ShiftsRelated O (some Γ) (some Γ') :=
  ⟨Mat.ofFn fun k l => (O * Γ.toMatrix * Oᵀ) k l, by rw [Mat.toMatrix_ofFn]; rfl, trivial,
    by show (Mat.ofFn fun k l => (O * Γ.toMatrix * Oᵀ) k l).toMatrix = _
       rw [Mat.toMatrix_ofFn]; rfl⟩

/-- the hypothesis `hB` of `decay_amplitudes_basis_change` is satisfiable with a real matrix that
is NOT a permutation: mixing two rows with the rotation by 45° -/
example : ∃ (B B' : Ten3 ℂ 1 2 1) (O : Matrix (Fin 2) (Fin 2) ℝ),
    (∀ (a : Fin 1) (k : Fin 2) (o : Fin 1), B'[a][k][o] = ∑ l : Fin 2, (O k l : ℂ) * B[a][l][o]) ∧
    Oᵀ * O = 1 ∧ O 0 1 ≠ 0 ∧ O 0 0 ≠ 0 := by
  refine ⟨Vector.ofFn fun _ => Vector.ofFn fun k => Vector.ofFn fun _ => if k = 0 then 1 else 0,
    Vector.ofFn fun _ => Vector.ofFn fun k => Vector.ofFn fun _ =>
      if k = 0 then ((Real.sqrt 2)⁻¹ : ℝ) else (-(Real.sqrt 2)⁻¹ : ℝ),
    !![(Real.sqrt 2)⁻¹, (Real.sqrt 2)⁻¹; -(Real.sqrt 2)⁻¹, (Real.sqrt 2)⁻¹], ?_, ?_, ?_, ?_⟩
  · intro a k o
    simp only [Fin.getElem_fin, Vector.getElem_ofFn, Fin.sum_univ_two]
    fin_cases k <;> simp
  · have h2 : (Real.sqrt 2)⁻¹ * (Real.sqrt 2)⁻¹ = 1 / 2 := by
      rw [← mul_inv, Real.mul_self_sqrt (by norm_num)]; norm_num
    ext i j
    fin_cases i <;> fin_cases j <;> simp [Matrix.mul_apply, Fin.sum_univ_two, h2] <;> norm_num
  · simp
  · simp

end FFVerif.C12
