/-
C11 (assembly) — what `gradient._liouville_derivative` builds from its kernels is the derivative of
the control propagators with respect to a control amplitude.

* `exp_line_hasDerivAt_series_matrix` : termwise differentiation of the matrix exponential series;
* `exp_hasDerivAt_eigenbasis` (Daleckii–Krein) : the closed form `U_deriv` of the code;
* `liouvilleAMat_is_A`, `segment_propagator_derivative_model` : the same for the model's `A_mat`;
* `cumulative_propagator_derivative` : product rule for the cumulative propagators (the loop);
* `liouville_derivative_entry` : the final `2 Re tr(…)` contraction.

Property theorems only (helper lemmas live in FFVerif/Lemmas/ExpDerivAux.lean).  All derivative
statements are `HasDerivAt` statements for matrix-valued functions with respect to the product
(entrywise) topology of `Matrix (Fin d) (Fin d) ℂ`; no matrix norm appears in a statement
(`ExpDerivAux.matrix_hasDerivAt_iff` turns each of them into `d²` scalar statements).
-/
import Mathlib.LinearAlgebra.Matrix.Hadamard
import Mathlib.Analysis.Matrix.Spectrum
import FFVerif.Lemmas.ExpDerivAux
import FFVerif.Props.C02
import FFVerif.Props.C11
import FFVerif.Spec.Basis

namespace FFVerif.C11
open FFVerif FFVerif.Model FFVerif.GradientAux FFVerif.ExpDerivAux Matrix Complex
open FFVerif.C01 (segIntegral segIntegral_closed segIntegral_zero)
open FFVerif.C02 (IsEigh segProp piecewise_is_exp)
open scoped Matrix

/-! ### 1. the exponential series, differentiated term by term -/

/-- **Termwise differentiation of the matrix exponential** (`X`, `Y` arbitrary complex `d × d`
matrices, not assumed to commute): `u ↦ exp (X + u • Y)` has at `u = 0` the derivative
`Σ_n (1/(n+1)!) Σ_{k ≤ n} X^k Y X^(n-k)`.  (Instance of `ExpDerivAux.exp_line_hasDerivAt_series`,
which holds in every complete normed algebra over `ℝ` or `ℂ`.) -/
theorem exp_line_hasDerivAt_series_matrix {d : Nat} (X Y : Matrix (Fin d) (Fin d) ℂ) :
    HasDerivAt (fun u : ℂ => NormedSpace.exp (X + u • Y))
      (∑' n : ℕ, (((n + 1).factorial : ℂ))⁻¹ •
        ∑ k ∈ Finset.range (n + 1), X ^ k * Y * X ^ (n - k)) 0 := by
  let _ : SeminormedRing (Matrix (Fin d) (Fin d) ℂ) := Matrix.linftyOpSemiNormedRing
  let _ : NormedRing (Matrix (Fin d) (Fin d) ℂ) := Matrix.linftyOpNormedRing
  let _ : NormedAlgebra ℂ (Matrix (Fin d) (Fin d) ℂ) := Matrix.linftyOpNormedAlgebra
  exact exp_line_hasDerivAt_series (𝕂 := ℂ) X Y

/-! ### 2. Daleckii–Krein: the derivative of a segment propagator in the eigenbasis -/

/-- the exact `A_mat[g]` of `_liouville_derivative` for a segment with eigenvalues `lam` and length
`dt`: `A m n = dt` where `λ_m = λ_n` and `A m n = i (1 - e^{i (λ_m - λ_n) dt}) / (λ_m - λ_n)`
otherwise (the code replaces the test `λ_m = λ_n` by `|(λ_m - λ_n) dt| < 1e-7`, see
`liouvilleAMat_is_A`). -/
noncomputable def dkA {d : Nat} (lam : Fin d → ℝ) (dt : ℝ) : Matrix (Fin d) (Fin d) ℂ :=
  Matrix.of fun m n =>
    if lam m = lam n then (dt : ℂ)
    else I * (1 - Complex.exp (I * ((lam m - lam n : ℝ) : ℂ) * (dt : ℂ))) / ((lam m - lam n : ℝ) : ℂ)

/-- the entries of `A` are the integrals `∫₀^dt e^{i (λ_m - λ_n) s} ds` -/
theorem dkA_eq_segIntegral {d : Nat} (lam : Fin d → ℝ) (dt : ℝ) (m n : Fin d) :
    dkA lam dt m n = segIntegral (lam m - lam n) dt := by
  unfold dkA
  rw [Matrix.of_apply]
  split_ifs with h
  · rw [h, sub_self, segIntegral_zero]
  · have hx : lam m - lam n ≠ 0 := sub_ne_zero.mpr h
    have hxc : ((lam m - lam n : ℝ) : ℂ) ≠ 0 := by exact_mod_cast hx
    rw [segIntegral_closed _ _ hx]
    have e : I * (((lam m - lam n : ℝ) : ℂ) * (dt : ℂ)) = I * ((lam m - lam n : ℝ) : ℂ) * (dt : ℂ) := by
      ring
    rw [e]
    field_simp
    ring_nf
    simp only [Complex.I_sq]
    ring

/-- the algebraic core of `exp_hasDerivAt_eigenbasis`: the divided differences of `exp` at the
points `x_m = -i dt λ_m`, times `-i dt`, are `-i e^{-i dt λ_m} A_mn`. -/
theorem divDiffExp_eq_dkA {d : Nat} (lam : Fin d → ℝ) (dt : ℝ) (m n : Fin d) (c : ℂ) :
    divDiffExp (-(I * (dt : ℂ)) * (lam m : ℂ)) (-(I * (dt : ℂ)) * (lam n : ℂ))
        * (-(I * (dt : ℂ)) * c)
      = -I * (Complex.exp (-(I * ((dt : ℂ) * (lam m : ℂ)))) * (dkA lam dt m n * c)) := by
  unfold dkA
  rw [Matrix.of_apply]
  split_ifs with h
  · rw [h, divDiffExp_self]
    have e : -(I * (dt : ℂ)) * (lam n : ℂ) = -(I * ((dt : ℂ) * (lam n : ℂ))) := by ring
    rw [e]
    ring
  · have hx : lam m - lam n ≠ 0 := sub_ne_zero.mpr h
    have hxc : ((lam m - lam n : ℝ) : ℂ) ≠ 0 := by exact_mod_cast hx
    set δ : ℂ := ((lam m - lam n : ℝ) : ℂ) with hδ
    have hδ' : δ = (lam m : ℂ) - (lam n : ℂ) := by rw [hδ]; push_cast; ring
    set xm : ℂ := -(I * (dt : ℂ)) * (lam m : ℂ) with hxm
    set xn : ℂ := -(I * (dt : ℂ)) * (lam n : ℂ) with hxn
    have hsub : xm - xn = -(I * (dt : ℂ)) * δ := by rw [hxm, hxn, hδ']; ring
    have hG : divDiffExp xm xn * (-(I * (dt : ℂ))) = (Complex.exp xm - Complex.exp xn) / δ := by
      rw [eq_div_iff hxc, mul_assoc, ← hsub, divDiffExp_mul_sub]
    have hem : -(I * ((dt : ℂ) * (lam m : ℂ))) = xm := by rw [hxm]; ring
    have hexp : Complex.exp xm * Complex.exp (I * δ * (dt : ℂ)) = Complex.exp xn := by
      rw [← Complex.exp_add]
      congr 1
      rw [hxm, hxn, hδ']
      ring
    rw [hem, ← mul_assoc, hG]
    have : -I * (Complex.exp xm * (I * (1 - Complex.exp (I * δ * (dt : ℂ))) / δ * c))
        = (-I * I) * ((Complex.exp xm - Complex.exp xm * Complex.exp (I * δ * (dt : ℂ))) / δ * c) := by
      field_simp
    rw [this, hexp]
    have hI : -I * I = 1 := by rw [neg_mul, Complex.I_mul_I, neg_neg]
    rw [hI, one_mul]

/-- **Daleckii–Krein formula, complex parameter.**  Let `H = V diag(λ) V†` with `V` unitary
(`IsEigh H λ V`, the contract of `eigh`), `C` any complex `d × d` matrix and `dt` real.  Then
`u ↦ exp(-i dt (H + u C))` (`u` complex) has at `u = 0` the derivative
`-i · exp(-i dt H) · V · (A ∘ (V† C V)) · V†` with `∘` the entrywise product and `A = dkA λ dt`. -/
theorem exp_hasDerivAt_eigenbasis_complex {d : Nat} {H V : Matrix (Fin d) (Fin d) ℂ}
    {lam : Fin d → ℝ} (hE : IsEigh H lam V) (C : Matrix (Fin d) (Fin d) ℂ) (dt : ℝ) :
    HasDerivAt (fun u : ℂ => NormedSpace.exp ((-(I * (dt : ℂ))) • (H + u • C)))
      ((-I) • (NormedSpace.exp ((-(I * (dt : ℂ))) • H) * V * (dkA lam dt ⊙ (Vᴴ * C * V)) * Vᴴ))
      0 := by
  set a : ℂ := -(I * (dt : ℂ)) with ha
  have hH : a • H = V * diagonal (fun i => a * (lam i : ℂ)) * Vᴴ := by
    conv_lhs => rw [hE.spectral]
    rw [← Matrix.smul_mul, ← Matrix.mul_smul, ← Matrix.diagonal_smul]
    rfl
  have hC : V * (a • (Vᴴ * C * V)) * Vᴴ = a • C := by
    rw [Matrix.mul_smul, Matrix.smul_mul]
    congr 1
    calc V * (Vᴴ * C * V) * Vᴴ = (V * Vᴴ) * C * (V * Vᴴ) := by simp only [Matrix.mul_assoc]
      _ = C := by rw [hE.right, Matrix.one_mul, Matrix.mul_one]
  have hfun : (fun u : ℂ => NormedSpace.exp (a • (H + u • C)))
      = fun u : ℂ => NormedSpace.exp (V * diagonal (fun i => a * (lam i : ℂ)) * Vᴴ
          + u • (V * (a • (Vᴴ * C * V)) * Vᴴ)) := by
    funext u
    rw [hC, ← hH, smul_add, smul_comm a u C]
  rw [hfun]
  have h := exp_conj_line_hasDerivAt V hE.left hE.right (fun i => a * (lam i : ℂ))
    (a • (Vᴴ * C * V))
  have hP : NormedSpace.exp (a • H) * V
      = V * diagonal (fun j => Complex.exp (-(I * ((dt : ℂ) * (lam j : ℂ))))) := by
    rw [ha, ← piecewise_is_exp hE dt, segProp, Matrix.mul_assoc, hE.left, Matrix.mul_one]
  have hval : (-I) • (NormedSpace.exp (a • H) * V * (dkA lam dt ⊙ (Vᴴ * C * V)) * Vᴴ)
      = V * (Matrix.of fun m n => divDiffExp (a * (lam m : ℂ)) (a * (lam n : ℂ))
          * (a • (Vᴴ * C * V)) m n) * Vᴴ := by
    calc (-I) • (NormedSpace.exp (a • H) * V * (dkA lam dt ⊙ (Vᴴ * C * V)) * Vᴴ)
        = (-I) • (V * diagonal (fun j => Complex.exp (-(I * ((dt : ℂ) * (lam j : ℂ)))))
            * (dkA lam dt ⊙ (Vᴴ * C * V)) * Vᴴ) := by rw [hP]
      _ = V * ((-I) • (diagonal (fun j => Complex.exp (-(I * ((dt : ℂ) * (lam j : ℂ)))))
            * (dkA lam dt ⊙ (Vᴴ * C * V)))) * Vᴴ := by
          simp only [Matrix.mul_smul, Matrix.smul_mul, Matrix.mul_assoc]
      _ = _ := by
          congr 2
          ext m n
          rw [Matrix.of_apply, Matrix.smul_apply, Matrix.diagonal_mul, Matrix.hadamard_apply,
            Matrix.smul_apply, smul_eq_mul, smul_eq_mul]
          exact (divDiffExp_eq_dkA lam dt m n ((Vᴴ * C * V) m n)).symm
  rw [hval]
  exact h

/-- **Daleckii–Krein formula — the `U_deriv` of `_liouville_derivative`.**  Let
`H = V diag(λ) V†` with `V` unitary (`IsEigh H λ V`, the contract of `eigh` for one segment), `C` any
complex `d × d` matrix (a control operator) and `dt` real (the segment length).  Then the segment
propagator `u ↦ exp(-i dt (H + u C))` of the Hamiltonian with the amplitude of `C` shifted by the
real `u` has at `u = 0` the derivative

  `-i · exp(-i dt H) · V · (A ∘ (V† C V)) · V†`,   `A = dkA λ dt`,

which is line for line
`U_deriv = -1j * (propagators[1:] @ propagators[:-1]† @ eigvecs @ (A_mat * c_opers_transformed)
@ eigvecs†)` (with `propagators[g+1] @ propagators[g]† = exp(-i dt_g H_g)`,
`segment_propagator_eq_ratio`, and `c_opers_transformed = V† C V`).  No assumption on `C`, on the
sign of `dt` or on degeneracies of `λ`. -/
theorem exp_hasDerivAt_eigenbasis {d : Nat} {H V : Matrix (Fin d) (Fin d) ℂ}
    {lam : Fin d → ℝ} (hE : IsEigh H lam V) (C : Matrix (Fin d) (Fin d) ℂ) (dt : ℝ) :
    HasDerivAt (fun u : ℝ => NormedSpace.exp ((-(I * (dt : ℂ))) • (H + (u : ℂ) • C)))
      ((-I) • (NormedSpace.exp ((-(I * (dt : ℂ))) • H) * V * (dkA lam dt ⊙ (Vᴴ * C * V)) * Vᴴ))
      0 := by
  have h := exp_hasDerivAt_eigenbasis_complex hE C dt
  rw [← Complex.ofReal_zero] at h
  exact matrix_hasDerivAt_comp_ofReal
    (fun u : ℂ => NormedSpace.exp ((-(I * (dt : ℂ))) • (H + u • C))) _ 0 h

/-- the same with the segment propagator written in the spectral form the code evaluates
(`segProp λ V dt = V diag(e^{-i dt λ}) V†`, `C02.piecewise_is_exp`) -/
theorem segProp_hasDerivAt_amplitude {d : Nat} {H V : Matrix (Fin d) (Fin d) ℂ}
    {lam : Fin d → ℝ} (hE : IsEigh H lam V) (C : Matrix (Fin d) (Fin d) ℂ) (dt : ℝ) :
    HasDerivAt (fun u : ℝ => NormedSpace.exp ((-(I * (dt : ℂ))) • (H + (u : ℂ) • C)))
      ((-I) • (segProp lam V dt * V * (dkA lam dt ⊙ (Vᴴ * C * V)) * Vᴴ)) 0 := by
  rw [piecewise_is_exp hE dt]
  exact exp_hasDerivAt_eigenbasis hE C dt

/-- entrywise form of `exp_hasDerivAt_eigenbasis` (scalar derivatives only) -/
theorem exp_hasDerivAt_eigenbasis_entry {d : Nat} {H V : Matrix (Fin d) (Fin d) ℂ}
    {lam : Fin d → ℝ} (hE : IsEigh H lam V) (C : Matrix (Fin d) (Fin d) ℂ) (dt : ℝ)
    (i k : Fin d) :
    HasDerivAt (fun u : ℝ => NormedSpace.exp ((-(I * (dt : ℂ))) • (H + (u : ℂ) • C)) i k)
      (((-I) • (NormedSpace.exp ((-(I * (dt : ℂ))) • H) * V * (dkA lam dt ⊙ (Vᴴ * C * V)) * Vᴴ))
        i k) 0 :=
  (matrix_hasDerivAt_iff _ _ _).1 (exp_hasDerivAt_eigenbasis hE C dt) i k

/-- non-vacuity: `H = σ_z = 1 · diag(1,-1) · 1†`, `C = σ_x`; the off-diagonal entry of `A` is the
non-degenerate branch `i (1 - e^{2 i dt})/2`, the diagonal entries are `dt`. -/
example : IsEigh (!![1, 0; 0, -1] : Matrix (Fin 2) (Fin 2) ℂ) ![1, -1] 1 := by
  refine ⟨?_, by simp, by simp⟩
  rw [Matrix.mul_one, Matrix.one_mul]
  ext i j
  fin_cases i <;> fin_cases j <;> simp

example (dt : ℝ) : dkA ![1, -1] dt 0 1 = I * (1 - Complex.exp (I * (2 : ℝ) * dt)) / (2 : ℝ)
    ∧ dkA ![1, -1] dt 0 0 = dt := by
  constructor
  · unfold dkA
    rw [Matrix.of_apply, if_neg (by norm_num)]
    norm_num
  · simp [dkA]

/-! ### 3. the model's `A_mat` -/

/-- **`A_mat` of the model is `A`** on every entry that is not in the masked branch
(`|(λ_m - λ_n) dt| ≥ thr`) and on every exactly degenerate pair (`λ_m = λ_n`, masked for every
`thr > 0`): there the entry written by the code is exactly the entry of `dkA`. -/
theorem liouvilleAMat_is_A {d : Nat} (thr dt : ℝ) (hthr : 0 < thr) (ev : Vec ℝ d) (m n : Fin d)
    (h : gradMask thr ((ev[m] - ev[n]) * dt) = false ∨ ev[m] = ev[n]) :
    (liouvilleAMat (K := ℂ) thr ev dt).toMatrix m n = dkA (fun i => ev[i]) dt m n := by
  rw [Mat.toMatrix_apply, dkA_eq_segIntegral]
  rcases h with h | h
  · have hx : ev[m] - ev[n] ≠ 0 := by
      intro h0
      rw [h0, gradMask_false_iff] at h
      simp at h
      linarith
    have := liouvilleA_exact thr (ev[m] - ev[n]) dt hx h
    simp only [liouvilleAMat, Mat.ofFn_get]
    rw [this]
    rfl
  · rw [liouvilleAMat_degenerate thr dt hthr ev m n h]
    show (dt : ℂ) = segIntegral (ev[m] - ev[n]) dt
    rw [h, sub_self, segIntegral_zero]

/-- in the masked branch (`0 < |(λ_m - λ_n) dt| < thr`: nearly degenerate levels, or a very short
segment) the code writes `dt` instead of `A m n`; the difference is at most `thr · dt`
(`0 < thr ≤ 1`, `dt ≥ 0`; the source has `thr = 1e-7`).  Holds for every entry. -/
theorem liouvilleAMat_sub_A_le {d : Nat} (thr dt : ℝ) (hthr : 0 < thr) (hthr1 : thr ≤ 1)
    (hdt : 0 ≤ dt) (ev : Vec ℝ d) (m n : Fin d) :
    ‖(liouvilleAMat (K := ℂ) thr ev dt).toMatrix m n - dkA (fun i => ev[i]) dt m n‖
      ≤ thr * dt := by
  rw [Mat.toMatrix_apply, dkA_eq_segIntegral]
  simp only [liouvilleAMat, Mat.ofFn_get]
  exact liouvilleA_error thr (ev[m] - ev[n]) dt hthr hthr1 hdt

/-- **`U_deriv` with the model's `A_mat`, exact case.**  If no pair of levels of the segment is in
the grey zone `0 < |(λ_m - λ_n) dt| < thr` (every entry of `A_mat` is either unmasked or exactly
degenerate), then the expression the code evaluates — with the model's `liouvilleAMat`, the model's
eigenvector matrix and the spectral form `segProp` of the segment propagator — is exactly the
derivative of `u ↦ exp(-i dt (H + u C))` at `u = 0`. -/
theorem segment_propagator_derivative_model {d : Nat} {H : Matrix (Fin d) (Fin d) ℂ}
    (ev : Vec ℝ d) (V : Mat ℂ d d) (hE : IsEigh H (fun j => ev[j]) V.toMatrix)
    (C : Matrix (Fin d) (Fin d) ℂ) (thr dt : ℝ) (hthr : 0 < thr)
    (hsharp : ∀ m n : Fin d, gradMask thr ((ev[m] - ev[n]) * dt) = false ∨ ev[m] = ev[n]) :
    HasDerivAt (fun u : ℝ => NormedSpace.exp ((-(I * (dt : ℂ))) • (H + (u : ℂ) • C)))
      ((-I) • (segProp (fun j => ev[j]) V.toMatrix dt * V.toMatrix
        * ((liouvilleAMat (K := ℂ) thr ev dt).toMatrix ⊙ (V.toMatrixᴴ * C * V.toMatrix))
        * V.toMatrixᴴ)) 0 := by
  have hA : (liouvilleAMat (K := ℂ) thr ev dt).toMatrix = dkA (fun i => ev[i]) dt := by
    ext m n
    exact liouvilleAMat_is_A thr dt hthr ev m n (hsharp m n)
  rw [hA]
  exact segProp_hasDerivAt_amplitude hE C dt

/-- **`U_deriv` with the model's `A_mat`, general case, with an explicit error term.**  For every
`0 < thr ≤ 1`, `dt ≥ 0`: the derivative of `u ↦ exp(-i dt (H + u C))` at `u = 0` is the expression
the code evaluates plus `Err = -i · P V ((A - A_mat) ∘ (V† C V)) V†`, where every entry of
`A - A_mat` is bounded by `thr · dt` and vanishes outside the grey zone, and the Frobenius norm of
`Err` is at most `thr · dt` times the Frobenius norm of `C`
(`Σ|Err_ij|² ≤ (thr dt)² Σ|C_ij|²`). -/
theorem segment_propagator_derivative_model_error {d : Nat} {H : Matrix (Fin d) (Fin d) ℂ}
    (ev : Vec ℝ d) (V : Mat ℂ d d) (hE : IsEigh H (fun j => ev[j]) V.toMatrix)
    (C : Matrix (Fin d) (Fin d) ℂ) (thr dt : ℝ) (hthr : 0 < thr) (hthr1 : thr ≤ 1)
    (hdt : 0 ≤ dt) :
    ∃ Err : Matrix (Fin d) (Fin d) ℂ,
      HasDerivAt (fun u : ℝ => NormedSpace.exp ((-(I * (dt : ℂ))) • (H + (u : ℂ) • C)))
        ((-I) • (segProp (fun j => ev[j]) V.toMatrix dt * V.toMatrix
          * ((liouvilleAMat (K := ℂ) thr ev dt).toMatrix ⊙ (V.toMatrixᴴ * C * V.toMatrix))
          * V.toMatrixᴴ) + Err) 0
      ∧ Err = (-I) • (segProp (fun j => ev[j]) V.toMatrix dt * V.toMatrix
          * ((dkA (fun i => ev[i]) dt - (liouvilleAMat (K := ℂ) thr ev dt).toMatrix)
              ⊙ (V.toMatrixᴴ * C * V.toMatrix)) * V.toMatrixᴴ)
      ∧ frobSq Err ≤ (thr * dt) ^ 2 * frobSq C := by
  set W := V.toMatrix with hW
  set Am := (liouvilleAMat (K := ℂ) thr ev dt).toMatrix with hAm
  set A := dkA (fun i => ev[i]) dt with hA
  set P := segProp (fun j => ev[j]) W dt with hP
  refine ⟨(-I) • (P * W * ((A - Am) ⊙ (Wᴴ * C * W)) * Wᴴ), ?_, rfl, ?_⟩
  · have h := segProp_hasDerivAt_amplitude hE C dt
    have e : (-I) • (P * W * (Am ⊙ (Wᴴ * C * W)) * Wᴴ)
        + (-I) • (P * W * ((A - Am) ⊙ (Wᴴ * C * W)) * Wᴴ)
        = (-I) • (P * W * (A ⊙ (Wᴴ * C * W)) * Wᴴ) := by
      rw [← smul_add, ← Matrix.add_mul, ← Matrix.mul_add, ← Matrix.add_hadamard,
        add_sub_cancel]
    rw [e]
    exact h
  · have hPu := C02.segProp_unitary (fun j => ev[j]) W hE.left dt
    have hWl : Wᴴ * W = 1 := hE.left
    have hWr : W * Wᴴ = 1 := hE.right
    have hbound : ∀ m n, ‖(A - Am) m n‖ ≤ thr * dt := by
      intro m n
      rw [Matrix.sub_apply, norm_sub_rev]
      exact liouvilleAMat_sub_A_le thr dt hthr hthr1 hdt ev m n
    have hWHu : (Wᴴ)ᴴ * Wᴴ = 1 := by rw [Matrix.conjTranspose_conjTranspose]; exact hWr
    have hWHr : Wᴴ * (Wᴴ)ᴴ = 1 := by rw [Matrix.conjTranspose_conjTranspose]; exact hWl
    calc frobSq ((-I) • (P * W * ((A - Am) ⊙ (Wᴴ * C * W)) * Wᴴ))
        = frobSq (P * W * ((A - Am) ⊙ (Wᴴ * C * W)) * Wᴴ) := by
          rw [frobSq_smul]; simp
      _ = frobSq (P * (W * ((A - Am) ⊙ (Wᴴ * C * W)))) := by
          rw [frobSq_mul_unitary _ _ hWHr, Matrix.mul_assoc]
      _ = frobSq ((A - Am) ⊙ (Wᴴ * C * W)) := by
          rw [frobSq_unitary_mul _ _ hPu.1, frobSq_unitary_mul _ _ hWl]
      _ ≤ (thr * dt) ^ 2 * frobSq (Wᴴ * C * W) := frobSq_hadamard_le _ _ _ hbound
      _ = (thr * dt) ^ 2 * frobSq C := by
          rw [frobSq_mul_unitary _ _ hWr, frobSq_unitary_mul _ _ hWHu]

/-! ### 4. the cumulative propagators: the loop of `_liouville_derivative` -/

section cumulative
variable {nG d : Nat}

/-- `propagators[g+1] @ propagators[g]† = P_g` (the first two factors of `U_deriv`): the ratio of
consecutive cumulative propagators is the segment propagator `V_g diag(e^{-i dt_g λ_g}) V_g†`
(`= exp(-i dt_g H_g)` under the `eigh` contract).  Needs the eigenvector matrices unitary. -/
theorem segment_propagator_eq_ratio (eigvals : Mat ℝ nG d) (eigvecs : Vector (Mat ℂ d d) nG)
    (dt : Vec ℝ nG)
    (hV : ∀ (g : Nat) (hg : g < nG), (eigvecs[g].toMatrix)ᴴ * eigvecs[g].toMatrix = 1)
    (g : Nat) (hg : g < nG) :
    (propagators eigvals eigvecs dt)[g + 1].toMatrix
        * ((propagators eigvals eigvecs dt)[g].toMatrix)ᴴ
      = segProp (fun j => eigvals[g][j]) eigvecs[g].toMatrix dt[g] := by
  rw [C02.propagators_succ eigvals eigvecs dt g hg, Matrix.mul_assoc,
    (C02.propagators_unitary eigvals eigvecs dt hV g (le_of_lt hg)).2, Matrix.mul_one]

/-- **Product rule for the cumulative propagators — what the loop of `_liouville_derivative`
computes.**  One-parameter family of pulses: the Hamiltonian of segment `g'` is `H_{g'} + u C`
(`u` real: a shift of the amplitude of the control operator `C` in that segment), all other
segments keep `H_g`; for every `u` the arrays `eigvals u`, `eigvecs u` satisfy the `eigh` contract
for these Hamiltonians (they are NOT assumed to depend continuously on `u`).  Then every cumulative
propagator `Q_g(u) = propagators[g]` of the model is differentiable at `u = 0` with

  `∂Q_g = Q_g · Q_{g'+1}† · U_deriv[g'] · Q_{g'}`  if `g' < g`,  `∂Q_g = 0`  if `g' ≥ g`,

where `U_deriv[g'] = -i P_{g'} V (A ∘ (V† C V)) V†` is the derivative of the segment propagator of
`exp_hasDerivAt_eigenbasis` and all `Q`'s, `V`, `λ` are those of `u = 0`.  With `g = t + 1` this is
`U_deriv_transformed[:, g'] = propagators[g'+1]† @ U_deriv[:, g'] @ propagators[g']`,
`propagators_deriv[:, t, :t+1] = propagators[t+1] @ U_deriv_transformed[:, :t+1]`
(and the entries `propagators_deriv[:, t, t+1:]` stay zero; `propagators[0] = 1`). -/
theorem cumulative_propagator_derivative (dt : Vec ℝ nG)
    (H : Fin nG → Matrix (Fin d) (Fin d) ℂ) (C : Matrix (Fin d) (Fin d) ℂ) (g' : Nat)
    (hg' : g' < nG) (eigvals : ℝ → Mat ℝ nG d) (eigvecs : ℝ → Vector (Mat ℂ d d) nG)
    (hE : ∀ (u : ℝ) (g : Fin nG),
      IsEigh (H g + (if g.1 = g' then (u : ℂ) • C else 0))
        (fun j => (eigvals u)[g.1][j]) (eigvecs u)[g.1].toMatrix)
    (g : Nat) (hg : g ≤ nG) :
    HasDerivAt (fun u : ℝ => (propagators (eigvals u) (eigvecs u) dt)[g].toMatrix)
      (if g' < g then
        (propagators (eigvals 0) (eigvecs 0) dt)[g].toMatrix
          * ((propagators (eigvals 0) (eigvecs 0) dt)[g' + 1].toMatrix)ᴴ
          * ((-I) • (segProp (fun j => (eigvals 0)[g'][j]) (eigvecs 0)[g'].toMatrix dt[g']
              * (eigvecs 0)[g'].toMatrix
              * (dkA (fun j => (eigvals 0)[g'][j]) dt[g']
                  ⊙ (((eigvecs 0)[g'].toMatrix)ᴴ * C * (eigvecs 0)[g'].toMatrix))
              * ((eigvecs 0)[g'].toMatrix)ᴴ))
          * (propagators (eigvals 0) (eigvecs 0) dt)[g'].toMatrix
      else 0) 0 := by
  -- the chain of `ExpDerivAux.chain_hasDerivAt`
  let P : ℕ → ℝ → Matrix (Fin d) (Fin d) ℂ := fun k u =>
    if h : k < nG then
      NormedSpace.exp ((-(I * (dt[k] : ℂ))) • (H ⟨k, h⟩ + (if k = g' then (u : ℂ) • C else 0)))
    else 1
  let Q : ℕ → ℝ → Matrix (Fin d) (Fin d) ℂ := fun k u =>
    if h : k ≤ nG then (propagators (eigvals u) (eigvecs u) dt)[k].toMatrix else 1
  have hQ0 : ∀ u, Q 0 u = 1 := by
    intro u
    simp only [Q, Nat.zero_le, dite_true]
    exact C02.propagators_zero (eigvals u) (eigvecs u) dt
  have hQs : ∀ k, k < nG → ∀ u, Q (k + 1) u = P k u * Q k u := by
    intro k hk u
    have hk1 : k + 1 ≤ nG := hk
    have hk0 : k ≤ nG := le_of_lt hk
    simp only [Q, P, hk1, hk0, hk, dite_true]
    exact C02.propagators_succ_exp (eigvals u) (eigvecs u) dt _ k hk (hE u ⟨k, hk⟩)
  have hconst : ∀ k, k < nG → k ≠ g' → ∀ u, P k u = P k 0 := by
    intro k hk hkg u
    simp only [P, hk, dite_true, if_neg hkg]
  have hE0 : IsEigh (H ⟨g', hg'⟩) (fun j => (eigvals 0)[g'][j]) (eigvecs 0)[g'].toMatrix := by
    have h0 := hE 0 ⟨g', hg'⟩
    simpa using h0
  have hP : HasDerivAt (P g')
      ((-I) • (segProp (fun j => (eigvals 0)[g'][j]) (eigvecs 0)[g'].toMatrix dt[g']
              * (eigvecs 0)[g'].toMatrix
              * (dkA (fun j => (eigvals 0)[g'][j]) dt[g']
                  ⊙ (((eigvecs 0)[g'].toMatrix)ᴴ * C * (eigvecs 0)[g'].toMatrix))
              * ((eigvecs 0)[g'].toMatrix)ᴴ)) 0 := by
    have hfun : P g' = fun u : ℝ =>
        NormedSpace.exp ((-(I * (dt[g'] : ℂ))) • (H ⟨g', hg'⟩ + (u : ℂ) • C)) := by
      funext u
      simp only [P, hg', dite_true, if_true]
    rw [hfun]
    exact segProp_hasDerivAt_amplitude hE0 C dt[g']
  have hV : ∀ (k : Nat) (hk : k < nG),
      (((eigvecs 0)[k]).toMatrix)ᴴ * ((eigvecs 0)[k]).toMatrix = 1 :=
    fun k hk => (hE 0 ⟨k, hk⟩).left
  have hU : Q (g' + 1) 0 * (Q (g' + 1) 0)ᴴ = 1 := by
    have hk1 : g' + 1 ≤ nG := hg'
    simp only [Q, hk1, dite_true]
    exact (C02.propagators_unitary (eigvals 0) (eigvecs 0) dt hV (g' + 1) hk1).2
  have key := chain_hasDerivAt nG P Q g' _ hQ0 hQs hconst hP hU g hg
  have hQg : Q g = fun u : ℝ => (propagators (eigvals u) (eigvecs u) dt)[g].toMatrix := by
    funext u
    simp only [Q, hg, dite_true]
  rw [hQg] at key
  by_cases hlt : g' < g
  · have hk1 : g' + 1 ≤ nG := hg'
    have hk0 : g' ≤ nG := le_of_lt hg'
    rw [if_pos hlt] at key ⊢
    simp only [Q, hk1, hk0, dite_true] at key
    exact key
  · rw [if_neg hlt] at key ⊢
    exact key

/-- the same with the model's `A_mat` (`liouvilleAMat`, threshold `thr > 0`) in place of the exact
`A`, when no pair of levels of segment `g'` lies in the grey zone `0 < |(λ_m - λ_n) dt| < thr`
(otherwise `U_deriv[g']` carries the error term of `segment_propagator_derivative_model_error`,
which is propagated by the unitary factors `Q_g Q_{g'+1}†`, `Q_{g'}` without amplification in the
Frobenius norm). -/
theorem cumulative_propagator_derivative_model (dt : Vec ℝ nG)
    (H : Fin nG → Matrix (Fin d) (Fin d) ℂ) (C : Matrix (Fin d) (Fin d) ℂ) (g' : Nat)
    (hg' : g' < nG) (eigvals : ℝ → Mat ℝ nG d) (eigvecs : ℝ → Vector (Mat ℂ d d) nG)
    (hE : ∀ (u : ℝ) (g : Fin nG),
      IsEigh (H g + (if g.1 = g' then (u : ℂ) • C else 0))
        (fun j => (eigvals u)[g.1][j]) (eigvecs u)[g.1].toMatrix)
    (thr : ℝ) (hthr : 0 < thr)
    (hsharp : ∀ m n : Fin d,
      gradMask thr (((eigvals 0)[g'][m] - (eigvals 0)[g'][n]) * dt[g']) = false
        ∨ (eigvals 0)[g'][m] = (eigvals 0)[g'][n])
    (g : Nat) (hg : g ≤ nG) :
    HasDerivAt (fun u : ℝ => (propagators (eigvals u) (eigvecs u) dt)[g].toMatrix)
      (if g' < g then
        (propagators (eigvals 0) (eigvecs 0) dt)[g].toMatrix
          * ((propagators (eigvals 0) (eigvecs 0) dt)[g' + 1].toMatrix)ᴴ
          * ((-I) • (segProp (fun j => (eigvals 0)[g'][j]) (eigvecs 0)[g'].toMatrix dt[g']
              * (eigvecs 0)[g'].toMatrix
              * ((liouvilleAMat (K := ℂ) thr (eigvals 0)[g'] dt[g']).toMatrix
                  ⊙ (((eigvecs 0)[g'].toMatrix)ᴴ * C * (eigvecs 0)[g'].toMatrix))
              * ((eigvecs 0)[g'].toMatrix)ᴴ))
          * (propagators (eigvals 0) (eigvecs 0) dt)[g'].toMatrix
      else 0) 0 := by
  have hA : (liouvilleAMat (K := ℂ) thr (eigvals 0)[g'] dt[g']).toMatrix
      = dkA (fun j => (eigvals 0)[g'][j]) dt[g'] := by
    ext m n
    exact liouvilleAMat_is_A thr dt[g'] hthr (eigvals 0)[g'] m n (hsharp m n)
  rw [hA]
  exact cumulative_propagator_derivative dt H C g' hg' eigvals eigvecs hE g hg

/-- the contract of `eigh` can be met for every Hermitian matrix (spectral theorem) -/
theorem exists_isEigh {d : Nat} (A : Matrix (Fin d) (Fin d) ℂ) (hA : A.IsHermitian) :
    ∃ (D : Fin d → ℝ) (V : Matrix (Fin d) (Fin d) ℂ), IsEigh A D V := by
  refine ⟨hA.eigenvalues, (hA.eigenvectorUnitary : Matrix (Fin d) (Fin d) ℂ), ?_, ?_, ?_⟩
  · have h := hA.spectral_theorem
    rw [Unitary.conjStarAlgAut_apply] at h
    have hl : star (hA.eigenvectorUnitary : Matrix (Fin d) (Fin d) ℂ)
        * (hA.eigenvectorUnitary : Matrix (Fin d) (Fin d) ℂ) = 1 := Unitary.coe_star_mul_self _
    generalize (hA.eigenvectorUnitary : Matrix (Fin d) (Fin d) ℂ) = U at h hl
    generalize hA.eigenvalues = ev at h
    subst h
    rw [Matrix.mul_assoc, hl, Matrix.mul_one]
    rfl
  · rw [← Matrix.star_eq_conjTranspose]; exact Unitary.coe_star_mul_self _
  · rw [← Matrix.star_eq_conjTranspose]; exact Unitary.coe_mul_star_self _

/-- **the hypotheses of `cumulative_propagator_derivative` are satisfiable** for every sequence of
Hermitian segment Hamiltonians and every Hermitian control operator (not assumed to commute with
anything): `eigh` arrays exist for every value of the amplitude shift. -/
theorem eigh_family_exists {nG d : Nat} (H : Fin nG → Matrix (Fin d) (Fin d) ℂ)
    (hH : ∀ g, (H g).IsHermitian) (C : Matrix (Fin d) (Fin d) ℂ) (hC : C.IsHermitian) (g' : Nat) :
    ∃ (eigvals : ℝ → Mat ℝ nG d) (eigvecs : ℝ → Vector (Mat ℂ d d) nG),
      ∀ (u : ℝ) (g : Fin nG),
        IsEigh (H g + (if g.1 = g' then (u : ℂ) • C else 0))
          (fun j => (eigvals u)[g.1][j]) (eigvecs u)[g.1].toMatrix := by
  have hherm : ∀ (u : ℝ) (g : Fin nG),
      (H g + (if g.1 = g' then (u : ℂ) • C else 0)).IsHermitian := by
    intro u g
    refine (hH g).add ?_
    split_ifs
    · unfold Matrix.IsHermitian
      rw [Matrix.conjTranspose_smul, hC.eq]
      simp
    · exact Matrix.isHermitian_zero
  choose D V hDV using fun (u : ℝ) (g : Fin nG) => exists_isEigh _ (hherm u g)
  refine ⟨fun u => Vector.ofFn fun g => Vector.ofFn fun j => D u g j,
    fun u => Vector.ofFn fun g => Mat.ofFn (fun i j => V u g i j), ?_⟩
  intro u g
  have h := hDV u g
  simp only [Vector.getElem_ofFn, Fin.getElem_fin, Fin.eta]
  rw [Mat.toMatrix_ofFn]
  exact h

/-- a concrete non-commuting instance of the hypotheses: two segments `H_0 = σ_z`, `H_1 = σ_x`,
the amplitude of `C = σ_x` varied in segment `0`; the conclusion of
`cumulative_propagator_derivative` for the total propagator `Q_2`. -/
example : ∃ (eigvals : ℝ → Mat ℝ 2 2) (eigvecs : ℝ → Vector (Mat ℂ 2 2) 2)
    (dQ : Matrix (Fin 2) (Fin 2) ℂ),
    HasDerivAt (fun u : ℝ =>
      (propagators (eigvals u) (eigvecs u) (#v[1, 2] : Vec ℝ 2))[2].toMatrix) dQ 0 := by
  have hz : (!![1, 0; 0, -1] : Matrix (Fin 2) (Fin 2) ℂ).IsHermitian := by
    ext i j; fin_cases i <;> fin_cases j <;> simp [Matrix.conjTranspose_apply]
  have hx : (!![0, 1; 1, 0] : Matrix (Fin 2) (Fin 2) ℂ).IsHermitian := by
    ext i j; fin_cases i <;> fin_cases j <;> simp [Matrix.conjTranspose_apply]
  obtain ⟨eigvals, eigvecs, hE⟩ := eigh_family_exists
    (![!![1, 0; 0, -1], !![0, 1; 1, 0]] : Fin 2 → Matrix (Fin 2) (Fin 2) ℂ)
    (by intro g; fin_cases g <;> simpa) !![0, 1; 1, 0] hx 0
  exact ⟨eigvals, eigvecs, _,
    cumulative_propagator_derivative (#v[1, 2] : Vec ℝ 2) _ _ 0 (by norm_num) eigvals eigvecs hE 2
      (le_refl _)⟩

end cumulative

/-! ### 5. the Liouville representation: the last lines of `_liouville_derivative` -/

/-- **Derivative of the Liouville representation of a propagator.**  For a Hermitian operator basis
`C_0, …` and a family `Q(u)` of `d × d` matrices differentiable at `u₀` with derivative `dQ`
(e.g. the cumulative propagators with `dQ` from `cumulative_propagator_derivative`):
`d/du tr(C_j Q C_k Q†) = 2 Re tr((dQ)† C_j Q C_k)` — the code's "can just take 2*Re(·) when
calculating x + x*". -/
theorem liouville_derivative_entry {N d : Nat} (Cb : Fin N → Matrix (Fin d) (Fin d) ℂ)
    (hherm : ∀ i, (Cb i)ᴴ = Cb i) {Q : ℝ → Matrix (Fin d) (Fin d) ℂ}
    {dQ : Matrix (Fin d) (Fin d) ℂ} {u0 : ℝ} (hQ : HasDerivAt Q dQ u0) (j k : Fin N) :
    HasDerivAt (fun u => Spec.liou Cb (Q u) j k)
      (((2 * (Matrix.trace (dQᴴ * Cb j * Q u0 * Cb k)).re : ℝ) : ℂ)) u0 :=
  liou_entry_hasDerivAt hQ (Cb j) (Cb k) (hherm j) (hherm k)

/-- entries of the generated contraction `'htsba,tjkba->thsjk'` (unfolding only) -/
theorem liouville_derivative_get {nH nT nS N d : Nat}
    (pdc : Vector (Vector (Vector (Mat ℂ d d) nS) nT) nH)
    (bqb : Vector (Vector (Vector (Mat ℂ d d) N) N) nT)
    (t : Fin nT) (h : Fin nH) (s : Fin nS) (j k : Fin N) :
    (Gen.gradient__liouville_derivative_0 pdc bqb)[t][h][s][j][k]
      = ∑ b : Fin d, ∑ a : Fin d, pdc[h][t][s][b][a] * bqb[t][j][k][b][a] := by
  unfold Gen.gradient__liouville_derivative_0
  simp only [Fin.getElem_fin, Vector.getElem_ofFn, fsum_eq_sum]

/-- **The generated contraction `'htsba,tjkba->thsjk'`** of
`np.einsum('htsba,tjkba->thsjk', propagators_deriv.conj(), basis @ Q @ basis)`: if the first operand
holds the complex conjugate of `dQ` at `[h][t][s]` and the second holds `C_j Q C_k` at `[t][j][k]`,
the entry `[t][h][s][j][k]` of the result is `tr((dQ)† C_j Q C_k)`. -/
theorem liouville_derivative_contraction {nH nT nS N d : Nat}
    (pdc : Vector (Vector (Vector (Mat ℂ d d) nS) nT) nH)
    (bqb : Vector (Vector (Vector (Mat ℂ d d) N) N) nT)
    (t : Fin nT) (h : Fin nH) (s : Fin nS) (j k : Fin N)
    (dQ CQC : Matrix (Fin d) (Fin d) ℂ)
    (h0 : ∀ b a : Fin d, pdc[h][t][s][b][a] = (starRingEnd ℂ) (dQ b a))
    (h1 : ∀ b a : Fin d, bqb[t][j][k][b][a] = CQC b a) :
    (Gen.gradient__liouville_derivative_0 pdc bqb)[t][h][s][j][k] = Matrix.trace (dQᴴ * CQC) := by
  rw [liouville_derivative_get]
  simp only [Matrix.trace, Matrix.diag_apply, Matrix.mul_apply, Matrix.conjTranspose_apply]
  rw [Finset.sum_comm]
  refine Finset.sum_congr rfl fun a _ => Finset.sum_congr rfl fun b _ => ?_
  rw [h0 b a, h1 b a]
  rfl

/-- **`liouville_deriv[t, h, s, j, k]` is the derivative of the Liouville representation.**
Assembly of the last three statements of `_liouville_derivative`: `2 * (…).real` of the generated
contraction, evaluated on `conj(dQ)` and `C_j Q(u₀) C_k`, is the derivative at `u₀` of
`u ↦ L(Q(u))_{jk} = tr(C_j Q(u) C_k Q(u)†)` for every family `Q` differentiable at `u₀` with
derivative `dQ` and every Hermitian basis. -/
theorem liouville_derivative_assembly {nH nT nS N d : Nat}
    (Cb : Fin N → Matrix (Fin d) (Fin d) ℂ) (hherm : ∀ i, (Cb i)ᴴ = Cb i)
    {Q : ℝ → Matrix (Fin d) (Fin d) ℂ} {dQ : Matrix (Fin d) (Fin d) ℂ} {u0 : ℝ}
    (hQ : HasDerivAt Q dQ u0)
    (pdc : Vector (Vector (Vector (Mat ℂ d d) nS) nT) nH)
    (bqb : Vector (Vector (Vector (Mat ℂ d d) N) N) nT)
    (t : Fin nT) (h : Fin nH) (s : Fin nS) (j k : Fin N)
    (h0 : ∀ b a : Fin d, pdc[h][t][s][b][a] = (starRingEnd ℂ) (dQ b a))
    (h1 : ∀ b a : Fin d, bqb[t][j][k][b][a] = (Cb j * Q u0 * Cb k) b a) :
    HasDerivAt (fun u => Spec.liou Cb (Q u) j k)
      (((2 * ((Gen.gradient__liouville_derivative_0 pdc bqb)[t][h][s][j][k]).re : ℝ) : ℂ)) u0 := by
  rw [liouville_derivative_contraction pdc bqb t h s j k dQ (Cb j * Q u0 * Cb k) h0 h1]
  have := liouville_derivative_entry Cb hherm hQ j k
  simpa only [Matrix.mul_assoc] using this


/-- **End to end: the derivative of the Liouville representation of a cumulative propagator with
respect to a control amplitude** is `2 Re tr((∂Q_g)† C_j Q_g C_k)` with `∂Q_g` the matrix assembled
by the loop of `_liouville_derivative` (`cumulative_propagator_derivative`), for a Hermitian basis
and `eigh` arrays satisfying their contract for every value of the amplitude shift. -/
theorem liouville_derivative_of_pulse {nG d N : Nat} (dt : Vec ℝ nG)
    (H : Fin nG → Matrix (Fin d) (Fin d) ℂ) (C : Matrix (Fin d) (Fin d) ℂ) (g' : Nat)
    (hg' : g' < nG) (eigvals : ℝ → Mat ℝ nG d) (eigvecs : ℝ → Vector (Mat ℂ d d) nG)
    (hE : ∀ (u : ℝ) (g : Fin nG),
      IsEigh (H g + (if g.1 = g' then (u : ℂ) • C else 0))
        (fun j => (eigvals u)[g.1][j]) (eigvecs u)[g.1].toMatrix)
    (Cb : Fin N → Matrix (Fin d) (Fin d) ℂ) (hherm : ∀ i, (Cb i)ᴴ = Cb i)
    (g : Nat) (hg : g ≤ nG) (j k : Fin N) :
    ∃ dQ : Matrix (Fin d) (Fin d) ℂ,
      HasDerivAt (fun u : ℝ => (propagators (eigvals u) (eigvecs u) dt)[g].toMatrix) dQ 0 ∧
      HasDerivAt
        (fun u : ℝ => Spec.liou Cb ((propagators (eigvals u) (eigvecs u) dt)[g].toMatrix) j k)
        (((2 * (Matrix.trace (dQᴴ * Cb j
            * (propagators (eigvals 0) (eigvecs 0) dt)[g].toMatrix * Cb k)).re : ℝ) : ℂ)) 0 := by
  have h := cumulative_propagator_derivative dt H C g' hg' eigvals eigvecs hE g hg
  exact ⟨_, h, liouville_derivative_entry Cb hherm h j k⟩

end FFVerif.C11
