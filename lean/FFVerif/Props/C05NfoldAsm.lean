/-
C05Nfold, part 2 — the whole arrays that the executable model `Model/ExtendAsm` of the assembly in
`pulse_sequence.extend` produces equal the control matrix / fidelity filter function computed from
scratch on the register pulse (separate module: the statements range over a list of dependent
records, which is slow to elaborate).
-/
import FFVerif.Props.C05Nfold

namespace FFVerif.C05Nfold
open FFVerif FFVerif.Model FFVerif.KronAux FFVerif.NfoldAux FFVerif.ExtendAsmAux Matrix Complex
open FFVerif.Model.ExtendAsm FFVerif.Model.Tensor FFVerif.RegLayout
open scoped Kronecker

/-! ### 5. the whole assembled arrays -/

section whole
variable {nG nO nAdd : ℕ}

/-- **`extendControlMatrix_eq_from_scratch`: the control matrix `extend` assembles IS the control
matrix of the register pulse computed from scratch** (all rows, all columns, all frequencies; every
guard shape / threshold; any number of pulses, any placement, idle qubits as trivial parties; with
or without additional noise Hamiltonian).  `ps` are the mapped pulses in the order of `extend`'s
loop, pulse `q` on the strictly ascending qubit tuple `(ps.get q).idx`, its cached control matrix being
the one computed from scratch from its own eigen-data (`hcm`).  The register pulse carries the
Kronecker-product eigen-data (`hV`, `hQ`, `hD`; they satisfy the `eigh` contract and are the
propagators `diagonalize` would compute, `piKron_isEigh`, `piKron_propagators_model`), its noise operators are, block by
block, `1 ⊗ ⋯ ⊗ B^q_a ⊗ ⋯ ⊗ 1` with the coefficients of pulse `q` (`hB`, `hNc`), followed by the
additional ones (`hBadd`, `hNadd`). -/
theorem extendControlMatrix_eq_from_scratch (N : ℕ) (ps : List (MappedPulse ℂ nO))
    (σ : (Σ q : Fin ps.length, Fin ((ps.get q).idx.length)) ≃ Fin N)
    (hσ : ∀ (q : Fin ps.length) (j : Fin ((ps.get q).idx.length)), (σ ⟨q, j⟩).1 = ((ps.get q).idx)[j])
    (hs : ∀ q : Fin ps.length, ((ps.get q).idx).Pairwise (· < ·))
    (kind : MaskKind) (thr : ℝ)
    (evs : ∀ q : Fin ps.length, Mat ℝ nG (2 ^ (ps.get q).idx.length))
    (Vs Qs : ∀ q : Fin ps.length,
      Vector (Mat ℂ (2 ^ (ps.get q).idx.length) (2 ^ (ps.get q).idx.length)) nG)
    (nOpersP : ∀ q : Fin ps.length,
      Vector (Mat ℂ (2 ^ (ps.get q).idx.length) (2 ^ (ps.get q).idx.length)) (ps.get q).nA)
    (nCoeffsP : ∀ q : Fin ps.length, Mat ℝ (ps.get q).nA nG)
    (ev : Mat ℝ nG (2 ^ N)) (V Q : Vector (Mat ℂ (2 ^ N) (2 ^ N)) nG) (omega : Vec ℝ nO)
    (nOpers : Vector (Mat ℂ (2 ^ N) (2 ^ N)) (totalRows ps + nAdd))
    (nCoeffs : Mat ℝ (totalRows ps + nAdd) nG) (dt t : Vec ℝ nG)
    (nOpersAdd : Vector (Mat ℂ (2 ^ N) (2 ^ N)) nAdd) (nCoeffsAdd : Mat ℝ nAdd nG)
    (hcm : ∀ q : Fin ps.length, (ps.get q).cm
      = controlMatrixFromScratch kind thr (evs q) (Vs q) (Qs q) omega
          (pauliBasis (K := ℂ) (ps.get q).idx.length) (nOpersP q) (nCoeffsP q) dt t)
    (hV : ∀ g : Fin nG, V[g].toMatrix
      = Matrix.reindex (regEquiv 2 σ) (regEquiv 2 σ) (piKronH fun q => (Vs q)[g].toMatrix))
    (hQ : ∀ g : Fin nG, Q[g].toMatrix
      = Matrix.reindex (regEquiv 2 σ) (regEquiv 2 σ) (piKronH fun q => (Qs q)[g].toMatrix))
    (hD : ∀ g : Fin nG, (fun j : Fin (2 ^ N) => ev[g][j])
      = piSum (fun q (i : Fin (2 ^ (ps.get q).idx.length)) => (evs q)[g][i]) ∘ (regEquiv 2 σ).symm)
    (hVu : ∀ (q : Fin ps.length) (g : Fin nG), ((Vs q)[g].toMatrix)ᴴ * (Vs q)[g].toMatrix = 1)
    (hQu : ∀ (q : Fin ps.length) (g : Fin nG), ((Qs q)[g].toMatrix)ᴴ * (Qs q)[g].toMatrix = 1)
    (hB : ∀ (q : Fin ps.length) (a : Fin (ps.get q).nA),
      (nOpers[offset ps q + a]'(Nat.lt_add_right _ (offset_add_lt ps q q.2 a a.2))).toMatrix
        = Matrix.reindex (regEquiv 2 σ) (regEquiv 2 σ) (piKronH
            (Function.update (fun q' : Fin ps.length => (1 : Matrix (Fin (2 ^ (ps.get q').idx.length))
              (Fin (2 ^ (ps.get q').idx.length)) ℂ)) q (nOpersP q)[a].toMatrix)))
    (hNc : ∀ (q : Fin ps.length) (a : Fin (ps.get q).nA),
      nCoeffs[offset ps q + a]'(Nat.lt_add_right _ (offset_add_lt ps q q.2 a a.2))
        = (nCoeffsP q)[a])
    (hBadd : ∀ b : Fin nAdd, nOpers[totalRows ps + b] = nOpersAdd[b])
    (hNadd : ∀ b : Fin nAdd, nCoeffs[totalRows ps + b] = nCoeffsAdd[b]) :
    extendControlMatrix (R := ℝ) N ps
        (additionalRows kind thr N ev V Q omega nOpersAdd nCoeffsAdd dt t)
      = controlMatrixFromScratch kind thr ev V Q omega (pauliBasis (K := ℂ) N) nOpers nCoeffs
          dt t := by
  unfold extendControlMatrix
  apply Vector.ext; intro r hr
  by_cases hlt : r < totalRows ps
  · obtain ⟨i, hi, a, ha, rfl⟩ := rows_cover ps r hlt
    rw [Vector.getElem_append_left hlt, pulseRows_getElem N ps i hi a ha]
    have hrow := extendRow_eq_from_scratch_layout (fun q : Fin ps.length => (ps.get q).idx) N σ hσ hs
      kind thr evs Vs Qs ev V Q omega ⟨i, hi⟩ (nOpersP ⟨i, hi⟩)
      (Vector.ofFn fun a' : Fin ps[i].nA =>
        nOpers[offset ps i + a']'(Nat.lt_add_right _ (offset_add_lt ps i hi a' a'.2)))
      (nCoeffsP ⟨i, hi⟩) dt t hV hQ hD
      (fun a' => by
        have := hB ⟨i, hi⟩ a'
        simp only [Fin.getElem_fin, Vector.getElem_ofFn] at this ⊢
        exact this)
      (fun q _ g => hVu q g) (fun q _ g => hQu q g) ⟨a, ha⟩
    have hc := hcm ⟨i, hi⟩
    change extendRow (R := ℝ) N (ps.get ⟨i, hi⟩).idx (ps.get ⟨i, hi⟩).cm[a] = _
    rw [hc]
    refine hrow.trans ?_
    refine cm_row_congr kind thr ev V Q omega (pauliBasis (K := ℂ) N) _ nOpers _ nCoeffs dt t
      ⟨a, ha⟩ ⟨offset ps i + a, hr⟩ ?_ ?_
    · simp only [Fin.getElem_fin, Vector.getElem_ofFn]
    · have := hNc ⟨i, hi⟩ ⟨a, ha⟩
      simp only [Fin.getElem_fin] at this ⊢
      exact this.symm
  · have hge : totalRows ps ≤ r := Nat.le_of_not_lt hlt
    rw [Vector.getElem_append_right hr hge]
    unfold additionalRows
    have hb : r - totalRows ps < nAdd := by omega
    refine cm_row_congr kind thr ev V Q omega (pauliBasis (K := ℂ) N) nOpersAdd nOpers nCoeffsAdd
      nCoeffs dt t ⟨r - totalRows ps, hb⟩ ⟨r, hr⟩ ?_ ?_
    · have := hBadd ⟨r - totalRows ps, hb⟩
      simp only [Fin.getElem_fin, Nat.add_sub_cancel' hge] at this ⊢
      exact this.symm
    · have := hNadd ⟨r - totalRows ps, hb⟩
      simp only [Fin.getElem_fin, Nat.add_sub_cancel' hge] at this ⊢
      exact this.symm

/-- **`extendFilterFunction_eq_from_scratch`: the complete fidelity filter function `extend` caches —
diagonal blocks, cross-correlations between different pulses, and all blocks involving the
additional noise Hamiltonian — is `numeric.calculate_filter_function` of the control matrix
computed from scratch on the register pulse.**  Same hypotheses as
`extendControlMatrix_eq_from_scratch`; the explicit form of the blocks is
`extend_filter_function_nfold(_model)`. -/
theorem extendFilterFunction_eq_from_scratch (N : ℕ) (ps : List (MappedPulse ℂ nO))
    (σ : (Σ q : Fin ps.length, Fin ((ps.get q).idx.length)) ≃ Fin N)
    (hσ : ∀ (q : Fin ps.length) (j : Fin ((ps.get q).idx.length)),
      (σ ⟨q, j⟩).1 = ((ps.get q).idx)[j])
    (hs : ∀ q : Fin ps.length, ((ps.get q).idx).Pairwise (· < ·))
    (kind : MaskKind) (thr : ℝ)
    (evs : ∀ q : Fin ps.length, Mat ℝ nG (2 ^ (ps.get q).idx.length))
    (Vs Qs : ∀ q : Fin ps.length,
      Vector (Mat ℂ (2 ^ (ps.get q).idx.length) (2 ^ (ps.get q).idx.length)) nG)
    (nOpersP : ∀ q : Fin ps.length,
      Vector (Mat ℂ (2 ^ (ps.get q).idx.length) (2 ^ (ps.get q).idx.length)) (ps.get q).nA)
    (nCoeffsP : ∀ q : Fin ps.length, Mat ℝ (ps.get q).nA nG)
    (ev : Mat ℝ nG (2 ^ N)) (V Q : Vector (Mat ℂ (2 ^ N) (2 ^ N)) nG) (omega : Vec ℝ nO)
    (nOpers : Vector (Mat ℂ (2 ^ N) (2 ^ N)) (totalRows ps + nAdd))
    (nCoeffs : Mat ℝ (totalRows ps + nAdd) nG) (dt t : Vec ℝ nG)
    (nOpersAdd : Vector (Mat ℂ (2 ^ N) (2 ^ N)) nAdd) (nCoeffsAdd : Mat ℝ nAdd nG)
    (hcm : ∀ q : Fin ps.length, (ps.get q).cm
      = controlMatrixFromScratch kind thr (evs q) (Vs q) (Qs q) omega
          (pauliBasis (K := ℂ) (ps.get q).idx.length) (nOpersP q) (nCoeffsP q) dt t)
    (hV : ∀ g : Fin nG, V[g].toMatrix
      = Matrix.reindex (regEquiv 2 σ) (regEquiv 2 σ) (piKronH fun q => (Vs q)[g].toMatrix))
    (hQ : ∀ g : Fin nG, Q[g].toMatrix
      = Matrix.reindex (regEquiv 2 σ) (regEquiv 2 σ) (piKronH fun q => (Qs q)[g].toMatrix))
    (hD : ∀ g : Fin nG, (fun j : Fin (2 ^ N) => ev[g][j])
      = piSum (fun q (i : Fin (2 ^ (ps.get q).idx.length)) => (evs q)[g][i])
          ∘ (regEquiv 2 σ).symm)
    (hVu : ∀ (q : Fin ps.length) (g : Fin nG), ((Vs q)[g].toMatrix)ᴴ * (Vs q)[g].toMatrix = 1)
    (hQu : ∀ (q : Fin ps.length) (g : Fin nG), ((Qs q)[g].toMatrix)ᴴ * (Qs q)[g].toMatrix = 1)
    (hB : ∀ (q : Fin ps.length) (a : Fin (ps.get q).nA),
      (nOpers[offset ps q + a]'(Nat.lt_add_right _ (offset_add_lt ps q q.2 a a.2))).toMatrix
        = Matrix.reindex (regEquiv 2 σ) (regEquiv 2 σ) (piKronH
            (Function.update (fun q' : Fin ps.length =>
              (1 : Matrix (Fin (2 ^ (ps.get q').idx.length))
                (Fin (2 ^ (ps.get q').idx.length)) ℂ)) q (nOpersP q)[a].toMatrix)))
    (hNc : ∀ (q : Fin ps.length) (a : Fin (ps.get q).nA),
      nCoeffs[offset ps q + a]'(Nat.lt_add_right _ (offset_add_lt ps q q.2 a a.2))
        = (nCoeffsP q)[a])
    (hBadd : ∀ b : Fin nAdd, nOpers[totalRows ps + b] = nOpersAdd[b])
    (hNadd : ∀ b : Fin nAdd, nCoeffs[totalRows ps + b] = nCoeffsAdd[b]) :
    extendFilterFunction (R := ℝ) N ps
        (additionalRows kind thr N ev V Q omega nOpersAdd nCoeffsAdd dt t)
      = filterFunctionFid (controlMatrixFromScratch kind thr ev V Q omega (pauliBasis (K := ℂ) N)
          nOpers nCoeffs dt t) :=
  congrArg filterFunctionFid
    (extendControlMatrix_eq_from_scratch N ps σ hσ hs kind thr evs Vs Qs nOpersP nCoeffsP ev V Q
      omega nOpers nCoeffs dt t nOpersAdd nCoeffsAdd hcm hV hQ hD hVu hQu hB hNc hBadd hNadd)

end whole

/-! ### non-vacuity of the layout hypotheses -/

/-- an interleaved layout: a two-qubit pulse on the qubits `(0, 2)` and a one-qubit pulse on qubit
`1` of a three-qubit register -/
def idxEx : Fin 2 → List ℕ := ![[0, 2], [1]]

theorem idxEx_lt : ∀ s : (Σ q : Fin 2, Fin (idxEx q).length), (idxEx s.1)[s.2] < 3 := by decide

def posEx (s : Σ q : Fin 2, Fin (idxEx q).length) : Fin 3 := ⟨(idxEx s.1)[s.2], idxEx_lt s⟩

theorem posEx_bijective : Function.Bijective posEx := by decide

/-- non-vacuity of the layout hypotheses `σ`, `hσ`, `hs` of `extendRow_eq_from_scratch_layout` /
`extendControlMatrix_eq_from_scratch` for an INTERLEAVED placement; and what
`RegLayout.equivalentPauli_regEquiv` then says about the real index list
`equivalent_pauli_basis_elements((0, 2), 3) = [0, 1, 2, 3, 16, …, 51]`. -/
example : ∃ σ : (Σ q : Fin 2, Fin (idxEx q).length) ≃ Fin 3,
    (∀ (q : Fin 2) (j : Fin (idxEx q).length), (σ ⟨q, j⟩).1 = (idxEx q)[j]) ∧
    (∀ q, (idxEx q).Pairwise (· < ·)) ∧
    equivalentPauli [0, 2] 3 = List.ofFn fun j : Fin (4 ^ 2) =>
      (regEquiv 4 σ (Function.update (zeroLabel idxEx) 0 j)).1 := by
  refine ⟨Equiv.ofBijective posEx posEx_bijective, fun q j => rfl, by decide, ?_⟩
  exact equivalentPauli_regEquiv idxEx (Equiv.ofBijective posEx posEx_bijective) (fun q j => rfl)
    (by decide) 0

end FFVerif.C05Nfold
