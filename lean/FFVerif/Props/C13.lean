/-
C13 — invariance under re-segmentation, operator order and change of time unit; linearity in
noise operators and sensitivities.  Property theorems about the model
`Model.controlMatrixFromScratch` / `Model.firstOrderEntry` / `Model.filterFunctionFid`.
-/
import Mathlib.Analysis.SpecialFunctions.Integrals.Basic
import Mathlib.Analysis.Complex.Exponential
import Mathlib.Analysis.Real.Pi.Bounds
import FFVerif.Lemmas.Inst
import FFVerif.Lemmas.Bridge
import FFVerif.Lemmas.MatBridge
import FFVerif.Lemmas.InvarianceAux
import FFVerif.Model.Numeric
import FFVerif.Props.C01
import FFVerif.Props.C01Seg

namespace FFVerif.C13
open FFVerif FFVerif.Model FFVerif.C01 FFVerif.InvAux Complex Matrix

/-! ### 1–2. Re-segmentation of the segment integral -/

/-- **Splitting a segment.** The defining segment integral over a duration `a + b` is the integral
over `a` plus the phase `e^{i x a}` times the integral over `b`; for every real `x` (including the
resonance `x = 0`) and all real `a`, `b` (any signs). -/
theorem segIntegral_split (x a b : ℝ) :
    segIntegral x (a + b)
      = segIntegral x a + Complex.exp (Complex.I * x * a) * segIntegral x b := by
  by_cases hx : x = 0
  · subst hx; simp [segIntegral_zero]
  · rw [segIntegral_closed _ _ hx, segIntegral_closed _ _ hx, segIntegral_closed _ _ hx]
    have hIx : (Complex.I * (x:ℂ)) ≠ 0 := mul_ne_zero Complex.I_ne_zero (by exact_mod_cast hx)
    have h1 : Complex.exp (Complex.I * ((x:ℂ) * ((a + b : ℝ):ℂ)))
        = Complex.exp (Complex.I * x * a) * Complex.exp (Complex.I * (x * b)) := by
      rw [← Complex.exp_add]; congr 1; push_cast; ring
    have h2 : Complex.exp (Complex.I * ((x:ℂ) * (a:ℂ))) = Complex.exp (Complex.I * x * a) := by
      rw [mul_assoc]
    rw [h1, h2]
    field_simp
    ring

/-- **Splitting a segment, exact branch of the code.** If the entries for the durations `a`, `b`
and `a + b` are all computed by the closed form (mask true; any guard shape, any `thr ≥ 0`), the
entry of `_first_order_integral` for the merged segment is the combination of the entries of the
two pieces. -/
theorem firstOrderEntry_split (kind : MaskKind) (thr x a b : ℝ) (hthr : 0 ≤ thr)
    (ha : firstOrderMask kind thr x a = true) (hb : firstOrderMask kind thr x b = true)
    (hab : firstOrderMask kind thr x (a + b) = true) :
    (firstOrderEntry kind thr x (a + b) : ℂ)
      = firstOrderEntry kind thr x a + Complex.exp (Complex.I * x * a) * firstOrderEntry kind thr x b := by
  rw [firstOrderEntry_exact _ _ _ _ hthr ha, firstOrderEntry_exact _ _ _ _ hthr hb,
    firstOrderEntry_exact _ _ _ _ hthr hab, segIntegral_split]

/-- the hypotheses of `firstOrderEntry_split` are satisfiable (current guard and threshold) -/
example : firstOrderMask .absTimesDtGt (1e-7:ℝ) 1 1 = true ∧
    firstOrderMask .absTimesDtGt (1e-7:ℝ) 1 2 = true ∧
    firstOrderMask .absTimesDtGt (1e-7:ℝ) 1 (1 + 2) = true := by
  simp only [firstOrderMask, ropsLt, ropsAbs, decide_eq_true_eq]
  norm_num

/-- **Splitting a segment, code as it is now, both branches.** With the guard and threshold read
from the source, for all `x` and all durations `a, b ≥ 0` the entry of the merged segment differs
from the combination of the two pieces by at most `2e-7·(a+b)` (each of the three entries is
within `1e-7·duration` of its integral by `firstOrderEntry_error_current`).  The identity is
*not* exact when some of the three entries fall in the truncated branch. -/
theorem firstOrderEntry_split_error (x a b : ℝ) (ha : 0 ≤ a) (hb : 0 ≤ b) :
    ‖(firstOrderEntry Gen.firstOrderMaskKind Gen.firstOrderMaskThr x (a + b) : ℂ)
        - (firstOrderEntry Gen.firstOrderMaskKind Gen.firstOrderMaskThr x a
          + Complex.exp (Complex.I * x * a)
            * firstOrderEntry Gen.firstOrderMaskKind Gen.firstOrderMaskThr x b)‖
      ≤ 2e-7 * (a + b) := by
  have e1 := firstOrderEntry_error_current x (a + b) (add_nonneg ha hb)
  have e2 := firstOrderEntry_error_current x a ha
  have e3 := firstOrderEntry_error_current x b hb
  have hexp : ‖Complex.exp (Complex.I * x * a)‖ = 1 := by
    rw [mul_assoc, ← Complex.ofReal_mul, mul_comm, Complex.norm_exp_ofReal_mul_I]
  generalize (firstOrderEntry Gen.firstOrderMaskKind Gen.firstOrderMaskThr x (a + b) : ℂ) = E at *
  generalize (firstOrderEntry Gen.firstOrderMaskKind Gen.firstOrderMaskThr x a : ℂ) = Ea at *
  generalize (firstOrderEntry Gen.firstOrderMaskKind Gen.firstOrderMaskThr x b : ℂ) = Eb at *
  have key : E - (Ea + Complex.exp (Complex.I * x * a) * Eb)
      = (E - segIntegral x (a + b)) - (Ea - segIntegral x a)
        - Complex.exp (Complex.I * x * a) * (Eb - segIntegral x b) := by
    rw [segIntegral_split]; ring
  rw [key]
  calc _ ≤ ‖E - segIntegral x (a + b)‖ + ‖Ea - segIntegral x a‖
          + ‖Complex.exp (Complex.I * x * a) * (Eb - segIntegral x b)‖ :=
        (norm_sub_le _ _).trans (add_le_add (norm_sub_le _ _) le_rfl)
    _ ≤ 1e-7 * (a + b) + 1e-7 * a + 1e-7 * b := by
        rw [norm_mul, hexp, one_mul]
        exact add_le_add (add_le_add e1 e2) e3
    _ = 2e-7 * (a + b) := by ring

/-! ### 3. Change of the time unit, one entry -/

/-- the dimensionless guard `|x·dt| > thr` does not see the time unit -/
theorem firstOrderMask_scale (thr x dt lam : ℝ) (hl : lam ≠ 0) :
    firstOrderMask .absTimesDtGt thr (x / lam) (lam * dt) = firstOrderMask .absTimesDtGt thr x dt := by
  have h : x / lam * (lam * dt) = x * dt := by field_simp
  simp only [firstOrderMask, h]

/-- **Time-unit covariance of one entry** for the dimensionless guard: measuring time in units
`lam` times smaller (`dt ↦ lam·dt`, angular frequencies and energies `x ↦ x/lam`) multiplies the
entry by `lam`; both branches, every threshold (of either sign), every `x`, `dt`, and every
`lam ≠ 0` (in particular every `lam > 0`). -/
theorem firstOrderEntry_scale (thr x dt lam : ℝ) (hl : lam ≠ 0) :
    (firstOrderEntry .absTimesDtGt thr (x / lam) (lam * dt) : ℂ)
      = (lam : ℂ) * firstOrderEntry .absTimesDtGt thr x dt := by
  have h : x / lam * (lam * dt) = x * dt := by field_simp
  have hlc : (lam : ℂ) ≠ 0 := by exact_mod_cast hl
  unfold firstOrderEntry
  rw [firstOrderMask_scale _ _ _ _ hl, h]
  split
  · simp only [copsExpI, copsI, copsOfReal]
    push_cast
    by_cases hx : (x : ℂ) = 0
    · simp [hx]
    · field_simp
  · simp

/-- the guard the translator currently reads from the source is the dimensionless one, so
`firstOrderEntry_scale`, `cm_scale`, `ff_scale` apply to the code as it is now -/
theorem scale_current : Gen.firstOrderMaskKind = .absTimesDtGt := by decide

/-- **Why the guard must be dimensionless.** With the absolute guard `|x| > thr` time-unit
covariance fails: `thr = 1e-7`, `x = 2π` (a 1 Hz detuning), `dt = 1` (seconds): the entry is the
exact `0`; in nanoseconds (`lam = 1e9`) the detuning `2π·1e-9` falls below the threshold and the
code writes `dt = 1e9` instead of `1e9 · 0`. -/
theorem absGt_not_scale_covariant :
    ∃ thr x dt lam : ℝ, 0 < lam ∧
      (firstOrderEntry .absGt thr (x / lam) (lam * dt) : ℂ)
        ≠ (lam : ℂ) * firstOrderEntry .absGt thr x dt := by
  refine ⟨1e-7, 2 * Real.pi, 1, 1e9, by norm_num, ?_⟩
  have hpi3 := Real.pi_gt_three
  have hpi4 := Real.pi_lt_four
  have hm1 : firstOrderMask .absGt (1e-7:ℝ) (2 * Real.pi) 1 = true := by
    simp only [firstOrderMask, ropsLt, ropsAbs, decide_eq_true_eq]
    rw [abs_of_pos (by linarith)]
    linarith
  have hm2 : firstOrderMask .absGt (1e-7:ℝ) (2 * Real.pi / 1e9) (1e9 * 1) = false := by
    simp only [firstOrderMask, ropsLt, ropsAbs, decide_eq_false_iff_not, not_lt]
    rw [abs_of_pos (by positivity), div_le_iff₀ (by norm_num)]
    linarith
  unfold firstOrderEntry
  rw [hm1, hm2]
  simp only [if_true, copsExpI, copsI, copsOfReal, Bool.false_eq_true, if_false]
  have hexp : Complex.exp (Complex.I * ((2 * Real.pi * 1 : ℝ) : ℂ)) = 1 := by
    push_cast
    rw [mul_one, mul_comm]
    exact Complex.exp_two_pi_mul_I
  rw [hexp, sub_self, zero_div, mul_zero]
  norm_num

/-! ### 4. Change of the time unit, whole control matrix and filter function -/

/-- **Time-unit covariance of the control matrix** (dimensionless guard, any threshold): with
eigenvalues and frequencies divided by `lam` and durations and segment start times multiplied by
`lam ≠ 0` (same eigenvectors, propagators, basis, noise operators, sensitivities) every entry of
the model's control matrix is `lam` times the original one; all dimensions, segment counts,
frequencies. -/
theorem cm_scale {nG d nO nA nK : Nat} (thr : ℝ)
    (eigvals : Mat ℝ nG d) (eigvecs props : Vector (Mat ℂ d d) nG)
    (omega : Vec ℝ nO) (basis : Vector (Mat ℂ d d) nK) (nOpers : Vector (Mat ℂ d d) nA)
    (nCoeffs : Mat ℝ nA nG) (dt t : Vec ℝ nG) (lam : ℝ) (hl : lam ≠ 0)
    (a : Fin nA) (k : Fin nK) (o : Fin nO) :
    (controlMatrixFromScratch .absTimesDtGt thr
        (Vector.map (Vector.map (· / lam)) eigvals) eigvecs props (Vector.map (· / lam) omega)
        basis nOpers nCoeffs (Vector.map (lam * ·) dt) (Vector.map (lam * ·) t))[a][k][o]
      = (lam : ℂ) * (controlMatrixFromScratch .absTimesDtGt thr eigvals eigvecs props omega basis
          nOpers nCoeffs dt t)[a][k][o] := by
  rw [cm_entry, cm_entry, Finset.mul_sum]
  refine Finset.sum_congr rfl fun g _ => ?_
  rw [Finset.mul_sum]
  refine Finset.sum_congr rfl fun m _ => ?_
  rw [Finset.mul_sum]
  refine Finset.sum_congr rfl fun n _ => ?_
  simp only [vec_map_get]
  have hx : omega[o] / lam + (eigvals[g][m] / lam - eigvals[g][n] / lam)
      = (omega[o] + (eigvals[g][m] - eigvals[g][n])) / lam := by ring
  have hlc : (lam : ℂ) ≠ 0 := by exact_mod_cast hl
  have hph : ((omega[o] / lam : ℝ) : ℂ) * ((lam * t[g] : ℝ) : ℂ) = (omega[o] : ℂ) * (t[g] : ℂ) := by
    push_cast; field_simp
  rw [hx, firstOrderEntry_scale _ _ _ _ hl, hph]
  ring

/-- scaling a control matrix by a real factor scales the fidelity filter function by its square -/
theorem ff_smul_real {nA nK nO : Nat} (B B' : Ten3 ℂ nA nK nO) (c : ℝ)
    (h : ∀ (a : Fin nA) (k : Fin nK) (o : Fin nO), B'[a][k][o] = (c : ℂ) * B[a][k][o])
    (a b : Fin nA) (o : Fin nO) :
    (filterFunctionFid B')[a][b][o] = ((c ^ 2 : ℝ) : ℂ) * (filterFunctionFid B)[a][b][o] := by
  rw [ff_fidelity_def, ff_fidelity_def, Finset.mul_sum]
  refine Finset.sum_congr rfl fun k _ => ?_
  rw [h, h, map_mul, Complex.conj_ofReal]
  push_cast
  ring

/-- **Time-unit covariance of the fidelity filter function**: under the change of unit of
`cm_scale` the filter function (a time squared) scales by `lam²`. -/
theorem ff_scale {nG d nO nA nK : Nat} (thr : ℝ)
    (eigvals : Mat ℝ nG d) (eigvecs props : Vector (Mat ℂ d d) nG)
    (omega : Vec ℝ nO) (basis : Vector (Mat ℂ d d) nK) (nOpers : Vector (Mat ℂ d d) nA)
    (nCoeffs : Mat ℝ nA nG) (dt t : Vec ℝ nG) (lam : ℝ) (hl : lam ≠ 0)
    (a b : Fin nA) (o : Fin nO) :
    (filterFunctionFid (controlMatrixFromScratch .absTimesDtGt thr
        (Vector.map (Vector.map (· / lam)) eigvals) eigvecs props (Vector.map (· / lam) omega)
        basis nOpers nCoeffs (Vector.map (lam * ·) dt) (Vector.map (lam * ·) t)))[a][b][o]
      = ((lam ^ 2 : ℝ) : ℂ) * (filterFunctionFid (controlMatrixFromScratch .absTimesDtGt thr eigvals
          eigvecs props omega basis nOpers nCoeffs dt t))[a][b][o] :=
  ff_smul_real _ _ lam
    (fun a k o => cm_scale thr eigvals eigvecs props omega basis nOpers nCoeffs dt t lam hl a k o) a b o

/-! ### 5. Linearity in the noise operators and in the sensitivities -/

/-- **Linearity in the noise operator** (row-wise, hypothesis form): if the `a`-th noise operator
is `c·B₁ + B₂` (complex `c`), the `a`-th row of the control matrix is `c` times the row computed
with `B₁` plus the row computed with `B₂` — same sensitivities, both branches of the integral,
every guard. The other entries of the three operator lists are irrelevant. -/
theorem cm_linear_opers {nG d nO nA nK : Nat} (kind : MaskKind) (thr : ℝ)
    (eigvals : Mat ℝ nG d) (eigvecs props : Vector (Mat ℂ d d) nG)
    (omega : Vec ℝ nO) (basis : Vector (Mat ℂ d d) nK) (nOpers nOpers₁ nOpers₂ : Vector (Mat ℂ d d) nA)
    (nCoeffs : Mat ℝ nA nG) (dt t : Vec ℝ nG) (a : Fin nA) (c : ℂ)
    (h : nOpers[a].toMatrix = c • nOpers₁[a].toMatrix + nOpers₂[a].toMatrix)
    (k : Fin nK) (o : Fin nO) :
    (controlMatrixFromScratch kind thr eigvals eigvecs props omega basis nOpers nCoeffs dt t)[a][k][o]
      = c * (controlMatrixFromScratch kind thr eigvals eigvecs props omega basis nOpers₁ nCoeffs dt t)[a][k][o]
        + (controlMatrixFromScratch kind thr eigvals eigvecs props omega basis nOpers₂ nCoeffs dt t)[a][k][o] := by
  rw [cm_entry, cm_entry, cm_entry, Finset.mul_sum, ← Finset.sum_add_distrib]
  refine Finset.sum_congr rfl fun g _ => ?_
  rw [Finset.mul_sum, ← Finset.sum_add_distrib]
  refine Finset.sum_congr rfl fun m _ => ?_
  rw [Finset.mul_sum, ← Finset.sum_add_distrib]
  refine Finset.sum_congr rfl fun n _ => ?_
  rw [h]
  simp only [Matrix.mul_add, Matrix.add_mul, Matrix.mul_smul, Matrix.smul_mul, Matrix.add_apply,
    Matrix.smul_apply, smul_eq_mul]
  ring

/-- **Linearity in the noise operators**, data form: the list `c_a • B₁[a] + B₂[a]` built with the
model's own `Mat.smul` / `Mat.add`. -/
theorem cm_linear_opers_data {nG d nO nA nK : Nat} (kind : MaskKind) (thr : ℝ)
    (eigvals : Mat ℝ nG d) (eigvecs props : Vector (Mat ℂ d d) nG)
    (omega : Vec ℝ nO) (basis : Vector (Mat ℂ d d) nK) (nOpers₁ nOpers₂ : Vector (Mat ℂ d d) nA)
    (nCoeffs : Mat ℝ nA nG) (dt t : Vec ℝ nG) (c : Fin nA → ℂ)
    (a : Fin nA) (k : Fin nK) (o : Fin nO) :
    (controlMatrixFromScratch kind thr eigvals eigvecs props omega basis
        (Vector.ofFn fun a => Mat.add (Mat.smul (c a) nOpers₁[a]) nOpers₂[a]) nCoeffs dt t)[a][k][o]
      = c a * (controlMatrixFromScratch kind thr eigvals eigvecs props omega basis nOpers₁ nCoeffs dt t)[a][k][o]
        + (controlMatrixFromScratch kind thr eigvals eigvecs props omega basis nOpers₂ nCoeffs dt t)[a][k][o] := by
  apply cm_linear_opers
  rw [InvAux.vec_ofFn_get, toMatrix_add, Mat.toMatrix_smul]

/-- **Linearity in the sensitivities** (row-wise, hypothesis form): if the `a`-th row of
`n_coeffs` is `c·s₁ + s₂` on every segment, the `a`-th row of the control matrix is the same
combination of the rows computed with `s₁` and `s₂`. -/
theorem cm_linear_coeffs {nG d nO nA nK : Nat} (kind : MaskKind) (thr : ℝ)
    (eigvals : Mat ℝ nG d) (eigvecs props : Vector (Mat ℂ d d) nG)
    (omega : Vec ℝ nO) (basis : Vector (Mat ℂ d d) nK) (nOpers : Vector (Mat ℂ d d) nA)
    (nCoeffs nCoeffs₁ nCoeffs₂ : Mat ℝ nA nG) (dt t : Vec ℝ nG) (a : Fin nA) (c : ℝ)
    (h : ∀ g : Fin nG, nCoeffs[a][g] = c * nCoeffs₁[a][g] + nCoeffs₂[a][g])
    (k : Fin nK) (o : Fin nO) :
    (controlMatrixFromScratch kind thr eigvals eigvecs props omega basis nOpers nCoeffs dt t)[a][k][o]
      = (c : ℂ) * (controlMatrixFromScratch kind thr eigvals eigvecs props omega basis nOpers nCoeffs₁ dt t)[a][k][o]
        + (controlMatrixFromScratch kind thr eigvals eigvecs props omega basis nOpers nCoeffs₂ dt t)[a][k][o] := by
  rw [cm_entry, cm_entry, cm_entry, Finset.mul_sum, ← Finset.sum_add_distrib]
  refine Finset.sum_congr rfl fun g _ => ?_
  rw [Finset.mul_sum, ← Finset.sum_add_distrib]
  refine Finset.sum_congr rfl fun m _ => ?_
  rw [Finset.mul_sum, ← Finset.sum_add_distrib]
  refine Finset.sum_congr rfl fun n _ => ?_
  rw [h]
  push_cast
  ring

/-- **Linearity in the sensitivities**, data form. -/
theorem cm_linear_coeffs_data {nG d nO nA nK : Nat} (kind : MaskKind) (thr : ℝ)
    (eigvals : Mat ℝ nG d) (eigvecs props : Vector (Mat ℂ d d) nG)
    (omega : Vec ℝ nO) (basis : Vector (Mat ℂ d d) nK) (nOpers : Vector (Mat ℂ d d) nA)
    (nCoeffs₁ nCoeffs₂ : Mat ℝ nA nG) (dt t : Vec ℝ nG) (c : Fin nA → ℝ)
    (a : Fin nA) (k : Fin nK) (o : Fin nO) :
    (controlMatrixFromScratch kind thr eigvals eigvecs props omega basis nOpers
        (Mat.ofFn fun a g => c a * nCoeffs₁[a][g] + nCoeffs₂[a][g]) dt t)[a][k][o]
      = (c a : ℂ) * (controlMatrixFromScratch kind thr eigvals eigvecs props omega basis nOpers nCoeffs₁ dt t)[a][k][o]
        + (controlMatrixFromScratch kind thr eigvals eigvecs props omega basis nOpers nCoeffs₂ dt t)[a][k][o] := by
  apply cm_linear_coeffs
  intro g
  rw [Mat.ofFn_get]

/-! ### 6. Zero-length segments, dropping and re-ordering segments -/

/-- **A zero-length segment contributes nothing.** Two inputs that agree on every segment except
`g₀`, where both have `dt = 0` (eigenvalues, eigenvectors, propagator, sensitivities and start
time of that segment arbitrary and possibly different), give the same control matrix; every guard,
both branches. -/
theorem cm_zero_dt_segment {nG d nO nA nK : Nat} (kind : MaskKind) (thr : ℝ)
    (eigvals eigvals' : Mat ℝ nG d) (eigvecs eigvecs' props props' : Vector (Mat ℂ d d) nG)
    (omega : Vec ℝ nO) (basis : Vector (Mat ℂ d d) nK) (nOpers : Vector (Mat ℂ d d) nA)
    (nCoeffs nCoeffs' : Mat ℝ nA nG) (dt dt' t t' : Vec ℝ nG) (g₀ : Fin nG)
    (h0 : dt[g₀] = 0) (h0' : dt'[g₀] = 0)
    (hag : ∀ g : Fin nG, g ≠ g₀ → eigvals'[g] = eigvals[g] ∧ eigvecs'[g] = eigvecs[g] ∧
      props'[g] = props[g] ∧ (∀ a : Fin nA, nCoeffs'[a][g] = nCoeffs[a][g]) ∧ dt'[g] = dt[g] ∧
      t'[g] = t[g])
    (a : Fin nA) (k : Fin nK) (o : Fin nO) :
    (controlMatrixFromScratch kind thr eigvals' eigvecs' props' omega basis nOpers nCoeffs' dt' t')[a][k][o]
      = (controlMatrixFromScratch kind thr eigvals eigvecs props omega basis nOpers nCoeffs dt t)[a][k][o] := by
  rw [cm_entry, cm_entry]
  refine Finset.sum_congr rfl fun g _ => ?_
  by_cases hg : g = g₀
  · subst hg
    simp only [h0, h0', firstOrderEntry_zero_dt, mul_zero, zero_mul, Finset.sum_const_zero]
  · obtain ⟨h1, h2, h3, h4, h5, h6⟩ := hag g hg
    rw [h1, h2, h3, h4 a, h5, h6]

/-- **Dropping zero-length segments / re-listing segments.** Let `ι` embed the segments of a
shorter list into a longer one such that every segment of the long list that is not hit has
`dt = 0`; if the short list carries the data of the long one along `ι`, both give the same control
matrix.  With `ι` a bijection this is invariance under listing the segments (each with its own
start time and cumulative propagator) in a different order. -/
theorem cm_drop_zero_segments {nG nG' d nO nA nK : Nat} (kind : MaskKind) (thr : ℝ)
    (eigvals : Mat ℝ nG d) (eigvecs props : Vector (Mat ℂ d d) nG)
    (omega : Vec ℝ nO) (basis : Vector (Mat ℂ d d) nK) (nOpers : Vector (Mat ℂ d d) nA)
    (nCoeffs : Mat ℝ nA nG) (dt t : Vec ℝ nG) (ι : Fin nG' → Fin nG) (hι : Function.Injective ι)
    (h0 : ∀ g : Fin nG, (∀ g', ι g' ≠ g) → dt[g] = 0)
    (a : Fin nA) (k : Fin nK) (o : Fin nO) :
    (controlMatrixFromScratch kind thr (Vector.ofFn fun g' => eigvals[ι g'])
        (Vector.ofFn fun g' => eigvecs[ι g']) (Vector.ofFn fun g' => props[ι g']) omega basis nOpers
        (Mat.ofFn fun a g' => nCoeffs[a][ι g']) (Vector.ofFn fun g' => dt[ι g'])
        (Vector.ofFn fun g' => t[ι g']))[a][k][o]
      = (controlMatrixFromScratch kind thr eigvals eigvecs props omega basis nOpers nCoeffs dt t)[a][k][o] := by
  rw [cm_entry, cm_entry]
  symm
  rw [sum_of_injective ι hι]
  · refine Finset.sum_congr rfl fun g' _ => ?_
    simp only [InvAux.vec_ofFn_get, Mat.ofFn_get]
  · intro g hg
    simp only [h0 g hg, firstOrderEntry_zero_dt, mul_zero, zero_mul, Finset.sum_const_zero]

/-- the hypotheses of `cm_drop_zero_segments` are satisfiable: three segments, the first of zero
length, dropped by `ι = Fin.succ` -/
example : Function.Injective (Fin.succ : Fin 2 → Fin 3) ∧
    ∀ g : Fin 3, (∀ g' : Fin 2, Fin.succ g' ≠ g) → (#v[0, 1, 2] : Vec ℝ 3)[g] = 0 := by
  refine ⟨Fin.succ_injective 2, fun g hg => ?_⟩
  fin_cases g
  · rfl
  · exact absurd rfl (hg 0)
  · exact absurd rfl (hg 1)

/-! ### 7. Order of the noise operators -/

/-- **Re-ordering / selecting noise operators.** Listing the noise operators together with their
sensitivity rows along any index map `σ` (a permutation, a sub-selection, repetitions) lists the
rows of the control matrix along the same map. -/
theorem cm_perm_opers {nG d nO nA nA' nK : Nat} (kind : MaskKind) (thr : ℝ)
    (eigvals : Mat ℝ nG d) (eigvecs props : Vector (Mat ℂ d d) nG)
    (omega : Vec ℝ nO) (basis : Vector (Mat ℂ d d) nK) (nOpers : Vector (Mat ℂ d d) nA)
    (nCoeffs : Mat ℝ nA nG) (dt t : Vec ℝ nG) (σ : Fin nA' → Fin nA)
    (a : Fin nA') (k : Fin nK) (o : Fin nO) :
    (controlMatrixFromScratch kind thr eigvals eigvecs props omega basis
        (Vector.ofFn fun a' => nOpers[σ a']) (Vector.ofFn fun a' => nCoeffs[σ a']) dt t)[a][k][o]
      = (controlMatrixFromScratch kind thr eigvals eigvecs props omega basis nOpers nCoeffs dt t)[σ a][k][o] := by
  rw [cm_entry, cm_entry]
  simp only [InvAux.vec_ofFn_get]

/-- … hence the fidelity filter function is re-indexed in both noise indices. -/
theorem ff_perm_opers {nG d nO nA nA' nK : Nat} (kind : MaskKind) (thr : ℝ)
    (eigvals : Mat ℝ nG d) (eigvecs props : Vector (Mat ℂ d d) nG)
    (omega : Vec ℝ nO) (basis : Vector (Mat ℂ d d) nK) (nOpers : Vector (Mat ℂ d d) nA)
    (nCoeffs : Mat ℝ nA nG) (dt t : Vec ℝ nG) (σ : Fin nA' → Fin nA)
    (a b : Fin nA') (o : Fin nO) :
    (filterFunctionFid (controlMatrixFromScratch kind thr eigvals eigvecs props omega basis
        (Vector.ofFn fun a' => nOpers[σ a']) (Vector.ofFn fun a' => nCoeffs[σ a']) dt t))[a][b][o]
      = (filterFunctionFid (controlMatrixFromScratch kind thr eigvals eigvecs props omega basis nOpers
          nCoeffs dt t))[σ a][σ b][o] := by
  rw [ff_fidelity_def, ff_fidelity_def]
  refine Finset.sum_congr rfl fun k _ => ?_
  rw [cm_perm_opers, cm_perm_opers]

/-! ### Re-segmentation of the whole control matrix -/

/-- `IsSegmentCut coarse… fine… g₀ p τ₁ τ₂`: the fine pulse (one segment more) arises from the
coarse one by cutting segment `g₀` of duration `dt[g₀] = τ₁ + τ₂` after time `τ₁`.  Position `p` of
the fine lists holds the *second* piece, the positions `p.succAbove i` hold the segments `i` of the
coarse pulse, the one for `i = g₀` shortened to the first piece.  The second piece starts at
`t[g₀] + τ₁`, has the same eigenvalues, eigenvectors and sensitivities as `g₀`, and its cumulative
propagator is `V e^{-iλτ₁} V† Q` (`C01.Useg`). -/
def IsSegmentCut {nG d nA : Nat}
    (eigvals : Mat ℝ nG d) (eigvecs props : Vector (Mat ℂ d d) nG) (nCoeffs : Mat ℝ nA nG)
    (dt t : Vec ℝ nG)
    (eigvals' : Mat ℝ (nG + 1) d) (eigvecs' props' : Vector (Mat ℂ d d) (nG + 1))
    (nCoeffs' : Mat ℝ nA (nG + 1)) (dt' t' : Vec ℝ (nG + 1))
    (g₀ : Fin nG) (p : Fin (nG + 1)) (τ₁ τ₂ : ℝ) : Prop :=
  dt[g₀] = τ₁ + τ₂ ∧
  (∀ i : Fin nG, eigvals'[p.succAbove i] = eigvals[i]) ∧
  (∀ i : Fin nG, eigvecs'[p.succAbove i] = eigvecs[i]) ∧
  (∀ i : Fin nG, props'[p.succAbove i] = props[i]) ∧
  (∀ (a : Fin nA) (i : Fin nG), nCoeffs'[a][p.succAbove i] = nCoeffs[a][i]) ∧
  (∀ i : Fin nG, t'[p.succAbove i] = t[i]) ∧
  (∀ i : Fin nG, i ≠ g₀ → dt'[p.succAbove i] = dt[i]) ∧
  dt'[p.succAbove g₀] = τ₁ ∧
  eigvals'[p] = eigvals[g₀] ∧
  eigvecs'[p] = eigvecs[g₀] ∧
  props'[p].toMatrix
    = Useg (fun m => eigvals[g₀][m]) eigvecs[g₀].toMatrix props[g₀].toMatrix τ₁ ∧
  (∀ a : Fin nA, nCoeffs'[a][p] = nCoeffs[a][g₀]) ∧
  t'[p] = t[g₀] + τ₁ ∧
  dt'[p] = τ₂

/-- **Cutting one segment into two: exact defect formula** (pure algebra; every guard, every
threshold, both branches, `τ₁`, `τ₂` of any sign, the second piece listed at any position `p`).
For a fine pulse obtained from a coarse one by `IsSegmentCut`, with `V†V = 1` for the eigenvector
matrix of the cut segment, the control matrix of the fine pulse equals that of the coarse pulse
plus the sum over `m, n` of the coarse-segment weights times the *splitting defect of the computed
segment integrals* `I(x,τ₁) + e^{ixτ₁} I(x,τ₂) − I(x,τ₁+τ₂)`, `x = ω + λ_m − λ_n`. -/
theorem cm_split_segment_defect {nG d nO nA nK : Nat} (kind : MaskKind) (thr : ℝ)
    (eigvals : Mat ℝ nG d) (eigvecs props : Vector (Mat ℂ d d) nG)
    (eigvals' : Mat ℝ (nG + 1) d) (eigvecs' props' : Vector (Mat ℂ d d) (nG + 1))
    (omega : Vec ℝ nO) (basis : Vector (Mat ℂ d d) nK) (nOpers : Vector (Mat ℂ d d) nA)
    (nCoeffs : Mat ℝ nA nG) (nCoeffs' : Mat ℝ nA (nG + 1)) (dt t : Vec ℝ nG)
    (dt' t' : Vec ℝ (nG + 1)) (g₀ : Fin nG) (p : Fin (nG + 1)) (τ₁ τ₂ : ℝ)
    (hcut : IsSegmentCut eigvals eigvecs props nCoeffs dt t eigvals' eigvecs' props' nCoeffs' dt' t'
      g₀ p τ₁ τ₂)
    (hV : (eigvecs[g₀].toMatrix)ᴴ * eigvecs[g₀].toMatrix = 1)
    (a : Fin nA) (k : Fin nK) (o : Fin nO) :
    (controlMatrixFromScratch kind thr eigvals' eigvecs' props' omega basis nOpers nCoeffs' dt' t')[a][k][o]
      = (controlMatrixFromScratch kind thr eigvals eigvecs props omega basis nOpers nCoeffs dt t)[a][k][o]
        + ∑ m : Fin d, ∑ n : Fin d,
          Complex.exp (Complex.I * ((omega[o] : ℂ) * (t[g₀] : ℂ))) *
          ((nCoeffs[a][g₀] : ℂ) *
            ((eigvecs[g₀].toMatrix)ᴴ * nOpers[a].toMatrix * eigvecs[g₀].toMatrix) m n) *
          ((firstOrderEntry kind thr (omega[o] + (eigvals[g₀][m] - eigvals[g₀][n])) τ₁ : ℂ)
            + Complex.exp (Complex.I * ((omega[o] + (eigvals[g₀][m] - eigvals[g₀][n]) : ℝ) : ℂ) * (τ₁ : ℂ))
              * firstOrderEntry kind thr (omega[o] + (eigvals[g₀][m] - eigvals[g₀][n])) τ₂
            - firstOrderEntry kind thr (omega[o] + (eigvals[g₀][m] - eigvals[g₀][n])) (τ₁ + τ₂)) *
          (((props[g₀].toMatrix)ᴴ * eigvecs[g₀].toMatrix)ᴴ * basis[k].toMatrix *
            ((props[g₀].toMatrix)ᴴ * eigvecs[g₀].toMatrix)) n m := by
  obtain ⟨hdt, hev, hvec, hprop, hco, ht, hdt', hdt1, hev2, hvec2, hprop2, hco2, ht2, hdt2⟩ := hcut
  rw [cm_entry, cm_entry, Fin.sum_univ_succAbove _ p]
  simp only [hev, hvec, hprop, hco, ht, hev2, hvec2, hco2, ht2, hdt2, hprop2]
  rw [← Finset.add_sum_erase Finset.univ _ (Finset.mem_univ g₀),
    ← Finset.add_sum_erase Finset.univ _ (Finset.mem_univ g₀), ← add_assoc]
  conv_rhs => rw [add_right_comm]
  refine congrArg₂ (· + ·) ?_ (Finset.sum_congr rfl fun i hi => ?_)
  · rw [← Finset.sum_add_distrib, ← Finset.sum_add_distrib]
    refine Finset.sum_congr rfl fun m _ => ?_
    rw [← Finset.sum_add_distrib, ← Finset.sum_add_distrib]
    refine Finset.sum_congr rfl fun n _ => ?_
    rw [hdt1, hdt, Useg_conjTranspose, diag_phase_sandwich _ _ _ _ hV]
    exact cut_algebra' _ _ _ _ _ _ _ _ _ _ (cut_phase _ _ _ _ _)
  · rw [hdt' i (Finset.ne_of_mem_erase hi)]

/-- the unitarity hypothesis `V†V = 1` is satisfiable (a non-diagonal example) -/
example : (Mat.toMatrix (#v[#v[0, 1], #v[1, 0]] : Mat ℂ 2 2))ᴴ
    * Mat.toMatrix (#v[#v[0, 1], #v[1, 0]] : Mat ℂ 2 2) = 1 := by
  ext i j
  fin_cases i <;> fin_cases j <;> simp [Matrix.mul_apply, Mat.toMatrix, Fin.sum_univ_two]

/-- **Cutting one segment into two leaves the control matrix unchanged (exact branch).**
For a fine pulse obtained from a coarse one by `IsSegmentCut`.  Assumptions: the eigenvector matrix
of the cut segment satisfies `V†V = 1`, and at the frequency considered the entries of
`_first_order_integral` for the three durations `τ₁`, `τ₂`, `τ₁+τ₂` are all computed by the closed
form (otherwise see `cm_split_segment_error`).  All dimensions, segment counts, guards, `thr ≥ 0`;
`τ₁`, `τ₂` of any sign; the second piece may be listed at any position `p`. -/
theorem cm_split_segment {nG d nO nA nK : Nat} (kind : MaskKind) (thr : ℝ) (hthr : 0 ≤ thr)
    (eigvals : Mat ℝ nG d) (eigvecs props : Vector (Mat ℂ d d) nG)
    (eigvals' : Mat ℝ (nG + 1) d) (eigvecs' props' : Vector (Mat ℂ d d) (nG + 1))
    (omega : Vec ℝ nO) (basis : Vector (Mat ℂ d d) nK) (nOpers : Vector (Mat ℂ d d) nA)
    (nCoeffs : Mat ℝ nA nG) (nCoeffs' : Mat ℝ nA (nG + 1)) (dt t : Vec ℝ nG)
    (dt' t' : Vec ℝ (nG + 1)) (g₀ : Fin nG) (p : Fin (nG + 1)) (τ₁ τ₂ : ℝ)
    (hcut : IsSegmentCut eigvals eigvecs props nCoeffs dt t eigvals' eigvecs' props' nCoeffs' dt' t'
      g₀ p τ₁ τ₂)
    (hV : (eigvecs[g₀].toMatrix)ᴴ * eigvecs[g₀].toMatrix = 1)
    (a : Fin nA) (k : Fin nK) (o : Fin nO)
    (hmask : ∀ m n : Fin d,
      firstOrderMask kind thr (omega[o] + (eigvals[g₀][m] - eigvals[g₀][n])) τ₁ = true ∧
      firstOrderMask kind thr (omega[o] + (eigvals[g₀][m] - eigvals[g₀][n])) τ₂ = true ∧
      firstOrderMask kind thr (omega[o] + (eigvals[g₀][m] - eigvals[g₀][n])) (τ₁ + τ₂) = true) :
    (controlMatrixFromScratch kind thr eigvals' eigvecs' props' omega basis nOpers nCoeffs' dt' t')[a][k][o]
      = (controlMatrixFromScratch kind thr eigvals eigvecs props omega basis nOpers nCoeffs dt t)[a][k][o] := by
  rw [cm_split_segment_defect kind thr eigvals eigvecs props eigvals' eigvecs' props' omega basis
    nOpers nCoeffs nCoeffs' dt t dt' t' g₀ p τ₁ τ₂ hcut hV a k o]
  rw [add_eq_left]
  refine Finset.sum_eq_zero fun m _ => Finset.sum_eq_zero fun n _ => ?_
  obtain ⟨h1, h2, h3⟩ := hmask m n
  rw [firstOrderEntry_split kind thr _ τ₁ τ₂ hthr h1 h2 h3, sub_self, mul_zero, zero_mul]

/-- **Cutting one segment into two, code as it is now, all frequencies** (guard and threshold
read from the source; both branches of `_first_order_integral`, `τ₁, τ₂ ≥ 0`): the control
matrices of the fine and the coarse pulse differ by at most
`2e-7·(τ₁+τ₂)·|s_a^{(g₀)}|·Σ_{mn} |(V†B_aV)_{mn}|·|(W†C_kW)_{nm}|`. -/
theorem cm_split_segment_error {nG d nO nA nK : Nat}
    (eigvals : Mat ℝ nG d) (eigvecs props : Vector (Mat ℂ d d) nG)
    (eigvals' : Mat ℝ (nG + 1) d) (eigvecs' props' : Vector (Mat ℂ d d) (nG + 1))
    (omega : Vec ℝ nO) (basis : Vector (Mat ℂ d d) nK) (nOpers : Vector (Mat ℂ d d) nA)
    (nCoeffs : Mat ℝ nA nG) (nCoeffs' : Mat ℝ nA (nG + 1)) (dt t : Vec ℝ nG)
    (dt' t' : Vec ℝ (nG + 1)) (g₀ : Fin nG) (p : Fin (nG + 1)) (τ₁ τ₂ : ℝ)
    (hcut : IsSegmentCut eigvals eigvecs props nCoeffs dt t eigvals' eigvecs' props' nCoeffs' dt' t'
      g₀ p τ₁ τ₂)
    (hV : (eigvecs[g₀].toMatrix)ᴴ * eigvecs[g₀].toMatrix = 1) (h1 : 0 ≤ τ₁) (h2 : 0 ≤ τ₂)
    (a : Fin nA) (k : Fin nK) (o : Fin nO) :
    ‖(controlMatrixFromScratch Gen.firstOrderMaskKind Gen.firstOrderMaskThr eigvals' eigvecs' props'
        omega basis nOpers nCoeffs' dt' t')[a][k][o]
      - (controlMatrixFromScratch Gen.firstOrderMaskKind Gen.firstOrderMaskThr eigvals eigvecs props
        omega basis nOpers nCoeffs dt t)[a][k][o]‖
      ≤ 2e-7 * (τ₁ + τ₂) * |nCoeffs[a][g₀]| *
          ∑ m : Fin d, ∑ n : Fin d,
            ‖((eigvecs[g₀].toMatrix)ᴴ * nOpers[a].toMatrix * eigvecs[g₀].toMatrix) m n‖ *
            ‖(((props[g₀].toMatrix)ᴴ * eigvecs[g₀].toMatrix)ᴴ * basis[k].toMatrix *
              ((props[g₀].toMatrix)ᴴ * eigvecs[g₀].toMatrix)) n m‖ := by
  rw [cm_split_segment_defect _ _ eigvals eigvecs props eigvals' eigvecs' props' omega basis
    nOpers nCoeffs nCoeffs' dt t dt' t' g₀ p τ₁ τ₂ hcut hV a k o, add_sub_cancel_left, Finset.mul_sum]
  refine (norm_sum_le _ _).trans (Finset.sum_le_sum fun m _ => ?_)
  rw [Finset.mul_sum]
  refine (norm_sum_le _ _).trans (Finset.sum_le_sum fun n _ => ?_)
  rw [norm_mul, norm_mul, norm_mul, norm_mul, Complex.norm_real, Real.norm_eq_abs]
  have hexp : ∀ y : ℝ, ‖Complex.exp (Complex.I * ((omega[o] : ℂ) * (y : ℂ)))‖ = 1 := by
    intro y
    rw [← Complex.ofReal_mul, mul_comm, Complex.norm_exp_ofReal_mul_I]
  rw [hexp, one_mul]
  have herr := firstOrderEntry_split_error (omega[o] + (eigvals[g₀][m] - eigvals[g₀][n])) τ₁ τ₂ h1 h2
  rw [norm_sub_rev] at herr
  calc _ ≤ |nCoeffs[a][g₀]| *
            ‖((eigvecs[g₀].toMatrix)ᴴ * nOpers[a].toMatrix * eigvecs[g₀].toMatrix) m n‖ *
            (2e-7 * (τ₁ + τ₂)) *
            ‖(((props[g₀].toMatrix)ᴴ * eigvecs[g₀].toMatrix)ᴴ * basis[k].toMatrix *
              ((props[g₀].toMatrix)ᴴ * eigvecs[g₀].toMatrix)) n m‖ := by
        gcongr
    _ = _ := by ring

/-- `IsSegmentCut` is satisfiable for every coarse pulse, every segment `g₀`, every position `p`
of the second piece and every splitting `dt[g₀] = τ₁ + τ₂`: the fine lists are the coarse ones with
the second piece inserted at `p`. -/
theorem isSegmentCut_exists {nG d nA : Nat}
    (eigvals : Mat ℝ nG d) (eigvecs props : Vector (Mat ℂ d d) nG) (nCoeffs : Mat ℝ nA nG)
    (dt t : Vec ℝ nG) (g₀ : Fin nG) (p : Fin (nG + 1)) (τ₁ τ₂ : ℝ) (hdt : dt[g₀] = τ₁ + τ₂) :
    ∃ (eigvals' : Mat ℝ (nG + 1) d) (eigvecs' props' : Vector (Mat ℂ d d) (nG + 1))
      (nCoeffs' : Mat ℝ nA (nG + 1)) (dt' t' : Vec ℝ (nG + 1)),
      IsSegmentCut eigvals eigvecs props nCoeffs dt t eigvals' eigvecs' props' nCoeffs' dt' t'
        g₀ p τ₁ τ₂ := by
  refine ⟨Vector.ofFn (Fin.insertNth (α := fun _ => Vec ℝ d) p eigvals[g₀] fun i => eigvals[i]),
    Vector.ofFn (Fin.insertNth (α := fun _ => Mat ℂ d d) p eigvecs[g₀] fun i => eigvecs[i]),
    Vector.ofFn (Fin.insertNth (α := fun _ => Mat ℂ d d) p
      (Mat.ofFn fun i j => Useg (fun m => eigvals[g₀][m]) eigvecs[g₀].toMatrix props[g₀].toMatrix τ₁ i j)
      fun i => props[i]),
    Mat.ofFn (fun a => Fin.insertNth (α := fun _ => ℝ) p nCoeffs[a][g₀] fun i => nCoeffs[a][i]),
    Vector.ofFn (Fin.insertNth (α := fun _ => ℝ) p τ₂ fun i => if i = g₀ then τ₁ else dt[i]),
    Vector.ofFn (Fin.insertNth (α := fun _ => ℝ) p (t[g₀] + τ₁) fun i => t[i]), ?_⟩
  unfold IsSegmentCut
  simp only [InvAux.vec_ofFn_get, Mat.ofFn_get, Fin.insertNth_apply_same,
    Fin.insertNth_apply_succAbove, Mat.toMatrix_ofFn, if_true]
  refine ⟨hdt, fun _ => trivial, fun _ => trivial, fun _ => trivial, fun _ _ => trivial,
    fun _ => trivial, fun i hi => if_neg hi, trivial, trivial, trivial, ?_, fun _ => trivial,
    trivial, trivial⟩
  ext i j; rfl

end FFVerif.C13
