/-
C11 (assembly, analytic part) — the array `ctrlmat_deriv` computed by
`gradient.calculate_derivative_of_control_matrix_from_scratch` IS the derivative of the control
matrix with respect to a control amplitude in one time segment.

* `step_control_matrix_hasDerivAt` : one pass of the loop — `ctrlmat_step_deriv` is the derivative
  of the step control matrix `B^{(g)}_{aj}(ω)` (Daleckii–Krein under the integral sign);
* `liouville_derivative_model_hasDerivAt` : the array model of `_liouville_derivative` is the
  derivative of `L(Q_g)`;
* `controlMatrixIntegral_hasDerivAt` : the defining integral of the control matrix (segment form,
  `C01.cm_segment_form`) of the pulse with amplitude shift `u` has at `u = 0` the derivative
  `ctrlmat_deriv[h][o][g'][a][k]` of the model (constant sensitivities);
* `controlMatrixIntegral_hasDerivAt_sens` : the same with a control-dependent sensitivity and
  `n_coeffs_deriv` supplied to the model;
* `controlMatrixDeriv_hasDerivAt`, `controlMatrixDeriv_hasDerivAt_sens` : the same for the model
  `controlMatrixFromScratch` itself, when no first-order mask is in its truncated branch near
  `u = 0`;
* `filterFunctionDeriv_hasDerivAt` : composition with `ff_derivative_is_derivative` — the filter
  function derivative of the models is the derivative of the filter function.

Property theorems only (helper lemmas: `Lemmas/CmDerivAux.lean`, `Lemmas/CmDerivModelAux.lean`,
`Lemmas/CmDerivSensAux.lean`).
-/
import FFVerif.Lemmas.CmDerivModelAux
import FFVerif.Lemmas.CmDerivSensAux
import FFVerif.Props.C11Asm
import FFVerif.Props.C01Seg
import FFVerif.Props.C14

namespace FFVerif.C11
open FFVerif FFVerif.Model FFVerif.GradientAsmAux FFVerif.CmDerivAux Matrix Complex MeasureTheory
  intervalIntegral
open FFVerif.C02 (IsEigh)
open FFVerif.C01 (segIntegrand)
open FFVerif.GradientAux (Sharp gradMask_false_iff)
open scoped Matrix

/-! ### exactness hypotheses (no masked quantity in a grey zone) -/

/-- no pair of levels `ev` of a segment of length `dt` is in the grey zone `0 < |(λ_m-λ_n) dt| < thr`
of the `A_mat` mask of `_liouville_derivative` (the hypothesis of `liouvilleAMat_is_A`) -/
def AMatSharp {d : Nat} (thr : ℝ) (ev : Vec ℝ d) (dt : ℝ) : Prop :=
  ∀ m n : Fin d, gradMask thr ((ev[m] - ev[n]) * dt) = false ∨ ev[m] = ev[n]

/-- none of the three masked quantities of `_derivative_integral` (`Ω_pq`, `ω + Ω_mn`,
`ω + Ω_mn + Ω_pq`) for the levels `ev` and the frequency `ω` is in the grey zone `0 < |·| < thr`
(the hypotheses of `derivativeIntegral_exact`, for all index combinations) -/
def DerivIntegralSharp {d : Nat} (thr ω : ℝ) (ev : Vec ℝ d) : Prop :=
  ∀ p q m n : Fin d, Sharp thr (ev[p] - ev[q]) ∧ Sharp thr (ω + (ev[m] - ev[n]))
    ∧ Sharp thr (ω + (ev[m] - ev[n]) + (ev[p] - ev[q]))

/-- no entry of `numeric._first_order_integral` for the levels `ev`, the frequency `ω` and the
segment length `dt` is in the truncated branch (the hypothesis of `C01.firstOrderEntry_exact`) -/
def FirstOrderExact {d : Nat} (kind : MaskKind) (thr ω : ℝ) (ev : Vec ℝ d) (dt : ℝ) : Prop :=
  ∀ m n : Fin d, firstOrderMask kind thr (ω + (ev[m] - ev[n])) dt = true

/-! ### the two ingredients: one pass of the loop, and `_liouville_derivative` -/

/-- **One pass of the loop: `ctrlmat_step_deriv` is the derivative of the step control matrix.**
Let `H + u C_h` have `eigh` data `(lam u, V u)` for every real `u` (not assumed continuous in `u`),
with the data at `u = 0` being the model's inputs `ev`, `Vm`.  Then the step control matrix

  `B^{(g)}_{aj}(ω_o; u) = ∫₀^dt e^{iω_o(t_g+s)} s_a tr(U(u,s)† B_a U(u,s) C_j) ds`,
  `U(u,s) = exp(-i s (H + u C_h))`,

has at `u = 0` the derivative `ctrlmat_step_deriv[a][j][h][o]` computed by the model of
`_control_matrix_at_timestep_derivative` (without `n_coeffs_deriv`), provided no masked quantity of
`_derivative_integral` is in a grey zone.  Proof: Daleckii–Krein (`exp_hasDerivAt_eigenbasis`, at
every `u`) under the integral sign (`hasDerivAt_integral_of_dominated_loc_of_deriv_le`), the
`s`-integral of the closed form being the nested integral of `derivativeIntegral_exact`; then
`ctrlmatStepM_entry`.  `B_a`, `C_j` arbitrary complex matrices, `dt` of either sign. -/
theorem step_control_matrix_hasDerivAt {d nO nA nH nK : Nat} (kind : MaskKind) (thrF thrD : ℝ)
    (hthrD : 0 < thrD) (omega : Vec ℝ nO) (ev : Vec ℝ d) (Vm : Mat ℂ d d)
    (basis : Vector (Mat ℂ d d) nK) (tg dtg : ℝ) (nOpers : Vector (Mat ℂ d d) nA) (nc : Vec ℝ nA)
    (cOpers : Vector (Mat ℂ d d) nH) (a : Fin nA) (j : Fin nK) (h : Fin nH) (o : Fin nO)
    {H : Matrix (Fin d) (Fin d) ℂ} (lam : ℝ → Fin d → ℝ) (V : ℝ → Matrix (Fin d) (Fin d) ℂ)
    (hE : ∀ u : ℝ, IsEigh (H + (u : ℂ) • cOpers[h].toMatrix) (lam u) (V u))
    (hlam : lam 0 = fun m => ev[m]) (hV : V 0 = Vm.toMatrix)
    (hS : DerivIntegralSharp thrD omega[o] ev) :
    HasDerivAt (fun u : ℝ => ∫ s in (0:ℝ)..dtg,
        segIntegrand (lam u) (V u) 1 nOpers[a].toMatrix basis[j].toMatrix omega[o] tg nc[a] s)
      ((cmdStep kind thrF thrD omega ev Vm basis tg dtg nOpers nc cOpers none).2[a][j][h][o]) 0 :=
  step_control_matrix_hasDerivAt_aux kind thrF thrD hthrD omega ev Vm basis tg dtg nOpers nc cOpers
    a j h o lam V hE hlam hV hS

/-- **The array model of `_liouville_derivative` is the derivative of the Liouville
representation of the cumulative propagators**: entry `[tt][h][g'][j][k]` of `liouvilleDerivative`
(computed from the `eigh` data at `u = 0`) is the derivative at `u = 0` of
`u ↦ L(Q_{tt+1}(u))_{jk} = tr(C_j Q_{tt+1}(u) C_k Q_{tt+1}(u)†)` for the family of pulses with the
amplitude of `C_h` shifted by `u` in segment `g'` — Hermitian basis, `eigh` contract for every `u`,
no pair of levels of segment `g'` in the grey zone of the `A_mat` mask.  (End-to-end version of
`liouville_derivative_of_pulse` for the executable array model.) -/
theorem liouville_derivative_model_hasDerivAt {nG d nH N : Nat} (dt : Vec ℝ nG)
    (H : Fin nG → Matrix (Fin d) (Fin d) ℂ) (cOpers : Vector (Mat ℂ d d) nH) (h : Fin nH)
    (g' : Fin nG) (eigvals : ℝ → Mat ℝ nG d) (eigvecs : ℝ → Vector (Mat ℂ d d) nG)
    (hE : ∀ (u : ℝ) (g : Fin nG),
      IsEigh (H g + (if g.1 = g'.1 then (u : ℂ) • cOpers[h].toMatrix else 0))
        (fun j => (eigvals u)[g.1][j]) (eigvecs u)[g.1].toMatrix)
    (thrA : ℝ) (hthr : 0 < thrA) (hsharp : AMatSharp thrA (eigvals 0)[g'] dt[g'])
    (basis : Vector (Mat ℂ d d) N) (hherm : ∀ i, (Spec.basisOf basis i)ᴴ = Spec.basisOf basis i)
    (tt : Fin (nG - 1)) (j k : Fin N) :
    HasDerivAt
      (fun u : ℝ => Spec.liou (Spec.basisOf basis)
        ((propagators (eigvals u) (eigvecs u) dt)[tt.1 + 1]'(by omega)).toMatrix j k)
      ((((liouvilleDerivative thrA dt (propagators (eigvals 0) (eigvecs 0) dt) basis (eigvecs 0)
          (eigvals 0) (cOpersTransformedAll (eigvecs 0) cOpers))[tt][h][g'][j][k] : ℝ)) : ℂ) 0 :=
  liouvilleDerivative_hasDerivAt dt H cOpers h g' eigvals eigvecs hE thrA hthr hsharp basis hherm
    tt j k

/-! ### the assembled derivative -/

/-- **The control-matrix derivative assembled by
`calculate_derivative_of_control_matrix_from_scratch` is the derivative of the control matrix**
(defining integral).

One-parameter family of pulses: the Hamiltonian of segment `g'` is `H_{g'} + u C_h` (a shift of the
amplitude of the control operator `C_h = c_opers[h]` in that segment), all other segments keep
`H_g`; for every `u` the arrays `eigvals u`, `eigvecs u` satisfy the `eigh` contract (they are NOT
assumed to depend continuously on `u`) and the cumulative propagators are the model's
`propagators (eigvals u) (eigvecs u) dt`.  Then

  `u ↦ B_{ak}(ω_o; u) = Σ_g ∫₀^{dt_g} e^{iω_o(t_g+s)} s_a^{(g)} tr(U_g(s)† B_a U_g(s) C_k) ds`

(`cmIntegral`, the segment form of `C01.cm_segment_form` for the pulse with parameter `u`) has at
`u = 0` the derivative `ctrlmat_deriv[h][o][g'][a][k]` that the model computes from the `eigh` data
at `u = 0`, for a Hermitian, orthonormal and complete operator basis, provided that at `u = 0`
* no pair of levels of segment `g'` is in the grey zone of the `A_mat` mask (`hsharpA`),
* none of the three masked quantities of `_derivative_integral` on segment `g'` is in the grey zone
  of its mask (`hS`; `Sharp`: exactly zero or not masked),
* the first-order integrals of the LATER segments are not in their truncated branch (`hmask`).
No assumption on the sign of `dt`, on degeneracies, on the noise operators (Hermitian or not), or
on commutation.  (`n_coeffs_deriv = None`: constant sensitivities.) -/
theorem controlMatrixIntegral_hasDerivAt {nG d nO nA nH nK : Nat} (kind : MaskKind)
    (thrF thrD thrA : ℝ) (castReal : Bool) (hthrF : 0 ≤ thrF) (hthrD : 0 < thrD)
    (hthrA : 0 < thrA) (omega : Vec ℝ nO) (basis : Vector (Mat ℂ d d) nK)
    (hB : Spec.IsOrthoHerm (Spec.basisOf basis)) (hBc : Spec.IsComplete (Spec.basisOf basis))
    (t : Vec ℝ (nG + 1)) (dt : Vec ℝ nG) (nOpers : Vector (Mat ℂ d d) nA) (nCoeffs : Mat ℝ nA nG)
    (cOpers : Vector (Mat ℂ d d) nH) (H : Fin nG → Matrix (Fin d) (Fin d) ℂ) (h : Fin nH)
    (g' : Fin nG) (eigvals : ℝ → Mat ℝ nG d) (eigvecs : ℝ → Vector (Mat ℂ d d) nG)
    (hE : ∀ (u : ℝ) (g : Fin nG),
      IsEigh (H g + (if g.1 = g'.1 then (u : ℂ) • cOpers[h].toMatrix else 0))
        (fun j => (eigvals u)[g.1][j]) (eigvecs u)[g.1].toMatrix)
    (a : Fin nA) (k : Fin nK) (o : Fin nO)
    (hsharpA : AMatSharp thrA (eigvals 0)[g'] dt[g'])
    (hS : DerivIntegralSharp thrD omega[o] (eigvals 0)[g'])
    (hmask : ∀ g : Fin nG, g'.1 < g.1 → FirstOrderExact kind thrF omega[o] (eigvals 0)[g] dt[g]) :
    HasDerivAt (cmIntegral omega basis t dt nOpers nCoeffs eigvals eigvecs a o k)
      ((controlMatrixDerivFromScratch kind thrF thrD thrA castReal omega
        (propagators (eigvals 0) (eigvecs 0) dt) (eigvals 0) (eigvecs 0) basis t dt nOpers nCoeffs
        cOpers none)[h][o][g'][a][k]) 0 := by
  have hsum := cmIntegral_hasDerivAt_sum kind thrF thrD thrA omega basis t dt nOpers nCoeffs
    cOpers H h g' eigvals eigvecs a o hE hthrD hthrA hBc hB.herm hsharpA hS k
  refine hsum.congr_deriv ?_
  simp only [Finset.sum_add_distrib]
  rw [sum_dBeta kind thrF thrD omega basis t dt nOpers nCoeffs cOpers h g' eigvals eigvecs a o
      castReal hB k,
    sum_dLiou kind thrF thrD thrA omega basis t dt nOpers nCoeffs cOpers h g' eigvals eigvecs a o
      hthrF k hmask,
    controlMatrixDerivFromScratch_get]

/-- **… including the contribution of control-dependent noise sensitivities** (`n_coeffs_deriv`
supplied).  In addition to the amplitude shift `u` of `C_h` in segment `g'`, the sensitivity of the
noise operator `a` in segment `g'` depends on `u` (`nC u`, all other sensitivities fixed — the
locality assumption of the docstring), differentiably at `u = 0` with derivative
`n_coeffs_deriv[a][h][g']`, and `s_a^{(g')}(0) ≠ 0` (the code divides by it).  Then the defining
integral of the control matrix of the perturbed pulse has at `u = 0` the derivative
`ctrlmat_deriv[h][o][g'][a][k]` computed by the model WITH `n_coeffs_deriv = some D`.  Hypotheses as
in `controlMatrixIntegral_hasDerivAt`, with `FirstOrderExact` also on segment `g'` itself (the
sensitivity term is `(∂s/s) · ctrlmat_step[g']`, which contains the first-order integral). -/
theorem controlMatrixIntegral_hasDerivAt_sens {nG d nO nA nH nK : Nat} (kind : MaskKind)
    (thrF thrD thrA : ℝ) (castReal : Bool) (hthrF : 0 ≤ thrF) (hthrD : 0 < thrD)
    (hthrA : 0 < thrA) (omega : Vec ℝ nO) (basis : Vector (Mat ℂ d d) nK)
    (hB : Spec.IsOrthoHerm (Spec.basisOf basis)) (hBc : Spec.IsComplete (Spec.basisOf basis))
    (t : Vec ℝ (nG + 1)) (dt : Vec ℝ nG) (nOpers : Vector (Mat ℂ d d) nA)
    (nC : ℝ → Mat ℝ nA nG) (D : Vector (Mat ℝ nH nG) nA)
    (cOpers : Vector (Mat ℂ d d) nH) (H : Fin nG → Matrix (Fin d) (Fin d) ℂ) (h : Fin nH)
    (g' : Fin nG) (eigvals : ℝ → Mat ℝ nG d) (eigvecs : ℝ → Vector (Mat ℂ d d) nG)
    (hE : ∀ (u : ℝ) (g : Fin nG),
      IsEigh (H g + (if g.1 = g'.1 then (u : ℂ) • cOpers[h].toMatrix else 0))
        (fun j => (eigvals u)[g.1][j]) (eigvecs u)[g.1].toMatrix)
    (a : Fin nA) (k : Fin nK) (o : Fin nO)
    (hconst : ∀ (u : ℝ) (g : Fin nG), g ≠ g' → (nC u)[a][g] = (nC 0)[a][g])
    (hds : HasDerivAt (fun u : ℝ => (nC u)[a][g']) D[a][h][g'] 0)
    (hnc : (nC 0)[a][g'] ≠ 0)
    (hsharpA : AMatSharp thrA (eigvals 0)[g'] dt[g'])
    (hS : DerivIntegralSharp thrD omega[o] (eigvals 0)[g'])
    (hmask : ∀ g : Fin nG, g'.1 ≤ g.1 → FirstOrderExact kind thrF omega[o] (eigvals 0)[g] dt[g]) :
    HasDerivAt (fun u : ℝ => cmIntegral omega basis t dt nOpers (nC u) eigvals eigvecs a o k u)
      ((controlMatrixDerivFromScratch kind thrF thrD thrA castReal omega
        (propagators (eigvals 0) (eigvecs 0) dt) (eigvals 0) (eigvecs 0) basis t dt nOpers (nC 0)
        cOpers (some D))[h][o][g'][a][k]) 0 := by
  have hm' : ∀ g : Fin nG, g'.1 < g.1 → FirstOrderExact kind thrF omega[o] (eigvals 0)[g] dt[g] :=
    fun g hg => hmask g (le_of_lt hg)
  have h0 := controlMatrixIntegral_hasDerivAt kind thrF thrD thrA castReal hthrF hthrD hthrA omega
    basis hB hBc t dt nOpers (nC 0) cOpers H h g' eigvals eigvecs hE a k o hsharpA hS hm'
  have h1 := controlMatrixIntegral_hasDerivAt kind thrF thrD thrA castReal hthrF hthrD hthrA omega
    basis hB hBc t dt nOpers (unitCoeffs (nA := nA) g') cOpers H h g' eigvals eigvecs hE a k o
    hsharpA hS hm'
  have hΔ : HasDerivAt (fun u : ℝ => (((nC u)[a][g'] - (nC 0)[a][g'] : ℝ) : ℂ))
      ((D[a][h][g'] : ℝ) : ℂ) 0 := (hds.sub_const _).ofReal_comp
  have hfun : (fun u : ℝ => cmIntegral omega basis t dt nOpers (nC u) eigvals eigvecs a o k u)
      = fun u : ℝ => cmIntegral omega basis t dt nOpers (nC 0) eigvals eigvecs a o k u
        + (((nC u)[a][g'] - (nC 0)[a][g'] : ℝ) : ℂ)
          * cmIntegral omega basis t dt nOpers (unitCoeffs (nA := nA) g') eigvals eigvecs a o k u :=
    funext fun u => cmIntegral_sens_split omega basis t dt nOpers g' eigvals eigvecs a o (nC 0)
      (nC u) (hconst u) k u
  rw [hfun]
  refine (h0.add (hΔ.mul h1)).congr_deriv ?_
  rw [controlMatrixDerivFromScratch_some,
    sens_term_eq omega basis t dt nOpers g' eigvals eigvecs a o kind thrF thrD (nC 0) cOpers
      castReal hthrF hB hBc D[a][h][g'] hnc k (hmask g' (le_refl _)),
    sub_self, Complex.ofReal_zero, zero_mul, add_zero]

/-- **The same for the model of `calculate_control_matrix_from_scratch` itself**: if, for all `u`
near `0`, no first-order integral of the perturbed pulse is in its truncated branch (`hmaskU`; there
the model equals the defining integral, `C01.cm_segment_form` — in the truncated branch the code
writes `dt` for the integral, a `u`-independent value within `1e-7·dt` of it), then

  `u ↦ calculate_control_matrix_from_scratch(pulse(u))[a][k][o]`   (model `controlMatrixFromScratch`)

has at `u = 0` the derivative `ctrlmat_deriv[h][o][g'][a][k]` of the model
`controlMatrixDerivFromScratch`, under the hypotheses of `controlMatrixIntegral_hasDerivAt`. -/
theorem controlMatrixDeriv_hasDerivAt {nG d nO nA nH nK : Nat} (kind : MaskKind)
    (thrF thrD thrA : ℝ) (castReal : Bool) (hthrF : 0 ≤ thrF) (hthrD : 0 < thrD)
    (hthrA : 0 < thrA) (omega : Vec ℝ nO) (basis : Vector (Mat ℂ d d) nK)
    (hB : Spec.IsOrthoHerm (Spec.basisOf basis)) (hBc : Spec.IsComplete (Spec.basisOf basis))
    (t : Vec ℝ (nG + 1)) (dt : Vec ℝ nG) (nOpers : Vector (Mat ℂ d d) nA) (nCoeffs : Mat ℝ nA nG)
    (cOpers : Vector (Mat ℂ d d) nH) (H : Fin nG → Matrix (Fin d) (Fin d) ℂ) (h : Fin nH)
    (g' : Fin nG) (eigvals : ℝ → Mat ℝ nG d) (eigvecs : ℝ → Vector (Mat ℂ d d) nG)
    (hE : ∀ (u : ℝ) (g : Fin nG),
      IsEigh (H g + (if g.1 = g'.1 then (u : ℂ) • cOpers[h].toMatrix else 0))
        (fun j => (eigvals u)[g.1][j]) (eigvecs u)[g.1].toMatrix)
    (a : Fin nA) (k : Fin nK) (o : Fin nO)
    (hsharpA : AMatSharp thrA (eigvals 0)[g'] dt[g'])
    (hS : DerivIntegralSharp thrD omega[o] (eigvals 0)[g'])
    (hmaskU : ∀ᶠ u in nhds (0 : ℝ), ∀ g : Fin nG,
      FirstOrderExact kind thrF omega[o] (eigvals u)[g] dt[g]) :
    HasDerivAt (fun u : ℝ =>
        (controlMatrixFromScratch kind thrF (eigvals u) (eigvecs u)
          (dropLast (propagators (eigvals u) (eigvecs u) dt)) omega basis nOpers nCoeffs dt
          (dropLast t))[a][k][o])
      ((controlMatrixDerivFromScratch kind thrF thrD thrA castReal omega
        (propagators (eigvals 0) (eigvecs 0) dt) (eigvals 0) (eigvecs 0) basis t dt nOpers nCoeffs
        cOpers none)[h][o][g'][a][k]) 0 := by
  have h0 := hmaskU.self_of_nhds
  have hI := controlMatrixIntegral_hasDerivAt kind thrF thrD thrA castReal hthrF hthrD hthrA omega
    basis hB hBc t dt nOpers nCoeffs cOpers H h g' eigvals eigvecs hE a k o hsharpA hS
    (fun g _ => h0 g)
  have heq : (fun u : ℝ =>
        (controlMatrixFromScratch kind thrF (eigvals u) (eigvecs u)
          (dropLast (propagators (eigvals u) (eigvecs u) dt)) omega basis nOpers nCoeffs dt
          (dropLast t))[a][k][o])
      =ᶠ[nhds (0 : ℝ)] cmIntegral omega basis t dt nOpers nCoeffs eigvals eigvecs a o k :=
    hmaskU.mono fun u hu =>
      cm_model_eq_cmIntegral kind thrF hthrF omega basis t dt nOpers nCoeffs eigvals eigvecs a k o
        u hu
  exact hI.congr_of_eventuallyEq heq

/-- **The statement of property C11 for the control matrix, for the models**: the model of
`calculate_control_matrix_from_scratch` of the perturbed pulse (amplitude of `C_h` shifted by `u` in
segment `g'`, sensitivity `s_a^{(g')}` depending on `u`) has at `u = 0` the derivative
`ctrlmat_deriv[h][o][g'][a][k]` of the model of
`calculate_derivative_of_control_matrix_from_scratch` with `n_coeffs_deriv` supplied — under the
hypotheses of `controlMatrixIntegral_hasDerivAt_sens` and `FirstOrderExact` near `u = 0`. -/
theorem controlMatrixDeriv_hasDerivAt_sens {nG d nO nA nH nK : Nat} (kind : MaskKind)
    (thrF thrD thrA : ℝ) (castReal : Bool) (hthrF : 0 ≤ thrF) (hthrD : 0 < thrD)
    (hthrA : 0 < thrA) (omega : Vec ℝ nO) (basis : Vector (Mat ℂ d d) nK)
    (hB : Spec.IsOrthoHerm (Spec.basisOf basis)) (hBc : Spec.IsComplete (Spec.basisOf basis))
    (t : Vec ℝ (nG + 1)) (dt : Vec ℝ nG) (nOpers : Vector (Mat ℂ d d) nA)
    (nC : ℝ → Mat ℝ nA nG) (D : Vector (Mat ℝ nH nG) nA)
    (cOpers : Vector (Mat ℂ d d) nH) (H : Fin nG → Matrix (Fin d) (Fin d) ℂ) (h : Fin nH)
    (g' : Fin nG) (eigvals : ℝ → Mat ℝ nG d) (eigvecs : ℝ → Vector (Mat ℂ d d) nG)
    (hE : ∀ (u : ℝ) (g : Fin nG),
      IsEigh (H g + (if g.1 = g'.1 then (u : ℂ) • cOpers[h].toMatrix else 0))
        (fun j => (eigvals u)[g.1][j]) (eigvecs u)[g.1].toMatrix)
    (a : Fin nA) (k : Fin nK) (o : Fin nO)
    (hconst : ∀ (u : ℝ) (g : Fin nG), g ≠ g' → (nC u)[a][g] = (nC 0)[a][g])
    (hds : HasDerivAt (fun u : ℝ => (nC u)[a][g']) D[a][h][g'] 0)
    (hnc : (nC 0)[a][g'] ≠ 0)
    (hsharpA : AMatSharp thrA (eigvals 0)[g'] dt[g'])
    (hS : DerivIntegralSharp thrD omega[o] (eigvals 0)[g'])
    (hmaskU : ∀ᶠ u in nhds (0 : ℝ), ∀ g : Fin nG,
      FirstOrderExact kind thrF omega[o] (eigvals u)[g] dt[g]) :
    HasDerivAt (fun u : ℝ =>
        (controlMatrixFromScratch kind thrF (eigvals u) (eigvecs u)
          (dropLast (propagators (eigvals u) (eigvecs u) dt)) omega basis nOpers (nC u) dt
          (dropLast t))[a][k][o])
      ((controlMatrixDerivFromScratch kind thrF thrD thrA castReal omega
        (propagators (eigvals 0) (eigvecs 0) dt) (eigvals 0) (eigvecs 0) basis t dt nOpers (nC 0)
        cOpers (some D))[h][o][g'][a][k]) 0 := by
  have h0 := hmaskU.self_of_nhds
  have hI := controlMatrixIntegral_hasDerivAt_sens kind thrF thrD thrA castReal hthrF hthrD hthrA
    omega basis hB hBc t dt nOpers nC D cOpers H h g' eigvals eigvecs hE a k o hconst hds hnc
    hsharpA hS (fun g _ => h0 g)
  have heq : (fun u : ℝ =>
        (controlMatrixFromScratch kind thrF (eigvals u) (eigvecs u)
          (dropLast (propagators (eigvals u) (eigvecs u) dt)) omega basis nOpers (nC u) dt
          (dropLast t))[a][k][o])
      =ᶠ[nhds (0 : ℝ)]
        fun u : ℝ => cmIntegral omega basis t dt nOpers (nC u) eigvals eigvecs a o k u :=
    hmaskU.mono fun u hu =>
      cm_model_eq_cmIntegral kind thrF hthrF omega basis t dt nOpers (nC u) eigvals eigvecs a k o
        u hu
  exact hI.congr_of_eventuallyEq heq

/-- **End to end for the filter function** (property C11, first half, for the models): the entry
`[a][g'][h][o]` of the model of `calculate_filter_function_derivative`, fed with the model of
`calculate_control_matrix_from_scratch` and the model of
`calculate_derivative_of_control_matrix_from_scratch` (with `n_coeffs_deriv`), is the derivative at
`u = 0` of the fidelity filter function `F_a(ω_o) = Σ_k |B_ak(ω_o)|²` of the perturbed pulse —
composition of `controlMatrixDeriv_hasDerivAt_sens` with `ff_derivative_is_derivative`. -/
theorem filterFunctionDeriv_hasDerivAt {nG d nO nA nH nK : Nat} (kind : MaskKind)
    (thrF thrD thrA : ℝ) (castReal : Bool) (hthrF : 0 ≤ thrF) (hthrD : 0 < thrD)
    (hthrA : 0 < thrA) (omega : Vec ℝ nO) (basis : Vector (Mat ℂ d d) nK)
    (hB : Spec.IsOrthoHerm (Spec.basisOf basis)) (hBc : Spec.IsComplete (Spec.basisOf basis))
    (t : Vec ℝ (nG + 1)) (dt : Vec ℝ nG) (nOpers : Vector (Mat ℂ d d) nA)
    (nC : ℝ → Mat ℝ nA nG) (D : Vector (Mat ℝ nH nG) nA)
    (cOpers : Vector (Mat ℂ d d) nH) (H : Fin nG → Matrix (Fin d) (Fin d) ℂ) (h : Fin nH)
    (g' : Fin nG) (eigvals : ℝ → Mat ℝ nG d) (eigvecs : ℝ → Vector (Mat ℂ d d) nG)
    (hE : ∀ (u : ℝ) (g : Fin nG),
      IsEigh (H g + (if g.1 = g'.1 then (u : ℂ) • cOpers[h].toMatrix else 0))
        (fun j => (eigvals u)[g.1][j]) (eigvecs u)[g.1].toMatrix)
    (a : Fin nA) (o : Fin nO)
    (hconst : ∀ (u : ℝ) (g : Fin nG), g ≠ g' → (nC u)[a][g] = (nC 0)[a][g])
    (hds : HasDerivAt (fun u : ℝ => (nC u)[a][g']) D[a][h][g'] 0)
    (hnc : (nC 0)[a][g'] ≠ 0)
    (hsharpA : AMatSharp thrA (eigvals 0)[g'] dt[g'])
    (hS : DerivIntegralSharp thrD omega[o] (eigvals 0)[g'])
    (hmaskU : ∀ᶠ u in nhds (0 : ℝ), ∀ g : Fin nG,
      FirstOrderExact kind thrF omega[o] (eigvals u)[g] dt[g]) :
    HasDerivAt (fun u : ℝ => ∑ k : Fin nK, Complex.normSq
        (controlMatrixFromScratch kind thrF (eigvals u) (eigvecs u)
          (dropLast (propagators (eigvals u) (eigvecs u) dt)) omega basis nOpers (nC u) dt
          (dropLast t))[a][k][o])
      (ffDerivative (R := ℝ)
        (controlMatrixFromScratch kind thrF (eigvals 0) (eigvecs 0)
          (dropLast (propagators (eigvals 0) (eigvecs 0) dt)) omega basis nOpers (nC 0) dt
          (dropLast t))
        (controlMatrixDerivFromScratch kind thrF thrD thrA castReal omega
          (propagators (eigvals 0) (eigvecs 0) dt) (eigvals 0) (eigvecs 0) basis t dt nOpers (nC 0)
          cOpers (some D)))[a][g'][h][o] 0 :=
  ff_derivative_is_derivative
    (fun u : ℝ => controlMatrixFromScratch kind thrF (eigvals u) (eigvecs u)
      (dropLast (propagators (eigvals u) (eigvecs u) dt)) omega basis nOpers (nC u) dt (dropLast t))
    _ 0 a g' h o
    (fun k => controlMatrixDeriv_hasDerivAt_sens kind thrF thrD thrA castReal hthrF hthrD hthrA
      omega basis hB hBc t dt nOpers nC D cOpers H h g' eigvals eigvecs hE a k o hconst hds hnc
      hsharpA hS hmaskU)

/-! ### non-vacuity: an explicit non-commuting instance of all hypotheses -/

section example_data

/-- `±1` -/
def exSgn (j : Fin 2) : ℝ := if j = 0 then 1 else -1
/-- `σ_z` -/
def exSz : Mat ℂ 2 2 := Mat.ofFn fun i j => if i = j then (exSgn i : ℂ) else 0
/-- `σ_x` -/
def exSx : Mat ℂ 2 2 := Mat.ofFn fun i j => if i = j then 0 else 1
/-- eigenvalues of the two segments `(1+u) σ_z`, `σ_z` -/
def exVals (u : ℝ) : Mat ℝ 2 2 := Mat.ofFn fun g j => (if g.1 = 0 then 1 + u else 1) * exSgn j

theorem exSz_toMatrix : exSz.toMatrix = diagonal fun i => (exSgn i : ℂ) := by
  unfold exSz
  rw [Mat.toMatrix_ofFn]
  rfl

theorem isEigh_diagonal {d : Nat} (x : Fin d → ℝ) :
    IsEigh (diagonal fun i => (x i : ℂ)) x 1 := by
  refine ⟨by rw [Matrix.mul_one, Matrix.one_mul], ?_, ?_⟩ <;> simp

theorem exFamily (u : ℝ) (g : Fin 2) :
    IsEigh (exSz.toMatrix + (if g.1 = (0 : Fin 2).1 then (u : ℂ) • (#v[exSz] : Vector _ 1)[(0 : Fin 1)].toMatrix else 0))
      (fun j => (exVals u)[g.1][j]) ((#v[Mat.one, Mat.one] : Vector (Mat ℂ 2 2) 2)[g.1]).toMatrix := by
  have hV : ((#v[Mat.one, Mat.one] : Vector (Mat ℂ 2 2) 2)[g.1]).toMatrix = 1 := by
    fin_cases g <;> exact Mat.toMatrix_one
  have hval : (fun j : Fin 2 => (exVals u)[g.1][j])
      = fun j => (if g.1 = 0 then 1 + u else 1) * exSgn j := by
    funext j
    simp only [exVals, Fin.getElem_fin, Mat.ofFn_getElem]
  have hH : exSz.toMatrix + (if g.1 = (0 : Fin 2).1 then (u : ℂ) • (#v[exSz] : Vector _ 1)[(0 : Fin 1)].toMatrix else 0)
      = diagonal fun j => (((if g.1 = 0 then 1 + u else 1) * exSgn j : ℝ) : ℂ) := by
    have h0 : (#v[exSz] : Vector (Mat ℂ 2 2) 1)[(0 : Fin 1)] = exSz := rfl
    rw [h0, exSz_toMatrix]
    by_cases hg : g.1 = 0
    · simp only [hg, Fin.val_zero, if_true]
      rw [← Matrix.diagonal_smul, Matrix.diagonal_add]
      congr 1
      funext j
      simp only [Pi.smul_apply, smul_eq_mul]
      push_cast
      ring
    · simp only [hg, Fin.val_zero, if_false, add_zero]
      congr 1
      funext j
      push_cast
      ring
  rw [hV, hval, hH]
  exact isEigh_diagonal _

theorem sharp_of {thr v : ℝ} (h : v = 0 ∨ thr ≤ v ∨ thr ≤ -v) : Sharp thr v := by
  rcases h with h | h | h
  · exact Or.inl h
  · exact Or.inr (h.trans (le_abs_self v))
  · exact Or.inr (h.trans (neg_le_abs v))

theorem exVals_get (u : ℝ) (g m : Fin 2) :
    (exVals u)[g][m] = (if g.1 = 0 then 1 + u else 1) * exSgn m := by
  simp only [exVals, Mat.ofFn_get]

theorem ex_aMatSharp : AMatSharp (1e-7 : ℝ) (exVals 0)[(0 : Fin 2)] (1 : ℝ) := by
  intro m n
  rw [exVals_get, exVals_get]
  fin_cases m <;> fin_cases n
  · right; rfl
  · left; rw [gradMask_false_iff]; norm_num [exSgn]
  · left; rw [gradMask_false_iff]; norm_num [exSgn]
  · right; rfl

theorem ex_derivIntegralSharp : DerivIntegralSharp (1e-7 : ℝ) (1 / 2 : ℝ) (exVals 0)[(0 : Fin 2)] := by
  intro p q m n
  simp only [exVals_get]
  fin_cases p <;> fin_cases q <;> fin_cases m <;> fin_cases n <;>
    refine ⟨sharp_of ?_, sharp_of ?_, sharp_of ?_⟩ <;> norm_num [exSgn]

theorem ex_firstOrderExact (u : ℝ) (hu : |u| < 1 / 2) (g : Fin 2) :
    FirstOrderExact .absTimesDtGt (1e-7 : ℝ) (1 / 2 : ℝ) (exVals u)[g] (1 : ℝ) := by
  intro m n
  rw [exVals_get, exVals_get]
  have h1 := (abs_lt.mp hu).1
  have h2 := (abs_lt.mp hu).2
  simp only [firstOrderMask, ropsLt, ropsAbs, decide_eq_true_eq, mul_one, lt_abs]
  fin_cases g <;> fin_cases m <;> fin_cases n <;> norm_num [exSgn] <;>
    first | (left; linarith) | (right; linarith)

/-- **Non-vacuity of `controlMatrixDeriv_hasDerivAt` / `controlMatrixIntegral_hasDerivAt`**: a qubit,
two segments `H_0 = H_1 = σ_z` of length `1`, the amplitude of `C = σ_z` varied in segment `0`
(explicit `eigh` data `(1+u)(1,-1)`, `V = 1`), noise operator `σ_x` (does not commute with the
control), `ω = 1/2`, the model's Pauli basis, thresholds `1e-7`: all hypotheses hold, for every
basis index `k`. -/
example (k : Fin 4) :
    HasDerivAt (fun u : ℝ =>
        (controlMatrixFromScratch .absTimesDtGt (1e-7 : ℝ) (exVals u)
          (#v[Mat.one, Mat.one] : Vector (Mat ℂ 2 2) 2)
          (dropLast (propagators (exVals u) (#v[Mat.one, Mat.one] : Vector (Mat ℂ 2 2) 2)
            (#v[1, 1] : Vec ℝ 2)))
          (#v[1 / 2] : Vec ℝ 1) (pauli1 (K := ℂ)) (#v[exSx] : Vector (Mat ℂ 2 2) 1)
          (#v[#v[1, 1]] : Mat ℝ 1 2) (#v[1, 1] : Vec ℝ 2)
          (dropLast (#v[0, 1, 2] : Vec ℝ 3)))[(0 : Fin 1)][k][(0 : Fin 1)])
      ((controlMatrixDerivFromScratch .absTimesDtGt (1e-7 : ℝ) (1e-7 : ℝ) (1e-7 : ℝ) true
        (#v[1 / 2] : Vec ℝ 1)
        (propagators (exVals 0) (#v[Mat.one, Mat.one] : Vector (Mat ℂ 2 2) 2) (#v[1, 1] : Vec ℝ 2))
        (exVals 0) (#v[Mat.one, Mat.one] : Vector (Mat ℂ 2 2) 2) (pauli1 (K := ℂ))
        (#v[0, 1, 2] : Vec ℝ 3) (#v[1, 1] : Vec ℝ 2) (#v[exSx] : Vector (Mat ℂ 2 2) 1)
        (#v[#v[1, 1]] : Mat ℝ 1 2) (#v[exSz] : Vector (Mat ℂ 2 2) 1)
        none)[(0 : Fin 1)][(0 : Fin 1)][(0 : Fin 2)][(0 : Fin 1)][k]) 0 := by
  refine controlMatrixDeriv_hasDerivAt .absTimesDtGt (1e-7 : ℝ) (1e-7 : ℝ) (1e-7 : ℝ) true
    (by norm_num) (by norm_num) (by norm_num) (#v[1 / 2] : Vec ℝ 1) (pauli1 (K := ℂ))
    C14.pauli1_orthoHerm C14.pauli1_complete (#v[0, 1, 2] : Vec ℝ 3) (#v[1, 1] : Vec ℝ 2)
    (#v[exSx] : Vector (Mat ℂ 2 2) 1) (#v[#v[1, 1]] : Mat ℝ 1 2) (#v[exSz] : Vector (Mat ℂ 2 2) 1)
    (fun _ => exSz.toMatrix) (0 : Fin 1) (0 : Fin 2) exVals
    (fun _ => (#v[Mat.one, Mat.one] : Vector (Mat ℂ 2 2) 2)) exFamily (0 : Fin 1) k (0 : Fin 1)
    ex_aMatSharp ex_derivIntegralSharp ?_
  have hball : Set.Ioo (-(1 / 2 : ℝ)) (1 / 2) ∈ nhds (0 : ℝ) := Ioo_mem_nhds (by norm_num) (by norm_num)
  filter_upwards [hball] with u hu g
  have habs : |u| < 1 / 2 := abs_lt.mpr ⟨hu.1, hu.2⟩
  have := ex_firstOrderExact u habs g
  fin_cases g <;> exact this

/-- **Non-vacuity of `controlMatrixIntegral_hasDerivAt_sens`**: the same pulse with the sensitivity
of the noise operator in segment `0` depending on the amplitude, `s(u) = 1 + 2u`
(`n_coeffs_deriv = 2`). -/
example (k : Fin 4) :
    HasDerivAt (fun u : ℝ => cmIntegral (#v[1 / 2] : Vec ℝ 1) (pauli1 (K := ℂ))
        (#v[0, 1, 2] : Vec ℝ 3) (#v[1, 1] : Vec ℝ 2) (#v[exSx] : Vector (Mat ℂ 2 2) 1)
        (Mat.ofFn fun _ g => if g = (0 : Fin 2) then 1 + 2 * u else 1 : Mat ℝ 1 2) exVals
        (fun _ => (#v[Mat.one, Mat.one] : Vector (Mat ℂ 2 2) 2)) (0 : Fin 1) (0 : Fin 1) k u)
      ((controlMatrixDerivFromScratch .absTimesDtGt (1e-7 : ℝ) (1e-7 : ℝ) (1e-7 : ℝ) true
        (#v[1 / 2] : Vec ℝ 1)
        (propagators (exVals 0) (#v[Mat.one, Mat.one] : Vector (Mat ℂ 2 2) 2) (#v[1, 1] : Vec ℝ 2))
        (exVals 0) (#v[Mat.one, Mat.one] : Vector (Mat ℂ 2 2) 2) (pauli1 (K := ℂ))
        (#v[0, 1, 2] : Vec ℝ 3) (#v[1, 1] : Vec ℝ 2) (#v[exSx] : Vector (Mat ℂ 2 2) 1)
        (Mat.ofFn fun _ g => if g = (0 : Fin 2) then 1 + 2 * (0 : ℝ) else 1 : Mat ℝ 1 2)
        (#v[exSz] : Vector (Mat ℂ 2 2) 1)
        (some (Vector.ofFn fun _ => Mat.ofFn fun _ _ => (2 : ℝ))))[(0 : Fin 1)][(0 : Fin 1)][(0 : Fin 2)][(0 : Fin 1)][k])
      0 := by
  refine controlMatrixIntegral_hasDerivAt_sens .absTimesDtGt (1e-7 : ℝ) (1e-7 : ℝ) (1e-7 : ℝ) true
    (by norm_num) (by norm_num) (by norm_num) (#v[1 / 2] : Vec ℝ 1) (pauli1 (K := ℂ))
    C14.pauli1_orthoHerm C14.pauli1_complete (#v[0, 1, 2] : Vec ℝ 3) (#v[1, 1] : Vec ℝ 2)
    (#v[exSx] : Vector (Mat ℂ 2 2) 1)
    (fun u => (Mat.ofFn fun _ g => if g = (0 : Fin 2) then 1 + 2 * u else 1 : Mat ℝ 1 2))
    (Vector.ofFn fun _ => Mat.ofFn fun _ _ => (2 : ℝ)) (#v[exSz] : Vector (Mat ℂ 2 2) 1)
    (fun _ => exSz.toMatrix) (0 : Fin 1) (0 : Fin 2) exVals
    (fun _ => (#v[Mat.one, Mat.one] : Vector (Mat ℂ 2 2) 2)) exFamily (0 : Fin 1) k (0 : Fin 1)
    ?_ ?_ ?_ ex_aMatSharp ex_derivIntegralSharp ?_
  · intro u g hg
    simp only [Mat.ofFn_get, if_neg hg]
  · have e : (fun u : ℝ => (Mat.ofFn fun _ g => if g = (0 : Fin 2) then 1 + 2 * u else 1 :
        Mat ℝ 1 2)[(0 : Fin 1)][(0 : Fin 2)]) = fun u : ℝ => 1 + 2 * u := by
      funext u
      simp only [Mat.ofFn_get, if_true]
    rw [e]
    have hd : (Vector.ofFn fun _ : Fin 1 => (Mat.ofFn fun _ _ => (2 : ℝ) : Mat ℝ 1 2))[(0 : Fin 1)][(0 : Fin 1)][(0 : Fin 2)]
        = (2 : ℝ) := by
      simp only [vget, Mat.ofFn_get]
    rw [hd]
    simpa using ((hasDerivAt_id (0 : ℝ)).const_mul (2 : ℝ)).const_add (1 : ℝ)
  · simp only [Mat.ofFn_get, if_true]
    norm_num
  · intro g _
    have := ex_firstOrderExact 0 (by norm_num) g
    fin_cases g <;> exact this

end example_data
end FFVerif.C11
