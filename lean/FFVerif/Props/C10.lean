/-
C10 — the kernel of the second-order filter function (`numeric._second_order_integral`) equals
the nested time-ordered integral it is documented to be, for every frequency and level splitting
(in exact real arithmetic), together with continuity at the resonance and the
integration-by-parts identity behind `F2 + F2† = F1`.
Property theorems only (helper lemmas live in FFVerif/Lemmas/SecondOrderAux.lean).
-/
import FFVerif.Lemmas.SecondOrderAux
import FFVerif.Model.Numeric

namespace FFVerif.C10
open FFVerif FFVerif.Model FFVerif.SecondOrderAux Complex MeasureTheory intervalIntegral Filter
open scoped Topology

/-- The documented `I_ijmn^{(g)}(ω)` in local time (`t ↦ t - t_{g-1}`; the global phases
`e^{-iω t_{g-1}}` and `e^{+iω t_{g-1}}` of the two factors cancel, see `nested_global`):
`∫₀^dt e^{i(Ω_ij - ω)t} ∫₀^t e^{i(Ω_mn + ω)s} ds dt`. -/
noncomputable def nested (E Oij Omn dt : ℝ) : ℂ :=
  ∫ t in (0:ℝ)..dt, exp (I * (Oij - E) * t) * ∫ s in (0:ℝ)..t, exp (I * (Omn + E) * s)

theorem nested_eq_nested2 (E Oij Omn dt : ℝ) :
    nested E Oij Omn dt = nested2 (Oij - E) (Omn + E) dt := by
  unfold nested nested2; push_cast; rfl

/-- The formula in the docstring of `calculate_second_order_filter_function` (global time,
segment `[t₀, t₀ + dt]`) is the local-time `nested`, for every segment start `t₀`. -/
theorem nested_global (E Oij Omn dt t0 : ℝ) :
    (∫ t in t0..(t0 + dt), exp (I * Oij * (t - t0) - I * E * t) *
        ∫ s in t0..t, exp (I * Omn * (s - t0) + I * E * s)) = nested E Oij Omn dt := by
  unfold nested
  have inner : ∀ t : ℝ, (∫ s in t0..(t + t0), exp (I * Omn * (s - t0) + I * E * s))
      = exp (I * E * t0) * ∫ s in (0:ℝ)..t, exp (I * (Omn + E) * s) := by
    intro t
    have h := intervalIntegral.integral_comp_add_right (a := 0) (b := t)
      (fun s : ℝ => exp (I * Omn * (s - t0) + I * E * s)) t0
    rw [zero_add] at h
    rw [← h, ← intervalIntegral.integral_const_mul]
    refine integral_congr fun s _ => ?_
    rw [← Complex.exp_add]; congr 1; push_cast; ring
  have outer := intervalIntegral.integral_comp_add_right (a := 0) (b := dt)
    (fun t : ℝ => exp (I * Oij * (t - t0) - I * E * t) *
        ∫ s in t0..t, exp (I * Omn * (s - t0) + I * E * s)) t0
  rw [zero_add, add_comm dt t0] at outer
  rw [← outer]
  refine integral_congr fun t _ => ?_
  rw [inner t, ← mul_assoc, ← Complex.exp_add]
  congr 2; push_cast; ring

/-- The model entry at ℝ/ℂ in mathematical notation: the three cases of the code, with
`frc c dt = (e^{i c dt} - 1)/c` for `c ≠ 0` and `i·dt` for `c = 0` (the content of `frc_buf1`,
`frc_buf2`), and the closed form that the in-place real/imag juggling leaves in `frc_buf1`. -/
theorem secondOrderEntry_unfold (E Oij Omn dt : ℝ) :
    (secondOrderEntry E Oij Omn dt : ℂ) =
      if E + Omn ≠ 0 then (frc (Oij - E) dt - frc (Oij + Omn) dt) / ((E + Omn : ℝ) : ℂ)
      else if Oij - E ≠ 0 then
        (frc (Oij - E) dt - I * (exp (I * (Oij - E : ℝ) * dt) * dt)) / ((Oij - E : ℝ) : ℂ)
      else (dt : ℂ) ^ 2 / 2 := by
  have hd : (-E) - (-Oij) = Oij - E := by ring
  have h1 : ∀ c : ℝ, exp (I * ((c * dt : ℝ) : ℂ)) = exp (I * (c : ℂ) * dt) := by
    intro c; push_cast; rw [mul_assoc]
  have h2 : ((dt * dt / 2 : ℝ) : ℂ) = (dt : ℂ) ^ 2 / 2 := by push_cast; ring
  unfold secondOrderEntry
  simp only [hd, neZero_eq_true_iff, divReal_eq, copsExpI, copsOfReal, copsI, copsRe, copsIm,
    mkC_juggle, frc, h1, h2, sub_add_cancel]

/-- **Case 1** (`ω + Ω_mn ≠ 0`; all four sub-cases `Ω_ij - ω = 0` or not, `Ω_ij + Ω_mn = 0` or
not): the entry written by `_second_order_integral` equals the nested integral. -/
theorem secondOrder_case1 (E Oij Omn dt : ℝ) (h : E + Omn ≠ 0) :
    (secondOrderEntry E Oij Omn dt : ℂ) = nested E Oij Omn dt := by
  have hb : Omn + E ≠ 0 := by rwa [add_comm]
  have hbc : ((Omn + E : ℝ) : ℂ) ≠ 0 := by exact_mod_cast hb
  rw [secondOrderEntry_unfold, if_pos h, nested_eq_nested2, nested2_of_ne _ _ _ hb, frc_eq, frc_eq]
  have e1 : Oij - E + (Omn + E) = Oij + Omn := by ring
  have e2 : E + Omn = Omn + E := add_comm _ _
  rw [e1, e2, eq_div_iff (I_mul_ne_zero hb), div_mul_eq_mul_div, div_eq_iff hbc]
  linear_combination ((Omn + E : ℝ) : ℂ) * (segI (Oij - E) dt - segI (Oij + Omn) dt) * I_sq

/-- **Case 2** (`ω + Ω_mn = 0`, `Ω_ij - ω ≠ 0`): the value left in `frc_buf1` by the in-place
sequence, `((e^{i a dt} - 1)/a - i·dt·e^{i a dt})/a` with `a = Ω_ij - ω`, equals the nested
integral. -/
theorem secondOrder_case2 (E Oij Omn dt : ℝ) (h : E + Omn = 0) (h' : Oij - E ≠ 0) :
    (secondOrderEntry E Oij Omn dt : ℂ) = nested E Oij Omn dt := by
  have hb : Omn + E = 0 := by rwa [add_comm]
  have hac : ((Oij - E : ℝ) : ℂ) ≠ 0 := by exact_mod_cast h'
  rw [secondOrderEntry_unfold, if_neg (by simpa using h), if_pos h', nested_eq_nested2, hb,
    nested2_zero_of_ne _ _ h', frc_eq, segI_closed _ _ h']
  field_simp
  linear_combination ((exp (I * ((Oij - E : ℝ) : ℂ) * dt) - 1) -
    (dt : ℂ) * ((Oij - E : ℝ) : ℂ) * I * exp (I * ((Oij - E : ℝ) : ℂ) * dt)) * I_sq

/-- **Case 3** (`ω + Ω_mn = 0`, `Ω_ij - ω = 0`): the entry is `dt²/2`, and this is the nested
integral. -/
theorem secondOrder_case3 (E Oij Omn dt : ℝ) (h : E + Omn = 0) (h' : Oij - E = 0) :
    (secondOrderEntry E Oij Omn dt : ℂ) = (dt : ℂ) ^ 2 / 2 ∧
      (dt : ℂ) ^ 2 / 2 = nested E Oij Omn dt := by
  have hb : Omn + E = 0 := by rwa [add_comm]
  refine ⟨?_, ?_⟩
  · rw [secondOrderEntry_unfold, if_neg (by simpa using h), if_neg (by simpa using h')]
  · rw [nested_eq_nested2, hb, h', nested2_zero_zero]

/-- **C10, kernel.** For ALL real `ω = E`, `Ω_ij`, `Ω_mn`, `dt` (every frequency including the
exact resonances `ω = -Ω_mn`, `ω = Ω_ij`, `Ω_ij = -Ω_mn`; any sign of `dt`; exact real
arithmetic) the entry `int_buf[o,i,j,m,n]` computed by `numeric._second_order_integral` equals
the nested time-ordered integral `I_ijmn(ω)`.  No sub-case of the code deviates. -/
theorem secondOrderEntry_eq_nested (E Oij Omn dt : ℝ) :
    (secondOrderEntry E Oij Omn dt : ℂ) = nested E Oij Omn dt := by
  by_cases h : E + Omn = 0
  · by_cases h' : Oij - E = 0
    · exact (secondOrder_case3 E Oij Omn dt h h').1.trans (secondOrder_case3 E Oij Omn dt h h').2
    · exact secondOrder_case2 E Oij Omn dt h h'
  · exact secondOrder_case1 E Oij Omn dt h

/-- The same for the whole array returned by `_second_order_integral`. -/
theorem secondOrderIntegral_eq_nested {nO d : Nat} (E : Vec ℝ nO) (ev : Vec ℝ d) (dt : ℝ)
    (o : Fin nO) (i j m n : Fin d) :
    (secondOrderIntegral E ev dt : Vector (Ten4 ℂ d d d d) nO)[o][i][j][m][n]
      = nested E[o] (ev[i] - ev[j]) (ev[m] - ev[n]) dt := by
  unfold secondOrderIntegral
  simp only [Fin.getElem_fin, Vector.getElem_ofFn]
  exact secondOrderEntry_eq_nested _ _ _ _

/-- the hypotheses of the three cases are satisfiable -/
example : (1:ℝ) + 2 ≠ 0 := by norm_num
example : (1:ℝ) + (-1) = 0 ∧ (3:ℝ) - 1 ≠ 0 := by norm_num
example : (1:ℝ) + (-1) = 0 ∧ (1:ℝ) - 1 = 0 := by norm_num

/-- **Continuity at the resonance with explicit modulus** (justification of a tolerance mask).
For all real `E`, `Ω_ij`, `Ω_mn`, `dt`: the value the code writes for the exactly resonant level
pair (`Ω_mn = -E`, i.e. case 2 if `Ω_ij ≠ E` and case 3 otherwise) differs from the value of a
detuned pair by at most `|E + Ω_mn|·|dt|³`.  In particular replacing the case-1 formula by the
case-2/3 formula whenever `|E + Ω_mn| ≤ tol` changes the exact result by at most `tol·|dt|³`. -/
theorem case1_to_case2_bound (E Oij Omn dt : ℝ) :
    ‖(secondOrderEntry E Oij Omn dt : ℂ) - secondOrderEntry E Oij (-E) dt‖
      ≤ |E + Omn| * |dt| ^ 3 := by
  rw [secondOrderEntry_eq_nested, secondOrderEntry_eq_nested, nested_eq_nested2,
    nested_eq_nested2, neg_add_cancel, add_comm E Omn]
  exact nested2_sub_resonant_le _ _ _

/-- **Limit.** As `E + Ω_mn → 0` (with `E`, `Ω_ij`, `dt` fixed; `Ω_ij - E ≠ 0` or not) the
case-1 value tends to the value written at the resonance: the entry is continuous in `Ω_mn` at
`Ω_mn = -E`. -/
theorem case1_to_case2_limit (E Oij dt : ℝ) :
    Tendsto (fun Omn : ℝ => (secondOrderEntry E Oij Omn dt : ℂ)) (𝓝[≠] (-E))
      (𝓝 (secondOrderEntry E Oij (-E) dt)) := by
  refine Tendsto.mono_left ?_ nhdsWithin_le_nhds
  rw [tendsto_iff_norm_sub_tendsto_zero]
  have hc : Continuous fun Omn : ℝ => |E + Omn| * |dt| ^ 3 := by fun_prop
  have h0 : Tendsto (fun Omn : ℝ => |E + Omn| * |dt| ^ 3) (𝓝 (-E)) (𝓝 0) := by
    have := hc.tendsto (-E)
    simpa using this
  exact squeeze_zero (fun _ => norm_nonneg _) (fun Omn => case1_to_case2_bound E Oij Omn dt) h0

/-- On the punctured neighbourhood the function in `case1_to_case2_limit` really is the case-1
closed form, and at the point (with `Ω_ij - E ≠ 0`) it is the case-2 closed form. -/
theorem case1_case2_forms (E Oij Omn dt : ℝ) (h : Oij - E ≠ 0) :
    (Omn ≠ -E → (secondOrderEntry E Oij Omn dt : ℂ)
        = (frc (Oij - E) dt - frc (Oij + Omn) dt) / ((E + Omn : ℝ) : ℂ)) ∧
    (secondOrderEntry E Oij (-E) dt : ℂ)
        = (frc (Oij - E) dt - I * (exp (I * (Oij - E : ℝ) * dt) * dt)) / ((Oij - E : ℝ) : ℂ) := by
  constructor
  · intro hne
    have : E + Omn ≠ 0 := fun h0 => hne (by linarith)
    rw [secondOrderEntry_unfold, if_pos this]
  · rw [secondOrderEntry_unfold, if_neg (by simp), if_pos h]

/-- **Integration by parts for nested integrals** (general form): for continuous `f g : ℝ → ℂ`,
`∫₀ᵀ f(t)∫₀ᵗ g(s) ds dt + ∫₀ᵀ g(t)∫₀ᵗ f(s) ds dt = (∫₀ᵀ f)(∫₀ᵀ g)`. -/
theorem nested_integral_swap (f g : ℝ → ℂ) (hf : Continuous f) (hg : Continuous g) (T : ℝ) :
    (∫ t in (0:ℝ)..T, f t * ∫ s in (0:ℝ)..t, g s) + (∫ t in (0:ℝ)..T, g t * ∫ s in (0:ℝ)..t, f s)
      = (∫ t in (0:ℝ)..T, f t) * ∫ t in (0:ℝ)..T, g t :=
  nested_swap f g hf hg T

/-- instance for the two exponentials: exchanging the roles of the two time arguments is
`(ω, Ω_ij, Ω_mn) ↦ (-ω, Ω_mn, Ω_ij)` -/
theorem nested_add_swap (E Oij Omn dt : ℝ) :
    nested E Oij Omn dt + nested (-E) Omn Oij dt = segI (Oij - E) dt * segI (Omn + E) dt := by
  rw [nested_eq_nested2, nested_eq_nested2, sub_neg_eq_add, ← sub_eq_add_neg]
  exact nested2_add_swap _ _ _

/-- complex conjugate of the kernel -/
theorem nested_conj (E Oij Omn dt : ℝ) :
    (starRingEnd ℂ) (nested E Oij Omn dt) = nested (-E) (-Oij) (-Omn) dt := by
  rw [nested_eq_nested2, nested_eq_nested2, nested2_conj]
  congr 1 <;> ring

/-- **Kernel form of `F2 + F2† = F1`.**  With `Ω_ji = -Ω_ij`, `Ω_nm = -Ω_mn`:
`I_ijmn(ω) + conj I_nmji(ω) = conj(I¹_ji(ω)) · I¹_mn(ω)` where `I¹_mn(ω) = ∫₀^dt e^{i(ω+Ω_mn)s} ds`
is the first-order segment integral (`_first_order_integral`). -/
theorem ff2_plus_adjoint (E Oij Omn dt : ℝ) :
    nested E Oij Omn dt + (starRingEnd ℂ) (nested E (-Omn) (-Oij) dt)
      = (starRingEnd ℂ) (segI (E + -Oij) dt) * segI (E + Omn) dt := by
  rw [nested_conj, neg_neg, neg_neg, nested_add_swap, segI_conj]
  congr 2 <;> ring

/-- The same identity for the values computed by the code: the second-order kernel entries of
`_second_order_integral` and the first-order entries of `_first_order_integral` (with an exact
`≠ 0` guard, i.e. without its truncation) satisfy
`int2[o,i,j,m,n] + conj int2[o,n,m,j,i] = conj(int1[o,j,i]) · int1[o,m,n]`. -/
theorem secondOrderEntry_plus_adjoint (E Oij Omn dt thr : ℝ) :
    (secondOrderEntry E Oij Omn dt : ℂ) + (starRingEnd ℂ) (secondOrderEntry E (-Omn) (-Oij) dt)
      = (starRingEnd ℂ) (firstOrderEntry .neZero thr (E + -Oij) dt)
        * firstOrderEntry .neZero thr (E + Omn) dt := by
  have h1 : ∀ x : ℝ, (firstOrderEntry .neZero thr x dt : ℂ) = segI x dt := by
    intro x
    unfold firstOrderEntry firstOrderMask
    by_cases hx : x = 0
    · subst hx; simp
    · rw [segI_closed x dt hx]; simp [hx, mul_assoc]
  rw [secondOrderEntry_eq_nested, secondOrderEntry_eq_nested, h1, h1, ff2_plus_adjoint]

end FFVerif.C10
