/-
C06 / C05 / C02 — the DEFINITION part of `remap` and `extend`: which operator is stored under which
identifier with which coefficient row, in which order, on which time grid.

Model: `FFVerif/Model/RemapDef.lean` (abstract pulses of `Model/Pulse` plus the caches `_t`, `_tau`;
`mapIdentifiers`, `remapDef`, `extendDef`; `np.argsort` = stable sort by code points, which is what
NumPy does for at most 16 strings and for pairwise distinct strings of any number).  Vocabulary
(`Lemmas/RemapDefAux.lean`): `mapFn mapping s` (the mapping as a partial function; `None` maps every
identifier to itself), `idFn mapping s` (the same, total), `TotalOn mapping ts` (no missing key),
`relabel tr f t` (operator `tr t.op`, identifier `f t.id`, the coefficient row of `t`),
`SortedBy (·.id)` (`Lemmas/PulseAux`), `TimesConsistent` (`_t` empty or what the class computes).

`tr : Nat → Nat` is what `util.tensor_transpose(·, order, …)` does to an operator; all statements
hold for every `tr` (its numerical content is `Props/C06`, `C16`).

NOT as the task text assumed: `remap` and `extend` construct the new pulse with KEYWORD arguments,
for which `PulseSequence.__init__` bypasses `_parse_args` — `_parse_Hamiltonian` does not sort or
check again.  Consequence proved below: without a mapping `remap` keeps the stored order
(`remapDef_sorted` needs the input to be sorted then).  That nothing rejected identifiers which
coincide after the mapping was a finding of this model (`remap_duplicates_not_rejected`,
`extend_duplicates_not_rejected` in the first version); the source was repaired — both functions
now check the mapped identifiers themselves — and the model and the theorems follow the repaired
source: `remap_duplicates_rejected`, `extend_duplicates_rejected`, `remapDef_ids_unique`,
`extendDef_ids_unique`.
-/
import FFVerif.Lemmas.RemapDefAux
import FFVerif.Lemmas.KronAux
import FFVerif.Props.C06
import FFVerif.Props.C17

namespace FFVerif.C06Def
open FFVerif.Model.Pulse FFVerif.Model.RemapDef

/-! ## `_map_identifiers` -/

/-- `_map_identifiers`: without a mapping the identifiers and `arange`; with a mapping the mapped
identifiers and a permutation of `0..n-1` that sorts them; `ValueError` (repair F50; `KeyError`
before) iff an identifier is not a
key.  All inputs. -/
theorem mapIdentifiers_spec (ids : List String) (mapping : Option Dict) :
    (mapping = none → mapIdentifiers ids mapping = .ok (ids, List.range ids.length)) ∧
    (∀ m, mapping = some m → (∀ s ∈ ids, (m.lookup s).isSome) →
      mapIdentifiers ids mapping = .ok (ids.map (idFn (some m)), argsortIds (ids.map (idFn (some m))))
      ∧ (argsortIds (ids.map (idFn (some m)))).Perm (List.range ids.length)
      ∧ SortedBy id (gather (ids.map (idFn (some m))) (argsortIds (ids.map (idFn (some m)))))) ∧
    (∀ m, mapping = some m → (∃ s ∈ ids, m.lookup s = none) →
      mapIdentifiers ids mapping = .error "ValueError") := by
  refine ⟨?_, ?_, ?_⟩
  · rintro rfl; rfl
  · rintro m rfl h
    refine ⟨?_, ?_, ?_⟩
    · simp only [mapIdentifiers, applyDict_of_total m ids h]
    · simpa using argsortIds_perm (ids.map (idFn (some m)))
    · have := gather_argsortIds (fun s : String => s) (ids.map (idFn (some m)))
      rw [List.map_id'] at this
      rw [this]
      exact sortBy_sorted _ _
  · rintro m rfl h
    simp only [mapIdentifiers, (applyDict_eq_none_iff m ids).mpr h]

/-! ## `remap` -/

/-- **The identifiers of a remapped pulse are pairwise distinct** (control and noise operators
separately), whenever `remap` returns. -/
theorem remapDef_ids_unique (tr : Nat → Nat) (mapping : Option Dict) (p q : TPulse)
    (h : remapDef tr mapping p = .ok q) :
    (q.data.cTerms.map (·.id)).Nodup ∧ (q.data.nTerms.map (·.id)).Nodup := by
  obtain ⟨c, n, hc, hn, rfl, huc, hun⟩ := (remapDef_eq_ok_iff tr mapping p q).mp h
  exact ⟨(remapHam_ids_perm hc).nodup_iff.mpr huc, (remapHam_ids_perm hn).nodup_iff.mpr hun⟩

/-- **The remapped pulse is STRICTLY sorted by identifier** when a mapping is given, and keeps the
order of the input when none is given (so it is sorted iff the input was: the constructor does not
sort again). -/
theorem remapDef_sorted (tr : Nat → Nat) (mapping : Option Dict) (p q : TPulse)
    (h : remapDef tr mapping p = .ok q)
    (hs : mapping.isSome ∨
      (SortedBy (·.id) p.data.cTerms ∧ SortedBy (·.id) p.data.nTerms)) :
    StrictSortedBy (·.id) q.data.cTerms ∧ StrictSortedBy (·.id) q.data.nTerms := by
  obtain ⟨huc, hun⟩ := remapDef_ids_unique tr mapping p q h
  obtain ⟨c, n, hc, hn, rfl, _, _⟩ := (remapDef_eq_ok_iff tr mapping p q).mp h
  have hc' := remapHam_canon tr mapping _ (remapHam_ok_total hc) (hs.imp id (·.1))
  have hn' := remapHam_canon tr mapping _ (remapHam_ok_total hn) (hs.imp id (·.2))
  rw [hc] at hc'
  rw [hn] at hn'
  injection hc' with hc'
  injection hn' with hn'
  subst hc' hn'
  exact ⟨strictSorted_of_sorted_nodup _ (sortBy_sorted _ _) huc,
    strictSorted_of_sorted_nodup _ (sortBy_sorted _ _) hun⟩

/-- without a mapping the stored order is kept as it is -/
theorem remapDef_none_order (tr : Nat → Nat) (p : TPulse) (hu : p.idsDup = false) :
    remapDef tr none p = .ok
      { data := { cTerms := p.data.cTerms.map (relabel tr fun s => s)
                  nTerms := p.data.nTerms.map (relabel tr fun s => s)
                  dt := p.data.dt, basis := p.data.basis }
        tCache := p.tCache, tauCache := p.tauCache } := by
  rw [remapDef_eq_ok_iff]
  exact ⟨_, _, remapHam_none tr _, remapHam_none tr _, rfl, (idsDup_iff p).mp hu⟩

/-- **Nothing is dropped, duplicated or mixed up**: the stored Hamiltonians are permutations of
the original terms with the operator transposed, the identifier mapped and the coefficient row
kept — every original (operator, coefficient row) pair occurs exactly once (`List.Perm`: equal
multiplicities), under its mapped identifier.  All inputs for which `remap` returns. -/
theorem remapDef_keeps_association (tr : Nat → Nat) (mapping : Option Dict) (p q : TPulse)
    (h : remapDef tr mapping p = .ok q) :
    q.data.cTerms.Perm (p.data.cTerms.map (relabel tr (idFn mapping))) ∧
    q.data.nTerms.Perm (p.data.nTerms.map (relabel tr (idFn mapping))) ∧
    (∀ t ∈ p.data.cTerms ++ p.data.nTerms, mapFn mapping t.id = some (idFn mapping t.id)) ∧
    q.data.basis = p.data.basis := by
  obtain ⟨c, n, hc, hn, rfl, _, _⟩ := (remapDef_eq_ok_iff tr mapping p q).mp h
  have hct := remapHam_ok_total hc
  have hnt := remapHam_ok_total hn
  refine ⟨?_, ?_, ?_, rfl⟩
  · cases mapping with
    | none => rw [remapHam_none] at hc; injection hc with hc; subst hc; exact List.Perm.refl _
    | some m =>
      rw [remapHam_some tr m _ hct] at hc; injection hc with hc; subst hc; exact sortBy_perm _ _
  · cases mapping with
    | none => rw [remapHam_none] at hn; injection hn with hn; subst hn; exact List.Perm.refl _
    | some m =>
      rw [remapHam_some tr m _ hnt] at hn; injection hn with hn; subst hn; exact sortBy_perm _ _
  · intro t ht
    rcases List.mem_append.mp ht with ht | ht
    · exact mapFn_of_isSome (hct t ht)
    · exact mapFn_of_isSome (hnt t ht)

/-- every original term is found in the result: operator transposed, mapped identifier, ITS
coefficient row (element form of `remapDef_keeps_association`) -/
theorem remapDef_term_mem (tr : Nat → Nat) (mapping : Option Dict) (p q : TPulse)
    (h : remapDef tr mapping p = .ok q) (t : Term) :
    (t ∈ p.data.cTerms → relabel tr (idFn mapping) t ∈ q.data.cTerms) ∧
    (t ∈ p.data.nTerms → relabel tr (idFn mapping) t ∈ q.data.nTerms) := by
  obtain ⟨hc, hn, _, _⟩ := remapDef_keeps_association tr mapping p q h
  exact ⟨fun ht => hc.mem_iff.mpr (List.mem_map.mpr ⟨t, ht, rfl⟩),
    fun ht => hn.mem_iff.mpr (List.mem_map.mpr ⟨t, ht, rfl⟩)⟩

/-- **Exactly these calls are rejected by the definition part of `remap`; every rejection is a
`ValueError`** (since the repair F50 also the missing key, a `KeyError` before).  Two causes, checked
in this order: FIRST a given mapping misses an identifier of the pulse (control or noise; raised by
the `_map_identifiers` calls); THEN two control identifiers, or two noise identifiers, coincide
after the mapping.  Nothing else is rejected. -/
theorem remapDef_errors_iff (tr : Nat → Nat) (mapping : Option Dict) (p : TPulse) (e : String) :
    remapDef tr mapping p = .error e ↔
      e = "ValueError" ∧
      (KeyMissing mapping p ∨
       (¬ KeyMissing mapping p ∧
        ¬ ((p.data.cTerms.map fun t => idFn mapping t.id).Nodup ∧
           (p.data.nTerms.map fun t => idFn mapping t.id).Nodup))) := by
  rw [remapDef_error_iff, keyMissing_iff, Classical.not_not]
  constructor
  · rintro (⟨rfl, h⟩ | ⟨rfl, h⟩)
    · exact ⟨rfl, Or.inl h⟩
    · exact ⟨rfl, Or.inr h⟩
  · rintro ⟨rfl, h | h⟩
    · exact Or.inl ⟨rfl, h⟩
    · exact Or.inr ⟨rfl, h⟩

/-- every rejection of `remap` (definition part) is a `ValueError` -/
theorem remapDef_error_class (tr : Nat → Nat) (mapping : Option Dict) (p : TPulse) (e : String)
    (h : remapDef tr mapping p = .error e) : e = "ValueError" :=
  ((remapDef_errors_iff tr mapping p e).mp h).1

/-- **Identifiers that coincide after the mapping are rejected** (all pulses, all mappings): two
control operators, or two noise operators, with the same mapped identifier ⇒ `ValueError`.  (No
hypothesis on missing keys any more: those are `ValueError`s as well.) -/
theorem remap_duplicates_rejected (tr : Nat → Nat) (mapping : Option Dict) (p : TPulse)
    (hd : ¬ (p.data.cTerms.map fun t => idFn mapping t.id).Nodup ∨
          ¬ (p.data.nTerms.map fun t => idFn mapping t.id).Nodup) :
    remapDef tr mapping p = .error "ValueError" := by
  rw [remapDef_errors_iff]
  refine ⟨rfl, ?_⟩
  by_cases hk : KeyMissing mapping p
  · exact Or.inl hk
  · refine Or.inr ⟨hk, ?_⟩
    rintro ⟨h1, h2⟩
    rcases hd with hd | hd
    · exact hd h1
    · exact hd h2

/-- the same for two listed operators: positions `i ≠ j` of the control (or of the noise)
Hamiltonian with equal mapped identifiers -/
theorem remap_duplicates_rejected_at (tr : Nat → Nat) (mapping : Option Dict) (p : TPulse)
    (ts : List Term)
    (hts : ts = p.data.cTerms ∨ ts = p.data.nTerms) (i j : Nat) (hij : i < j)
    (hj : j < ts.length) (heq : idFn mapping ts[i].id = idFn mapping ts[j].id) :
    remapDef tr mapping p = .error "ValueError" := by
  have hnd : ¬ (ts.map fun t => idFn mapping t.id).Nodup := by
    intro h
    have := (List.pairwise_iff_getElem.mp h) i j (by simp; omega) (by simpa using hj) hij
    simp only [List.getElem_map] at this
    exact this heq
  apply remap_duplicates_rejected tr mapping p
  rcases hts with rfl | rfl
  · exact Or.inl hnd
  · exact Or.inr hnd

/-- **The order of the items of the mapping is irrelevant** (and so are items for identifiers the
pulse does not have): two dictionaries that agree on the identifiers of the pulse give the same
result, errors included. -/
theorem remapDef_order_irrelevant (tr : Nat → Nat) (m m' : Dict) (p : TPulse)
    (h : ∀ t ∈ p.data.cTerms ++ p.data.nTerms, m.lookup t.id = m'.lookup t.id) :
    remapDef tr (some m) p = remapDef tr (some m') p := by
  have key : ∀ ts : List Term, (∀ t ∈ ts, m.lookup t.id = m'.lookup t.id) →
      remapHam tr (some m) ts = remapHam tr (some m') ts := by
    intro ts hts
    have ha := applyDict_congr m m' (ts.map (·.id)) (by
      intro s hs
      obtain ⟨t, ht, rfl⟩ := List.mem_map.mp hs
      exact hts t ht)
    simp only [remapHam, mapIdentifiers, ha]
  have key2 : ∀ ts : List Term, (∀ t ∈ ts, m.lookup t.id = m'.lookup t.id) →
      mappedIds (some m) ts = mappedIds (some m') ts := by
    intro ts hts
    have ha := applyDict_congr m m' (ts.map (·.id)) (by
      intro s hs
      obtain ⟨t, ht, rfl⟩ := List.mem_map.mp hs
      exact hts t ht)
    simp only [mappedIds, mapIdentifiers, ha]
  unfold remapDef
  rw [key _ fun t ht => h t (List.mem_append_left _ ht),
    key _ fun t ht => h t (List.mem_append_right _ ht),
    key2 _ fun t ht => h t (List.mem_append_left _ ht),
    key2 _ fun t ht => h t (List.mem_append_right _ ht)]

/-- **The order in which the operators are stored in the input is irrelevant** when a mapping is
given: pulses with the same terms in another order are remapped to the same pulse, or rejected
with the same exception.  (No side condition any more: coinciding mapped identifiers are rejected
for both.) -/
theorem remapDef_operator_order_irrelevant (tr : Nat → Nat) (m : Dict) (p p' : TPulse)
    (hc : p.data.cTerms.Perm p'.data.cTerms) (hn : p.data.nTerms.Perm p'.data.nTerms)
    (hdt : p.data.dt = p'.data.dt) (hb : p.data.basis = p'.data.basis)
    (ht : p.tCache = p'.tCache) (htau : p.tauCache = p'.tauCache) :
    remapDef tr (some m) p = remapDef tr (some m) p' := by
  have htot : ∀ ts ts' : List Term, ts.Perm ts' → (TotalOn (some m) ts ↔ TotalOn (some m) ts') :=
    fun ts ts' hp => ⟨fun h t ht => h t (hp.mem_iff.mpr ht), fun h t ht => h t (hp.mem_iff.mp ht)⟩
  have huniq : ∀ ts ts' : List Term, ts.Perm ts' →
      (MappedUnique (some m) ts ↔ MappedUnique (some m) ts') :=
    fun ts ts' hp => (hp.map _).nodup_iff
  by_cases hT : TotalOn (some m) p.data.cTerms ∧ TotalOn (some m) p.data.nTerms
  · have hT' : TotalOn (some m) p'.data.cTerms ∧ TotalOn (some m) p'.data.nTerms :=
      ⟨(htot _ _ hc).mp hT.1, (htot _ _ hn).mp hT.2⟩
    by_cases hU : MappedUnique (some m) p.data.cTerms ∧ MappedUnique (some m) p.data.nTerms
    · have hU' : MappedUnique (some m) p'.data.cTerms ∧ MappedUnique (some m) p'.data.nTerms :=
        ⟨(huniq _ _ hc).mp hU.1, (huniq _ _ hn).mp hU.2⟩
      have key : ∀ ts ts' : List Term, ts.Perm ts' → MappedUnique (some m) ts →
          sortBy (·.id) (ts.map (relabel tr (idFn (some m))))
            = sortBy (·.id) (ts'.map (relabel tr (idFn (some m)))) := by
        intro ts ts' hp hu
        apply sortBy_eq_of_perm _ (hp.map _)
        rw [List.map_map]
        exact hu
      rw [(remapDef_eq_ok_iff tr (some m) p _).mpr
          ⟨_, _, remapHam_some tr m _ hT.1, remapHam_some tr m _ hT.2, rfl, hU.1, hU.2⟩,
        (remapDef_eq_ok_iff tr (some m) p' _).mpr
          ⟨_, _, remapHam_some tr m _ hT'.1, remapHam_some tr m _ hT'.2, rfl, hU'.1, hU'.2⟩,
        key _ _ hc hU.1, key _ _ hn hU.2, hdt, hb, ht, htau]
    · have hU' : ¬ (MappedUnique (some m) p'.data.cTerms ∧ MappedUnique (some m) p'.data.nTerms) :=
        fun h => hU ⟨(huniq _ _ hc).mpr h.1, (huniq _ _ hn).mpr h.2⟩
      rw [(remapDef_error_iff tr (some m) p "ValueError").mpr (Or.inr ⟨rfl, hT, hU⟩),
        (remapDef_error_iff tr (some m) p' "ValueError").mpr (Or.inr ⟨rfl, hT', hU'⟩)]
  · have hT' : ¬ (TotalOn (some m) p'.data.cTerms ∧ TotalOn (some m) p'.data.nTerms) :=
      fun h => hT ⟨(htot _ _ hc).mpr h.1, (htot _ _ hn).mpr h.2⟩
    rw [(remapDef_error_iff tr (some m) p "ValueError").mpr (Or.inl ⟨rfl, hT⟩),
      (remapDef_error_iff tr (some m) p' "ValueError").mpr (Or.inl ⟨rfl, hT'⟩)]

/-- **Times (C02)**: `dt`, the caches `_t`, `_tau` and hence the properties `t` and `tau` of the
remapped pulse are those of the input; and if the input's time cache is empty or holds what the
class computes (`TimesConsistent`; the public setter `pulse.t = …` can break this), then entry `k`
of `t` is the sum of the first `k` durations of the NEW pulse and `tau` is their total. -/
theorem remapDef_times (tr : Nat → Nat) (mapping : Option Dict) (p q : TPulse)
    (h : remapDef tr mapping p = .ok q) :
    q.data.dt = p.data.dt ∧ q.tCache = p.tCache ∧ q.tauCache = p.tauCache ∧ q.t = p.t ∧
    q.tau = p.tau ∧
    (TimesConsistent p.tCache p.data.dt →
      (∀ k, k ≤ q.data.dt.length → q.t[k]? = some (q.data.dt.take k).sum) ∧
      q.t.length = q.data.dt.length + 1 ∧ q.tau = .ok q.data.dt.sum) := by
  obtain ⟨c, n, _, _, hq, _, _⟩ := (remapDef_eq_ok_iff tr mapping p q).mp h
  have hdt : q.data.dt = p.data.dt := by rw [hq]
  have htc : q.tCache = p.tCache := by rw [hq]
  refine ⟨hdt, htc, by rw [hq], by rw [hq]; rfl, by rw [hq]; rfl, ?_⟩
  intro hcons
  have hcons : TimesConsistent q.tCache q.data.dt := by rw [htc, hdt]; exact hcons
  have ht : ∀ P : TPulse, TimesConsistent P.tCache P.data.dt → P.t = 0 :: cumsum P.data.dt 0 := by
    intro P hP
    unfold TPulse.t
    rcases hP with hP | hP <;> rw [hP]
  have htau : ∀ P : TPulse, TimesConsistent P.tCache P.data.dt → P.tau = .ok P.data.dt.sum := by
    intro P hP
    unfold TPulse.tau
    rcases hP with hP | hP <;> rw [hP]
    simp only [getLast?_cumsum, Int.zero_add]
  refine ⟨?_, ?_, ?_⟩
  · intro k hk
    rw [ht _ hcons, cumsum_getElem? _ _ _ hk, Int.zero_add]
  · rw [ht _ hcons, List.length_cons, length_cumsum]
  · exact htau _ hcons

/-- **Identity**: the identity permutation (operators unchanged) without a mapping returns a pulse
with exactly the attributes of the input — in particular one that `PulseSequence.__eq__` (model
`pulseEq`) calls equal — for every pulse with unique identifiers (the class invariant; a pulse
with repeated identifiers is rejected, `remap_duplicates_rejected`). -/
theorem remapDef_id (p : TPulse) (hu : p.idsDup = false) :
    remapDef (fun o => o) none p = .ok p ∧
    ∀ q, remapDef (fun o => o) none p = .ok q → pulseEq q.data p.data = true := by
  have h : remapDef (fun o => o) none p = .ok p := by
    rw [remapDef_id_none, hu]
    rfl
  refine ⟨h, fun q hq => ?_⟩
  rw [h] at hq
  injection hq with hq
  subst hq
  exact (pulseEq_iff_canon _ _).mpr rfl

/-- the same with the identity given as a dictionary, for a pulse as the class stores it (sorted,
unique identifiers) -/
theorem remapDef_id_dict (m : Dict) (p : TPulse)
    (hm : ∀ t ∈ p.data.cTerms ++ p.data.nTerms, m.lookup t.id = some t.id)
    (hs : SortedBy (·.id) p.data.cTerms ∧ SortedBy (·.id) p.data.nTerms)
    (hu : p.idsDup = false) :
    remapDef (fun o => o) (some m) p = .ok p := by
  have hid : ∀ ts : List Term, (∀ t ∈ ts, m.lookup t.id = some t.id) →
      ∀ t ∈ ts, idFn (some m) t.id = t.id := by
    intro ts hts t ht
    simp only [idFn, mapFn, hts t ht, Option.getD_some]
  have key : ∀ ts : List Term, (∀ t ∈ ts, m.lookup t.id = some t.id) → SortedBy (·.id) ts →
      remapHam (fun o => o) (some m) ts = .ok ts := by
    intro ts hts hsort
    have htot : TotalOn (some m) ts := fun t ht => by
      show (m.lookup t.id).isSome
      rw [hts t ht]; rfl
    rw [remapHam_some _ m ts htot]
    have : ts.map (relabel (fun o => o) (idFn (some m))) = ts := by
      conv => rhs; rw [← List.map_id' ts]
      apply List.map_congr_left
      intro t ht
      show (⟨t.op, idFn (some m) t.id, t.coeffs⟩ : Term) = t
      rw [hid ts hts t ht]
    rw [this, sortBy_of_sorted _ hsort]
  have huq : ∀ ts : List Term, (∀ t ∈ ts, m.lookup t.id = some t.id) → (ts.map (·.id)).Nodup →
      MappedUnique (some m) ts := by
    intro ts hts hnd
    unfold MappedUnique
    rw [List.map_congr_left (hid ts hts)]
    exact hnd
  have hnd := (idsDup_iff p).mp hu
  rw [remapDef_eq_ok_iff]
  exact ⟨_, _, key _ (fun t ht => hm t (List.mem_append_left _ ht)) hs.1,
    key _ (fun t ht => hm t (List.mem_append_right _ ht)) hs.2, rfl,
    huq _ (fun t ht => hm t (List.mem_append_left _ ht)) hnd.1,
    huq _ (fun t ht => hm t (List.mem_append_right _ ht)) hnd.2⟩

/-- **Composition**: remapping with (`tr₁`, mapping `m₁`) and then with (`tr₂`, `m₂`) is remapping
once with the composed permutation `tr₂ ∘ tr₁` and the composed mapping `m₁₂`
(`m₁₂[s] = m₂[m₁[s]]`, `None` acting as the identity), for a pulse as the class stores it (sorted).
No side condition on the final identifiers any more: they are pairwise distinct because the second
`remap` did not reject them. -/
theorem remapDef_compose (tr₁ tr₂ : Nat → Nat) (m₁ m₂ m₁₂ : Option Dict) (p q r : TPulse)
    (h₁ : remapDef tr₁ m₁ p = .ok q) (h₂ : remapDef tr₂ m₂ q = .ok r)
    (hs : SortedBy (·.id) p.data.cTerms ∧ SortedBy (·.id) p.data.nTerms)
    (hcomp : ∀ t ∈ p.data.cTerms ++ p.data.nTerms,
      mapFn m₁₂ t.id = (mapFn m₁ t.id).bind (mapFn m₂)) :
    remapDef (tr₂ ∘ tr₁) m₁₂ p = .ok r := by
  obtain ⟨c, n, hc, hn, rfl, _, _⟩ := (remapDef_eq_ok_iff tr₁ m₁ p q).mp h₁
  obtain ⟨c', n', hc', hn', rfl, huc, hun⟩ := (remapDef_eq_ok_iff tr₂ m₂ _ r).mp h₂
  have hcc := fun t ht => hcomp t (List.mem_append_left _ ht)
  have hcn := fun t ht => hcomp t (List.mem_append_right _ ht)
  have hcd := compose_unique tr₁ m₁ m₂ m₁₂ _ c hc (remapHam_ok_total hc') huc hcc
  have hnd := compose_unique tr₁ m₁ m₂ m₁₂ _ n hn (remapHam_ok_total hn') hun hcn
  rw [remapDef_eq_ok_iff]
  exact ⟨c', n', remapHam_compose tr₁ tr₂ m₁ m₂ m₁₂ _ c c' hc hc' hs.1 hcc hcd,
    remapHam_compose tr₁ tr₂ m₁ m₂ m₁₂ _ n n' hn hn' hs.2 hcn hnd, rfl, hcd, hnd⟩

/-! ## the cached arrays of `remap` follow the noise operators -/

section CachedRows
open FFVerif.KronAux

/-- the model's `n_sort_idx.argsort()` is the `argsort` of `Lemmas/KronAux` (`C06.argsort_is_inverse`) -/
theorem argsortNat_eq (s : List ℕ) : argsortNat s = argsort s := rfl

/-- **Scatter with the inverse permutation is the gather**: for a permutation `s` of `0..n-1`,
`R = empty; R[s.argsort()] = rows` is `rows[s]` — every position is written exactly once, and
position `j` receives row `s[j]`. -/
theorem scatter_argsort_eq_gather {α : Type} (s : List ℕ) (n : ℕ) (hs : s.Perm (List.range n))
    (rows : List α) (hr : rows.length = n) :
    scatter (argsortNat s) rows (List.replicate n none) = (gather rows s).map some := by
  have hslen : s.length = n := by rw [hs.length_eq, List.length_range]
  have hsin : ∀ i ∈ s, i < rows.length := fun i hi => by
    have := hs.subset hi
    rw [hr]; simpa using this
  have hpos : (argsortNat s).Perm (List.range n) := by
    rw [argsortNat_eq, ← hslen]; exact argsort_perm s
  have hnd : (argsortNat s).Nodup := hpos.nodup_iff.mpr List.nodup_range
  have hplen : (argsortNat s).length = n := by rw [hpos.length_eq, List.length_range]
  apply List.ext_getElem?
  intro j
  by_cases hj : j < n
  · obtain ⟨a, hsa, haj⟩ := argsort_apply_perm s n hs j hj
    rw [← argsortNat_eq] at haj
    have han : a < n := by
      have := hs.subset (List.mem_of_getElem? hsa)
      simpa using this
    have hap : a < (argsortNat s).length := hplen ▸ han
    have hpa : (argsortNat s)[a] = j := by
      rw [List.getElem?_eq_getElem hap] at haj
      exact Option.some.inj haj
    have h1 := scatter_getElem? (argsortNat s) rows (List.replicate n none) hnd a hap (hr ▸ han)
      (by rw [hpa]; simpa using hj)
    rw [hpa] at h1
    rw [h1, gather_map_some rows s hsin, List.getElem?_map, hsa, Option.map_some,
      List.getElem?_eq_getElem (hr ▸ han)]
  · have h1 : (scatter (argsortNat s) rows (List.replicate n none)).length ≤ j := by
      rw [length_scatter, List.length_replicate]; omega
    have h2 : ((gather rows s).map some).length ≤ j := by
      rw [List.length_map, length_gather rows s hsin, hslen]; omega
    rw [List.getElem?_eq_none h1, List.getElem?_eq_none h2]

/-- **Cached filter function and control matrix of the remapped pulse sit at the positions of
THEIR noise operators.**  Let `n_sort_idx` be what `_map_identifiers` returns for the noise
identifiers (any mapping, `None` included) and let the noise operator stored at position `j` of the
new pulse be the old operator number `a = n_sort_idx[j]`.  Then
* it IS the old operator `a` (transposed, renamed, with the coefficient row of `a`);
* the gather `F[n_sort_idx[:, None], n_sort_idx[None, :]]` of the filter function has at `(j, j')`
  the old entry `(a, a')`;
* the scatter `R[n_sort_idx.argsort()[:, None], perm] = B` of the control matrix has as row `j`
  the old row `a` with its columns scattered by `perm` (the column part is
  `C06.remapPauli_pi` / `C06.remap_scatter_gather`).
All operator counts, all mappings. -/
theorem remap_cached_rows_follow_noise_order {α β : Type} (tr : Nat → Nat) (mapping : Option Dict)
    (ts q : List Term) (ids' : List String) (sIdx : List ℕ)
    (hm : mapIdentifiers (ts.map (·.id)) mapping = .ok (ids', sIdx))
    (hq : remapHam tr mapping ts = .ok q)
    (F : List (List α)) (hFl : F.length = ts.length) (hF : ∀ row ∈ F, row.length = ts.length)
    (B : List (List β)) (hB : B.length = ts.length) (colPos : List ℕ) (nK : ℕ)
    (j a : ℕ) (hja : sIdx[j]? = some a) :
    q[j]? = (ts[a]?).map (relabel tr (idFn mapping)) ∧ a < ts.length ∧
    (∀ j' a' : ℕ, sIdx[j']? = some a' →
      ((gather2 F sIdx)[j]?.bind fun row : List α => row[j']?)
        = (F[a]?.bind fun row : List α => row[a']?)) ∧
    (scatter2 (argsortNat sIdx) colPos B nK)[j]?
      = (B[a]?).map fun row => some (scatter colPos row (List.replicate nK none)) := by
  obtain ⟨hg, hperm, _⟩ := remapHam_eq_gather tr mapping ts ids' sIdx hm
  rw [hq] at hg
  injection hg with hg
  have hin : ∀ i ∈ sIdx, i < ts.length := fun i hi => by
    have := hperm.subset hi
    simpa using this
  have ha : a < ts.length := hin a (List.mem_of_getElem? hja)
  refine ⟨?_, ha, ?_, ?_⟩
  · rw [hg, gather_getElem? _ _ (by simpa using hin), hja, Option.bind_some, List.getElem?_map]
  · intro j' a' hj'
    unfold gather2
    rw [gather_getElem? _ _ (by simpa [hFl] using hin), hja, Option.bind_some, List.getElem?_map]
    cases hFa : F[a]? with
    | none => rfl
    | some row =>
      have hrow : ∀ i ∈ sIdx, i < row.length := by
        rw [hF row (List.mem_of_getElem? hFa)]; exact hin
      simp only [Option.map_some, Option.bind_some]
      rw [gather_getElem? _ _ hrow, hj', Option.bind_some]
  · unfold scatter2
    rw [scatter_argsort_eq_gather sIdx B.length (hB ▸ hperm) _ (by simp),
      gather_map_some _ _ (by simpa [hB] using hin), List.getElem?_map, hja, Option.map_some,
      List.getElem?_map, List.getElem?_eq_getElem (show a < B.length by omega)]
    rfl

/-- the same for a permutation `s` of `Fin n` (tie with `C06.remap_scatter_gather`, whose
hypothesis `B' (s.symm a) (π k) = B a k` this discharges for the rows: the scatter of the model
puts row `s j` of the old array at position `j`, `B' j = B (s j)`) -/
theorem scatter_rows_perm {α : Type} {n : ℕ} (s : Equiv.Perm (Fin n)) (B : Fin n → α) :
    scatter (argsortNat (List.ofFn fun j => (s j).1)) (List.ofFn B) (List.replicate n none)
      = List.ofFn fun j => some (B (s j)) := by
  have hs : (List.ofFn fun j => (s j).1).Perm (List.range n) := by
    have h1 : (List.ofFn fun j => (s j).1) = (List.ofFn s).map Fin.val := by
      rw [List.map_ofFn]; rfl
    rw [h1, ← List.map_coe_finRange_eq_range]
    refine List.Perm.map _ ?_
    rw [List.perm_ext_iff_of_nodup ((List.nodup_ofFn).mpr s.injective) (List.nodup_finRange n)]
    intro a
    simp only [List.mem_ofFn, List.mem_finRange, iff_true]
    exact ⟨s.symm a, by simp⟩
  rw [scatter_argsort_eq_gather _ n hs _ (by simp)]
  rw [gather_map_some _ _ (by
    intro i hi
    have := hs.subset hi
    simpa using this)]
  apply List.ext_getElem?
  intro j
  simp only [List.getElem?_map, List.getElem?_ofFn]
  by_cases hj : j < n
  · simp [hj]
  · simp [hj]

/-- the hypotheses of `remap_cached_rows_follow_noise_order` are satisfiable, and the conclusion in
numbers: renaming `a, b, c ↦ z, x, y` gives `n_sort_idx = [1, 2, 0]`; the new noise operators are the
old numbers 1, 2, 0, and so are the rows of the scattered control matrix (columns swapped) and the
rows / columns of the gathered filter function -/
example :
    let ts : List Term := [⟨1, "a", [1]⟩, ⟨2, "b", [2]⟩, ⟨3, "c", [3]⟩]
    let m : Dict := [("a", "z"), ("b", "x"), ("c", "y")]
    mapIdentifiers (ts.map (·.id)) (some m) = .ok (["z", "x", "y"], [1, 2, 0]) ∧
    remapHam (fun o => o) (some m) ts = .ok [⟨2, "x", [2]⟩, ⟨3, "y", [3]⟩, ⟨1, "z", [1]⟩] ∧
    scatter2 (argsortNat [1, 2, 0]) [1, 0] [[10, 11], [20, 21], [30, 31]] 2
      = [some [some 21, some 20], some [some 31, some 30], some [some 11, some 10]] ∧
    gather2 [[0, 1, 2], [10, 11, 12], [20, 21, 22]] [1, 2, 0]
      = [[11, 12, 10], [21, 22, 20], [1, 2, 0]] := by
  refine ⟨by decide, by decide, ?_, by decide⟩
  simp [argsortNat, List.zipIdx, List.mergeSort, List.MergeSort.Internal.splitInTwo, scatter2,
    scatter]

end CachedRows

/-! ## `extend` -/

section Extend
variable {entries : List Entry} {Ng : Option Nat} {add : Option Additional} {q : XPulse}

/-- **The identifiers of the extended pulse are pairwise distinct** (control operators; noise
operators including the additional ones), whenever `extend` builds a new pulse. -/
theorem extendDef_ids_unique (h : extendDef entries Ng add = .ok q) (hns : q.shortcut = false) :
    (q.cTerms.map (·.id)).Nodup ∧ (q.nTerms.map (·.id)).Nodup := by
  have hn := noise_ids_nodup h hns
  obtain ⟨_, _, rfl, hdc, _, _⟩ := extendDef_built h hns
  exact ⟨((sortBy_perm (fun x : XTerm => x.id) _).map (fun x : XTerm => x.id)).nodup_iff.mpr hdc,
    ((sortBy_perm (fun x : XTerm => x.id) _).map (fun x : XTerm => x.id)).nodup_iff.mpr hn⟩

/-- **The extended pulse is STRICTLY sorted by identifier** (control and noise operators, the
additional ones included), for every number of pulses and operators. -/
theorem extendDef_sorted (h : extendDef entries Ng add = .ok q) (hns : q.shortcut = false) :
    StrictSortedBy (·.id) q.cTerms ∧ StrictSortedBy (·.id) q.nTerms := by
  obtain ⟨huc, hun⟩ := extendDef_ids_unique h hns
  obtain ⟨_, _, rfl, _⟩ := extendDef_built h hns
  exact ⟨strictSorted_of_sorted_nodup _ (sortBy_sorted _ _) huc,
    strictSorted_of_sorted_nodup _ (sortBy_sorted _ _) hun⟩

/-- **Nothing is dropped, duplicated or mixed up**: the control terms of the extended pulse are a
permutation of the terms of all mapped pulses (each with its operator token — entry number,
original operator, `remap` order, ascending qubits —, its new identifier and ITS coefficient row),
the noise terms a permutation of those plus the parsed additional noise Hamiltonian. -/
theorem extendDef_keeps_association (h : extendDef entries Ng add = .ok q)
    (hns : q.shortcut = false) :
    q.cTerms.Perm (collectedC (placedList entries)) ∧
    q.nTerms.Perm (collectedN (placedList entries) ++ additionalTerms add) := by
  obtain ⟨_, _, rfl, _⟩ := extendDef_built h hns
  refine ⟨(sortBy_perm _ _).trans ?_, (sortBy_perm _ _).trans ?_⟩
  · exact List.Perm.flatMap_right _ (ordered_perm entries)
  · exact List.Perm.append_right _ (List.Perm.flatMap_right _ (ordered_perm entries))

/-- element form: term `t` of the pulse of entry number `k` is found in the result with the token
of ITS entry and operator, its new identifier and its own coefficient row -/
theorem extendDef_term_mem (h : extendDef entries Ng add = .ok q) (hns : q.shortcut = false)
    (k : Nat) (hk : k < entries.length) (t : Term) :
    (t ∈ entries[k].pulse.data.cTerms →
      (⟨XOp.mapped k t.op (placedOf k entries[k]).order (placedOf k entries[k]).qubits,
        newId (placedOf k entries[k]) (entries[k].pulse.data.cTerms.map (·.id)) t.id,
        t.coeffs⟩ : XTerm) ∈ q.cTerms) ∧
    (t ∈ entries[k].pulse.data.nTerms →
      (⟨XOp.mapped k t.op (placedOf k entries[k]).order (placedOf k entries[k]).qubits,
        newId (placedOf k entries[k]) (entries[k].pulse.data.nTerms.map (·.id)) t.id,
        t.coeffs⟩ : XTerm) ∈ q.nTerms) := by
  obtain ⟨hc, hn⟩ := extendDef_keeps_association h hns
  have hpl : placedOf k entries[k] ∈ placedList entries := mem_placedList.mpr ⟨k, hk, rfl⟩
  constructor
  · intro ht
    refine hc.mem_iff.mpr (List.mem_flatMap.mpr ⟨_, hpl, List.mem_map.mpr ⟨t, ?_, ?_⟩⟩)
    · simpa using ht
    · simp [xterm]
  · intro ht
    refine hn.mem_iff.mpr (List.mem_append_left _
      (List.mem_flatMap.mpr ⟨_, hpl, List.mem_map.mpr ⟨t, ?_, ?_⟩⟩))
    · simpa using ht
    · simp [xterm]

/-- **Where the tensor factors go**: for a multi-qubit entry the token's qubits are the given
qubits in ascending order; when `remap` was called with `order`, place `j` of the remapped
operator holds the factor that was given for qubit `qubits[order[j]]`, and that IS the `j`-th
smallest qubit — every factor ends on the qubit it was given for.  (`order` is the argsort of the
qubit tuple; a rank vector instead would break this for cyclic orders, cf. the seeded change
`S-C05-1`.)  Without `remap` the given tuple was ascending already. -/
theorem extendDef_operator_placement (k : Nat) (e : Entry) (hm : e.isSingle = false) :
    (placedOf k e).qubits.Pairwise (· ≤ ·) ∧ (placedOf k e).qubits.Perm e.qubits ∧
    (∀ o, (placedOf k e).order = some o → o.Perm (List.range e.qubits.length) ∧
      ∀ j : Nat, (placedOf k e).qubits[j]? = (o[j]?).bind fun i : Nat => e.qubits[i]?) ∧
    ((placedOf k e).order = none → (placedOf k e).qubits = e.qubits) := by
  obtain ⟨h1, h2, h3, h4⟩ := sortedQubits_spec e.qubits
  unfold placedOf
  simp only [hm, Bool.false_eq_true, if_false]
  refine ⟨h1, h2, ?_, ?_⟩
  · intro o ho
    by_cases hr : e.needsRemap = true
    · simp only [hr, if_true, Option.some.injEq] at ho
      subst ho
      exact ⟨h3, h4⟩
    · simp [hr] at ho
  · intro ho
    by_cases hr : e.needsRemap = true
    · simp [hr] at ho
    · unfold Entry.needsRemap at hr
      simp only [Bool.not_eq_true', Bool.not_eq_false, Bool.and_eq_true, beq_iff_eq] at hr
      exact hr.2.symm

/-- single-qubit entries: no `remap`, the token carries the qubit as given -/
theorem extendDef_single_placement (k : Nat) (e : Entry) (hs : e.isSingle = true) :
    (placedOf k e).qubits = e.qubits ∧ (placedOf k e).order = none := by
  unfold placedOf
  simp [hs]

/-- the default identifiers: `identifier_qubits` with the qubits in ASCENDING order for a
multi-qubit pulse (whatever order they were given in) -/
theorem extendDef_default_identifier (k : Nat) (e : Entry) (hm : e.mapping = none)
    (ids : List String) (s : String) (hs : s ∈ ids) :
    newId (placedOf k e) ids s = s ++ "_" ++ String.join ((placedOf k e).qubits.map toString) :=
  newId_default _ ids s (by simpa using hm) hs

/-- a given mapping is applied as it is -/
theorem extendDef_given_identifier (k : Nat) (e : Entry) (m : Dict) (hm : e.mapping = some m)
    (ids : List String) (s v : String) (hv : m.lookup s = some v) :
    newId (placedOf k e) ids s = v :=
  newId_given _ ids s v m (by simpa using hm) hv

/-- **Times (C02)**: all mapped pulses have the durations of the result (the `ValueError` check
for equal time steps); the caches `_t`, `_tau` are those of `pulses[0]` (`firstPulse`); and if the
time caches of the inputs are empty or hold what the class computes, entry `k` of `t` is the sum of
the first `k` durations of the new pulse and `tau` their total. -/
theorem extendDef_times (h : extendDef entries Ng add = .ok q) (hns : q.shortcut = false) :
    (∀ e ∈ entries, e.pulse.data.dt = q.dt) ∧
    (∃ p, firstPulse entries = some p ∧ (∃ e ∈ entries, e.pulse = p) ∧
      q.tCache = p.tCache ∧ q.tauCache = p.tauCache ∧ q.dt = p.data.dt) ∧
    ((∀ e ∈ entries, TimesConsistent e.pulse.tCache e.pulse.data.dt) →
      (∀ k, k ≤ q.dt.length → q.t[k]? = some (q.dt.take k).sum) ∧
      q.t.length = q.dt.length + 1 ∧ q.tau = .ok q.dt.sum) := by
  obtain ⟨_, hfr, hq, _⟩ := extendDef_built h hns
  -- the first pulse
  have hfirst : (ordered entries).head?.map (·.pulse) = firstPulse entries := by
    rw [← List.head?_map, ordered_pulses, List.head?_map]; rfl
  have hdt : dtAllEq (ordered entries) = true := by
    unfold frontRejected at hfr
    simp only [Bool.or_eq_false_iff, Bool.not_eq_false'] at hfr
    exact hfr.1.1.2
  cases hord : ordered entries with
  | nil =>
    rw [hord] at hdt
    cases hdt
  | cons pl₀ rest =>
    have hpl₀ : pl₀ ∈ placedList entries := mem_ordered.mp (hord ▸ List.mem_cons_self ..)
    obtain ⟨k₀, hk₀, hpl₀e⟩ := mem_placedList.mp hpl₀
    have hfp : firstPulse entries = some pl₀.pulse := by rw [← hfirst, hord]; rfl
    have hqdt : q.dt = pl₀.pulse.data.dt := by rw [hq]; simp [builtPulse, hord]
    have hqt : q.tCache = pl₀.pulse.tCache := by rw [hq]; simp [builtPulse, hord]
    have hqtau : q.tauCache = pl₀.pulse.tauCache := by rw [hq]; simp [builtPulse, hord]
    have hall : ∀ e ∈ entries, e.pulse.data.dt = q.dt := by
      intro e he
      obtain ⟨k, hk, rfl⟩ := List.getElem_of_mem he
      have hm : placedOf k entries[k] ∈ ordered entries :=
        mem_ordered.mpr (mem_placedList.mpr ⟨k, hk, rfl⟩)
      rw [hord] at hm hdt
      rw [hqdt]
      rcases List.mem_cons.mp hm with hm | hm
      · rw [← hm]; simp
      · have := List.all_eq_true.mp hdt _ hm
        simpa using this
    refine ⟨hall, ⟨pl₀.pulse, hfp, ⟨entries[k₀], List.getElem_mem hk₀, by rw [hpl₀e]; simp⟩,
      hqt, hqtau, hqdt⟩, ?_⟩
    intro hcons
    have hc₀ : TimesConsistent q.tCache q.dt := by
      have := hcons entries[k₀] (List.getElem_mem hk₀)
      rw [hqt, hqdt, hpl₀e]
      simpa using this
    have ht : q.t = 0 :: cumsum q.dt 0 := by
      unfold XPulse.t
      rcases hc₀ with hP | hP <;> rw [hP]
    have htau : q.tau = .ok q.dt.sum := by
      unfold XPulse.tau
      rcases hc₀ with hP | hP <;> rw [hP]
      simp only [getLast?_cumsum, Int.zero_add]
    refine ⟨?_, ?_, htau⟩
    · intro k hk
      rw [ht, cumsum_getElem? _ _ _ hk, Int.zero_add]
    · rw [ht, List.length_cons, length_cumsum]

/-- **The additional noise operators are looked up BY IDENTIFIER**: item `i` of
`additional_noise_Hamiltonian` — operator, coefficient row, identifier (the given one, or the default
`B_i`) — is in the new pulse as one term; and it is the ONLY noise term with that identifier, so
whatever position the sort gives it, the identifier leads to its own operator and its own
coefficients. -/
theorem extendDef_additional_by_identifier (h : extendDef entries Ng add = .ok q)
    (hns : q.shortcut = false) (H : Additional) (hadd : add = some H)
    (i : Nat) (hi : i < H.terms.length) :
    let term : XTerm := ⟨XOp.additional H.terms[i].1, idFor "B" i H.terms[i].2.1, H.terms[i].2.2⟩
    term ∈ q.nTerms ∧ ∀ x ∈ q.nTerms, x.id = term.id → x = term := by
  intro term
  obtain ⟨_, _, hq, _, _, hrej⟩ := extendDef_built h hns
  have hrej' := hrej H hadd
  clear hrej
  subst hadd
  unfold addRejected at hrej'
  simp only [Bool.or_eq_false_iff] at hrej'
  obtain ⟨⟨⟨hr1, _⟩, _⟩, hr4⟩ := hrej'
  have hmemP : (⟨H.terms[i].1, idFor "B" i H.terms[i].2.1, H.terms[i].2.2⟩ : Term)
      ∈ parseHamiltonian H.terms "B" := ((C17.parse_keeps_association H.terms "B").2.2 i hi).2
  have hmem : term ∈ addTerms (parseHamiltonian H.terms "B") :=
    List.mem_map.mpr ⟨_, hmemP, rfl⟩
  have hqn : q.nTerms = sortBy (·.id)
      (collectedN (ordered entries) ++ addTerms (parseHamiltonian H.terms "B")) := by
    rw [hq]; rfl
  refine ⟨?_, ?_⟩
  · rw [hqn]
    exact (mem_sortBy _).mpr (List.mem_append_right _ hmem)
  · intro x hx hxid
    rw [hqn] at hx
    rcases List.mem_append.mp ((mem_sortBy _).mp hx) with hx | hx
    · -- a mapped noise operator with the identifier of an additional one: rejected
      exfalso
      have : (parseHamiltonian H.terms "B").any
          (fun t => ((collectedN (ordered entries)).map (·.id)).contains t.id) = true := by
        rw [List.any_eq_true]
        refine ⟨_, hmemP, ?_⟩
        simp only [List.contains_eq_mem, List.mem_map, decide_eq_true_eq]
        exact ⟨x, hx, hxid⟩
      rw [this] at hr4
      cases hr4
    · obtain ⟨t', ht', rfl⟩ := List.mem_map.mp hx
      have hnd := additional_ids_nodup H.terms hr1
      have : t' = ⟨H.terms[i].1, idFor "B" i H.terms[i].2.1, H.terms[i].2.2⟩ :=
        inj_of_nodup_map hnd ht' hmemP hxid
      rw [this]

/-- **The order of the items of `additional_noise_Hamiltonian` is irrelevant** when they carry
explicit identifiers: the result (or the rejection) is the same. -/
theorem extendDef_additional_order_irrelevant (entries : List Entry) (Ng : Option Nat)
    (t₁ t₂ : List (Nat × Option String × List Int)) (d : Bool)
    (hperm : t₁.Perm t₂) (hsome : ∀ t ∈ t₁, t.2.1.isSome) :
    extendDef entries Ng (some ⟨t₁, d⟩) = extendDef entries Ng (some ⟨t₂, d⟩) := by
  have hsome₂ : ∀ t ∈ t₂, t.2.1.isSome := fun t ht => hsome t (hperm.mem_iff.mpr ht)
  have hf₁ := fillIdentifiers_all_some t₁ "B" hsome
  have hf₂ := fillIdentifiers_all_some t₂ "B" hsome₂
  have hfp : (fillIdentifiers t₁ "B").Perm (fillIdentifiers t₂ "B") := by
    rw [hf₁, hf₂]; exact hperm.map _
  have key : ∀ ns nDt, addAdditional ns nDt (some ⟨t₁, d⟩) = addAdditional ns nDt (some ⟨t₂, d⟩) := by
    intro ns nDt
    rw [addAdditional_some, addAdditional_some]
    unfold addRejected
    simp only
    have h1 : t₁.all (fun t => t.2.1.isNone) = t₂.all (fun t => t.2.1.isNone) := hperm.all_eq
    have h2 : hasDup ((fillIdentifiers t₁ "B").map (·.id))
        = hasDup ((fillIdentifiers t₂ "B").map (·.id)) := by
      rw [Bool.eq_iff_iff, hasDup_iff, hasDup_iff, (hfp.map _).nodup_iff]
    have h3 : (fillIdentifiers t₁ "B").all (fun t => t.coeffs.length == nDt)
        = (fillIdentifiers t₂ "B").all (fun t => t.coeffs.length == nDt) := hfp.all_eq
    by_cases hnd : ((fillIdentifiers t₁ "B").map (·.id)).Nodup
    · have hp : parseHamiltonian t₁ "B" = parseHamiltonian t₂ "B" := by
        unfold parseHamiltonian
        exact sortBy_eq_of_perm _ hfp hnd
      rw [h1, h2, h3, hp]
    · have hd₁ := (hasDup_iff _).mpr hnd
      have hd₂ := h2 ▸ hd₁
      cases t₁ with
      | nil =>
        have := hperm.symm.eq_nil
        subst this
        rfl
      | cons a as =>
        have ha₁ : (a :: as).all (fun t => t.2.1.isNone) = false := by
          have := hsome a (List.mem_cons_self ..)
          simp only [List.all_cons, Bool.and_eq_false_imp]
          intro hh
          rw [Option.isNone_iff_eq_none] at hh
          rw [hh] at this
          cases this
        have ha₂ := h1 ▸ ha₁
        rw [ha₁, hd₁, ha₂, hd₂]
        simp
  unfold extendDef
  simp only [key]

/-! ### the rejections of the definition part -/

/-- **Exactly these inputs are rejected by the definition part of `extend`; every rejection is a
`ValueError`** (caching options at their defaults; since the repair F50 also the missing key of an
identifier mapping, a `KeyError` before).  The causes, in the order in which the source checks them:
1. `FrontReject` (no entry, empty qubit tuple, wrong dimension, a pulse sent through `remap` with
   repeated identifiers, different time steps, qubit clash, `N` too small);
2. — nothing at all when the shortcut is taken (a single pulse on a register of its own size is
   returned as it is: a faulty mapping or additional noise Hamiltonian goes unnoticed) —
3. `MappingMisses`: a given identifier mapping misses an identifier of its pulse (raised by
   `_map_identifiers` inside the two loops);
4. `DuplicateIds`: two control operators, or two noise operators, of the mapped pulses get the same
   identifier (check after the loops);
5. `AdditionalReject` (the additional noise Hamiltonian; 4 and 5 are both after 3).
Nothing else is rejected. -/
theorem extendDef_errors_iff (entries : List Entry) (Ng : Option Nat) (add : Option Additional)
    (err : String) :
    extendDef entries Ng add = .error err ↔
      err = "ValueError" ∧
      (FrontReject entries Ng ∨
       (¬ FrontReject entries Ng ∧ ¬ ShortcutTaken entries (extendN entries Ng) ∧
         (MappingMisses entries ∨
          (¬ MappingMisses entries ∧ (DuplicateIds entries ∨ AdditionalReject entries add))))) := by
  rw [extendDef_error_cases]
  constructor
  · rintro (⟨rfl, h⟩ | ⟨h1, h2, ⟨rfl, h⟩ | ⟨rfl, h⟩⟩)
    · exact ⟨rfl, Or.inl h⟩
    · exact ⟨rfl, Or.inr ⟨h1, h2, Or.inl h⟩⟩
    · exact ⟨rfl, Or.inr ⟨h1, h2, Or.inr h⟩⟩
  · rintro ⟨rfl, h | ⟨h1, h2, h | h⟩⟩
    · exact Or.inl ⟨rfl, h⟩
    · exact Or.inr ⟨h1, h2, Or.inl ⟨rfl, h⟩⟩
    · exact Or.inr ⟨h1, h2, Or.inr ⟨rfl, h⟩⟩

/-- every rejection of `extend` (definition part) is a `ValueError` -/
theorem extendDef_error_class (entries : List Entry) (Ng : Option Nat) (add : Option Additional)
    (err : String) (h : extendDef entries Ng add = .error err) : err = "ValueError" :=
  ((extendDef_errors_iff entries Ng add err).mp h).1

/-- **Identifiers that coincide after the mapping are rejected by `extend`** (all inputs): if two
control operators, or two noise operators, of the mapped pulses get the same identifier — by given
mappings or by the default suffixes — the call raises `ValueError`, unless the shortcut returns the
input unchanged.  (No hypothesis on missing keys any more: those are `ValueError`s as well.) -/
theorem extend_duplicates_rejected (entries : List Entry) (Ng : Option Nat)
    (add : Option Additional) (hd : DuplicateIds entries)
    (hs : ¬ ShortcutTaken entries (extendN entries Ng)) :
    extendDef entries Ng add = .error "ValueError" := by
  rw [extendDef_errors_iff]
  refine ⟨rfl, ?_⟩
  by_cases hf : FrontReject entries Ng
  · exact Or.inl hf
  · by_cases hm : MappingMisses entries
    · exact Or.inr ⟨hf, hs, Or.inl hm⟩
    · exact Or.inr ⟨hf, hs, Or.inr ⟨hm, Or.inl hd⟩⟩

/-- without a front rejection the number of segments used for the additional noise Hamiltonian is
that of every mapped pulse -/
theorem nDtOf_eq (entries : List Entry) (Ng : Option Nat) (h : ¬ FrontReject entries Ng) :
    ∀ e ∈ entries, nDtOf entries = e.pulse.data.dt.length := by
  have hne : entries ≠ [] := fun hh => h (Or.inl hh)
  have hfb : (entries.isEmpty || entries.any (·.loopFails) || frontRejected entries Ng) = false := by
    cases hh : (entries.isEmpty || entries.any (·.loopFails) || frontRejected entries Ng) with
    | false => rfl
    | true => exact absurd ((front_iff entries Ng).mp hh) h
  simp only [Bool.or_eq_false_iff] at hfb
  have hdt : dtAllEq (ordered entries) = true := by
    have := hfb.2
    unfold frontRejected at this
    simp only [Bool.or_eq_false_iff, Bool.not_eq_false'] at this
    exact this.1.1.2
  have hall := (dtAllEq_iff entries hne).mp hdt
  intro e he
  unfold nDtOf
  cases hord : ordered entries with
  | nil => rw [hord] at hdt; cases hdt
  | cons pl₀ rest =>
    have hpl₀ : pl₀ ∈ placedList entries := mem_ordered.mp (hord ▸ List.mem_cons_self ..)
    obtain ⟨k₀, hk₀, hpl₀e⟩ := mem_placedList.mp hpl₀
    simp only [List.head?_cons, Option.map_some, Option.getD_some, hpl₀e, placedOf_pulse]
    rw [hall _ (List.getElem_mem hk₀) e he]

/-- **The shortcut** (l. 2336–2347): a single pulse mapped onto a register of exactly its own size
is returned as it is (after `remap` if its qubits were not given ascending as a tuple) — the
identifiers are NOT suffixed, a given identifier mapping is ignored and so is an additional noise
Hamiltonian (part of the open finding F33). -/
theorem extendDef_shortcut (h : extendDef entries Ng add = .ok q) (hs : q.shortcut = true) :
    ∃ e, entries = [e] ∧ ShortcutTaken entries q.N ∧
      q.cTerms = e.pulse.data.cTerms.map (fun t =>
        ⟨XOp.mapped 0 t.op (placedOf 0 e).order (placedOf 0 e).qubits, t.id, t.coeffs⟩) ∧
      q.nTerms = e.pulse.data.nTerms.map (fun t =>
        ⟨XOp.mapped 0 t.op (placedOf 0 e).order (placedOf 0 e).qubits, t.id, t.coeffs⟩) ∧
      q.dt = e.pulse.data.dt ∧ q.tCache = e.pulse.tCache ∧ q.tauCache = e.pulse.tauCache := by
  obtain ⟨_, _, N, _, hcase⟩ := extendDef_ok h
  rcases hcase with ⟨pl, hsc, rfl⟩ | ⟨_, _, _, _, ns', _, rfl⟩
  · have hST := (shortcutOf_iff entries N).mp (by rw [hsc]; rfl)
    obtain ⟨e, rfl, hN⟩ := hST
    refine ⟨e, rfl, ⟨e, rfl, hN⟩, ?_⟩
    have hpl : pl = placedOf 0 e := by
      simp only [placedList, List.zipIdx_cons, List.zipIdx_nil, List.map_cons, List.map_nil,
        shortcutOf] at hsc
      split at hsc <;> split at hsc <;> simp_all
    subst hpl
    simp [shortcutResult]
  · cases hs

end Extend

/-! ### non-vacuity and deviations (remap) -/

/-- the docstring example of `remap`: identifiers swapped, operators re-sorted with their rows -/
example :
    remapDef (fun o => o + 10) (some [("XY", "YX"), ("YX", "XY")])
      { data := ⟨[⟨1, "XY", [3]⟩], [⟨2, "YX", [1]⟩], [1], 0⟩ }
    = .ok { data := ⟨[⟨11, "YX", [3]⟩], [⟨12, "XY", [1]⟩], [1], 0⟩ } := by decide

/-- the hypotheses of `remapDef_compose` are satisfiable: a cyclic renaming applied twice -/
example :
    let p : TPulse := { data := ⟨[⟨1, "a", [1]⟩, ⟨2, "b", [2]⟩, ⟨3, "c", [3]⟩], [⟨4, "n", [4]⟩], [1], 0⟩ }
    let m : Dict := [("a", "b"), ("b", "c"), ("c", "a"), ("n", "n")]
    (remapDef (· + 10) (some m) p).bind (remapDef (· + 100) (some m))
        = remapDef ((· + 100) ∘ (· + 10)) (some (composeDict m m)) p ∧
      (remapDef ((· + 100) ∘ (· + 10)) (some (composeDict m m)) p).toBool = true := by
  decide

/-- the finding that led to the repair, now rejected: a mapping that sends two identifiers to the
same name (real package before the repair: `remap(p, (0,), oper_identifier_mapping={'X': 'Q',
'Y': 'Q', 'Z': 'Q'})` returned a pulse with `c_oper_identifiers == ['Q', 'Q']`); an instance of
`remap_duplicates_rejected`; the second call misses a key (`ValueError` as well since F50) -/
example :
    remapDef (fun o => o) (some [("X", "Q"), ("Y", "Q"), ("Z", "Q")])
      { data := ⟨[⟨1, "X", [1, 2]⟩, ⟨2, "Y", [3, 4]⟩], [⟨3, "Z", [1, 1]⟩], [1, 2], 0⟩ }
      = .error "ValueError" ∧
    remapDef (fun o => o) (some [("X", "Q"), ("Y", "Q")])
      { data := ⟨[⟨1, "X", [1, 2]⟩, ⟨2, "Y", [3, 4]⟩], [⟨3, "Z", [1, 1]⟩], [1, 2], 0⟩ }
      = .error "ValueError" := by decide

/-- the public setter `pulse.t = …` is copied as it is: `t`, `tau` of the remapped pulse then are
NOT the cumulative sums (hypothesis `TimesConsistent` of `remapDef_times` is needed) -/
example :
    (remapDef (fun o => o) none
      { data := ⟨[⟨1, "X", [1, 2]⟩], [⟨3, "Z", [1, 1]⟩], [1, 2], 0⟩, tCache := some [5, 6, 7] }).map
      (fun q => (q.t, q.tau)) = .ok ([5, 6, 7], .ok 7) := by decide

/-! ### non-vacuity and deviations (extend) -/

section ExtendExamples

/-- `X_pulse`, `Y_pulse` of the docstring of `extend` (operators 1 = X, 2 = Y, 3 = Z) -/
def xPulse : TPulse := { data := ⟨[⟨1, "X", [1]⟩], [⟨1, "X", [1]⟩, ⟨3, "Z", [1]⟩], [1], 0⟩ }
def yPulse : TPulse := { data := ⟨[⟨2, "Y", [1]⟩], [⟨2, "Y", [1]⟩, ⟨3, "Z", [1]⟩], [1], 0⟩ }

/-- docstring example `YX_pulse`: `c_oper_identifiers == ['IX', 'YI']`,
`n_oper_identifiers == ['IX', 'IZ', 'YI', 'ZI']` -/
example :
    (extendDef
      [{ pulse := xPulse, qubits := [1], bare := true, mapping := some [("X", "IX"), ("Z", "IZ")] },
       { pulse := yPulse, qubits := [0], bare := true, mapping := some [("Y", "YI"), ("Z", "ZI")] }]
      none none).map (fun q => (q.cTerms.map (·.id), q.nTerms.map (·.id), q.N, q.shortcut))
    = .ok (["IX", "YI"], ["IX", "IZ", "YI", "ZI"], 2, false) := by decide

/-- default identifiers, a two-qubit pulse given on `(2, 0)` (→ `remap` with order `[1, 0]`, token
qubits `[0, 2]`, suffix `_02`), an additional noise operator; this call satisfies all hypotheses of
the `extendDef_*` theorems -/
example :
    extendDef
      [{ pulse := { data := ⟨[⟨7, "XY", [2]⟩], [⟨8, "N", [3]⟩], [1], 0⟩ }, qubits := [2, 0] },
       { pulse := yPulse, qubits := [1], bare := true }]
      none (some { terms := [(9, some "ZZZ", [5])] })
    = .ok { cTerms := [⟨.mapped 0 7 (some [1, 0]) [0, 2], "XY_02", [2]⟩, ⟨.mapped 1 2 none [1], "Y_1", [1]⟩]
            nTerms := [⟨.mapped 0 8 (some [1, 0]) [0, 2], "N_02", [3]⟩, ⟨.mapped 1 2 none [1], "Y_1", [1]⟩,
                       ⟨.additional 9, "ZZZ", [5]⟩, ⟨.mapped 1 3 none [1], "Z_1", [1]⟩]
            dt := [1], tCache := none, tauCache := none, N := 3, shortcut := false } := by decide

/-- the finding that led to the repair, now rejected: identifiers that coincide BETWEEN the mapped
pulses (real package before the repair: `extend([(p, 0, m), (p, 1, m)])` with the identity mapping
`m` returned `c_oper_identifiers == ['X', 'X']`); an instance of `extend_duplicates_rejected` -/
example :
    extendDef
      [{ pulse := xPulse, qubits := [0], bare := true, mapping := some [("X", "X"), ("Z", "Z")] },
       { pulse := xPulse, qubits := [1], bare := true, mapping := some [("X", "X"), ("Z", "Z")] }]
      none none = .error "ValueError" := by decide

/-- only the NOISE identifiers coincide (control `X`, `Y` stay apart): rejected as well; and the
second call has a faulty mapping (the missing key is what is raised first; `ValueError` too) -/
example :
    extendDef
      [{ pulse := xPulse, qubits := [0], bare := true, mapping := some [("X", "X"), ("Z", "Z")] },
       { pulse := yPulse, qubits := [1], bare := true, mapping := some [("Y", "Y"), ("Z", "Z")] }]
      none none = .error "ValueError" ∧
    extendDef
      [{ pulse := xPulse, qubits := [0], bare := true, mapping := some [("X", "X"), ("Z", "Z")] },
       { pulse := yPulse, qubits := [1], bare := true, mapping := some [("Y", "X")] }]
      none none = .error "ValueError" := by decide

/-- every cause of `extendDef_errors_iff` occurs: front rejection (qubit clash), a missing key,
rejection of the additional noise Hamiltonian (identifier of a mapped noise operator), and the
shortcut that lets a faulty mapping pass -/
example :
    extendDef [{ pulse := xPulse, qubits := [0], bare := true },
               { pulse := yPulse, qubits := [0], bare := true }] none none = .error "ValueError" ∧
    extendDef [{ pulse := xPulse, qubits := [0], bare := true, mapping := some [("X", "A")] },
               { pulse := yPulse, qubits := [1], bare := true }] none none = .error "ValueError" ∧
    extendDef [{ pulse := xPulse, qubits := [0], bare := true },
               { pulse := yPulse, qubits := [1], bare := true }] none
      (some { terms := [(9, some "Z_1", [5])] }) = .error "ValueError" ∧
    (extendDef [{ pulse := xPulse, qubits := [0], bare := true, mapping := some [] }] none
      (some { terms := [(9, some "W", [5, 5, 5])] })).toBool = true := by decide

end ExtendExamples

end FFVerif.C06Def
