/-
C01 (continued) — the control matrix computed by `calculate_control_matrix_from_scratch` in
segment form equals the defining integral.  Property theorems.
-/
import Mathlib.Analysis.SpecialFunctions.Integrals.Basic
import Mathlib.Analysis.Complex.Exponential
import FFVerif.Lemmas.Inst
import FFVerif.Lemmas.Bridge
import FFVerif.Lemmas.MatBridge
import FFVerif.Model.Numeric
import FFVerif.Props.C01

namespace FFVerif.C01
open FFVerif FFVerif.Model Complex MeasureTheory intervalIntegral Matrix

/-- propagator inside a segment in spectral form: `U(s) = V diag(e^{-iλ s}) V† Q`, with `(λ, V)`
the eigendecomposition used for the segment and `Q` the cumulative propagator before it. -/
noncomputable def Useg {d : Nat} (lam : Fin d → ℝ) (V Q : Matrix (Fin d) (Fin d) ℂ) (s : ℝ) :
    Matrix (Fin d) (Fin d) ℂ :=
  V * Matrix.diagonal (fun m => Complex.exp (-(Complex.I * ((lam m : ℂ) * (s : ℂ))))) * Vᴴ * Q

/-- the time-domain integrand of the control matrix on one segment, in local time `s` -/
noncomputable def segIntegrand {d : Nat} (lam : Fin d → ℝ) (V Q B C : Matrix (Fin d) (Fin d) ℂ)
    (ω t0 sa : ℝ) (s : ℝ) : ℂ :=
  Complex.exp (Complex.I * ((ω : ℂ) * ((t0 + s : ℝ) : ℂ))) * (sa : ℂ) *
    Matrix.trace ((Useg lam V Q s)ᴴ * B * Useg lam V Q s * C)

theorem Useg_conjTranspose {d : Nat} (lam : Fin d → ℝ) (V Q : Matrix (Fin d) (Fin d) ℂ) (s : ℝ) :
    (Useg lam V Q s)ᴴ =
      Qᴴ * V * Matrix.diagonal (fun m => Complex.exp (Complex.I * ((lam m : ℂ) * (s : ℂ)))) * Vᴴ := by
  have hd : (Matrix.diagonal (fun m => Complex.exp (-(Complex.I * ((lam m : ℂ) * (s : ℂ))))))ᴴ
      = Matrix.diagonal (fun m => Complex.exp (Complex.I * ((lam m : ℂ) * (s : ℂ)))) := by
    rw [Matrix.diagonal_conjTranspose]
    congr 1
    funext m
    simp only [Pi.star_apply, RCLike.star_def, ← Complex.exp_conj, map_neg, map_mul,
      Complex.conj_I, Complex.conj_ofReal, neg_mul, neg_neg]
  unfold Useg
  simp only [Matrix.conjTranspose_mul, Matrix.conjTranspose_conjTranspose, hd, Matrix.mul_assoc]

theorem trace_diag_sandwich {d : Nat} (a b : Fin d → ℂ) (M N : Matrix (Fin d) (Fin d) ℂ) :
    Matrix.trace (Matrix.diagonal a * M * Matrix.diagonal b * N)
      = ∑ m, ∑ n, a m * M m n * b n * N n m := by
  simp only [Matrix.trace, Matrix.diag_apply, Matrix.mul_apply (N := N), Matrix.mul_diagonal,
    Matrix.diagonal_mul]

/-- **Trace identity** (pure algebra, no unitarity needed):
`tr(U(s)† B U(s) C) = Σ_{mn} e^{i(λ_m-λ_n)s} (V†BV)_{mn} ((Q†V)† C (Q†V))_{nm}`. -/
theorem trace_Useg {d : Nat} (lam : Fin d → ℝ) (V Q B C : Matrix (Fin d) (Fin d) ℂ) (s : ℝ) :
    Matrix.trace ((Useg lam V Q s)ᴴ * B * Useg lam V Q s * C)
      = ∑ m, ∑ n, Complex.exp (Complex.I * (((lam m - lam n : ℝ) : ℂ) * (s : ℂ))) *
          (Vᴴ * B * V) m n * ((Qᴴ * V)ᴴ * C * (Qᴴ * V)) n m := by
  rw [Useg_conjTranspose]
  set a : Fin d → ℂ := fun m => Complex.exp (Complex.I * ((lam m : ℂ) * (s : ℂ))) with ha
  set b : Fin d → ℂ := fun m => Complex.exp (-(Complex.I * ((lam m : ℂ) * (s : ℂ)))) with hb
  have h1 : Qᴴ * V * Matrix.diagonal a * Vᴴ * B * Useg lam V Q s * C
      = (Qᴴ * V) * (Matrix.diagonal a * (Vᴴ * B * V) * Matrix.diagonal b * ((Qᴴ * V)ᴴ * C)) := by
    unfold Useg
    simp only [Matrix.conjTranspose_mul, Matrix.conjTranspose_conjTranspose, Matrix.mul_assoc, hb]
  rw [h1, Matrix.trace_mul_comm, Matrix.mul_assoc _ _ (Qᴴ * V), Matrix.mul_assoc _ C,
    trace_diag_sandwich]
  refine Finset.sum_congr rfl fun m _ => Finset.sum_congr rfl fun n _ => ?_
  have : Complex.exp (Complex.I * (((lam m - lam n : ℝ) : ℂ) * (s : ℂ))) = a m * b n := by
    simp only [ha, hb, ← Complex.exp_add]
    congr 1; push_cast; ring
  rw [this]; ring

theorem segIntegrand_eq_sum {d : Nat} (lam : Fin d → ℝ) (V Q B C : Matrix (Fin d) (Fin d) ℂ)
    (ω t0 sa : ℝ) (s : ℝ) :
    segIntegrand lam V Q B C ω t0 sa s
      = ∑ m, ∑ n, (Complex.exp (Complex.I * ((ω : ℂ) * (t0 : ℂ))) *
          ((sa : ℂ) * (Vᴴ * B * V) m n) * ((Qᴴ * V)ᴴ * C * (Qᴴ * V)) n m) *
          Complex.exp (Complex.I * ((ω + (lam m - lam n) : ℝ) : ℂ) * (s : ℂ)) := by
  unfold segIntegrand
  rw [trace_Useg, Finset.mul_sum]
  refine Finset.sum_congr rfl fun m _ => ?_
  rw [Finset.mul_sum]
  refine Finset.sum_congr rfl fun n _ => ?_
  have h : Complex.exp (Complex.I * ((ω + (lam m - lam n) : ℝ) : ℂ) * (s : ℂ))
      = Complex.exp (Complex.I * ((ω : ℂ) * ((t0 + s : ℝ) : ℂ))) *
        Complex.exp (-(Complex.I * ((ω : ℂ) * (t0 : ℂ)))) *
        Complex.exp (Complex.I * (((lam m - lam n : ℝ) : ℂ) * (s : ℂ))) := by
    rw [← Complex.exp_add, ← Complex.exp_add]
    congr 1; push_cast; ring
  have h0 : Complex.exp (Complex.I * ((ω : ℂ) * (t0 : ℂ))) *
      Complex.exp (-(Complex.I * ((ω : ℂ) * (t0 : ℂ)))) = 1 := by
    rw [← Complex.exp_add, add_neg_cancel, Complex.exp_zero]
  rw [h]
  linear_combination (-(Complex.exp (Complex.I * ((ω : ℂ) * ((t0 + s : ℝ) : ℂ))) * (sa : ℂ) *
    (Complex.exp (Complex.I * (((lam m - lam n : ℝ) : ℂ) * (s : ℂ))) *
          (Vᴴ * B * V) m n * ((Qᴴ * V)ᴴ * C * (Qᴴ * V)) n m))) * h0

/-- **One segment**: the integral of the time-domain integrand over the segment equals the
finite double sum the code forms with the *exact* segment integrals. -/
theorem segment_trace_integral {d : Nat} (lam : Fin d → ℝ) (V Q B C : Matrix (Fin d) (Fin d) ℂ)
    (ω t0 sa dt : ℝ) :
    ∫ s in (0:ℝ)..dt, segIntegrand lam V Q B C ω t0 sa s
      = ∑ m, ∑ n, Complex.exp (Complex.I * ((ω : ℂ) * (t0 : ℂ))) *
          ((sa : ℂ) * (Vᴴ * B * V) m n) * segIntegral (ω + (lam m - lam n)) dt *
          ((Qᴴ * V)ᴴ * C * (Qᴴ * V)) n m := by
  simp only [segIntegrand_eq_sum]
  have hc : ∀ (c : ℂ) (x : ℝ), IntervalIntegrable
      (fun s : ℝ => c * Complex.exp (Complex.I * (x : ℂ) * (s : ℂ))) volume 0 dt := by
    intro c x
    apply Continuous.intervalIntegrable
    fun_prop
  rw [intervalIntegral.integral_finsetSum]
  · refine Finset.sum_congr rfl fun m _ => ?_
    rw [intervalIntegral.integral_finsetSum]
    · refine Finset.sum_congr rfl fun n _ => ?_
      rw [intervalIntegral.integral_const_mul]
      unfold segIntegral
      ring
    · intro n _; exact hc _ _
  · intro m _
    apply Continuous.intervalIntegrable
    fun_prop

theorem transformByUnitary_toMatrix {d : Nat} (U A : Mat ℂ d d) :
    (transformByUnitary U A).toMatrix = (U.toMatrix)ᴴ * A.toMatrix * U.toMatrix := by
  unfold transformByUnitary
  rw [Mat.toMatrix_mul, Mat.toMatrix_mul, Mat.toMatrix_adjoint, Matrix.mul_assoc]

theorem transformByUnitary_getElem {d : Nat} (U A : Mat ℂ d d) (m n : Fin d) :
    (transformByUnitary U A)[m][n] = ((U.toMatrix)ᴴ * A.toMatrix * U.toMatrix) m n := by
  rw [← transformByUnitary_toMatrix]; rfl

theorem smul_getElem {d : Nat} (c : ℂ) (A : Mat ℂ d d) (m n : Fin d) :
    (Mat.smul c A)[m][n] = c * A[m][n] := by
  simp [Mat.smul]

theorem vec_ofFn_get {K : Type} {n : Nat} (F : Fin n → K) (i : Fin n) : (Vector.ofFn F)[i] = F i := by
  simp only [Fin.getElem_fin, Vector.getElem_ofFn]

theorem einsum_cm_entry {n_o n_j n_m n_n n_k : Nat}
    (x0 : (Vector ℂ n_o)) (x1 : (Vector (Vector (Vector ℂ n_n) n_m) n_j))
    (x2 : (Vector (Vector (Vector ℂ n_n) n_m) n_o)) (x3 : (Vector (Vector (Vector ℂ n_m) n_n) n_k))
    (j : Fin n_j) (k : Fin n_k) (o : Fin n_o) :
    (Gen.numeric_calculate_control_matrix_from_scratch_0 x0 x1 x2 x3)[j][k][o]
      = ∑ m : Fin n_m, ∑ n : Fin n_n, x0[o] * x1[j][m][n] * x2[o][m][n] * x3[k][n][m] := by
  simp only [Gen.numeric_calculate_control_matrix_from_scratch_0, fsum_eq_sum, Fin.getElem_fin,
    Vector.getElem_ofFn]

theorem firstOrderIntegral_get {nO d : Nat} (kind : MaskKind) (thr : ℝ) (E : Vec ℝ nO) (ev : Vec ℝ d)
    (dt : ℝ) (o : Fin nO) (m n : Fin d) :
    (firstOrderIntegral kind thr E ev dt : Ten3 ℂ nO d d)[o][m][n]
      = firstOrderEntry kind thr (E[o] + (ev[m] - ev[n])) dt := by
  simp only [firstOrderIntegral, Fin.getElem_fin, Vector.getElem_ofFn]

/-- **What the model computes, entry by entry** (unfolding of the generated contraction
`o,jmn,omn,knm->jko` and of the wiring of `calculate_control_matrix_from_scratch`). -/
theorem cm_entry {nG d nO nA nK : Nat} (kind : MaskKind) (thr : ℝ)
    (eigvals : Mat ℝ nG d) (eigvecs props : Vector (Mat ℂ d d) nG)
    (omega : Vec ℝ nO) (basis : Vector (Mat ℂ d d) nK) (nOpers : Vector (Mat ℂ d d) nA)
    (nCoeffs : Mat ℝ nA nG) (dt t : Vec ℝ nG) (a : Fin nA) (k : Fin nK) (o : Fin nO) :
    (controlMatrixFromScratch kind thr eigvals eigvecs props omega basis nOpers nCoeffs dt t)[a][k][o]
      = ∑ g : Fin nG, ∑ m : Fin d, ∑ n : Fin d,
          Complex.exp (Complex.I * ((omega[o] : ℂ) * (t[g] : ℂ))) *
          ((nCoeffs[a][g] : ℂ) * ((eigvecs[g].toMatrix)ᴴ * nOpers[a].toMatrix * eigvecs[g].toMatrix) m n) *
          (firstOrderEntry kind thr (omega[o] + (eigvals[g][m] - eigvals[g][n])) dt[g] : ℂ) *
          (((props[g].toMatrix)ᴴ * eigvecs[g].toMatrix)ᴴ * basis[k].toMatrix *
            ((props[g].toMatrix)ᴴ * eigvecs[g].toMatrix)) n m := by
  unfold controlMatrixFromScratch
  rw [vec_ofFn_get, vec_ofFn_get, vec_ofFn_get, fsum_eq_sum]
  refine Finset.sum_congr rfl fun g _ => ?_
  rw [vec_ofFn_get, einsum_cm_entry]
  refine Finset.sum_congr rfl fun m _ => Finset.sum_congr rfl fun n _ => ?_
  rw [firstOrderIntegral_get, vec_ofFn_get, vec_ofFn_get, vec_ofFn_get, vec_ofFn_get,
    smul_getElem, transformByUnitary_getElem, transformByUnitary_getElem,
    Mat.toMatrix_mul, Mat.toMatrix_adjoint, copsExpI, copsOfReal]
  push_cast
  rfl

/-- **Segment form, exact branch**: if no entry falls into the truncated branch, the control
matrix computed by the algorithm *is* the defining integral, summed over segments:
`B_ak(ω) = Σ_g ∫₀^{dt_g} e^{iω(t_g+s)} s_a^{(g)} tr(U_g(s)† B_a U_g(s) C_k) ds`, for every
dimension, number of segments, operators (Hermitian or not), basis (complete or not) and
frequency. -/
theorem cm_segment_form {nG d nO nA nK : Nat} (kind : MaskKind) (thr : ℝ) (hthr : 0 ≤ thr)
    (eigvals : Mat ℝ nG d) (eigvecs props : Vector (Mat ℂ d d) nG)
    (omega : Vec ℝ nO) (basis : Vector (Mat ℂ d d) nK) (nOpers : Vector (Mat ℂ d d) nA)
    (nCoeffs : Mat ℝ nA nG) (dt t : Vec ℝ nG) (a : Fin nA) (k : Fin nK) (o : Fin nO)
    (hmask : ∀ (g : Fin nG) (m n : Fin d),
      firstOrderMask kind thr (omega[o] + (eigvals[g][m] - eigvals[g][n])) dt[g] = true) :
    (controlMatrixFromScratch kind thr eigvals eigvecs props omega basis nOpers nCoeffs dt t)[a][k][o]
      = ∑ g : Fin nG, ∫ s in (0:ℝ)..dt[g],
          segIntegrand (fun m => eigvals[g][m]) eigvecs[g].toMatrix props[g].toMatrix
            nOpers[a].toMatrix basis[k].toMatrix omega[o] t[g] nCoeffs[a][g] s := by
  rw [cm_entry]
  refine Finset.sum_congr rfl fun g _ => ?_
  rw [segment_trace_integral]
  refine Finset.sum_congr rfl fun m _ => Finset.sum_congr rfl fun n _ => ?_
  rw [firstOrderEntry_exact kind thr _ _ hthr (hmask g m n)]

/-- **Segment form, as the code is now** (guard shape and threshold read from the source): for
*every* frequency — on, inside and outside every resonance window — and all durations `dt_g ≥ 0`
the computed control matrix differs from the defining integral by at most
`Σ_g 1e-7·dt_g · |s_a^{(g)}| · Σ_{mn} |(V†B_aV)_{mn}| · |(W†C_kW)_{nm}|`. -/
theorem cm_segment_form_error {nG d nO nA nK : Nat}
    (eigvals : Mat ℝ nG d) (eigvecs props : Vector (Mat ℂ d d) nG)
    (omega : Vec ℝ nO) (basis : Vector (Mat ℂ d d) nK) (nOpers : Vector (Mat ℂ d d) nA)
    (nCoeffs : Mat ℝ nA nG) (dt t : Vec ℝ nG) (a : Fin nA) (k : Fin nK) (o : Fin nO)
    (hdt : ∀ g : Fin nG, 0 ≤ dt[g]) :
    ‖(controlMatrixFromScratch Gen.firstOrderMaskKind Gen.firstOrderMaskThr eigvals eigvecs props
        omega basis nOpers nCoeffs dt t)[a][k][o]
      - ∑ g : Fin nG, ∫ s in (0:ℝ)..dt[g],
          segIntegrand (fun m => eigvals[g][m]) eigvecs[g].toMatrix props[g].toMatrix
            nOpers[a].toMatrix basis[k].toMatrix omega[o] t[g] nCoeffs[a][g] s‖
      ≤ ∑ g : Fin nG, 1e-7 * dt[g] * |nCoeffs[a][g]| *
          ∑ m : Fin d, ∑ n : Fin d,
            ‖((eigvecs[g].toMatrix)ᴴ * nOpers[a].toMatrix * eigvecs[g].toMatrix) m n‖ *
            ‖(((props[g].toMatrix)ᴴ * eigvecs[g].toMatrix)ᴴ * basis[k].toMatrix *
              ((props[g].toMatrix)ᴴ * eigvecs[g].toMatrix)) n m‖ := by
  rw [cm_entry, ← Finset.sum_sub_distrib]
  refine (norm_sum_le _ _).trans (Finset.sum_le_sum fun g _ => ?_)
  rw [segment_trace_integral, ← Finset.sum_sub_distrib, Finset.mul_sum]
  refine (norm_sum_le _ _).trans (Finset.sum_le_sum fun m _ => ?_)
  rw [← Finset.sum_sub_distrib, Finset.mul_sum]
  refine (norm_sum_le _ _).trans (Finset.sum_le_sum fun n _ => ?_)
  rw [← sub_mul, ← mul_sub, norm_mul, norm_mul, norm_mul, norm_mul, Complex.norm_real,
    Real.norm_eq_abs]
  have hexp : ‖Complex.exp (Complex.I * ((omega[o] : ℂ) * (t[g] : ℂ)))‖ = 1 := by
    rw [← Complex.ofReal_mul, mul_comm, Complex.norm_exp_ofReal_mul_I]
  have herr := firstOrderEntry_error_current (omega[o] + (eigvals[g][m] - eigvals[g][n])) dt[g] (hdt g)
  rw [hexp, one_mul]
  have h1 := norm_nonneg (((eigvecs[g].toMatrix)ᴴ * nOpers[a].toMatrix * eigvecs[g].toMatrix) m n)
  have h2 := norm_nonneg ((((props[g].toMatrix)ᴴ * eigvecs[g].toMatrix)ᴴ * basis[k].toMatrix *
              ((props[g].toMatrix)ᴴ * eigvecs[g].toMatrix)) n m)
  have h3 := abs_nonneg (nCoeffs[a][g])
  calc _ ≤ |nCoeffs[a][g]| * ‖((eigvecs[g].toMatrix)ᴴ * nOpers[a].toMatrix * eigvecs[g].toMatrix) m n‖
          * (1e-7 * dt[g]) * ‖(((props[g].toMatrix)ᴴ * eigvecs[g].toMatrix)ᴴ * basis[k].toMatrix *
              ((props[g].toMatrix)ᴴ * eigvecs[g].toMatrix)) n m‖ := by
        gcongr
    _ = _ := by ring

end FFVerif.C01
