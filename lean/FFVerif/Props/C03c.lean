/-
C03c — the algebraic core of concatenation (C03) and of its use for periodic repetition (C04):
`calculate_control_matrix_from_atomic` applied to the data `concatenate` assembles reproduces the
from-scratch control matrix of the sequenced pulse; pulse-correlation filter functions sum to the
total filter function; regrouping does not change the result; `G` copies of one pulse give the
geometric-series form.  Property theorems only (helpers in FFVerif/Lemmas/ConcatAux.lean).
-/
import FFVerif.Lemmas.ConcatAux
import FFVerif.Props.C01
import FFVerif.Props.C01Seg
import FFVerif.Props.C04
import FFVerif.Props.C15

namespace FFVerif.C03c
open FFVerif FFVerif.Model FFVerif.C01 FFVerif.ConcatAux Complex Matrix

/-! ### 1. What `calculate_control_matrix_from_atomic` computes -/

/-- **Entries of `calculate_control_matrix_from_atomic(…, which='correlations')`**: for pulse `g`,
`e^{iω t_{g-1}} · (B^{(g)}(ω) L^{(g-1)})_{ak}`. -/
theorem fromAtomicCorr_entries {nP nA N nO : Nat} (phases : Mat ℂ nP nO)
    (Bat : Vector (Ten3 ℂ nA N nO) nP) (L : Vector (Mat ℂ N N) nP) (g : Fin nP) (a : Fin nA)
    (k : Fin N) (o : Fin nO) :
    (controlMatrixFromAtomicCorr phases Bat L)[g][a][k][o]
      = ∑ j : Fin N, phases[g][o] * Bat[g][a][j][o] * L[g][j][k] :=
  fromAtomicCorr_get phases Bat L g a k o

/-- **Entries of `calculate_control_matrix_from_atomic(…, which='total')`**. -/
theorem fromAtomic_entries {nP nA N nO : Nat} (phases : Mat ℂ nP nO)
    (Bat : Vector (Ten3 ℂ nA N nO) nP) (L : Vector (Mat ℂ N N) nP) (a : Fin nA)
    (k : Fin N) (o : Fin nO) :
    (controlMatrixFromAtomic phases Bat L)[a][k][o]
      = ∑ g : Fin nP, ∑ j : Fin N, phases[g][o] * Bat[g][a][j][o] * L[g][j][k] := by
  rw [fromAtomic_get]
  exact Finset.sum_congr rfl fun g _ => fromAtomicCorr_get phases Bat L g a k o

/-- **`'total'` is the sum over pulses of `'correlations'`** — as an identity of arrays, with the
reduction `control_matrix_pc.sum(axis=0)` that `PulseSequence.get_control_matrix` performs. -/
theorem fromAtomic_eq_sum_corr {nP nA N nO : Nat} (phases : Mat ℂ nP nO)
    (Bat : Vector (Ten3 ℂ nA N nO) nP) (L : Vector (Mat ℂ N N) nP) :
    controlMatrixFromAtomic phases Bat L = sumPulses (controlMatrixFromAtomicCorr phases Bat L) :=
  rfl

/-! ### 2. The concatenation rule for one later pulse -/

/-- **Concatenation rule for one later pulse.**  Take the per-segment data of a pulse and compute
its control matrix from scratch a second time with every cumulative propagator multiplied from the
right by a matrix `Qprev` (the propagator of everything that came before; *any* matrix) and every
start time shifted by `T`.  For a COMPLETE basis the result is
`e^{iωT} · Σ_j B_aj(ω) · L(Qprev)_{jk}` with `B` the control matrix of the pulse alone and
`L(Qprev)_{jk} = tr(C_j Qprev C_k Qprev†)` — one summand `phases[g]·B^{(g)} @ L^{(g-1)}` of
`calculate_control_matrix_from_atomic`.  Every guard of the first-order integral, both of its
branches, every dimension, segment count, frequency; operators Hermitian or not.
Completeness cannot be dropped: for an incomplete basis `Qprev C_k Qprev†` need not lie in the span
of the basis (the code falls back to the from-scratch computation in that case). -/
theorem shifted_pulse_cm {nG d nO nA nK : Nat} (kind : MaskKind) (thr : ℝ)
    (eigvals : Mat ℝ nG d) (eigvecs props props' : Vector (Mat ℂ d d) nG)
    (omega : Vec ℝ nO) (basis : Vector (Mat ℂ d d) nK) (nOpers : Vector (Mat ℂ d d) nA)
    (nCoeffs : Mat ℝ nA nG) (dt t t' : Vec ℝ nG) (Qprev : Matrix (Fin d) (Fin d) ℂ) (T : ℝ)
    (hC : Spec.IsComplete (Spec.basisOf basis))
    (hprops : ∀ g : Fin nG, props'[g].toMatrix = props[g].toMatrix * Qprev)
    (ht : ∀ g : Fin nG, t'[g] = t[g] + T) (a : Fin nA) (k : Fin nK) (o : Fin nO) :
    (controlMatrixFromScratch kind thr eigvals eigvecs props' omega basis nOpers nCoeffs dt t')[a][k][o]
      = Complex.exp (Complex.I * ((omega[o] : ℂ) * (T : ℂ))) *
        ∑ j : Fin nK,
          (controlMatrixFromScratch kind thr eigvals eigvecs props omega basis nOpers nCoeffs dt t)[a][j][o]
            * Spec.liou (Spec.basisOf basis) Qprev j k := by
  simp only [cm_entry]
  simp only [Finset.sum_mul, Finset.mul_sum]
  conv_rhs => rw [Finset.sum_comm]
  refine Finset.sum_congr rfl fun g _ => ?_
  conv_rhs => rw [Finset.sum_comm]
  refine Finset.sum_congr rfl fun m _ => ?_
  conv_rhs => rw [Finset.sum_comm]
  refine Finset.sum_congr rfl fun n _ => ?_
  have hs := shift_sandwich hC (props[g].toMatrix) Qprev (eigvecs[g].toMatrix) k n m
  simp only [Spec.basisOf] at hs
  rw [hprops g, ht g, hs, expI_shift, Finset.mul_sum]
  refine Finset.sum_congr rfl fun j _ => ?_
  ring

/-- **One summand of `calculate_control_matrix_from_atomic` is a shifted pulse**: if `phases[g]`
is the phase `e^{iωT}`, `L[g]` the Liouville representation of `Qprev` and
`control_matrix_atomic[g]` the from-scratch control matrix of the pulse alone, then the `g`-th
pulse-correlation control matrix is the from-scratch control matrix of the pulse's segments placed
after `Qprev` at time `T`. -/
theorem corr_entry_eq_shifted_pulse {nP nG d nO nA nK : Nat} (kind : MaskKind) (thr : ℝ)
    (eigvals : Mat ℝ nG d) (eigvecs props props' : Vector (Mat ℂ d d) nG)
    (omega : Vec ℝ nO) (basis : Vector (Mat ℂ d d) nK) (nOpers : Vector (Mat ℂ d d) nA)
    (nCoeffs : Mat ℝ nA nG) (dt t t' : Vec ℝ nG) (Qprev : Matrix (Fin d) (Fin d) ℂ) (T : ℝ)
    (hC : Spec.IsComplete (Spec.basisOf basis))
    (hprops : ∀ g : Fin nG, props'[g].toMatrix = props[g].toMatrix * Qprev)
    (ht : ∀ g : Fin nG, t'[g] = t[g] + T)
    (phases : Mat ℂ nP nO) (Bat : Vector (Ten3 ℂ nA nK nO) nP) (L : Vector (Mat ℂ nK nK) nP)
    (p : Fin nP)
    (hph : ∀ o : Fin nO, phases[p][o] = Complex.exp (Complex.I * ((omega[o] : ℂ) * (T : ℂ))))
    (hB : Bat[p]
      = controlMatrixFromScratch kind thr eigvals eigvecs props omega basis nOpers nCoeffs dt t)
    (hL : L[p].toMatrix = Spec.liou (Spec.basisOf basis) Qprev)
    (a : Fin nA) (k : Fin nK) (o : Fin nO) :
    (controlMatrixFromAtomicCorr phases Bat L)[p][a][k][o]
      = (controlMatrixFromScratch kind thr eigvals eigvecs props' omega basis nOpers nCoeffs dt
          t')[a][k][o] := by
  rw [shifted_pulse_cm kind thr eigvals eigvecs props props' omega basis nOpers nCoeffs dt t t'
    Qprev T hC hprops ht, fromAtomicCorr_entries, Finset.mul_sum]
  refine Finset.sum_congr rfl fun j _ => ?_
  rw [hph, hB, ← hL, Mat.toMatrix_apply, mul_assoc]

/-! ### 3. Concatenation reproduces the from-scratch control matrix -/

/-- **Peeling off the first pulse, per pulse** (`which='correlations'`): with `phases` and `L`
built by the recursions of `concatenate`, the first pulse-correlation control matrix is the first
pulse's own control matrix, and the one of pulse `q+1` is `e^{iωτ₀}` times the `q`-th
pulse-correlation control matrix of the remaining pulses times `L₀`.  Pure algebra. -/
theorem fromAtomicCorr_cons {n nA N nO : Nat} (tp : Mat ℂ (n + 1) nO) (tp' : Mat ℂ n nO)
    (Bat : Vector (Ten3 ℂ nA N nO) (n + 1)) (Bat' : Vector (Ten3 ℂ nA N nO) n)
    (Lt : Vector (Mat ℂ N N) (n + 1)) (Lt' : Vector (Mat ℂ N N) n)
    (htp : ∀ (i : Nat) (hi : i < n), tp[i + 1] = tp'[i])
    (hB : ∀ (i : Nat) (hi : i < n), Bat[i + 1] = Bat'[i])
    (hL : ∀ (i : Nat) (hi : i < n), Lt[i + 1] = Lt'[i])
    (a : Fin nA) (k : Fin N) (o : Fin nO) :
    (controlMatrixFromAtomicCorr (concatPhases tp) Bat (concatL Lt))[(0 : Fin (n + 1))][a][k][o]
        = Bat[0][a][k][o] ∧
    ∀ q : Fin n,
      (controlMatrixFromAtomicCorr (concatPhases tp) Bat (concatL Lt))[q.succ][a][k][o]
        = tp[0][o] * ∑ i : Fin N,
            (controlMatrixFromAtomicCorr (concatPhases tp') Bat' (concatL Lt'))[q][a][i][o]
              * Lt[0][i][k] := by
  constructor
  · rw [fromAtomicCorr_entries]
    have h1 : ∀ j : Fin N, (concatL Lt)[(0 : Fin (n + 1))][j][k] = if j = k then 1 else 0 := by
      intro j
      rw [concatL_get]
      exact Mat.ofFn_get _ j k
    simp only [concatPhases_get, h1, Fin.val_zero, cumPhase_zero, one_mul, mul_ite, mul_one,
      mul_zero, Finset.sum_ite_eq', Finset.mem_univ, if_true]
    rfl
  · intro q
    simp only [fromAtomicCorr_entries]
    have h2 : ∀ j : Fin N, (concatL Lt)[q.succ][j][k]
        = ∑ i : Fin N, (concatL Lt')[q][j][i] * Lt[0][i][k] := by
      intro j
      rw [concatL_get, concatL_get, ← Mat.toMatrix_apply, Fin.val_succ,
        cumL_cons Lt Lt' hL q.1 (le_of_lt q.2), Matrix.mul_apply]
      rfl
    have h3 : (concatPhases tp)[q.succ][o] = tp[0][o] * (concatPhases tp')[q][o] := by
      rw [concatPhases_get, concatPhases_get, Fin.val_succ,
        cumPhase_cons tp tp' htp o q.1 (le_of_lt q.2)]
    have h4 : Bat[q.succ] = Bat'[q] := hB q.1 q.2
    simp only [h2, h3, h4, Finset.mul_sum, Finset.sum_mul]
    conv_rhs => rw [Finset.sum_comm]
    refine Finset.sum_congr rfl fun j _ => Finset.sum_congr rfl fun i _ => ?_
    ring

/-- **Peeling off the first pulse** (regrouping `[A₀, A₁, …]` as `[A₀, (A₁ …)]`): the from-atomic
control matrix of `n+1` pulses, with `phases` and `L` built by the recursions of `concatenate`,
is `B⁽⁰⁾ + e^{iωτ₀} · (from-atomic control matrix of the remaining n pulses) · L₀` — i.e. the rule
applied to the pair (first pulse, rest).  Pure algebra: any numbers, no hypothesis on basis or
propagators. -/
theorem fromAtomic_cons {n nA N nO : Nat} (tp : Mat ℂ (n + 1) nO) (tp' : Mat ℂ n nO)
    (Bat : Vector (Ten3 ℂ nA N nO) (n + 1)) (Bat' : Vector (Ten3 ℂ nA N nO) n)
    (Lt : Vector (Mat ℂ N N) (n + 1)) (Lt' : Vector (Mat ℂ N N) n)
    (htp : ∀ (i : Nat) (hi : i < n), tp[i + 1] = tp'[i])
    (hB : ∀ (i : Nat) (hi : i < n), Bat[i + 1] = Bat'[i])
    (hL : ∀ (i : Nat) (hi : i < n), Lt[i + 1] = Lt'[i])
    (a : Fin nA) (k : Fin N) (o : Fin nO) :
    (controlMatrixFromAtomic (concatPhases tp) Bat (concatL Lt))[a][k][o]
      = Bat[0][a][k][o] + tp[0][o] * ∑ i : Fin N,
          (controlMatrixFromAtomic (concatPhases tp') Bat' (concatL Lt'))[a][i][o] * Lt[0][i][k] := by
  obtain ⟨h0, hs⟩ := fromAtomicCorr_cons tp tp' Bat Bat' Lt Lt' htp hB hL a k o
  rw [fromAtomic_get, Fin.sum_univ_succ, h0]
  congr 1
  simp only [hs, fromAtomic_get, ← Finset.mul_sum, Finset.sum_mul]
  congr 1
  exact Finset.sum_comm

/-- **Splitting lemma**: the control matrix of a segment list that is the append of two lists is
the sum of the control matrices of the parts (`calculate_control_matrix_from_scratch` is a sum over
segments; nothing is assumed about the data). -/
theorem cm_append_vec {n1 n2 d nO nA nK : Nat} (kind : MaskKind) (thr : ℝ)
    (ev1 : Mat ℝ n1 d) (ev2 : Mat ℝ n2 d) (V1 Q1 : Vector (Mat ℂ d d) n1)
    (V2 Q2 : Vector (Mat ℂ d d) n2) (omega : Vec ℝ nO) (basis : Vector (Mat ℂ d d) nK)
    (nOpers : Vector (Mat ℂ d d) nA) (c1 : Mat ℝ nA n1) (c2 : Mat ℝ nA n2)
    (dt1 t1 : Vec ℝ n1) (dt2 t2 : Vec ℝ n2) (a : Fin nA) (k : Fin nK) (o : Fin nO) :
    (controlMatrixFromScratch kind thr (ev1 ++ ev2) (V1 ++ V2) (Q1 ++ Q2) omega basis nOpers
        (Vector.ofFn fun a => c1[a] ++ c2[a]) (dt1 ++ dt2) (t1 ++ t2))[a][k][o]
      = (controlMatrixFromScratch kind thr ev1 V1 Q1 omega basis nOpers c1 dt1 t1)[a][k][o]
        + (controlMatrixFromScratch kind thr ev2 V2 Q2 omega basis nOpers c2 dt2 t2)[a][k][o] := by
  rw [cm_entry, cm_entry, cm_entry, Fin.sum_univ_add]
  congr 1
  · refine Finset.sum_congr rfl fun g _ => Finset.sum_congr rfl fun m _ =>
      Finset.sum_congr rfl fun n _ => ?_
    rw [ConcatAux.vec_ofFn_get]
    simp only [append_castAdd]
  · refine Finset.sum_congr rfl fun g _ => Finset.sum_congr rfl fun m _ =>
      Finset.sum_congr rfl fun n _ => ?_
    rw [ConcatAux.vec_ofFn_get]
    simp only [append_natAdd]

section pulses
variable {d nA nO nK : Nat}

/-- the splitting lemma on pulse data -/
theorem cm_append (A B : PulseData ℝ ℂ d nA) (kind : MaskKind) (thr : ℝ) (omega : Vec ℝ nO)
    (basis : Vector (Mat ℂ d d) nK) (nOpers : Vector (Mat ℂ d d) nA)
    (a : Fin nA) (k : Fin nK) (o : Fin nO) :
    ((A.append B).cm kind thr omega basis nOpers)[a][k][o]
      = (A.cm kind thr omega basis nOpers)[a][k][o] + (B.cm kind thr omega basis nOpers)[a][k][o] :=
  cm_append_vec kind thr A.eigvals B.eigvals A.eigvecs A.props B.eigvecs B.props omega basis nOpers
    A.nCoeffs B.nCoeffs A.dt A.t B.dt B.t a k o

/-- a pulse without segments has the zero control matrix -/
theorem cm_empty (kind : MaskKind) (thr : ℝ) (omega : Vec ℝ nO)
    (basis : Vector (Mat ℂ d d) nK) (nOpers : Vector (Mat ℂ d d) nA)
    (a : Fin nA) (k : Fin nK) (o : Fin nO) :
    ((PulseData.empty : PulseData ℝ ℂ d nA).cm kind thr omega basis nOpers)[a][k][o] = 0 := by
  unfold PulseData.cm
  rw [cm_entry]
  exact Fin.sum_univ_zero _

/-- the concatenation rule on pulse data: the control matrix of a pulse placed after the
propagator `Qprev` at time `T` (see `shifted_pulse_cm`) -/
theorem cm_shift (B : PulseData ℝ ℂ d nA) (Qprev : Mat ℂ d d) (T : ℝ) (kind : MaskKind) (thr : ℝ)
    (omega : Vec ℝ nO) (basis : Vector (Mat ℂ d d) nK) (nOpers : Vector (Mat ℂ d d) nA)
    (hC : Spec.IsComplete (Spec.basisOf basis)) (a : Fin nA) (k : Fin nK) (o : Fin nO) :
    ((B.shift Qprev T).cm kind thr omega basis nOpers)[a][k][o]
      = Complex.exp (Complex.I * ((omega[o] : ℂ) * (T : ℂ))) *
        ∑ j : Fin nK, (B.cm kind thr omega basis nOpers)[a][j][o]
          * Spec.liou (Spec.basisOf basis) Qprev.toMatrix j k := by
  refine shifted_pulse_cm kind thr B.eigvals B.eigvecs B.props _ omega basis nOpers B.nCoeffs B.dt
    B.t _ Qprev.toMatrix T hC ?_ ?_ a k o
  · intro g
    show (Vector.map (fun Q => Mat.mul Q Qprev) B.props)[g].toMatrix = _
    rw [ConcatAux.vec_map_get, Mat.toMatrix_mul]
  · intro g
    show (Vector.map (fun x => x + T) B.t)[g] = _
    rw [ConcatAux.vec_map_get]

/-- first row of the inputs `concatenate` assembles -/
theorem atomic_head (kind : MaskKind) (thr : ℝ) (omega : Vec ℝ nO)
    (basis : Vector (Mat ℂ d d) nK) (nOpers : Vector (Mat ℂ d d) nA) (b : Bool)
    (A : PulseData ℝ ℂ d nA) (rest : List (PulseData ℝ ℂ d nA)) :
    (∀ o : Fin nO, (PulseData.atomicPhases omega (A :: rest))[0][o]
        = Complex.exp (Complex.I * ((omega[o] : ℂ) * (A.tau : ℂ)))) ∧
    (PulseData.atomicCMs kind thr omega basis nOpers (A :: rest))[0]
        = A.cm kind thr omega basis nOpers ∧
    (PulseData.atomicLiou basis b (A :: rest))[0] = liouville A.Qtot basis b := by
  refine ⟨fun o => ?_, ?_, ?_⟩
  · simp [PulseData.atomicPhases, PulseData.totalPhases]
  · simp [PulseData.atomicCMs]
  · simp [PulseData.atomicLiou]

/-- the remaining rows are the inputs assembled for the remaining pulses -/
theorem atomic_tail (kind : MaskKind) (thr : ℝ) (omega : Vec ℝ nO)
    (basis : Vector (Mat ℂ d d) nK) (nOpers : Vector (Mat ℂ d d) nA) (b : Bool)
    (A : PulseData ℝ ℂ d nA) (rest : List (PulseData ℝ ℂ d nA)) :
    (∀ (i : Nat) (hi : i < rest.length),
      (PulseData.atomicPhases omega (A :: rest))[i + 1]'(by simp; omega)
        = (PulseData.atomicPhases omega rest)[i]) ∧
    (∀ (i : Nat) (hi : i < rest.length),
      (PulseData.atomicCMs kind thr omega basis nOpers (A :: rest))[i + 1]'(by simp; omega)
        = (PulseData.atomicCMs kind thr omega basis nOpers rest)[i]) ∧
    (∀ (i : Nat) (hi : i < rest.length),
      (PulseData.atomicLiou basis b (A :: rest))[i + 1]'(by simp; omega)
        = (PulseData.atomicLiou basis b rest)[i]) := by
  refine ⟨fun i hi => ?_, fun i hi => ?_, fun i hi => ?_⟩
  · simp [PulseData.atomicPhases]
  · simp [PulseData.atomicCMs]
  · simp [PulseData.atomicLiou]

/-- **Concatenation reproduces the from-scratch control matrix of the sequenced pulse** — any
number of pulses, each with its own number of segments, every dimension and frequency, every
guard and both branches of the first-order integral.

Left: what `concatenate` caches — `calculate_control_matrix_from_atomic` applied to
`phases = cumprod([1, e^{iωτ₀}, …])`, the pulses' own from-scratch control matrices, and
`L[0] = 1, L[i] = liouville_representation(Q_tot^{(i-1)}) @ L[i-1]`.
Right: `calculate_control_matrix_from_scratch` on the spectral data of the sequenced pulse
(`PulseData.concatSeq`: the segments of all pulses in order, the cumulative propagators of pulse
`p` multiplied from the right by `Q_tot^{(p-1)} ⋯ Q_tot^{(0)}`, its times shifted by `τ₀+…+τ_{p-1}`).

Hypothesis: the basis is COMPLETE in the sense `M = Σ_j tr(M C_j) C_j` (`Spec.IsComplete`).  For
incomplete bases the identity is false in general and the code now computes from scratch instead.
NOTE: the code's test `basis.iscomplete` is a rank test; for a Hermitian orthonormal basis it
coincides with `Spec.IsComplete`, for a NON-Hermitian orthonormal complete basis (e.g. the matrix
units, `Σ_j tr(M E_j) E_j = Mᵀ`) it does not, the rule fails and `concatenate` differs from the
from-scratch result (in addition its real-typed array `L` drops imaginary parts there).  The total propagators `Qtot` and durations `tau` are
free fields of the pulse data: nothing relates them to the segments, the propagators need not be
unitary, the basis need not be Hermitian or orthonormal.  Liouville representations are taken
without the real-part cast (`castReal = false`); see `concat_cm_eq_from_scratch_castReal`. -/
theorem concat_cm_eq_from_scratch (kind : MaskKind) (thr : ℝ) (omega : Vec ℝ nO)
    (basis : Vector (Mat ℂ d d) nK) (nOpers : Vector (Mat ℂ d d) nA)
    (hC : Spec.IsComplete (Spec.basisOf basis)) (ps : List (PulseData ℝ ℂ d nA))
    (a : Fin nA) (k : Fin nK) (o : Fin nO) :
    (PulseData.concatenateCM kind thr omega basis nOpers false ps)[a][k][o]
      = ((PulseData.concatSeq ps).cm kind thr omega basis nOpers)[a][k][o] := by
  induction ps generalizing k with
  | nil =>
    unfold PulseData.concatenateCM
    rw [fromAtomic_entries]
    exact (Fin.sum_univ_zero _).trans (cm_empty kind thr omega basis nOpers a k o).symm
  | cons A rest ih =>
    obtain ⟨h1, h2, h3⟩ := atomic_head kind thr omega basis nOpers false A rest
    obtain ⟨t1, t2, t3⟩ := atomic_tail kind thr omega basis nOpers false A rest
    have h := fromAtomic_cons (PulseData.atomicPhases omega (A :: rest))
      (PulseData.atomicPhases omega rest)
      (PulseData.atomicCMs kind thr omega basis nOpers (A :: rest))
      (PulseData.atomicCMs kind thr omega basis nOpers rest)
      (PulseData.atomicLiou basis false (A :: rest)) (PulseData.atomicLiou basis false rest)
      t1 t2 t3 a k o
    refine h.trans ?_
    rw [h1, h2, h3]
    show _ = ((A.append ((PulseData.concatSeq rest).shift A.Qtot A.tau)).cm kind thr omega basis
      nOpers)[a][k][o]
    rw [cm_append, cm_shift _ _ _ _ _ _ _ _ hC]
    congr 2
    refine Finset.sum_congr rfl fun i _ => ?_
    rw [C15.liouville_entries]
    congr 1
    exact ih i

/-- **The pulse-correlation control matrix of pulse `p` is the from-scratch control matrix of
that pulse's segments as they sit inside the sequenced pulse** (`PulseData.seqPart`), for a
complete basis; any number of pulses and segments. -/
theorem concat_corr_eq_from_scratch (kind : MaskKind) (thr : ℝ) (omega : Vec ℝ nO)
    (basis : Vector (Mat ℂ d d) nK) (nOpers : Vector (Mat ℂ d d) nA)
    (hC : Spec.IsComplete (Spec.basisOf basis)) (ps : List (PulseData ℝ ℂ d nA))
    (p : Fin ps.length) (a : Fin nA) (k : Fin nK) (o : Fin nO) :
    (PulseData.concatenateCMCorr kind thr omega basis nOpers false ps)[p][a][k][o]
      = ((PulseData.seqPart ps p.1).cm kind thr omega basis nOpers)[a][k][o] := by
  induction ps generalizing k with
  | nil => exact p.elim0
  | cons A rest ih =>
    obtain ⟨h1, h2, h3⟩ := atomic_head kind thr omega basis nOpers false A rest
    obtain ⟨t1, t2, t3⟩ := atomic_tail kind thr omega basis nOpers false A rest
    obtain ⟨h0, hs⟩ := fromAtomicCorr_cons (PulseData.atomicPhases omega (A :: rest))
      (PulseData.atomicPhases omega rest)
      (PulseData.atomicCMs kind thr omega basis nOpers (A :: rest))
      (PulseData.atomicCMs kind thr omega basis nOpers rest)
      (PulseData.atomicLiou basis false (A :: rest)) (PulseData.atomicLiou basis false rest)
      t1 t2 t3 a k o
    refine Fin.cases ?_ (fun q => ?_) p
    · refine h0.trans ?_
      rw [h2]
      rfl
    · refine (hs q).trans ?_
      rw [h1, h3]
      show _ = (((PulseData.seqPart rest q.1).shift A.Qtot A.tau).cm kind thr omega basis
        nOpers)[a][k][o]
      rw [cm_shift _ _ _ _ _ _ _ _ hC]
      congr 1
      refine Finset.sum_congr rfl fun i _ => ?_
      rw [C15.liouville_entries]
      congr 1
      exact ih q i

/-- `concat_cm_eq_from_scratch` with the real-part cast of `liouville_representation`
(`hermitian=basis.isherm`): no difference for a Hermitian basis. -/
theorem concat_cm_eq_from_scratch_castReal (kind : MaskKind) (thr : ℝ) (omega : Vec ℝ nO)
    (basis : Vector (Mat ℂ d d) nK) (nOpers : Vector (Mat ℂ d d) nA)
    (hC : Spec.IsComplete (Spec.basisOf basis)) (hH : Spec.IsOrthoHerm (Spec.basisOf basis))
    (ps : List (PulseData ℝ ℂ d nA)) (a : Fin nA) (k : Fin nK) (o : Fin nO) :
    (PulseData.concatenateCM kind thr omega basis nOpers true ps)[a][k][o]
      = ((PulseData.concatSeq ps).cm kind thr omega basis nOpers)[a][k][o] := by
  have h : PulseData.atomicLiou basis true ps = PulseData.atomicLiou basis false ps := by
    unfold PulseData.atomicLiou
    congr 1
    funext p
    exact C15.liouville_castReal _ _ hH
  unfold PulseData.concatenateCM
  rw [h]
  exact concat_cm_eq_from_scratch kind thr omega basis nOpers hC ps a k o

end pulses

/-! ### 4. Pulse-correlation filter functions sum to the total filter function -/

/-- **Entries of the fidelity pulse-correlation filter function**
`F^{(gh)}_{ab}(ω) = Σ_k conj(B^{(g)}_{ak}(ω)) · B^{(h)}_{bk}(ω)`. -/
theorem pc_ff_entries {nP nA nK nO : Nat} (B : Vector (Ten3 ℂ nA nK nO) nP) (g h : Fin nP)
    (a b : Fin nA) (o : Fin nO) :
    (pulseCorrelationFFFid B)[g][h][a][b][o]
      = ∑ k : Fin nK, starRingEnd ℂ B[g][a][k][o] * B[h][b][k][o] :=
  pcFid_get B g h a b o

/-- **Entries of the generalized pulse-correlation filter function**
`F^{(gh)}_{ab,kl}(ω) = conj(B^{(g)}_{ak}(ω)) · B^{(h)}_{bl}(ω)`. -/
theorem pc_ff_gen_entries {nP nA nK nO : Nat} (B : Vector (Ten3 ℂ nA nK nO) nP) (g h : Fin nP)
    (a b : Fin nA) (k l : Fin nK) (o : Fin nO) :
    (pulseCorrelationFFGen B)[g][h][a][b][k][l][o]
      = starRingEnd ℂ B[g][a][k][o] * B[h][b][l][o] :=
  pcGen_get B g h a b k l o

/-- **Source pin**: operands and subscripts of the pulse-correlation contraction. -/
theorem pc_call_wiring :
    Gen.numeric_calculate_pulse_correlation_filter_function_call0_args
        = ["control_matrix.conj()", "control_matrix"] ∧
    Gen.numeric_calculate_pulse_correlation_filter_function_0_subscripts = "gako,hbko->ghabo" ∧
    Gen.numeric_calculate_pulse_correlation_filter_function_1_subscripts = "gako,hblo->ghabklo" ∧
    Gen.numeric_calculate_control_matrix_from_atomic_0_subscripts = "ijo,jk->iko" := by decide

/-- **The fidelity pulse-correlation filter functions sum over both pulse indices to the filter
function of the summed control matrix** (`F_pc.sum(axis=(0,1))` vs `calculate_filter_function` of
`control_matrix_pc.sum(axis=0)`); any pulse-correlation control matrix, any sizes. -/
theorem pc_sums_to_total {nP nA nK nO : Nat} (B : Vector (Ten3 ℂ nA nK nO) nP)
    (a b : Fin nA) (o : Fin nO) :
    (pcSumFid (pulseCorrelationFFFid B))[a][b][o] = (filterFunctionFid (sumPulses B))[a][b][o] := by
  rw [pcSumFid_get, ff_fidelity_def]
  simp only [pcFid_get, sumPulses_get, map_sum, Finset.sum_mul_sum]
  conv_rhs => rw [Finset.sum_comm]
  refine Finset.sum_congr rfl fun g _ => ?_
  exact Finset.sum_comm

/-- the same for the generalized kind -/
theorem pc_gen_sums_to_total {nP nA nK nO : Nat} (B : Vector (Ten3 ℂ nA nK nO) nP)
    (a b : Fin nA) (k l : Fin nK) (o : Fin nO) :
    (pcSumGen (pulseCorrelationFFGen B))[a][b][k][l][o]
      = (filterFunctionGen (sumPulses B))[a][b][k][l][o] := by
  rw [pcSumGen_get, ff_generalized_def]
  simp only [pcGen_get, sumPulses_get, map_sum, Finset.sum_mul_sum]

/-- … in particular for the output of `calculate_control_matrix_from_atomic`: summing the
pulse-correlation filter functions of `which='correlations'` gives the filter function of
`which='total'`. -/
theorem pc_sums_to_total_fromAtomic {nP nA N nO : Nat} (phases : Mat ℂ nP nO)
    (Bat : Vector (Ten3 ℂ nA N nO) nP) (L : Vector (Mat ℂ N N) nP) (a b : Fin nA) (o : Fin nO) :
    (pcSumFid (pulseCorrelationFFFid (controlMatrixFromAtomicCorr phases Bat L)))[a][b][o]
      = (filterFunctionFid (controlMatrixFromAtomic phases Bat L))[a][b][o] :=
  pc_sums_to_total _ a b o

/-! ### 5. Regrouping -/

/-- no pulses: the zero control matrix -/
theorem fromAtomic_nil {nA N nO : Nat} (phases : Mat ℂ 0 nO) (Bat : Vector (Ten3 ℂ nA N nO) 0)
    (L : Vector (Mat ℂ N N) 0) (a : Fin nA) (k : Fin N) (o : Fin nO) :
    (controlMatrixFromAtomic phases Bat L)[a][k][o] = 0 := by
  rw [fromAtomic_entries]
  exact Fin.sum_univ_zero _

/-- one pulse: its own control matrix (the first phase is `1`, the first `L` the identity) -/
theorem fromAtomic_one {nA N nO : Nat} (p : Vec ℂ nO) (B : Ten3 ℂ nA N nO) (L : Mat ℂ N N)
    (a : Fin nA) (k : Fin N) (o : Fin nO) :
    (controlMatrixFromAtomic (concatPhases #v[p]) #v[B] (concatL #v[L]))[a][k][o] = B[a][k][o] := by
  rw [fromAtomic_cons #v[p] #v[] #v[B] #v[] #v[L] #v[] (fun i hi => absurd hi (by omega))
    (fun i hi => absurd hi (by omega)) (fun i hi => absurd hi (by omega))]
  simp only [fromAtomic_nil, zero_mul, Finset.sum_const_zero, mul_zero, add_zero]
  rfl

/-- two pulses: `B_A + e^{iωτ_A} · B_B · L_A` (phase and `L` of the last pulse do not enter) -/
theorem fromAtomic_two {nA N nO : Nat} (pA pB : Vec ℂ nO) (BA BB : Ten3 ℂ nA N nO)
    (LA LB : Mat ℂ N N) (a : Fin nA) (k : Fin N) (o : Fin nO) :
    (controlMatrixFromAtomic (concatPhases #v[pA, pB]) #v[BA, BB] (concatL #v[LA, LB]))[a][k][o]
      = BA[a][k][o] + pA[o] * ∑ i : Fin N, BB[a][i][o] * LA[i][k] := by
  rw [fromAtomic_cons #v[pA, pB] #v[pB] #v[BA, BB] #v[BB] #v[LA, LB] #v[LB]
    (fun i hi => by obtain rfl : i = 0 := by omega
                    rfl)
    (fun i hi => by obtain rfl : i = 0 := by omega
                    rfl)
    (fun i hi => by obtain rfl : i = 0 := by omega
                    rfl)]
  simp only [fromAtomic_one]
  rfl

/-- three pulses -/
theorem fromAtomic_three {nA N nO : Nat} (pA pB pC : Vec ℂ nO) (BA BB BC : Ten3 ℂ nA N nO)
    (LA LB LC : Mat ℂ N N) (a : Fin nA) (k : Fin N) (o : Fin nO) :
    (controlMatrixFromAtomic (concatPhases #v[pA, pB, pC]) #v[BA, BB, BC]
        (concatL #v[LA, LB, LC]))[a][k][o]
      = BA[a][k][o] + pA[o] * ∑ i : Fin N,
          (BB[a][i][o] + pB[o] * ∑ j : Fin N, BC[a][j][o] * LB[j][i]) * LA[i][k] := by
  rw [fromAtomic_cons #v[pA, pB, pC] #v[pB, pC] #v[BA, BB, BC] #v[BB, BC] #v[LA, LB, LC] #v[LB, LC]
    (fun i hi => by
      rcases i with _ | _ | i
      · rfl
      · rfl
      · omega)
    (fun i hi => by
      rcases i with _ | _ | i
      · rfl
      · rfl
      · omega)
    (fun i hi => by
      rcases i with _ | _ | i
      · rfl
      · rfl
      · omega)]
  simp only [fromAtomic_two]
  rfl

/-- **Regrouping does not change the result** (pure algebra, any numbers): the from-atomic control
matrix of `[A, B, C]` equals that of `[AB, C]` and that of `[A, BC]`, where the control matrix of
a group is itself obtained by the rule, its total phase is the product of the members' total phases
(`e^{iω(τ_A+τ_B)}`) and its total Liouville propagator the product `L_B L_A` of theirs
(`= L(Q_B Q_A)` for a complete basis by `C15.liou_mul`). -/
theorem concat_assoc {nA N nO : Nat} (pA pB pC : Vec ℂ nO) (BA BB BC : Ten3 ℂ nA N nO)
    (LA LB LC : Mat ℂ N N) (a : Fin nA) (k : Fin N) (o : Fin nO) :
    (controlMatrixFromAtomic (concatPhases #v[pA, pB, pC]) #v[BA, BB, BC]
        (concatL #v[LA, LB, LC]))[a][k][o]
      = (controlMatrixFromAtomic
          (concatPhases #v[Vector.ofFn fun o => pA[o] * pB[o], pC])
          #v[controlMatrixFromAtomic (concatPhases #v[pA, pB]) #v[BA, BB] (concatL #v[LA, LB]), BC]
          (concatL #v[Mat.mul LB LA, LC]))[a][k][o]
    ∧ (controlMatrixFromAtomic (concatPhases #v[pA, pB, pC]) #v[BA, BB, BC]
        (concatL #v[LA, LB, LC]))[a][k][o]
      = (controlMatrixFromAtomic
          (concatPhases #v[pA, Vector.ofFn fun o => pB[o] * pC[o]])
          #v[BA, controlMatrixFromAtomic (concatPhases #v[pB, pC]) #v[BB, BC] (concatL #v[LB, LC])]
          (concatL #v[LA, Mat.mul LC LB]))[a][k][o] := by
  constructor
  · rw [fromAtomic_three, fromAtomic_two, fromAtomic_two, ConcatAux.vec_ofFn_get]
    have hm : ∀ i : Fin N, (Mat.mul LB LA)[i][k] = ∑ j : Fin N, LB[i][j] * LA[j][k] := by
      intro i
      rw [← Mat.toMatrix_apply, Mat.toMatrix_mul, Matrix.mul_apply]
      rfl
    simp only [hm, add_mul, Finset.sum_add_distrib, mul_add, Finset.mul_sum, Finset.sum_mul,
      add_assoc]
    congr 2
    rw [Finset.sum_comm]
    refine Finset.sum_congr rfl fun i _ => Finset.sum_congr rfl fun j _ => ?_
    ring
  · rw [fromAtomic_three, fromAtomic_two]
    simp only [fromAtomic_two]

/-! ### 6. `G` copies of one pulse: the geometric-series form -/

/-- **`G` copies of one pulse.**  If all rows of the inputs of `concatenate` coincide (total phases
`ph`, control matrix `B`, total Liouville propagator `Lq`), the from-atomic control matrix — with
`phases[g] = ph^g` and `L[g] = Lq^g` produced by the recursions of `concatenate` — equals
`B · Σ_{g<G} (ph · Lq)^g` per frequency, the form `calculate_control_matrix_periodic` evaluates.
Pure algebra; every `G` (including `0`), every size. -/
theorem periodic_eq_from_atomic {G nA N nO : Nat} (tp : Mat ℂ G nO)
    (Bat : Vector (Ten3 ℂ nA N nO) G) (Lt : Vector (Mat ℂ N N) G)
    (ph : Vec ℂ nO) (B : Ten3 ℂ nA N nO) (Lq : Mat ℂ N N)
    (htp : ∀ (i : Nat) (hi : i < G), tp[i] = ph) (hB : ∀ (i : Nat) (hi : i < G), Bat[i] = B)
    (hL : ∀ (i : Nat) (hi : i < G), Lt[i] = Lq) (a : Fin nA) (k : Fin N) (o : Fin nO) :
    (controlMatrixFromAtomic (concatPhases tp) Bat (concatL Lt))[a][k][o]
      = (periodicApply B (Vector.ofFn fun o => geomSum (Mat.smul ph[o] Lq) G))[a][k][o] := by
  rw [fromAtomic_entries, periodicApply_get, Finset.sum_comm]
  refine Finset.sum_congr rfl fun j _ => ?_
  rw [ConcatAux.vec_ofFn_get, ← Mat.toMatrix_apply (geomSum _ _), C04.geomSum_toMatrix,
    Mat.toMatrix_smul, Finset.sum_range, Matrix.sum_apply, Finset.mul_sum]
  refine Finset.sum_congr rfl fun g _ => ?_
  have h1 : (concatL Lt)[g][j][k] = (Lq.toMatrix ^ g.1) j k := by
    rw [concatL_get, ← cumL_const Lt Lq hL g.1 (le_of_lt g.2)]
    rfl
  have h2 : Bat[g] = B := hB g.1 g.2
  rw [concatPhases_get, cumPhase_const tp ph htp o g.1 (le_of_lt g.2), h2, h1, smul_pow,
    Matrix.smul_apply, smul_eq_mul]
  ring

/-- the same with the inputs written as `G`-fold repetitions -/
theorem periodic_eq_from_atomic_replicate {nA N nO : Nat} (G : Nat) (ph : Vec ℂ nO)
    (B : Ten3 ℂ nA N nO) (Lq : Mat ℂ N N) (a : Fin nA) (k : Fin N) (o : Fin nO) :
    (controlMatrixFromAtomic (concatPhases (Vector.replicate G ph)) (Vector.replicate G B)
        (concatL (Vector.replicate G Lq)))[a][k][o]
      = (periodicApply B (Vector.ofFn fun o => geomSum (Mat.smul ph[o] Lq) G))[a][k][o] :=
  periodic_eq_from_atomic _ _ _ ph B Lq (fun _ _ => Vector.getElem_replicate _)
    (fun _ _ => Vector.getElem_replicate _) (fun _ _ => Vector.getElem_replicate _) a k o

/-- **`calculate_control_matrix_periodic` equals concatenation of `G` copies**: with `S` computed
by either branch of the code (linear solve where the determinant test flags `1 - T` invertible and
the solve meets its contract, explicit sum elsewhere; `T = e^{iωτ} L`), `B @ S` is the from-atomic
control matrix of `G ≥ 1` copies. -/
theorem periodic_code_eq_from_atomic {nA N nO : Nat} (G : Nat) (hG : 1 ≤ G) (ph : Vec ℂ nO)
    (B : Ten3 ℂ nA N nO) (Lq : Mat ℂ N N) (inv : Fin nO → Bool) (X : Fin nO → Mat ℂ N N)
    (hsolve : ∀ o, inv o = true → (1 - (Mat.smul ph[o] Lq).toMatrix).det ≠ 0 ∧
      (1 - (Mat.smul ph[o] Lq).toMatrix) * (X o).toMatrix = 1 - (Mat.smul ph[o] Lq).toMatrix ^ G)
    (a : Fin nA) (k : Fin N) (o : Fin nO) :
    (periodicApply B (Vector.ofFn fun o => periodicS (inv o) (X o) (Mat.smul ph[o] Lq) G))[a][k][o]
      = (controlMatrixFromAtomic (concatPhases (Vector.replicate G ph)) (Vector.replicate G B)
          (concatL (Vector.replicate G Lq)))[a][k][o] := by
  rw [periodic_eq_from_atomic_replicate, periodicApply_get, periodicApply_get]
  refine Finset.sum_congr rfl fun j _ => ?_
  rw [ConcatAux.vec_ofFn_get, ConcatAux.vec_ofFn_get]
  have h : periodicS (inv o) (X o) (Mat.smul ph[o] Lq) G = geomSum (Mat.smul ph[o] Lq) G := by
    apply Mat.ext'
    rw [C04.periodicS_eq_geomSum (inv o) (X o) _ G hG (hsolve o), C04.geomSum_toMatrix]
  rw [h]

/-! ### 7. Corollaries on pulse data -/

section corollaries
variable {d nA nO nK : Nat}

/-- **Two pulses, written out**: `calculate_control_matrix_from_atomic` on the inputs assembled for
`[A, B]` is the from-scratch control matrix of `A` followed by `B`.  `LA` is any matrix equal to the
Liouville representation of `A`'s total propagator; the phase and `L` of the last pulse do not
enter. -/
theorem concat2_cm_eq_from_scratch (kind : MaskKind) (thr : ℝ) (omega : Vec ℝ nO)
    (basis : Vector (Mat ℂ d d) nK) (nOpers : Vector (Mat ℂ d d) nA)
    (hC : Spec.IsComplete (Spec.basisOf basis)) (A B : PulseData ℝ ℂ d nA) (LA LB : Mat ℂ nK nK)
    (hLA : LA.toMatrix = Spec.liou (Spec.basisOf basis) A.Qtot.toMatrix)
    (a : Fin nA) (k : Fin nK) (o : Fin nO) :
    (controlMatrixFromAtomic (concatPhases #v[A.totalPhases omega, B.totalPhases omega])
        #v[A.cm kind thr omega basis nOpers, B.cm kind thr omega basis nOpers]
        (concatL #v[LA, LB]))[a][k][o]
      = ((A.concat2 B).cm kind thr omega basis nOpers)[a][k][o] := by
  rw [fromAtomic_two]
  show _ = ((A.append (B.shift A.Qtot A.tau)).cm kind thr omega basis nOpers)[a][k][o]
  rw [cm_append, cm_shift _ _ _ _ _ _ _ _ hC, ← hLA]
  congr 2
  simp [PulseData.totalPhases]

/-- **The pulse-correlation filter functions of a concatenation sum to the from-scratch filter
function of the sequenced pulse** (fidelity kind), complete basis. -/
theorem pc_sums_to_from_scratch (kind : MaskKind) (thr : ℝ) (omega : Vec ℝ nO)
    (basis : Vector (Mat ℂ d d) nK) (nOpers : Vector (Mat ℂ d d) nA)
    (hC : Spec.IsComplete (Spec.basisOf basis)) (ps : List (PulseData ℝ ℂ d nA))
    (a b : Fin nA) (o : Fin nO) :
    (pcSumFid (pulseCorrelationFFFid
        (PulseData.concatenateCMCorr kind thr omega basis nOpers false ps)))[a][b][o]
      = (filterFunctionFid ((PulseData.concatSeq ps).cm kind thr omega basis nOpers))[a][b][o] := by
  rw [pc_sums_to_total, ff_fidelity_def, ff_fidelity_def]
  refine Finset.sum_congr rfl fun k _ => ?_
  have e : sumPulses (PulseData.concatenateCMCorr kind thr omega basis nOpers false ps)
      = PulseData.concatenateCM kind thr omega basis nOpers false ps := rfl
  rw [e, concat_cm_eq_from_scratch kind thr omega basis nOpers hC,
    concat_cm_eq_from_scratch kind thr omega basis nOpers hC]

/-- control matrix of `A` followed by `X`: `B_A + e^{iωτ_A} · B_X · L(Q_A)` (complete basis) -/
theorem cm_concat2 (kind : MaskKind) (thr : ℝ) (omega : Vec ℝ nO)
    (basis : Vector (Mat ℂ d d) nK) (nOpers : Vector (Mat ℂ d d) nA)
    (hC : Spec.IsComplete (Spec.basisOf basis)) (A X : PulseData ℝ ℂ d nA)
    (a : Fin nA) (k : Fin nK) (o : Fin nO) :
    ((A.concat2 X).cm kind thr omega basis nOpers)[a][k][o]
      = (A.cm kind thr omega basis nOpers)[a][k][o]
        + Complex.exp (Complex.I * ((omega[o] : ℂ) * (A.tau : ℂ))) *
          ∑ j : Fin nK, (X.cm kind thr omega basis nOpers)[a][j][o]
            * Spec.liou (Spec.basisOf basis) A.Qtot.toMatrix j k := by
  show ((A.append (X.shift A.Qtot A.tau)).cm kind thr omega basis nOpers)[a][k][o] = _
  rw [cm_append, cm_shift _ _ _ _ _ _ _ _ hC]

/-- **Regrouping at the level of the from-scratch control matrix**: `(A B) R` and `A (B R)` have
the same control matrix (complete basis; uses `L(Q_B Q_A) = L(Q_B) L(Q_A)`). -/
theorem cm_concat2_assoc (kind : MaskKind) (thr : ℝ) (omega : Vec ℝ nO)
    (basis : Vector (Mat ℂ d d) nK) (nOpers : Vector (Mat ℂ d d) nA)
    (hC : Spec.IsComplete (Spec.basisOf basis)) (A B R : PulseData ℝ ℂ d nA)
    (a : Fin nA) (k : Fin nK) (o : Fin nO) :
    (((A.concat2 B).concat2 R).cm kind thr omega basis nOpers)[a][k][o]
      = ((A.concat2 (B.concat2 R)).cm kind thr omega basis nOpers)[a][k][o] := by
  have hQ : (A.concat2 B).Qtot.toMatrix = B.Qtot.toMatrix * A.Qtot.toMatrix := by
    show (Mat.mul B.Qtot A.Qtot).toMatrix = _
    rw [Mat.toMatrix_mul]
  have hT : (A.concat2 B).tau = B.tau + A.tau := rfl
  rw [cm_concat2 _ _ _ _ _ hC, cm_concat2 _ _ _ _ _ hC, cm_concat2 _ _ _ _ _ hC, hQ, hT,
    C15.liou_mul hC, expI_shift]
  simp only [cm_concat2 _ _ _ _ _ hC, Matrix.mul_apply, add_mul, Finset.sum_add_distrib, mul_add,
    Finset.mul_sum, Finset.sum_mul, add_assoc]
  congr 2
  rw [Finset.sum_comm]
  refine Finset.sum_congr rfl fun i _ => Finset.sum_congr rfl fun j _ => ?_
  ring

/-- **Regrouping does not change what `concatenate` caches** (left): replacing the first two pulses
`A, B` of the list by the sequenced pulse `AB` gives the same control matrix; complete basis. -/
theorem concat_regroup_left (kind : MaskKind) (thr : ℝ) (omega : Vec ℝ nO)
    (basis : Vector (Mat ℂ d d) nK) (nOpers : Vector (Mat ℂ d d) nA)
    (hC : Spec.IsComplete (Spec.basisOf basis)) (A B : PulseData ℝ ℂ d nA)
    (rest : List (PulseData ℝ ℂ d nA)) (a : Fin nA) (k : Fin nK) (o : Fin nO) :
    (PulseData.concatenateCM kind thr omega basis nOpers false (A.concat2 B :: rest))[a][k][o]
      = (PulseData.concatenateCM kind thr omega basis nOpers false (A :: B :: rest))[a][k][o] := by
  rw [concat_cm_eq_from_scratch kind thr omega basis nOpers hC,
    concat_cm_eq_from_scratch kind thr omega basis nOpers hC]
  exact cm_concat2_assoc kind thr omega basis nOpers hC A B (PulseData.concatSeq rest) a k o

/-- … (right): replacing the second and third pulse `B, C` by the sequenced pulse `BC`. -/
theorem concat_regroup_right (kind : MaskKind) (thr : ℝ) (omega : Vec ℝ nO)
    (basis : Vector (Mat ℂ d d) nK) (nOpers : Vector (Mat ℂ d d) nA)
    (hC : Spec.IsComplete (Spec.basisOf basis)) (A B C : PulseData ℝ ℂ d nA)
    (rest : List (PulseData ℝ ℂ d nA)) (a : Fin nA) (k : Fin nK) (o : Fin nO) :
    (PulseData.concatenateCM kind thr omega basis nOpers false (A :: B.concat2 C :: rest))[a][k][o]
      = (PulseData.concatenateCM kind thr omega basis nOpers false (A :: B :: C :: rest))[a][k][o] := by
  rw [concat_cm_eq_from_scratch kind thr omega basis nOpers hC,
    concat_cm_eq_from_scratch kind thr omega basis nOpers hC]
  show ((A.concat2 ((B.concat2 C).concat2 (PulseData.concatSeq rest))).cm kind thr omega basis
      nOpers)[a][k][o]
    = ((A.concat2 (B.concat2 (C.concat2 (PulseData.concatSeq rest)))).cm kind thr omega basis
      nOpers)[a][k][o]
  rw [cm_concat2 _ _ _ _ _ hC, cm_concat2 _ _ _ _ _ hC A]
  simp only [cm_concat2_assoc kind thr omega basis nOpers hC]

/-- **Periodic repetition = explicit repetition = from scratch**: `B @ Σ_{g<G} (e^{iωτ} L)^g`
(the quantity `calculate_control_matrix_periodic` evaluates, see `C04.periodicS_eq_geomSum`) is the
from-scratch control matrix of `G` copies of the pulse in sequence; complete basis, every `G`. -/
theorem periodic_eq_from_scratch (kind : MaskKind) (thr : ℝ) (omega : Vec ℝ nO)
    (basis : Vector (Mat ℂ d d) nK) (nOpers : Vector (Mat ℂ d d) nA)
    (hC : Spec.IsComplete (Spec.basisOf basis)) (A : PulseData ℝ ℂ d nA) (G : Nat)
    (a : Fin nA) (k : Fin nK) (o : Fin nO) :
    (periodicApply (A.cm kind thr omega basis nOpers) (Vector.ofFn fun o =>
        geomSum (Mat.smul (A.totalPhases omega)[o] (liouville A.Qtot basis false)) G))[a][k][o]
      = ((PulseData.concatSeq (List.replicate G A)).cm kind thr omega basis nOpers)[a][k][o] := by
  have h1 : ∀ (i : Nat) (hi : i < (List.replicate G A).length),
      (PulseData.atomicPhases omega (List.replicate G A))[i] = A.totalPhases omega := by
    intro i hi
    rw [atomicPhases_get, List.getElem_replicate]
  have h2 : ∀ (i : Nat) (hi : i < (List.replicate G A).length),
      (PulseData.atomicCMs kind thr omega basis nOpers (List.replicate G A))[i]
        = A.cm kind thr omega basis nOpers := by
    intro i hi
    rw [atomicCMs_get, List.getElem_replicate]
  have h3 : ∀ (i : Nat) (hi : i < (List.replicate G A).length),
      (PulseData.atomicLiou basis false (List.replicate G A))[i]
        = liouville A.Qtot basis false := by
    intro i hi
    rw [atomicLiou_get, List.getElem_replicate]
  rw [← concat_cm_eq_from_scratch kind thr omega basis nOpers hC]
  unfold PulseData.concatenateCM
  rw [periodic_eq_from_atomic _ _ _ _ _ _ h1 h2 h3, List.length_replicate]

end corollaries

/-! ### Non-vacuity of the hypotheses -/

/-- the normalised Pauli basis `(1, σx, σy, σz)·s` as model data (`s = 1/√2`) -/
def pauliBasis (s : ℂ) : Vector (Mat ℂ 2 2) 4 :=
  #v[#v[#v[s, 0], #v[0, s]], #v[#v[0, s], #v[s, 0]],
     #v[#v[0, -(Complex.I * s)], #v[Complex.I * s, 0]], #v[#v[s, 0], #v[0, -s]]]

/-- `1/√2` -/
noncomputable def invSqrt2 : ℂ := ((Real.sqrt 2)⁻¹ : ℝ)

theorem invSqrt2_sq : invSqrt2 * invSqrt2 = 1 / 2 := by
  unfold invSqrt2
  rw [← Complex.ofReal_mul, ← mul_inv, Real.mul_self_sqrt (by norm_num)]
  norm_num

/-- the completeness hypothesis of this file is satisfiable by model data: the Pauli basis -/
theorem pauliBasis_complete (s : ℂ) (hs : s * s = 1 / 2) :
    Spec.IsComplete (Spec.basisOf (pauliBasis s)) := by
  apply C15.complete_of_swap
  intro a b c e
  have hI : Complex.I * s * (Complex.I * s) = -(1 / 2) := by
    linear_combination (Complex.I ^ 2) * hs + (1 / 2 : ℂ) * Complex.I_sq
  fin_cases a <;> fin_cases b <;> fin_cases c <;> fin_cases e <;>
    simp [Fin.sum_univ_four, Spec.basisOf, pauliBasis, Mat.toMatrix, hs, hI] <;>
    norm_num

/-- … and so is Hermiticity / orthonormality (hypothesis of the `castReal` variant) -/
theorem pauliBasis_orthoHerm (s : ℂ) (hs : s * s = 1 / 2) (hr : starRingEnd ℂ s = s) :
    Spec.IsOrthoHerm (Spec.basisOf (pauliBasis s)) := by
  have hI : Complex.I * s * (Complex.I * s) = -(1 / 2) := by
    linear_combination (Complex.I ^ 2) * hs + (1 / 2 : ℂ) * Complex.I_sq
  constructor
  · intro i
    ext a b
    fin_cases i <;> fin_cases a <;> fin_cases b <;>
      simp [Spec.basisOf, pauliBasis, Mat.toMatrix, Matrix.conjTranspose_apply, hr]
  · intro i j
    fin_cases i <;> fin_cases j <;>
      simp [Spec.basisOf, pauliBasis, Mat.toMatrix, Matrix.trace, Matrix.mul_apply,
        Fin.sum_univ_two, hs, hI] <;> norm_num

theorem invSqrt2_real : starRingEnd ℂ invSqrt2 = invSqrt2 := Complex.conj_ofReal _

example {nA nO : Nat} (kind : MaskKind) (thr : ℝ) (omega : Vec ℝ nO)
    (nOpers : Vector (Mat ℂ 2 2) nA) (ps : List (PulseData ℝ ℂ 2 nA))
    (a : Fin nA) (k : Fin 4) (o : Fin nO) :
    (PulseData.concatenateCM kind thr omega (pauliBasis invSqrt2) nOpers true ps)[a][k][o]
      = ((PulseData.concatSeq ps).cm kind thr omega (pauliBasis invSqrt2) nOpers)[a][k][o] :=
  concat_cm_eq_from_scratch_castReal kind thr omega _ nOpers (pauliBasis_complete _ invSqrt2_sq)
    (pauliBasis_orthoHerm _ invSqrt2_sq invSqrt2_real) ps a k o

/-- `concat_cm_eq_from_scratch` applies to every list of single-qubit pulses (with any segment
counts) expanded in the Pauli basis -/
example {nA nO : Nat} (kind : MaskKind) (thr : ℝ) (omega : Vec ℝ nO)
    (nOpers : Vector (Mat ℂ 2 2) nA) (ps : List (PulseData ℝ ℂ 2 nA))
    (a : Fin nA) (k : Fin 4) (o : Fin nO) :
    (PulseData.concatenateCM kind thr omega (pauliBasis invSqrt2) nOpers false ps)[a][k][o]
      = ((PulseData.concatSeq ps).cm kind thr omega (pauliBasis invSqrt2) nOpers)[a][k][o] :=
  concat_cm_eq_from_scratch kind thr omega _ nOpers (pauliBasis_complete _ invSqrt2_sq) ps a k o

/-- the hypotheses `hprops`, `ht` of `shifted_pulse_cm` are met by `PulseData.shift` (this is
`cm_shift`); the solve contract of `periodic_code_eq_from_atomic` is vacuous on the fallback
branch: -/
example {nA N nO : Nat} (G : Nat) (hG : 1 ≤ G) (ph : Vec ℂ nO) (B : Ten3 ℂ nA N nO)
    (Lq : Mat ℂ N N) (a : Fin nA) (k : Fin N) (o : Fin nO) :
    (periodicApply B (Vector.ofFn fun o =>
        periodicS false (Mat.one : Mat ℂ N N) (Mat.smul ph[o] Lq) G))[a][k][o]
      = (controlMatrixFromAtomic (concatPhases (Vector.replicate G ph)) (Vector.replicate G B)
          (concatL (Vector.replicate G Lq)))[a][k][o] :=
  periodic_code_eq_from_atomic G hG ph B Lq (fun _ => false) (fun _ => Mat.one)
    (fun _ h => absurd h (by simp)) a k o

end FFVerif.C03c
