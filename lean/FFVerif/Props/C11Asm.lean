/-
C11 (assembly of the control-matrix derivative) — what the array code of
`gradient._control_matrix_at_timestep_derivative` and
`gradient.calculate_derivative_of_control_matrix_from_scratch` computes, entry by entry
(model: `Model/GradientAsm.lean`, executed against the real package by `corr_c11asm.py`).

Stage 2 (algebra):
* `ctrlmatStepM_entry`       : the array `M` after `util.tensor` / `tensor_transpose` / `np.diagonal` /
                               F-order reshapes / two einsums / `swapaxes`;
* `ctrlmatStepM_smul`        : `M` is linear in the noise operator (the sensitivity `s_a` factors out);
* `ctrlmatStepDeriv_entry`   : `ctrlmat_step_deriv = i · e^{iωt} · tr(C̄_j · M) + (∂s/s) · ctrlmat_step`;
* `liouvilleDerivative_theta`: the entries of `_liouville_derivative` with `g' > g-1` vanish (Θ);
* `controlMatrixDeriv_entry` : the product-rule formula of the docstring.

Property theorems only (helper lemmas: `Lemmas/GradientAsmAux.lean`).
-/
import FFVerif.Lemmas.GradientAsmAux

namespace FFVerif.C11
open FFVerif FFVerif.Model FFVerif.GradientAsmAux Matrix Complex
open scoped Matrix

/-! ### 1. `_control_matrix_at_timestep_derivative` -/

/-- **The array `M` of `_control_matrix_at_timestep_derivative`, entry by entry.**  For all
dimensions and operator counts, with `B̄ = n_opers_transformed[a]`, `C̄ = c_opers_transformed[h]` and
`DI = deriv_integral` (`DI[o][p][q][m][n]`, `(p,q)` the inner energy difference, `(m,n)` the one
combined with the frequency):

  `M[a,h,o,u,v] = Σ_m C̄[u,m] · B̄[m,v] · DI[o,u,m,m,v]  −  Σ_n B̄[u,n] · C̄[n,v] · DI[o,n,v,u,n]`.

This is what `K = util.tensor(…)`, `L = util.tensor_transpose(…)`, the two `np.diagonal` calls on
each of `K`, `L`, `deriv_integral`, the four `order='F'` reshapes, the two einsums
(`'ahpm,opm->ahop'`, `'ahpn,opn->ahop'`, generated contractions) and the final `swapaxes` compute.

Relation to the docstring (`𝕄_mn = [C̄_j, 𝕀^{(mn)} ∘ H̄_h]_mn`, contracted with `B̄_α`): the code
contracts `M` with the BASIS element `C̄_j` and builds `M` from the NOISE operator `B̄_α`, i.e. the
roles of `B̄_α` and `C̄_j` in the docstring are exchanged (equivalent by cyclicity of the trace); and
`M_uv = [𝕁 ∘ H̄_h , B̄_α]_uv` where the integral factor attached to `H̄_h` depends on the summation
index as well: `(𝕁 ∘ H̄_h)_{um} = DI[o,u,m,m,v] H̄_h[u,m]` in the first term,
`(𝕁 ∘ H̄_h)_{nv} = DI[o,n,v,u,n] H̄_h[n,v]` in the second — the docstring's superscript `(mn)` is
only part of the index dependence. -/
theorem ctrlmatStepM_entry {nA nH nO d : Nat} (Bt : Vector (Mat ℂ d d) nA)
    (Ct : Vector (Mat ℂ d d) nH) (DI : Vector (Ten4 ℂ d d d d) nO) (a : Fin nA) (h : Fin nH)
    (o : Fin nO) (u v : Fin d) :
    (ctrlmatStepM Bt Ct DI)[a][h][o][u][v]
      = (∑ m : Fin d, Ct[h][u][m] * Bt[a][m][v] * DI[o][u][m][m][v])
        - ∑ n : Fin d, Bt[a][u][n] * Ct[h][n][v] * DI[o][n][v][u][n] :=
  ctrlmatStepM_get Bt Ct DI a h o u v

/-- `M` is linear in the (transformed) noise operator: with `n_opers_transformed[a] = s_a · V†B_aV`
(`nOpersTransformed`) the sensitivity `s_a` factors out of `M[a]` — the docstring's
`i δ_{gg'} s_α tr(…)`. -/
theorem ctrlmatStepM_smul {nA nH nO d : Nat} (V : Mat ℂ d d) (nOpers : Vector (Mat ℂ d d) nA)
    (nc : Vec ℝ nA) (Ct : Vector (Mat ℂ d d) nH) (DI : Vector (Ten4 ℂ d d d d) nO) (a : Fin nA)
    (h : Fin nH) (o : Fin nO) (u v : Fin d) :
    (ctrlmatStepM (nOpersTransformed V nOpers nc) Ct DI)[a][h][o][u][v]
      = (nc[a] : ℂ) * (ctrlmatStepM (opersTransformed V nOpers) Ct DI)[a][h][o][u][v] := by
  rw [ctrlmatStepM_get, ctrlmatStepM_get, mul_sub, Finset.mul_sum, Finset.mul_sum]
  simp only [nOpersTransformed, opersTransformed, vget, smul_get, copsOfReal]
  congr 1 <;> refine Finset.sum_congr rfl fun m _ => ?_ <;> ring

/-- **`ctrlmat_step_deriv`, entry by entry.**
`ctrlmat_step_deriv[a,j,h,o] = i · e^{iω_o t_g} · tr(C̄_j · M[a,h,o]) + (∂s_a/∂u_h / s_a) · ctrlmat_step[a,j,o]`
(the last term only if `n_coeffs_deriv` is given), `M` as in `ctrlmatStepM_entry`. -/
theorem ctrlmatStepDeriv_entry {nA nH nK nO d : Nat} (ph : Vec ℂ nO)
    (bT : Vector (Mat ℂ d d) nK) (M : Vector (Vector (Vector (Mat ℂ d d) nO) nH) nA)
    (nc : Vec ℝ nA) (ncd : Option (Mat ℝ nA nH)) (cstep : Ten3 ℂ nA nK nO) (a : Fin nA)
    (j : Fin nK) (h : Fin nH) (o : Fin nO) :
    (ctrlmatStepDeriv ph bT M nc ncd cstep)[a][j][h][o]
      = Complex.I * ph[o] * Matrix.trace (bT[j].toMatrix * M[a][h][o].toMatrix)
        + (match ncd with
           | none => 0
           | some ds => ((ds[a][h] / nc[a] : ℝ) : ℂ) * cstep[a][j][o]) := by
  have key : (∑ n : Fin d, ∑ k : Fin d, ph[o] * (Complex.I * bT[j][n][k]) * M[a][h][o][k][n])
      = Complex.I * ph[o] * Matrix.trace (bT[j].toMatrix * M[a][h][o].toMatrix) := by
    simp only [Matrix.trace, Matrix.diag_apply, Matrix.mul_apply, Mat.toMatrix_apply,
      Finset.mul_sum]
    refine Finset.sum_congr rfl fun n _ => Finset.sum_congr rfl fun k _ => ?_
    ring
  cases ncd with
  | none => rw [ctrlmatStepDeriv_get_none, key, add_zero]
  | some ds => rw [ctrlmatStepDeriv_get_some, key]

/-- non-vacuity / sanity of `ctrlmatStepM_entry`: `d = 1` — all operators are numbers, the two
terms cancel (`[C̄, B̄] = 0`): `M = 0` whatever the integrals are. -/
example (Bt : Vector (Mat ℂ 1 1) 1) (Ct : Vector (Mat ℂ 1 1) 1) (DI : Vector (Ten4 ℂ 1 1 1 1) 1) :
    (ctrlmatStepM Bt Ct DI)[(0 : Fin 1)][(0 : Fin 1)][(0 : Fin 1)][(0 : Fin 1)][(0 : Fin 1)] = 0 := by
  rw [ctrlmatStepM_entry]
  simp only [Finset.univ_unique, Fin.default_eq_zero, Finset.sum_singleton]
  ring

/-! ### 2. `_liouville_derivative` and `calculate_derivative_of_control_matrix_from_scratch` -/

/-- **The step function `Θ_{g-1}(g')` of the docstring of `_liouville_derivative`.**  The entry
`liouville_deriv[t, h, s, j, k]` (derivative of the Liouville representation of `Q_{t+1}` with respect
to the amplitude of `C_h` in segment `s`) vanishes for `s > t`: a later segment does not influence
an earlier cumulative propagator (`propagators_deriv` is only filled for `s ≤ t`, exactly the
segments `0 … t` that make up `Q_{t+1}`).  The docstring's "`Θ_{g-1}(g') = 1` if `g' < g-1`" is
off by one against the code when `g'` and `g-1` are counted alike (`Q^{(g-1)}`, the propagator up to
the start of segment `g`, does depend on segment `g-1`); the code is the correct one, see
`CmDerivAux.liouvilleDerivative_hasDerivAt`. -/
theorem liouvilleDerivative_theta {nG nH N d : Nat} (thrA : ℝ) (dt : Vec ℝ nG)
    (props : Vector (Mat ℂ d d) (nG + 1)) (basis : Vector (Mat ℂ d d) N)
    (eigvecs : Vector (Mat ℂ d d) nG) (eigvals : Mat ℝ nG d)
    (cT : Vector (Vector (Mat ℂ d d) nH) nG) (t : Fin (nG - 1)) (h : Fin nH) (s : Fin nG)
    (j k : Fin N) (hts : t.1 < s.1) :
    (liouvilleDerivative thrA dt props basis eigvecs eigvals cT)[t][h][s][j][k] = 0 := by
  exact liouvilleDerivative_eq_zero_of_lt thrA dt props basis eigvecs eigvals cT t h s j k hts

/-- **The product-rule formula of the docstring of
`calculate_derivative_of_control_matrix_from_scratch`, as the code evaluates it.**  For every
control direction `h`, frequency `o`, segment `g'` (`= g` here), noise operator `a` and basis index
`k`:

  `ctrlmat_deriv[h,o,g',a,k] = Σ_j ∂B^{(g')}_{aj}/∂u_h(g') · L(Q_{g'})_{jk}
                               + Σ_{g > g'} Σ_j B^{(g)}_{aj} · ∂L(Q_g)_{jk}/∂u_h(g')`

with `∂B^{(g')}_{aj}/∂u_h` = `ctrlmat_step_deriv` of loop pass `g'` (`cmdStep …).2`,
`ctrlmatStepDeriv_entry`), `B^{(g)}` = `ctrlmat_step[g]` (`(cmdStep …).1`), `L(Q_g)` =
`liouville_representation(propagators[g])` and `∂L(Q_g)/∂u_h(g')` = `liouville_deriv[g-1, h, g']`
(`liouvilleDerivative`; segments `g = tt + 1 ≤ g'` contribute nothing, `liouvilleDerivative_theta`).
The phase factors `e^{iω t_g}` of the docstring are INSIDE the step quantities (`phase_factor` is an
operand of both contractions). -/
theorem controlMatrixDeriv_entry {nG d nO nA nH nK : Nat} (kind : MaskKind)
    (thrF thrD thrA : ℝ) (castReal : Bool) (omega : Vec ℝ nO) (props : Vector (Mat ℂ d d) (nG + 1))
    (eigvals : Mat ℝ nG d) (eigvecs : Vector (Mat ℂ d d) nG) (basis : Vector (Mat ℂ d d) nK)
    (t : Vec ℝ (nG + 1)) (dt : Vec ℝ nG) (nOpers : Vector (Mat ℂ d d) nA) (nCoeffs : Mat ℝ nA nG)
    (cOpers : Vector (Mat ℂ d d) nH) (nCoeffsDeriv : Option (Vector (Mat ℝ nH nG) nA))
    (h : Fin nH) (o : Fin nO) (g : Fin nG) (a : Fin nA) (k : Fin nK) :
    (controlMatrixDerivFromScratch kind thrF thrD thrA castReal omega props eigvals eigvecs basis t
        dt nOpers nCoeffs cOpers nCoeffsDeriv)[h][o][g][a][k]
      = (∑ j : Fin nK,
          ((cmdSteps kind thrF thrD omega eigvals eigvecs basis t dt nOpers nCoeffs cOpers
              nCoeffsDeriv)[g]).2[a][j][h][o]
            * (liouville (props[g.1]'(by omega)) basis castReal)[j][k])
        + ∑ tt : Fin (nG - 1), if g.1 ≤ tt.1 then
            ∑ j : Fin nK,
              ((cmdSteps kind thrF thrD omega eigvals eigvecs basis t dt nOpers nCoeffs cOpers
                  nCoeffsDeriv)[tt.1 + 1]'(by omega)).1[a][j][o]
                * (((liouvilleDerivative thrA dt props basis eigvecs eigvals
                    (cOpersTransformedAll eigvecs cOpers))[tt][h][g][j][k] : ℝ) : ℂ)
          else 0 := by
  rw [controlMatrixDerivFromScratch_get]
  congr 1
  refine Finset.sum_congr rfl fun tt _ => ?_
  split_ifs with hg
  · rfl
  · refine Finset.sum_eq_zero fun j _ => ?_
    rw [liouvilleDerivative_theta _ _ _ _ _ _ _ tt h g j k (by omega)]
    simp

end FFVerif.C11
