/-
C04 / C03 / C02, definition and propagator part — Hamiltonians, cumulative propagators, total
propagators, Liouville total propagators, times and total durations of APPENDED (`concatenate`) and
TILED (`concatenate_periodic`) pulses, and what the two functions cache for them
(`FFVerif.Model.Tile`):

* `newpulse.total_propagator = nla.matrix_power(pulse.total_propagator, repeats)`,
  `newpulse.tau = repeats*pulse.tau`, `np.tile` of `dt` and of the coefficients,
  `total_propagator_liouville` (formed lazily from the cached total propagator);
* `concatenate`: `total_propagator = util.mdot([…][::-1])`, `tau = sum(tau_i)`,
  `dt = np.concatenate(…)`.

`nla.eigh` is an oracle: every pulse (each input pulse AND the pulse diagonalized from scratch on the
appended / tiled Hamiltonian) has its own `eigh` output, whose contract `C02.IsEigh` is a hypothesis.
The eigen-data of different pulses are not related in any way.  All statements are over ℝ/ℂ (exact
arithmetic), for all dimensions, segment counts, operator counts and repetition counts.
-/
import FFVerif.Lemmas.TileAux
import FFVerif.Props.C13Prop
import FFVerif.Props.C15
import FFVerif.Lemmas.ConcatAux
import FFVerif.Props.C03c

namespace FFVerif.C04Tile
open FFVerif FFVerif.Model FFVerif.C02 FFVerif.PropInvAux FFVerif.TileAux Matrix Complex

/-! ### 1. Hamiltonians of appended and tiled pulses -/

/-- **The Hamiltonian of a segment depends only on the amplitudes of that segment**: if column `g'`
of one amplitude matrix equals column `g` of another (same operator list), the model `hamiltonian`
(the contraction `'ijk,il->ljk'` of `PulseSequence.diagonalize`) returns the same matrix for the two
segments (equality of the data). -/
theorem hamiltonian_congr_segment {nC n n' d : Nat} (cOpers : Ten3 ℂ nC d d) (c : Mat ℝ nC n)
    (c' : Mat ℝ nC n') (g : Nat) (hg : g < n) (g' : Nat) (hg' : g' < n')
    (h : ∀ (i : Nat) (hi : i < nC), c'[i][g'] = c[i][g]) :
    (hamiltonian cOpers c')[g'] = (hamiltonian cOpers c)[g] := by
  apply Vector.ext; intro j hj
  apply Vector.ext; intro k hk
  rw [hamiltonian_getElem, hamiltonian_getElem]
  refine Finset.sum_congr rfl fun i _ => ?_
  simp only [Fin.getElem_fin]
  rw [h i.1 i.2]

/-- **Hamiltonian of two pulses one after the other** (common operator list, amplitude rows
concatenated along the time axis): segment `g < n₁` of the new pulse has the Hamiltonian of segment
`g` of the first pulse, segment `n₁ + g` that of segment `g` of the second. -/
theorem hamiltonian_append {nC n1 n2 d : Nat} (cOpers : Ten3 ℂ nC d d) (c1 : Mat ℝ nC n1)
    (c2 : Mat ℝ nC n2) :
    (∀ (g : Nat) (hg : g < n1),
      (hamiltonian cOpers (appendCoeffs c1 c2))[g] = (hamiltonian cOpers c1)[g]) ∧
    (∀ (g : Nat) (hg : g < n2),
      (hamiltonian cOpers (appendCoeffs c1 c2))[n1 + g] = (hamiltonian cOpers c2)[g]) :=
  ⟨fun g hg => hamiltonian_congr_segment cOpers c1 _ g hg g (by omega)
      fun i hi => appendCoeffs_getElem_left c1 c2 i hi g hg,
   fun g hg => hamiltonian_congr_segment cOpers c2 _ g hg (n1 + g) (by omega)
      fun i hi => appendCoeffs_getElem_right c1 c2 i hi g hg⟩

/-- **Hamiltonian of a periodically repeated pulse** (`c_coeffs = np.tile(pulse.c_coeffs,
(1, repeats))`, same operators): segment `k·n + j` of the tiled pulse has the Hamiltonian of segment
`j` of the pulse, for every repetition `k` and every `G`. -/
theorem hamiltonian_tile {nC n d : Nat} (G : Nat) (cOpers : Ten3 ℂ nC d d) (c : Mat ℝ nC n)
    (k j : Nat) (hj : j < n) (h : k * n + j < G * n) :
    (hamiltonian cOpers (tileCoeffs G c))[k * n + j] = (hamiltonian cOpers c)[j] :=
  hamiltonian_congr_segment cOpers c _ j hj (k * n + j) h
    fun i hi => tileCoeffs_getElem_block G c i hi k j hj h

/-- **Hamiltonian of a segment of a concatenated pulse whose operator list was merged** (what
`_concatenate_Hamiltonian` builds from pulses with different operator lists): the part's operators
occur in the new list along an injective `ι`, column `g'` of the new amplitude matrix carries the
part's amplitudes of segment `g` at these positions and zero elsewhere.  Then the two segments have
the same Hamiltonian. -/
theorem hamiltonian_concat_segment {nC nC' n n' d : Nat} (cOpers : Ten3 ℂ nC d d)
    (c : Mat ℝ nC n) (cOpers' : Ten3 ℂ nC' d d) (c' : Mat ℝ nC' n') (ι : Fin nC → Fin nC')
    (hι : Function.Injective ι) (hop : ∀ i : Fin nC, cOpers'[ι i] = cOpers[i])
    (g : Nat) (hg : g < n) (g' : Nat) (hg' : g' < n')
    (hco : ∀ i : Fin nC, c'[ι i][g'] = c[i][g])
    (h0 : ∀ i' : Fin nC', (∀ i, ι i ≠ i') → c'[i'][g'] = 0) :
    (hamiltonian cOpers' c')[g'] = (hamiltonian cOpers c)[g] := by
  apply Mat.ext'
  rw [C13.hamiltonian_segment_reindex cOpers c cOpers' c' ι hι hop 1 g hg g' hg'
    (fun i => by rw [hco i, div_one]) h0]
  simp

/-- a concrete instance: `σ_x`, `σ_z` with amplitudes `(1, 2)`, `(3, 4)` on two segments, repeated
three times; segment `2·2 + 1` has the Hamiltonian of segment `1` -/
example :
    (hamiltonian (#v[#v[#v[0, 1], #v[1, 0]], #v[#v[1, 0], #v[0, -1]]] : Ten3 ℂ 2 2 2)
        (tileCoeffs 3 (#v[#v[1, 2], #v[3, 4]] : Mat ℝ 2 2)))[2 * 2 + 1]
      = (hamiltonian (#v[#v[#v[0, 1], #v[1, 0]], #v[#v[1, 0], #v[0, -1]]] : Ten3 ℂ 2 2 2)
        (#v[#v[1, 2], #v[3, 4]] : Mat ℝ 2 2))[1] :=
  hamiltonian_tile 3 _ _ 2 1 (by norm_num) (by norm_num)

/-! ### 2. Two pulses one after the other -/

section append
variable {n1 n2 d : Nat}
  (ev1 : Mat ℝ n1 d) (V1 : Vector (Mat ℂ d d) n1) (dt1 : Vec ℝ n1)
  (ev2 : Mat ℝ n2 d) (V2 : Vector (Mat ℂ d d) n2) (dt2 : Vec ℝ n2)

/-- **Cumulative propagators of two pulses one after the other.**  Pulse 1 (`n₁` segments,
Hamiltonians `H₁`), pulse 2 (`n₂` segments, `H₂`) and the pulse with the `n₁ + n₂` segments of both
in sequence (Hamiltonians `H`, durations `dt₁ ++ dt₂`) are diagonalized independently; each `eigh`
output satisfies the contract for its pulse.  Then

* `Q^{(12)}_j = Q^{(1)}_j` for `j ≤ n₁`,
* `Q^{(12)}_{n₁+j} = Q^{(2)}_j · Q^{(1)}_{n₁}` for `j ≤ n₂`

(equalities of the data arrays; `Mat.mul` is the model's matrix product). -/
theorem propagators_append (ev : Mat ℝ (n1 + n2) d) (V : Vector (Mat ℂ d d) (n1 + n2))
    (H1 : Fin n1 → Matrix (Fin d) (Fin d) ℂ) (H2 : Fin n2 → Matrix (Fin d) (Fin d) ℂ)
    (H : Fin (n1 + n2) → Matrix (Fin d) (Fin d) ℂ)
    (hE1 : ∀ g : Fin n1, IsEigh (H1 g) (fun j => ev1[g.1][j]) V1[g.1].toMatrix)
    (hE2 : ∀ g : Fin n2, IsEigh (H2 g) (fun j => ev2[g.1][j]) V2[g.1].toMatrix)
    (hE : ∀ g : Fin (n1 + n2), IsEigh (H g) (fun j => ev[g.1][j]) V[g.1].toMatrix)
    (hH1 : ∀ (g : Nat) (hg : g < n1), H ⟨g, by omega⟩ = H1 ⟨g, hg⟩)
    (hH2 : ∀ (g : Nat) (hg : g < n2), H ⟨n1 + g, by omega⟩ = H2 ⟨g, hg⟩) :
    (∀ (j : Nat) (hj : j ≤ n1),
      (propagators ev V (dt1 ++ dt2))[j] = (propagators ev1 V1 dt1)[j]) ∧
    (∀ (j : Nat) (hj : j ≤ n2),
      (propagators ev V (dt1 ++ dt2))[n1 + j]
        = Mat.mul (propagators ev2 V2 dt2)[j] (totalPropagator ev1 V1 dt1)) := by
  have hA : ∀ (j : Nat) (hj : j ≤ n1),
      (propagators ev V (dt1 ++ dt2))[j].toMatrix = (propagators ev1 V1 dt1)[j].toMatrix := by
    refine propagators_congr_prefix ev1 V1 dt1 ev V (dt1 ++ dt2) n1 (Nat.le_refl _) (by omega)
      (fun j hj => ?_)
    have h := hE ⟨j, by omega⟩
    rw [hH1 j hj] at h
    exact stepMat_eq_of_eigh ev V (dt1 ++ dt2) ev1 V1 dt1 (H1 ⟨j, hj⟩) j (by omega) j hj h
      (hE1 ⟨j, hj⟩) (Vector.getElem_append_left hj)
  refine ⟨fun j hj => Mat.ext' (hA j hj), fun j hj => Mat.ext' ?_⟩
  rw [propagators_block ev V (dt1 ++ dt2) ev2 V2 dt2 n1 (Nat.le_refl _) (fun j hj => ?_) j hj,
    Mat.toMatrix_mul]
  · congr 1
    exact hA n1 (Nat.le_refl _)
  · have h := hE ⟨n1 + j, by omega⟩
    rw [hH2 j hj] at h
    exact stepMat_eq_of_eigh ev V (dt1 ++ dt2) ev2 V2 dt2 (H2 ⟨j, hj⟩) (n1 + j) (by omega) j hj h
      (hE2 ⟨j, hj⟩) (getElem_append_right' dt1 dt2 j hj)

/-- **Total propagator of two pulses one after the other: `Q^{(2)}_tot · Q^{(1)}_tot`** — the value
`concatenate` caches (`util.mdot([Q₁, Q₂][::-1])`) is the total propagator obtained by
diagonalizing the concatenated pulse from scratch. -/
theorem total_propagator_append (ev : Mat ℝ (n1 + n2) d) (V : Vector (Mat ℂ d d) (n1 + n2))
    (H1 : Fin n1 → Matrix (Fin d) (Fin d) ℂ) (H2 : Fin n2 → Matrix (Fin d) (Fin d) ℂ)
    (H : Fin (n1 + n2) → Matrix (Fin d) (Fin d) ℂ)
    (hE1 : ∀ g : Fin n1, IsEigh (H1 g) (fun j => ev1[g.1][j]) V1[g.1].toMatrix)
    (hE2 : ∀ g : Fin n2, IsEigh (H2 g) (fun j => ev2[g.1][j]) V2[g.1].toMatrix)
    (hE : ∀ g : Fin (n1 + n2), IsEigh (H g) (fun j => ev[g.1][j]) V[g.1].toMatrix)
    (hH1 : ∀ (g : Nat) (hg : g < n1), H ⟨g, by omega⟩ = H1 ⟨g, hg⟩)
    (hH2 : ∀ (g : Nat) (hg : g < n2), H ⟨n1 + g, by omega⟩ = H2 ⟨g, hg⟩) :
    totalPropagator ev V (dt1 ++ dt2)
      = Mat.mul (totalPropagator ev2 V2 dt2) (totalPropagator ev1 V1 dt1) :=
  (propagators_append ev1 V1 dt1 ev2 V2 dt2 ev V H1 H2 H hE1 hE2 hE hH1 hH2).2 n2 (Nat.le_refl _)

/-- … and it is what the model of `concatenate` forms: `mdot([Q₁, Q₂][::-1])` -/
theorem concatTotalPropagator_pair (Q1 Q2 : Mat ℂ d d) :
    concatTotalPropagator [Q1, Q2] = some (Mat.mul Q2 Q1) := rfl

/-- **The same without any contract, when the concatenated pulse re-uses the eigen-data of the
parts** (pure algebra; this is the sequenced pulse `PulseData.concat2` of `FFVerif.Props.C03c`). -/
theorem propagators_append_data :
    (∀ (j : Nat) (hj : j ≤ n1),
      (propagators (ev1 ++ ev2) (V1 ++ V2) (dt1 ++ dt2))[j] = (propagators ev1 V1 dt1)[j]) ∧
    (∀ (j : Nat) (hj : j ≤ n2),
      (propagators (ev1 ++ ev2) (V1 ++ V2) (dt1 ++ dt2))[n1 + j]
        = Mat.mul (propagators ev2 V2 dt2)[j] (totalPropagator ev1 V1 dt1)) := by
  have hA : ∀ (j : Nat) (hj : j ≤ n1),
      (propagators (ev1 ++ ev2) (V1 ++ V2) (dt1 ++ dt2))[j].toMatrix
        = (propagators ev1 V1 dt1)[j].toMatrix := by
    refine propagators_congr_prefix ev1 V1 dt1 _ _ (dt1 ++ dt2) n1 (Nat.le_refl _) (by omega)
      (fun j hj => ?_)
    unfold stepMat
    rw [Vector.getElem_append_left hj, Vector.getElem_append_left hj, Vector.getElem_append_left hj]
  refine ⟨fun j hj => Mat.ext' (hA j hj), fun j hj => Mat.ext' ?_⟩
  rw [propagators_block _ _ (dt1 ++ dt2) ev2 V2 dt2 n1 (Nat.le_refl _) (fun j hj => ?_) j hj,
    Mat.toMatrix_mul]
  · congr 1
    exact hA n1 (Nat.le_refl _)
  · unfold stepMat
    rw [getElem_append_right' ev1 ev2 j hj, getElem_append_right' V1 V2 j hj,
      getElem_append_right' dt1 dt2 j hj]

end append

/-! ### 3. Any number of pulses one after the other -/

section nary
variable {P d : Nat} (n : Fin P → Nat)
  (ev : (p : Fin P) → Mat ℝ (n p) d) (V : (p : Fin P) → Vector (Mat ℂ d d) (n p))
  (dt : (p : Fin P) → Vec ℝ (n p))

variable {N : Nat} (evc : Mat ℝ N d) (Vc : Vector (Mat ℂ d d) N) (dtc : Vec ℝ N)

/-- **Cumulative propagators of `P` pulses one after the other** (each pulse with its own number of
segments `n_p`, its own Hamiltonians `H_p` and its own `eigh` output; the long pulse with `N`
segments, Hamiltonians `Hc`, its own `eigh` output).  `off p = n_0 + … + n_{p-1}` is the index of
the first segment of pulse `p` inside the long pulse (`seg_idx` in `concatenate`).  If the long
pulse's segments `off p + j` have the Hamiltonian and the duration of segment `j` of pulse `p`
(`np.concatenate` of the durations, `_concatenate_Hamiltonian`), then for every pulse `p` and
`j ≤ n_p`

`Q_{off p + j} = Q^{(p)}_j · Q^{(p-1)}_tot ⋯ Q^{(0)}_tot`. -/
theorem propagators_concat
    (H : (p : Fin P) → Fin (n p) → Matrix (Fin d) (Fin d) ℂ) (Hc : Fin N → Matrix (Fin d) (Fin d) ℂ)
    (hE : ∀ (p : Fin P) (g : Fin (n p)), IsEigh (H p g) (fun j => (ev p)[g.1][j]) (V p)[g.1].toMatrix)
    (hEc : ∀ g : Fin N, IsEigh (Hc g) (fun j => evc[g.1][j]) Vc[g.1].toMatrix)
    (off : Nat → Nat) (hoff0 : off 0 = 0) (hoffS : ∀ p : Fin P, off (p.1 + 1) = off p.1 + n p)
    (hoffN : off P = N)
    (hH : ∀ (p : Fin P) (j : Nat) (hj : j < n p) (hb : off p.1 + j < N),
      Hc ⟨off p.1 + j, hb⟩ = H p ⟨j, hj⟩)
    (hdt : ∀ (p : Fin P) (j : Nat) (hj : j < n p) (hb : off p.1 + j < N),
      dtc[off p.1 + j] = (dt p)[j])
    (p : Fin P) (j : Nat) (hj : j ≤ n p) (hb : off p.1 + j ≤ N) :
    (propagators evc Vc dtc)[off p.1 + j].toMatrix
      = (propagators (ev p) (V p) (dt p))[j].toMatrix
        * prodTotal n ev V dt p.1 (Nat.le_of_lt p.2) := by
  have hend : ∀ p : Fin P, off p.1 + n p ≤ N := by
    intro p
    rw [← hoffS p, ← hoffN]
    exact off_mono n off hoffS (p.1 + 1) P p.2 (Nat.le_refl _)
  -- propagators over the block of pulse `p`
  have hblock : ∀ (p : Fin P) (j : Nat) (hj : j ≤ n p),
      ((propagators evc Vc dtc)[off p.1 + j]'(by have := hend p; omega)).toMatrix
        = (propagators (ev p) (V p) (dt p))[j].toMatrix
          * ((propagators evc Vc dtc)[off p.1]'(by have := hend p; omega)).toMatrix := by
    intro p j hj
    refine propagators_block evc Vc dtc (ev p) (V p) (dt p) (off p.1) (hend p) (fun j hj => ?_) j hj
    have hb : off p.1 + j < N := by have := hend p; omega
    have h := hEc ⟨off p.1 + j, hb⟩
    rw [hH p j hj hb] at h
    exact stepMat_eq_of_eigh evc Vc dtc (ev p) (V p) (dt p) (H p ⟨j, hj⟩) (off p.1 + j) hb j hj h
      (hE p ⟨j, hj⟩) (hdt p j hj hb)
  -- the propagator at the start of pulse `p`
  have hstart : ∀ (p : Nat) (hp : p ≤ P) (r : Nat) (hr : r < N + 1), r = off p →
      (propagators evc Vc dtc)[r].toMatrix = prodTotal n ev V dt p hp := by
    intro p
    induction p with
    | zero =>
      intro hp r hr hro
      rw [hoff0] at hro
      subst hro
      rw [propagators_zero, prodTotal_zero]
    | succ p ih =>
      intro hp r hr hro
      have hp' : p < P := hp
      rw [hoffS ⟨p, hp'⟩] at hro
      subst hro
      rw [hblock ⟨p, hp'⟩ (n ⟨p, hp'⟩) (Nat.le_refl _), prodTotal_succ n ev V dt p hp',
        ih (Nat.le_of_lt hp') (off p) (by have := hend ⟨p, hp'⟩; simp only at this; omega) rfl]
      rfl
  rw [hblock p j hj, hstart p.1 (Nat.le_of_lt p.2) (off p.1) (by have := hend p; omega) rfl]

/-- **Total propagator of `P` pulses one after the other = the ordered product of the inputs' total
propagators**, `Q^{(P-1)}_tot ⋯ Q^{(0)}_tot` — hypotheses as in `propagators_concat`; the left-hand
side is the total propagator of the concatenated pulse diagonalized from scratch. -/
theorem total_propagator_concat
    (H : (p : Fin P) → Fin (n p) → Matrix (Fin d) (Fin d) ℂ) (Hc : Fin N → Matrix (Fin d) (Fin d) ℂ)
    (hE : ∀ (p : Fin P) (g : Fin (n p)), IsEigh (H p g) (fun j => (ev p)[g.1][j]) (V p)[g.1].toMatrix)
    (hEc : ∀ g : Fin N, IsEigh (Hc g) (fun j => evc[g.1][j]) Vc[g.1].toMatrix)
    (off : Nat → Nat) (hoff0 : off 0 = 0) (hoffS : ∀ p : Fin P, off (p.1 + 1) = off p.1 + n p)
    (hoffN : off P = N)
    (hH : ∀ (p : Fin P) (j : Nat) (hj : j < n p) (hb : off p.1 + j < N),
      Hc ⟨off p.1 + j, hb⟩ = H p ⟨j, hj⟩)
    (hdt : ∀ (p : Fin P) (j : Nat) (hj : j < n p) (hb : off p.1 + j < N),
      dtc[off p.1 + j] = (dt p)[j]) :
    (totalPropagator evc Vc dtc).toMatrix
      = (List.ofFn fun p : Fin P => (totalPropagator (ev p) (V p) (dt p)).toMatrix).reverse.prod := by
  rcases Nat.eq_zero_or_pos P with hP | hP
  · subst hP
    have hN : N = 0 := by rw [← hoffN, hoff0]
    subst hN
    simp only [List.ofFn_zero, List.reverse_nil, List.prod_nil]
    exact propagators_zero evc Vc dtc
  · -- the last pulse ends at `N`
    have hidx : off (P - 1) + n ⟨P - 1, by omega⟩ = N := by
      have := hoffS ⟨P - 1, by omega⟩
      simp only at this
      rw [Nat.sub_add_cancel hP, hoffN] at this
      omega
    have hlast := propagators_concat n ev V dt evc Vc dtc H Hc hE hEc off hoff0 hoffS hoffN hH hdt
      ⟨P - 1, by omega⟩ (n ⟨P - 1, by omega⟩) (Nat.le_refl _) (le_of_eq hidx)
    have hQ : (totalPropagator evc Vc dtc).toMatrix
        = ((propagators evc Vc dtc)[off (P - 1) + n ⟨P - 1, by omega⟩]'(by omega)).toMatrix :=
      congrArg Mat.toMatrix (vec_get_congr (propagators evc Vc dtc) N _ (by omega) (by omega)
        hidx.symm)
    have hprod := prodTotal_succ n ev V dt (P - 1) (by omega)
    have hfull : ∀ (p : Nat) (hp : p ≤ P), p = P → prodTotal n ev V dt p hp
        = (List.ofFn fun p : Fin P => (totalPropagator (ev p) (V p) (dt p)).toMatrix).reverse.prod := by
      intro p hp hpP
      subst hpP
      rfl
    rw [hQ, hlast, ← hfull (P - 1 + 1) (by omega) (by omega), hprod]
    rfl

/-- **… and it is the matrix `concatenate` caches**: `util.mdot([pls.total_propagator for pls in
pulses][::-1])` (model `concatTotalPropagator`) succeeds for at least one pulse and returns the total
propagator of the concatenated pulse diagonalized from scratch (equality of the data). -/
theorem concatTotalPropagator_eq_from_scratch (hP : 0 < P)
    (H : (p : Fin P) → Fin (n p) → Matrix (Fin d) (Fin d) ℂ) (Hc : Fin N → Matrix (Fin d) (Fin d) ℂ)
    (hE : ∀ (p : Fin P) (g : Fin (n p)), IsEigh (H p g) (fun j => (ev p)[g.1][j]) (V p)[g.1].toMatrix)
    (hEc : ∀ g : Fin N, IsEigh (Hc g) (fun j => evc[g.1][j]) Vc[g.1].toMatrix)
    (off : Nat → Nat) (hoff0 : off 0 = 0) (hoffS : ∀ p : Fin P, off (p.1 + 1) = off p.1 + n p)
    (hoffN : off P = N)
    (hH : ∀ (p : Fin P) (j : Nat) (hj : j < n p) (hb : off p.1 + j < N),
      Hc ⟨off p.1 + j, hb⟩ = H p ⟨j, hj⟩)
    (hdt : ∀ (p : Fin P) (j : Nat) (hj : j < n p) (hb : off p.1 + j < N),
      dtc[off p.1 + j] = (dt p)[j]) :
    concatTotalPropagator (List.ofFn fun p : Fin P => totalPropagator (ev p) (V p) (dt p))
      = some (totalPropagator evc Vc dtc) := by
  have hne : (List.ofFn fun p : Fin P => totalPropagator (ev p) (V p) (dt p)).reverse ≠ [] := by
    intro h
    have := congrArg List.length h
    simp at this
    omega
  obtain ⟨M, hM, hMm⟩ := mdot_toMatrix _ hne
  unfold concatTotalPropagator
  rw [hM]
  congr 1
  apply Mat.ext'
  rw [hMm, total_propagator_concat n ev V dt evc Vc dtc H Hc hE hEc off hoff0 hoffS hoffN hH hdt,
    List.map_reverse, List.map_ofFn]
  rfl

/-- **The cumulative Liouville propagators of `concatenate`**: `L[0] = 1`,
`L[p] = pulses[p-1].total_propagator_liouville @ L[p-1]` (model `cumL`) is the Liouville
representation of the ordered product `Q^{(p-1)}_tot ⋯ Q^{(0)}_tot` (complete orthonormal basis), for
every `p ≤ P`; at `p = P` the product of all Liouville total propagators. -/
theorem cumL_eq_liouville_prodTotal {K : Nat} (C : Vector (Mat ℂ d d) K)
    (hC : Spec.IsComplete (Spec.basisOf C)) (hH : Spec.IsOrthoHerm (Spec.basisOf C))
    (p : Nat) (hp : p ≤ P) :
    (cumL (Vector.ofFn fun q : Fin P =>
        liouville (totalPropagator (ev q) (V q) (dt q)) C false) p).toMatrix
      = Spec.liou (Spec.basisOf C) (prodTotal n ev V dt p hp) := by
  induction p with
  | zero => rw [ConcatAux.cumL_zero, Mat.toMatrix_one, prodTotal_zero, C15.liou_one hH]
  | succ p ih =>
    have hp' : p < P := hp
    rw [ConcatAux.cumL_succ _ p hp', Mat.toMatrix_mul, ih (Nat.le_of_lt hp'), Vector.getElem_ofFn,
      liouville_toMatrix, ← C15.liou_mul hC, prodTotal_succ n ev V dt p hp']

/-- **… hence `L[p]` is the Liouville representation of the cumulative propagator of the
concatenated pulse (diagonalized from scratch) at the start of pulse `p`**, and
`liouville_representation(newpulse.total_propagator, basis)` — what `concatenate` stores as
`total_propagator_liouville` — is the product of all the inputs' Liouville total propagators.
Hypotheses as in `propagators_concat`; complete orthonormal basis. -/
theorem concatL_eq_liouville_from_scratch {K : Nat} (C : Vector (Mat ℂ d d) K)
    (hC : Spec.IsComplete (Spec.basisOf C)) (hO : Spec.IsOrthoHerm (Spec.basisOf C))
    (H : (p : Fin P) → Fin (n p) → Matrix (Fin d) (Fin d) ℂ) (Hc : Fin N → Matrix (Fin d) (Fin d) ℂ)
    (hE : ∀ (p : Fin P) (g : Fin (n p)), IsEigh (H p g) (fun j => (ev p)[g.1][j]) (V p)[g.1].toMatrix)
    (hEc : ∀ g : Fin N, IsEigh (Hc g) (fun j => evc[g.1][j]) Vc[g.1].toMatrix)
    (off : Nat → Nat) (hoff0 : off 0 = 0) (hoffS : ∀ p : Fin P, off (p.1 + 1) = off p.1 + n p)
    (hoffN : off P = N)
    (hH : ∀ (p : Fin P) (j : Nat) (hj : j < n p) (hb : off p.1 + j < N),
      Hc ⟨off p.1 + j, hb⟩ = H p ⟨j, hj⟩)
    (hdt : ∀ (p : Fin P) (j : Nat) (hj : j < n p) (hb : off p.1 + j < N),
      dtc[off p.1 + j] = (dt p)[j]) :
    (∀ (p : Fin P) (hb : off p.1 ≤ N),
      (concatL (Vector.ofFn fun q : Fin P =>
          liouville (totalPropagator (ev q) (V q) (dt q)) C false))[p]
        = liouville ((propagators evc Vc dtc)[off p.1]) C false) ∧
    liouville (totalPropagator evc Vc dtc) C false
      = cumL (Vector.ofFn fun q : Fin P =>
          liouville (totalPropagator (ev q) (V q) (dt q)) C false) P := by
  constructor
  · intro p hb
    apply Mat.ext'
    have h := propagators_concat n ev V dt evc Vc dtc H Hc hE hEc off hoff0 hoffS hoffN hH hdt p 0
      (Nat.zero_le _) hb
    rw [propagators_zero, Matrix.one_mul] at h
    rw [ConcatAux.concatL_get, cumL_eq_liouville_prodTotal n ev V dt C hC hO p.1 (Nat.le_of_lt p.2),
      liouville_toMatrix]
    exact congrArg _ h.symm
  · apply Mat.ext'
    rw [liouville_toMatrix, cumL_eq_liouville_prodTotal n ev V dt C hC hO P (Nat.le_refl _),
      total_propagator_concat n ev V dt evc Vc dtc H Hc hE hEc off hoff0 hoffS hoffN hH hdt]
    rfl

/-- **Times of `P` pulses one after the other**: `t_{off p + j} = τ_0 + … + τ_{p-1} + t^{(p)}_j`
(no contract involved). -/
theorem times_concat (off : Nat → Nat) (hoff0 : off 0 = 0)
    (hoffS : ∀ p : Fin P, off (p.1 + 1) = off p.1 + n p) (hoffN : off P = N)
    (hdt : ∀ (p : Fin P) (j : Nat) (hj : j < n p) (hb : off p.1 + j < N),
      dtc[off p.1 + j] = (dt p)[j])
    (p : Fin P) (j : Nat) (hj : j ≤ n p) (hb : off p.1 + j ≤ N) :
    (times dtc)[off p.1 + j]
      = (∑ q : Fin p.1, tau (dt ⟨q.1, Nat.lt_trans q.2 p.2⟩)) + (times (dt p))[j] := by
  have hend : ∀ p : Fin P, off p.1 + n p ≤ N := by
    intro p
    rw [← hoffS p, ← hoffN]
    exact off_mono n off hoffS (p.1 + 1) P p.2 (Nat.le_refl _)
  have hblock : ∀ (p : Fin P) (j : Nat) (hj : j ≤ n p),
      (times dtc)[off p.1 + j]'(by have := hend p; omega)
        = (times dtc)[off p.1]'(by have := hend p; omega) + (times (dt p))[j] := by
    intro p j hj
    refine times_block dtc (dt p) (off p.1) (hend p) (fun j hj => ?_) j hj
    exact hdt p j hj (by have := hend p; omega)
  have hstart : ∀ (p : Nat) (hp : p ≤ P) (r : Nat) (hr : r < N + 1), r = off p →
      (times dtc)[r] = ∑ q : Fin p, tau (dt ⟨q.1, Nat.lt_of_lt_of_le q.2 hp⟩) := by
    intro p
    induction p with
    | zero =>
      intro hp r hr hro
      rw [hoff0] at hro
      subst hro
      rw [times_zero]
      simp
    | succ p ih =>
      intro hp r hr hro
      have hp' : p < P := hp
      rw [hoffS ⟨p, hp'⟩] at hro
      subst hro
      rw [hblock ⟨p, hp'⟩ (n ⟨p, hp'⟩) (Nat.le_refl _), Fin.sum_univ_castSucc,
        ih (Nat.le_of_lt hp') (off p) (by have := hend ⟨p, hp'⟩; simp only at this; omega) rfl]
      rfl
  rw [hblock p j hj, hstart p.1 (Nat.le_of_lt p.2) (off p.1) (by have := hend p; omega) rfl]

/-- **Total duration of `P` pulses one after the other**: `t[-1]` of the concatenated durations is
`Σ_p τ_p`, the value `concatenate_without_filter_function` stores
(`newpulse.tau = sum(pulse.tau for pulse in pulses)`, model `concatTau`). -/
theorem tau_concat (off : Nat → Nat) (hoff0 : off 0 = 0)
    (hoffS : ∀ p : Fin P, off (p.1 + 1) = off p.1 + n p) (hoffN : off P = N)
    (hdt : ∀ (p : Fin P) (j : Nat) (hj : j < n p) (hb : off p.1 + j < N),
      dtc[off p.1 + j] = (dt p)[j]) :
    tau dtc = ∑ p : Fin P, tau (dt p)
    ∧ concatTau (List.ofFn fun p : Fin P => tau (dt p)) = tau dtc := by
  have h1 : tau dtc = ∑ p : Fin P, tau (dt p) := by
    rcases Nat.eq_zero_or_pos P with hP | hP
    · subst hP
      have hN : N = 0 := by rw [← hoffN, hoff0]
      subst hN
      simp only [Finset.univ_eq_empty, Finset.sum_empty]
      exact times_zero dtc
    · have hidx : off (P - 1) + n ⟨P - 1, by omega⟩ = N := by
        have := hoffS ⟨P - 1, by omega⟩
        simp only at this
        rw [Nat.sub_add_cancel hP, hoffN] at this
        omega
      have hlast := times_concat n dt dtc off hoff0 hoffS hoffN hdt ⟨P - 1, by omega⟩
        (n ⟨P - 1, by omega⟩) (Nat.le_refl _) (le_of_eq hidx)
      have hQ : tau dtc = (times dtc)[off (P - 1) + n ⟨P - 1, by omega⟩]'(by omega) :=
        vec_get_congr (times dtc) N _ (by omega) (by omega) hidx.symm
      have hsum : ∀ (m : Nat) (hm : m = P),
          (∑ p : Fin P, tau (dt p)) = ∑ q : Fin m, tau (dt ⟨q.1, by omega⟩) := by
        intro m hm
        subst hm
        rfl
      rw [hQ, hlast, hsum (P - 1 + 1) (by omega), Fin.sum_univ_castSucc]
      rfl
  refine ⟨h1, ?_⟩
  rw [concatTau_eq_sum, h1, List.sum_ofFn]

end nary

/-! ### 4. A pulse repeated `G` times -/

section tile
variable {n d : Nat} (G : Nat)
  (ev : Mat ℝ n d) (V : Vector (Mat ℂ d d) n) (dt : Vec ℝ n)
  (ev' : Mat ℝ (G * n) d) (V' : Vector (Mat ℂ d d) (G * n))

/-- **Times of the tiled pulse**: `t_{k·n + j} = k·τ + t_j` for every repetition `k < G` and
`j ≤ n` (`t` computed by the model of `PulseSequence.t` from `np.tile(dt, G)`). -/
theorem times_tile (k : Nat) (hk : k < G) (j : Nat) (hj : j ≤ n) :
    (times (tileVec G dt))[k * n + j]'(Nat.lt_succ_of_le (tile_idx_le hk hj))
      = (k : ℝ) * tau dt + (times dt)[j] := by
  have hblock : ∀ (k : Nat) (hk : k < G) (j : Nat) (hj : j ≤ n),
      (times (tileVec G dt))[k * n + j]'(Nat.lt_succ_of_le (tile_idx_le hk hj))
        = (times (tileVec G dt))[k * n]'(Nat.lt_succ_of_le (tile_mul_le (Nat.le_of_lt hk)))
          + (times dt)[j] := by
    intro k hk j hj
    refine times_block (tileVec G dt) dt (k * n) (tile_idx_le hk (Nat.le_refl _)) (fun j hj => ?_) j hj
    exact tileVec_getElem_block G dt k j hj (tile_idx_lt hk hj)
  have hstart : ∀ (k : Nat) (hk : k ≤ G) (r : Nat) (hr : r < G * n + 1), r = k * n →
      (times (tileVec G dt))[r] = (k : ℝ) * tau dt := by
    intro k
    induction k with
    | zero =>
      intro hk r hr hr0
      rw [Nat.zero_mul] at hr0
      subst hr0
      rw [times_zero]
      simp
    | succ k ih =>
      intro hk r hr hrk
      have hk' : k < G := hk
      have e : (k + 1) * n = k * n + n := by rw [Nat.add_mul, Nat.one_mul]
      rw [e] at hrk
      subst hrk
      rw [hblock k hk' n (Nat.le_refl _), ih (Nat.le_of_lt hk') (k * n)
        (Nat.lt_succ_of_le (tile_mul_le (Nat.le_of_lt hk'))) rfl]
      show _ + tau dt = _
      push_cast
      ring
  rw [hblock k hk j hj, hstart k (Nat.le_of_lt hk) (k * n)
    (Nat.lt_succ_of_le (tile_mul_le (Nat.le_of_lt hk))) rfl]

/-- **Total duration of the tiled pulse**: `t[-1]` of `np.tile(dt, G)` and the other branch of the
getter (`dt.sum()`) are both `G·τ`, the value `concatenate_periodic` stores
(`newpulse.tau = repeats*pulse.tau`).  (`C02.tau_tile` is the first equation for `C02.tile`, which
is the same array.) -/
theorem tau_tileVec : tau (tileVec G dt) = (G : ℝ) * tau dt
    ∧ tauSum (tileVec G dt) = (G : ℝ) * tau dt := by
  have h : tau (tileVec G dt) = (G : ℝ) * tau dt := C02.tau_tile G dt
  exact ⟨h, by rw [tauSum_eq_tau, h]⟩

variable (H : Fin n → Matrix (Fin d) (Fin d) ℂ) (H' : Fin (G * n) → Matrix (Fin d) (Fin d) ℂ)

/-- **Cumulative propagators of the tiled pulse: `Q'_{k·n + j} = Q_j · (Q_n)^k`.**  The pulse
(`n` segments, Hamiltonians `H`) and the `G`-fold tiled pulse (`G·n` segments, Hamiltonians `H'` with
`H'_{k·n + j} = H_j`, durations `np.tile(dt, G)`) are diagonalized independently; each `eigh` output
satisfies the contract for its pulse.  For every repetition `k < G` and `j ≤ n`.  (`Q_n` is the
pulse's total propagator.) -/
theorem propagators_tile
    (hE : ∀ g : Fin n, IsEigh (H g) (fun j => ev[g.1][j]) V[g.1].toMatrix)
    (hE' : ∀ g : Fin (G * n), IsEigh (H' g) (fun j => ev'[g.1][j]) V'[g.1].toMatrix)
    (hH : ∀ (k j : Nat) (hj : j < n) (hb : k * n + j < G * n), H' ⟨k * n + j, hb⟩ = H ⟨j, hj⟩)
    (k : Nat) (hk : k < G) (j : Nat) (hj : j ≤ n) :
    ((propagators ev' V' (tileVec G dt))[k * n + j]'(Nat.lt_succ_of_le (tile_idx_le hk hj))).toMatrix
      = (propagators ev V dt)[j].toMatrix * (totalPropagator ev V dt).toMatrix ^ k := by
  have hblock : ∀ (k : Nat) (hk : k < G) (j : Nat) (hj : j ≤ n),
      ((propagators ev' V' (tileVec G dt))[k * n + j]'(Nat.lt_succ_of_le
          (tile_idx_le hk hj))).toMatrix
        = (propagators ev V dt)[j].toMatrix
          * ((propagators ev' V' (tileVec G dt))[k * n]'(Nat.lt_succ_of_le
              (tile_mul_le (Nat.le_of_lt hk)))).toMatrix := by
    intro k hk j hj
    refine propagators_block ev' V' (tileVec G dt) ev V dt (k * n) (tile_idx_le hk (Nat.le_refl _))
      (fun j hj => ?_) j hj
    have hb := tile_idx_lt hk hj
    have h := hE' ⟨k * n + j, hb⟩
    rw [hH k j hj hb] at h
    exact stepMat_eq_of_eigh ev' V' (tileVec G dt) ev V dt (H ⟨j, hj⟩) (k * n + j) hb j hj h
      (hE ⟨j, hj⟩) (tileVec_getElem_block G dt k j hj hb)
  have hstart : ∀ (k : Nat) (hk : k ≤ G) (r : Nat) (hr : r < G * n + 1), r = k * n →
      (propagators ev' V' (tileVec G dt))[r].toMatrix = (totalPropagator ev V dt).toMatrix ^ k := by
    intro k
    induction k with
    | zero =>
      intro hk r hr hr0
      rw [Nat.zero_mul] at hr0
      subst hr0
      rw [propagators_zero, pow_zero]
    | succ k ih =>
      intro hk r hr hrk
      have hk' : k < G := hk
      have e : (k + 1) * n = k * n + n := by rw [Nat.add_mul, Nat.one_mul]
      rw [e] at hrk
      subst hrk
      rw [hblock k hk' n (Nat.le_refl _), ih (Nat.le_of_lt hk') (k * n)
        (Nat.lt_succ_of_le (tile_mul_le (Nat.le_of_lt hk'))) rfl, pow_succ']
      rfl
  rw [hblock k hk j hj, hstart k (Nat.le_of_lt hk) (k * n)
    (Nat.lt_succ_of_le (tile_mul_le (Nat.le_of_lt hk))) rfl]

/-- the propagator at the end of repetition `k` (start of repetition `k`, `k ≤ G`): `(Q_n)^k` -/
theorem propagators_tile_boundary
    (hE : ∀ g : Fin n, IsEigh (H g) (fun j => ev[g.1][j]) V[g.1].toMatrix)
    (hE' : ∀ g : Fin (G * n), IsEigh (H' g) (fun j => ev'[g.1][j]) V'[g.1].toMatrix)
    (hH : ∀ (k j : Nat) (hj : j < n) (hb : k * n + j < G * n), H' ⟨k * n + j, hb⟩ = H ⟨j, hj⟩)
    (k : Nat) (hk : k ≤ G) :
    ((propagators ev' V' (tileVec G dt))[k * n]'(Nat.lt_succ_of_le (tile_mul_le hk))).toMatrix
      = (totalPropagator ev V dt).toMatrix ^ k := by
  rcases Nat.eq_zero_or_pos k with h0 | hpos
  · subst h0
    have h : ∀ (r : Nat) (hr : r < G * n + 1), r = 0 →
        (propagators ev' V' (tileVec G dt))[r].toMatrix = 1 := by
      intro r hr h0; subst h0; exact propagators_zero _ _ _
    rw [h (0 * n) _ (Nat.zero_mul n), pow_zero]
  · have hk' : k - 1 < G := by omega
    have h := propagators_tile G ev V dt ev' V' H H' hE hE' hH (k - 1) hk' n (Nat.le_refl _)
    have e : (k - 1) * n + n = k * n := by
      rw [← Nat.succ_mul, Nat.succ_eq_add_one, Nat.sub_add_cancel hpos]
    have hc := congrArg Mat.toMatrix (vec_get_congr (propagators ev' V' (tileVec G dt)) (k * n)
      ((k - 1) * n + n) (Nat.lt_succ_of_le (tile_mul_le hk))
      (Nat.lt_succ_of_le (tile_idx_le hk' (Nat.le_refl _))) e.symm)
    have ht : (propagators ev V dt)[n].toMatrix = (totalPropagator ev V dt).toMatrix := rfl
    rw [hc, h, ht, ← pow_succ', Nat.sub_add_cancel hpos]

/-- **Total propagator of the tiled pulse = `matrix_power(total_propagator, G)`**: the matrix
`concatenate_periodic` caches (`newpulse.total_propagator = nla.matrix_power(pulse.total_propagator,
repeats)`, model `matrixPower` following NumPy's algorithm) IS the total propagator obtained by
diagonalizing the tiled pulse from scratch — equality of the data, every `G ≥ 0`; it is also the
sequential power `Mat.pow`. -/
theorem total_propagator_tile
    (hE : ∀ g : Fin n, IsEigh (H g) (fun j => ev[g.1][j]) V[g.1].toMatrix)
    (hE' : ∀ g : Fin (G * n), IsEigh (H' g) (fun j => ev'[g.1][j]) V'[g.1].toMatrix)
    (hH : ∀ (k j : Nat) (hj : j < n) (hb : k * n + j < G * n), H' ⟨k * n + j, hb⟩ = H ⟨j, hj⟩) :
    totalPropagator ev' V' (tileVec G dt) = matrixPower (totalPropagator ev V dt) G
    ∧ totalPropagator ev' V' (tileVec G dt) = Mat.pow (totalPropagator ev V dt) G := by
  have h : totalPropagator ev' V' (tileVec G dt) = matrixPower (totalPropagator ev V dt) G := by
    apply Mat.ext'
    rw [matrixPower_toMatrix]
    exact propagators_tile_boundary G ev V dt ev' V' H H' hE hE' hH G (Nat.le_refl _)
  exact ⟨h, by rw [h, matrixPower_eq_pow]⟩

/-- **Identity total propagator**: if the pulse's total propagator is the identity, the tiled
pulse's propagator at every repetition boundary is the identity, its cumulative propagators repeat
periodically (`Q'_{k·n + j} = Q_j`), and its total propagator — and the cached matrix power — is the
identity. -/
theorem total_propagator_tile_of_identity
    (hE : ∀ g : Fin n, IsEigh (H g) (fun j => ev[g.1][j]) V[g.1].toMatrix)
    (hE' : ∀ g : Fin (G * n), IsEigh (H' g) (fun j => ev'[g.1][j]) V'[g.1].toMatrix)
    (hH : ∀ (k j : Nat) (hj : j < n) (hb : k * n + j < G * n), H' ⟨k * n + j, hb⟩ = H ⟨j, hj⟩)
    (hQ : (totalPropagator ev V dt).toMatrix = 1) :
    (∀ (k : Nat) (hk : k ≤ G),
      (propagators ev' V' (tileVec G dt))[k * n]'(Nat.lt_succ_of_le (tile_mul_le hk)) = Mat.one) ∧
    (∀ (k : Nat) (hk : k < G) (j : Nat) (hj : j ≤ n),
      (propagators ev' V' (tileVec G dt))[k * n + j]'(Nat.lt_succ_of_le (tile_idx_le hk hj))
        = (propagators ev V dt)[j]) ∧
    totalPropagator ev' V' (tileVec G dt) = Mat.one ∧
    matrixPower (totalPropagator ev V dt) G = Mat.one := by
  have h1 : ∀ (k : Nat) (hk : k ≤ G),
      (propagators ev' V' (tileVec G dt))[k * n]'(Nat.lt_succ_of_le (tile_mul_le hk)) = Mat.one := by
    intro k hk
    apply Mat.ext'
    rw [propagators_tile_boundary G ev V dt ev' V' H H' hE hE' hH k hk, hQ, one_pow,
      Mat.toMatrix_one]
  have h3 : totalPropagator ev' V' (tileVec G dt) = Mat.one := by
    have h := h1 G (Nat.le_refl _)
    exact h
  refine ⟨h1, fun k hk j hj => Mat.ext' ?_, h3, ?_⟩
  · rw [propagators_tile G ev V dt ev' V' H H' hE hE' hH k hk j hj, hQ, one_pow, Matrix.mul_one]
  · rw [← (total_propagator_tile G ev V dt ev' V' H H' hE hE' hH).1, h3]

end tile

/-! ### 5. Liouville representation of the repeated pulse -/

section liouville
variable {N d : Nat}

/-- **Liouville representation of the cached matrix power = power of the Liouville
representation**: for a complete basis and `G ≥ 1`,
`liouville_representation(matrix_power(Q, G), basis) = matrix_power(liouville_representation(Q,
basis), G)` — every matrix `Q` (unitary or not); equality of the data. -/
theorem liouville_matrixPower (Q : Mat ℂ d d) (C : Vector (Mat ℂ d d) N)
    (hC : Spec.IsComplete (Spec.basisOf C)) (G : Nat) (hG : 1 ≤ G) :
    liouville (matrixPower Q G) C false = Mat.pow (liouville Q C false) G
    ∧ liouville (matrixPower Q G) C false = matrixPower (liouville Q C false) G := by
  have h : liouville (matrixPower Q G) C false = Mat.pow (liouville Q C false) G := by
    apply Mat.ext'
    rw [liouville_toMatrix, matrixPower_toMatrix, C04.toMatrix_pow, liouville_toMatrix,
      liou_pow hC _ G hG]
  exact ⟨h, by rw [h, matrixPower_eq_pow]⟩

/-- the same with the `.real` cast of `basis.expand` (`hermitian=basis.isherm`) for a Hermitian
orthonormal complete basis; every `G ≥ 0` -/
theorem liouville_matrixPower_castReal (Q : Mat ℂ d d) (C : Vector (Mat ℂ d d) N)
    (hC : Spec.IsComplete (Spec.basisOf C)) (hH : Spec.IsOrthoHerm (Spec.basisOf C)) (G : Nat) :
    liouville (matrixPower Q G) C true = Mat.pow (liouville Q C true) G := by
  rw [C15.liouville_castReal _ C hH, C15.liouville_castReal _ C hH]
  apply Mat.ext'
  rw [liouville_toMatrix, matrixPower_toMatrix, C04.toMatrix_pow, liouville_toMatrix,
    liou_pow' hC hH]

/-- **Liouville total propagator of the tiled pulse.**  `concatenate_periodic` caches the total
propagator only; `total_propagator_liouville` of the new pulse is formed from it on first access.
That matrix (1) is the Liouville representation of the total propagator of the tiled pulse
diagonalized from scratch and (2) equals `L^G` with `L` the pulse's Liouville total propagator
(complete basis, `G ≥ 1`). -/
theorem total_liouville_tile {n : Nat} (G : Nat) (hG : 1 ≤ G)
    (ev : Mat ℝ n d) (V : Vector (Mat ℂ d d) n) (dt : Vec ℝ n)
    (ev' : Mat ℝ (G * n) d) (V' : Vector (Mat ℂ d d) (G * n))
    (H : Fin n → Matrix (Fin d) (Fin d) ℂ) (H' : Fin (G * n) → Matrix (Fin d) (Fin d) ℂ)
    (hE : ∀ g : Fin n, IsEigh (H g) (fun j => ev[g.1][j]) V[g.1].toMatrix)
    (hE' : ∀ g : Fin (G * n), IsEigh (H' g) (fun j => ev'[g.1][j]) V'[g.1].toMatrix)
    (hH : ∀ (k j : Nat) (hj : j < n) (hb : k * n + j < G * n), H' ⟨k * n + j, hb⟩ = H ⟨j, hj⟩)
    (C : Vector (Mat ℂ d d) N) (hC : Spec.IsComplete (Spec.basisOf C)) :
    liouville (matrixPower (totalPropagator ev V dt) G) C false
      = liouville (totalPropagator ev' V' (tileVec G dt)) C false
    ∧ liouville (totalPropagator ev' V' (tileVec G dt)) C false
      = Mat.pow (liouville (totalPropagator ev V dt) C false) G := by
  rw [(total_propagator_tile G ev V dt ev' V' H H' hE hE' hH).1]
  exact ⟨rfl, (liouville_matrixPower _ C hC G hG).1⟩

end liouville

/-! ### 6. Identity total propagator at a frequency with `ωτ ∈ 2πℤ`: the geometric series -/

section resonance
variable {N : Nat}

/-- **`S = G·1` when `T = e^{iωτ} L` is the identity** (pulse with identity total propagator, `ωτ` a
multiple of `2π`): whichever branch `calculate_control_matrix_periodic` takes (the linear solve only
under its contract), the matrix `S = Σ_{g<G} T^g` it returns is `G·1`. -/
theorem periodicS_of_identity (inv : Bool) (X T : Mat ℂ N N) (G : Nat) (hG : 1 ≤ G)
    (hT : T.toMatrix = 1)
    (hsolve : inv = true → (1 - T.toMatrix).det ≠ 0 ∧
      (1 - T.toMatrix) * X.toMatrix = 1 - T.toMatrix ^ G) :
    (periodicS inv X T G).toMatrix = (G : ℂ) • (1 : Matrix (Fin N) (Fin N) ℂ) := by
  rw [C04.periodicS_eq_geomSum inv X T G hG hsolve, hT]
  simp only [one_pow, Finset.sum_const, Finset.card_range]
  rw [Nat.cast_smul_eq_nsmul]

/-- **… and it is the fallback branch that produces it**: for `T = 1` (and `N ≥ 1`) the matrix
`1 - T` is singular, so the contract of the linear solve cannot be met; a determinant test that
flags `1 - T` invertible only where `det ≠ 0` selects the explicit sum. -/
theorem identity_forces_fallback (hN : 0 < N) (inv : Bool) (X T : Mat ℂ N N) (G : Nat)
    (hT : T.toMatrix = 1)
    (hsolve : inv = true → (1 - T.toMatrix).det ≠ 0 ∧
      (1 - T.toMatrix) * X.toMatrix = 1 - T.toMatrix ^ G) : inv = false := by
  cases inv with
  | false => rfl
  | true =>
    obtain ⟨hd, _⟩ := hsolve rfl
    have : Nonempty (Fin N) := ⟨⟨0, hN⟩⟩
    rw [hT, sub_self, Matrix.det_zero] at hd
    exact absurd rfl hd

/-- the matrix `T = e^{iωτ} · L` of `calculate_control_matrix_periodic` is the identity when the
pulse's total propagator is the identity (orthonormal basis, so `L(1) = 1`) and `ωτ = 2πm` -/
theorem periodicT_identity {d : Nat} (Q : Mat ℂ d d) (C : Vector (Mat ℂ d d) N)
    (hH : Spec.IsOrthoHerm (Spec.basisOf C)) (hQ : Q.toMatrix = 1) (omega tau : ℝ) (m : ℤ)
    (hres : omega * tau = 2 * Real.pi * m) :
    (Mat.smul (CplxOps.expI (omega * tau)) (liouville Q C false)).toMatrix = 1 := by
  rw [Mat.toMatrix_smul, liouville_toMatrix, hQ, C15.liou_one hH, copsExpI, hres]
  have : Complex.I * ((2 * Real.pi * (m : ℝ) : ℝ) : ℂ) = (m : ℂ) * (2 * (Real.pi : ℂ) * Complex.I) := by
    push_cast
    ring
  rw [this, Complex.exp_int_mul_two_pi_mul_I, one_smul]

/-- **Control matrix of a repeated identity pulse at a resonant frequency**: with `S_o = G·1` the
total control matrix `B @ S` at that frequency is `G` times the pulse's control matrix. -/
theorem periodicApply_of_identity {nA nO : Nat} (B : Ten3 ℂ nA N nO) (S : Vector (Mat ℂ N N) nO)
    (G : Nat) (o : Fin nO) (hS : S[o].toMatrix = (G : ℂ) • (1 : Matrix (Fin N) (Fin N) ℂ))
    (a : Fin nA) (k : Fin N) :
    (periodicApply B S)[a][k][o] = (G : ℂ) * B[a][k][o] := by
  rw [ConcatAux.periodicApply_get]
  have h : ∀ j : Fin N, S[o][j][k] = if j = k then (G : ℂ) else 0 := by
    intro j
    have := congrFun (congrFun hS j) k
    simp only [Mat.toMatrix_apply, Matrix.smul_apply, Matrix.one_apply, smul_eq_mul, mul_ite,
      mul_one, mul_zero] at this
    exact this
  simp only [h, mul_ite, mul_zero, Finset.sum_ite_eq', Finset.mem_univ, if_true]
  ring

end resonance

/-! ### 7. Everything `concatenate_periodic` stores for the definition / propagator part -/

/-- **`concatenate_periodic`, definition and propagator part = the tiled pulse from scratch.**
A pulse (operators `cOpers`, amplitudes `cCoeffs`, noise coefficients `nCoeffs`, durations `dt`) with
an `eigh` output satisfying the contract for the model Hamiltonian; `D` = what
`concatenate_periodic(pulse, G)` forms (`FFVerif.Model.concatPeriodicDef`; `tauP` is `pulse.tau` —
either branch of its getter).  The tiled pulse (amplitudes `D.cCoeffs`, durations `D.dt`) is
diagonalized from scratch with its own `eigh` output `(ev', V')` satisfying the contract.  Then

* Hamiltonian: segment `k·n + j` of `D` has the Hamiltonian of segment `j` of the pulse; the noise
  coefficients and durations of that segment are those of segment `j`;
* times: `t_{k·n + j} = k·τ + t_j`; the stored `tau = repeats*pulse.tau` is `t[-1]` and `dt.sum()` of
  the new durations (both branches of the getter);
* `D.totalPropagator` (`matrix_power`) is the from-scratch total propagator of the tiled pulse;
* `D.totalLiouville` is the Liouville representation of that from-scratch total propagator, and
  equals `L^G` (complete basis, `G ≥ 1`).

With `C03c.periodic_eq_from_scratch` / `C04.periodicS_eq_geomSum` (control matrix, hence filter
function) this is the list of C04. -/
theorem concatPeriodicDef_eq_from_scratch {nC nA n d N : Nat} (G : Nat) (hG : 1 ≤ G)
    (cOpers : Ten3 ℂ nC d d) (cCoeffs : Mat ℝ nC n) (nCoeffs : Mat ℝ nA n) (dt : Vec ℝ n)
    (ev : Mat ℝ n d) (V : Vector (Mat ℂ d d) n)
    (ev' : Mat ℝ (G * n) d) (V' : Vector (Mat ℂ d d) (G * n))
    (basis : Vector (Mat ℂ d d) N) (hC : Spec.IsComplete (Spec.basisOf basis))
    (hE : ∀ g : Fin n, IsEigh (Mat.toMatrix (hamiltonian cOpers cCoeffs)[g.1])
      (fun j => ev[g.1][j]) V[g.1].toMatrix)
    (hE' : ∀ g : Fin (G * n), IsEigh (Mat.toMatrix (hamiltonian cOpers (tileCoeffs G cCoeffs))[g.1])
      (fun j => ev'[g.1][j]) V'[g.1].toMatrix)
    (tauP : ℝ) (htau : tauP = tau dt ∨ tauP = tauSum dt) :
    let D := concatPeriodicDef G cCoeffs nCoeffs dt tauP (totalPropagator ev V dt) basis false
    (∀ (k j : Nat) (hj : j < n) (hb : k * n + j < G * n),
      (hamiltonian cOpers D.cCoeffs)[k * n + j] = (hamiltonian cOpers cCoeffs)[j]) ∧
    (∀ (a : Nat) (ha : a < nA) (k j : Nat) (hj : j < n) (hb : k * n + j < G * n),
      D.nCoeffs[a][k * n + j] = nCoeffs[a][j]) ∧
    (∀ (k j : Nat) (hj : j < n) (hb : k * n + j < G * n), D.dt[k * n + j] = dt[j]) ∧
    (∀ (k : Nat) (hk : k < G) (j : Nat) (hj : j ≤ n),
      (times D.dt)[k * n + j]'(Nat.lt_succ_of_le (tile_idx_le hk hj))
        = (k : ℝ) * tau dt + (times dt)[j]) ∧
    D.tau = tau D.dt ∧ D.tau = tauSum D.dt ∧
    D.totalPropagator = totalPropagator ev' V' D.dt ∧
    D.totalLiouville = liouville (totalPropagator ev' V' D.dt) basis false ∧
    D.totalLiouville = Mat.pow (liouville (totalPropagator ev V dt) basis false) G := by
  intro D
  have htP : tauP = tau dt := by
    rcases htau with h | h
    · exact h
    · rw [h, tauSum_eq_tau]
  have hH : ∀ (k j : Nat) (hj : j < n) (hb : k * n + j < G * n),
      (fun g : Fin (G * n) => Mat.toMatrix (hamiltonian cOpers (tileCoeffs G cCoeffs))[g.1])
          ⟨k * n + j, hb⟩
        = (fun g : Fin n => Mat.toMatrix (hamiltonian cOpers cCoeffs)[g.1]) ⟨j, hj⟩ := by
    intro k j hj hb
    exact congrArg Mat.toMatrix (hamiltonian_tile G cOpers cCoeffs k j hj hb)
  have hQ := total_propagator_tile G ev V dt ev' V' _ _ hE hE' hH
  have hL := total_liouville_tile G hG ev V dt ev' V' _ _ hE hE' hH basis hC
  refine ⟨fun k j hj hb => hamiltonian_tile G cOpers cCoeffs k j hj hb,
    fun a ha k j hj hb => tileCoeffs_getElem_block G nCoeffs a ha k j hj hb,
    fun k j hj hb => tileVec_getElem_block G dt k j hj hb,
    fun k hk j hj => times_tile G dt k hk j hj, ?_, ?_, hQ.1.symm, hL.1, hL.1.trans hL.2⟩
  · show (G : ℝ) * tauP = tau (tileVec G dt)
    rw [htP, (tau_tileVec G dt).1]
  · show (G : ℝ) * tauP = tauSum (tileVec G dt)
    rw [htP, (tau_tileVec G dt).2]

/-! ### 8. Link to the sequenced pulse `PulseData.concatSeq` of `FFVerif.Props.C03c`

`C03c.concat_cm_eq_from_scratch` and `C03c.periodic_eq_from_scratch` compare the control matrix
cached by `concatenate` / `concatenate_periodic` with `calculate_control_matrix_from_scratch` applied
to the record `PulseData.concatSeq ps`, whose cumulative propagators, times, total propagator and
duration are DEFINED by shifting those of the parts.  Here: that record is what the model of
`diagonalize` / `t` computes from the concatenated eigen-data and durations. -/

section seq
variable {d nA : Nat}

/-- the record `P` holds what the model of `PulseSequence.diagonalize` / `PulseSequence.t` computes
from `P`'s own eigen-data and durations: `props = propagators[:-1]`, `t = t[:-1]`,
`Qtot = propagators[-1]`, `tau = t[-1]` -/
structure IsDiag (P : PulseData ℝ ℂ d nA) : Prop where
  props : ∀ (g : Nat) (hg : g < P.nG), P.props[g] = (propagators P.eigvals P.eigvecs P.dt)[g]
  t : ∀ (g : Nat) (hg : g < P.nG), P.t[g] = (times P.dt)[g]
  Qtot : P.Qtot = totalPropagator P.eigvals P.eigvecs P.dt
  tau : P.tau = Model.tau P.dt

/-- the record built from a diagonalized pulse (`PulseData.ofDiag`) is of this kind (so the
hypothesis of the theorems below is satisfiable for every pulse) -/
theorem isDiag_ofDiag {n : Nat} (ev : Mat ℝ n d) (V : Vector (Mat ℂ d d) n) (nCoeffs : Mat ℝ nA n)
    (dt : Vec ℝ n) : IsDiag (PulseData.ofDiag ev V nCoeffs dt) :=
  ⟨fun g hg => by simp [PulseData.ofDiag], fun g hg => by simp [PulseData.ofDiag], rfl, rfl⟩

theorem isDiag_empty : IsDiag (PulseData.empty : PulseData ℝ ℂ d nA) :=
  ⟨fun g hg => absurd hg (Nat.not_lt_zero g), fun g hg => absurd hg (Nat.not_lt_zero g),
    (cumulative_getElem_zero _).symm, (times_zero _).symm⟩

/-- **Two pulses in sequence**: if the records `A`, `B` are diagonalized pulses, the sequenced
record `A.concat2 B` (propagators of `B` multiplied from the right by `A`'s total propagator, times
shifted by `A`'s duration) is the diagonalization — by the model `propagators` / `times` — of the
concatenated eigen-data and durations.  Pure algebra, no contract. -/
theorem isDiag_concat2 {A B : PulseData ℝ ℂ d nA} (hA : IsDiag A) (hB : IsDiag B) :
    IsDiag (A.concat2 B) := by
  obtain ⟨hP, hQ⟩ := propagators_append_data A.eigvals A.eigvecs A.dt B.eigvals B.eigvecs B.dt
  refine ⟨?_, ?_, ?_, ?_⟩
  · intro g hg
    have hg' : g < A.nG + B.nG := hg
    show (A.props ++ Vector.map (fun Q => Mat.mul Q A.Qtot) B.props)[g]
      = (propagators (A.eigvals ++ B.eigvals) (A.eigvecs ++ B.eigvecs) (A.dt ++ B.dt))[g]
    by_cases h : g < A.nG
    · rw [Vector.getElem_append_left h, hA.props g h, hP g (Nat.le_of_lt h)]
    · obtain ⟨j, rfl⟩ : ∃ j, g = A.nG + j := ⟨g - A.nG, by omega⟩
      have hj : j < B.nG := by omega
      rw [getElem_append_right' _ _ j hj, Vector.getElem_map, hB.props j hj, hA.Qtot,
        hQ j (Nat.le_of_lt hj)]
  · intro g hg
    have hg' : g < A.nG + B.nG := hg
    show (A.t ++ Vector.map (fun x => x + A.tau) B.t)[g] = (times (A.dt ++ B.dt))[g]
    by_cases h : g < A.nG
    · rw [Vector.getElem_append_left h, hA.t g h, times_append_left _ _ g (Nat.le_of_lt h)]
    · obtain ⟨j, rfl⟩ : ∃ j, g = A.nG + j := ⟨g - A.nG, by omega⟩
      have hj : j < B.nG := by omega
      rw [getElem_append_right' _ _ j hj, Vector.getElem_map, hB.t j hj, hA.tau,
        times_append_right _ _ j (Nat.le_of_lt hj), add_comm]
  · show Mat.mul B.Qtot A.Qtot
      = totalPropagator (A.eigvals ++ B.eigvals) (A.eigvecs ++ B.eigvecs) (A.dt ++ B.dt)
    rw [hB.Qtot, hA.Qtot]
    exact (hQ B.nG (Nat.le_refl _)).symm
  · show B.tau + A.tau = Model.tau (A.dt ++ B.dt)
    rw [tau_append, hA.tau, hB.tau, add_comm]

/-- **Any number of pulses in sequence**: the record `PulseData.concatSeq ps` that
`C03c.concat_cm_eq_from_scratch` compares with is the diagonalization (model `propagators`,
`times`) of the concatenated eigen-data and durations, when every input record is a diagonalized
pulse.  Every list length, every segment count. -/
theorem isDiag_concatSeq (ps : List (PulseData ℝ ℂ d nA)) (h : ∀ P ∈ ps, IsDiag P) :
    IsDiag (PulseData.concatSeq ps) := by
  induction ps with
  | nil => exact isDiag_empty
  | cons A rest ih =>
    exact isDiag_concat2 (h A (List.mem_cons_self)) (ih fun P hP => h P (List.mem_cons_of_mem _ hP))

/-- total propagator of the sequenced record: the ordered product of the parts' total propagators
(later pulses to the left) … -/
theorem concatSeq_Qtot (ps : List (PulseData ℝ ℂ d nA)) :
    (PulseData.concatSeq ps).Qtot.toMatrix = ((ps.map fun P => P.Qtot.toMatrix).reverse).prod := by
  induction ps with
  | nil =>
    show (Mat.one : Mat ℂ d d).toMatrix = _
    simp [Mat.toMatrix_one]
  | cons A rest ih =>
    show (Mat.mul (PulseData.concatSeq rest).Qtot A.Qtot).toMatrix = _
    rw [Mat.toMatrix_mul, ih, List.map_cons, List.reverse_cons, List.prod_append, List.prod_singleton]

/-- … which is the matrix `concatenate` caches, `util.mdot([pls.total_propagator …][::-1])` -/
theorem concatTotalPropagator_eq_concatSeq (ps : List (PulseData ℝ ℂ d nA)) (hne : ps ≠ []) :
    concatTotalPropagator (ps.map fun P => P.Qtot) = some (PulseData.concatSeq ps).Qtot := by
  have hne' : (ps.map fun P => P.Qtot).reverse ≠ [] := by
    simpa using hne
  obtain ⟨M, hM, hMm⟩ := mdot_toMatrix _ hne'
  unfold concatTotalPropagator
  rw [hM]
  congr 1
  apply Mat.ext'
  rw [hMm, concatSeq_Qtot, List.map_reverse, List.map_map]
  rfl

/-- duration of the sequenced record: the sum of the parts' durations (`concatTau`) -/
theorem concatSeq_tau (ps : List (PulseData ℝ ℂ d nA)) :
    (PulseData.concatSeq ps).tau = concatTau (ps.map fun P => P.tau) := by
  rw [concatTau_eq_sum]
  induction ps with
  | nil => rfl
  | cons A rest ih =>
    show (PulseData.concatSeq rest).tau + A.tau = _
    rw [ih, List.map_cons, List.sum_cons, add_comm]

/-- segments of the sequenced record `A.concat2 B`: the first `A.nG` carry `A`'s eigen-data, noise
coefficients and durations, the following `B.nG` those of `B` -/
theorem concat2_segments (A B : PulseData ℝ ℂ d nA) :
    (A.concat2 B).nG = A.nG + B.nG ∧
    (∀ (g : Nat) (hg : g < A.nG) (hb : g < (A.concat2 B).nG),
      (A.concat2 B).dt[g] = A.dt[g] ∧ (A.concat2 B).eigvals[g] = A.eigvals[g] ∧
      (A.concat2 B).eigvecs[g] = A.eigvecs[g] ∧
      ∀ (a : Nat) (ha : a < nA), (A.concat2 B).nCoeffs[a][g] = A.nCoeffs[a][g]) ∧
    (∀ (j : Nat) (hj : j < B.nG) (hb : A.nG + j < (A.concat2 B).nG),
      (A.concat2 B).dt[A.nG + j] = B.dt[j] ∧ (A.concat2 B).eigvals[A.nG + j] = B.eigvals[j] ∧
      (A.concat2 B).eigvecs[A.nG + j] = B.eigvecs[j] ∧
      ∀ (a : Nat) (ha : a < nA), (A.concat2 B).nCoeffs[a][A.nG + j] = B.nCoeffs[a][j]) := by
  refine ⟨rfl, fun g hg hb => ⟨?_, ?_, ?_, fun a ha => ?_⟩, fun j hj hb => ⟨?_, ?_, ?_, fun a ha => ?_⟩⟩
  · exact Vector.getElem_append_left (xs := A.dt) (ys := B.dt) hg
  · exact Vector.getElem_append_left (xs := A.eigvals) (ys := B.eigvals) hg
  · exact Vector.getElem_append_left (xs := A.eigvecs) (ys := B.eigvecs) hg
  · show (Vector.ofFn fun a : Fin nA => A.nCoeffs[a] ++ B.nCoeffs[a])[a][g] = _
    rw [Vector.getElem_ofFn]
    exact Vector.getElem_append_left hg
  · exact getElem_append_right' A.dt B.dt j hj
  · exact getElem_append_right' A.eigvals B.eigvals j hj
  · exact getElem_append_right' A.eigvecs B.eigvecs j hj
  · show (Vector.ofFn fun a : Fin nA => A.nCoeffs[a] ++ B.nCoeffs[a])[a][A.nG + j] = _
    rw [Vector.getElem_ofFn]
    exact getElem_append_right' _ _ j hj

/-- **`G` copies of one pulse in sequence are the tiled pulse**: the record
`PulseData.concatSeq (List.replicate G A)` of `C03c.periodic_eq_from_scratch` has `G · n` segments;
segment `k·n + j` carries the eigen-data, noise coefficients and duration of segment `j` of `A` —
i.e. its durations / coefficients are `np.tile(…, G)` — and (by `isDiag_concatSeq`) its propagators
and times are those the model of `diagonalize` / `t` computes from them. -/
theorem concatSeq_replicate (A : PulseData ℝ ℂ d nA) (G : Nat) :
    (PulseData.concatSeq (List.replicate G A)).nG = G * A.nG ∧
    ∀ (k j : Nat) (hj : j < A.nG)
      (hb : k * A.nG + j < (PulseData.concatSeq (List.replicate G A)).nG),
      (PulseData.concatSeq (List.replicate G A)).dt[k * A.nG + j] = A.dt[j] ∧
      (PulseData.concatSeq (List.replicate G A)).eigvals[k * A.nG + j] = A.eigvals[j] ∧
      (PulseData.concatSeq (List.replicate G A)).eigvecs[k * A.nG + j] = A.eigvecs[j] ∧
      ∀ (a : Nat) (ha : a < nA),
        (PulseData.concatSeq (List.replicate G A)).nCoeffs[a][k * A.nG + j] = A.nCoeffs[a][j] := by
  induction G with
  | zero =>
    refine ⟨by simp [PulseData.concatSeq, PulseData.empty], fun k j hj hb => ?_⟩
    exact absurd hb (Nat.not_lt_zero _)
  | succ G ih =>
    obtain ⟨ihn, ihe⟩ := ih
    have hrec : PulseData.concatSeq (List.replicate (G + 1) A)
        = A.concat2 (PulseData.concatSeq (List.replicate G A)) := rfl
    rw [hrec]
    obtain ⟨hn, hl, hr⟩ := concat2_segments A (PulseData.concatSeq (List.replicate G A))
    refine ⟨by rw [hn, ihn, Nat.add_mul, Nat.one_mul, Nat.add_comm], fun k j hj hb => ?_⟩
    rcases Nat.eq_zero_or_pos k with h0 | hpos
    · subst h0
      have e : 0 * A.nG + j = j := by rw [Nat.zero_mul, Nat.zero_add]
      have hb' : j < (A.concat2 (PulseData.concatSeq (List.replicate G A))).nG := by
        rw [hn]; omega
      obtain ⟨l1, l2, l3, l4⟩ := hl j hj hb'
      refine ⟨?_, ?_, ?_, fun a ha => ?_⟩
      · rw [vec_get_congr _ _ j hb hb' e]; exact l1
      · rw [vec_get_congr _ _ j hb hb' e]; exact l2
      · rw [vec_get_congr _ _ j hb hb' e]; exact l3
      · rw [vec_get_congr _ _ j hb hb' e]; exact l4 a ha
    · obtain ⟨k', rfl⟩ : ∃ k', k = k' + 1 := ⟨k - 1, by omega⟩
      have e : (k' + 1) * A.nG + j = A.nG + (k' * A.nG + j) := by
        rw [Nat.add_mul, Nat.one_mul]; omega
      have hb1 : k' * A.nG + j < (PulseData.concatSeq (List.replicate G A)).nG := by
        rw [hn] at hb; omega
      have hb' : A.nG + (k' * A.nG + j)
          < (A.concat2 (PulseData.concatSeq (List.replicate G A))).nG := by
        rw [hn]; omega
      obtain ⟨i1, i2, i3, i4⟩ := ihe k' j hj hb1
      obtain ⟨r1, r2, r3, r4⟩ := hr (k' * A.nG + j) hb1 hb'
      refine ⟨?_, ?_, ?_, fun a ha => ?_⟩
      · rw [vec_get_congr _ _ _ hb hb' e, r1]; exact i1
      · rw [vec_get_congr _ _ _ hb hb' e, r2]; exact i2
      · rw [vec_get_congr _ _ _ hb hb' e, r3]; exact i3
      · rw [vec_get_congr _ _ _ hb hb' e, r4 a ha]; exact i4 a ha

/-- a record is a diagonalized pulse iff it is `PulseData.ofDiag` of its own eigen-data, noise
coefficients and durations -/
theorem isDiag_iff_eq_ofDiag (P : PulseData ℝ ℂ d nA) :
    IsDiag P ↔ P = PulseData.ofDiag P.eigvals P.eigvecs P.nCoeffs P.dt := by
  constructor
  · intro h
    obtain ⟨nG, ev, V, props, nC, dt, t, Q, tau⟩ := P
    obtain ⟨h1, h2, h3, h4⟩ := h
    simp only at h1 h2 h3 h4
    unfold PulseData.ofDiag
    congr
    · apply Vector.ext; intro g hg; rw [h1 g hg, Vector.getElem_ofFn]
    · apply Vector.ext; intro g hg; rw [h2 g hg, Vector.getElem_ofFn]
  · intro h
    rw [h]
    exact isDiag_ofDiag _ _ _ _

/-- `PulseData.ofDiag` of entrywise equal data (lengths equal as numbers, not necessarily by
definition) -/
theorem ofDiag_congr {n n' : Nat} (h : n = n')
    (ev : Mat ℝ n d) (V : Vector (Mat ℂ d d) n) (nC : Mat ℝ nA n) (dt : Vec ℝ n)
    (ev' : Mat ℝ n' d) (V' : Vector (Mat ℂ d d) n') (nC' : Mat ℝ nA n') (dt' : Vec ℝ n')
    (hev : ∀ (g : Nat) (hg : g < n) (hg' : g < n'), ev[g] = ev'[g])
    (hV : ∀ (g : Nat) (hg : g < n) (hg' : g < n'), V[g] = V'[g])
    (hnC : ∀ (a : Nat) (ha : a < nA) (g : Nat) (hg : g < n) (hg' : g < n'), nC[a][g] = nC'[a][g])
    (hdt : ∀ (g : Nat) (hg : g < n) (hg' : g < n'), dt[g] = dt'[g]) :
    (PulseData.ofDiag ev V nC dt : PulseData ℝ ℂ d nA) = PulseData.ofDiag ev' V' nC' dt' := by
  subst h
  have e1 : ev = ev' := Vector.ext fun g hg => hev g hg hg
  have e2 : V = V' := Vector.ext fun g hg => hV g hg hg
  have e3 : nC = nC' := Vector.ext fun a ha => Vector.ext fun g hg => hnC a ha g hg hg
  have e4 : dt = dt' := Vector.ext fun g hg => hdt g hg hg
  rw [e1, e2, e3, e4]

/-- **Two diagonalized pulses in sequence = the concatenated data diagonalized** (as records) -/
theorem concat2_eq_ofDiag {n1 n2 : Nat}
    (ev1 : Mat ℝ n1 d) (V1 : Vector (Mat ℂ d d) n1) (nC1 : Mat ℝ nA n1) (dt1 : Vec ℝ n1)
    (ev2 : Mat ℝ n2 d) (V2 : Vector (Mat ℂ d d) n2) (nC2 : Mat ℝ nA n2) (dt2 : Vec ℝ n2) :
    (PulseData.ofDiag ev1 V1 nC1 dt1 : PulseData ℝ ℂ d nA).concat2 (PulseData.ofDiag ev2 V2 nC2 dt2)
      = PulseData.ofDiag (ev1 ++ ev2) (V1 ++ V2) (appendCoeffs nC1 nC2) (dt1 ++ dt2) :=
  (isDiag_iff_eq_ofDiag _).mp (isDiag_concat2 (isDiag_ofDiag _ _ _ _) (isDiag_ofDiag _ _ _ _))

/-- **`G` diagonalized copies in sequence = the tiled data diagonalized** (as records): the record
`PulseData.concatSeq (List.replicate G A)` of `C03c.periodic_eq_from_scratch`, for
`A = PulseData.ofDiag ev V nCoeffs dt`, IS `PulseData.ofDiag` of `np.tile` of the eigen-data, noise
coefficients and durations — cumulative propagators and times computed by the model of
`diagonalize` / `t` from the tiled arrays. -/
theorem concatSeq_replicate_eq_ofDiag {n : Nat} (ev : Mat ℝ n d) (V : Vector (Mat ℂ d d) n)
    (nC : Mat ℝ nA n) (dt : Vec ℝ n) (G : Nat) :
    PulseData.concatSeq (List.replicate G (PulseData.ofDiag ev V nC dt : PulseData ℝ ℂ d nA))
      = PulseData.ofDiag (tileVec G ev) (tileVec G V) (tileCoeffs G nC) (tileVec G dt) := by
  have hD := isDiag_concatSeq (List.replicate G (PulseData.ofDiag ev V nC dt : PulseData ℝ ℂ d nA))
    (fun P hP => by rw [List.eq_of_mem_replicate hP]; exact isDiag_ofDiag _ _ _ _)
  rw [(isDiag_iff_eq_ofDiag _).mp hD]
  obtain ⟨hn, hseg⟩ := concatSeq_replicate (PulseData.ofDiag ev V nC dt : PulseData ℝ ℂ d nA) G
  have hn' : (PulseData.concatSeq
      (List.replicate G (PulseData.ofDiag ev V nC dt : PulseData ℝ ℂ d nA))).nG = G * n := hn
  -- every index below `G·n` is `k·n + j`
  have key : ∀ (g : Nat) (hg : g < G * n), 0 < n ∧ g / n * n + g % n = g := by
    intro g hg
    have hpos : 0 < n := Nat.pos_of_ne_zero fun h => by simp [h] at hg
    exact ⟨hpos, by rw [Nat.mul_comm]; exact Nat.div_add_mod g n⟩
  refine ofDiag_congr hn' _ _ _ _ _ _ _ _ (fun g hg hg' => ?_) (fun g hg hg' => ?_)
    (fun a ha g hg hg' => ?_) (fun g hg hg' => ?_)
  · obtain ⟨hpos, e⟩ := key g hg'
    have hj := Nat.mod_lt g hpos
    rw [tileVec_getElem, vec_get_congr _ g (g / n * n + g % n) hg (by omega) e.symm]
    exact (hseg (g / n) (g % n) hj (by show g / n * n + g % n < _; omega)).2.1
  · obtain ⟨hpos, e⟩ := key g hg'
    have hj := Nat.mod_lt g hpos
    rw [tileVec_getElem, vec_get_congr _ g (g / n * n + g % n) hg (by omega) e.symm]
    exact (hseg (g / n) (g % n) hj (by show g / n * n + g % n < _; omega)).2.2.1
  · obtain ⟨hpos, e⟩ := key g hg'
    have hj := Nat.mod_lt g hpos
    have ht : (tileCoeffs G nC)[a][g] = nC[a][g % n] := by
      simp only [tileCoeffs, Vector.getElem_map]
      exact tileVec_getElem G nC[a] g hg'
    rw [ht, vec_get_congr _ g (g / n * n + g % n) hg (by omega) e.symm]
    exact (hseg (g / n) (g % n) hj (by show g / n * n + g % n < _; omega)).2.2.2 a ha
  · obtain ⟨hpos, e⟩ := key g hg'
    have hj := Nat.mod_lt g hpos
    rw [tileVec_getElem, vec_get_congr _ g (g / n * n + g % n) hg (by omega) e.symm]
    exact (hseg (g / n) (g % n) hj (by show g / n * n + g % n < _; omega)).1

/-- the tiled eigen-data satisfy the `eigh` contract for the tiled Hamiltonians (so the tiled
arrays are one admissible output of `eigh` on the tiled pulse) -/
theorem isEigh_tileVec {n : Nat} (G : Nat) (ev : Mat ℝ n d) (V : Vector (Mat ℂ d d) n)
    (H : Fin n → Matrix (Fin d) (Fin d) ℂ) (H' : Fin (G * n) → Matrix (Fin d) (Fin d) ℂ)
    (hE : ∀ g : Fin n, IsEigh (H g) (fun j => ev[g.1][j]) V[g.1].toMatrix)
    (hH : ∀ (g : Fin (G * n)), H' g = H (Fin.lo g)) (g : Fin (G * n)) :
    IsEigh (H' g) (fun j => (tileVec G ev)[g.1][j]) (tileVec G V)[g.1].toMatrix := by
  have h := hE (Fin.lo g)
  rw [hH g]
  have e1 : (tileVec G ev)[g.1] = ev[(Fin.lo g).1] := tileVec_getElem G ev g.1 g.2
  have e2 : (tileVec G V)[g.1] = V[(Fin.lo g).1] := tileVec_getElem G V g.1 g.2
  rw [e1, e2]
  exact h

/-- **C04, control matrix: periodic shortcut = the tiled pulse from scratch.**  For a diagonalized
pulse `A = PulseData.ofDiag ev V nCoeffs dt` and a complete basis, the control matrix
`B @ Σ_{g<G} (e^{iωτ} L)^g` that `calculate_control_matrix_periodic` evaluates (both branches:
`C04.periodicS_eq_geomSum`) equals `calculate_control_matrix_from_scratch` applied to the tiled pulse
`np.tile` of eigen-data, noise coefficients and durations, with `propagators` and `t` computed by the
model of `diagonalize` / `t` from these tiled arrays.  Every `G`, every segment count, dimension,
frequency.  (Hence also the fidelity filter function, `C01`.) -/
theorem periodic_cm_eq_tiled_from_scratch {n nO nK : Nat} (kind : MaskKind) (thr : ℝ)
    (omega : Vec ℝ nO) (basis : Vector (Mat ℂ d d) nK) (nOpers : Vector (Mat ℂ d d) nA)
    (hC : Spec.IsComplete (Spec.basisOf basis))
    (ev : Mat ℝ n d) (V : Vector (Mat ℂ d d) n) (nCoeffs : Mat ℝ nA n) (dt : Vec ℝ n) (G : Nat)
    (a : Fin nA) (k : Fin nK) (o : Fin nO) :
    (periodicApply ((PulseData.ofDiag ev V nCoeffs dt).cm kind thr omega basis nOpers)
        (Vector.ofFn fun o => geomSum (Mat.smul
          ((PulseData.ofDiag ev V nCoeffs dt : PulseData ℝ ℂ d nA).totalPhases omega)[o]
          (liouville (totalPropagator ev V dt) basis false)) G))[a][k][o]
      = ((PulseData.ofDiag (tileVec G ev) (tileVec G V) (tileCoeffs G nCoeffs)
          (tileVec G dt)).cm kind thr omega basis nOpers)[a][k][o] := by
  rw [← concatSeq_replicate_eq_ofDiag]
  exact C03c.periodic_eq_from_scratch kind thr omega basis nOpers hC
    (PulseData.ofDiag ev V nCoeffs dt) G a k o

/-- **C03, control matrix: `concatenate` = the concatenated pulse from scratch.**  For diagonalized
input pulses (records with `IsDiag`, e.g. `PulseData.ofDiag …`) and a complete basis, the control
matrix `concatenate` caches equals `calculate_control_matrix_from_scratch` applied to the
concatenated eigen-data / noise coefficients / durations with `propagators` and `t` computed by the
model of `diagonalize` / `t` FROM THE CONCATENATED ARRAYS (`PulseData.ofDiag` of the raw fields of
`PulseData.concatSeq ps`).  Any number of pulses with their own segment counts. -/
theorem concat_cm_eq_diag_from_scratch {nO nK : Nat} (kind : MaskKind) (thr : ℝ)
    (omega : Vec ℝ nO) (basis : Vector (Mat ℂ d d) nK) (nOpers : Vector (Mat ℂ d d) nA)
    (hC : Spec.IsComplete (Spec.basisOf basis)) (ps : List (PulseData ℝ ℂ d nA))
    (h : ∀ P ∈ ps, IsDiag P) (a : Fin nA) (k : Fin nK) (o : Fin nO) :
    (PulseData.concatenateCM kind thr omega basis nOpers false ps)[a][k][o]
      = ((PulseData.ofDiag (PulseData.concatSeq ps).eigvals (PulseData.concatSeq ps).eigvecs
          (PulseData.concatSeq ps).nCoeffs (PulseData.concatSeq ps).dt).cm kind thr omega basis
          nOpers)[a][k][o] := by
  rw [← (isDiag_iff_eq_ofDiag _).mp (isDiag_concatSeq ps h)]
  exact C03c.concat_cm_eq_from_scratch kind thr omega basis nOpers hC ps a k o

end seq

/-! ### Satisfiability of the hypotheses -/

/-- a concrete instance of `total_propagator_tile`, `d = 2`: one segment `σ_z` of duration `3`
(`eigh` output `(1, -1)`, `V = 1`), repeated twice; the tiled pulse's second segment was
diagonalized differently (eigenvalues in the other order, `V = σ_x`): its from-scratch total
propagator is the cached `matrix_power(Q, 2)`. -/
example :
    totalPropagator (#v[#v[1, -1], #v[-1, 1]] : Mat ℝ (2 * 1) 2)
        (#v[#v[#v[1, 0], #v[0, 1]], #v[#v[0, 1], #v[1, 0]]] : Vector (Mat ℂ 2 2) (2 * 1))
        (tileVec 2 (#v[3] : Vec ℝ 1))
      = matrixPower (totalPropagator (#v[#v[1, -1]] : Mat ℝ 1 2)
          (#v[#v[#v[1, 0], #v[0, 1]]] : Vector (Mat ℂ 2 2) 1) (#v[3] : Vec ℝ 1)) 2 := by
  refine (total_propagator_tile (n := 1) (d := 2) 2 _ _ _ _ _
    (fun _ => (!![1, 0; 0, -1] : Matrix (Fin 2) (Fin 2) ℂ))
    (fun _ => (!![1, 0; 0, -1] : Matrix (Fin 2) (Fin 2) ℂ)) ?_ ?_ (fun _ _ _ _ => rfl)).1
  · intro g
    fin_cases g
    refine ⟨?_, ?_, ?_⟩ <;> ext i j <;> fin_cases i <;> fin_cases j <;>
      simp [Matrix.mul_apply, Fin.sum_univ_two, Matrix.diagonal_apply, Mat.toMatrix,
        Matrix.conjTranspose_apply]
  · intro g
    have hg : g.1 = 0 ∨ g.1 = 1 := by have := g.2; omega
    rcases g with ⟨g, hg'⟩
    rcases hg with h | h <;> (simp only at h; subst h) <;> refine ⟨?_, ?_, ?_⟩ <;> ext i j <;>
      fin_cases i <;> fin_cases j <;>
      simp [Matrix.mul_apply, Fin.sum_univ_two, Matrix.diagonal_apply, Mat.toMatrix,
        Matrix.conjTranspose_apply]

/-- the hypotheses of `propagators_concat` / `total_propagator_concat` are satisfiable: two
one-segment pulses `σ_z` (durations `1`, `2`, the second diagonalized with `V = σ_x`), the
concatenated pulse diagonalized with `V = 1` on both segments. -/
example :
    (totalPropagator (#v[#v[1, -1], #v[1, -1]] : Mat ℝ 2 2)
        (#v[#v[#v[1, 0], #v[0, 1]], #v[#v[1, 0], #v[0, 1]]] : Vector (Mat ℂ 2 2) 2)
        (#v[1, 2] : Vec ℝ 2)).toMatrix
      = (List.ofFn fun p : Fin 2 =>
          (totalPropagator
            ((fun p : Fin 2 => if p = 0 then (#v[#v[1, -1]] : Mat ℝ 1 2) else #v[#v[-1, 1]]) p)
            ((fun p : Fin 2 => if p = 0 then (#v[#v[#v[1, 0], #v[0, 1]]] : Vector (Mat ℂ 2 2) 1)
              else #v[#v[#v[0, 1], #v[1, 0]]]) p)
            ((fun p : Fin 2 => if p = 0 then (#v[1] : Vec ℝ 1) else #v[2]) p)).toMatrix).reverse.prod := by
  refine total_propagator_concat (fun _ : Fin 2 => 1) _ _ _ _ _ _
    (fun _ _ => (!![1, 0; 0, -1] : Matrix (Fin 2) (Fin 2) ℂ))
    (fun _ => (!![1, 0; 0, -1] : Matrix (Fin 2) (Fin 2) ℂ)) ?_ ?_ (fun p => p) rfl (fun _ => rfl) rfl
    (fun _ _ _ _ => rfl) ?_
  · intro p g
    fin_cases p <;> fin_cases g <;> refine ⟨?_, ?_, ?_⟩ <;> ext i j <;> fin_cases i <;>
      fin_cases j <;>
      simp [Matrix.mul_apply, Fin.sum_univ_two, Matrix.diagonal_apply, Mat.toMatrix,
        Matrix.conjTranspose_apply]
  · intro g
    fin_cases g <;> refine ⟨?_, ?_, ?_⟩ <;> ext i j <;> fin_cases i <;> fin_cases j <;>
      simp [Matrix.mul_apply, Fin.sum_univ_two, Matrix.diagonal_apply, Mat.toMatrix,
        Matrix.conjTranspose_apply]
  · intro p j hj hb
    have hj0 : j = 0 := by omega
    subst hj0
    fin_cases p <;> simp

/-- `periodicS_of_identity` on the fallback branch: the contract of the solve is vacuous -/
example (G : Nat) (hG : 1 ≤ G) :
    (periodicS false (Mat.one : Mat ℂ 4 4) Mat.one G).toMatrix
      = (G : ℂ) • (1 : Matrix (Fin 4) (Fin 4) ℂ) :=
  periodicS_of_identity false _ _ G hG Mat.toMatrix_one (fun h => absurd h (by simp))

/-- the hypotheses of `concatPeriodicDef_eq_from_scratch` are satisfiable (Pauli basis, `σ_z` with
amplitude `1` for a duration `3`, `G = 2`, the tiled pulse's second segment diagonalized with the
other eigenvalue order and `V = σ_x`): the cached total propagator and the lazily formed Liouville
total propagator are the from-scratch ones, and the latter is `L²` -/
example :
    let D := concatPeriodicDef (nA := 0) 2 (#v[#v[1]] : Mat ℝ 1 1) (#v[] : Mat ℝ 0 1) (#v[3] : Vec ℝ 1)
      (tau (#v[3] : Vec ℝ 1))
      (totalPropagator (#v[#v[1, -1]] : Mat ℝ 1 2) (#v[#v[#v[1, 0], #v[0, 1]]] : Vector (Mat ℂ 2 2) 1)
        (#v[3] : Vec ℝ 1)) (C03c.pauliBasis C03c.invSqrt2) false
    D.totalPropagator
      = totalPropagator (#v[#v[1, -1], #v[-1, 1]] : Mat ℝ (2 * 1) 2)
        (#v[#v[#v[1, 0], #v[0, 1]], #v[#v[0, 1], #v[1, 0]]] : Vector (Mat ℂ 2 2) (2 * 1)) D.dt
    ∧ D.totalLiouville = Mat.pow (liouville (totalPropagator (#v[#v[1, -1]] : Mat ℝ 1 2)
        (#v[#v[#v[1, 0], #v[0, 1]]] : Vector (Mat ℂ 2 2) 1) (#v[3] : Vec ℝ 1))
        (C03c.pauliBasis C03c.invSqrt2) false) 2 := by
  have h := concatPeriodicDef_eq_from_scratch (nC := 1) (nA := 0) (n := 1) (d := 2) 2 (by norm_num)
    (#v[#v[#v[1, 0], #v[0, -1]]] : Ten3 ℂ 1 2 2) (#v[#v[1]] : Mat ℝ 1 1) (#v[] : Mat ℝ 0 1)
    (#v[3] : Vec ℝ 1) (#v[#v[1, -1]] : Mat ℝ 1 2) (#v[#v[#v[1, 0], #v[0, 1]]] : Vector (Mat ℂ 2 2) 1)
    (#v[#v[1, -1], #v[-1, 1]] : Mat ℝ (2 * 1) 2)
    (#v[#v[#v[1, 0], #v[0, 1]], #v[#v[0, 1], #v[1, 0]]] : Vector (Mat ℂ 2 2) (2 * 1))
    (C03c.pauliBasis C03c.invSqrt2) (C03c.pauliBasis_complete _ C03c.invSqrt2_sq) ?_ ?_
    (tau (#v[3] : Vec ℝ 1)) (Or.inl rfl)
  · exact ⟨h.2.2.2.2.2.2.1, h.2.2.2.2.2.2.2.2⟩
  · intro g
    fin_cases g
    refine ⟨?_, ?_, ?_⟩ <;> ext i j <;> fin_cases i <;> fin_cases j <;>
      simp [hamiltonian_entries, Matrix.mul_apply, Fin.sum_univ_two, Matrix.diagonal_apply,
        Mat.toMatrix, Matrix.conjTranspose_apply]
  · intro g
    have hcol : (hamiltonian (#v[#v[#v[1, 0], #v[0, -1]]] : Ten3 ℂ 1 2 2)
          (tileCoeffs 2 (#v[#v[1]] : Mat ℝ 1 1)))[g.1]
        = (hamiltonian (#v[#v[#v[1, 0], #v[0, -1]]] : Ten3 ℂ 1 2 2) (#v[#v[1]] : Mat ℝ 1 1))[0] :=
      hamiltonian_congr_segment _ _ _ 0 (by norm_num) g.1 g.2 (fun i hi => by
        obtain rfl : i = 0 := by omega
        simp [tileCoeffs, tileVec, Fin.lo])
    rw [hcol]
    have hg : g.1 = 0 ∨ g.1 = 1 := by have := g.2; omega
    rcases g with ⟨g, hg'⟩
    rcases hg with h | h <;> (simp only at h; subst h) <;> refine ⟨?_, ?_, ?_⟩ <;> ext i j <;>
      fin_cases i <;> fin_cases j <;>
      simp [hamiltonian_entries, Matrix.mul_apply, Fin.sum_univ_two,
        Matrix.diagonal_apply, Mat.toMatrix, Matrix.conjTranspose_apply]

end FFVerif.C04Tile
