/-
C09 — Cumulant function follows its formula on every path.

The executable model `Model.cumulantGeneral` (trace-tensor branch of
`numeric.calculate_cumulant_function`, built from the eight generated `oe.contract` definitions)
and `Model.cumulantSingleQubit` (the single-qubit shortcut, `Gen.cumulantShortcutTest`) are compared
with the documented formula
`K_ij = -½ Σ_kl Γ_kl tr(C_i [C_k,[C_l,C_j]]) - ½ Σ_kl Δ_kl tr(C_i [[C_k,C_l],C_j])`
(`Spec.K1`, `Spec.K2`).  All statements are for ONE pair of noise sources (the Python treats the
leading `...` axes independently) and for the complex matrix before the final `.real`;
`cumulant_real` shows that `.real` loses nothing for Hermitian bases and real `Γ`, `Δ`.
Property theorems only (helper lemmas: FFVerif/Lemmas/CumulantAux.lean, PauliAux.lean).
-/
import FFVerif.Lemmas.PauliAux
import FFVerif.Gen.Constants

namespace FFVerif.C09
open FFVerif Matrix

variable {N d : Nat}

/-- entries of a model matrix as a function (the `Γ`, `Δ` of the specification) -/
def fn (A : Mat ℂ N N) : Fin N → Fin N → ℂ := fun k l => A[k][l]

/-- **(a) Trace tensor.** `Basis.four_element_traces` (`'iab,jbc,kcd,lda->ijkl'`) has entries
`T_ijkl = tr(C_i C_j C_k C_l)`, for every family of matrices. -/
theorem fourElementTraces_entries (C : Vector (Mat ℂ d d) N) (i j k l : Fin N) :
    (Model.fourElementTraces C)[i][j][k][l]
      = trace (Spec.basisOf C i * Spec.basisOf C j * Spec.basisOf C k * Spec.basisOf C l) :=
  Model.fourElementTraces_eq C i j k l

/-- **(b) The general branch is the documented commutator formula**, for ANY family of matrices
`C` (no orthonormality, Hermiticity or completeness needed), any `Γ`, `Δ`, and any array `T` whose
entries are the four-element traces (dense or sparse storage is irrelevant): the four first-order
contractions `klji, kjli, kilj, kijl` with signs `+ - - +` give
`-½ Σ_kl Γ_kl tr(C_i [C_k,[C_l,C_j]])`, and with `second_order` the four contractions
`klji, lkji, klij, lkij` add `-½ Σ_kl Δ_kl tr(C_i [[C_k,C_l],C_j])` (expand the nested commutators
and use cyclicity of the trace). -/
theorem cumulant_general_eq_commutators (C : Fin N → Matrix (Fin d) (Fin d) ℂ)
    (T : Ten4 ℂ N N N N) (hT : ∀ i j k l : Fin N, T[i][j][k][l] = Spec.T4 C i j k l)
    (Γ Δ : Mat ℂ N N) (i j : Fin N) :
    (Model.cumulantGeneral Γ none T)[i][j] = Spec.K1 C (fn Γ) i j ∧
    (Model.cumulantGeneral Γ (some Δ) T)[i][j] = Spec.K1 C (fn Γ) i j + Spec.K2 C (fn Δ) i j := by
  have h1 : (Model.cumulantFirst Γ T)[i][j] = Spec.K1 C (fn Γ) i j := by
    rw [Model.cumulantFirst_getElem, Spec.K1_eq_T4]
    simp only [hT, fn]
  have h2 : (Model.cumulantSecondTerm Δ T)[i][j] = -Spec.K2 C (fn Δ) i j := by
    rw [Model.cumulantSecondTerm_getElem, Spec.K2_eq_T4, neg_neg]
    simp only [hT, fn]
  refine ⟨by rw [Model.cumulantGeneral_none, h1], ?_⟩
  rw [Model.cumulantGeneral_some_getElem, h1, h2, sub_neg_eq_add]

/-- (b) with the model's own trace tensor: `calculate_cumulant_function` on the general branch,
for every basis array `C`. -/
theorem cumulant_general_model (C : Vector (Mat ℂ d d) N) (Γ Δ : Mat ℂ N N) (i j : Fin N) :
    (Model.cumulantGeneral Γ none (Model.fourElementTraces C))[i][j]
      = Spec.K1 (Spec.basisOf C) (fn Γ) i j ∧
    (Model.cumulantGeneral Γ (some Δ) (Model.fourElementTraces C))[i][j]
      = Spec.Kfull (Spec.basisOf C) (fn Γ) (fn Δ) i j :=
  cumulant_general_eq_commutators (Spec.basisOf C) _ (Model.fourElementTraces_eq C) Γ Δ i j

/-- **(c) The single-qubit shortcut equals the general formula on the normalised Pauli basis**
`C = (1, σx, σy, σz)/√2`, symbolically in all 16 (+16) entries of `Γ` (and `Δ`): row and column 0
vanish, `K_ii = -Σ_{k≠i, k≥1} Γ_kk`, `K_ij = Γ_ji`, second order `-Δ_ij + Δ_ji`.
`Basis.ggm(2)` produces the same four matrices in the same order (`Λ_1 = σx/√2` symmetric,
`Λ_2 = σy/√2` antisymmetric, `Λ_3 = σz/√2` diagonal), so this covers both labels for the bases the
constructors `Basis.pauli(1)` and `Basis.ggm(2)` build.  It does NOT extend to other `d = 2`
bases (see `shortcut_needs_pauli_basis`). -/
theorem cumulant_single_qubit_eq_general (C : Vector (Mat ℂ 2 2) 4)
    (hC : Spec.basisOf C = Spec.pauliBasis) (Γ Δ : Mat ℂ 4 4) :
    Model.cumulantSingleQubit Γ none = Model.cumulantGeneral Γ none (Model.fourElementTraces C) ∧
    Model.cumulantSingleQubit Γ (some Δ)
      = Model.cumulantGeneral Γ (some Δ) (Model.fourElementTraces C) := by
  have h0 : ∀ i j : Fin 4, (Model.cumulantSingleQubit Γ none)[i][j]
      = Spec.K1 Spec.pauliBasis (fn Γ) i j := by
    intro i j
    rw [Model.cumulantSingleQubit_none_getElem, Spec.K1_pauli]
    rfl
  constructor
  · apply Mat.ext'
    ext i j
    rw [Mat.toMatrix_apply, Mat.toMatrix_apply, (cumulant_general_model C Γ Δ i j).1, hC, h0]
  · apply Mat.ext'
    ext i j
    rw [Mat.toMatrix_apply, Mat.toMatrix_apply, (cumulant_general_model C Γ Δ i j).2, hC,
      Model.cumulantSingleQubit_some_getElem, h0, Spec.Kfull, Spec.K2_pauli]
    rfl

/-- the hypothesis of `cumulant_single_qubit_eq_general` is satisfiable -/
example : ∃ C : Vector (Mat ℂ 2 2) 4, Spec.basisOf C = Spec.pauliBasis :=
  ⟨Vector.ofFn fun i => Mat.ofFn (Spec.pauliBasis i), by
    funext i; ext a b
    simp [Spec.basisOf, Mat.toMatrix, Mat.ofFn]⟩

/-- **Why the shortcut must be restricted to the Pauli basis itself** (justification of the
selector `d == 2 and btype in ('Pauli', 'GGM') and pulse.basis == Basis.pauli(1)`; the type label
alone is not enough — the constructor accepts any label and `__array_finalize__` copies `btype` to
derived arrays).  There is a complete, orthonormal, Hermitian basis for `d = 2` —
`(diag(1,0), diag(0,1), σx/√2, σy/√2)`, not traceless — and decay amplitudes `Γ = e_2 e_2ᵀ` for
which the shortcut's matrix differs from the general formula (entry `(0,0)`: shortcut `0`,
formula `-½`). -/
theorem shortcut_needs_pauli_basis :
    ∃ (C : Vector (Mat ℂ 2 2) 4) (Γ : Mat ℂ 4 4),
      Spec.IsOrthoHerm (Spec.basisOf C) ∧ Spec.IsComplete (Spec.basisOf C) ∧
      Model.cumulantSingleQubit Γ none ≠ Model.cumulantGeneral Γ none (Model.fourElementTraces C) := by
  let C : Vector (Mat ℂ 2 2) 4 := Vector.ofFn fun i => Mat.ofFn (Spec.unitBasis i)
  let Γ : Mat ℂ 4 4 := Mat.ofFn fun k l => if k = 2 ∧ l = 2 then 1 else 0
  have hC : Spec.basisOf C = Spec.unitBasis := by
    funext i; ext a b
    simp [C, Spec.basisOf, Mat.toMatrix, Mat.ofFn]
  have hΓ : fn Γ = fun k l => if k = 2 ∧ l = 2 then 1 else 0 := by
    funext k l
    simp only [fn, Γ, Mat.ofFn_get]
  refine ⟨C, Γ, hC ▸ Spec.unitBasis_orthoHerm, hC ▸ Spec.unitBasis_complete, fun h => ?_⟩
  have h00 := congrArg (fun M : Mat ℂ 4 4 => M[(0 : Fin 4)][(0 : Fin 4)]) h
  simp only [(cumulant_general_model C Γ Γ 0 0).1, hC, hΓ, Spec.K1_unitBasis_00,
    Model.cumulantSingleQubit_none_getElem] at h00
  norm_num at h00

/-- **(d) Second-order terms add only an antisymmetric part**: the difference between the cumulant
function with and without `second_order` is antisymmetric in `(i, j)` — for EVERY family of
matrices `C` and EVERY `Δ` (real or complex, symmetric or not); no hypothesis is needed, since
`tr(C_i [X, C_j]) = -tr(C_j [X, C_i])` for every `X`. -/
theorem second_order_antisymmetric (C : Vector (Mat ℂ d d) N) (Γ Δ : Mat ℂ N N) (i j : Fin N) :
    (Model.cumulantGeneral Γ (some Δ) (Model.fourElementTraces C))[i][j]
        - (Model.cumulantGeneral Γ none (Model.fourElementTraces C))[i][j]
      = -((Model.cumulantGeneral Γ (some Δ) (Model.fourElementTraces C))[j][i]
        - (Model.cumulantGeneral Γ none (Model.fourElementTraces C))[j][i]) := by
  rw [(cumulant_general_model C Γ Δ i j).1, (cumulant_general_model C Γ Δ i j).2,
    (cumulant_general_model C Γ Δ j i).1, (cumulant_general_model C Γ Δ j i).2, Spec.Kfull,
    Spec.Kfull, Spec.K2_antisymm]
  ring

/-- companion of (d): the first-order part satisfies `K(Γ)_ij = K(Γᵀ)_ji`; in particular it is
symmetric whenever `Γ` is (auto-correlations, or the sum over all pairs of noise sources). -/
theorem first_order_symmetric (C : Vector (Mat ℂ d d) N) (Γ : Mat ℂ N N)
    (hΓ : ∀ k l : Fin N, Γ[k][l] = Γ[l][k]) (i j : Fin N) :
    (Model.cumulantGeneral Γ none (Model.fourElementTraces C))[i][j]
      = (Model.cumulantGeneral Γ none (Model.fourElementTraces C))[j][i] := by
  rw [(cumulant_general_model C Γ Γ i j).1, (cumulant_general_model C Γ Γ j i).1,
    Spec.K1_transpose]
  congr 1
  funext k l
  exact hΓ l k

/-- **(e) Trace preservation and unitality at the level of `K`.**  If a basis element is a multiple
of the identity (`C_{i0} = c·1`; for a traceless basis `i0 = 0`, `c = 1/√d`), then row `i0` and
column `i0` of the cumulant function vanish, to first and second order, for all `Γ`, `Δ` (hence
`exp K` has the unit vector `e_{i0}` as row and column `i0`: the error map is trace preserving and
unital). -/
theorem K_row_col_zero (C : Vector (Mat ℂ d d) N) (i0 : Fin N) (c : ℂ)
    (h0 : Spec.basisOf C i0 = c • (1 : Matrix (Fin d) (Fin d) ℂ)) (Γ Δ : Mat ℂ N N) (j : Fin N) :
    (Model.cumulantGeneral Γ none (Model.fourElementTraces C))[i0][j] = 0 ∧
    (Model.cumulantGeneral Γ none (Model.fourElementTraces C))[j][i0] = 0 ∧
    (Model.cumulantGeneral Γ (some Δ) (Model.fourElementTraces C))[i0][j] = 0 ∧
    (Model.cumulantGeneral Γ (some Δ) (Model.fourElementTraces C))[j][i0] = 0 := by
  have hZ : ∀ M, Spec.basisOf C i0 * M = M * Spec.basisOf C i0 := by
    intro M; rw [h0]; simp
  rw [(cumulant_general_model C Γ Δ i0 j).1, (cumulant_general_model C Γ Δ i0 j).2,
    (cumulant_general_model C Γ Δ j i0).1, (cumulant_general_model C Γ Δ j i0).2, Spec.Kfull,
    Spec.Kfull, Spec.K1_row_zero _ _ _ _ hZ, Spec.K1_col_zero _ _ _ _ hZ,
    Spec.K2_row_zero _ _ _ _ hZ, Spec.K2_col_zero _ _ _ _ hZ]
  simp

/-- **The final `.real` loses nothing**: for a Hermitian basis and real `Γ`, `Δ` (as produced by
`calculate_decay_amplitudes` / `calculate_frequency_shifts`, which return real arrays) every entry
of the general-branch cumulant function is real. -/
theorem cumulant_real (C : Vector (Mat ℂ d d) N) (hH : ∀ i, (Spec.basisOf C i)ᴴ = Spec.basisOf C i)
    (Γ Δ : Mat ℂ N N) (hΓ : ∀ k l : Fin N, starRingEnd ℂ Γ[k][l] = Γ[k][l])
    (hΔ : ∀ k l : Fin N, starRingEnd ℂ Δ[k][l] = Δ[k][l]) (i j : Fin N) :
    starRingEnd ℂ (Model.cumulantGeneral Γ none (Model.fourElementTraces C))[i][j]
      = (Model.cumulantGeneral Γ none (Model.fourElementTraces C))[i][j] ∧
    starRingEnd ℂ (Model.cumulantGeneral Γ (some Δ) (Model.fourElementTraces C))[i][j]
      = (Model.cumulantGeneral Γ (some Δ) (Model.fourElementTraces C))[i][j] := by
  rw [(cumulant_general_model C Γ Δ i j).1, (cumulant_general_model C Γ Δ i j).2, Spec.Kfull,
    map_add, Spec.K1_conj _ hH (fn Γ) hΓ, Spec.K2_conj _ hH (fn Δ) hΔ]
  exact ⟨rfl, rfl⟩

/-- hypothesis of `K_row_col_zero` on the Pauli basis: `C_0 = (1/√2)·1` -/
example : Spec.pauliBasis 0 = Spec.invSqrt2 • (1 : Matrix (Fin 2) (Fin 2) ℂ) := by
  simp [Spec.pauliBasis, Spec.sigma, Matrix.one_fin_two]

end FFVerif.C09
