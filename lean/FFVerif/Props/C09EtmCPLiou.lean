/-
C09 (continued) — `etm_completely_positive` instantiated with the completely-positive cone of
`Props/C15CP.lean` (`Spec.IsCPLiou`, Choi matrix indexed by pairs; `FFVerif.C15.cp_one`, `cp_add`,
`cp_smul_nonneg`, `cp_comp`, `cp_closed`, `cp_liou`).  (`Props/C09EtmChoi.lean` contains an independent
instantiation with the row-major flattened Choi matrix `Spec.IsCPChoi`.)
Property theorems only.
-/
import FFVerif.Props.C09EtmCP
import FFVerif.Props.C15CP

namespace FFVerif.C09
open FFVerif Matrix NormedSpace
open scoped ComplexOrder

variable {N d : Nat}

/-- the cone `IsCPLiou C` of `Props/C15CP.lean` has the closure properties `Spec.CPCone` -/
theorem cpCone_isCPLiou (C : Fin N → Matrix (Fin d) (Fin d) ℂ) (hC : Spec.IsComplete C)
    (hH : Spec.IsOrthoHerm C) : Spec.CPCone (Spec.IsCPLiou C) where
  one := C15.cp_one hC hH
  add := fun hS hT => C15.cp_add hS hT
  smul_nonneg := fun c _ hc hS => C15.cp_smul_nonneg c hc hS
  mul := fun hS hT => C15.cp_comp hC hH hS hT
  closed := C15.cp_closed

/-- **The error transfer matrix is completely positive** (`IsCPLiou`): complete orthonormal
Hermitian basis, `Γ` real positive semidefinite, `Δ` real or absent. -/
theorem etm_isCPLiou (C : Vector (Mat ℂ d d) N) (hC : Spec.IsComplete (Spec.basisOf C))
    (hH : Spec.IsOrthoHerm (Spec.basisOf C)) (Γ : Mat ℂ N N) (hΓ : Γ.toMatrix.PosSemidef)
    (hΓr : ∀ k l : Fin N, starRingEnd ℂ Γ[k][l] = Γ[k][l]) (Δ : Option (Mat ℂ N N))
    (hΔr : ∀ D, Δ = some D → ∀ k l : Fin N, starRingEnd ℂ D[k][l] = D[k][l]) :
    Spec.IsCPLiou (Spec.basisOf C)
      (exp (Model.cumulantGeneral Γ Δ (Model.fourElementTraces C)).toMatrix) :=
  etm_completely_positive (cpCone_isCPLiou _ hC hH) C hH (C15.cp_liou hC) Γ hΓ hΓr Δ hΔr

/-- **… for the sum over noise sources**, `Σ_a Γ_a ⪰ 0`. -/
theorem etm_sum_isCPLiou {ι : Type} (s : Finset ι) (C : Vector (Mat ℂ d d) N)
    (hC : Spec.IsComplete (Spec.basisOf C)) (hH : Spec.IsOrthoHerm (Spec.basisOf C))
    (Γ : ι → Mat ℂ N N) (hΓ : (∑ a ∈ s, (Γ a).toMatrix).PosSemidef)
    (hΓr : ∀ a ∈ s, ∀ k l : Fin N, starRingEnd ℂ (Γ a)[k][l] = (Γ a)[k][l])
    (Δ : ι → Option (Mat ℂ N N))
    (hΔr : ∀ a ∈ s, ∀ D, Δ a = some D → ∀ k l : Fin N, starRingEnd ℂ D[k][l] = D[k][l]) :
    Spec.IsCPLiou (Spec.basisOf C) (exp (∑ a ∈ s,
      (Model.cumulantGeneral (Γ a) (Δ a) (Model.fourElementTraces C)).toMatrix)) :=
  etm_sum_completely_positive s (cpCone_isCPLiou _ hC hH) C hH (C15.cp_liou hC) Γ hΓ hΓr Δ hΔr

end FFVerif.C09
