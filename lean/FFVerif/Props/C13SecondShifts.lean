/-
C13, second order — consequences for `numeric.calculate_frequency_shifts` (model
`Model.frequencyShifts1/2/3`): invariance of the frequency shifts under a change of the time unit
(with the matching transformation of the spectrum), under cutting a segment and under inserting
zero-duration segments.  Property theorems.
-/
import FFVerif.Props.C13Second
import FFVerif.Props.C10Shifts
import FFVerif.Lemmas.InfidelityInvAux

namespace FFVerif.C13
open FFVerif FFVerif.Model FFVerif.SecondOrderInv Complex Matrix

variable {nG d nO nA N m : ℕ}

/-- **One frequency shift under a rescaled grid, filter function and spectrum.**  If on the grid
`ω/lam` the filter function values are `κ` times and the spectrum values `σ` times the original
ones (`κ`, `σ` real), the trapezoid of `Re(F2·S)/2π` is multiplied by `κσ/lam` (the grid spacing
is divided by `lam`). -/
theorem shiftEntry_rescale (ω : Vec ℝ nO) (F F' S S' : Vec ℂ nO) (lam κ σ : ℝ)
    (hF : ∀ o : Fin nO, F'[o] = (κ : ℂ) * F[o]) (hS : ∀ o : Fin nO, S'[o] = (σ : ℂ) * S[o]) :
    shiftEntry (Vector.map (· / lam) ω) F' S' = κ * σ / lam * shiftEntry ω F S := by
  rw [shiftEntry_eq, shiftEntry_eq]
  have e : ∀ o : Fin nO, (F'[o] * S'[o]).re = κ * σ * (F[o] * S[o]).re := by
    intro o
    rw [hF, hS]
    have : (κ : ℂ) * F[o] * ((σ : ℂ) * S[o]) = ((κ * σ : ℝ) : ℂ) * (F[o] * S[o]) := by
      push_cast; ring
    rw [this, Complex.re_ofReal_mul]
  simp only [InvAux.vec_map_get]
  rw [Spec.trapz_scale_grid, funext e, Spec.trapz_smul]
  ring

/-- **Frequency shifts under a rescaling, array level, all three spectrum shapes.**  If every
entry of `F2'` is `κ` times that of `F2` and every spectrum value is multiplied by `σ`, on the
grid `ω/lam`, with `κ·σ = lam ≠ 0`, the frequency shifts are unchanged. -/
theorem frequency_shifts_rescale (ω : Vec ℝ nO) (F2 F2' : Ten5 ℂ nA nA N N nO)
    (idx : Vec (Fin nA) m) (lam κ σ : ℝ) (hl : lam ≠ 0) (hκσ : κ * σ = lam)
    (hF : ∀ (a b : Fin nA) (k l : Fin N) (o : Fin nO),
      F2'[a][b][k][l][o] = (κ : ℂ) * F2[a][b][k][l][o])
    (S1 : Vec ℂ nO) (S2 : Mat ℂ m nO) (S3 : Ten3 ℂ m m nO) :
    frequencyShifts1 (Vector.map (· / lam) ω) F2' idx (Vector.map ((σ : ℂ) * ·) S1)
      = frequencyShifts1 ω F2 idx S1 ∧
    frequencyShifts2 (Vector.map (· / lam) ω) F2' idx (Vector.map (Vector.map ((σ : ℂ) * ·)) S2)
      = frequencyShifts2 ω F2 idx S2 ∧
    frequencyShifts3 (Vector.map (· / lam) ω) F2' idx
        (Vector.map (Vector.map (Vector.map ((σ : ℂ) * ·))) S3)
      = frequencyShifts3 ω F2 idx S3 := by
  have hc : κ * σ / lam = 1 := by rw [hκσ, div_self hl]
  refine ⟨vec_ext_fin fun a => mat_ext_fin fun k l => ?_,
    vec_ext_fin fun a => mat_ext_fin fun k l => ?_,
    mat_ext_fin fun a b => mat_ext_fin fun k l => ?_⟩
  · rw [frequencyShifts1_getElem, frequencyShifts1_getElem,
      shiftEntry_rescale ω F2[idx[a]][idx[a]][k][l] _ S1 _ lam κ σ (fun o => hF _ _ _ _ o)
        (fun o => InvAux.vec_map_get _ _ o), hc, one_mul]
  · rw [frequencyShifts2_getElem, frequencyShifts2_getElem,
      shiftEntry_rescale ω F2[idx[a]][idx[a]][k][l] _ S2[a] _ lam κ σ (fun o => hF _ _ _ _ o)
        (fun o => by rw [InvAux.vec_map_get, InvAux.vec_map_get]), hc, one_mul]
  · rw [frequencyShifts3_getElem, frequencyShifts3_getElem,
      shiftEntry_rescale ω F2[idx[a]][idx[b]][k][l] _ S3[a][b] _ lam κ σ (fun o => hF _ _ _ _ o)
        (fun o => by rw [InvAux.vec_map_get, InvAux.vec_map_get, InvAux.vec_map_get]), hc, one_mul]

/-- **Frequency shifts under a change of the time unit, sensitivities kept** (the convention of
`C13.cm_scale`, `C13.secondOrder_time_unit`, `C08.infidelity_time_unit_fixed_coeffs`): durations and
segment start times `× lam`, eigenvalues and frequencies (the grid of the filter function AND of
the integration) `÷ lam`, `n_coeffs` unchanged.  Then `F2' = lam²·F2`, the trapezoid on the grid
`ω/lam` contributes `1/lam`, hence the frequency shifts `Δ` (dimensionless) are unchanged PROVIDED
the spectrum values are DIVIDED by `lam`, `S'(ω/lam) = S(ω)/lam` (the spectrum of a
frequency-valued noise has the dimension of a frequency).  The power of `lam` is `-1`, not `+1`:
with `S' = lam·S` and fixed sensitivities the shifts would be multiplied by `lam²`
(`frequency_shifts_rescale` with `κ = lam²`, `σ = lam` fails `κσ = lam`); `S' = lam·S` is the right
rule when the sensitivities are divided by `lam` as well, see `frequency_shifts_time_unit_coeffs`.
Code as it is (dimensionless guard, any threshold), all spectrum shapes. -/
theorem frequency_shifts_time_unit (thr : ℝ)
    (eigvals : Mat ℝ nG d) (eigvecs props : Vector (Mat ℂ d d) nG) (omega : Vec ℝ nO)
    (basis : Vector (Mat ℂ d d) N) (nOpers : Vector (Mat ℂ d d) nA) (nCoeffs : Mat ℝ nA nG)
    (dt t : Vec ℝ nG) (lam : ℝ) (hl : lam ≠ 0) (idx : Vec (Fin nA) m)
    (S1 : Vec ℂ nO) (S2 : Mat ℂ m nO) (S3 : Ten3 ℂ m m nO) :
    frequencyShifts1 (Vector.map (· / lam) omega)
        (secondOrderFFFromScratch .absTimesDtGt thr (Vector.map (Vector.map (· / lam)) eigvals) eigvecs
          props (Vector.map (· / lam) omega) basis nOpers nCoeffs (Vector.map (lam * ·) dt)
          (Vector.map (lam * ·) t)) idx (Vector.map (((1 / lam : ℝ) : ℂ) * ·) S1)
      = frequencyShifts1 omega (secondOrderFFFromScratch .absTimesDtGt thr eigvals eigvecs props omega
          basis nOpers nCoeffs dt t) idx S1 ∧
    frequencyShifts2 (Vector.map (· / lam) omega)
        (secondOrderFFFromScratch .absTimesDtGt thr (Vector.map (Vector.map (· / lam)) eigvals) eigvecs
          props (Vector.map (· / lam) omega) basis nOpers nCoeffs (Vector.map (lam * ·) dt)
          (Vector.map (lam * ·) t)) idx (Vector.map (Vector.map (((1 / lam : ℝ) : ℂ) * ·)) S2)
      = frequencyShifts2 omega (secondOrderFFFromScratch .absTimesDtGt thr eigvals eigvecs props omega
          basis nOpers nCoeffs dt t) idx S2 ∧
    frequencyShifts3 (Vector.map (· / lam) omega)
        (secondOrderFFFromScratch .absTimesDtGt thr (Vector.map (Vector.map (· / lam)) eigvals) eigvecs
          props (Vector.map (· / lam) omega) basis nOpers nCoeffs (Vector.map (lam * ·) dt)
          (Vector.map (lam * ·) t)) idx
        (Vector.map (Vector.map (Vector.map (((1 / lam : ℝ) : ℂ) * ·))) S3)
      = frequencyShifts3 omega (secondOrderFFFromScratch .absTimesDtGt thr eigvals eigvecs props omega
          basis nOpers nCoeffs dt t) idx S3 :=
  frequency_shifts_rescale omega _ _ idx lam (lam ^ 2) (1 / lam) hl (by field_simp)
    (fun a b k l o => by
      rw [secondOrder_time_unit thr eigvals eigvecs props omega basis nOpers nCoeffs dt t lam hl]
      push_cast; rfl) S1 S2 S3

/-- **Frequency shifts under a change of the time unit, sensitivities rescaled** (the convention
of `C08.infidelity_time_unit`): durations and start times `× lam`; eigenvalues, frequencies AND the
sensitivities `n_coeffs` `÷ lam`.  Then `F2' = lam²·(1/lam)²·F2 = F2`, the trapezoid contributes
`1/lam`, and the frequency shifts are unchanged provided `S'(ω/lam) = lam·S(ω)` (spectral density
per unit frequency of a dimensionless noise variable). -/
theorem frequency_shifts_time_unit_coeffs (thr : ℝ)
    (eigvals : Mat ℝ nG d) (eigvecs props : Vector (Mat ℂ d d) nG) (omega : Vec ℝ nO)
    (basis : Vector (Mat ℂ d d) N) (nOpers : Vector (Mat ℂ d d) nA) (nCoeffs : Mat ℝ nA nG)
    (dt t : Vec ℝ nG) (lam : ℝ) (hl : lam ≠ 0) (idx : Vec (Fin nA) m)
    (S1 : Vec ℂ nO) (S2 : Mat ℂ m nO) (S3 : Ten3 ℂ m m nO) :
    frequencyShifts1 (Vector.map (· / lam) omega)
        (secondOrderFFFromScratch .absTimesDtGt thr (Vector.map (Vector.map (· / lam)) eigvals) eigvecs
          props (Vector.map (· / lam) omega) basis nOpers (Vector.map (Vector.map (· / lam)) nCoeffs)
          (Vector.map (lam * ·) dt) (Vector.map (lam * ·) t)) idx (Vector.map ((lam : ℂ) * ·) S1)
      = frequencyShifts1 omega (secondOrderFFFromScratch .absTimesDtGt thr eigvals eigvecs props omega
          basis nOpers nCoeffs dt t) idx S1 ∧
    frequencyShifts2 (Vector.map (· / lam) omega)
        (secondOrderFFFromScratch .absTimesDtGt thr (Vector.map (Vector.map (· / lam)) eigvals) eigvecs
          props (Vector.map (· / lam) omega) basis nOpers (Vector.map (Vector.map (· / lam)) nCoeffs)
          (Vector.map (lam * ·) dt) (Vector.map (lam * ·) t)) idx
        (Vector.map (Vector.map ((lam : ℂ) * ·)) S2)
      = frequencyShifts2 omega (secondOrderFFFromScratch .absTimesDtGt thr eigvals eigvecs props omega
          basis nOpers nCoeffs dt t) idx S2 ∧
    frequencyShifts3 (Vector.map (· / lam) omega)
        (secondOrderFFFromScratch .absTimesDtGt thr (Vector.map (Vector.map (· / lam)) eigvals) eigvecs
          props (Vector.map (· / lam) omega) basis nOpers (Vector.map (Vector.map (· / lam)) nCoeffs)
          (Vector.map (lam * ·) dt) (Vector.map (lam * ·) t)) idx
        (Vector.map (Vector.map (Vector.map ((lam : ℂ) * ·))) S3)
      = frequencyShifts3 omega (secondOrderFFFromScratch .absTimesDtGt thr eigvals eigvecs props omega
          basis nOpers nCoeffs dt t) idx S3 := by
  have hco : (Vector.map (Vector.map (· / lam)) nCoeffs : Mat ℝ nA nG)
      = Mat.ofFn fun a g => (1 / lam) * nCoeffs[a][g] := by
    refine mat_ext_fin fun a g => ?_
    rw [InvAux.vec_map_get, InvAux.vec_map_get, Mat.ofFn_get]
    ring
  have hlc : (lam : ℂ) ≠ 0 := by exact_mod_cast hl
  refine frequency_shifts_rescale omega _ _ idx lam 1 lam hl (one_mul _)
    (fun a b k l o => ?_) S1 S2 S3
  rw [hco, secondOrder_time_unit thr eigvals eigvecs props omega basis nOpers _ dt t lam hl,
    secondOrder_scale_coeffs]
  push_cast
  field_simp

/-- **Frequency shifts under cutting a segment** (hypotheses of `secondOrder_split_segment`): the
second-order filter functions agree entry by entry, hence so do the frequency shifts for every
spectrum shape, selection of noise operators and frequency grid. -/
theorem frequency_shifts_split_segment (thr : ℝ)
    (eigvals : Mat ℝ nG d) (eigvecs props : Vector (Mat ℂ d d) nG)
    (eigvals' : Mat ℝ (nG + 1) d) (eigvecs' props' : Vector (Mat ℂ d d) (nG + 1))
    (omega : Vec ℝ nO) (basis : Vector (Mat ℂ d d) N) (nOpers : Vector (Mat ℂ d d) nA)
    (nCoeffs : Mat ℝ nA nG) (nCoeffs' : Mat ℝ nA (nG + 1)) (dt t : Vec ℝ nG)
    (dt' t' : Vec ℝ (nG + 1)) (g₀ : Fin nG) (τ₁ τ₂ : ℝ)
    (hcut : IsSegmentCut eigvals eigvecs props nCoeffs dt t eigvals' eigvecs' props' nCoeffs' dt' t'
      g₀ g₀.succ τ₁ τ₂)
    (hV : (eigvecs[g₀].toMatrix)ᴴ * eigvecs[g₀].toMatrix = 1)
    (hN : ∀ (a : Fin nA) (i j : Fin d), (starRingEnd ℂ) nOpers[a][i][j] = nOpers[a][j][i])
    (hC : ∀ (k : Fin N) (i j : Fin d), (starRingEnd ℂ) basis[k][i][j] = basis[k][j][i])
    (idx : Vec (Fin nA) m) (S1 : Vec ℂ nO) (S2 : Mat ℂ m nO) (S3 : Ten3 ℂ m m nO) :
    frequencyShifts1 omega (secondOrderFFFromScratch .neZero thr eigvals' eigvecs' props' omega basis
        nOpers nCoeffs' dt' t') idx S1
      = frequencyShifts1 omega (secondOrderFFFromScratch .neZero thr eigvals eigvecs props omega basis
        nOpers nCoeffs dt t) idx S1 ∧
    frequencyShifts2 omega (secondOrderFFFromScratch .neZero thr eigvals' eigvecs' props' omega basis
        nOpers nCoeffs' dt' t') idx S2
      = frequencyShifts2 omega (secondOrderFFFromScratch .neZero thr eigvals eigvecs props omega basis
        nOpers nCoeffs dt t) idx S2 ∧
    frequencyShifts3 omega (secondOrderFFFromScratch .neZero thr eigvals' eigvecs' props' omega basis
        nOpers nCoeffs' dt' t') idx S3
      = frequencyShifts3 omega (secondOrderFFFromScratch .neZero thr eigvals eigvecs props omega basis
        nOpers nCoeffs dt t) idx S3 :=
  C10.frequency_shifts_congr omega _ _ idx
    (fun a b k l o => secondOrder_split_segment thr eigvals eigvecs props eigvals' eigvecs' props'
      omega basis nOpers nCoeffs nCoeffs' dt t dt' t' g₀ τ₁ τ₂ hcut hV hN hC a b k l o) S1 S2 S3

/-- **Frequency shifts under insertion of a zero-duration segment** (any guard, any operators):
unchanged. -/
theorem frequency_shifts_zero_dt_segment (kind : MaskKind) (thr : ℝ)
    (eigvals : Mat ℝ (nG + 1) d) (eigvecs props : Vector (Mat ℂ d d) (nG + 1)) (omega : Vec ℝ nO)
    (basis : Vector (Mat ℂ d d) N) (nOpers : Vector (Mat ℂ d d) nA)
    (nCoeffs : Mat ℝ nA (nG + 1)) (dt t : Vec ℝ (nG + 1)) (p : Fin (nG + 1)) (h0 : dt[p] = 0)
    (idx : Vec (Fin nA) m) (S1 : Vec ℂ nO) (S2 : Mat ℂ m nO) (S3 : Ten3 ℂ m m nO) :
    frequencyShifts1 omega (secondOrderFFFromScratch kind thr eigvals eigvecs props omega basis
        nOpers nCoeffs dt t) idx S1
      = frequencyShifts1 omega (secondOrderFFFromScratch kind thr
          (Vector.ofFn fun i : Fin nG => eigvals[p.succAbove i])
          (Vector.ofFn fun i => eigvecs[p.succAbove i]) (Vector.ofFn fun i => props[p.succAbove i])
          omega basis nOpers (Mat.ofFn fun a i => nCoeffs[a][p.succAbove i])
          (Vector.ofFn fun i => dt[p.succAbove i]) (Vector.ofFn fun i => t[p.succAbove i])) idx S1 ∧
    frequencyShifts2 omega (secondOrderFFFromScratch kind thr eigvals eigvecs props omega basis
        nOpers nCoeffs dt t) idx S2
      = frequencyShifts2 omega (secondOrderFFFromScratch kind thr
          (Vector.ofFn fun i : Fin nG => eigvals[p.succAbove i])
          (Vector.ofFn fun i => eigvecs[p.succAbove i]) (Vector.ofFn fun i => props[p.succAbove i])
          omega basis nOpers (Mat.ofFn fun a i => nCoeffs[a][p.succAbove i])
          (Vector.ofFn fun i => dt[p.succAbove i]) (Vector.ofFn fun i => t[p.succAbove i])) idx S2 ∧
    frequencyShifts3 omega (secondOrderFFFromScratch kind thr eigvals eigvecs props omega basis
        nOpers nCoeffs dt t) idx S3
      = frequencyShifts3 omega (secondOrderFFFromScratch kind thr
          (Vector.ofFn fun i : Fin nG => eigvals[p.succAbove i])
          (Vector.ofFn fun i => eigvecs[p.succAbove i]) (Vector.ofFn fun i => props[p.succAbove i])
          omega basis nOpers (Mat.ofFn fun a i => nCoeffs[a][p.succAbove i])
          (Vector.ofFn fun i => dt[p.succAbove i]) (Vector.ofFn fun i => t[p.succAbove i])) idx S3 :=
  C10.frequency_shifts_congr omega _ _ idx
    (fun a b k l o => secondOrder_zero_dt_segment kind thr eigvals eigvecs props omega basis nOpers
      nCoeffs dt t p h0 a b k l o) S1 S2 S3

/-- the relation `κ·σ = lam` of `frequency_shifts_rescale` in the two conventions -/
example (lam : ℝ) (hl : lam ≠ 0) : lam ^ 2 * (1 / lam) = lam ∧ (1 : ℝ) * lam = lam :=
  ⟨by field_simp, one_mul _⟩

end FFVerif.C13
