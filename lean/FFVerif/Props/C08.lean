/-
C08 — Infidelity, decay amplitudes and cumulant trace are mutually consistent.

Models: `Model.integrateC`/`integrateR` (`util.integrateC`), `Model.decayAmplitudes1/2/3` and the
memory-parsimonious variants (`calculate_decay_amplitudes`, control-matrix path, `which='total'`),
`Model.infidelityFromCM1/2/3` (`infidelity`, `which='total'`, both branches on
`basis.istraceless`), `Model.infidelityPC2/3` (`which='correlations'`), `Model.fourElementTraces`, `Model.cumulantGeneral`.
Property theorems only (helpers: FFVerif/Lemmas/InfidelityAux.lean, FidelityTraceAux.lean,
CumulantAux.lean).

Reading of `_get_integrand` that the statements below make precise: the integrand is
`(conj(B_ak) S_ab B_bl).real` — the real part is taken BEFORE integrating (for a two-sided grid and
a Hermitian spectrum the imaginary parts cancel in the integral; for a one-sided grid the code
defines the result as the integral of the real part).  Spectrum shapes: `(n_omega,)` → only
`a = b`, the common spectrum for every `a`; `(n_a, n_omega)` → only `a = b`, `S_a`;
`(n_a, n_a, n_omega)` → all pairs `(a, b)`.
-/
import FFVerif.Lemmas.FidelityTraceAux
import FFVerif.Lemmas.PulseCorrAux
import FFVerif.Lemmas.PauliAux
import FFVerif.Gen.Constants

namespace FFVerif.C08
open FFVerif Matrix

variable {n nA m N nO q d : Nat}

/-! ### (f) trapezoidal rule -/

/-- **(f) `util.integrateC` is the trapezoidal rule** on an arbitrary (non-uniform, not necessarily
sorted) grid: `Σ_i (x_{i+1} - x_i) (f_i + f_{i+1}) / 2` (`Spec.trapz`), for complex and for real
integrands; `n = 0, 1` give `0`. -/
theorem integrate_spec (x : Vec ℝ n) (f : Vec ℂ n) (g : Vec ℝ n) :
    Model.integrateC x f = Spec.trapz (fun r : ℝ => (r : ℂ)) (fun i => x[i]) (fun i => f[i]) ∧
    Model.integrateR x g = Spec.trapz (fun r : ℝ => r) (fun i => x[i]) (fun i => g[i]) :=
  ⟨integrate_eq_trapz x f, integrateR_eq_trapz x g⟩

/-- (f) the explicit form of `Spec.trapz` used above -/
example (x g : Fin 3 → ℝ) :
    Spec.trapz (fun r : ℝ => r) x g
      = (x 1 - x 0) * (g 0 + g 1) / 2 + (x 2 - x 1) * (g 1 + g 2) / 2 := by
  simp [Spec.trapz, Fin.sum_univ_two]

/-- **(f) linearity** of `util.integrateC` in the integrand -/
theorem integrate_linear (x : Vec ℝ n) (c : ℝ) (f g : Vec ℝ n) :
    Model.integrateR x (Vector.ofFn fun i => c * f[i] + g[i])
      = c * Model.integrateR x f + Model.integrateR x g := by
  simp only [integrateR_eq_trapz, Fin.getElem_fin, Vector.getElem_ofFn]
  rw [Spec.trapz_add, Spec.trapz_smul]

/-- **(f) positivity**: on a sorted grid the integral of a non-negative integrand is
non-negative.  (On an unsorted grid `np.diff(x)` has negative entries and this fails.) -/
theorem integrate_nonneg (x : Vec ℝ n) (hx : ∀ i j : Fin n, i ≤ j → x[i] ≤ x[j]) (f : Vec ℝ n)
    (hf : ∀ i : Fin n, 0 ≤ f[i]) : 0 ≤ Model.integrateR x f := by
  rw [integrateR_eq_trapz]
  exact Spec.trapz_nonneg _ hx _ hf

/-! ### (g) decay amplitudes -/

/-- **(g) Decay amplitudes are the trapezoidal integral of `Re(conj(B_ak) S_ab B_bl)/2π`**
(`Model.gammaEntry ω B_a B_b S_ab k l = integrateR ω (o ↦ Re(conj(B_ak(o)) S_ab(o) B_bl(o))) / (2π)`),
for the three spectrum shapes, every control matrix, every list `idx` of selected noise operators
and every grid:
* one spectrum `S1 : (n_omega,)` → `Γ[a][k][l]` uses `B_{idx a}` twice and `S1`;
* `S2 : (m, n_omega)` → `Γ[a][k][l]` uses `B_{idx a}` twice and `S2[a]`;
* `S3 : (m, m, n_omega)` → `Γ[a][b][k][l]` uses `B_{idx a}`, `B_{idx b}` and `S3[a][b]`. -/
theorem decay_amplitudes_entries (ω : Vec ℝ nO) (B : Ten3 ℂ nA N nO) (idx : Vec (Fin nA) m)
    (S1 : Vec ℂ nO) (S2 : Mat ℂ m nO) (S3 : Ten3 ℂ m m nO) (a b : Fin m) (k l : Fin N) :
    (Model.decayAmplitudes1 ω B idx S1)[a][k][l]
      = Model.gammaEntry ω B[idx[a]] B[idx[a]] S1 k l ∧
    (Model.decayAmplitudes2 ω B idx S2)[a][k][l]
      = Model.gammaEntry ω B[idx[a]] B[idx[a]] S2[a] k l ∧
    (Model.decayAmplitudes3 ω B idx S3)[a][b][k][l]
      = Model.gammaEntry ω B[idx[a]] B[idx[b]] S3[a][b] k l := by
  refine ⟨?_, Model.decayAmplitudes2_getElem ω B idx S2 a k l,
    Model.decayAmplitudes3_getElem ω B idx S3 a b k l⟩
  unfold Model.decayAmplitudes1
  rw [Model.decayAmplitudes2_getElem]
  simp only [Fin.getElem_fin, Vector.getElem_ofFn]
  rfl

/-- (g) `gammaEntry` spelled out -/
theorem gammaEntry_eq (ω : Vec ℝ nO) (Ba Bb : Mat ℂ N nO) (Sab : Vec ℂ nO) (k l : Fin N) :
    Model.gammaEntry ω Ba Bb Sab k l
      = Spec.trapz (fun r : ℝ => r) (fun o => ω[o])
          (fun o => (starRingEnd ℂ Ba[k][o] * Sab[o] * Bb[l][o]).re) / (2 * Real.pi) := by
  unfold Model.gammaEntry Model.gammaIntegrand
  rw [integrateR_eq_trapz]
  simp only [Fin.getElem_fin, Vector.getElem_ofFn]

/-- **The memory-parsimonious loop returns the same array** as the one-shot evaluation (two- and
three-dimensional spectra; the one-dimensional case is the two-dimensional one with a replicated
spectrum). -/
theorem decay_amplitudes_parsimonious (ω : Vec ℝ nO) (B : Ten3 ℂ nA N nO) (idx : Vec (Fin nA) m)
    (S2 : Mat ℂ m nO) (S3 : Ten3 ℂ m m nO) :
    Model.decayAmplitudes2Pars ω B idx S2 = Model.decayAmplitudes2 ω B idx S2 ∧
    Model.decayAmplitudes3Pars ω B idx S3 = Model.decayAmplitudes3 ω B idx S3 := by
  constructor
  · apply Vector.ext; intro a ha
    apply Vector.ext; intro k hk
    apply Vector.ext; intro l hl
    exact (Model.decayAmplitudes2Pars_getElem ω B idx S2 ⟨a, ha⟩ ⟨k, hk⟩ ⟨l, hl⟩).trans
      (Model.decayAmplitudes2_getElem ω B idx S2 ⟨a, ha⟩ ⟨k, hk⟩ ⟨l, hl⟩).symm
  · apply Vector.ext; intro a ha
    apply Vector.ext; intro b hb
    apply Vector.ext; intro k hk
    apply Vector.ext; intro l hl
    exact (Model.decayAmplitudes3Pars_getElem ω B idx S3 ⟨a, ha⟩ ⟨b, hb⟩ ⟨k, hk⟩ ⟨l, hl⟩).trans
      (Model.decayAmplitudes3_getElem ω B idx S3 ⟨a, ha⟩ ⟨b, hb⟩ ⟨k, hk⟩ ⟨l, hl⟩).symm

/-- a single spectrum `(n_omega,)` is the per-operator case with the spectrum replicated along the
noise-operator axis (broadcasting of the ellipsis in `'...ko,...o,...lo->...klo'`, resp. of
`filter_function[...]*spectrum`): by definition of the models. -/
theorem single_spectrum_is_broadcast (istl : Bool) (ω : Vec ℝ nO) (B : Ten3 ℂ nA N nO)
    (T : Ten4 ℂ N N N N) (idIdx : Vec (Fin N) q) (idx : Vec (Fin nA) m) (S1 : Vec ℂ nO) :
    Model.decayAmplitudes1 ω B idx S1 = Model.decayAmplitudes2 ω B idx (Vector.ofFn fun _ => S1) ∧
    Model.infidelityFromCM1 istl d ω B T idIdx idx S1
      = Model.infidelityFromCM2 istl d ω B T idIdx idx (Vector.ofFn fun _ => S1) :=
  ⟨rfl, rfl⟩

/-! ### (j) selecting noise operators -/

/-- **(j) Selecting noise operators returns the corresponding slice.**  If the spectra supplied for
the selection `idx` are those of the selected operators (`S'[a][b] = S[idx a][idx b]`), the decay
amplitudes for `idx` are exactly the `[idx, idx]` entries of the result for all operators
(`Vector.ofFn id` is `n_oper_identifiers=None`); likewise for one spectrum per operator. -/
theorem subset_is_slice (ω : Vec ℝ nO) (B : Ten3 ℂ nA N nO) (idx : Vec (Fin nA) m)
    (S : Ten3 ℂ nA nA nO) (S' : Ten3 ℂ m m nO) (hS : ∀ a b : Fin m, S'[a][b] = S[idx[a]][idx[b]])
    (s : Mat ℂ nA nO) (s' : Mat ℂ m nO) (hs : ∀ a : Fin m, s'[a] = s[idx[a]]) (a b : Fin m) :
    (Model.decayAmplitudes3 ω B idx S')[a][b]
      = (Model.decayAmplitudes3 ω B (Vector.ofFn id) S)[idx[a]][idx[b]] ∧
    (Model.decayAmplitudes2 ω B idx s')[a]
      = (Model.decayAmplitudes2 ω B (Vector.ofFn id) s)[idx[a]] := by
  have hid : ∀ i : Fin nA, (Vector.ofFn id : Vec (Fin nA) nA)[i] = i := by
    intro i; simp only [Fin.getElem_fin, Vector.getElem_ofFn, id, Fin.eta]
  constructor
  · apply Vector.ext; intro k hk
    apply Vector.ext; intro l hl
    have h1 := Model.decayAmplitudes3_getElem ω B idx S' a b ⟨k, hk⟩ ⟨l, hl⟩
    have h2 := Model.decayAmplitudes3_getElem ω B (Vector.ofFn id) S idx[a] idx[b] ⟨k, hk⟩ ⟨l, hl⟩
    simp only [hid] at h2
    rw [← hS] at h2
    simp only [Fin.getElem_fin] at h1 h2 ⊢
    exact h1.trans h2.symm
  · apply Vector.ext; intro k hk
    apply Vector.ext; intro l hl
    have h1 := Model.decayAmplitudes2_getElem ω B idx s' a ⟨k, hk⟩ ⟨l, hl⟩
    have h2 := Model.decayAmplitudes2_getElem ω B (Vector.ofFn id) s idx[a] ⟨k, hk⟩ ⟨l, hl⟩
    simp only [hid] at h2
    rw [← hs] at h2
    simp only [Fin.getElem_fin] at h1 h2 ⊢
    exact h1.trans h2.symm

/-! ### (h), (i) trace tensor, infidelity and the trace of the cumulant function -/

/-- **(h) Completeness sums of the trace tensor.**  For a complete orthonormal Hermitian basis
`Σ_i T_{k l i i} = d δ_kl` and `Σ_i T_{k i l i} = tr C_k · tr C_l`; hence the array `traces_diag`
of `infidelity` is `d δ_kl - tr C_k tr C_l`. -/
theorem trace_tensor_completeness (C : Vector (Mat ℂ d d) N)
    (hC : Spec.IsComplete (Spec.basisOf C)) (hH : Spec.IsOrthoHerm (Spec.basisOf C))
    (k l : Fin N) :
    (∑ i : Fin N, (Model.fourElementTraces C)[k][l][i][i]) = (d : ℂ) * (if k = l then 1 else 0) ∧
    (∑ i : Fin N, (Model.fourElementTraces C)[k][i][l][i])
      = trace (Spec.basisOf C k) * trace (Spec.basisOf C l) ∧
    (Model.tracesDiag (Model.fourElementTraces C))[k][l]
      = (d : ℂ) * (if k = l then 1 else 0)
        - trace (Spec.basisOf C k) * trace (Spec.basisOf C l) := by
  refine ⟨?_, ?_, Model.tracesDiag_fourElementTraces C hC hH k l⟩
  · simp only [Model.fourElementTraces_eq]
    exact Spec.sum_T4_klii hC hH k l
  · simp only [Model.fourElementTraces_eq]
    exact Spec.sum_T4_kili hC k l

/-- **(i), algebraic core.**  For the documented cumulant function (first and second order) over a
complete orthonormal Hermitian basis,
`-(1/d²) Σ_i K_ii = (1/d²) Σ_kl Γ_kl (d δ_kl - tr C_k tr C_l)`; the second-order part does not
contribute (it is antisymmetric). -/
theorem neg_trace_cumulant (C : Fin N → Matrix (Fin d) (Fin d) ℂ) (hC : Spec.IsComplete C)
    (hH : Spec.IsOrthoHerm C) (Γ Δ : Fin N → Fin N → ℂ) :
    -(1 / (d : ℂ) ^ 2) * ∑ i, Spec.Kfull C Γ Δ i i
      = 1 / (d : ℂ) ^ 2 * ∑ k, ∑ l, Γ k l
          * ((d : ℂ) * (if k = l then 1 else 0) - trace (C k) * trace (C l)) := by
  simp only [Spec.Kfull, Spec.K2_diag, add_zero, Spec.sum_K1_diag hC hH, Spec.tdiag]
  ring

/-- the decay amplitudes of the pair `(a, b)` as the complex `Γ` of the specification -/
noncomputable def gammaOf (G : Mat ℝ N N) : Fin N → Fin N → ℂ := fun k l => (G[k][l] : ℂ)

/-- **(i) Trace-tensor branch** (`not basis.istraceless`; the formula it evaluates is valid for
EVERY complete orthonormal Hermitian basis, traceless or not): the reported infidelity of the pair
`(a, b)` (cross-spectral matrix) resp. of the source `a` (one spectrum per source) equals
`-tr K_ab / d²` of the cumulant function built from the decay amplitudes of that pair, for every
`Δ`. -/
theorem infidelity_eq_neg_trace_cumulant (C : Vector (Mat ℂ d d) N)
    (hC : Spec.IsComplete (Spec.basisOf C)) (hH : Spec.IsOrthoHerm (Spec.basisOf C))
    (ω : Vec ℝ nO) (B : Ten3 ℂ nA N nO) (idIdx : Vec (Fin N) q) (idx : Vec (Fin nA) m)
    (S3 : Ten3 ℂ m m nO) (S2 : Mat ℂ m nO) (Δ : Fin N → Fin N → ℂ) (a b : Fin m) :
    (((Model.infidelityFromCM3 false d ω B (Model.fourElementTraces C) idIdx idx S3)[a][b] : ℝ) : ℂ)
      = -(1 / (d : ℂ) ^ 2) * ∑ i, Spec.Kfull (Spec.basisOf C)
          (gammaOf (Model.decayAmplitudes3 ω B idx S3)[a][b]) Δ i i ∧
    (((Model.infidelityFromCM2 false d ω B (Model.fourElementTraces C) idIdx idx S2)[a] : ℝ) : ℂ)
      = -(1 / (d : ℂ) ^ 2) * ∑ i, Spec.Kfull (Spec.basisOf C)
          (gammaOf (Model.decayAmplitudes2 ω B idx S2)[a]) Δ i i := by
  have ht : ∀ k l : Fin N, (Model.tracesDiag (Model.fourElementTraces C))[k][l]
      = (((d : ℝ) * (if k = l then 1 else 0)
          - (trace (Spec.basisOf C k)).re * (trace (Spec.basisOf C l)).re : ℝ) : ℂ) := by
    intro k l
    rw [Model.tracesDiag_fourElementTraces C hC hH, Spec.tdiag_real hH.herm]
  constructor
  · rw [Model.infidelityFromCM3_false _ _ _ _ _ _ _ _ ht, neg_trace_cumulant _ hC hH]
    push_cast
    congr 1
    refine Finset.sum_congr rfl fun k _ => Finset.sum_congr rfl fun l _ => ?_
    have h := Spec.tdiag_real hH.herm k l
    rw [Spec.tdiag] at h
    rw [h]
    push_cast
    rfl
  · rw [Model.infidelityFromCM2_false _ _ _ _ _ _ _ _ ht, neg_trace_cumulant _ hC hH]
    push_cast
    congr 1
    refine Finset.sum_congr rfl fun k _ => Finset.sum_congr rfl fun l _ => ?_
    have h := Spec.tdiag_real hH.herm k l
    rw [Spec.tdiag] at h
    rw [h]
    push_cast
    rfl

/-- **(i) Traceless branch** (`basis.istraceless`, `_identity_element_index(basis) = [k0]`): for a
complete orthonormal Hermitian basis whose element `k0` is a multiple of the identity (all other
elements are then traceless) the branch returns `(Σ_k Γ_kk - Γ_{k0 k0})/d`, which is again
`-tr K_ab / d²`: the identity component of a noise operator does not contribute.  (`T` is not
used by this branch.) -/
theorem infidelity_traceless_branch (C : Vector (Mat ℂ d d) N)
    (hC : Spec.IsComplete (Spec.basisOf C)) (hH : Spec.IsOrthoHerm (Spec.basisOf C))
    (k0 : Fin N) (c : ℂ) (h0 : Spec.basisOf C k0 = c • (1 : Matrix (Fin d) (Fin d) ℂ))
    (ω : Vec ℝ nO) (B : Ten3 ℂ nA N nO) (T : Ten4 ℂ N N N N) (idx : Vec (Fin nA) m)
    (S3 : Ten3 ℂ m m nO) (S2 : Mat ℂ m nO) (Δ : Fin N → Fin N → ℂ) (a b : Fin m) :
    (((Model.infidelityFromCM3 true d ω B T #v[k0] idx S3)[a][b] : ℝ) : ℂ)
      = -(1 / (d : ℂ) ^ 2) * ∑ i, Spec.Kfull (Spec.basisOf C)
          (gammaOf (Model.decayAmplitudes3 ω B idx S3)[a][b]) Δ i i ∧
    (((Model.infidelityFromCM2 true d ω B T #v[k0] idx S2)[a] : ℝ) : ℂ)
      = -(1 / (d : ℂ) ^ 2) * ∑ i, Spec.Kfull (Spec.basisOf C)
          (gammaOf (Model.decayAmplitudes2 ω B idx S2)[a]) Δ i i := by
  have hd : (d : ℂ) ≠ 0 := by
    intro hd
    have h := hH.ortho k0 k0
    rw [h0, Matrix.smul_mul, Matrix.one_mul, trace_smul, trace_smul, trace_one, Fintype.card_fin,
      hd, if_pos rfl] at h
    simp at h
  have key : ∀ G : Mat ℝ N N,
      -(1 / (d : ℂ) ^ 2) * ∑ i, Spec.Kfull (Spec.basisOf C) (gammaOf G) Δ i i
        = (((1 : ℝ) / (d : ℝ) * ((∑ k : Fin N, G[k][k]) - ∑ r : Fin 1, G[(#v[k0])[r]][(#v[k0])[r]])
            : ℝ) : ℂ) := by
    intro G
    rw [neg_trace_cumulant _ hC hH]
    simp only [Spec.trace_of_identity_element hH k0 c h0, gammaOf, mul_sub, Finset.sum_sub_distrib]
    simp only [mul_ite, mul_one, mul_zero, Finset.sum_ite_eq, Finset.mul_sum,
      Finset.mem_univ, if_true, ite_and, Fin.sum_univ_one]
    push_cast
    simp only [Fin.getElem_fin, Fin.val_zero, Vector.getElem_mk, List.getElem_toArray,
      List.getElem_cons_zero]
    have e : ∀ g : ℂ, 1 / (d : ℂ) ^ 2 * (g * d) = 1 / d * g := by
      intro g; field_simp
    have h2 : ∀ f : Fin N → Fin N → ℂ,
        ∑ x, ∑ x1, (if x = k0 then if x1 = k0 then f x x1 else 0 else 0) = f k0 k0 := by
      intro f
      rw [Finset.sum_eq_single k0 (by intro x _ hx; simp [hx]) (by simp)]
      simp
    rw [h2 (fun x x1 => 1 / (d : ℂ) ^ 2 * ((G[x.1][x1.1] : ℂ) * d))]
    simp only [e]
  exact ⟨by rw [Model.infidelityFromCM3_true, key], by rw [Model.infidelityFromCM2_true, key]⟩

/-- the hypotheses of `infidelity_eq_neg_trace_cumulant` and `infidelity_traceless_branch` are
satisfiable: the normalised Pauli basis (as a model array) is complete, orthonormal, Hermitian and
its element `0` is `(1/√2)·1`. -/
example : ∃ C : Vector (Mat ℂ 2 2) 4, Spec.IsComplete (Spec.basisOf C) ∧
    Spec.IsOrthoHerm (Spec.basisOf C) ∧
    Spec.basisOf C 0 = Spec.invSqrt2 • (1 : Matrix (Fin 2) (Fin 2) ℂ) := by
  refine ⟨Vector.ofFn fun i => Mat.ofFn (Spec.pauliBasis i), ?_⟩
  have h : Spec.basisOf (Vector.ofFn fun i => Mat.ofFn (Spec.pauliBasis i)) = Spec.pauliBasis := by
    funext i; ext a b
    simp [Spec.basisOf, Mat.toMatrix, Mat.ofFn]
  rw [h]
  refine ⟨Spec.pauliBasis_complete, Spec.pauliBasis_orthoHerm, ?_⟩
  simp [Spec.pauliBasis, Spec.sigma, Matrix.one_fin_two]

/-! ### (k) positivity -/

/-- **(k) The total infidelity is non-negative for a positive-semidefinite spectrum.**  For a
complete orthonormal Hermitian basis (`0 < d`), a sorted frequency grid and a cross-spectral matrix
that is positive semidefinite at every sample (`Σ_ab conj(v_a) S_ab(ω_o) v_b` has non-negative real
part for every `v`), the sum over all pairs `(a, b)` of the infidelities returned by the
trace-tensor branch is `≥ 0`; the same holds for the traceless branch with identity element `k0`
(`_identity_element_index = [k0]`; no hypothesis on the basis is needed there).
The individual cross terms `I_ab`, `a ≠ b`, can be negative. -/
theorem total_infidelity_nonneg (C : Vector (Mat ℂ d d) N) (hd : 0 < d)
    (hC : Spec.IsComplete (Spec.basisOf C)) (hH : Spec.IsOrthoHerm (Spec.basisOf C))
    (ω : Vec ℝ nO) (hω : ∀ i j : Fin nO, i ≤ j → ω[i] ≤ ω[j])
    (B : Ten3 ℂ nA N nO) (T : Ten4 ℂ N N N N) (idIdx : Vec (Fin N) q) (k0 : Fin N)
    (idx : Vec (Fin nA) m) (S3 : Ten3 ℂ m m nO)
    (hS : ∀ (o : Fin nO) (v : Fin m → ℂ),
      0 ≤ (∑ a : Fin m, ∑ b : Fin m, starRingEnd ℂ (v a) * S3[a][b][o] * v b).re) :
    0 ≤ ∑ a : Fin m, ∑ b : Fin m,
      (Model.infidelityFromCM3 false d ω B (Model.fourElementTraces C) idIdx idx S3)[a][b] ∧
    0 ≤ ∑ a : Fin m, ∑ b : Fin m,
      (Model.infidelityFromCM3 true d ω B T #v[k0] idx S3)[a][b] := by
  constructor
  · unfold Model.infidelityFromCM3
    simp only [Model.infidelityFull_getElem]
    let τ : Fin N → ℝ := fun k => (trace (Spec.basisOf C k)).re
    let t : Fin N → Fin N → ℝ := fun k l => (d : ℝ) * (if k = l then 1 else 0) - τ k * τ l
    have hτ : ∑ j, τ j * τ j = (d : ℝ) := by
      have h := congrArg Complex.re (Spec.sum_sq_traces hC)
      rw [Complex.re_sum, Complex.natCast_re] at h
      rw [← h]
      refine Finset.sum_congr rfl fun j _ => ?_
      have hr : ((trace (Spec.basisOf C j)).re : ℂ) = trace (Spec.basisOf C j) := by
        apply Complex.conj_eq_iff_re.mp
        rw [starRingEnd_apply, ← trace_conjTranspose, hH.herm]
      rw [← hr, ← Complex.ofReal_mul, Complex.ofReal_re]
    have hd' : (d : ℝ) ≠ 0 := Nat.cast_ne_zero.mpr (Nat.pos_iff_ne_zero.mp hd)
    have ht : ∀ k l, t k l = (1 / (d : ℝ)) * ∑ j, t k j * t l j := by
      intro k l
      have hg := Spec.gram_of_weights τ (d : ℝ) hτ k l
      simp only [t]
      rw [← hg]
      field_simp
    refine Model.infid_total_nonneg ω hω (fun a => B[idx[a]]) (fun a b => S3[a][b]) _ hS d d t t
      (1 / (d : ℝ)) (by positivity) ht ?_
    intro a b o
    rw [Model.fidelityFF_false_getElem]
    congr 1
    refine Finset.sum_congr rfl fun k _ => Finset.sum_congr rfl fun l _ => ?_
    rw [Model.tracesDiag_fourElementTraces C hC hH, Spec.tdiag_real hH.herm]
  · unfold Model.infidelityFromCM3
    simp only [Model.infidelityFull_getElem]
    let t : Fin N → Fin N → ℝ := fun k l => if k = l ∧ k ≠ k0 then 1 else 0
    have ht : ∀ k l, t k l = 1 * ∑ j, t k j * t l j := by
      intro k l
      simp only [t, one_mul]
      by_cases hkl : k = l
      · subst hkl
        by_cases hk : k = k0 <;> simp [hk]
      · simp only [hkl, false_and, if_false]
        symm
        apply Finset.sum_eq_zero
        intro x _
        by_cases h1 : k = x
        · by_cases h2 : l = x
          · exact absurd (h1.trans h2.symm) hkl
          · simp [h2]
        · simp [h1]
    refine Model.infid_total_nonneg ω hω (fun a => B[idx[a]]) (fun a b => S3[a][b]) _ hS d 1 t t
      1 zero_le_one ht ?_
    intro a b o
    rw [Model.fidelityFF_true_getElem]
    simp only [t, Nat.cast_one, div_one, Fin.sum_univ_one]
    have hv : (#v[k0] : Vec (Fin N) 1)[(0 : Fin 1)] = k0 := rfl
    simp only [hv]
    have hin : ∀ x : Fin N, (∑ x1 : Fin N, starRingEnd ℂ B[idx[a]][x][o] * B[idx[b]][x1][o]
          * ((if x = x1 ∧ x ≠ k0 then (1 : ℝ) else 0 : ℝ) : ℂ))
        = if x = k0 then 0 else starRingEnd ℂ B[idx[a]][x][o] * B[idx[b]][x][o] := by
      intro x
      rw [Finset.sum_eq_single x]
      · by_cases h : x = k0 <;> simp [h]
      · intro y _ hy
        simp [Ne.symm hy]
      · simp
    simp only [hin]
    have hsplit : ∀ x : Fin N, starRingEnd ℂ B[idx[a]][x][o] * B[idx[b]][x][o]
        = (if x = k0 then 0 else starRingEnd ℂ B[idx[a]][x][o] * B[idx[b]][x][o])
          + (if x = k0 then starRingEnd ℂ B[idx[a]][x][o] * B[idx[b]][x][o] else 0) := by
      intro x
      by_cases h : x = k0 <;> simp [h]
    rw [Finset.sum_congr rfl (fun x _ => hsplit x), Finset.sum_add_distrib, Finset.sum_ite_eq']
    simp

/-! ### pulse correlations -/

/-- **Pulse-correlation infidelities sum to the total.**  If the control matrix of the whole
sequence is the sum over pulses of the pulse-correlation control matrix
(`Model.totalControlMatrix Bpc`, i.e. `control_matrix_pc.sum(axis=0)`), then for every pair of noise
sources, every spectrum shape and every grid `Σ_{g,g'} I^{(gg')} = I`:
* on the trace-tensor branch (`not basis.istraceless`, `_identity_element_index` empty) — with the
  contraction `'gako,hblo,kl->ghabo'` of the current source;
* on the traceless branch, for every `identity_idx`, PROVIDED `pulse.is_cached('control_matrix_pc')`
  (otherwise the Python does not subtract the identity-element term from the pulse-correlation
  filter function, and the sum exceeds the total by that term).
No hypothesis on the basis is needed (bilinearity of the filter function, linearity of the
trapezoid). -/
theorem pulse_correlations_sum_to_total {G : Nat} (ω : Vec ℝ nO)
    (Bpc : Vector (Ten3 ℂ nA N nO) G) (T : Ten4 ℂ N N N N) (idEmpty : Vec (Fin N) 0)
    (idIdx : Vec (Fin N) q) (c : Bool) (idx : Vec (Fin nA) m) (S3 : Ten3 ℂ m m nO)
    (S2 : Mat ℂ m nO) (a b : Fin m) :
    (∑ g : Fin G, ∑ h : Fin G, (Model.infidelityPC3 false d ω Bpc T idEmpty c idx S3)[g][h][a][b]
      = (Model.infidelityFromCM3 false d ω (Model.totalControlMatrix Bpc) T idIdx idx S3)[a][b]) ∧
    (∑ g : Fin G, ∑ h : Fin G, (Model.infidelityPC2 false d ω Bpc T idEmpty c idx S2)[g][h][a]
      = (Model.infidelityFromCM2 false d ω (Model.totalControlMatrix Bpc) T idIdx idx S2)[a]) ∧
    (∑ g : Fin G, ∑ h : Fin G, (Model.infidelityPC3 true d ω Bpc T idIdx true idx S3)[g][h][a][b]
      = (Model.infidelityFromCM3 true d ω (Model.totalControlMatrix Bpc) T idIdx idx S3)[a][b]) ∧
    (∑ g : Fin G, ∑ h : Fin G, (Model.infidelityPC2 true d ω Bpc T idIdx true idx S2)[g][h][a]
      = (Model.infidelityFromCM2 true d ω (Model.totalControlMatrix Bpc) T idIdx idx S2)[a]) :=
  ⟨Model.infidelityPC3_sum_false d ω Bpc T idEmpty idIdx c idx S3 a b,
   Model.infidelityPC2_sum_false d ω Bpc T idEmpty idIdx c idx S2 a,
   Model.infidelityPC3_sum_true d ω Bpc T idIdx idx S3 a b,
   Model.infidelityPC2_sum_true d ω Bpc T idIdx idx S2 a⟩

/-! ### Source shape -/

end FFVerif.C08
