/-
C10 / C12 / C09 — `numeric.calculate_frequency_shifts` (model `Model.frequencyShifts1/2/3`,
`Model/Shifts.lean`) and its use in the cumulant function.

* what the routine computes (trapezoid of `Re(S_ab F2_{ab,kl})/2π`, the three spectrum shapes, the
  selection of noise operators, real-linearity in the spectrum);
* the result depends on the second-order filter function values only — in particular it is the same
  whether the loop of `calculate_second_order_filter_function` is fed with cached intermediates or
  with freshly computed ones;
* basis covariance `Δ' = O Δ Oᵀ`, from the basis covariance `F2' = O F2 Oᵀ` of the second-order
  filter function; this discharges the abstract `Δ` hypothesis of `C12.cumulant_basis_change` /
  `C12.etm_basis_change` end to end;
* `Δ_{ab,kl} + Δ_{ba,lk} = Γ_{ab,kl}` for a Hermitian spectrum: the symmetric part of the frequency
  shifts is (half) the decay amplitudes, and `calculate_cumulant_function` uses the antisymmetric
  part only.

The frequency shifts are REAL arrays (`_get_integrand` returns `integrand.real`; the real part is
taken BEFORE integrating), like the decay amplitudes.
Property theorems only (helper lemmas: FFVerif/Lemmas/ShiftsAux.lean, ShiftsBasisAux.lean).
-/
import FFVerif.Lemmas.ShiftsAux
import FFVerif.Lemmas.ShiftsBasisAux
import FFVerif.Lemmas.ShiftsEtmAux
import FFVerif.Props.C10Asm
import FFVerif.Props.C12Etm

namespace FFVerif.C10
open FFVerif FFVerif.Model FFVerif.SecondOrderAsm Complex Matrix NormedSpace

variable {nG d nO nA N N' m : ℕ}

/-! ### 1. What `calculate_frequency_shifts` computes -/

/-- **Frequency shifts are the trapezoidal integral of `Re(F2_{ab,kl} S_ab)/2π`**
(`Spec.trapz … = Σ_i (ω_{i+1} - ω_i)(f_i + f_{i+1})/2`), for the three spectrum shapes, every
second-order filter function array `F2`, every list `idx` of selected noise operators and every
grid:
* one spectrum `S1 : (n_omega,)` → `Δ[a][k][l]` uses `F2[idx a][idx a]` and `S1`;
* `S2 : (m, n_omega)` → `Δ[a][k][l]` uses `F2[idx a][idx a]` and `S2[a]`;
* `S3 : (m, m, n_omega)` → `Δ[a][b][k][l]` uses `F2[idx a][idx b]` and `S3[a][b]`. -/
theorem frequency_shifts_entries (ω : Vec ℝ nO) (F2 : Ten5 ℂ nA nA N N nO) (idx : Vec (Fin nA) m)
    (S1 : Vec ℂ nO) (S2 : Mat ℂ m nO) (S3 : Ten3 ℂ m m nO) (a b : Fin m) (k l : Fin N) :
    (frequencyShifts1 ω F2 idx S1)[a][k][l]
      = Spec.trapz (fun r : ℝ => r) (fun o => ω[o])
          (fun o => (F2[idx[a]][idx[a]][k][l][o] * S1[o]).re) / (2 * Real.pi) ∧
    (frequencyShifts2 ω F2 idx S2)[a][k][l]
      = Spec.trapz (fun r : ℝ => r) (fun o => ω[o])
          (fun o => (F2[idx[a]][idx[a]][k][l][o] * S2[a][o]).re) / (2 * Real.pi) ∧
    (frequencyShifts3 ω F2 idx S3)[a][b][k][l]
      = Spec.trapz (fun r : ℝ => r) (fun o => ω[o])
          (fun o => (F2[idx[a]][idx[b]][k][l][o] * S3[a][b][o]).re) / (2 * Real.pi) :=
  ⟨by rw [frequencyShifts1_getElem, shiftEntry_eq], by rw [frequencyShifts2_getElem, shiftEntry_eq],
    by rw [frequencyShifts3_getElem, shiftEntry_eq]⟩

/-- the trapezoid sum spelled out on a three-point grid -/
example (x : Fin 3 → ℝ) (g : Fin 3 → ℝ) :
    Spec.trapz (fun r : ℝ => r) x g
      = (x 1 - x 0) * (g 0 + g 1) / 2 + (x 2 - x 1) * (g 1 + g 2) / 2 := by
  simp [Spec.trapz, Fin.sum_univ_two]

/-- **A single spectrum `(n_omega,)` is the per-operator case with the spectrum replicated** along
the noise-operator axis (broadcasting of `filter_function[..., tuple(idx), tuple(idx), :]*spectrum`;
by definition of the model), and **one spectrum per operator is the diagonal of the cross-spectral
case**: if `S3[a][a] = S2[a]` the `(a, a)` blocks of the 3-d result are the 2-d result. -/
theorem frequency_shifts_single_spectrum_is_broadcast (ω : Vec ℝ nO) (F2 : Ten5 ℂ nA nA N N nO)
    (idx : Vec (Fin nA) m) (S1 : Vec ℂ nO) (S2 : Mat ℂ m nO) (S3 : Ten3 ℂ m m nO)
    (hS : ∀ a : Fin m, S3[a][a] = S2[a]) :
    frequencyShifts1 ω F2 idx S1 = frequencyShifts2 ω F2 idx (Vector.ofFn fun _ => S1) ∧
    ∀ a : Fin m, (frequencyShifts3 ω F2 idx S3)[a][a] = (frequencyShifts2 ω F2 idx S2)[a] := by
  refine ⟨rfl, fun a => ?_⟩
  apply Vector.ext; intro k hk
  apply Vector.ext; intro l hl
  have h3 := frequencyShifts3_getElem ω F2 idx S3 a a ⟨k, hk⟩ ⟨l, hl⟩
  have h2 := frequencyShifts2_getElem ω F2 idx S2 a ⟨k, hk⟩ ⟨l, hl⟩
  rw [hS a] at h3
  simp only [Fin.getElem_fin] at h2 h3 ⊢
  exact h3.trans h2.symm

/-- **Selecting noise operators returns the corresponding slice.**  If the spectra supplied for the
selection `idx` are those of the selected operators (`S'[a][b] = S[idx a][idx b]`), the frequency
shifts for `idx` are exactly the `[idx, idx]` entries of the result for all operators
(`Vector.ofFn id` is `n_oper_identifiers=None`); likewise for one spectrum per operator. -/
theorem frequency_shifts_subset_is_slice (ω : Vec ℝ nO) (F2 : Ten5 ℂ nA nA N N nO)
    (idx : Vec (Fin nA) m) (S : Ten3 ℂ nA nA nO) (S' : Ten3 ℂ m m nO)
    (hS : ∀ a b : Fin m, S'[a][b] = S[idx[a]][idx[b]])
    (s : Mat ℂ nA nO) (s' : Mat ℂ m nO) (hs : ∀ a : Fin m, s'[a] = s[idx[a]]) (a b : Fin m) :
    (frequencyShifts3 ω F2 idx S')[a][b]
      = (frequencyShifts3 ω F2 (Vector.ofFn id) S)[idx[a]][idx[b]] ∧
    (frequencyShifts2 ω F2 idx s')[a]
      = (frequencyShifts2 ω F2 (Vector.ofFn id) s)[idx[a]] := by
  have hid : ∀ i : Fin nA, (Vector.ofFn id : Vec (Fin nA) nA)[i] = i := by
    intro i; simp only [Fin.getElem_fin, Vector.getElem_ofFn, id, Fin.eta]
  constructor
  · apply Vector.ext; intro k hk
    apply Vector.ext; intro l hl
    have h1 := frequencyShifts3_getElem ω F2 idx S' a b ⟨k, hk⟩ ⟨l, hl⟩
    have h2 := frequencyShifts3_getElem ω F2 (Vector.ofFn id) S idx[a] idx[b] ⟨k, hk⟩ ⟨l, hl⟩
    simp only [hid] at h2
    rw [← hS] at h2
    simp only [Fin.getElem_fin] at h1 h2 ⊢
    exact h1.trans h2.symm
  · apply Vector.ext; intro k hk
    apply Vector.ext; intro l hl
    have h1 := frequencyShifts2_getElem ω F2 idx s' a ⟨k, hk⟩ ⟨l, hl⟩
    have h2 := frequencyShifts2_getElem ω F2 (Vector.ofFn id) s idx[a] ⟨k, hk⟩ ⟨l, hl⟩
    simp only [hid] at h2
    rw [← hs] at h2
    simp only [Fin.getElem_fin] at h1 h2 ⊢
    exact h1.trans h2.symm

/-- **Real-linearity in the spectrum**: `Δ(c·S + S') = c·Δ(S) + Δ(S')` for real `c`, every entry,
all three spectrum shapes.  (For complex `c` this fails: the real part is taken before
integrating.) -/
theorem frequency_shifts_linear_in_spectrum (ω : Vec ℝ nO) (F2 : Ten5 ℂ nA nA N N nO)
    (idx : Vec (Fin nA) m) (c : ℝ) (S1 S1' : Vec ℂ nO) (S2 S2' : Mat ℂ m nO)
    (S3 S3' : Ten3 ℂ m m nO) (a b : Fin m) (k l : Fin N) :
    (frequencyShifts1 ω F2 idx (Vector.ofFn fun o => (c : ℂ) * S1[o] + S1'[o]))[a][k][l]
      = c * (frequencyShifts1 ω F2 idx S1)[a][k][l] + (frequencyShifts1 ω F2 idx S1')[a][k][l] ∧
    (frequencyShifts2 ω F2 idx
        (Vector.ofFn fun a => Vector.ofFn fun o => (c : ℂ) * S2[a][o] + S2'[a][o]))[a][k][l]
      = c * (frequencyShifts2 ω F2 idx S2)[a][k][l] + (frequencyShifts2 ω F2 idx S2')[a][k][l] ∧
    (frequencyShifts3 ω F2 idx (Vector.ofFn fun a => Vector.ofFn fun b => Vector.ofFn fun o =>
        (c : ℂ) * S3[a][b][o] + S3'[a][b][o]))[a][b][k][l]
      = c * (frequencyShifts3 ω F2 idx S3)[a][b][k][l]
        + (frequencyShifts3 ω F2 idx S3')[a][b][k][l] := by
  refine ⟨?_, ?_, ?_⟩
  · rw [frequencyShifts1_getElem, frequencyShifts1_getElem, frequencyShifts1_getElem,
      shiftEntry_linear]
  · rw [frequencyShifts2_getElem, frequencyShifts2_getElem, frequencyShifts2_getElem,
      vec_ofFn_get, shiftEntry_linear]
  · rw [frequencyShifts3_getElem, frequencyShifts3_getElem, frequencyShifts3_getElem,
      vec_ofFn_get, vec_ofFn_get, shiftEntry_linear]

/-! ### 2. Dependence on the second-order filter function only; reuse of intermediates -/

/-- **The frequency shifts depend on the values of the second-order filter function only**, and
only on those of the selected pairs of noise operators: two arrays `F2`, `F2'` that agree on
`[idx a][idx b]` give the same frequency shifts, for every spectrum shape and grid.  (Whatever way
`pulse.get_filter_function(omega, order=2)` obtained its value — cache, intermediates of an earlier
control-matrix computation, or from scratch — only the value matters.) -/
theorem frequency_shifts_congr_intermediates (ω : Vec ℝ nO) (F2 F2' : Ten5 ℂ nA nA N N nO)
    (idx : Vec (Fin nA) m)
    (h : ∀ (a b : Fin m) (k l : Fin N) (o : Fin nO),
      F2[idx[a]][idx[b]][k][l][o] = F2'[idx[a]][idx[b]][k][l][o])
    (S1 : Vec ℂ nO) (S2 : Mat ℂ m nO) (S3 : Ten3 ℂ m m nO) :
    frequencyShifts1 ω F2 idx S1 = frequencyShifts1 ω F2' idx S1 ∧
    frequencyShifts2 ω F2 idx S2 = frequencyShifts2 ω F2' idx S2 ∧
    frequencyShifts3 ω F2 idx S3 = frequencyShifts3 ω F2' idx S3 := by
  have h2 : ∀ S2 : Mat ℂ m nO, frequencyShifts2 ω F2 idx S2 = frequencyShifts2 ω F2' idx S2 := by
    intro S2
    apply Vector.ext; intro a ha
    apply Vector.ext; intro k hk
    apply Vector.ext; intro l hl
    exact (frequencyShifts2_getElem ω F2 idx S2 ⟨a, ha⟩ ⟨k, hk⟩ ⟨l, hl⟩).trans
      ((shiftEntry_congr ω _ _ _ (h ⟨a, ha⟩ ⟨a, ha⟩ ⟨k, hk⟩ ⟨l, hl⟩)).trans
        (frequencyShifts2_getElem ω F2' idx S2 ⟨a, ha⟩ ⟨k, hk⟩ ⟨l, hl⟩).symm)
  refine ⟨h2 _, h2 S2, ?_⟩
  apply Vector.ext; intro a ha
  apply Vector.ext; intro b hb
  apply Vector.ext; intro k hk
  apply Vector.ext; intro l hl
  exact (frequencyShifts3_getElem ω F2 idx S3 ⟨a, ha⟩ ⟨b, hb⟩ ⟨k, hk⟩ ⟨l, hl⟩).trans
    ((shiftEntry_congr ω _ _ _ (h ⟨a, ha⟩ ⟨b, hb⟩ ⟨k, hk⟩ ⟨l, hl⟩)).trans
      (frequencyShifts3_getElem ω F2' idx S3 ⟨a, ha⟩ ⟨b, hb⟩ ⟨k, hk⟩ ⟨l, hl⟩).symm)

/-- the same with agreement on all pairs of noise operators -/
theorem frequency_shifts_congr (ω : Vec ℝ nO) (F2 F2' : Ten5 ℂ nA nA N N nO)
    (idx : Vec (Fin nA) m)
    (h : ∀ (a b : Fin nA) (k l : Fin N) (o : Fin nO), F2[a][b][k][l][o] = F2'[a][b][k][l][o])
    (S1 : Vec ℂ nO) (S2 : Mat ℂ m nO) (S3 : Ten3 ℂ m m nO) :
    frequencyShifts1 ω F2 idx S1 = frequencyShifts1 ω F2' idx S1 ∧
    frequencyShifts2 ω F2 idx S2 = frequencyShifts2 ω F2' idx S2 ∧
    frequencyShifts3 ω F2 idx S3 = frequencyShifts3 ω F2' idx S3 :=
  frequency_shifts_congr_intermediates ω F2 F2' idx (fun a b k l o => h idx[a] idx[b] k l o) S1 S2 S3

/-- **Reusing intermediates of an earlier control-matrix computation does not change the result.**
`calculate_second_order_filter_function` runs the SAME loop (`Model.secondOrderFF`) on the
second-order integrals and on `n_opers_transformed`, `basis_transformed[g]`, `control_matrix_step[g]`
that are either taken from `intermediates` or computed on the spot (`Model.secondOrderFFFromScratch`).
If the cached arrays hold, entry by entry, the values the routine would compute itself (the cache
contract, C07), then the second-order filter function — every entry, every frequency — and hence
the frequency shifts for every spectrum shape, selection and grid coincide. -/
theorem frequency_shifts_intermediates_reused (kind : MaskKind) (thr : ℝ)
    (eigvals : Mat ℝ nG d) (eigvecs props : Vector (Mat ℂ d d) nG) (omega : Vec ℝ nO)
    (basis : Vector (Mat ℂ d d) N) (nOpers : Vector (Mat ℂ d d) nA) (nCoeffs : Mat ℝ nA nG)
    (dt t : Vec ℝ nG)
    (nT : Vector (Ten3 ℂ nA d d) nG) (bT : Vector (Ten3 ℂ N d d) nG)
    (cm : Vector (Ten3 ℂ nA N nO) nG)
    (hnT : ∀ (g : Fin nG) (a : Fin nA) (i j : Fin d), nT[g][a][i][j]
      = (Mat.smul (CplxOps.ofReal nCoeffs[a][g]) (transformByUnitary eigvecs[g] nOpers[a]))[i][j])
    (hbT : ∀ (g : Fin nG) (k : Fin N) (i j : Fin d), bT[g][k][i][j]
      = (transformByUnitary (Mat.mul (Mat.adjoint props[g]) eigvecs[g]) basis[k])[i][j])
    (hcm : ∀ (g : Fin nG) (a : Fin nA) (k : Fin N) (o : Fin nO), cm[g][a][k][o]
      = (controlMatrixFromScratch kind thr #v[eigvals[g]] #v[eigvecs[g]] #v[props[g]] omega basis
          nOpers (Vector.ofFn fun a => #v[nCoeffs[a][g]]) #v[dt[g]] #v[t[g]])[a][k][o])
    (idx : Vec (Fin nA) m) (S1 : Vec ℂ nO) (S2 : Mat ℂ m nO) (S3 : Ten3 ℂ m m nO) :
    (∀ (a b : Fin nA) (k l : Fin N) (o : Fin nO),
      (secondOrderFF (Vector.ofFn fun g => secondOrderIntegral omega eigvals[g] dt[g])
          nT bT cm)[a][b][k][l][o]
        = (secondOrderFFFromScratch kind thr eigvals eigvecs props omega basis nOpers nCoeffs dt
            t)[a][b][k][l][o]) ∧
    frequencyShifts1 omega
        (secondOrderFF (Vector.ofFn fun g => secondOrderIntegral omega eigvals[g] dt[g]) nT bT cm)
        idx S1
      = frequencyShifts1 omega (secondOrderFFFromScratch kind thr eigvals eigvecs props omega basis
          nOpers nCoeffs dt t) idx S1 ∧
    frequencyShifts2 omega
        (secondOrderFF (Vector.ofFn fun g => secondOrderIntegral omega eigvals[g] dt[g]) nT bT cm)
        idx S2
      = frequencyShifts2 omega (secondOrderFFFromScratch kind thr eigvals eigvecs props omega basis
          nOpers nCoeffs dt t) idx S2 ∧
    frequencyShifts3 omega
        (secondOrderFF (Vector.ofFn fun g => secondOrderIntegral omega eigvals[g] dt[g]) nT bT cm)
        idx S3
      = frequencyShifts3 omega (secondOrderFFFromScratch kind thr eigvals eigvecs props omega basis
          nOpers nCoeffs dt t) idx S3 := by
  have hF : ∀ (a b : Fin nA) (k l : Fin N) (o : Fin nO),
      (secondOrderFF (Vector.ofFn fun g => secondOrderIntegral omega eigvals[g] dt[g])
          nT bT cm)[a][b][k][l][o]
        = (secondOrderFFFromScratch kind thr eigvals eigvecs props omega basis nOpers nCoeffs dt
            t)[a][b][k][l][o] := by
    intro a b k l o
    unfold secondOrderFFFromScratch
    refine secondOrderFF_congr _ _ _ _ _ _ _ ?_ ?_ ?_ a b k l o
    · intro g a i j
      rw [vec_ofFn_get, vec_ofFn_get]
      exact hnT g a i j
    · intro g k i j
      rw [vec_ofFn_get, vec_ofFn_get, vec_ofFn_get]
      exact hbT g k i j
    · intro g a k o
      rw [vec_ofFn_get]
      exact hcm g a k o
  exact ⟨hF, frequency_shifts_congr omega _ _ idx hF S1 S2 S3⟩

/-! ### 3. Change of operator basis -/

/-- **The loop of `calculate_second_order_filter_function` is covariant under a real mixing of the
basis** (with or without cached intermediates): if `basis_transformed` and `control_matrix_step` of
a second basis are the combinations `Σ_l O_kl (…)_l` of those of the first with a REAL matrix `O`
(rectangular allowed, no orthogonality), then `F2'[a,b,k,l,o] = Σ_{k'l'} O_kk' F2[a,b,k',l',o] O_ll'`
for all other inputs the same.  (Reality is needed: `control_matrix_step` enters conjugated.) -/
theorem secondOrderFF_loop_basis_change (ints : Vector (Vector (Ten4 ℂ d d d d) nO) nG)
    (nT : Vector (Ten3 ℂ nA d d) nG) (bT : Vector (Ten3 ℂ N d d) nG)
    (bT' : Vector (Ten3 ℂ N' d d) nG) (cm : Vector (Ten3 ℂ nA N nO) nG)
    (cm' : Vector (Ten3 ℂ nA N' nO) nG) (O : Matrix (Fin N') (Fin N) ℝ)
    (hbT : ∀ (g : Fin nG) (k : Fin N') (i j : Fin d),
      bT'[g][k][i][j] = ∑ l : Fin N, (O k l : ℂ) * bT[g][l][i][j])
    (hcm : ∀ (g : Fin nG) (a : Fin nA) (k : Fin N') (o : Fin nO),
      cm'[g][a][k][o] = ∑ l : Fin N, (O k l : ℂ) * cm[g][a][l][o])
    (a b : Fin nA) (k l : Fin N') (o : Fin nO) :
    (secondOrderFF ints nT bT' cm')[a][b][k][l][o]
      = ∑ k' : Fin N, ∑ l' : Fin N,
          (O k k' : ℂ) * (secondOrderFF ints nT bT cm)[a][b][k'][l'][o] * (O l l' : ℂ) :=
  secondOrderFF_mix ints nT bT bT' cm cm' O hbT hcm a b k l o

/-- **… and so is the whole routine without cached intermediates**: if `C'_k = Σ_l O_kl C_l` with
real coefficients (any two lengths, no orthogonality, bases need not be Hermitian or complete),
`F2'[a,b,k,l,o] = Σ_{k'l'} O_kk' F2[a,b,k',l',o] O_ll'`; every guard of `_first_order_integral`, all
pulse data, every frequency (resonant or not). -/
theorem secondOrderFF_basis_change_of_mix (kind : MaskKind) (thr : ℝ)
    (eigvals : Mat ℝ nG d) (eigvecs props : Vector (Mat ℂ d d) nG) (omega : Vec ℝ nO)
    (basis : Vector (Mat ℂ d d) N) (basis' : Vector (Mat ℂ d d) N')
    (nOpers : Vector (Mat ℂ d d) nA) (nCoeffs : Mat ℝ nA nG) (dt t : Vec ℝ nG)
    (O : Matrix (Fin N') (Fin N) ℝ)
    (hO : ∀ k : Fin N', basis'[k].toMatrix = ∑ l : Fin N, ((O k l : ℝ) : ℂ) • basis[l].toMatrix)
    (a b : Fin nA) (k l : Fin N') (o : Fin nO) :
    (secondOrderFFFromScratch kind thr eigvals eigvecs props omega basis' nOpers nCoeffs dt
        t)[a][b][k][l][o]
      = ∑ k' : Fin N, ∑ l' : Fin N, (O k k' : ℂ)
          * (secondOrderFFFromScratch kind thr eigvals eigvecs props omega basis nOpers nCoeffs dt
              t)[a][b][k'][l'][o] * (O l l' : ℂ) :=
  secondOrderFFFromScratch_mix kind thr eigvals eigvecs props omega basis basis' nOpers nCoeffs dt t
    O hO a b k l o

/-- **`secondOrderFF_basis_change`: the second-order filter functions in two complete orthonormal
Hermitian bases are related by the orthogonal change-of-basis matrix, `F2'(ω) = O F2(ω) Oᵀ`** for
every pair of noise operators and every frequency; `O = C12.basisTransition basis basis'`
(`O_kl = tr(C'_k C_l)`, real orthogonal).  Entrywise and as a matrix identity. -/
theorem secondOrderFF_basis_change (kind : MaskKind) (thr : ℝ)
    (eigvals : Mat ℝ nG d) (eigvecs props : Vector (Mat ℂ d d) nG) (omega : Vec ℝ nO)
    (basis : Vector (Mat ℂ d d) N) (basis' : Vector (Mat ℂ d d) N')
    (nOpers : Vector (Mat ℂ d d) nA) (nCoeffs : Mat ℝ nA nG) (dt t : Vec ℝ nG)
    (hC : Spec.IsComplete (Spec.basisOf basis)) (hH : Spec.IsOrthoHerm (Spec.basisOf basis))
    (hC' : Spec.IsComplete (Spec.basisOf basis')) (hH' : Spec.IsOrthoHerm (Spec.basisOf basis'))
    (a b : Fin nA) (o : Fin nO) :
    (∀ k l : Fin N',
      (secondOrderFFFromScratch kind thr eigvals eigvecs props omega basis' nOpers nCoeffs dt
          t)[a][b][k][l][o]
        = ∑ k' : Fin N, ∑ l' : Fin N, ((C12.basisTransition basis basis' k k' : ℝ) : ℂ)
            * (secondOrderFFFromScratch kind thr eigvals eigvecs props omega basis nOpers nCoeffs dt
                t)[a][b][k'][l'][o] * ((C12.basisTransition basis basis' l l' : ℝ) : ℂ)) ∧
    (Matrix.of fun k l : Fin N' =>
        (secondOrderFFFromScratch kind thr eigvals eigvecs props omega basis' nOpers nCoeffs dt
          t)[a][b][k][l][o])
      = Spec.toCplx (C12.basisTransition basis basis')
        * (Matrix.of fun k l : Fin N =>
            (secondOrderFFFromScratch kind thr eigvals eigvecs props omega basis nOpers nCoeffs dt
              t)[a][b][k][l][o])
        * (Spec.toCplx (C12.basisTransition basis basis'))ᵀ := by
  have h := fun k l => secondOrderFFFromScratch_mix kind thr eigvals eigvecs props omega basis basis'
    nOpers nCoeffs dt t (C12.basisTransition basis basis')
    (C12.basis_transition_orthogonal basis basis' hC hH hC' hH').2.1 a b k l o
  refine ⟨h, ?_⟩
  ext k l
  rw [Spec.sandwich_apply, Matrix.of_apply, h k l]
  rfl

/-- **`frequency_shifts_basis_change`: frequency shifts transform as `Δ' = O Δ Oᵀ`.**  If the
second-order filter functions in two bases are related by
`F2'[a,b,k,l,o] = Σ_{k'l'} O_kk' F2[a,b,k',l',o] O_ll'` with a REAL matrix `O` (any real `O`,
rectangular allowed; this is the conclusion of `secondOrderFF_basis_change`), then for every grid,
every selection `idx` and all three spectrum shapes `Δ'_{kl} = Σ_{k'l'} O_kk' Δ_{k'l'} O_ll'` for every
pair of noise sources.  (Reality of `O` is used: the integrand is `Re(F2 S)`, the real part being
taken before integrating.) -/
theorem frequency_shifts_basis_change (ω : Vec ℝ nO) (F2 : Ten5 ℂ nA nA N N nO)
    (F2' : Ten5 ℂ nA nA N' N' nO) (O : Matrix (Fin N') (Fin N) ℝ)
    (hF : ∀ (a b : Fin nA) (k l : Fin N') (o : Fin nO), F2'[a][b][k][l][o]
      = ∑ k' : Fin N, ∑ l' : Fin N, (O k k' : ℂ) * F2[a][b][k'][l'][o] * (O l l' : ℂ))
    (idx : Vec (Fin nA) m) (S1 : Vec ℂ nO) (S2 : Mat ℂ m nO) (S3 : Ten3 ℂ m m nO)
    (a b : Fin m) (k l : Fin N') :
    (frequencyShifts1 ω F2' idx S1)[a][k][l]
      = ∑ k' : Fin N, ∑ l' : Fin N, O k k' * (frequencyShifts1 ω F2 idx S1)[a][k'][l'] * O l l' ∧
    (frequencyShifts2 ω F2' idx S2)[a][k][l]
      = ∑ k' : Fin N, ∑ l' : Fin N, O k k' * (frequencyShifts2 ω F2 idx S2)[a][k'][l'] * O l l' ∧
    (frequencyShifts3 ω F2' idx S3)[a][b][k][l]
      = ∑ k' : Fin N, ∑ l' : Fin N,
          O k k' * (frequencyShifts3 ω F2 idx S3)[a][b][k'][l'] * O l l' := by
  refine ⟨?_, ?_, ?_⟩
  · rw [frequencyShifts1_getElem, shiftEntry_basis_change ω F2[idx[a]][idx[a]] F2'[idx[a]][idx[a]]
      O S1 k l (hF idx[a] idx[a] k l)]
    exact Finset.sum_congr rfl fun k' _ => Finset.sum_congr rfl fun l' _ => by
      rw [frequencyShifts1_getElem]
  · rw [frequencyShifts2_getElem, shiftEntry_basis_change ω F2[idx[a]][idx[a]] F2'[idx[a]][idx[a]]
      O S2[a] k l (hF idx[a] idx[a] k l)]
    exact Finset.sum_congr rfl fun k' _ => Finset.sum_congr rfl fun l' _ => by
      rw [frequencyShifts2_getElem]
  · rw [frequencyShifts3_getElem, shiftEntry_basis_change ω F2[idx[a]][idx[b]] F2'[idx[a]][idx[b]]
      O S3[a][b] k l (hF idx[a] idx[b] k l)]
    exact Finset.sum_congr rfl fun k' _ => Finset.sum_congr rfl fun l' _ => by
      rw [frequencyShifts3_getElem]

/-- the same in matrix form with the upcast to complex numbers (numpy's upcast of the real array
`frequency_shifts` in `oe.contract(…, frequency_shifts, traces)`): this is the hypothesis
`C12.ShiftsRelated` of the cumulant-function theorems of `C12Etm`. -/
theorem frequency_shifts_basis_change_matrix (ω : Vec ℝ nO) (F2 : Ten5 ℂ nA nA N N nO)
    (F2' : Ten5 ℂ nA nA N' N' nO) (O : Matrix (Fin N') (Fin N) ℝ)
    (hF : ∀ (a b : Fin nA) (k l : Fin N') (o : Fin nO), F2'[a][b][k][l][o]
      = ∑ k' : Fin N, ∑ l' : Fin N, (O k k' : ℂ) * F2[a][b][k'][l'][o] * (O l l' : ℂ))
    (idx : Vec (Fin nA) m) (S1 : Vec ℂ nO) (S2 : Mat ℂ m nO) (S3 : Ten3 ℂ m m nO) (a b : Fin m) :
    C12.ShiftsRelated (Spec.toCplx O)
      (some (C12.toComplexMat (frequencyShifts1 ω F2 idx S1)[a]))
      (some (C12.toComplexMat (frequencyShifts1 ω F2' idx S1)[a])) ∧
    C12.ShiftsRelated (Spec.toCplx O)
      (some (C12.toComplexMat (frequencyShifts2 ω F2 idx S2)[a]))
      (some (C12.toComplexMat (frequencyShifts2 ω F2' idx S2)[a])) ∧
    C12.ShiftsRelated (Spec.toCplx O)
      (some (C12.toComplexMat (frequencyShifts3 ω F2 idx S3)[a][b]))
      (some (C12.toComplexMat (frequencyShifts3 ω F2' idx S3)[a][b])) :=
  ⟨C12.toComplexMat_sandwich _ _ O fun k l =>
      (frequency_shifts_basis_change ω F2 F2' O hF idx S1 S2 S3 a b k l).1,
    C12.toComplexMat_sandwich _ _ O fun k l =>
      (frequency_shifts_basis_change ω F2 F2' O hF idx S1 S2 S3 a b k l).2.1,
    C12.toComplexMat_sandwich _ _ O fun k l =>
      (frequency_shifts_basis_change ω F2 F2' O hF idx S1 S2 S3 a b k l).2.2⟩

/-- **`frequency_shifts_basis_change` for two complete orthonormal Hermitian bases, from the pulse
data**: with `F2`, `F2'` computed by `calculate_second_order_filter_function` (no intermediates) in
the two bases and `O = C12.basisTransition basis basis'`, the frequency shifts satisfy
`Δ' = O Δ Oᵀ` for every pair of noise sources (entrywise, real arrays), all spectrum shapes. -/
theorem frequency_shifts_basis_change_from_scratch (kind : MaskKind) (thr : ℝ)
    (eigvals : Mat ℝ nG d) (eigvecs props : Vector (Mat ℂ d d) nG) (omega : Vec ℝ nO)
    (basis : Vector (Mat ℂ d d) N) (basis' : Vector (Mat ℂ d d) N')
    (nOpers : Vector (Mat ℂ d d) nA) (nCoeffs : Mat ℝ nA nG) (dt t : Vec ℝ nG)
    (hC : Spec.IsComplete (Spec.basisOf basis)) (hH : Spec.IsOrthoHerm (Spec.basisOf basis))
    (hC' : Spec.IsComplete (Spec.basisOf basis')) (hH' : Spec.IsOrthoHerm (Spec.basisOf basis'))
    (idx : Vec (Fin nA) m) (S1 : Vec ℂ nO) (S2 : Mat ℂ m nO) (S3 : Ten3 ℂ m m nO)
    (a b : Fin m) (k l : Fin N') :
    (frequencyShifts1 omega (secondOrderFFFromScratch kind thr eigvals eigvecs props omega basis'
        nOpers nCoeffs dt t) idx S1)[a][k][l]
      = ∑ k' : Fin N, ∑ l' : Fin N, C12.basisTransition basis basis' k k'
          * (frequencyShifts1 omega (secondOrderFFFromScratch kind thr eigvals eigvecs props omega
              basis nOpers nCoeffs dt t) idx S1)[a][k'][l'] * C12.basisTransition basis basis' l l' ∧
    (frequencyShifts2 omega (secondOrderFFFromScratch kind thr eigvals eigvecs props omega basis'
        nOpers nCoeffs dt t) idx S2)[a][k][l]
      = ∑ k' : Fin N, ∑ l' : Fin N, C12.basisTransition basis basis' k k'
          * (frequencyShifts2 omega (secondOrderFFFromScratch kind thr eigvals eigvecs props omega
              basis nOpers nCoeffs dt t) idx S2)[a][k'][l'] * C12.basisTransition basis basis' l l' ∧
    (frequencyShifts3 omega (secondOrderFFFromScratch kind thr eigvals eigvecs props omega basis'
        nOpers nCoeffs dt t) idx S3)[a][b][k][l]
      = ∑ k' : Fin N, ∑ l' : Fin N, C12.basisTransition basis basis' k k'
          * (frequencyShifts3 omega (secondOrderFFFromScratch kind thr eigvals eigvecs props omega
              basis nOpers nCoeffs dt t) idx S3)[a][b][k'][l']
          * C12.basisTransition basis basis' l l' :=
  frequency_shifts_basis_change omega _ _ (C12.basisTransition basis basis')
    (fun a b k l o => secondOrderFFFromScratch_mix kind thr eigvals eigvecs props omega basis basis'
      nOpers nCoeffs dt t (C12.basisTransition basis basis')
      (C12.basis_transition_orthogonal basis basis' hC hH hC' hH').2.1 a b k l o)
    idx S1 S2 S3 a b k l

/-- **End to end, second order: `etm_basis_change_second_order_from_scratch`.**  For the same pulse
data and two complete orthonormal Hermitian operator bases: control matrices
`calculate_control_matrix_from_scratch` and second-order filter functions
`calculate_second_order_filter_function` (no intermediates) in the two bases, decay amplitudes
`calculate_decay_amplitudes` and frequency shifts `calculate_frequency_shifts` (cross-spectral
matrix `S3`, all selected pairs `(a, b)`; one spectrum per source `S2`, sources `a`), cumulant
function with `second_order=True` on the general branch with the trace tensor of the respective
basis.  Then, with `O = C12.basisTransition basis basis'`: `K'_ab = O K_ab Oᵀ` for every pair, the
error transfer matrices `exp(Σ K')`, `exp(Σ K)` (sum over all pairs resp. sources, real matrices
after `.real`, as in `error_transfer_matrix`) are related by `O … Oᵀ`, and the process fidelities
`tr(exp Σ K)/d²` coincide.  Every guard, every grid, every selection, every frequency.  The `Δ`
hypothesis of `C12.cumulant_basis_change` / `C12.etm_basis_change` is discharged here. -/
theorem etm_basis_change_second_order_from_scratch (kind : MaskKind) (thr : ℝ)
    (eigvals : Mat ℝ nG d) (eigvecs props : Vector (Mat ℂ d d) nG)
    (omega : Vec ℝ nO) (basis : Vector (Mat ℂ d d) N) (basis' : Vector (Mat ℂ d d) N')
    (nOpers : Vector (Mat ℂ d d) nA) (nCoeffs : Mat ℝ nA nG) (dt t : Vec ℝ nG)
    (hC : Spec.IsComplete (Spec.basisOf basis)) (hH : Spec.IsOrthoHerm (Spec.basisOf basis))
    (hC' : Spec.IsComplete (Spec.basisOf basis')) (hH' : Spec.IsOrthoHerm (Spec.basisOf basis'))
    (idx : Vec (Fin nA) m) (S2 : Mat ℂ m nO) (S3 : Ten3 ℂ m m nO) :
    let O := C12.basisTransition basis basis'
    let B := controlMatrixFromScratch kind thr eigvals eigvecs props omega basis nOpers nCoeffs dt t
    let B' := controlMatrixFromScratch kind thr eigvals eigvecs props omega basis' nOpers nCoeffs dt t
    let F := secondOrderFFFromScratch kind thr eigvals eigvecs props omega basis nOpers nCoeffs dt t
    let F' := secondOrderFFFromScratch kind thr eigvals eigvecs props omega basis' nOpers nCoeffs dt t
    let K3 := fun p : Fin m × Fin m => C12.realPart (cumulantGeneral
      (C12.toComplexMat (decayAmplitudes3 omega B idx S3)[p.1][p.2])
      (some (C12.toComplexMat (frequencyShifts3 omega F idx S3)[p.1][p.2]))
      (fourElementTraces basis))
    let K3' := fun p : Fin m × Fin m => C12.realPart (cumulantGeneral
      (C12.toComplexMat (decayAmplitudes3 omega B' idx S3)[p.1][p.2])
      (some (C12.toComplexMat (frequencyShifts3 omega F' idx S3)[p.1][p.2]))
      (fourElementTraces basis'))
    let K2 := fun a : Fin m => C12.realPart (cumulantGeneral
      (C12.toComplexMat (decayAmplitudes2 omega B idx S2)[a])
      (some (C12.toComplexMat (frequencyShifts2 omega F idx S2)[a])) (fourElementTraces basis))
    let K2' := fun a : Fin m => C12.realPart (cumulantGeneral
      (C12.toComplexMat (decayAmplitudes2 omega B' idx S2)[a])
      (some (C12.toComplexMat (frequencyShifts2 omega F' idx S2)[a])) (fourElementTraces basis'))
    (∀ p, K3' p = O * K3 p * Oᵀ) ∧ (∀ a, K2' a = O * K2 a * Oᵀ) ∧
    exp (∑ p, K3' p) = O * exp (∑ p, K3 p) * Oᵀ ∧
    exp (∑ a, K2' a) = O * exp (∑ a, K2 a) * Oᵀ ∧
    trace (exp (∑ p, K3' p)) / (d : ℝ) ^ 2 = trace (exp (∑ p, K3 p)) / (d : ℝ) ^ 2 ∧
    trace (exp (∑ a, K2' a)) / (d : ℝ) ^ 2 = trace (exp (∑ a, K2 a)) / (d : ℝ) ^ 2 := by
  intro O B B' F F' K3 K3' K2 K2'
  have hB := C12.cm_basis_change_real kind thr eigvals eigvecs props omega basis basis' nOpers
    nCoeffs dt t hC hH hC' hH'
  have hF : ∀ (a b : Fin nA) (k l : Fin N') (o : Fin nO), F'[a][b][k][l][o]
      = ∑ k' : Fin N, ∑ l' : Fin N, (O k k' : ℂ) * F[a][b][k'][l'][o] * (O l l' : ℂ) :=
    fun a b k l o => secondOrderFFFromScratch_mix kind thr eigvals eigvecs props omega basis basis'
      nOpers nCoeffs dt t O (C12.basis_transition_orthogonal basis basis' hC hH hC' hH').2.1
      a b k l o
  have hΓ3 : ∀ p ∈ (Finset.univ : Finset (Fin m × Fin m)),
      (C12.toComplexMat (decayAmplitudes3 omega B' idx S3)[p.1][p.2]).toMatrix
        = Spec.toCplx O * (C12.toComplexMat (decayAmplitudes3 omega B idx S3)[p.1][p.2]).toMatrix
          * (Spec.toCplx O)ᵀ := fun p _ =>
    (C12.decay_amplitudes_basis_change_matrix omega B B' O hB idx (Vector.ofFn fun _ => 0) S2 S3
      p.1 p.2).2.2
  have hΓ2 : ∀ a ∈ (Finset.univ : Finset (Fin m)),
      (C12.toComplexMat (decayAmplitudes2 omega B' idx S2)[a]).toMatrix
        = Spec.toCplx O * (C12.toComplexMat (decayAmplitudes2 omega B idx S2)[a]).toMatrix
          * (Spec.toCplx O)ᵀ := fun a _ =>
    (C12.decay_amplitudes_basis_change_matrix omega B B' O hB idx (Vector.ofFn fun _ => 0) S2 S3
      a a).2.1
  have hΔ3 : ∀ p ∈ (Finset.univ : Finset (Fin m × Fin m)),
      C12.ShiftsRelated (Spec.toCplx O)
        (some (C12.toComplexMat (frequencyShifts3 omega F idx S3)[p.1][p.2]))
        (some (C12.toComplexMat (frequencyShifts3 omega F' idx S3)[p.1][p.2])) := fun p _ =>
    (frequency_shifts_basis_change_matrix omega F F' O hF idx (Vector.ofFn fun _ => 0) S2 S3
      p.1 p.2).2.2
  have hΔ2 : ∀ a ∈ (Finset.univ : Finset (Fin m)),
      C12.ShiftsRelated (Spec.toCplx O)
        (some (C12.toComplexMat (frequencyShifts2 omega F idx S2)[a]))
        (some (C12.toComplexMat (frequencyShifts2 omega F' idx S2)[a])) := fun a _ =>
    (frequency_shifts_basis_change_matrix omega F F' O hF idx (Vector.ofFn fun _ => 0) S2 S3
      a a).2.1
  refine ⟨fun p => ?_, fun a => ?_, ?_, ?_, ?_, ?_⟩
  · exact (C12.cumulant_basis_change basis basis' hC hH hC' hH' _ _ (hΓ3 p (Finset.mem_univ p)) _ _
      (hΔ3 p (Finset.mem_univ p))).2
  · exact (C12.cumulant_basis_change basis basis' hC hH hC' hH' _ _ (hΓ2 a (Finset.mem_univ a)) _ _
      (hΔ2 a (Finset.mem_univ a))).2
  · exact (C12.etm_sum_basis_change Finset.univ basis basis' hC hH hC' hH' _ _ hΓ3 _ _ hΔ3).2
  · exact (C12.etm_sum_basis_change Finset.univ basis basis' hC hH hC' hH' _ _ hΓ2 _ _ hΔ2).2
  · exact (C12.process_fidelity_basis_independent Finset.univ basis basis' hC hH hC' hH' _ _ hΓ3
      _ _ hΔ3).2
  · exact (C12.process_fidelity_basis_independent Finset.univ basis basis' hC hH hC' hH' _ _ hΓ2
      _ _ hΔ2).2

/-! ### 4. Hermitian part: `Δ + Δ† = Γ` -/

/-- **`frequency_shifts_hermitian_part`.**  Suppose the second-order filter function satisfies
`F2[a,b,k,l,o] + conj F2[b,a,l,k,o] = conj(B[a,k,o]) B[b,l,o]` (`F2 + F2† = F1`, the generalized
first-order filter function of the control matrix `B`; `secondOrderFFFromScratch_plus_adjoint`).
Then for a Hermitian cross-spectral matrix (`S_ba = conj S_ab`, as `parse_spectrum` checks), resp. a
real spectrum per noise operator, resp. one real spectrum,
`Δ_{ab,kl} + Δ_{ba,lk} = Γ_{ab,kl}` — the decay amplitudes `calculate_decay_amplitudes` computes from
`B` — for every grid and selection.  (`Δ` is a real array, so `conj Δ_{ba,lk} = Δ_{ba,lk}`.) -/
theorem frequency_shifts_hermitian_part (ω : Vec ℝ nO) (F2 : Ten5 ℂ nA nA N N nO)
    (B : Ten3 ℂ nA N nO)
    (hF : ∀ (a b : Fin nA) (k l : Fin N) (o : Fin nO),
      F2[a][b][k][l][o] + starRingEnd ℂ F2[b][a][l][k][o] = starRingEnd ℂ B[a][k][o] * B[b][l][o])
    (idx : Vec (Fin nA) m) (S1 : Vec ℂ nO) (S2 : Mat ℂ m nO) (S3 : Ten3 ℂ m m nO)
    (hS1 : ∀ o : Fin nO, starRingEnd ℂ S1[o] = S1[o])
    (hS2 : ∀ (a : Fin m) (o : Fin nO), starRingEnd ℂ S2[a][o] = S2[a][o])
    (hS3 : ∀ (a b : Fin m) (o : Fin nO), S3[b][a][o] = starRingEnd ℂ S3[a][b][o])
    (a b : Fin m) (k l : Fin N) :
    (frequencyShifts1 ω F2 idx S1)[a][k][l] + (frequencyShifts1 ω F2 idx S1)[a][l][k]
      = (decayAmplitudes1 ω B idx S1)[a][k][l] ∧
    (frequencyShifts2 ω F2 idx S2)[a][k][l] + (frequencyShifts2 ω F2 idx S2)[a][l][k]
      = (decayAmplitudes2 ω B idx S2)[a][k][l] ∧
    (frequencyShifts3 ω F2 idx S3)[a][b][k][l] + (frequencyShifts3 ω F2 idx S3)[b][a][l][k]
      = (decayAmplitudes3 ω B idx S3)[a][b][k][l] := by
  refine ⟨?_, ?_, ?_⟩
  · rw [frequencyShifts1_getElem, frequencyShifts1_getElem,
      (C08.decay_amplitudes_entries ω B idx S1 S2 S3 a b k l).1]
    exact shiftEntry_add_swap ω _ _ S1 S1 B[idx[a]] B[idx[a]] k l (hF idx[a] idx[a] k l)
      (fun o => (hS1 o).symm)
  · rw [frequencyShifts2_getElem, frequencyShifts2_getElem, decayAmplitudes2_getElem]
    exact shiftEntry_add_swap ω _ _ S2[a] S2[a] B[idx[a]] B[idx[a]] k l (hF idx[a] idx[a] k l)
      (fun o => (hS2 a o).symm)
  · rw [frequencyShifts3_getElem, frequencyShifts3_getElem, decayAmplitudes3_getElem]
    exact shiftEntry_add_swap ω _ _ S3[a][b] S3[b][a] B[idx[a]] B[idx[b]] k l
      (hF idx[a] idx[b] k l) (hS3 a b)

/-- **… for `calculate_second_order_filter_function` without cached intermediates**: Hermitian
noise operators and Hermitian basis elements (complete or not, orthonormal or not), any
eigen-decomposition data, propagators, times and sensitivities, the exact `≠ 0` guard in
`_first_order_integral` (exact arithmetic), every frequency grid — resonant points included.  With
`F2 = calculate_second_order_filter_function(…)` and `B = calculate_control_matrix_from_scratch(…)`
for the same inputs, `Δ_{ab,kl} + Δ_{ba,lk} = Γ_{ab,kl}` for a Hermitian cross-spectral matrix resp.
real spectra. -/
theorem frequency_shifts_hermitian_part_from_scratch (thr : ℝ)
    (eigvals : Mat ℝ nG d) (eigvecs props : Vector (Mat ℂ d d) nG) (omega : Vec ℝ nO)
    (basis : Vector (Mat ℂ d d) N) (nOpers : Vector (Mat ℂ d d) nA) (nCoeffs : Mat ℝ nA nG)
    (dt t : Vec ℝ nG)
    (hN : ∀ (a : Fin nA) (i j : Fin d), (starRingEnd ℂ) nOpers[a][i][j] = nOpers[a][j][i])
    (hCh : ∀ (k : Fin N) (i j : Fin d), (starRingEnd ℂ) basis[k][i][j] = basis[k][j][i])
    (idx : Vec (Fin nA) m) (S1 : Vec ℂ nO) (S2 : Mat ℂ m nO) (S3 : Ten3 ℂ m m nO)
    (hS1 : ∀ o : Fin nO, starRingEnd ℂ S1[o] = S1[o])
    (hS2 : ∀ (a : Fin m) (o : Fin nO), starRingEnd ℂ S2[a][o] = S2[a][o])
    (hS3 : ∀ (a b : Fin m) (o : Fin nO), S3[b][a][o] = starRingEnd ℂ S3[a][b][o])
    (a b : Fin m) (k l : Fin N) :
    (frequencyShifts1 omega (secondOrderFFFromScratch .neZero thr eigvals eigvecs props omega basis
        nOpers nCoeffs dt t) idx S1)[a][k][l]
      + (frequencyShifts1 omega (secondOrderFFFromScratch .neZero thr eigvals eigvecs props omega
          basis nOpers nCoeffs dt t) idx S1)[a][l][k]
      = (decayAmplitudes1 omega (controlMatrixFromScratch .neZero thr eigvals eigvecs props omega
          basis nOpers nCoeffs dt t) idx S1)[a][k][l] ∧
    (frequencyShifts2 omega (secondOrderFFFromScratch .neZero thr eigvals eigvecs props omega basis
        nOpers nCoeffs dt t) idx S2)[a][k][l]
      + (frequencyShifts2 omega (secondOrderFFFromScratch .neZero thr eigvals eigvecs props omega
          basis nOpers nCoeffs dt t) idx S2)[a][l][k]
      = (decayAmplitudes2 omega (controlMatrixFromScratch .neZero thr eigvals eigvecs props omega
          basis nOpers nCoeffs dt t) idx S2)[a][k][l] ∧
    (frequencyShifts3 omega (secondOrderFFFromScratch .neZero thr eigvals eigvecs props omega basis
        nOpers nCoeffs dt t) idx S3)[a][b][k][l]
      + (frequencyShifts3 omega (secondOrderFFFromScratch .neZero thr eigvals eigvecs props omega
          basis nOpers nCoeffs dt t) idx S3)[b][a][l][k]
      = (decayAmplitudes3 omega (controlMatrixFromScratch .neZero thr eigvals eigvecs props omega
          basis nOpers nCoeffs dt t) idx S3)[a][b][k][l] :=
  frequency_shifts_hermitian_part omega _ _
    (fun a b k l o => by
      rw [secondOrderFFFromScratch_plus_adjoint thr eigvals eigvecs props omega basis nOpers nCoeffs
        dt t hN hCh a b k l o, ffgen_entry])
    idx S1 S2 S3 hS1 hS2 hS3 a b k l

/-- **Symmetric part.**  Whenever `Δ_kl + Δ_lk = Γ_kl` (auto-correlation of one noise source with a
real spectrum: `frequency_shifts_hermitian_part`), `Δ = Γ/2 + A` with `A = (Δ - Δᵀ)/2`
antisymmetric, and `Γ` is symmetric: the symmetric part of the frequency shifts carries no
information beyond the decay amplitudes. -/
theorem frequency_shifts_symmetric_part (D G : Mat ℝ N N)
    (h : ∀ k l : Fin N, D[k][l] + D[l][k] = G[k][l]) (k l : Fin N) :
    D[k][l] = G[k][l] / 2 + (D[k][l] - D[l][k]) / 2 ∧ G[k][l] = G[l][k] := by
  constructor
  · rw [← h k l]; ring
  · rw [← h k l, ← h l k]; ring

/-- **`calculate_cumulant_function` uses the antisymmetric part of the frequency shifts only**
(general branch): two arrays `Δ`, `Δ'` with `Δ - Δᵀ = Δ' - Δ'ᵀ` give the same cumulant function, for
every family of basis matrices and every `Γ`; in particular `Δ` may be replaced by
`(Δ - Δᵀ)/2`, and a symmetric `Δ` has no effect at all. -/
theorem cumulant_uses_antisymmetric_part (C : Vector (Mat ℂ d d) N) (Γ Δ Δ' : Mat ℂ N N)
    (h : ∀ k l : Fin N, Δ[k][l] - Δ[l][k] = Δ'[k][l] - Δ'[l][k]) :
    cumulantGeneral Γ (some Δ) (fourElementTraces C)
      = cumulantGeneral Γ (some Δ') (fourElementTraces C) := by
  apply Mat.ext'
  ext i j
  rw [Mat.toMatrix_apply, Mat.toMatrix_apply, (C09.cumulant_general_model C Γ Δ i j).2,
    (C09.cumulant_general_model C Γ Δ' i j).2, Spec.Kfull, Spec.Kfull,
    Spec.K2_congr_antisymm _ (C09.fn Δ) (C09.fn Δ') h]

/-- the same for the single-qubit shortcut (`K[1:,1:] -= Δ[1:,1:]; K[1:,1:] += Δ[1:,1:].T`) -/
theorem cumulant_single_qubit_uses_antisymmetric_part (Γ Δ Δ' : Mat ℂ 4 4)
    (h : ∀ k l : Fin 4, Δ[k][l] - Δ[l][k] = Δ'[k][l] - Δ'[l][k]) :
    cumulantSingleQubit Γ (some Δ) = cumulantSingleQubit Γ (some Δ') := by
  apply Mat.ext'
  ext i j
  rw [Mat.toMatrix_apply, Mat.toMatrix_apply, cumulantSingleQubit_some_getElem,
    cumulantSingleQubit_some_getElem]
  congr 1
  split_ifs
  · rfl
  · linear_combination -(h i j)

/-- **Only the antisymmetric part of `Δ` is new information, and that is what the cumulant function
uses.**  For the real array `D` of frequency shifts of one noise source (real spectrum) and the
decay amplitudes `G` with `D_kl + D_lk = G_kl`: the cumulant function with `second_order=True`
computed from `(G, D)` equals the one computed from `G` and the antisymmetric part `(D - Dᵀ)/2`
alone, for every family of basis matrices. -/
theorem cumulant_second_order_from_antisymmetric_part (C : Vector (Mat ℂ d d) N) (G D : Mat ℝ N N) :
    cumulantGeneral (C12.toComplexMat G) (some (C12.toComplexMat D)) (fourElementTraces C)
      = cumulantGeneral (C12.toComplexMat G)
          (some (C12.toComplexMat (Mat.ofFn fun k l => (D[k][l] - D[l][k]) / 2)))
          (fourElementTraces C) := by
  apply cumulant_uses_antisymmetric_part
  intro k l
  simp only [C12.toComplexMat, Mat.ofFn_get]
  push_cast
  ring

/-! ### Non-vacuity -/

/-- the model is not trivially zero: one noise operator, a one-element basis, the grid `(0, 1)`,
`F2 ≡ 1`, `S ≡ 2` give `Δ = (1 - 0)·(2 + 2)/2 / 2π = 1/π`. -/
example : (frequencyShifts1 (#v[0, 1] : Vec ℝ 2)
      (#v[#v[#v[#v[#v[1, 1]]]]] : Ten5 ℂ 1 1 1 1 2) (#v[0] : Vec (Fin 1) 1)
      (#v[2, 2] : Vec ℂ 2))[(0 : Fin 1)][(0 : Fin 1)][(0 : Fin 1)] = 1 / Real.pi := by
  rw [(frequency_shifts_entries (#v[0, 1] : Vec ℝ 2) _ _ (#v[2, 2] : Vec ℂ 2)
    (Vector.ofFn fun _ => #v[2, 2]) (Vector.ofFn fun _ => Vector.ofFn fun _ => #v[2, 2]) 0 0 0 0).1]
  simp [Spec.trapz]
  field_simp

/-- the hypothesis `hF` of `frequency_shifts_basis_change` is satisfiable for every `F2` and every
real `O` (take `F2'` to be that array) -/
example (F2 : Ten5 ℂ nA nA N N nO) (O : Matrix (Fin N') (Fin N) ℝ) :
    ∃ F2' : Ten5 ℂ nA nA N' N' nO, ∀ (a b : Fin nA) (k l : Fin N') (o : Fin nO), F2'[a][b][k][l][o]
      = ∑ k' : Fin N, ∑ l' : Fin N, (O k k' : ℂ) * F2[a][b][k'][l'][o] * (O l l' : ℂ) :=
  ⟨Vector.ofFn fun a => Vector.ofFn fun b => Vector.ofFn fun k => Vector.ofFn fun l =>
    Vector.ofFn fun o => ∑ k' : Fin N, ∑ l' : Fin N, (O k k' : ℂ) * F2[a][b][k'][l'][o] * (O l l' : ℂ),
    fun a b k l o => by simp only [Fin.getElem_fin, Vector.getElem_ofFn]⟩

/-- the hypothesis `hF` of `frequency_shifts_hermitian_part` is satisfiable for every control matrix
`B` (by `F2 = F1/2`; the second-order routine satisfies it by
`secondOrderFFFromScratch_plus_adjoint`) -/
example (B : Ten3 ℂ nA N nO) :
    ∃ F2 : Ten5 ℂ nA nA N N nO, ∀ (a b : Fin nA) (k l : Fin N) (o : Fin nO),
      F2[a][b][k][l][o] + starRingEnd ℂ F2[b][a][l][k][o]
        = starRingEnd ℂ B[a][k][o] * B[b][l][o] := by
  refine ⟨Vector.ofFn fun a => Vector.ofFn fun b => Vector.ofFn fun k => Vector.ofFn fun l =>
    Vector.ofFn fun o => starRingEnd ℂ B[a][k][o] * B[b][l][o] / 2, fun a b k l o => ?_⟩
  rw [vec_ofFn_get, vec_ofFn_get, vec_ofFn_get, vec_ofFn_get, vec_ofFn_get,
    vec_ofFn_get, vec_ofFn_get, vec_ofFn_get, vec_ofFn_get, vec_ofFn_get,
    map_div₀, map_mul, Complex.conj_conj, Complex.conj_ofNat]
  ring

/-- … and the Hermiticity hypothesis on the cross-spectral matrix by every symmetrised array
`T_ab + conj T_ba` -/
example (T : Ten3 ℂ m m nO) :
    ∃ S3 : Ten3 ℂ m m nO, ∀ (a b : Fin m) (o : Fin nO), S3[b][a][o] = starRingEnd ℂ S3[a][b][o] := by
  refine ⟨Vector.ofFn fun a => Vector.ofFn fun b => Vector.ofFn fun o =>
      T[a][b][o] + starRingEnd ℂ T[b][a][o], fun a b o => ?_⟩
  rw [vec_ofFn_get, vec_ofFn_get, vec_ofFn_get, vec_ofFn_get, vec_ofFn_get, vec_ofFn_get,
    map_add, Complex.conj_conj]
  ring

/-- the hypotheses of `frequency_shifts_intermediates_reused` are satisfiable: the arrays the
routine computes itself -/
example (kind : MaskKind) (thr : ℝ) (eigvals : Mat ℝ nG d) (eigvecs props : Vector (Mat ℂ d d) nG)
    (omega : Vec ℝ nO) (basis : Vector (Mat ℂ d d) N) (nOpers : Vector (Mat ℂ d d) nA)
    (nCoeffs : Mat ℝ nA nG) (dt t : Vec ℝ nG) :
    ∃ (nT : Vector (Ten3 ℂ nA d d) nG) (bT : Vector (Ten3 ℂ N d d) nG)
      (cm : Vector (Ten3 ℂ nA N nO) nG),
      (∀ (g : Fin nG) (a : Fin nA) (i j : Fin d), nT[g][a][i][j]
        = (Mat.smul (CplxOps.ofReal nCoeffs[a][g]) (transformByUnitary eigvecs[g] nOpers[a]))[i][j]) ∧
      (∀ (g : Fin nG) (k : Fin N) (i j : Fin d), bT[g][k][i][j]
        = (transformByUnitary (Mat.mul (Mat.adjoint props[g]) eigvecs[g]) basis[k])[i][j]) ∧
      (∀ (g : Fin nG) (a : Fin nA) (k : Fin N) (o : Fin nO), cm[g][a][k][o]
        = (controlMatrixFromScratch kind thr #v[eigvals[g]] #v[eigvecs[g]] #v[props[g]] omega basis
            nOpers (Vector.ofFn fun a => #v[nCoeffs[a][g]]) #v[dt[g]] #v[t[g]])[a][k][o]) :=
  ⟨Vector.ofFn fun g => Vector.ofFn fun a =>
      Mat.smul (CplxOps.ofReal nCoeffs[a][g]) (transformByUnitary eigvecs[g] nOpers[a]),
    Vector.ofFn fun g => Vector.ofFn fun k =>
      transformByUnitary (Mat.mul (Mat.adjoint props[g]) eigvecs[g]) basis[k],
    Vector.ofFn fun g => controlMatrixFromScratch kind thr #v[eigvals[g]] #v[eigvecs[g]]
      #v[props[g]] omega basis nOpers (Vector.ofFn fun a => #v[nCoeffs[a][g]]) #v[dt[g]] #v[t[g]],
    fun g a i j => by rw [vec_ofFn_get, vec_ofFn_get],
    fun g k i j => by rw [vec_ofFn_get, vec_ofFn_get],
    fun g a k o => by rw [vec_ofFn_get]⟩

/-- the hypothesis of `frequency_shifts_symmetric_part` is satisfiable by every `D` (with
`G = D + Dᵀ`), e.g. a non-symmetric one -/
example (D : Mat ℝ N N) : ∃ G : Mat ℝ N N, ∀ k l : Fin N, D[k][l] + D[l][k] = G[k][l] :=
  ⟨Mat.ofFn fun k l => D[k][l] + D[l][k], fun k l => by rw [Mat.ofFn_get]⟩

/-- two complete orthonormal Hermitian bases with a non-trivial transition matrix exist: see the
`example` at the end of `FFVerif.Props.C12Etm`; Hermitian noise operators / basis elements: the
`example` at the end of `FFVerif.Props.C10Asm`. -/
example : ∃ basis basis' : Vector (Mat ℂ 2 2) 4,
    Spec.IsComplete (Spec.basisOf basis) ∧ Spec.IsOrthoHerm (Spec.basisOf basis) ∧
    Spec.IsComplete (Spec.basisOf basis') ∧ Spec.IsOrthoHerm (Spec.basisOf basis') ∧
    C12.basisTransition basis basis' 0 1 = 1 := by
  refine ⟨Vector.ofFn fun i => Mat.ofFn (Spec.pauliBasis i),
    Vector.ofFn fun i => Mat.ofFn (Spec.pauliBasis (Equiv.swap 0 1 i)), ?_⟩
  have h : ∀ f : Fin 4 → Matrix (Fin 2) (Fin 2) ℂ,
      Spec.basisOf (Vector.ofFn fun i => Mat.ofFn (f i)) = f := by
    intro f
    funext i
    ext a b
    simp [Spec.basisOf, Mat.toMatrix, Mat.ofFn]
  have hT : C12.basisTransition (Vector.ofFn fun i => Mat.ofFn (Spec.pauliBasis i))
      (Vector.ofFn fun i => Mat.ofFn (Spec.pauliBasis (Equiv.swap 0 1 i))) 0 1 = 1 := by
    unfold C12.basisTransition
    rw [h, h fun i => Spec.pauliBasis (Equiv.swap 0 1 i),
      C12.basisTransition_reorder Spec.pauliBasis Spec.pauliBasis_orthoHerm (Equiv.swap 0 1) 0 1]
    simp
  rw [h, h fun i => Spec.pauliBasis (Equiv.swap 0 1 i)]
  exact ⟨Spec.pauliBasis_complete, Spec.pauliBasis_orthoHerm,
    Spec.pauliBasis_complete.comp_equiv (Equiv.swap 0 1),
    Spec.pauliBasis_orthoHerm.comp_equiv (Equiv.swap 0 1), hT⟩

end FFVerif.C10
