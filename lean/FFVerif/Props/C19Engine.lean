/-
C19 (engine) — the control-matrix model of the package (`Model.controlMatrixFromScratch`, the model
of `numeric.calculate_control_matrix_from_scratch`, property C01) evaluated on a pulse WITHOUT
control reproduces the sign-sequence specification `Spec.ddF` of dynamical-decoupling filter
functions (the object of the closed-form theorems `C19.*_closed_form`).

Chain proved here, all at ℝ/ℂ (exact arithmetic):
  model control matrix  →  `tr(B C_k) · Σ_g s_g e^{iω t_g} ∫₀^{dt_g} e^{iωu} du`   (`cm_no_control`)
                        →  `tr(B C_k)/(iω) · Σ_g s_g (e^{iω t_{g+1}} − e^{iω t_g})` (`cm_no_control_closed`)
  model fidelity filter function, `B = σ_z/2`, Pauli basis:
                           `ω² F(ω) = |Σ_g s_g (e^{iω t_{g+1}} − e^{iω t_g})|²/2`     (`ff_no_control_sigma_z`)
                        →  `= Spec.ddF n δ (ωτ)` for `s_g = (-1)^g`, `t_g = δ_g τ`      (`engine_eq_ddF`)
                        →  `= FID, SE, PDD, CPMG, UDD, CDD` of `analytic.py`           (`engine_*`).
Vocabulary (`NoControl`, `SignSequence`, `sensInt`, `sensY`, `sensL`) and helper lemmas live in
FFVerif/Lemmas/EngineAux.lean.

Indexing: segments are `g = 0 … nG-1`; `t[g]` is the START time of segment `g` (`t_0 = 0`), so the
`t_{g-1}, t_g` of the informal statement are `t_g, t_{g+1} = (Model.times dt)[g], [g+1]` here.

The "no segment in the masked branch" hypothesis is stated in the weaker form
`mask = true ∨ ω·dt_g = 0`: in the masked branch `_first_order_integral` writes `dt_g`, which is
still the exact integral when `ω = 0` or `dt_g = 0`.
-/
import FFVerif.Lemmas.EngineAux
import FFVerif.Props.C02
import FFVerif.Props.C19

namespace FFVerif.C19
open FFVerif FFVerif.Model FFVerif.EngineAux Complex Matrix

/-! ### 0. the inputs of the model for a pulse without control -/

/-- **The identity data satisfy the `eigh` contract for `H = 0`**: eigenvalues `0`, eigenvector
matrix `1` (every dimension). -/
theorem isEigh_zero (d : Nat) :
    C02.IsEigh (0 : Matrix (Fin d) (Fin d) ℂ) (fun _ => 0) 1 :=
  ⟨by simp, by simp, by simp⟩

/-- with all control amplitudes zero, the Hamiltonian formed by `PulseSequence.diagonalize` is `0`
on every segment -/
theorem hamiltonian_no_control {nC nG d : Nat} (cOpers : Ten3 ℂ nC d d) (cCoeffs : Mat ℝ nC nG)
    (h0 : ∀ (i : Fin nC) (g : Fin nG), cCoeffs[i][g] = 0) (g : Fin nG) :
    Mat.toMatrix (hamiltonian cOpers cCoeffs)[g] = 0 := by
  have h := C02.hamiltonian_entries cOpers cCoeffs g.1 g.2
  simp only [Fin.getElem_fin] at h0 ⊢
  rw [h]
  refine Finset.sum_eq_zero fun i _ => ?_
  have hi : cCoeffs[i][g.1] = 0 := h0 i g
  rw [hi]; simp

/-- **The cumulative propagators computed by the model of `numeric.diagonalize` from zero
eigenvalues and identity eigenvector matrices are all the identity** (every number of segments, all
durations). -/
theorem propagators_no_control {nG d : Nat} (eigvals : Mat ℝ nG d)
    (eigvecs : Vector (Mat ℂ d d) nG) (dt : Vec ℝ nG)
    (hev : ∀ (g : Fin nG) (m : Fin d), eigvals[g][m] = 0)
    (hV : ∀ g : Fin nG, eigvecs[g].toMatrix = 1) :
    ∀ (g : Nat) (hg : g ≤ nG),
      ((propagators eigvals eigvecs dt)[g]'(Nat.lt_succ_of_le hg)).toMatrix = 1 := by
  intro g
  induction g with
  | zero => intro _; exact C02.propagators_zero eigvals eigvecs dt
  | succ g ih =>
    intro hg
    have hg' : g < nG := hg
    rw [C02.propagators_succ eigvals eigvecs dt g hg', ih (Nat.le_of_lt hg'), Matrix.mul_one]
    have h1 : eigvecs[g].toMatrix = 1 := hV ⟨g, hg'⟩
    have h2 : ∀ j : Fin d, eigvals[g][j] = 0 := fun j => hev ⟨g, hg'⟩ j
    unfold C02.segProp
    simp [h1, h2]

/-- hence the `eigh` output for `H = 0` together with the propagators the model of
`numeric.diagonalize` computes from it is a `NoControl` input of the control-matrix model -/
theorem noControl_of_diagonalize {nG d : Nat} (eigvals : Mat ℝ nG d)
    (eigvecs props : Vector (Mat ℂ d d) nG) (dt : Vec ℝ nG)
    (hev : ∀ (g : Fin nG) (m : Fin d), eigvals[g][m] = 0)
    (hV : ∀ g : Fin nG, eigvecs[g].toMatrix = 1)
    (hQ : ∀ g : Fin nG, props[g] = (propagators eigvals eigvecs dt)[g.1]'(Nat.lt_succ_of_lt g.2)) :
    NoControl eigvals eigvecs props :=
  ⟨hev, hV, fun g => by
    rw [hQ g]; exact propagators_no_control eigvals eigvecs dt hev hV g.1 (Nat.le_of_lt g.2)⟩

/-- the guard of `_first_order_integral` as it is in the source now: `|x·dt| > 1e-7` -/
theorem mask_current (x dt : ℝ) :
    firstOrderMask Gen.firstOrderMaskKind Gen.firstOrderMaskThr x dt = true ↔ 1e-7 < |x * dt| := by
  have hk : Gen.firstOrderMaskKind = .absTimesDtGt := by decide
  have ht : (Gen.firstOrderMaskThr : ℝ) = 1e-7 := by
    unfold Gen.firstOrderMaskThr; norm_num
  rw [hk, ht]
  simp [firstOrderMask]

theorem maskThr_nonneg : (0 : ℝ) ≤ Gen.firstOrderMaskThr := by
  unfold Gen.firstOrderMaskThr; norm_num

/-! ### 1./2. the control matrix without control -/

section general
variable {nG d nO nA nK : Nat}
  (eigvals : Mat ℝ nG d) (eigvecs props : Vector (Mat ℂ d d) nG)
  (omega : Vec ℝ nO) (basis : Vector (Mat ℂ d d) nK) (nOpers : Vector (Mat ℂ d d) nA)
  (nCoeffs : Mat ℝ nA nG) (dt t : Vec ℝ nG) (a : Fin nA) (k : Fin nK) (o : Fin nO)

/-- **Control matrix without control, exact branch, any guard.**  For every guard shape and
threshold `thr ≥ 0`, every dimension, number of segments, noise operator `B_a` (Hermitian or not),
basis element `C_k` (no orthonormality or Hermiticity is needed), sensitivities `s_a^{(g)}`, durations
and start times, and every frequency at which no segment with `ω·dt_g ≠ 0` is in the masked branch:
entry `(a, k, ω)` of the model's control matrix is
`tr(B_a C_k) · Σ_g s_a^{(g)} e^{iω t_g} ∫₀^{dt_g} e^{iωu} du`. -/
theorem cm_no_control_of_mask (kind : MaskKind) (thr : ℝ) (hthr : 0 ≤ thr)
    (hN : NoControl eigvals eigvecs props)
    (hmask : ∀ g : Fin nG, firstOrderMask kind thr omega[o] dt[g] = true ∨ omega[o] * dt[g] = 0) :
    (controlMatrixFromScratch kind thr eigvals eigvecs props omega basis nOpers nCoeffs dt t)[a][k][o]
      = Matrix.trace (nOpers[a].toMatrix * basis[k].toMatrix) *
          ∑ g : Fin nG, (nCoeffs[a][g] : ℂ) * Complex.exp (Complex.I * ((omega[o] : ℂ) * (t[g] : ℂ))) *
            C01.segIntegral omega[o] dt[g] := by
  rw [cm_no_control_entry kind thr eigvals eigvecs props omega basis nOpers nCoeffs dt t a k o hN,
    sensIntComputed_eq kind thr hthr omega[o] nCoeffs[a] dt t hmask]
  rfl

/-- **Control matrix without control, as the code is now** (guard shape and threshold read from the
source by the translator: `|ω·dt_g| > 1e-7`, see `mask_current`): for every frequency at which no
segment with `ω·dt_g ≠ 0` is in the masked branch, entry `(a, k, ω)` is
`tr(B_a C_k) · Σ_g s_a^{(g)} e^{iω t_g} ∫₀^{dt_g} e^{iωu} du`. -/
theorem cm_no_control (hN : NoControl eigvals eigvecs props)
    (hmask : ∀ g : Fin nG,
      firstOrderMask Gen.firstOrderMaskKind Gen.firstOrderMaskThr omega[o] dt[g] = true
        ∨ omega[o] * dt[g] = 0) :
    (controlMatrixFromScratch Gen.firstOrderMaskKind Gen.firstOrderMaskThr eigvals eigvecs props
        omega basis nOpers nCoeffs dt t)[a][k][o]
      = Matrix.trace (nOpers[a].toMatrix * basis[k].toMatrix) *
          ∑ g : Fin nG, (nCoeffs[a][g] : ℂ) * Complex.exp (Complex.I * ((omega[o] : ℂ) * (t[g] : ℂ))) *
            C01.segIntegral omega[o] dt[g] :=
  cm_no_control_of_mask eigvals eigvecs props omega basis nOpers nCoeffs dt t a k o
    Gen.firstOrderMaskKind Gen.firstOrderMaskThr maskThr_nonneg hN hmask

/-- **Control matrix without control, every frequency** (masked branch allowed; guard and
threshold of the source; durations `dt_g ≥ 0`): the computed entry differs from
`tr(B_a C_k) · Σ_g s_a^{(g)} e^{iω t_g} ∫₀^{dt_g} e^{iωu} du` by at most
`|tr(B_a C_k)| · 1e-7 · Σ_g |s_a^{(g)}| dt_g`. -/
theorem cm_no_control_error (hN : NoControl eigvals eigvecs props)
    (hdt : ∀ g : Fin nG, 0 ≤ dt[g]) :
    ‖(controlMatrixFromScratch Gen.firstOrderMaskKind Gen.firstOrderMaskThr eigvals eigvecs props
        omega basis nOpers nCoeffs dt t)[a][k][o]
      - Matrix.trace (nOpers[a].toMatrix * basis[k].toMatrix) *
          ∑ g : Fin nG, (nCoeffs[a][g] : ℂ) * Complex.exp (Complex.I * ((omega[o] : ℂ) * (t[g] : ℂ))) *
            C01.segIntegral omega[o] dt[g]‖
      ≤ ‖Matrix.trace (nOpers[a].toMatrix * basis[k].toMatrix)‖ *
          (1e-7 * ∑ g : Fin nG, |nCoeffs[a][g]| * dt[g]) := by
  rw [cm_no_control_entry _ _ eigvals eigvecs props omega basis nOpers nCoeffs dt t a k o hN]
  have h := sensIntComputed_error omega[o] nCoeffs[a] dt t hdt
  unfold sensInt sensL at h
  rw [← mul_sub, norm_mul]
  exact mul_le_mul_of_nonneg_left h (norm_nonneg _)

/-- **Closed form.**  With `t` the cumulative sums of the durations (as `PulseSequence.t`,
`Model.times`) and `ω ≠ 0`, under the hypotheses of `cm_no_control`: entry `(a, k, ω)` is
`tr(B_a C_k)/(iω) · Σ_g s_a^{(g)} (e^{iω t_{g+1}} − e^{iω t_g})` (`sensY`). -/
theorem cm_no_control_closed (hN : NoControl eigvals eigvecs props)
    (ht : ∀ g : Fin nG, t[g] = (times dt)[g.1]'(Nat.lt_succ_of_lt g.2))
    (hω : omega[o] ≠ 0)
    (hmask : ∀ g : Fin nG,
      firstOrderMask Gen.firstOrderMaskKind Gen.firstOrderMaskThr omega[o] dt[g] = true
        ∨ omega[o] * dt[g] = 0) :
    (controlMatrixFromScratch Gen.firstOrderMaskKind Gen.firstOrderMaskThr eigvals eigvecs props
        omega basis nOpers nCoeffs dt t)[a][k][o]
      = Matrix.trace (nOpers[a].toMatrix * basis[k].toMatrix) / (Complex.I * (omega[o] : ℂ)) *
          sensY omega[o] nCoeffs[a] dt := by
  have hIω : Complex.I * (omega[o] : ℂ) ≠ 0 :=
    mul_ne_zero Complex.I_ne_zero (by exact_mod_cast hω)
  rw [cm_no_control eigvals eigvecs props omega basis nOpers nCoeffs dt t a k o hN hmask,
    ← sensInt_closed omega[o] nCoeffs[a] dt t ht, div_mul_eq_mul_div, ← mul_assoc,
    mul_comm _ (Complex.I * (omega[o] : ℂ)), mul_assoc, mul_div_cancel_left₀ _ hIω]
  rfl

end general

/-! ### 3. fidelity filter function for `B = σ_z/2` and the Pauli basis -/

section qubit
variable {nG nO nA : Nat}
  (eigvals : Mat ℝ nG (2 ^ 1)) (eigvecs props : Vector (Mat ℂ (2 ^ 1) (2 ^ 1)) nG)
  (omega : Vec ℝ nO) (nOpers : Vector (Mat ℂ (2 ^ 1) (2 ^ 1)) nA)
  (nCoeffs : Mat ℝ nA nG) (dt t : Vec ℝ nG) (a : Fin nA) (o : Fin nO)

/-- **`ω² F(ω) = |Σ_g s_g (e^{iω t_{g+1}} − e^{iω t_g})|²/2`** for the fidelity filter function the
model computes (`filterFunctionFid ∘ controlMatrixFromScratch`, guard and threshold of the source)
for one qubit without control, the noise operator `B_a = σ_z/2`, the normalised Pauli basis
`Basis.pauli(1) = (1, σ_x, σ_y, σ_z)/√2` as modelled by `Model.pauliBasis 1`, arbitrary
sensitivities and durations, `t` the cumulative sums of the durations, and every frequency at which
no segment with `ω·dt_g ≠ 0` is in the masked branch (`ω = 0` is allowed: both sides are `0`). -/
theorem ff_no_control_sigma_z (hN : NoControl eigvals eigvecs props)
    (hB : nOpers[a].toMatrix = (1 / 2 : ℂ) • Spec.sigma 3)
    (ht : ∀ g : Fin nG, t[g] = (times dt)[g.1]'(Nat.lt_succ_of_lt g.2))
    (hmask : ∀ g : Fin nG,
      firstOrderMask Gen.firstOrderMaskKind Gen.firstOrderMaskThr omega[o] dt[g] = true
        ∨ omega[o] * dt[g] = 0) :
    (omega[o] : ℂ) ^ 2 *
      (filterFunctionFid (controlMatrixFromScratch Gen.firstOrderMaskKind Gen.firstOrderMaskThr
        eigvals eigvecs props omega (pauliBasis (K := ℂ) 1) nOpers nCoeffs dt t))[a][a][o]
      = ((‖sensY omega[o] nCoeffs[a] dt‖ ^ 2 / 2 : ℝ) : ℂ) := by
  rw [ff_no_control_sigmaZ_computed _ _ eigvals eigvecs props omega nOpers nCoeffs dt t a o hN hB,
    sensIntComputed_eq _ _ maskThr_nonneg omega[o] nCoeffs[a] dt t hmask]
  have h := omegaSq_ff_sub omega[o] (sensInt omega[o] nCoeffs[a] dt t)
    (sensInt omega[o] nCoeffs[a] dt t) _ (sensInt_closed omega[o] nCoeffs[a] dt t ht)
  rw [sub_self, mul_zero, Complex.ofReal_zero] at h
  exact sub_eq_zero.mp h

/-- **The same for every frequency** (masked branch allowed, durations `dt_g ≥ 0`): with
`L = Σ_g |s_g| dt_g` and `ε = 1e-7·L`,
`|ω² F(ω) − |Σ_g s_g (e^{iω t_{g+1}} − e^{iω t_g})|²/2| ≤ ω² ε (2L + ε)/2`. -/
theorem ff_no_control_sigma_z_error (hN : NoControl eigvals eigvecs props)
    (hB : nOpers[a].toMatrix = (1 / 2 : ℂ) • Spec.sigma 3)
    (ht : ∀ g : Fin nG, t[g] = (times dt)[g.1]'(Nat.lt_succ_of_lt g.2))
    (hdt : ∀ g : Fin nG, 0 ≤ dt[g]) :
    ‖(omega[o] : ℂ) ^ 2 *
        (filterFunctionFid (controlMatrixFromScratch Gen.firstOrderMaskKind Gen.firstOrderMaskThr
          eigvals eigvecs props omega (pauliBasis (K := ℂ) 1) nOpers nCoeffs dt t))[a][a][o]
      - ((‖sensY omega[o] nCoeffs[a] dt‖ ^ 2 / 2 : ℝ) : ℂ)‖
      ≤ omega[o] ^ 2 / 2 * ((1e-7 * sensL nCoeffs[a] dt)
          * (2 * sensL nCoeffs[a] dt + 1e-7 * sensL nCoeffs[a] dt)) := by
  rw [ff_no_control_sigmaZ_computed _ _ eigvals eigvecs props omega nOpers nCoeffs dt t a o hN hB,
    omegaSq_ff_sub omega[o] _ (sensInt omega[o] nCoeffs[a] dt t) _
      (sensInt_closed omega[o] nCoeffs[a] dt t ht),
    Complex.norm_real, Real.norm_eq_abs, abs_mul, abs_of_nonneg (by positivity)]
  exact mul_le_mul_of_nonneg_left
    (normSq_sub_le _ _ _ _ (sensIntComputed_error omega[o] nCoeffs[a] dt t hdt)
      (norm_sensInt_le omega[o] nCoeffs[a] dt t hdt)) (by positivity)

/-! ### 4. sign sequences: the engine equals `Spec.ddF` and the shipped closed forms -/

/-- **General sign sequence.**  Segment `g` has duration `(δ_{g+1} − δ_g)τ` (`δ_0 = 0`) and
sensitivity `σ_g`; then `ω² F(ω) = |Σ_{j<nG} σ_j (e^{i ωτ δ_{j+1}} − e^{i ωτ δ_j})|²/2`.  Neither
`τ > 0` nor monotonicity of `δ` is needed for this identity. -/
theorem engine_sign_sequence (δ σ : ℕ → ℝ) (τ : ℝ) (hN : NoControl eigvals eigvecs props)
    (hB : nOpers[a].toMatrix = (1 / 2 : ℂ) • Spec.sigma 3)
    (hseq : SignSequence δ σ τ nCoeffs[a] dt t) (hδ0 : δ 0 = 0)
    (hmask : ∀ g : Fin nG,
      firstOrderMask Gen.firstOrderMaskKind Gen.firstOrderMaskThr omega[o] dt[g] = true
        ∨ omega[o] * dt[g] = 0) :
    (omega[o] : ℂ) ^ 2 *
      (filterFunctionFid (controlMatrixFromScratch Gen.firstOrderMaskKind Gen.firstOrderMaskThr
        eigvals eigvecs props omega (pauliBasis (K := ℂ) 1) nOpers nCoeffs dt t))[a][a][o]
      = ((‖∑ j ∈ Finset.range nG, (σ j : ℂ) *
            (Complex.exp (Complex.I * ((omega[o] * τ : ℝ) : ℂ) * (δ (j + 1) : ℂ))
              - Complex.exp (Complex.I * ((omega[o] * τ : ℝ) : ℂ) * (δ j : ℂ)))‖ ^ 2 / 2 : ℝ) : ℂ) := by
  rw [ff_no_control_sigma_z eigvals eigvecs props omega nOpers nCoeffs dt t a o hN hB hseq.time hmask,
    sensY_signSequence hseq hδ0]

/-- **The engine equals the specification.**  `n` ideal π pulses at the fractions `δ_1, …, δ_n` of
the total duration (`δ_0 = 0`; `δ_{n+1}` is the end of the last segment, `1` in `Spec`), i.e.
`n + 1` segments with `dt_g = (δ_{g+1} − δ_g)τ` and sensitivities `s_g = (-1)^g`: the fidelity filter
function computed by the model satisfies `ω² F(ω) = Spec.ddF n δ (ωτ)`, the object of the closed-form
theorems `C19.*_closed_form`. -/
theorem engine_eq_ddF (n : ℕ) (hnG : nG = n + 1) (δ : ℕ → ℝ) (τ : ℝ)
    (hN : NoControl eigvals eigvecs props)
    (hB : nOpers[a].toMatrix = (1 / 2 : ℂ) • Spec.sigma 3)
    (hseq : SignSequence δ (fun j => (-1) ^ j) τ nCoeffs[a] dt t) (hδ0 : δ 0 = 0)
    (hmask : ∀ g : Fin nG,
      firstOrderMask Gen.firstOrderMaskKind Gen.firstOrderMaskThr omega[o] dt[g] = true
        ∨ omega[o] * dt[g] = 0) :
    (omega[o] : ℂ) ^ 2 *
      (filterFunctionFid (controlMatrixFromScratch Gen.firstOrderMaskKind Gen.firstOrderMaskThr
        eigvals eigvecs props omega (pauliBasis (K := ℂ) 1) nOpers nCoeffs dt t))[a][a][o]
      = ((Spec.ddF n δ (omega[o] * τ) : ℝ) : ℂ) := by
  subst hnG
  rw [engine_sign_sequence eigvals eigvecs props omega nOpers nCoeffs dt t a o δ _ τ hN hB hseq hδ0
    hmask]
  unfold Spec.ddF Spec.ddY
  push_cast
  rfl

/-- **The engine equals the specification at every frequency** (masked branch allowed): for
durations `dt_g ≥ 0` and `δ_{n+1} = 1` (total duration `τ`),
`|ω² F(ω) − Spec.ddF n δ (ωτ)| ≤ ω² · (1e-7 τ)(2τ + 1e-7 τ)/2 ≈ 1e-7 (ωτ)²`. -/
theorem engine_eq_ddF_error (n : ℕ) (hnG : nG = n + 1) (δ : ℕ → ℝ) (τ : ℝ)
    (hN : NoControl eigvals eigvecs props)
    (hB : nOpers[a].toMatrix = (1 / 2 : ℂ) • Spec.sigma 3)
    (hseq : SignSequence δ (fun j => (-1) ^ j) τ nCoeffs[a] dt t) (hδ0 : δ 0 = 0)
    (hδ1 : δ (n + 1) = 1) (hdt : ∀ g : Fin nG, 0 ≤ dt[g]) :
    ‖(omega[o] : ℂ) ^ 2 *
        (filterFunctionFid (controlMatrixFromScratch Gen.firstOrderMaskKind Gen.firstOrderMaskThr
          eigvals eigvecs props omega (pauliBasis (K := ℂ) 1) nOpers nCoeffs dt t))[a][a][o]
      - ((Spec.ddF n δ (omega[o] * τ) : ℝ) : ℂ)‖
      ≤ omega[o] ^ 2 / 2 * ((1e-7 * τ) * (2 * τ + 1e-7 * τ)) := by
  subst hnG
  have hL : sensL nCoeffs[a] dt = τ := by
    rw [sensL_signSequence hseq hδ0 (fun j => by simp), hδ1, one_mul]
  have h := ff_no_control_sigma_z_error eigvals eigvecs props omega nOpers nCoeffs dt t a o hN hB
    hseq.time hdt
  rw [hL, sensY_signSequence hseq hδ0, ← ddF_eq_signSum] at h
  exact h

/-! ### the shipped closed forms -/

/-- **FID**: one segment of duration `τ`, no pulse: `ω² F(ω) = FID(ωτ) = 2 sin²(ωτ/2)` as shipped in
`analytic.py`. -/
theorem engine_fid (hnG : nG = 1) (τ : ℝ) (hN : NoControl eigvals eigvecs props)
    (hB : nOpers[a].toMatrix = (1 / 2 : ℂ) • Spec.sigma 3)
    (hseq : SignSequence (fun j => (j : ℝ)) (fun j => (-1) ^ j) τ nCoeffs[a] dt t)
    (hmask : ∀ g : Fin nG,
      firstOrderMask Gen.firstOrderMaskKind Gen.firstOrderMaskThr omega[o] dt[g] = true
        ∨ omega[o] * dt[g] = 0) :
    (omega[o] : ℂ) ^ 2 *
      (filterFunctionFid (controlMatrixFromScratch Gen.firstOrderMaskKind Gen.firstOrderMaskThr
        eigvals eigvecs props omega (pauliBasis (K := ℂ) 1) nOpers nCoeffs dt t))[a][a][o]
      = ((Model.Analytic.FID (R := ℝ) (omega[o] * τ) : ℝ) : ℂ) := by
  rw [engine_eq_ddF eigvals eigvecs props omega nOpers nCoeffs dt t a o 0 hnG _ τ hN hB hseq
    (by simp) hmask, fid_closed_form]

/-- **Spin echo**: two segments of duration `τ/2`, sensitivities `+1, −1`:
`ω² F(ω) = SE(ωτ) = 8 sin⁴(ωτ/4)` as shipped. -/
theorem engine_se (hnG : nG = 2) (τ : ℝ) (hN : NoControl eigvals eigvecs props)
    (hB : nOpers[a].toMatrix = (1 / 2 : ℂ) • Spec.sigma 3)
    (hseq : SignSequence (fun j => (j : ℝ) / 2) (fun j => (-1) ^ j) τ nCoeffs[a] dt t)
    (hmask : ∀ g : Fin nG,
      firstOrderMask Gen.firstOrderMaskKind Gen.firstOrderMaskThr omega[o] dt[g] = true
        ∨ omega[o] * dt[g] = 0) :
    (omega[o] : ℂ) ^ 2 *
      (filterFunctionFid (controlMatrixFromScratch Gen.firstOrderMaskKind Gen.firstOrderMaskThr
        eigvals eigvecs props omega (pauliBasis (K := ℂ) 1) nOpers nCoeffs dt t))[a][a][o]
      = ((Model.Analytic.SE (R := ℝ) (omega[o] * τ) : ℝ) : ℂ) := by
  rw [engine_eq_ddF eigvals eigvecs props omega nOpers nCoeffs dt t a o 1 hnG _ τ hN hB hseq
    (by simp) hmask, se_closed_form]

/-- **PDD**: `n` equidistant π pulses at `j τ/(n+1)`: `ω² F(ω) = PDD(ωτ, n)` as shipped, for every
order `n` and every `ω` with `cos(ωτ/(2n+2)) ≠ 0` (the pole of the shipped `tan`, hypothesis of
`pdd_closed_form`). -/
theorem engine_pdd (n : ℕ) (hnG : nG = n + 1) (τ : ℝ) (hN : NoControl eigvals eigvecs props)
    (hB : nOpers[a].toMatrix = (1 / 2 : ℂ) • Spec.sigma 3)
    (hseq : SignSequence (Spec.pddTimes n) (fun j => (-1) ^ j) τ nCoeffs[a] dt t)
    (hc : Real.cos (omega[o] * τ / (2 * n + 2)) ≠ 0)
    (hmask : ∀ g : Fin nG,
      firstOrderMask Gen.firstOrderMaskKind Gen.firstOrderMaskThr omega[o] dt[g] = true
        ∨ omega[o] * dt[g] = 0) :
    (omega[o] : ℂ) ^ 2 *
      (filterFunctionFid (controlMatrixFromScratch Gen.firstOrderMaskKind Gen.firstOrderMaskThr
        eigvals eigvecs props omega (pauliBasis (K := ℂ) 1) nOpers nCoeffs dt t))[a][a][o]
      = ((Model.Analytic.PDD (R := ℝ) (omega[o] * τ) n : ℝ) : ℂ) := by
  rw [engine_eq_ddF eigvals eigvecs props omega nOpers nCoeffs dt t a o n hnG _ τ hN hB hseq
    (by simp [Spec.pddTimes]) hmask, pdd_closed_form n _ hc]

/-- **CPMG**: `n ≥ 1` π pulses at `(j − 1/2) τ/n`: `ω² F(ω) = CPMG(ωτ, n)` as shipped, for every
order `n ≥ 1` and every `ω` with `cos(ωτ/(2n)) ≠ 0` (the zero of the shipped denominator, hypothesis
of `cpmg_closed_form`). -/
theorem engine_cpmg (n : ℕ) (hn : 1 ≤ n) (hnG : nG = n + 1) (τ : ℝ)
    (hN : NoControl eigvals eigvecs props)
    (hB : nOpers[a].toMatrix = (1 / 2 : ℂ) • Spec.sigma 3)
    (hseq : SignSequence (Spec.cpmgTimes n) (fun j => (-1) ^ j) τ nCoeffs[a] dt t)
    (hc : Real.cos (omega[o] * τ / (2 * n)) ≠ 0)
    (hmask : ∀ g : Fin nG,
      firstOrderMask Gen.firstOrderMaskKind Gen.firstOrderMaskThr omega[o] dt[g] = true
        ∨ omega[o] * dt[g] = 0) :
    (omega[o] : ℂ) ^ 2 *
      (filterFunctionFid (controlMatrixFromScratch Gen.firstOrderMaskKind Gen.firstOrderMaskThr
        eigvals eigvecs props omega (pauliBasis (K := ℂ) 1) nOpers nCoeffs dt t))[a][a][o]
      = ((Model.Analytic.CPMG (R := ℝ) (omega[o] * τ) n : ℝ) : ℂ) := by
  rw [engine_eq_ddF eigvals eigvecs props omega nOpers nCoeffs dt t a o n hnG _ τ hN hB hseq
    (by simp [Spec.cpmgTimes]) hmask, cpmg_closed_form n _ hn hc]

/-- **UDD**: `n` π pulses at `sin²(π j/(2n+2)) τ`: `ω² F(ω) = UDD(ωτ, n)` as shipped, for every
order `n` and every `ω` (outside the masked branch). -/
theorem engine_udd (n : ℕ) (hnG : nG = n + 1) (τ : ℝ) (hN : NoControl eigvals eigvecs props)
    (hB : nOpers[a].toMatrix = (1 / 2 : ℂ) • Spec.sigma 3)
    (hseq : SignSequence (Spec.uddTimes n) (fun j => (-1) ^ j) τ nCoeffs[a] dt t)
    (hmask : ∀ g : Fin nG,
      firstOrderMask Gen.firstOrderMaskKind Gen.firstOrderMaskThr omega[o] dt[g] = true
        ∨ omega[o] * dt[g] = 0) :
    (omega[o] : ℂ) ^ 2 *
      (filterFunctionFid (controlMatrixFromScratch Gen.firstOrderMaskKind Gen.firstOrderMaskThr
        eigvals eigvecs props omega (pauliBasis (K := ℂ) 1) nOpers nCoeffs dt t))[a][a][o]
      = ((Model.Analytic.UDD (R := ℝ) (K := ℂ) (omega[o] * τ) n : ℝ) : ℂ) := by
  rw [engine_eq_ddF eigvals eigvecs props omega nOpers nCoeffs dt t a o n hnG _ τ hN hB hseq
    (by simp [Spec.uddTimes]) hmask, udd_closed_form]

/-- **CDD**: level `g`, i.e. `2^g` segments of duration `τ/2^g` with the sensitivities
`cddSign g j` (see `C19.cddSign`): `ω² F(ω) = CDD(ωτ, g)` as shipped, for every level `g` and every
`ω` (outside the masked branch). -/
theorem engine_cdd (g : ℕ) (hnG : nG = 2 ^ g) (τ : ℝ) (hN : NoControl eigvals eigvecs props)
    (hB : nOpers[a].toMatrix = (1 / 2 : ℂ) • Spec.sigma 3)
    (hseq : SignSequence (fun j => (j : ℝ) / 2 ^ g) (fun j => (cddSign g j : ℝ)) τ nCoeffs[a] dt t)
    (hmask : ∀ h : Fin nG,
      firstOrderMask Gen.firstOrderMaskKind Gen.firstOrderMaskThr omega[o] dt[h] = true
        ∨ omega[o] * dt[h] = 0) :
    (omega[o] : ℂ) ^ 2 *
      (filterFunctionFid (controlMatrixFromScratch Gen.firstOrderMaskKind Gen.firstOrderMaskThr
        eigvals eigvecs props omega (pauliBasis (K := ℂ) 1) nOpers nCoeffs dt t))[a][a][o]
      = ((Model.Analytic.CDD (R := ℝ) (omega[o] * τ) g : ℝ) : ℂ) := by
  subst hnG
  rw [engine_sign_sequence eigvals eigvecs props omega nOpers nCoeffs dt t a o _ _ τ hN hB hseq
    (by simp) hmask, ← cdd_closed_form]
  unfold cddY
  push_cast
  rfl

end qubit

/-! ### 5. non-vacuity: a concrete spin echo (`τ = 1`, `ω = 3`) satisfies all hypotheses -/

theorem se_example_mask : ∀ g : Fin 2,
    firstOrderMask Gen.firstOrderMaskKind Gen.firstOrderMaskThr SE.omega[(0 : Fin 1)] SE.dt[g] = true
      ∨ SE.omega[(0 : Fin 1)] * SE.dt[g] = 0 := by
  intro g
  left
  rw [mask_current]
  fin_cases g <;> simp [SE.omega, SE.dt] <;> norm_num

/-- the data `EngineAux.SE.*` (two segments of length `1/2`, sensitivities `+1, −1`, `H = 0`,
noise `σ_z/2`, `ω = 3`) satisfy every hypothesis of `engine_se` / `engine_eq_ddF` (`n = 1`,
`δ_j = j/2`, `δ_0 = 0`, `δ_2 = 1`) / `engine_eq_ddF_error` / `ff_no_control_sigma_z(_error)` /
`cm_no_control(_closed, _error)` -/
example :
    NoControl SE.eigvals SE.ident SE.ident
    ∧ SE.noise[(0 : Fin 1)].toMatrix = (1 / 2 : ℂ) • Spec.sigma 3
    ∧ SignSequence (fun j => (j : ℝ) / 2) (fun j => (-1) ^ j) 1 SE.coeffs[(0 : Fin 1)] SE.dt SE.t
    ∧ (∀ g : Fin 2, SE.t[g] = (times SE.dt)[g.1]'(Nat.lt_succ_of_lt g.2))
    ∧ (∀ g : Fin 2, firstOrderMask Gen.firstOrderMaskKind Gen.firstOrderMaskThr
        SE.omega[(0 : Fin 1)] SE.dt[g] = true ∨ SE.omega[(0 : Fin 1)] * SE.dt[g] = 0)
    ∧ SE.omega[(0 : Fin 1)] = 3
    ∧ SE.omega[(0 : Fin 1)] ≠ 0
    ∧ (∀ g : Fin 2, 0 ≤ SE.dt[g]) := by
  refine ⟨SE.noControl, SE.noise_eq, SE.seq, SE.seq.time, se_example_mask, ?_, ?_, fun g => ?_⟩
  · simp [SE.omega]
  · simp [SE.omega]
  · fin_cases g <;> simp [SE.dt]

/-- `NoControl` data and sign sequences exist for every number of segments, every `δ`, `σ`, `τ`
(so the structural hypotheses of `engine_pdd`, `engine_cpmg`, `engine_udd`, `engine_cdd` are
satisfiable for every order) -/
example (nG : Nat) (δ σ : ℕ → ℝ) (τ : ℝ) :
    (∃ (eigvals : Mat ℝ nG (2 ^ 1)) (eigvecs props : Vector (Mat ℂ (2 ^ 1) (2 ^ 1)) nG),
      NoControl eigvals eigvecs props)
    ∧ ∃ s dt t : Vec ℝ nG, SignSequence δ σ τ s dt t :=
  ⟨⟨_, _, _, noControl_canonical nG (2 ^ 1)⟩, ⟨_, _, _, signSequence_canonical nG δ σ τ⟩⟩

/-- … and therefore the model's filter function of this concrete pulse, times `ω²`, is the
shipped `SE(ω·1)` -/
theorem se_example :
    (SE.omega[(0 : Fin 1)] : ℂ) ^ 2 *
      (filterFunctionFid (controlMatrixFromScratch Gen.firstOrderMaskKind Gen.firstOrderMaskThr
        SE.eigvals SE.ident SE.ident SE.omega (pauliBasis (K := ℂ) 1) SE.noise SE.coeffs SE.dt
        SE.t))[(0 : Fin 1)][(0 : Fin 1)][(0 : Fin 1)]
      = ((Model.Analytic.SE (R := ℝ) (SE.omega[(0 : Fin 1)] * 1) : ℝ) : ℂ) :=
  engine_se SE.eigvals SE.ident SE.ident SE.omega SE.noise SE.coeffs SE.dt SE.t 0 0 rfl 1
    SE.noControl SE.noise_eq SE.seq se_example_mask

/-- in numbers: `9 · F(3) = 8 sin⁴(3/4)` -/
example :
    (9 : ℂ) *
      (filterFunctionFid (controlMatrixFromScratch Gen.firstOrderMaskKind Gen.firstOrderMaskThr
        SE.eigvals SE.ident SE.ident SE.omega (pauliBasis (K := ℂ) 1) SE.noise SE.coeffs SE.dt
        SE.t))[(0 : Fin 1)][(0 : Fin 1)][(0 : Fin 1)]
      = ((8 * Real.sin (3 / 4) ^ 4 : ℝ) : ℂ) := by
  have h := se_example
  have h3 : SE.omega[(0 : Fin 1)] = 3 := by simp [SE.omega]
  rw [h3] at h
  simp only [Model.Analytic.SE, Model.Analytic.pow4, Model.Analytic.sq, ropsSin] at h
  have e : (9 : ℂ) = ((3 : ℝ) : ℂ) ^ 2 := by norm_num
  rw [e, h]
  congr 1
  norm_num
  ring

/-- the hypotheses of `propagators_no_control` / `noControl_of_diagonalize` / `isEigh_zero` are met
by the same data: the identity propagators ARE what the model of `numeric.diagonalize` computes -/
example (g : Fin 2) :
    SE.ident[g] = (propagators SE.eigvals SE.ident SE.dt)[g.1]'(Nat.lt_succ_of_lt g.2) := by
  apply Mat.ext'
  rw [propagators_no_control SE.eigvals SE.ident SE.dt SE.noControl.eigvals_zero
    SE.noControl.eigvecs_one g.1 (Nat.le_of_lt g.2)]
  exact SE.noControl.eigvecs_one g

end FFVerif.C19
