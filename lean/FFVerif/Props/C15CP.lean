/-
C15CP — complete positivity in Choi language: Kraus ⇔ Choi, verdicts of `liouville_is_CP`,
closure properties of the completely positive Liouville matrices, and the remaining code paths of
`liouville_representation` (closed-form Gell-Mann expansion, stacks, total propagators).

Vocabulary (`FFVerif/Spec/Choi.lean`): `Spec.choiMatrix C S` (index pairs `(a, c)`, `(b, e)`),
`Spec.IsCPLiou C S := (choiMatrix C S).PosSemidef`, `Spec.liouKraus C w A = Σ_m w_m L(A_m)`,
`Spec.krausVec A` (`|A⟫`).  Model: `Model.liouvilleOfKraus`, `Model.liouvilleRepr`,
`Model.liouvilleStack`, `Model.mdotRev`, `Model.concatTotalLiouville`
(`FFVerif/Model/SuperopKraus.lean`) and `Model.liouvilleToChoi` (`FFVerif/Model/Superop.lean`).
`numpy.linalg.eigh` is an oracle; its contract is `C02.IsEigh`.
Property theorems only (helper lemmas live in FFVerif/Lemmas/ChoiAux.lean).
-/
import FFVerif.Lemmas.ChoiAux
import FFVerif.Props.C02
import FFVerif.Props.C14
import Mathlib.Analysis.Normed.Algebra.MatrixExponential

namespace FFVerif.C15
open FFVerif Matrix FFVerif.Spec
open scoped ComplexOrder

/-! ### 1. the specification Choi matrix is the model's `liouville_to_choi` -/

section bridge
variable {N d : Nat}

/-- **Bridge**: the matrix computed by `liouville_to_choi` is `Spec.choiMatrix` of the same
Liouville matrix, with the index pairs flattened row-major (`reshape`). -/
theorem choiMatrix_model (S : Mat ℂ N N) (C : Vector (Mat ℂ d d) N) :
    (Model.liouvilleToChoi S C).toMatrix
      = (choiMatrix (basisOf C) S.toMatrix).submatrix (flatEquiv d d).symm (flatEquiv d d).symm :=
  Model.choiMatrix_model S C

/-- entrywise form of the bridge -/
theorem choiMatrix_entries_model (S : Mat ℂ N N) (C : Vector (Mat ℂ d d) N) (a c b e : Fin d) :
    choiMatrix (basisOf C) S.toMatrix (a, c) (b, e)
      = (Model.liouvilleToChoi S C)[Fin.flat a c][Fin.flat b e] := by
  rw [choi_entries]
  rfl

/-- **`IsCPLiou` is positive semidefiniteness of the matrix `liouville_is_CP` hands to `eigh`.** -/
theorem isCPLiou_iff_model (S : Mat ℂ N N) (C : Vector (Mat ℂ d d) N) :
    IsCPLiou (basisOf C) S.toMatrix ↔ (Model.liouvilleToChoi S C).toMatrix.PosSemidef := by
  rw [choiMatrix_model, posSemidef_submatrix_equiv]
  rfl

/-- the `eigh` contract can be met for every Hermitian matrix (spectral theorem): the verdict
theorems below are not vacuous -/
theorem exists_isEigh {n : Nat} (M : Matrix (Fin n) (Fin n) ℂ) (hM : M.IsHermitian) :
    ∃ D V, C02.IsEigh M D V := by
  refine ⟨hM.eigenvalues, (hM.eigenvectorUnitary : Matrix (Fin n) (Fin n) ℂ), ?_, ?_, ?_⟩
  · have h := hM.spectral_theorem
    rw [Unitary.conjStarAlgAut_apply] at h
    have h2 : M * (hM.eigenvectorUnitary : Matrix (Fin n) (Fin n) ℂ) = _ :=
      congrArg (· * (hM.eigenvectorUnitary : Matrix (Fin n) (Fin n) ℂ)) h
    rw [Matrix.mul_assoc, Unitary.coe_star_mul_self, Matrix.mul_one] at h2
    exact h2
  · rw [← Matrix.star_eq_conjTranspose]
    exact Unitary.coe_star_mul_self _
  · rw [← Matrix.star_eq_conjTranspose]
    exact Unitary.coe_mul_star_self _

/-- **Verdict for a CP map**: if the Choi matrix is positive semidefinite and `(D, V)` meets the
`eigh` contract for the matrix `liouville_to_choi` returns, `(D >= -atol).all()` is `True` for
every `atol ≥ 0`. -/
theorem cp_verdict_of_isCPLiou (S : Mat ℂ N N) (C : Vector (Mat ℂ d d) N)
    (hS : IsCPLiou (basisOf C) S.toMatrix)
    (D : Fin (d * d) → ℝ) (V : Matrix (Fin (d * d)) (Fin (d * d)) ℂ)
    (hE : C02.IsEigh (Model.liouvilleToChoi S C).toMatrix D V) (atol : ℝ) (hatol : 0 ≤ atol) :
    cpVerdict D atol :=
  cp_verdict_of_nonneg D atol hatol fun i =>
    eig_nonneg_of_posSemidef hE.eig hE.left ((isCPLiou_iff_model S C).mp hS) i

/-- the default tolerance of `liouville_is_CP` (`atol=None`):
`basis._atol * max(1, |D|.max())` is non-negative, so the verdict for a CP map is `True` with it
(`eps = basis._atol ≥ 0`; `Dmax` stands for `np.abs(D).max()`). -/
theorem cp_verdict_default_atol (S : Mat ℂ N N) (C : Vector (Mat ℂ d d) N)
    (hS : IsCPLiou (basisOf C) S.toMatrix)
    (D : Fin (d * d) → ℝ) (V : Matrix (Fin (d * d)) (Fin (d * d)) ℂ)
    (hE : C02.IsEigh (Model.liouvilleToChoi S C).toMatrix D V) (eps Dmax : ℝ) (heps : 0 ≤ eps) :
    cpVerdict D (eps * max 1 Dmax) :=
  cp_verdict_of_isCPLiou S C hS D V hE _
    (mul_nonneg heps (le_trans zero_le_one (le_max_left 1 Dmax)))

/-- **Verdict for a map that is not CP**: if some vector `x` has Rayleigh quotient
`⟨x|Choi|x⟩ / ⟨x|x⟩ < -atol`, then under the `eigh` contract `(D >= -atol).all()` is `False`. -/
theorem cp_verdict_false_of_quadForm (S : Mat ℂ N N) (C : Vector (Mat ℂ d d) N)
    (D : Fin (d * d) → ℝ) (V : Matrix (Fin (d * d)) (Fin (d * d)) ℂ)
    (hE : C02.IsEigh (Model.liouvilleToChoi S C).toMatrix D V)
    (x : Fin d × Fin d → ℂ) (atol : ℝ)
    (h : (star x ⬝ᵥ (choiMatrix (basisOf C) S.toMatrix *ᵥ x)).re
      < -atol * ∑ p, Complex.normSq (x p)) :
    ¬ cpVerdict D atol := by
  obtain ⟨i, hi⟩ := exists_eig_lt_of_quadForm hE.eig hE.right (x ∘ (flatEquiv d d).symm) atol (by
    rw [choiMatrix_model, quadForm_submatrix_equiv, star_dotProduct_self_re]
    simp only [Function.comp_apply]
    rw [Equiv.sum_comp (flatEquiv d d).symm fun p => Complex.normSq (x p)]
    exact h)
  exact cp_verdict_false_of_neg D atol i hi

end bridge

/-! ### 2. Kraus maps: Liouville representation and Choi matrix -/

section kraus
variable {N d n : Nat}

/-- **Entries of the Liouville matrix of a Kraus map**: `S_ij = Σ_m w_m tr(C_i A_m C_j A_m†)`
(every basis, all operators and weights). -/
theorem liouvilleOfKraus_entries (w : Vec ℝ n) (A : Vector (Mat ℂ d d) n)
    (C : Vector (Mat ℂ d d) N) (i j : Fin N) :
    (Model.liouvilleOfKraus w A C false)[i][j]
      = ∑ m : Fin n, (w[m] : ℂ)
          * trace (basisOf C i * A[m].toMatrix * basisOf C j * A[m].toMatrixᴴ) := by
  rw [Model.liouvilleOfKraus_getElem]
  simp only [liouville_entries]
  rfl

/-- the model's Kraus map is `Spec.liouKraus` -/
theorem liouvilleOfKraus_spec (w : Vec ℝ n) (A : Vector (Mat ℂ d d) n)
    (C : Vector (Mat ℂ d d) N) :
    (Model.liouvilleOfKraus w A C false).toMatrix
      = liouKraus (basisOf C) (fun m : Fin n => w[m]) (fun m => A[m].toMatrix) :=
  Model.liouvilleOfKraus_toMatrix w A C

/-- the `.real` cast loses nothing for a Hermitian basis (any operators `A_m`) -/
theorem liouvilleOfKraus_castReal (w : Vec ℝ n) (A : Vector (Mat ℂ d d) n)
    (C : Vector (Mat ℂ d d) N) (hC : IsOrthoHerm (basisOf C)) :
    Model.liouvilleOfKraus w A C true = Model.liouvilleOfKraus w A C false := by
  unfold Model.liouvilleOfKraus
  simp only [liouville_castReal _ C hC]

/-- **Choi matrix of a Kraus map** (specification level): `Σ_m w_m |A_m⟫⟨⟨A_m|` with
`|A⟫_{(a,c)} = A_{ca}`, for every complete family and every finite index type. -/
theorem choiMatrix_of_kraus {C : Fin N → Matrix (Fin d) (Fin d) ℂ} (hC : IsComplete C)
    {ι : Type} [Fintype ι] (w : ι → ℝ) (A : ι → Matrix (Fin d) (Fin d) ℂ) :
    choiMatrix C (liouKraus C w A)
      = ∑ m, (w m : ℂ) • vecMulVec (krausVec (A m)) (star (krausVec (A m))) :=
  choiMatrix_liouKraus hC w A

/-- **`choi_of_kraus`**: the matrix `liouville_to_choi` computes from the Liouville matrix of a
Kraus map is `Σ_m w_m |A_m⟫⟨⟨A_m|` in the index convention of `choi_entries`: entry
`[(a,c), (b,e)] = Σ_m w_m (A_m)_{ca} conj((A_m)_{eb})` (complete basis, every `d`, every number of
operators, arbitrary real weights). -/
theorem choi_of_kraus (w : Vec ℝ n) (A : Vector (Mat ℂ d d) n) (C : Vector (Mat ℂ d d) N)
    (hC : IsComplete (basisOf C)) (a c b e : Fin d) :
    (Model.liouvilleToChoi (Model.liouvilleOfKraus w A C false) C)[Fin.flat a c][Fin.flat b e]
      = ∑ m : Fin n, (w[m] : ℂ) * (A[m][c][a] * starRingEnd ℂ A[m][e][b]) := by
  rw [← choiMatrix_entries_model, liouvilleOfKraus_spec, choiMatrix_liouKraus hC]
  simp only [Matrix.sum_apply, Matrix.smul_apply, vecMulVec_apply, krausVec, Pi.star_apply,
    smul_eq_mul, Mat.toMatrix_apply, RCLike.star_def]

/-- the Choi matrix of a Kraus map with real weights is Hermitian (so the `eigh` contract can be
met for it, `exists_isEigh`) -/
theorem choi_of_kraus_isHermitian (w : Vec ℝ n) (A : Vector (Mat ℂ d d) n)
    (C : Vector (Mat ℂ d d) N) (hC : IsComplete (basisOf C)) :
    (Model.liouvilleToChoi (Model.liouvilleOfKraus w A C false) C).toMatrix.IsHermitian := by
  rw [choiMatrix_model, liouvilleOfKraus_spec, choiMatrix_liouKraus hC]
  apply IsHermitian.submatrix
  unfold Matrix.IsHermitian
  rw [conjTranspose_sum]
  refine Finset.sum_congr rfl fun m _ => ?_
  ext p q
  simp only [conjTranspose_apply, Matrix.smul_apply, vecMulVec_apply, Pi.star_apply, smul_eq_mul,
    star_mul', RCLike.star_def, Complex.conj_ofReal, Complex.conj_conj]
  ring

/-- **Non-negative weights ⇒ positive semidefinite Choi matrix** (specification level). -/
theorem choi_of_kraus_posSemidef {C : Fin N → Matrix (Fin d) (Fin d) ℂ} (hC : IsComplete C)
    {ι : Type} [Fintype ι] (w : ι → ℝ) (hw : ∀ m, 0 ≤ w m) (A : ι → Matrix (Fin d) (Fin d) ℂ) :
    IsCPLiou C (liouKraus C w A) :=
  isCPLiou_liouKraus hC w hw A

/-- … and for the matrix `liouville_to_choi` computes. -/
theorem choi_of_kraus_posSemidef_model (w : Vec ℝ n) (A : Vector (Mat ℂ d d) n)
    (C : Vector (Mat ℂ d d) N) (hC : IsComplete (basisOf C)) (hw : ∀ m : Fin n, 0 ≤ w[m]) :
    (Model.liouvilleToChoi (Model.liouvilleOfKraus w A C false) C).toMatrix.PosSemidef := by
  rw [← isCPLiou_iff_model, liouvilleOfKraus_spec]
  exact isCPLiou_liouKraus hC _ hw _

/-- **Verdict `True` for Kraus maps with non-negative weights**: under the `eigh` contract for the
Choi matrix, `(D >= -atol).all()` holds for every `atol ≥ 0`. -/
theorem cp_verdict_of_kraus (w : Vec ℝ n) (A : Vector (Mat ℂ d d) n) (C : Vector (Mat ℂ d d) N)
    (hC : IsComplete (basisOf C)) (hw : ∀ m : Fin n, 0 ≤ w[m])
    (D : Fin (d * d) → ℝ) (V : Matrix (Fin (d * d)) (Fin (d * d)) ℂ)
    (hE : C02.IsEigh
      (Model.liouvilleToChoi (Model.liouvilleOfKraus w A C false) C).toMatrix D V)
    (atol : ℝ) (hatol : 0 ≤ atol) : cpVerdict D atol := by
  refine cp_verdict_of_isCPLiou _ C ?_ D V hE atol hatol
  rw [liouvilleOfKraus_spec]
  exact isCPLiou_liouKraus hC _ hw _

/-- **Convex mixtures of unitary channels** `ρ ↦ Σ_m p_m U_m ρ U_m†`: the Liouville matrix is the
convex combination of the `liouville_representation(U_m)`, it is completely positive, and the
verdict of `liouville_is_CP` is `True` for every `atol ≥ 0`.  (Neither unitarity of the `U_m` nor
`Σ p_m = 1` is needed — only `p_m ≥ 0`; in particular the statement covers every single unitary
channel.) -/
theorem mixture_of_unitaries_cp (p : Vec ℝ n) (U : Vector (Mat ℂ d d) n)
    (C : Vector (Mat ℂ d d) N) (hC : IsComplete (basisOf C)) (hp : ∀ m : Fin n, 0 ≤ p[m]) :
    (∀ i j : Fin N, (Model.liouvilleOfKraus p U C false)[i][j]
        = ∑ m : Fin n, (p[m] : ℂ) * (Model.liouville U[m] C false)[i][j]) ∧
    IsCPLiou (basisOf C) (Model.liouvilleOfKraus p U C false).toMatrix ∧
    ∀ (D : Fin (d * d) → ℝ) (V : Matrix (Fin (d * d)) (Fin (d * d)) ℂ),
      C02.IsEigh (Model.liouvilleToChoi (Model.liouvilleOfKraus p U C false) C).toMatrix D V →
      ∀ atol : ℝ, 0 ≤ atol → cpVerdict D atol := by
  refine ⟨fun i j => Model.liouvilleOfKraus_getElem p U C false i j, ?_, fun D V hE atol hatol =>
    cp_verdict_of_kraus p U C hC hp D V hE atol hatol⟩
  rw [liouvilleOfKraus_spec]
  exact isCPLiou_liouKraus hC _ hp _

end kraus

/-! ### 3. a negative Kraus weight -/

section negative
variable {N d : Nat} {C : Fin N → Matrix (Fin d) (Fin d) ℂ}

/-- **Quadratic form on a vector that sees only one Kraus operator**: if `⟨x|A_k⟫ = 0` for all
`k ≠ m`, then `⟨x|Choi|x⟩ = w_m |⟨x|A_m⟫|²`. -/
theorem negative_kraus_weight_quadForm (hC : IsComplete C) {ι : Type} [Fintype ι] [DecidableEq ι]
    (w : ι → ℝ) (A : ι → Matrix (Fin d) (Fin d) ℂ) (m : ι) (x : Fin d × Fin d → ℂ)
    (hx : ∀ k, k ≠ m → star x ⬝ᵥ krausVec (A k) = 0) :
    star x ⬝ᵥ (choiMatrix C (liouKraus C w A) *ᵥ x)
      = ((w m * Complex.normSq (star x ⬝ᵥ krausVec (A m)) : ℝ) : ℂ) := by
  rw [quadForm_choi_liouKraus hC, Finset.sum_eq_single m]
  · rw [Complex.star_def, Complex.mul_conj]; push_cast; rfl
  · intro k _ hk; rw [hx k hk]; simp
  · intro h; exact absurd (Finset.mem_univ m) h

/-- **`negative_kraus_weight_not_cp`**: if `w_m < 0` and `A_m` is not in the span of the other
Kraus operators, the Choi matrix is not positive semidefinite. -/
theorem negative_kraus_weight_not_cp (hC : IsComplete C) {ι : Type} [Fintype ι] [DecidableEq ι]
    (w : ι → ℝ) (A : ι → Matrix (Fin d) (Fin d) ℂ) (m : ι) (hw : w m < 0)
    (hm : A m ∉ Submodule.span ℂ (A '' {k | k ≠ m})) :
    ¬ IsCPLiou C (liouKraus C w A) := by
  obtain ⟨x, hx0, hxm⟩ := exists_separating_vec A m hm
  intro hcp
  have h := hcp.dotProduct_mulVec_nonneg x
  rw [negative_kraus_weight_quadForm hC w A m x hx0, Complex.zero_le_real] at h
  have hpos : 0 < Complex.normSq (star x ⬝ᵥ krausVec (A m)) := Complex.normSq_pos.mpr hxm
  exact absurd h (not_le.mpr (mul_neg_of_neg_of_pos hw hpos))

/-- non-vacuity / concrete instance: `ρ ↦ (3/2) ρ - (1/2) Z ρ Z` on a qubit is not CP, for
every complete family (e.g. `Basis.pauli(1)`, `Basis.ggm(2)`) -/
example {N : Nat} (C : Fin N → Matrix (Fin 2) (Fin 2) ℂ) (hC : IsComplete C) :
    ¬ IsCPLiou C (liouKraus C ![3/2, -1/2] ![1, Matrix.diagonal ![1, -1]]) := by
  refine negative_kraus_weight_not_cp hC _ _ 1 (by norm_num) ?_
  have himg : (![1, Matrix.diagonal ![1, -1]] : Fin 2 → Matrix (Fin 2) (Fin 2) ℂ) '' {k | k ≠ 1}
      = {(1 : Matrix (Fin 2) (Fin 2) ℂ)} := by
    ext M
    constructor
    · rintro ⟨k, hk, rfl⟩
      fin_cases k
      · simp
      · exact absurd rfl hk
    · rintro rfl
      exact ⟨0, by simp, by simp⟩
  rw [himg, Submodule.mem_span_singleton]
  rintro ⟨c, hc⟩
  have h00 := congrFun (congrFun hc 0) 0
  have h11 := congrFun (congrFun hc 1) 1
  simp at h00 h11
  rw [h00] at h11
  norm_num at h11

end negative

section negativeModel
variable {N d n : Nat}

/-- **Verdict `False` for a negative Kraus weight, with an explicit tolerance bound**: let `x` be
orthogonal to all `|A_k⟫`, `k ≠ m` (`⟨x|A_k⟫ = Σ_{(a,c)} conj(x_{(a,c)}) (A_k)_{ca} = 0`).  Then the
quadratic form of the Choi matrix at `x` is `w_m |⟨x|A_m⟫|²`, and under the `eigh` contract the
verdict `(D >= -atol).all()` is `False` for every `atol` with
`atol · ‖x‖² < -w_m |⟨x|A_m⟫|²` (the right-hand side is positive when `w_m < 0` and
`⟨x|A_m⟫ ≠ 0`). -/
theorem negative_kraus_weight_verdict (w : Vec ℝ n) (A : Vector (Mat ℂ d d) n)
    (C : Vector (Mat ℂ d d) N) (hC : IsComplete (basisOf C)) (m : Fin n)
    (x : Fin d × Fin d → ℂ)
    (hx : ∀ k : Fin n, k ≠ m → star x ⬝ᵥ krausVec A[k].toMatrix = 0)
    (D : Fin (d * d) → ℝ) (V : Matrix (Fin (d * d)) (Fin (d * d)) ℂ)
    (hE : C02.IsEigh
      (Model.liouvilleToChoi (Model.liouvilleOfKraus w A C false) C).toMatrix D V)
    (atol : ℝ)
    (hatol : atol * ∑ p, Complex.normSq (x p)
      < -(w[m] * Complex.normSq (star x ⬝ᵥ krausVec A[m].toMatrix))) :
    ¬ cpVerdict D atol := by
  refine cp_verdict_false_of_quadForm _ C D V hE x atol ?_
  rw [liouvilleOfKraus_spec,
    negative_kraus_weight_quadForm hC (fun k : Fin n => w[k]) (fun k => A[k].toMatrix) m x hx,
    Complex.ofReal_re]
  linarith

/-- **… in terms of the span condition**: if `w_m < 0` and `A_m` is not in the span of the other
Kraus operators there is a positive threshold `δ` such that, under the `eigh` contract, the verdict
is `False` for every `atol < δ` (in particular for `atol = 0` and for every negative `atol`). -/
theorem negative_kraus_weight_verdict_span (w : Vec ℝ n) (A : Vector (Mat ℂ d d) n)
    (C : Vector (Mat ℂ d d) N) (hC : IsComplete (basisOf C)) (m : Fin n) (hw : w[m] < 0)
    (hm : A[m].toMatrix ∉ Submodule.span ℂ ((fun k : Fin n => A[k].toMatrix) '' {k | k ≠ m})) :
    ∃ δ : ℝ, 0 < δ ∧ ∀ (D : Fin (d * d) → ℝ) (V : Matrix (Fin (d * d)) (Fin (d * d)) ℂ),
      C02.IsEigh
        (Model.liouvilleToChoi (Model.liouvilleOfKraus w A C false) C).toMatrix D V →
      ∀ atol : ℝ, atol < δ → ¬ cpVerdict D atol := by
  obtain ⟨x, hx0, hxm⟩ := exists_separating_vec (fun k : Fin n => A[k].toMatrix) m hm
  have hq : 0 < Complex.normSq (star x ⬝ᵥ krausVec A[m].toMatrix) := Complex.normSq_pos.mpr hxm
  have hxne : 0 < ∑ p, Complex.normSq (x p) := by
    rw [← star_dotProduct_self_re]
    by_contra hcon
    have hz : x = 0 := by
      have h0 : (star x ⬝ᵥ x).re = 0 :=
        le_antisymm (not_lt.mp hcon) (by
          rw [star_dotProduct_self_re]; exact Finset.sum_nonneg fun _ _ => Complex.normSq_nonneg _)
      rw [star_dotProduct_self_re] at h0
      funext p
      have := (Finset.sum_eq_zero_iff_of_nonneg fun _ _ => Complex.normSq_nonneg _).mp h0 p
        (Finset.mem_univ p)
      exact Complex.normSq_eq_zero.mp this
    apply hxm
    rw [hz]; simp
  refine ⟨-(w[m] * Complex.normSq (star x ⬝ᵥ krausVec A[m].toMatrix)) / ∑ p, Complex.normSq (x p),
    div_pos (by nlinarith) hxne, fun D V hE atol hatol => ?_⟩
  refine negative_kraus_weight_verdict w A C hC m x hx0 D V hE atol ?_
  rwa [lt_div_iff₀ hxne] at hatol

/-- non-vacuity / concrete instance of the verdict theorem: for `ρ ↦ (3/2) ρ - (1/2) Z ρ Z` in
the basis `Basis.ggm(2)` every `eigh` result for the Choi matrix (one exists) gives the verdict
`False` at `atol = 0` (witness `x = |Z⟫`: `0 · ‖x‖² < (1/2)·|⟨Z|Z⟫|² = 2`). -/
example : ∃ (D : Fin (2 * 2) → ℝ) (V : Matrix (Fin (2 * 2)) (Fin (2 * 2)) ℂ),
    C02.IsEigh (Model.liouvilleToChoi
      (Model.liouvilleOfKraus (#v[3/2, -1/2] : Vec ℝ 2)
        (#v[#v[#v[1, 0], #v[0, 1]], #v[#v[1, 0], #v[0, -1]]] : Vector (Mat ℂ 2 2) 2)
        (Model.ggmBasis (K := ℂ) 2) false) (Model.ggmBasis (K := ℂ) 2)).toMatrix D V ∧
    ¬ cpVerdict D 0 := by
  obtain ⟨D, V, hE⟩ := exists_isEigh _ (choi_of_kraus_isHermitian (#v[3/2, -1/2] : Vec ℝ 2)
    (#v[#v[#v[1, 0], #v[0, 1]], #v[#v[1, 0], #v[0, -1]]] : Vector (Mat ℂ 2 2) 2)
    (Model.ggmBasis (K := ℂ) 2) (C14.ggmBasis_complete 2))
  refine ⟨D, V, hE, ?_⟩
  refine negative_kraus_weight_verdict _ _ _ (C14.ggmBasis_complete 2) 1
    (fun p => if p = (0, 0) then 1 else if p = (1, 1) then -1 else 0) ?_ D V hE 0 ?_
  · intro k hk
    fin_cases k
    · simp [dotProduct, Fintype.sum_prod_type, Fin.sum_univ_two, krausVec, Mat.toMatrix]
    · exact absurd rfl hk
  · simp [dotProduct, Fintype.sum_prod_type, Fin.sum_univ_two, krausVec, Mat.toMatrix]
    norm_num

end negativeModel

/-! ### 4. positive semidefinite Choi matrix ⇒ Kraus form -/

section choiToKraus
variable {N d : Nat} {C : Fin N → Matrix (Fin d) (Fin d) ℂ}

/-- **`kraus_of_choi_posSemidef`** (Choi's theorem, the direction used by the CP test): if the Choi
matrix of `S` is positive semidefinite, `S` is the Liouville matrix of a Kraus map with unit
weights, `S_ij = Σ_k tr(C_i A_k C_j A_k†)` (complete Hilbert–Schmidt orthonormal family). -/
theorem kraus_of_choi_posSemidef (hC : IsComplete C) (hH : IsOrthoHerm C)
    {S : Matrix (Fin N) (Fin N) ℂ} (hS : IsCPLiou C S) :
    ∃ (n : ℕ) (A : Fin n → Matrix (Fin d) (Fin d) ℂ), S = liouKraus C (fun _ => 1) A :=
  exists_kraus_of_isCPLiou hC hH.ortho hS

/-- **`cp_iff_kraus`**: a Liouville matrix has a positive semidefinite Choi matrix iff it is the
Liouville matrix of a Kraus map `ρ ↦ Σ_k A_k ρ A_k†`. -/
theorem cp_iff_kraus (hC : IsComplete C) (hH : IsOrthoHerm C) (S : Matrix (Fin N) (Fin N) ℂ) :
    IsCPLiou C S ↔
      ∃ (n : ℕ) (A : Fin n → Matrix (Fin d) (Fin d) ℂ), S = liouKraus C (fun _ => 1) A := by
  refine ⟨kraus_of_choi_posSemidef hC hH, ?_⟩
  rintro ⟨n, A, rfl⟩
  exact isCPLiou_liouKraus hC _ (fun _ => zero_le_one) A

/-- the Liouville matrix is determined by the Choi matrix (orthonormal family) -/
theorem choiMatrix_inj (hH : IsOrthoHerm C) {S T : Matrix (Fin N) (Fin N) ℂ}
    (h : choiMatrix C S = choiMatrix C T) : S = T :=
  choiMatrix_injective hH.ortho h

end choiToKraus

/-! ### 5. closure properties of the completely positive Liouville matrices -/

section closure
variable {N d : Nat} {C : Fin N → Matrix (Fin d) (Fin d) ℂ}

/-- the zero map is CP -/
theorem cp_zero : IsCPLiou C 0 := by
  unfold IsCPLiou
  rw [choiMatrix_zero]
  exact PosSemidef.zero

/-- `ρ ↦ A ρ A†` is CP for every operator `A` -/
theorem cp_liou (hC : IsComplete C) (A : Matrix (Fin d) (Fin d) ℂ) : IsCPLiou C (liou C A) := by
  unfold IsCPLiou
  rw [choiMatrix_liou hC]
  exact posSemidef_vecMulVec_self_star _

/-- **`cp_one`**: the identity Liouville matrix (the identity channel) is CP -/
theorem cp_one (hC : IsComplete C) (hH : IsOrthoHerm C) :
    IsCPLiou C (1 : Matrix (Fin N) (Fin N) ℂ) := by
  rw [← liou_one hH]
  exact cp_liou hC 1

/-- **`cp_add`**: sums of CP maps are CP (any family `C`) -/
theorem cp_add {S T : Matrix (Fin N) (Fin N) ℂ} (hS : IsCPLiou C S) (hT : IsCPLiou C T) :
    IsCPLiou C (S + T) := by
  unfold IsCPLiou
  rw [choiMatrix_add]
  exact hS.add hT

/-- finite sums of CP maps are CP -/
theorem cp_sum {ι : Type*} (s : Finset ι) (S : ι → Matrix (Fin N) (Fin N) ℂ)
    (h : ∀ m ∈ s, IsCPLiou C (S m)) : IsCPLiou C (∑ m ∈ s, S m) := by
  unfold IsCPLiou
  rw [choiMatrix_sum]
  exact posSemidef_sum s h

/-- **`cp_smul_nonneg`**: non-negative multiples of CP maps are CP -/
theorem cp_smul_nonneg {S : Matrix (Fin N) (Fin N) ℂ} (r : ℝ) (hr : 0 ≤ r) (hS : IsCPLiou C S) :
    IsCPLiou C ((r : ℂ) • S) := by
  unfold IsCPLiou
  rw [choiMatrix_smul]
  exact hS.smul (by exact_mod_cast hr)

/-- the same with a real scalar acting on the complex matrix -/
theorem cp_smul_nonneg' {S : Matrix (Fin N) (Fin N) ℂ} (r : ℝ) (hr : 0 ≤ r) (hS : IsCPLiou C S) :
    IsCPLiou C (r • S) := by
  have h : r • S = (r : ℂ) • S := by
    ext i j; simp [Matrix.smul_apply]
  rw [h]
  exact cp_smul_nonneg r hr hS

/-- **`cp_comp`**: the matrix product of the Liouville matrices of two CP maps (the composition of
the maps) is CP — via Kraus operators `A_m B_l`. -/
theorem cp_comp (hC : IsComplete C) (hH : IsOrthoHerm C) {S T : Matrix (Fin N) (Fin N) ℂ}
    (hS : IsCPLiou C S) (hT : IsCPLiou C T) : IsCPLiou C (S * T) := by
  obtain ⟨n, A, rfl⟩ := kraus_of_choi_posSemidef hC hH hS
  obtain ⟨k, B, rfl⟩ := kraus_of_choi_posSemidef hC hH hT
  have h : liouKraus C (fun _ : Fin n => 1) A * liouKraus C (fun _ : Fin k => 1) B
      = liouKraus C (fun _ : Fin n × Fin k => 1) (fun p => A p.1 * B p.2) := by
    unfold liouKraus
    simp only [Complex.ofReal_one, one_smul]
    rw [Finset.sum_mul_sum, Fintype.sum_prod_type]
    simp only [liou_mul hC]
  rw [h]
  exact isCPLiou_liouKraus hC _ (fun _ => zero_le_one) _

/-- powers of a CP map are CP -/
theorem cp_pow (hC : IsComplete C) (hH : IsOrthoHerm C) {S : Matrix (Fin N) (Fin N) ℂ}
    (hS : IsCPLiou C S) (k : ℕ) : IsCPLiou C (S ^ k) := by
  induction k with
  | zero => rw [pow_zero]; exact cp_one hC hH
  | succ k ih => rw [pow_succ]; exact cp_comp hC hH ih hS

/-- **`cp_closed`**: the set of CP Liouville matrices is closed (any family `C`) -/
theorem cp_closed : IsClosed {S : Matrix (Fin N) (Fin N) ℂ | IsCPLiou C S} :=
  isClosed_isCPLiou

/-- a limit of CP maps is CP (sequences, nets: any non-trivial filter) -/
theorem cp_of_tendsto {ι : Type*} {l : Filter ι} [l.NeBot] {F : ι → Matrix (Fin N) (Fin N) ℂ}
    {S : Matrix (Fin N) (Fin N) ℂ} (hF : Filter.Tendsto F l (nhds S))
    (h : ∀ᶠ i in l, IsCPLiou C (F i)) : IsCPLiou C S :=
  cp_closed.mem_of_tendsto hF h

/-- a convergent series of CP maps is CP -/
theorem cp_of_hasSum {ι : Type*} {F : ι → Matrix (Fin N) (Fin N) ℂ}
    {S : Matrix (Fin N) (Fin N) ℂ} (hF : HasSum F S) (h : ∀ i, IsCPLiou C (F i)) :
    IsCPLiou C S :=
  cp_of_tendsto hF (Filter.Eventually.of_forall fun s => cp_sum s F fun i _ => h i)

/-- **the exponential of a CP map is CP**: `exp(S) = Σ_k S^k / k!` is a convergent series of CP
maps (`NormedSpace.exp` on matrices, entrywise topology) -/
theorem cp_exp_of_cp (hC : IsComplete C) (hH : IsOrthoHerm C) {S : Matrix (Fin N) (Fin N) ℂ}
    (hS : IsCPLiou C S) : IsCPLiou C (NormedSpace.exp S) := by
  have h : HasSum (fun k : ℕ => ((k.factorial : ℂ)⁻¹) • S ^ k) (NormedSpace.exp S) := by
    open scoped Matrix.Norms.Operator in
    exact NormedSpace.exp_series_hasSum_exp' (𝕂 := ℂ) S
  refine cp_of_hasSum h fun k => ?_
  have hk : ((k.factorial : ℂ)⁻¹) = (((k.factorial : ℝ)⁻¹ : ℝ) : ℂ) := by push_cast; rfl
  rw [hk]
  exact cp_smul_nonneg _ (by positivity) (cp_pow hC hH hS k)

open Filter Topology in
/-- **generators of Lindblad form exponentiate to CP maps**: if `Φ` is CP and `K` is any operator,
`exp(G_K + Φ)` is CP, `G_K` the Liouville matrix of `ρ ↦ Kρ + ρK†`. -/
theorem cp_exp_of_gen (hC : IsComplete C) (hH : IsOrthoHerm C) (K : Matrix (Fin d) (Fin d) ℂ)
    {Φ : Matrix (Fin N) (Fin N) ℂ} (hΦ : IsCPLiou C Φ) :
    IsCPLiou C (NormedSpace.exp (liouGen C K + Φ)) := by
  set T : ℕ → Matrix (Fin N) (Fin N) ℂ := fun n =>
    liou C (1 + (((n : ℝ)⁻¹ : ℝ) : ℂ) • K) + (((n : ℝ)⁻¹ : ℝ) : ℂ) • Φ with hTdef
  have hTcp : ∀ n, IsCPLiou C (T n) := fun n =>
    cp_add (cp_liou hC _) (cp_smul_nonneg _ (by positivity) hΦ)
  have hlim : Tendsto (fun n : ℕ => (n : ℝ) • (T n - 1)) atTop (𝓝 (liouGen C K + Φ)) := by
    have h1 : Tendsto (fun n : ℕ => liouGen C K + Φ + (((n : ℝ)⁻¹ : ℝ) : ℂ) • liou C K) atTop
        (𝓝 (liouGen C K + Φ + (0 : ℂ) • liou C K)) := by
      refine tendsto_const_nhds.add (Tendsto.smul_const ?_ _)
      have h0 : Tendsto (fun n : ℕ => (((n : ℝ)⁻¹ : ℝ) : ℂ)) atTop (𝓝 ((0 : ℝ) : ℂ)) :=
        (Complex.continuous_ofReal.tendsto 0).comp (tendsto_inv_atTop_nhds_zero_nat (𝕜 := ℝ))
      rw [Complex.ofReal_zero] at h0
      exact h0
    rw [zero_smul, add_zero] at h1
    refine h1.congr' ?_
    filter_upwards [eventually_gt_atTop 0] with n hn
    have hn0 : (n : ℝ) ≠ 0 := by exact_mod_cast hn.ne'
    have hnc : ((n : ℝ) : ℂ) * (((n : ℝ)⁻¹ : ℝ) : ℂ) = 1 := by
      rw [← Complex.ofReal_mul, mul_inv_cancel₀ hn0, Complex.ofReal_one]
    rw [hTdef]
    simp only
    rw [liou_one_add_smul hH, ← Complex.coe_smul]
    ext i j
    simp only [Matrix.add_apply, Matrix.sub_apply, Matrix.smul_apply, smul_eq_mul]
    linear_combination (-(liouGen C K i j) - Φ i j
      - (((n : ℝ)⁻¹ : ℝ) : ℂ) * liou C K i j) * hnc
  exact cp_of_tendsto (matrix_tendsto_pow_exp_of_slope _ T hlim)
    (Eventually.of_forall fun n => cp_pow hC hH (hTcp n) n)


/-- **The semigroup generated by a Lindblad generator is completely positive**: for
`𝓛(ρ) = -i[H,ρ] + Σ_k γ_k (A_k ρ A_k† - ½{A_k†A_k, ρ})` with `H` Hermitian and rates `γ_k ≥ 0`,
`exp(t 𝓛)` (exponential of the Liouville matrix `tr(C_i 𝓛(C_j))`) is CP for every `t ≥ 0`. -/
theorem cp_exp_lindblad (hC : IsComplete C) (hH : IsOrthoHerm C) {ι : Type} [Fintype ι]
    (H : Matrix (Fin d) (Fin d) ℂ) (hHerm : Hᴴ = H) (γ : ι → ℝ) (hγ : ∀ k, 0 ≤ γ k)
    (A : ι → Matrix (Fin d) (Fin d) ℂ) (t : ℝ) (ht : 0 ≤ t) :
    IsCPLiou C (NormedSpace.exp ((t : ℂ) • lindbladLiou C H γ A)) := by
  rw [lindbladLiou_eq C H hHerm, smul_add, ← liouGen_smul_real, liouKraus_smul_real]
  exact cp_exp_of_gen hC hH _ (isCPLiou_liouKraus hC _ (fun k => mul_nonneg ht (hγ k)) A)

/-- the CP Liouville matrices form a convex cone: convex combinations are CP -/
theorem cp_convex {S T : Matrix (Fin N) (Fin N) ℂ} (hS : IsCPLiou C S) (hT : IsCPLiou C T)
    (t : ℝ) (h0 : 0 ≤ t) (h1 : t ≤ 1) : IsCPLiou C ((t : ℂ) • S + ((1 - t : ℝ) : ℂ) • T) :=
  cp_add (cp_smul_nonneg t h0 hS) (cp_smul_nonneg (1 - t) (by linarith) hT)

end closure

/-! non-vacuity: complete Hermitian orthonormal families exist in every dimension (Gell-Mann) and
for every number of qubits (Pauli); the closure properties apply to them -/

example (d : Nat) : IsCPLiou (basisOf (Model.ggmBasis (K := ℂ) d)) 1 :=
  cp_one (C14.ggmBasis_complete d) (C14.ggmBasis_orthoHerm d)

/-- every Lindblad generator on `n` qubits (Pauli basis) generates a CP semigroup -/
example (n : Nat) (H A₁ A₂ : Matrix (Fin (2 ^ n)) (Fin (2 ^ n)) ℂ) (hH : Hᴴ = H) (t : ℝ)
    (ht : 0 ≤ t) :
    IsCPLiou (basisOf (Model.pauliBasis (K := ℂ) n))
      (NormedSpace.exp ((t : ℂ) • lindbladLiou (basisOf (Model.pauliBasis (K := ℂ) n)) H
        ![0.3, 2] ![A₁, A₂])) :=
  cp_exp_lindblad (C14.pauliBasis_complete n) (C14.pauliBasis_orthoHerm n) H hH _
    (fun k => by fin_cases k <;> norm_num) _ t ht

example (n : Nat) (U V : Matrix (Fin (2 ^ n)) (Fin (2 ^ n)) ℂ) :
    IsCPLiou (basisOf (Model.pauliBasis (K := ℂ) n))
      (liou (basisOf (Model.pauliBasis (K := ℂ) n)) U
        * liou (basisOf (Model.pauliBasis (K := ℂ) n)) V) :=
  cp_comp (C14.pauliBasis_complete n) (C14.pauliBasis_orthoHerm n)
    (cp_liou (C14.pauliBasis_complete n) U) (cp_liou (C14.pauliBasis_complete n) V)

/-! ### 6. the other code paths of `liouville_representation`; total propagators -/

section paths
variable {d : Nat}

/-- the generic path of `liouvilleRepr` is `Model.liouville` -/
theorem liouvilleRepr_generic (U : Mat ℂ d d) (C : Vector (Mat ℂ d d) (d * d)) (h : Bool) :
    Model.liouvilleRepr (R := ℝ) U C false h = Model.liouville U C h := rfl

/-- **`liouville_closed_form_eq_generic`**: `liouville_representation` computed through
`ggm_expand` (the `btype == 'GGM' and d > 12` path) equals the generic `basis.expand` path for the
Gell-Mann basis of EVERY dimension `d`, for every matrix `U` (unitary or not) and both values of
the `hermitian` flag. -/
theorem liouville_closed_form_eq_generic (U : Mat ℂ d d) (h : Bool) :
    Model.liouvilleRepr (R := ℝ) U (Model.ggmBasis (K := ℂ) d) true h
      = Model.liouvilleRepr (R := ℝ) U (Model.ggmBasis (K := ℂ) d) false h := by
  unfold Model.liouvilleRepr
  simp only [if_true, Bool.false_eq_true, if_false]
  apply Vector.ext; intro i hi
  rw [Vector.getElem_ofFn, Vector.getElem_ofFn]
  simp only [Fin.getElem_fin]
  cases h with
  | false => exact C14.ggmExpand_eq_expand _
  | true =>
    have hM : (Mat.toMatrix (Gen.superoperator_liouville_representation_0_e0
          (Mat.map CplxOps.conj U) (Model.ggmBasis (K := ℂ) d) U)[i])ᴴ
        = Mat.toMatrix (Gen.superoperator_liouville_representation_0_e0
          (Mat.map CplxOps.conj U) (Model.ggmBasis (K := ℂ) d) U)[i] := by
      rw [Model.conjBasis_toMatrix U _ i hi, conjTranspose_mul, conjTranspose_mul,
        conjTranspose_conjTranspose, (C14.ggmBasis_orthoHerm d).herm, Matrix.mul_assoc]
    rw [C14.ggmExpand_hermitian _ hM, C14.ggmExpand_eq_expand,
      C14.expand_real_of_hermitian _ _ hM (C14.ggmBasis_orthoHerm d).herm]

/-- **`liouville_representation` on every branch**: whatever the label, the dimension and the
result of the comparison `basis == Basis.ggm(d)` are, for the Gell-Mann basis the result is the
generic one, with entries `tr(C_i U C_j U†)`. -/
theorem liouvilleRepr_ggm_entries (U : Mat ℂ d d) (btypeGGM eqGGM : Bool) (i j : Fin (d * d)) :
    (Model.liouvilleRepr (R := ℝ) U (Model.ggmBasis (K := ℂ) d)
        (Model.closedFormCond btypeGGM d eqGGM) true)[i][j]
      = Spec.liou (basisOf (Model.ggmBasis (K := ℂ) d)) U.toMatrix i j := by
  have h : Model.liouvilleRepr (R := ℝ) U (Model.ggmBasis (K := ℂ) d)
        (Model.closedFormCond btypeGGM d eqGGM) true
      = Model.liouville U (Model.ggmBasis (K := ℂ) d) true := by
    cases Model.closedFormCond btypeGGM d eqGGM with
    | false => rfl
    | true => rw [liouville_closed_form_eq_generic]; rfl
  rw [h, liouville_castReal U _ (C14.ggmBasis_orthoHerm d), liouville_entries]

end paths

section stackSec
variable {R K : Type}
  [Zero K] [One K] [Add K] [Mul K] [Neg K] [Sub K] [Div K] [CplxOps R K]

omit [One K] [Neg K] [Sub K] [Div K] in
/-- **Stacks**: `liouville_representation` of a stack of matrices (batch instance of the einsum)
is the stack of the representations — for every scalar type, in particular bit for bit at IEEE
doubles. -/
theorem liouville_stack_eq_map {d N Z : Nat} (Us : Vector (Mat K d d) Z)
    (C : Vector (Mat K d d) N) (b : Bool) :
    Model.liouvilleStack Us C b = Us.map fun U => Model.liouville U C b := by
  apply Vector.ext; intro z hz
  rw [Model.liouvilleStack_getElem Us C b z hz, Vector.getElem_map]

end stackSec

section total
variable {N d n : Nat}

/-- `L` of the ordered product `Q_{k-1} ⋯ Q_0` is the ordered product of the `L(Q_p)` (the
recursion `L[i] = L_tot[i-1] @ L[i-1]` of `concatenate`, `Model.cumL`) -/
theorem liou_cumL (Q : Vector (Mat ℂ d d) n) (C : Vector (Mat ℂ d d) N)
    (hC : IsComplete (basisOf C)) (hH : IsOrthoHerm (basisOf C)) (k : Nat) (hk : k ≤ n) :
    Spec.liou (basisOf C) (Model.cumL Q k).toMatrix
      = (Model.cumL (Q.map fun q => Model.liouville q C false) k).toMatrix := by
  induction k with
  | zero => rw [ConcatAux.cumL_zero, ConcatAux.cumL_zero, Mat.toMatrix_one, Mat.toMatrix_one,
      liou_one hH]
  | succ k ih =>
    rw [ConcatAux.cumL_succ Q k (by omega), ConcatAux.cumL_succ _ k (by omega), Mat.toMatrix_mul,
      Mat.toMatrix_mul, liou_mul hC, ih (by omega), Vector.getElem_map, Model.liouville_toMatrix]

/-- **`total_liouville_is_product`**: the `total_propagator_liouville` cached by `concatenate`,
`liouville_representation(util.mdot([Q_0, …, Q_{n-1}][::-1]))`, is the ordered product
`L(Q_{n-1}) ⋯ L(Q_0)` of the inputs' Liouville total propagators (complete Hermitian orthonormal
basis; any matrices `Q_p`, any number of pulses). -/
theorem total_liouville_is_product (Q : Vector (Mat ℂ d d) n) (C : Vector (Mat ℂ d d) N)
    (hC : IsComplete (basisOf C)) (hH : IsOrthoHerm (basisOf C)) (b : Bool) :
    (Model.concatTotalLiouville Q C b).toMatrix
      = (Model.cumL (Q.map fun q => Model.liouville q C false) n).toMatrix := by
  unfold Model.concatTotalLiouville
  have hb : Model.liouville (Model.mdotRev Q) C b = Model.liouville (Model.mdotRev Q) C false := by
    cases b with
    | false => rfl
    | true => exact liouville_castReal _ C hH
  rw [hb, Model.liouville_toMatrix, Model.mdotRev_toMatrix, liou_cumL Q C hC hH n (le_refl n)]

/-- … in the form of the loop of `concatenate`: the cached total Liouville propagator of the
concatenation is `L_tot[n-1] @ L[n-1]`, where `L = concatL(L_tot)` are the transfer matrices the
same call uses for the control matrices. -/
theorem total_liouville_eq_last_step (Q : Vector (Mat ℂ d d) (n + 1)) (C : Vector (Mat ℂ d d) N)
    (hC : IsComplete (basisOf C)) (hH : IsOrthoHerm (basisOf C)) (b : Bool) :
    (Model.concatTotalLiouville Q C b).toMatrix
      = (Model.liouville Q[n] C false).toMatrix
        * ((Model.concatL (Q.map fun q => Model.liouville q C false))[n]).toMatrix := by
  rw [total_liouville_is_product Q C hC hH b, ConcatAux.cumL_succ _ n (by omega),
    Mat.toMatrix_mul, Vector.getElem_map]
  congr 2
  exact (ConcatAux.concatL_get _ ⟨n, by omega⟩).symm

/-- **Cumulative propagators**: `L(Q_g) = L(P_{g-1}) ⋯ L(P_0)` for the cumulative propagators
`Q_g = P_{g-1} ⋯ P_0` of `numeric.diagonalize` (`Model.cumulative`), every `g ≤ n_dt`; `g = n_dt`
is the `total_propagator_liouville` of a single pulse. -/
theorem cumulative_liouville_is_product (P : Vector (Mat ℂ d d) n) (C : Vector (Mat ℂ d d) N)
    (hC : IsComplete (basisOf C)) (hH : IsOrthoHerm (basisOf C)) (g : Nat) (hg : g ≤ n) :
    (Model.liouville (Model.cumulative P)[g] C false).toMatrix
      = (Model.cumL (P.map fun q => Model.liouville q C false) g).toMatrix := by
  have hQ : ∀ k (hk : k ≤ n), ((Model.cumulative P)[k]).toMatrix = (Model.cumL P k).toMatrix := by
    intro k
    induction k with
    | zero => intro _; rw [Model.cumulative_getElem_zero, ConcatAux.cumL_zero]
    | succ k ih =>
      intro hk
      rw [Model.cumulative_getElem_succ P k (by omega), ConcatAux.cumL_succ P k (by omega),
        Mat.toMatrix_mul, Mat.toMatrix_mul, ih (by omega)]
  rw [Model.liouville_toMatrix, hQ g hg, liou_cumL P C hC hH g hg]

end total

/-! non-vacuity of the hypotheses of sections 2, 4 and 6 (Gell-Mann basis of every dimension) -/

example (d n : Nat) (w : Vec ℝ n) (A : Vector (Mat ℂ d d) n) (hw : ∀ m : Fin n, 0 ≤ w[m]) :
    (Model.liouvilleToChoi (Model.liouvilleOfKraus w A (Model.ggmBasis (K := ℂ) d) false)
      (Model.ggmBasis (K := ℂ) d)).toMatrix.PosSemidef :=
  choi_of_kraus_posSemidef_model w A _ (C14.ggmBasis_complete d) hw

example (d : Nat) (S : Matrix (Fin (d * d)) (Fin (d * d)) ℂ) :
    IsCPLiou (basisOf (Model.ggmBasis (K := ℂ) d)) S ↔
      ∃ (n : ℕ) (A : Fin n → Matrix (Fin d) (Fin d) ℂ),
        S = liouKraus (basisOf (Model.ggmBasis (K := ℂ) d)) (fun _ => 1) A :=
  cp_iff_kraus (C14.ggmBasis_complete d) (C14.ggmBasis_orthoHerm d) S

example (d n : Nat) (Q : Vector (Mat ℂ d d) n) :
    (Model.concatTotalLiouville Q (Model.ggmBasis (K := ℂ) d) true).toMatrix
      = (Model.cumL (Q.map fun q => Model.liouville q (Model.ggmBasis (K := ℂ) d) false)
          n).toMatrix :=
  total_liouville_is_product Q _ (C14.ggmBasis_complete d) (C14.ggmBasis_orthoHerm d) true

end FFVerif.C15
