/-
C05d — Decision logic of `extend` (after its argument checks): what is computed or carried over
(diagonalization, control matrix / filter function, rows of an additional noise Hamiltonian), on
which frequency grid and by which route, or which exception is raised — as a function of the
cache states and basis types of the mapped pulses and of the options.  Also which cached
quantities survive `remap`.

Model: `FFVerif/Model/ExtendLogic.lean` (`extendLogic`, `remapLogic`; the source followed
statement by statement; cross-checked against the real functions on random cache states by
`py/xcheck_extendlogic.py`).  Vocabulary (`Lemmas/ExtendLogicAux.lean`):

* `AllCm ps`, `AllDiag ps`, `AllTp ps` — every mapped pulse has its control matrix /
  `eigvals, eigvecs, propagators` / total propagator cached;
* `GridsAgree ps g` — `equal_omega` of the code, on grid `g`: there is a pulse and EVERY pulse has
  grid `g` cached (one pulse with `omega = None` makes it false);
* `AllPauli ps`     — the new pulse gets `Basis.pauli(N)`: every mapped pulse has the Pauli basis;
* `FFOn ps o g`     — the three ways a filter function gets cached on grid `g` (forced with
  `omega=`; forced without, grids agree; automatic, all control matrices cached and grids agree);
* `OmegaErr ps o`   — `cache_filter_function=True`, no `omega=`, grids do not agree (l. 2367);
  `DiagErr o`       — `cache_diagonalization=False` and an additional noise Hamiltonian (l. 2384);
* `k.Cached` for `k : FFKind` (`k ≠ .none`), `k.grid?`.

DEVIATIONS of the code from the docstring of `extend` found while modelling / proving (concrete
inputs; pulses `⟨diag, tp, cm, omega, btype⟩`, options `⟨cacheDiag, cacheFF, omegaGiven,
additional, earlyReturn⟩`; all reproduced with the real package by `py/xcheck_extendlogic.py`):
 E1  Shortcut.  `extend([(p, 0)], cache_filter_function=True, omega=w,
     additional_noise_Hamiltonian=H)` (one single-qubit pulse on qubit 0, `N` `None` or 1; likewise
     one multi-qubit pulse on its own sorted qubits) returns the INPUT OBJECT `p` itself: no
     filter function is computed although forced, the additional noise operators are silently
     dropped, none of the two `ValueError`s of this part is raised, and the result is not a new
     pulse (`early_return_nothing`; `forced_ff_never_silently_skipped` needs `earlyReturn = false`).
     (The same shortcut of `concatenate` was repaired, this one not.)
 E2  "cache_filter_function … By default, this is done if all pulses … have their filter functions
     cached": what counts is a cached CONTROL MATRIX of every pulse and equal cached frequencies of
     all pulses (`auto_ff_iff`).  A pulse with filter function and frequencies cached but the
     control matrix removed prevents it: `[(1,1,1,0,p),(1,1,0,0,p)]` caches nothing; so does
     `[(1,1,1,0,p),(0,0,0,0,p)]`, the state after `cache_filter_function(w); cleanup('greedy')`
     (both inputs then HAVE their filter functions cached on the same grid).
 E3  "omega: Frequencies for which to compute the filter functions if cache_filter_function ==
     True": in automatic mode (`None`) a passed `omega=` is IGNORED — if the automatic condition
     holds the result is cached on the grid of the inputs (`[(1,1,1,0,p),(1,1,1,0,p)]`, `omega=`
     grid 1: cached on grid 0), else nothing is cached (`ff_grid_sound`, third alternative;
     `concatenate` instead treats a passed `omega` as forcing).
 E4  "cache_diagonalization: Force diagonalizing the new pulse sequence": `False` does not keep the
     diagonalization out of the result when a filter function is cached: with a non-Pauli basis
     `newpulse.cache_filter_function(omega)` diagonalizes the new pulse
     (`[(1,1,1,0,c),(1,1,1,0,c)]`, `cacheDiag = false`: `diag = recomputed`), and with the Pauli
     basis `newpulse.total_propagator` (read for the Liouville total propagator) diagonalizes the
     NEW, large pulse whenever not all inputs had their total propagator cached — although the
     loop before has just diagonalized every input (`[(0,0,0,-,p),(0,0,0,-,p)]`,
     `cacheDiag = false`, `cacheFF = true`, `omega=` 0: inputs diagonalized AND new pulse
     diagonalized; `diag_iff`).  `True` with the Pauli basis does not diagonalize the new pulse but
     every input that is not diagonalized (a side effect on the inputs, `input_side_effects`).
 E5  "Additional noise Hamiltonian given and cache_diagonalization set to False but required" is
     raised also when nothing requires the diagonalization (`cacheFF = false`:
     `[(0,0,0,-,p),(0,0,0,-,p)]`, `cacheDiag = false`, `additional`), while with
     `cache_diagonalization=None` the same call succeeds without diagonalization (`error_iff`).
 E6  (remark) `extend` MUTATES its inputs on the Pauli path: inputs are diagonalized, and
     `pulse.get_control_matrix(omega)` replaces what an input had cached for other frequencies
     (`input_side_effects`).  With a non-Pauli basis the inputs are left alone.
 E7  (remark) the `TypeError` a calculation with `omega = None` would raise is unreachable
     (`no_other_errors`): the two `ValueError`s are the only exceptions of this part.
-/
import FFVerif.Lemmas.ExtendLogicAux

namespace FFVerif.C05d
open FFVerif.Model.ExtendLogic

/-! ### frequencies -/

/-- **Grid soundness** (all inputs).  Whenever the result has a filter function cached by this
call on grid `g`, then
* the calculation was forced (`cache_filter_function=True`) and `g` was passed as `omega=`, or
* it was forced, no `omega=` was passed, and EVERY input has grid `g` cached (control matrices
  need not be cached: they are computed on the inputs), or
* the mode is automatic (`None`) and every input has a control matrix cached and grid `g` cached
  — whatever was passed as `omega=` (deviation E3: a passed grid is ignored). -/
theorem ff_grid_sound {ps : List PulseState} {o : Opts} {d : Decision} {g : Nat}
    (h : extendLogic ps o = .ok d) (hg : d.ff.grid? = some g) :
    (o.cacheFF = some true ∧ o.omegaGiven = some g) ∨
    (o.cacheFF = some true ∧ o.omegaGiven = none ∧ ps ≠ [] ∧ ∀ p ∈ ps, p.omega = some g) ∨
    (o.cacheFF = none ∧ (∀ p ∈ ps, p.cmCached = true) ∧ ps ≠ [] ∧ ∀ p ∈ ps, p.omega = some g) := by
  have hb := extendLogic_branch ps o
  rw [h] at hb
  cases hb with
  | early => simp [Decision.returned, FFKind.grid?] at hg
  | built fg he hs hd =>
    rw [decision_grid] at hg
    subst hg
    exact hs

/-- **Grid, exactly**: when the shortcut is not taken and l. 2384 does not raise, a filter function
is cached on grid `g` iff one of the three alternatives of `ff_grid_sound` holds (`FFOn`). -/
theorem ff_grid_iff {ps : List PulseState} {o : Opts} {g : Nat}
    (he : o.earlyReturn = false) (hd : ¬ DiagErr o) :
    (∃ d, extendLogic ps o = .ok d ∧ d.ff.grid? = some g) ↔ FFOn ps o g := by
  constructor
  · rintro ⟨d, h, hg⟩
    exact ff_grid_sound h hg
  · intro hon
    have hb := extendLogic_branch ps o
    generalize extendLogic ps o = r at hb
    cases hb with
    | early h => rw [he] at h; cases h
    | errOmega _ h => exact absurd h (ffOn_not_omegaErr hon)
    | errDiag _ _ _ h => exact absurd h hd
    | built fg _ hs _ =>
      have : fg = some g := ffState_unique hs (show FFState ps o (some g) from hon)
      subst this
      exact ⟨_, rfl, decision_grid _ _ _ _⟩

theorem cached_iff_grid (k : FFKind) : k.Cached ↔ ∃ g, k.grid? = some g := by
  cases k <;> simp [FFKind.Cached, FFKind.grid?]

/-- **A forced filter function is never silently skipped** — unless the shortcut is taken
(deviation E1, see `early_return_nothing`): with `cache_filter_function=True` and
`earlyReturn = false` the call raises or the result has a filter function cached. -/
theorem forced_ff_never_silently_skipped {ps : List PulseState} {o : Opts}
    (he : o.earlyReturn = false) (hf : o.cacheFF = some true) :
    (∃ e, extendLogic ps o = .error e) ∨ ∃ d, extendLogic ps o = .ok d ∧ d.ff.Cached := by
  have hb := extendLogic_branch ps o
  generalize extendLogic ps o = r at hb
  cases hb with
  | early h => rw [he] at h; cases h
  | errOmega => exact .inl ⟨_, rfl⟩
  | errDiag => exact .inl ⟨_, rfl⟩
  | built fg _ hs _ =>
    cases fg with
    | none =>
      rcases hs with h | ⟨h, _⟩ <;> (rw [hf] at h; cases h)
    | some g => exact .inr ⟨_, rfl, (decision_cached _ _ _ _).mpr rfl⟩

/-- **A disabled filter function is never cached** (all inputs): with
`cache_filter_function=False` the frequency logic raises nothing (whatever is cached, also
without `omega=`), and if a pulse is returned it has no filter function from this call, no rows
for additional noise operators were computed and no input's control matrix was computed.  (The
`ValueError` of l. 2384 can still be raised, deviation E5.) -/
theorem disabled_ff_never_cached {ps : List PulseState} {o : Opts} (hf : o.cacheFF = some false) :
    extendLogic ps o ≠ .error .omegaNotInferable ∧ extendLogic ps o ≠ .error .omegaNone ∧
    ∀ d, extendLogic ps o = .ok d →
      d.ff = .none ∧ d.addRows = false ∧ ∀ b ∈ d.inputCM, b = false := by
  have hb := extendLogic_branch ps o
  generalize extendLogic ps o = r at hb
  cases hb with
  | early =>
    refine ⟨(fun h => by cases h), (fun h => by cases h), fun d hd => ?_⟩
    cases hd
    simp [Decision.returned]
  | errOmega _ h => rw [h.1] at hf; cases hf
  | errDiag =>
    exact ⟨(fun h => by cases h), (fun h => by cases h), fun d hd => by cases hd⟩
  | built fg _ hs _ =>
    refine ⟨(fun h => by cases h), (fun h => by cases h), fun d hd => ?_⟩
    cases hd
    cases fg with
    | some g =>
      rcases hs with ⟨h, _⟩ | ⟨h, _⟩ | ⟨h, _⟩ <;> (rw [hf] at h; cases h)
    | none =>
      refine ⟨by rw [decision_ff], by rw [decision_addRows]; simp, ?_⟩
      unfold decision
      cases newBasisPauli ps <;> simp

/-- **Automatic mode** (`cache_filter_function=None`; shortcut not taken, l. 2384 does not raise):
the result has a filter function cached iff EVERY input has a control matrix cached and the cached
frequencies of ALL inputs agree.  The docstring says "filter functions cached" (deviation E2).
By `ff_grid_sound` the grid is then the inputs' grid, a passed `omega=` is ignored (E3). -/
theorem auto_ff_iff {ps : List PulseState} {o : Opts}
    (ha : o.cacheFF = none) (he : o.earlyReturn = false) (hd : ¬ DiagErr o) :
    (∃ d, extendLogic ps o = .ok d ∧ d.ff.Cached) ↔ AllCm ps ∧ ∃ g, GridsAgree ps g := by
  constructor
  · rintro ⟨d, h, hc⟩
    obtain ⟨g, hg⟩ := (cached_iff_grid _).mp hc
    rcases ff_grid_sound h hg with ⟨h1, _⟩ | ⟨h1, _⟩ | ⟨_, h2, h3⟩
    · rw [ha] at h1; cases h1
    · rw [ha] at h1; cases h1
    · exact ⟨h2, g, h3⟩
  · rintro ⟨h2, g, h3⟩
    obtain ⟨d, h, hg⟩ := (ff_grid_iff he hd).mpr (.inr (.inr ⟨ha, h2, h3⟩))
    exact ⟨d, h, (cached_iff_grid _).mpr ⟨g, hg⟩⟩

/-- in automatic mode nothing is raised by the frequency logic, whatever is cached -/
theorem auto_no_omega_error {ps : List PulseState} {o : Opts} (ha : o.cacheFF = none) :
    extendLogic ps o ≠ .error .omegaNotInferable := by
  have hb := extendLogic_branch ps o
  generalize extendLogic ps o = r at hb
  cases hb with
  | early => exact fun h => by cases h
  | errOmega _ h => rw [h.1] at ha; cases ha
  | errDiag => exact fun h => by cases h
  | built => exact fun h => by cases h

/-! ### extended or recomputed -/

/-- **Extending requires the Pauli basis** (all inputs): the control matrices of the inputs are
carried over with the Pauli index maps only if every mapped pulse has the Pauli basis. -/
theorem extended_requires_pauli {ps : List PulseState} {o : Opts} {d : Decision} {g : Nat}
    (h : extendLogic ps o = .ok d) (hx : d.ff = .extended g) : AllPauli ps := by
  have hb := extendLogic_branch ps o
  rw [h] at hb
  cases hb with
  | early => simp [Decision.returned] at hx
  | built fg =>
    rw [decision_ff] at hx
    cases fg with
    | none => cases hx
    | some g' =>
      cases hp : newBasisPauli ps with
      | true => exact (newBasisPauli_iff ps).mp hp
      | false => simp [hp] at hx

/-- **Extended, exactly** (all inputs): the filter function of the result is extended from the
inputs' control matrices iff one is cached at all and every basis is the Pauli basis. -/
theorem extended_iff {ps : List PulseState} {o : Opts} {d : Decision}
    (h : extendLogic ps o = .ok d) :
    (∃ g, d.ff = .extended g) ↔ d.ff.Cached ∧ AllPauli ps := by
  constructor
  · rintro ⟨g, hx⟩
    exact ⟨by rw [FFKind.Cached, hx]; simp, extended_requires_pauli h hx⟩
  · rintro ⟨hc, hp⟩
    have hb := extendLogic_branch ps o
    rw [h] at hb
    cases hb with
    | early => exact absurd rfl hc
    | built fg =>
      have hs := (decision_cached _ _ _ _).mp hc
      cases fg with
      | none => cases hs
      | some g =>
        refine ⟨g, ?_⟩
        rw [decision_ff]
        simp [(newBasisPauli_iff ps).mpr hp]

/-- **Recomputed, exactly** (all inputs): the filter function of the result is computed from
scratch (`newpulse.cache_filter_function(omega)`) iff one is cached at all and NOT every basis is
the Pauli basis (GGM, custom, mixed types, or a basis that is only labelled 'Pauli'). -/
theorem recomputed_iff {ps : List PulseState} {o : Opts} {d : Decision}
    (h : extendLogic ps o = .ok d) :
    (∃ g, d.ff = .recomputed g) ↔ d.ff.Cached ∧ ¬ AllPauli ps := by
  have hb := extendLogic_branch ps o
  rw [h] at hb
  cases hb with
  | early =>
    simp [Decision.returned, FFKind.Cached]
  | built fg =>
    rw [decision_cached, decision_ff, ← newBasisPauli_iff]
    cases fg with
    | none => simp
    | some g => cases newBasisPauli ps <;> simp

/-! ### diagonalization -/

/-- **Final `cache_diagonalization`** (shortcut not taken): it is `True` iff it was passed as
`True`, or it was `None` and (a filter function is cached and an additional noise Hamiltonian is
given, or every input is diagonalized). -/
theorem diag_wanted_iff {ps : List PulseState} {o : Opts} {d : Decision}
    (h : extendLogic ps o = .ok d) (he : o.earlyReturn = false) :
    d.diagWanted = true ↔
      o.cacheDiag = some true ∨
      (o.cacheDiag = none ∧ ((d.ff.Cached ∧ o.additional = true) ∨ AllDiag ps)) := by
  have hb := extendLogic_branch ps o
  rw [h] at hb
  cases hb with
  | early h' => rw [he] at h'; cases h'
  | built fg _ _ hd =>
    rw [decision_diagWanted, decision_cached, ← allDiag_iff]
    unfold wantDiag
    cases hc : o.cacheDiag with
    | none => simp
    | some b => cases b <;> simp

/-- **Diagonalization of the result** (shortcut not taken).  With `w` the final
`cache_diagonalization` (`diag_wanted_iff`):
* it is EXTENDED from the inputs' eigenvalues, eigenvectors and propagators iff every basis is
  the Pauli basis and `w`;
* it is RECOMPUTED (`newpulse.diagonalize()` does the work) iff
  - not every basis is the Pauli basis and (`w` or a filter function is cached — inside
    `newpulse.cache_filter_function(omega)`), or
  - every basis is the Pauli basis, not `w`, a filter function is cached and not all inputs had
    their total propagator cached (through the lazy `newpulse.total_propagator`; deviation E4);
* otherwise it is not cached.
The case "Pauli, not `w`, filter function, additional noise Hamiltonian" (where
`newpulse.eigvals` would diagonalize lazily) does not occur (`additional_rows`). -/
theorem diag_iff {ps : List PulseState} {o : Opts} {d : Decision}
    (h : extendLogic ps o = .ok d) (he : o.earlyReturn = false) :
    (d.diag = .extended ↔ AllPauli ps ∧ d.diagWanted = true) ∧
    (d.diag = .recomputed ↔
      (¬ AllPauli ps ∧ (d.diagWanted = true ∨ d.ff.Cached)) ∨
      (AllPauli ps ∧ d.diagWanted = false ∧ d.ff.Cached ∧ ¬ AllTp ps)) ∧
    (d.diag = .none ↔
      (¬ AllPauli ps ∧ d.diagWanted = false ∧ ¬ d.ff.Cached) ∨
      (AllPauli ps ∧ d.diagWanted = false ∧ (¬ d.ff.Cached ∨ AllTp ps))) := by
  have hb := extendLogic_branch ps o
  rw [h] at hb
  cases hb with
  | early h' => rw [he] at h'; cases h'
  | built fg _ _ hd =>
    have key : fg.isSome = true → o.additional = true → wantDiag ps o fg = true := by
      intro h1 h2
      cases fg with
      | none => cases h1
      | some g => exact wantDiag_of_additional h2 hd
    rw [decision_diag, decision_diagWanted, decision_cached, ← newBasisPauli_iff, ← allTp_iff]
    generalize wantDiag ps o fg = cd at key
    generalize fg.isSome = s at key
    generalize o.additional = a at key
    generalize newBasisPauli ps = b
    generalize ps.all (·.tpCached) = t
    cases b <;> cases cd <;> cases s <;> cases a <;> cases t <;> simp_all

/-- the result has its diagonalization cached iff the final `cache_diagonalization` is `True`, or
a filter function is cached and (not every basis is Pauli or not all inputs had their total
propagator cached) -/
theorem diag_cached_iff {ps : List PulseState} {o : Opts} {d : Decision}
    (h : extendLogic ps o = .ok d) (he : o.earlyReturn = false) :
    d.diag ≠ .none ↔
      d.diagWanted = true ∨ (d.ff.Cached ∧ (¬ AllPauli ps ∨ ¬ AllTp ps)) := by
  have h3 := (diag_iff h he).2.2
  rw [Ne, h3]
  by_cases hp : AllPauli ps <;> by_cases hc : d.ff.Cached <;> by_cases ht : AllTp ps <;>
    cases d.diagWanted <;> simp [hp, hc, ht]

/-! ### additional noise Hamiltonian -/

/-- **Rows of the additional noise operators** (all inputs).  With an additional noise
Hamiltonian and a filter function cached in the result, the final `cache_diagonalization` is
`True`, so the diagonalization the from-scratch rows need is ALWAYS there:
* all bases Pauli: the rows are computed separately from scratch (`addRows`) on the
  diagonalization EXTENDED from the inputs, the other rows are extended;
* otherwise: all rows (also the additional ones) are computed from scratch by
  `newpulse.cache_filter_function(omega)` after `newpulse.diagonalize()`. -/
theorem additional_rows {ps : List PulseState} {o : Opts} {d : Decision}
    (h : extendLogic ps o = .ok d) (ha : o.additional = true) (hf : d.ff.Cached) :
    d.diagWanted = true ∧
    ((AllPauli ps ∧ d.addRows = true ∧ d.diag = .extended ∧ ∃ g, d.ff = .extended g) ∨
     (¬ AllPauli ps ∧ d.addRows = false ∧ d.diag = .recomputed ∧ ∃ g, d.ff = .recomputed g)) := by
  have hb := extendLogic_branch ps o
  rw [h] at hb
  cases hb with
  | early => exact absurd rfl hf
  | built fg _ _ hd =>
    have hs := (decision_cached _ _ _ _).mp hf
    cases fg with
    | none => cases hs
    | some g =>
      have hw : wantDiag ps o (some g) = true := wantDiag_of_additional ha hd
      rw [decision_diagWanted, decision_addRows, decision_diag, decision_ff, hw,
        ← newBasisPauli_iff]
      cases newBasisPauli ps <;> simp [ha]

/-- the separate from-scratch rows are computed iff an additional noise Hamiltonian is given and
the filter function is extended (all inputs) -/
theorem addRows_iff {ps : List PulseState} {o : Opts} {d : Decision}
    (h : extendLogic ps o = .ok d) :
    d.addRows = true ↔ o.additional = true ∧ ∃ g, d.ff = .extended g := by
  have hb := extendLogic_branch ps o
  rw [h] at hb
  cases hb with
  | early => simp [Decision.returned]
  | built fg =>
    rw [decision_addRows, decision_ff]
    cases fg with
    | none => simp
    | some g => cases newBasisPauli ps <;> cases o.additional <;> simp

/-! ### exceptions -/

/-- **Errors, exactly** (all inputs).  Nothing is raised when the shortcut is taken.  Otherwise
* the `ValueError` of l. 2367 ("omega was not provided and could not be inferred") iff
  `cache_filter_function=True`, no `omega=`, and not (all inputs have frequencies cached and they
  are equal);
* the `ValueError` of l. 2384 ("cache_diagonalization set to False but required") iff the first
  one is not raised, `cache_diagonalization=False` and an additional noise Hamiltonian is given —
  whether or not a filter function is computed (deviation E5);
* nothing else. -/
theorem error_iff (ps : List PulseState) (o : Opts) (e : Err) :
    extendLogic ps o = .error e ↔
      o.earlyReturn = false ∧
      ((e = .omegaNotInferable ∧ o.cacheFF = some true ∧ o.omegaGiven = none ∧
          ¬ ∃ g, GridsAgree ps g) ∨
       (e = .diagRequired ∧ ¬ OmegaErr ps o ∧ o.cacheDiag = some false ∧ o.additional = true)) := by
  have hb := extendLogic_branch ps o
  generalize extendLogic ps o = r at hb
  cases hb with
  | early he =>
    refine ⟨(fun h => by cases h), ?_⟩
    rintro ⟨h, _⟩
    rw [he] at h; cases h
  | errOmega he herr =>
    constructor
    · intro h; cases h; exact ⟨he, .inl ⟨rfl, herr⟩⟩
    · rintro ⟨_, ⟨rfl, _⟩ | ⟨_, h, _⟩⟩
      · rfl
      · exact absurd herr h
  | errDiag fg he hs hd =>
    constructor
    · intro h; cases h; exact ⟨he, .inr ⟨rfl, ffState_not_omegaErr hs, hd⟩⟩
    · rintro ⟨_, ⟨_, h⟩ | ⟨rfl, _⟩⟩
      · exact absurd h (ffState_not_omegaErr hs)
      · rfl
  | built fg he hs hd =>
    refine ⟨(fun h => by cases h), ?_⟩
    rintro ⟨_, ⟨_, h⟩ | ⟨_, _, h⟩⟩
    · exact absurd h (ffState_not_omegaErr hs)
    · exact absurd h hd

/-- **No other errors** (all inputs): every exception of this part of `extend` is one of the two
`ValueError`s; a calculation with `omega = None` (`TypeError`) is never reached (E7). -/
theorem no_other_errors {ps : List PulseState} {o : Opts} {e : Err}
    (h : extendLogic ps o = .error e) :
    (e = .omegaNotInferable ∨ e = .diagRequired) ∧ e.name = "ValueError" := by
  rcases (error_iff ps o e).mp h with ⟨_, ⟨rfl, _⟩ | ⟨rfl, _⟩⟩
  · exact ⟨.inl rfl, rfl⟩
  · exact ⟨.inr rfl, rfl⟩

/-! ### the shortcut -/

/-- **Shortcut** (deviation E1): when the single pulse is mapped onto its own register nothing is
computed and nothing is checked, whatever the options force — the input object is returned. -/
theorem early_return_nothing {ps : List PulseState} {o : Opts} (he : o.earlyReturn = true) :
    extendLogic ps o = .ok Decision.returned := by
  unfold extendLogic; rw [he]; rfl

/-- the input object is returned only by the shortcut (all inputs) -/
theorem returned_iff {ps : List PulseState} {o : Opts} {d : Decision}
    (h : extendLogic ps o = .ok d) : d.returnedInput = true ↔ o.earlyReturn = true := by
  have hb := extendLogic_branch ps o
  rw [h] at hb
  cases hb with
  | early he => simp [Decision.returned, he]
  | built fg he => rw [decision_returnedInput, he]

/-! ### side effects on the inputs -/

/-- **Side effects on the inputs** (shortcut not taken; deviation E6).
* If the filter function is extended on grid `g`, the control matrix of an input is computed from
  scratch iff it misses (`cmMiss`: not cached, or cached for another grid), and an input is
  diagonalized iff it is not yet and (the final `cache_diagonalization` is `True` or its control
  matrix is computed).
* Otherwise no control matrix of an input is computed, and an input is diagonalized iff it is not
  yet, every basis is Pauli and the final `cache_diagonalization` is `True`. -/
theorem input_side_effects {ps : List PulseState} {o : Opts} {d : Decision}
    (h : extendLogic ps o = .ok d) (he : o.earlyReturn = false) :
    (∀ g, d.ff = .extended g →
      d.inputCM = ps.map (cmMiss · g) ∧
      d.inputDiag = ps.map fun p => !p.diagCached && (d.diagWanted || cmMiss p g)) ∧
    ((¬ ∃ g, d.ff = .extended g) →
      d.inputCM = ps.map (fun _ => false) ∧
      d.inputDiag = ps.map fun p => !p.diagCached && (d.diagWanted && newBasisPauli ps)) := by
  have hb := extendLogic_branch ps o
  rw [h] at hb
  cases hb with
  | early h' => rw [he] at h'; cases h'
  | built fg =>
    generalize wantDiag ps o fg = cd
    unfold decision
    cases hp : newBasisPauli ps <;> cases fg <;> simp

/-- with a basis that is not Pauli the inputs are left alone -/
theorem inputs_untouched_of_not_pauli {ps : List PulseState} {o : Opts} {d : Decision}
    (h : extendLogic ps o = .ok d) (hp : ¬ AllPauli ps) :
    (∀ b ∈ d.inputCM, b = false) ∧ ∀ b ∈ d.inputDiag, b = false := by
  have hb := extendLogic_branch ps o
  rw [h] at hb
  cases hb with
  | early => simp [Decision.returned]
  | built fg =>
    have : newBasisPauli ps = false := by
      cases hn : newBasisPauli ps with
      | false => rfl
      | true => exact absurd ((newBasisPauli_iff ps).mp hn) hp
    unfold decision
    rw [this]
    cases fg <;> simp

/-! ### `remap` -/

/-- `remap` keeps the basis, and what was cached of the diagonalization stays cached -/
theorem remap_keeps_diag (s : FullState) :
    (remapLogic s).1.btype = s.btype ∧
    (s.diagCached = true → (remapLogic s).1.diagCached = true) ∧
    (s.tpCached = true → (remapLogic s).1.tpCached = true) := by
  obtain ⟨dg, tp, cm, om, bt, ph, f, tpl⟩ := s
  cases om <;> cases bt <;> cases dg <;> cases tp <;> cases cm <;> cases ph <;> cases f <;>
    cases tpl <;> simp [remapLogic]

/-- **`remap` and the control matrix**: it survives iff frequencies are cached and the basis is
the Pauli basis. -/
theorem remap_cm_iff (s : FullState) :
    (remapLogic s).1.cmCached = true ↔
      s.cmCached = true ∧ s.omega.isSome = true ∧ s.btype = .pauli := by
  obtain ⟨dg, tp, cm, om, bt, ph, f, tpl⟩ := s
  cases om <;> cases bt <;> cases dg <;> cases tp <;> cases cm <;> cases ph <;> cases f <;>
    cases tpl <;> simp [remapLogic]

/-- **`remap` and the frequencies**: the remapped pulse has grid `g` cached iff the pulse had and
something frequency dependent is carried over with it: total phases, a filter function, or a
control matrix with the Pauli basis.  (`pulse.omega = w` alone does not survive.)  In particular
the frequencies of the remapped pulse are the pulse's or `None`. -/
theorem remap_omega_iff (s : FullState) (g : Nat) :
    (remapLogic s).1.omega = some g ↔
      s.omega = some g ∧
      (s.phasesCached = true ∨ s.ffCached = true ∨ (s.cmCached = true ∧ s.btype = .pauli)) := by
  obtain ⟨dg, tp, cm, om, bt, ph, f, tpl⟩ := s
  cases om <;> cases bt <;> cases dg <;> cases tp <;> cases cm <;> cases ph <;> cases f <;>
    cases tpl <;> simp [remapLogic]

/-- `remap` diagonalizes the remapped pulse (inside `cache_control_matrix`) iff a control matrix
is carried over and neither the total propagator nor its Liouville representation was cached -/
theorem remap_lazy_iff (s : FullState) :
    (remapLogic s).2 = true ↔
      s.cmCached = true ∧ s.omega.isSome = true ∧ s.btype = .pauli ∧ s.tplCached = false ∧
        s.tpCached = false := by
  obtain ⟨dg, tp, cm, om, bt, ph, f, tpl⟩ := s
  cases om <;> cases bt <;> cases dg <;> cases tp <;> cases cm <;> cases ph <;> cases f <;>
    cases tpl <;> simp [remapLogic]

/-- consequence for `extend`: a multi-qubit pulse with unsorted qubits and a basis that is not
Pauli enters the decision logic WITHOUT its control matrix, so in automatic mode no filter
function is cached (and with the non-Pauli basis a forced one is recomputed anyway) -/
theorem remap_not_pauli_blocks_auto {s : FullState} {ps : List PulseState} {o : Opts}
    (hb : s.btype ≠ .pauli) (ha : o.cacheFF = none) (he : o.earlyReturn = false)
    (hd : ¬ DiagErr o) :
    ¬ ∃ d, extendLogic ((remapLogic s).1.toPulse :: ps) o = .ok d ∧ d.ff.Cached := by
  rw [auto_ff_iff ha he hd]
  rintro ⟨hcm, _⟩
  have h1 := hcm _ List.mem_cons_self
  have h2 := (remap_cm_iff s).mp h1
  exact hb h2.2.2

/-! ### concrete inputs, one per branch of the source (all also run against the real function by
`py/xcheck_extendlogic.py`, list `FIXED`); pulses are written `⟨diag, tp, cm, omega, btype⟩`,
options `⟨cacheDiag, cacheFF, omegaGiven, additional, earlyReturn⟩`, decisions
`⟨returnedInput, diagWanted, diag, tpExtended, ff, addRows, inputDiag, inputCM⟩` -/

/-- the standard case: everything cached on one grid, Pauli: all extended -/
example : extendLogic [⟨true, true, true, some 0, .pauli⟩, ⟨true, true, true, some 0, .pauli⟩]
    ⟨none, none, none, false, false⟩
    = .ok ⟨false, true, .extended, false, .extended 0, false, [false, false], [false, false]⟩ := by
  decide
/-- E3: automatic mode, `omega=` grid 1 passed: ignored, cached on grid 0 -/
example : extendLogic [⟨true, true, true, some 0, .pauli⟩, ⟨true, true, true, some 0, .pauli⟩]
    ⟨none, none, some 1, false, false⟩
    = .ok ⟨false, true, .extended, false, .extended 0, false, [false, false], [false, false]⟩ := by
  decide
/-- automatic mode, grids differ: no filter function, diagonalization extended -/
example : extendLogic [⟨true, true, true, some 0, .pauli⟩, ⟨true, true, true, some 1, .pauli⟩]
    ⟨none, none, none, false, false⟩
    = .ok ⟨false, true, .extended, false, .none, false, [false, false], [false, false]⟩ := by
  decide
/-- E2: automatic mode, second pulse has frequencies but no control matrix cached -/
example : extendLogic [⟨true, true, true, some 0, .pauli⟩, ⟨true, true, false, some 0, .pauli⟩]
    ⟨none, none, none, false, false⟩
    = .ok ⟨false, true, .extended, false, .none, false, [false, false], [false, false]⟩ := by
  decide
/-- forced, no `omega=`, grids differ -/
example : extendLogic [⟨true, true, true, some 0, .pauli⟩, ⟨true, true, true, some 1, .pauli⟩]
    ⟨none, some true, none, false, false⟩ = .error .omegaNotInferable := by decide
/-- forced, no `omega=`, only frequencies cached (`pulse.omega = w`): control matrices of the
inputs are computed, the inputs diagonalized, and the new pulse is diagonalized as well (E4) -/
example : extendLogic [⟨false, false, false, some 0, .pauli⟩, ⟨false, false, false, some 0, .pauli⟩]
    ⟨none, some true, none, false, false⟩
    = .ok ⟨false, false, .recomputed, false, .extended 0, false, [true, true], [true, true]⟩ := by
  decide
/-- E4: `cache_diagonalization=False`, forced on a passed grid, nothing cached -/
example : extendLogic [⟨false, false, false, none, .pauli⟩, ⟨false, false, false, none, .pauli⟩]
    ⟨some false, some true, some 0, false, false⟩
    = .ok ⟨false, false, .recomputed, false, .extended 0, false, [true, true], [true, true]⟩ := by
  decide
/-- the same with the total propagators of the inputs cached: they are tensored, the new pulse is
not diagonalized -/
example : extendLogic [⟨false, true, false, none, .pauli⟩, ⟨false, true, false, none, .pauli⟩]
    ⟨some false, some true, some 0, false, false⟩
    = .ok ⟨false, false, .none, true, .extended 0, false, [true, true], [true, true]⟩ := by
  decide
/-- E5: `cache_diagonalization=False` with an additional noise Hamiltonian, nothing to compute -/
example : extendLogic [⟨false, false, false, none, .pauli⟩, ⟨false, false, false, none, .pauli⟩]
    ⟨some false, some false, none, true, false⟩ = .error .diagRequired := by decide
/-- additional noise Hamiltonian, forced on a passed grid, nothing cached: `cache_diagonalization`
becomes `True`, inputs diagonalized, diagonalization extended, additional rows from scratch -/
example : extendLogic [⟨false, false, false, none, .pauli⟩, ⟨false, false, false, none, .pauli⟩]
    ⟨none, some true, some 2, true, false⟩
    = .ok ⟨false, true, .extended, false, .extended 2, true, [true, true], [true, true]⟩ := by
  decide
/-- mixed basis types: everything recomputed, inputs untouched -/
example : extendLogic [⟨true, true, true, some 0, .pauli⟩, ⟨true, true, true, some 0, .ggm⟩]
    ⟨none, none, none, false, false⟩
    = .ok ⟨false, true, .recomputed, false, .recomputed 0, false, [false, false], [false, false]⟩ := by
  decide
/-- E4: custom bases, `cache_diagonalization=False`, automatic filter function: the
diagonalization is cached nevertheless -/
example : extendLogic [⟨true, true, true, some 0, .custom⟩, ⟨true, true, true, some 0, .custom⟩]
    ⟨some false, none, none, false, false⟩
    = .ok ⟨false, false, .recomputed, false, .recomputed 0, false, [false, false], [false, false]⟩ := by
  decide
/-- nothing cached, automatic, additional noise Hamiltonian: nothing computed, no error -/
example : extendLogic [⟨false, false, false, none, .ggm⟩, ⟨false, false, false, none, .pauli⟩]
    ⟨none, none, none, true, false⟩
    = .ok ⟨false, false, .none, false, .none, false, [false, false], [false, false]⟩ := by
  decide
/-- GGM bases, diagonalized inputs, filter function disabled: the new pulse is diagonalized -/
example : extendLogic [⟨true, true, false, none, .ggm⟩, ⟨true, true, false, none, .ggm⟩]
    ⟨none, some false, none, false, false⟩
    = .ok ⟨false, true, .recomputed, false, .none, false, [false, false], [false, false]⟩ := by
  decide
/-- E1: the shortcut — forced filter function without frequencies, `cache_diagonalization=False`
with an additional noise Hamiltonian: nothing raised, nothing computed -/
example : extendLogic [⟨false, false, false, none, .pauli⟩]
    ⟨some false, some true, none, true, true⟩ = .ok Decision.returned := by decide
/-- a control matrix whose frequencies were reset (`pulse.omega = None`): no agreement -/
example : extendLogic [⟨false, false, true, none, .pauli⟩, ⟨true, true, true, some 0, .pauli⟩]
    ⟨none, none, none, false, false⟩
    = .ok ⟨false, false, .none, false, .none, false, [false, false], [false, false]⟩ := by
  decide
/-- one pulse mapped to another qubit, forced on another grid than the cached one: the input's
control matrix is recomputed (and replaced) on the passed grid -/
example : extendLogic [⟨true, true, true, some 0, .pauli⟩] ⟨some true, some true, some 1, true, false⟩
    = .ok ⟨false, true, .extended, false, .extended 1, true, [false], [true]⟩ := by decide

/-- `remap`: everything cached, Pauli basis: everything survives -/
example : remapLogic ⟨true, true, true, some 0, .pauli, true, true, true⟩
    = (⟨true, true, true, some 0, .pauli, true, true, true⟩, false) := by decide
/-- `remap`: GGM basis: control matrix and Liouville total propagator are lost -/
example : remapLogic ⟨true, true, true, some 0, .ggm, true, false, true⟩
    = (⟨true, true, false, some 0, .ggm, true, false, false⟩, false) := by decide
/-- `remap`: only frequencies cached: they are lost -/
example : remapLogic ⟨true, true, false, some 0, .pauli, false, false, false⟩
    = (⟨true, true, false, none, .pauli, false, false, false⟩, false) := by decide

/-- the hypotheses of `ff_grid_sound`, `additional_rows`, `diag_iff` are satisfiable: three
pulses, forced without `omega=`, additional noise Hamiltonian, one input without control matrix -/
example : ∃ d, extendLogic [⟨true, true, true, some 3, .pauli⟩, ⟨false, false, false, some 3, .pauli⟩,
      ⟨true, true, true, some 3, .pauli⟩] ⟨none, some true, none, true, false⟩ = .ok d ∧
    d.ff.grid? = some 3 ∧ d.ff.Cached ∧ d.diag = .extended ∧ d.addRows = true :=
  ⟨⟨false, true, .extended, false, .extended 3, true, [false, true, false], [false, true, false]⟩,
    by decide, by decide, by decide, by decide, by decide⟩

/-- the hypotheses of `auto_ff_iff`, `ff_grid_iff` (`¬ DiagErr`, no shortcut) are satisfiable -/
example : ¬ DiagErr (⟨none, none, none, true, false⟩ : Opts) := by
  unfold DiagErr; decide

/-- the hypotheses of `remap_not_pauli_blocks_auto` are satisfiable -/
example : (⟨true, true, true, some 0, .ggm, true, true, true⟩ : FullState).btype ≠ .pauli := by
  decide

end FFVerif.C05d
