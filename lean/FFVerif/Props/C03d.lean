/-
C03d — Decision logic of `concatenate`: which filter-function calculation is performed, on which
frequency grid, or which exception is raised, as a function of the cache states of the input
pulses and of the options.

Model: `FFVerif/Model/ConcatLogic.lean` (`concatLogic`, the source followed statement by
statement; cross-checked against the real function on random cache states by
`py/xcheck_concatlogic.py`).  Vocabulary (`Lemmas/ConcatLogicAux.lean`):

* `sel ps`      — the pulses whose cached frequencies are compared when `omega=` is not passed:
                  those with a cached control matrix if there is one, else those with cached
                  frequencies;
* `Agree ps g`  — `equal_omega` of the code, on grid `g`: `sel ps` is not empty and all its pulses
                  have grid `g` cached (`agree_iff` spells it out);
* `BadCache ps` — some pulse has a control matrix cached but `omega = None`;
* `Copied ps o` — the single-pulse shortcut: one pulse and not `Forced`; `General ps o` otherwise
                  (and at least one pulse);
* `Disabled o`  — `calc_filter_function is False and not calc_pulse_correlation_FF`;
  `Auto o`      — `calc_filter_function is None and not calc_pulse_correlation_FF`;
  `Forced o`    — `calc_filter_function` is `True`, or `calc_pulse_correlation_FF`;
* `k.Computed`, `k.PcComputed`, `k.grid?` for a calculation `k : FFKind`; `allTp ps`.

DEVIATIONS of the code from the docstring of `concatenate` found while modelling / proving
(concrete inputs; all reproduced with the real package, see the examples at the end):
 D1  (REPAIRED in the source this model follows.)  Formerly one pulse was deep-copied whatever
     was requested: `concatenate([p], calc_filter_function=True, omega=w)` computed nothing.  Now
     the shortcut is `len(pulses) == 1 and not calc_filter_function and not
     calc_pulse_correlation_FF` — `single_pulse_copied_iff`; `forced_never_silently_skipped`
     holds for all inputs.  What remains: `concatenate([p], omega=w)` (nothing forced) still
     returns a copy without filter function although "If omega is given, calculation of the
     composite filter function is forced" (for two or more pulses it is computed).
 D2  "If any of the instances have a cached filter function, the filter function for the
     composite pulse will also be calculated": what counts is a cached CONTROL MATRIX, and in
     addition (`auto_iff`) (i) a noise operator shared by at least two pulses and (ii) agreeing
     grids of the pulses with a cached control matrix.  Two pulses with control matrices cached on
     the same grid but different noise operators: nothing is computed
     (`[(1,1,0),(1,1,0)]`, `equalNOpers = false`); a pulse with filter function and frequencies
     cached but control matrix removed (`cleanup('greedy')`) does not count either.
 D3  "calc_pulse_correlation_FF … If omega is not given, the cached frequencies of all pulses
     need to be equal": only the frequencies of the pulses with a cached control matrix are
     compared (if there is one); pulses with other or no cached frequencies are ignored:
     `[(1,1,0),(1,0,1)]` is computed on grid 0 (`decision_grid_sound` is the exact statement).
 D4  "calc_filter_function … If True and no pulse has a cached control matrix, a list of
     frequencies must be supplied as omega": not required if some pulse has frequencies cached
     (without control matrix, e.g. after `cleanup('greedy')`, `cache_total_phases` or
     `pulse.omega = w`) and all cached grids agree: `[(1,0,0),(0,0,-)]` with
     `calc_filter_function=True` is computed on grid 0, no error.
 D5  A pulse with a cached control matrix whose frequencies were reset (`pulse.omega = None`, the
     public setter; not reachable through the caching methods and `cleanup`) makes every call
     without `omega=` that is neither `Disabled` nor the single-pulse copy raise `AttributeError` (`None.tobytes()`), also in
     automatic mode and also when nothing would be computed (`error_iff`, `auto_iff`).
 D6  `IndexError` (`np.nonzero(cached_omega)[0][0]` on an all-`False` mask) is NOT reachable: with
     nothing cached `all_array_equal` of the empty generator is `False`, and the function has
     returned or raised `ValueError` before (`no_other_errors`).
 D7  (not a deviation, a remark) with `omega=` passed the atomic path is taken whatever grids the
     cached control matrices belong to; `get_control_matrix(omega)` of each input recomputes when
     its grid differs (`np.array_equal`), which is outside this model.
-/
import FFVerif.Lemmas.ConcatLogicAux

namespace FFVerif.C03d
open FFVerif.Model.ConcatLogic

/-- **Grid soundness.**  Whenever a filter function is computed (any calculation `d.ff` with a
grid `g`), then either `g` is the grid passed as `omega=`, or no grid was passed and: if some input
has a control matrix cached, EVERY input with a cached control matrix has grid `g` cached; if none
has, some input has frequencies cached and every input with cached frequencies has grid `g`.  In
particular a cached control matrix that is reused was computed on the grid of the result.
All inputs (any number of pulses). -/
theorem decision_grid_sound {ps : List PulseState} {o : Opts} {d : Decision} {g : Nat}
    (h : concatLogic ps o = .ok d) (hg : d.ff.grid? = some g) :
    o.omegaGiven = some g ∨
    (o.omegaGiven = none ∧
      (((∃ p ∈ ps, p.cmCached = true) ∧ ∀ p ∈ ps, p.cmCached = true → p.omega = some g) ∨
       ((∀ p ∈ ps, p.cmCached = false) ∧ (∃ p ∈ ps, p.omega.isSome = true) ∧
          ∀ p ∈ ps, p.omega.isSome = true → p.omega = some g))) := by
  have hb := concatLogic_branch ps o
  rw [h] at hb
  cases hb with
  | copied => simp [FFKind.grid?] at hg
  | disabled => simp [FFKind.grid?] at hg
  | disagreeAuto => simp [FFKind.grid?] at hg
  | autoSkip => simp [FFKind.grid?] at hg
  | given g' _ _ hgiv =>
    rw [compute_grid] at hg
    cases hg; exact .inl hgiv
  | agree g' _ _ hnone _ ha _ =>
    rw [compute_grid] at hg
    cases hg; exact .inr ⟨hnone, agree_iff.mp ha⟩

/-- **Forced calculations are never silently skipped** (all inputs, also a single pulse — the
former deviation D1 is repaired): with `calc_filter_function=True` the call raises or a filter
function is computed; with `calc_pulse_correlation_FF=True` the call raises or the pulse
correlation quantities are computed (`fromAtomic g true` or `pcFromScratch g`). -/
theorem forced_never_silently_skipped (ps : List PulseState) (o : Opts) :
    (o.calcFF = some true →
      (∃ e, concatLogic ps o = .error e) ∨ ∃ d, concatLogic ps o = .ok d ∧ d.ff.Computed) ∧
    (o.calcPc = true →
      (∃ e, concatLogic ps o = .error e) ∨ ∃ d, concatLogic ps o = .ok d ∧ d.ff.PcComputed) := by
  have hb := concatLogic_branch ps o
  refine ⟨fun hf => ?_, fun hp => ?_⟩
  · have hF : Forced o := .inl hf
    generalize concatLogic ps o = r at hb
    cases hb with
    | empty => exact .inl ⟨_, rfl⟩
    | copied hc => exact absurd hc (forced_not_copied hF)
    | disabled _ hd => exact absurd hd (forced_not_disabled hF)
    | given g => exact .inr ⟨_, rfl, compute_computed _ _ _⟩
    | bad => exact .inl ⟨_, rfl⟩
    | disagreeForced => exact .inl ⟨_, rfl⟩
    | disagreeAuto _ _ _ _ _ hnf => exact absurd hF hnf
    | autoSkip g _ _ _ _ _ ha => exact absurd hF (auto_not_forced ha)
    | agree g => exact .inr ⟨_, rfl, compute_computed _ _ _⟩
  · have hF : Forced o := .inr hp
    generalize concatLogic ps o = r at hb
    cases hb with
    | empty => exact .inl ⟨_, rfl⟩
    | copied hc => exact absurd hc (forced_not_copied hF)
    | disabled _ hd => exact absurd hd (forced_not_disabled hF)
    | given g => exact .inr ⟨_, rfl, compute_pc _ _ hp⟩
    | bad => exact .inl ⟨_, rfl⟩
    | disagreeForced => exact .inl ⟨_, rfl⟩
    | disagreeAuto _ _ _ _ _ hnf => exact absurd hF hnf
    | autoSkip g _ _ _ _ _ ha => exact absurd hF (auto_not_forced ha)
    | agree g => exact .inr ⟨_, rfl, compute_pc _ _ hp⟩

/-- **One pulse** is deep-copied (outcome: its own total-propagator state, nothing computed,
nothing raised) iff neither a calculation is forced (`calc_filter_function=True`) nor correlations
are requested; otherwise it goes through the general path (`concatGeneral`) like any tuple, so
that by `forced_never_silently_skipped` the call raises or computes. -/
theorem single_pulse_copied_iff (p : PulseState) (o : Opts) :
    (concatLogic [p] o = .ok ⟨p.tpCached, .none⟩ ↔ ¬ (o.calcFF = some true ∨ o.calcPc = true)) ∧
    ((o.calcFF = some true ∨ o.calcPc = true) → concatLogic [p] o = concatGeneral [p] o) := by
  constructor
  · constructor
    · intro h hF
      have hF' : Forced o := hF
      have hfs := forced_never_silently_skipped [p] o
      rcases hF with hf | hp
      · rcases hfs.1 hf with ⟨e, he⟩ | ⟨d, hd, hc⟩
        · rw [h] at he; cases he
        · rw [h] at hd; cases hd; exact hc rfl
      · rcases hfs.2 hp with ⟨e, he⟩ | ⟨d, hd, hc⟩
        · rw [h] at he; cases he
        · rw [h] at hd; cases hd; exact hc
    · intro hF
      have hc : Copied [p] o := ⟨rfl, hF⟩
      rw [concatLogic_eq, if_pos hc, allTp_single]
  · intro hF
    have hc : ¬ Copied [p] o := forced_not_copied (ps := [p]) hF
    rw [concatLogic_eq, if_neg hc]

/-- **Disabled calculations are never performed**: with `calc_filter_function=False` and
`calc_pulse_correlation_FF=False` no filter function is computed and nothing is raised, whatever
is cached (also a control matrix without frequencies) and whether or not `omega=` is passed.  At
least one pulse (for the empty tuple `concatenate_without_filter_function` raises). -/
theorem disabled_never_computed {ps : List PulseState} {o : Opts} (hne : ps ≠ [])
    (hd : o.calcFF = some false ∧ o.calcPc = false) :
    concatLogic ps o = .ok ⟨allTp ps, .none⟩ := by
  have hb := concatLogic_branch ps o
  have hD : Disabled o := hd
  generalize concatLogic ps o = r at hb
  cases hb with
  | empty h => exact absurd h hne
  | copied => rfl
  | disabled => rfl
  | given _ _ h => exact absurd hD h
  | bad _ h => exact absurd hD h
  | disagreeForced _ h => exact absurd hD h
  | disagreeAuto _ h => exact absurd hD h
  | autoSkip _ _ h => exact absurd hD h
  | agree _ _ h => exact absurd hD h

/-- **Automatic mode** (`calc_filter_function=None`, no correlations, no `omega=`), all inputs:
a filter function is computed iff there are at least two pulses (one pulse is deep-copied), the
compared grids agree (`Agree`: the grids of all pulses with a cached control matrix), some noise
operator is shared by two pulses, and some pulse has a control matrix cached.  It is then computed
on the agreed grid.  The docstring only mentions "a cached filter function" (deviation D2).
(For the real code `equal_n_opers` implies two pulses; the conjunct `2 ≤ ps.length` is there
because the model takes the flag as an input, see `auto_iff_of_flag`.) -/
theorem auto_iff {ps : List PulseState} {o : Opts}
    (ha : o.calcFF = none ∧ o.calcPc = false) (hg : o.omegaGiven = none) :
    (∃ d, concatLogic ps o = .ok d ∧ d.ff.Computed) ↔
      2 ≤ ps.length ∧ (∃ g, Agree ps g) ∧ o.equalNOpers = true ∧ ∃ p ∈ ps, p.cmCached = true := by
  have hb := concatLogic_branch ps o
  have hA : Auto o := ha
  generalize hr : concatLogic ps o = r at hb
  constructor
  · rintro ⟨d, hd, hc⟩
    cases hb with
    | empty => cases hd
    | copied => cases hd; exact absurd rfl hc
    | disabled _ h => exact absurd h (auto_not_disabled hA)
    | given g _ _ h => rw [hg] at h; exact absurd h (by simp)
    | bad => cases hd
    | disagreeForced => cases hd
    | disagreeAuto => cases hd; exact absurd rfl hc
    | autoSkip => cases hd; exact absurd rfl hc
    | agree g hG _ _ _ hag hn =>
      have hlen : 2 ≤ ps.length := by
        have h1 : ps.length ≠ 0 := fun h => hG.1 (List.length_eq_zero_iff.mp h)
        have h2 : ps.length ≠ 1 := fun h => hG.2 ⟨h, auto_not_forced hA⟩
        omega
      refine ⟨hlen, ⟨g, hag⟩, ?_⟩
      have : ¬ (o.equalNOpers = false ∨ ps.any (fun p => p.cmCached) = false) :=
        fun h => hn ⟨hA, h⟩
      constructor
      · cases he : o.equalNOpers with
        | true => rfl
        | false => exact absurd (.inl he) this
      · cases hany : ps.any (fun p => p.cmCached) with
        | true => simpa using hany
        | false => exact absurd (.inr hany) this
  · rintro ⟨hlen, ⟨g, hag⟩, hen, p, hp, hpc⟩
    have hany : ps.any (fun p => p.cmCached) = true := List.any_eq_true.mpr ⟨p, hp, hpc⟩
    have hnb := agree_cm_not_bad hag
    cases hb with
    | empty h => subst h; simp at hlen
    | copied h => exact absurd h (two_not_copied hlen)
    | disabled _ h => exact absurd h (auto_not_disabled hA)
    | given g _ _ h => rw [hg] at h; exact absurd h (by simp)
    | bad _ _ _ h => exact absurd h hnb
    | disagreeForced _ _ _ _ h => exact absurd hag (h g)
    | disagreeAuto _ _ _ _ h => exact absurd hag (h g)
    | autoSkip g' _ _ _ _ _ _ h =>
      rcases h with h | h
      · rw [hen] at h; exact absurd h (by decide)
      · rw [hany] at h; exact absurd h (by decide)
    | agree g' => exact ⟨_, rfl, compute_computed _ _ _⟩

/-- `auto_iff` for truthful inputs (`equalNOpers` is `false` for one pulse, as in the real code):
the length condition disappears. -/
theorem auto_iff_of_flag {ps : List PulseState} {o : Opts}
    (ha : o.calcFF = none ∧ o.calcPc = false) (hg : o.omegaGiven = none)
    (hflag : ps.length = 1 → o.equalNOpers = false) :
    (∃ d, concatLogic ps o = .ok d ∧ d.ff.Computed) ↔
      (∃ g, Agree ps g) ∧ o.equalNOpers = true ∧ ∃ p ∈ ps, p.cmCached = true := by
  rw [auto_iff ha hg]
  constructor
  · exact fun h => h.2
  · rintro ⟨h1, h2, p, hp, hpc⟩
    refine ⟨?_, h1, h2, p, hp, hpc⟩
    have h0 : ps.length ≠ 0 := fun h => by
      rw [List.length_eq_zero_iff.mp h] at hp; simp at hp
    have h1' : ps.length ≠ 1 := fun h => by
      rw [hflag h] at h2; exact absurd h2 (by decide)
    omega

/-- In automatic mode (all inputs) the only exceptions are the `ValueError` for the empty tuple
and, for at least two pulses, the `AttributeError` of deviation D5: it is raised iff some pulse has
a control matrix but no frequencies cached.  One pulse is deep-copied and never raises.  In
particular no error for a non-empty tuple with cache states produced by the caching methods
(`¬ BadCache`). -/
theorem auto_error_iff {ps : List PulseState} {o : Opts}
    (ha : o.calcFF = none ∧ o.calcPc = false) (hg : o.omegaGiven = none) {e : Err} :
    concatLogic ps o = .error e ↔
      (ps = [] ∧ e = .valueError) ∨ (2 ≤ ps.length ∧ e = .attributeError ∧ BadCache ps) := by
  have hb := concatLogic_branch ps o
  have hA : Auto o := ha
  have hlen : General ps o → 2 ≤ ps.length := fun hG => by
    have h1 : ps.length ≠ 0 := fun h => hG.1 (List.length_eq_zero_iff.mp h)
    have h2 : ps.length ≠ 1 := fun h => hG.2 ⟨h, auto_not_forced hA⟩
    omega
  have hne : General ps o → ps ≠ [] := fun hG => hG.1
  generalize hr : concatLogic ps o = r at hb
  cases hb with
  | empty h =>
    constructor
    · intro he; cases he; exact .inl ⟨h, rfl⟩
    · rintro (⟨_, rfl⟩ | ⟨h2, _⟩)
      · rfl
      · subst h; simp at h2
  | copied hc =>
    refine ⟨fun he => (by cases he), ?_⟩
    rintro (⟨h, _⟩ | ⟨h2, _⟩)
    · have := hc.1; subst h; simp at this
    · exact absurd hc (two_not_copied h2)
  | disabled _ h => exact absurd h (auto_not_disabled hA)
  | given g _ _ h => rw [hg] at h; exact absurd h (by simp)
  | bad hG _ _ h =>
    constructor
    · intro he; cases he; exact .inr ⟨hlen hG, rfl, h⟩
    · rintro (⟨h1, _⟩ | ⟨_, rfl, _⟩)
      · exact absurd h1 (hne hG)
      · rfl
  | disagreeForced _ _ _ _ _ h => exact absurd h (auto_not_forced hA)
  | disagreeAuto hG _ _ h =>
    refine ⟨fun he => (by cases he), ?_⟩
    rintro (⟨h1, _⟩ | ⟨_, _, h2⟩)
    · exact absurd h1 (hne hG)
    · exact absurd h2 h
  | autoSkip _ hG _ _ h =>
    refine ⟨fun he => (by cases he), ?_⟩
    rintro (⟨h1, _⟩ | ⟨_, _, h2⟩)
    · exact absurd h1 (hne hG)
    · exact absurd h2 h
  | agree _ hG _ _ h =>
    refine ⟨fun he => (by cases he), ?_⟩
    rintro (⟨h1, _⟩ | ⟨_, _, h2⟩)
    · exact absurd h1 (hne hG)
    · exact absurd h2 h

/-- **Which calculation.**  If a filter function is computed on grid `g`, the calculation is
* `fromAtomic g calcPc` iff the basis is complete and (a noise operator is shared or correlations
  are requested);
* `pcFromScratch g` iff the basis is incomplete and correlations are requested;
* `fromScratch g` iff no correlations are requested and (no noise operator is shared or the basis
  is incomplete) — exactly the remaining computing cases;
and it is one of the three.  All inputs. -/
theorem atomic_requires {ps : List PulseState} {o : Opts} {d : Decision} {g : Nat}
    (h : concatLogic ps o = .ok d) (hg : d.ff.grid? = some g) :
    (d.ff = .fromAtomic g o.calcPc ↔
        o.basisComplete = true ∧ (o.equalNOpers = true ∨ o.calcPc = true)) ∧
    (d.ff = .pcFromScratch g ↔ o.basisComplete = false ∧ o.calcPc = true) ∧
    (d.ff = .fromScratch g ↔
        o.calcPc = false ∧ (o.equalNOpers = false ∨ o.basisComplete = false)) ∧
    (d.ff = .fromAtomic g o.calcPc ∨ d.ff = .pcFromScratch g ∨ d.ff = .fromScratch g) := by
  have hb := concatLogic_branch ps o
  rw [h] at hb
  cases hb with
  | copied => simp [FFKind.grid?] at hg
  | disabled => simp [FFKind.grid?] at hg
  | disagreeAuto => simp [FFKind.grid?] at hg
  | autoSkip => simp [FFKind.grid?] at hg
  | given g' =>
    rw [compute_grid] at hg
    cases hg; exact compute_kind _ _ _
  | agree g' =>
    rw [compute_grid] at hg
    cases hg; exact compute_kind _ _ _

/-- the correlation flag of an atomic calculation is the option, whatever the grid -/
theorem atomic_pc_flag {ps : List PulseState} {o : Opts} {d : Decision} {g : Nat} {pc : Bool}
    (h : concatLogic ps o = .ok d) (hk : d.ff = .fromAtomic g pc) : pc = o.calcPc := by
  have hg : d.ff.grid? = some g := by rw [hk]; rfl
  obtain ⟨_, h2, h3, h4⟩ := atomic_requires h hg
  rw [hk] at h2 h3 h4
  rcases h4 with h4 | h4 | h4
  · injection h4 with _ h5
  · cases h4
  · cases h4

/-- **Total propagator.**  `concatenate` itself sets the total propagator of the result iff all
inputs have it cached or the atomic path is taken (there it is set from the inputs' total
propagators, diagonalising them if necessary).  All inputs. -/
theorem tp_set_iff {ps : List PulseState} {o : Opts} {d : Decision}
    (h : concatLogic ps o = .ok d) :
    d.tpSet = true ↔ allTp ps = true ∨ ∃ g pc, d.ff = .fromAtomic g pc := by
  have hb := concatLogic_branch ps o
  rw [h] at hb
  cases hb with
  | copied => simp
  | disabled => simp
  | disagreeAuto => simp
  | autoSkip => simp
  | given g' => exact compute_tpSet _ _ _
  | agree g' => exact compute_tpSet _ _ _

/-- After the call the total propagator of the result is cached (`Decision.tpAfter`: set by
`concatenate`, or by `diagonalize()` inside a from-scratch calculation) iff all inputs had it
cached or a filter function was computed. -/
theorem tp_after_iff {ps : List PulseState} {o : Opts} {d : Decision}
    (h : concatLogic ps o = .ok d) :
    d.tpAfter = true ↔ allTp ps = true ∨ d.ff.Computed := by
  have := tp_set_iff h
  unfold Decision.tpAfter FFKind.Computed
  rw [Bool.or_eq_true, this, bne_iff_ne]
  constructor
  · rintro ((h1 | ⟨g, pc, h1⟩) | h1)
    · exact .inl h1
    · exact .inr (by rw [h1]; simp)
    · exact .inr h1
  · rintro (h1 | h1)
    · exact .inl (.inl h1)
    · exact .inr h1

/-- **Errors, exactly** (all inputs):
* `AttributeError` iff the call does not take the single-pulse shortcut (`Copied`: one pulse and
  nothing forced) and is not `Disabled`, no `omega=` is passed and some pulse has a control matrix
  but no frequencies cached (deviation D5);
* `ValueError` iff the tuple is empty, or: no `omega=` is passed, no pulse is in that state, the
  compared grids do not agree (in particular: nothing cached at all) and a calculation is forced
  (`calc_filter_function=True` or `calc_pulse_correlation_FF=True`). -/
theorem error_iff (ps : List PulseState) (o : Opts) (e : Err) :
    concatLogic ps o = .error e ↔
      (e = .attributeError ∧ ¬ Copied ps o ∧ ¬ Disabled o ∧ o.omegaGiven = none ∧ BadCache ps) ∨
      (e = .valueError ∧ (ps = [] ∨
        (o.omegaGiven = none ∧ ¬ BadCache ps ∧ (∀ g, ¬ Agree ps g) ∧ Forced o))) := by
  have hb := concatLogic_branch ps o
  generalize hr : concatLogic ps o = r at hb
  cases hb with
  | empty h =>
    subst h
    constructor
    · intro he; cases he; exact .inr ⟨rfl, .inl rfl⟩
    · rintro (⟨_, _, _, _, p, hp, _⟩ | ⟨rfl, _⟩)
      · simp at hp
      · rfl
  | copied hc =>
    refine ⟨fun h => (by cases h), ?_⟩
    rintro (⟨_, h, _⟩ | ⟨_, h | ⟨_, _, _, h⟩⟩)
    · exact absurd hc h
    · have := hc.1; subst h; simp at this
    · exact absurd h hc.2
  | disabled hG hd =>
    refine ⟨fun h => (by cases h), ?_⟩
    rintro (⟨_, _, h, _⟩ | ⟨_, h | ⟨_, _, _, h⟩⟩)
    · exact absurd hd h
    · exact absurd h hG.1
    · exact absurd hd (forced_not_disabled h)
  | given g hG _ hg =>
    refine ⟨fun h => (by cases h), ?_⟩
    rintro (⟨_, _, _, h, _⟩ | ⟨_, h | ⟨h, _⟩⟩)
    · rw [hg] at h; exact absurd h (by simp)
    · exact absurd h hG.1
    · rw [hg] at h; exact absurd h (by simp)
  | bad hG hd hg hbad =>
    constructor
    · intro h; cases h; exact .inl ⟨rfl, hG.2, hd, hg, hbad⟩
    · rintro (⟨rfl, _⟩ | ⟨_, h | ⟨_, h, _⟩⟩)
      · rfl
      · exact absurd h hG.1
      · exact absurd hbad h
  | disagreeForced hG hd hg hnb hdis hf =>
    constructor
    · intro h; cases h; exact .inr ⟨rfl, .inr ⟨hg, hnb, hdis, hf⟩⟩
    · rintro (⟨_, _, _, _, h⟩ | ⟨rfl, _⟩)
      · exact absurd h hnb
      · rfl
  | disagreeAuto hG _ _ hnb _ hnf =>
    refine ⟨fun h => (by cases h), ?_⟩
    rintro (⟨_, _, _, _, h⟩ | ⟨_, h | ⟨_, _, _, h⟩⟩)
    · exact absurd h hnb
    · exact absurd h hG.1
    · exact absurd h hnf
  | autoSkip g hG _ _ hnb hag =>
    refine ⟨fun h => (by cases h), ?_⟩
    rintro (⟨_, _, _, _, h⟩ | ⟨_, h | ⟨_, _, h, _⟩⟩)
    · exact absurd h hnb
    · exact absurd h hG.1
    · exact absurd hag (h g)
  | agree g hG _ _ hnb hag =>
    refine ⟨fun h => (by cases h), ?_⟩
    rintro (⟨_, _, _, _, h⟩ | ⟨_, h | ⟨_, _, h, _⟩⟩)
    · exact absurd h hnb
    · exact absurd h hG.1
    · exact absurd hag (h g)

/-- no pulses: `ValueError` (raised by `concatenate_without_filter_function`); one pulse with
nothing forced: never an error -/
theorem error_small (o : Opts) :
    concatLogic [] o = .error .valueError ∧
    ∀ p e, ¬ (o.calcFF = some true ∨ o.calcPc = true) → concatLogic [p] o ≠ .error e := by
  refine ⟨rfl, fun p e hF h => ?_⟩
  rw [((single_pulse_copied_iff p o).1).mpr hF] at h
  cases h

/-- **No other errors**: `ValueError` and `AttributeError` are the only exceptions; the
`IndexError` of `np.nonzero(…)[0][0]` and a calculation with `omega = None` are unreachable
(deviation D6).  For cache states without a control matrix lacking its frequencies only
`ValueError` remains.  All inputs. -/
theorem no_other_errors {ps : List PulseState} {o : Opts} {e : Err}
    (h : concatLogic ps o = .error e) :
    (e = .valueError ∨ e = .attributeError) ∧ (¬ BadCache ps → e = .valueError) := by
  rcases (error_iff ps o e).mp h with ⟨rfl, _, _, _, hb⟩ | ⟨rfl, _⟩
  · exact ⟨.inr rfl, fun hn => absurd hb hn⟩
  · exact ⟨.inl rfl, fun _ => rfl⟩

/-! ### concrete inputs, one per branch of the source (all also run against the real function
by `py/xcheck_concatlogic.py`); pulses are written `⟨tp, cm, omega⟩`, options
`⟨calcPc, calcFF, omegaGiven, equalNOpers, basisComplete⟩` -/

/-- empty tuple -/
example : concatLogic [] ⟨false, none, none, false, true⟩ = .error .valueError := by decide
/-- one pulse, nothing forced (`omega=` alone forces nothing): deep copy -/
example : concatLogic [⟨true, true, some 0⟩] ⟨false, none, some 1, false, true⟩
    = .ok ⟨true, .none⟩ := by decide
/-- one pulse, correlations requested on a passed grid: general path, atomic (former D1) -/
example : concatLogic [⟨false, true, some 0⟩] ⟨true, some true, some 1, false, true⟩
    = .ok ⟨true, .fromAtomic 1 true⟩ := by decide
/-- one pulse, calculation forced, its cached grid is used; no noise operator is shared by two
pulses, so from scratch -/
example : concatLogic [⟨false, true, some 0⟩] ⟨false, some true, none, false, true⟩
    = .ok ⟨false, .fromScratch 0⟩ := by decide
/-- one pulse, correlations requested, nothing cached, no grid passed -/
example : concatLogic [⟨true, false, none⟩] ⟨true, none, none, false, true⟩
    = .error .valueError := by decide
/-- disabled, although `omega=` is passed and control matrices are cached -/
example : concatLogic [⟨true, true, some 0⟩, ⟨true, true, some 0⟩]
    ⟨false, some false, some 1, true, true⟩ = .ok ⟨true, .none⟩ := by decide
/-- D5: control matrix without frequencies, automatic mode, nothing would be computed -/
example : concatLogic [⟨true, true, none⟩, ⟨true, false, some 0⟩]
    ⟨false, none, none, false, true⟩ = .error .attributeError := by decide
/-- forced, grids of the cached control matrices differ -/
example : concatLogic [⟨true, true, some 0⟩, ⟨true, true, some 1⟩]
    ⟨false, some true, none, true, true⟩ = .error .valueError := by decide
/-- correlations requested (`calc_filter_function=False` does not disable them), nothing cached -/
example : concatLogic [⟨true, false, none⟩, ⟨true, false, none⟩]
    ⟨true, some false, none, true, true⟩ = .error .valueError := by decide
/-- automatic mode, grids differ: silently nothing -/
example : concatLogic [⟨true, true, some 0⟩, ⟨true, true, some 1⟩]
    ⟨false, none, none, true, true⟩ = .ok ⟨true, .none⟩ := by decide
/-- D2: automatic mode, control matrices cached on the same grid, no shared noise operator -/
example : concatLogic [⟨true, true, some 0⟩, ⟨true, true, some 0⟩]
    ⟨false, none, none, false, true⟩ = .ok ⟨true, .none⟩ := by decide
/-- automatic mode, only frequencies cached -/
example : concatLogic [⟨true, false, some 0⟩, ⟨true, false, none⟩]
    ⟨false, none, none, true, true⟩ = .ok ⟨true, .none⟩ := by decide
/-- D4: forced, no control matrix cached, frequencies of one pulse are used -/
example : concatLogic [⟨true, false, some 0⟩, ⟨false, false, none⟩]
    ⟨false, some true, none, true, true⟩ = .ok ⟨true, .fromAtomic 0 false⟩ := by decide
/-- D3: correlations, the second pulse has another grid cached but no control matrix -/
example : concatLogic [⟨true, true, some 0⟩, ⟨true, false, some 1⟩]
    ⟨true, none, none, true, true⟩ = .ok ⟨true, .fromAtomic 0 true⟩ := by decide
/-- automatic mode, incomplete basis: from scratch, total propagator not set by `concatenate` -/
example : concatLogic [⟨false, true, some 0⟩, ⟨true, false, none⟩]
    ⟨false, none, none, true, false⟩ = .ok ⟨false, .fromScratch 0⟩ := by decide
/-- correlations with an incomplete basis -/
example : concatLogic [⟨false, true, some 0⟩, ⟨true, false, none⟩]
    ⟨true, none, none, true, false⟩ = .ok ⟨false, .pcFromScratch 0⟩ := by decide
/-- `omega=` passed, nothing cached, no shared noise operator: from scratch on the given grid -/
example : concatLogic [⟨false, false, none⟩, ⟨true, false, none⟩]
    ⟨false, none, some 2, false, true⟩ = .ok ⟨false, .fromScratch 2⟩ := by decide
/-- automatic mode, the standard case: atomic, total propagator set on the way -/
example : concatLogic [⟨false, true, some 0⟩, ⟨true, false, none⟩]
    ⟨false, none, none, true, true⟩ = .ok ⟨true, .fromAtomic 0 false⟩ := by decide

/-- the hypotheses of `auto_iff` and of `decision_grid_sound` are satisfiable: three pulses, two
control matrices on grid 3, a third pulse with grid 5 but no control matrix -/
example : ∃ d, concatLogic [⟨true, true, some 3⟩, ⟨false, false, some 5⟩, ⟨true, true, some 3⟩]
    ⟨false, none, none, true, true⟩ = .ok d ∧ d.ff.grid? = some 3 :=
  ⟨⟨true, .fromAtomic 3 false⟩, by decide, by decide⟩

end FFVerif.C03d
