import FFVerif.Props.C18
import FFVerif.Pins.C07_body_get_control_matrix
import FFVerif.Pins.C07_body_cache_control_matrix
import FFVerif.Pins.C07_body_get_filter_function
import FFVerif.Pins.C07_body_cache_filter_function
import FFVerif.Pins.C07_body_get_pulse_correlation_filter_function
import FFVerif.Pins.C07_body_get_filter_function_derivative
import FFVerif.Pins.C07_body_get_total_phases
import FFVerif.Pins.C07_body_cache_total_phases
import FFVerif.Pins.C07_body_diagonalize
import FFVerif.Pins.C07_body_copy
import FFVerif.Pins.C07_body_deepcopy
import FFVerif.Pins.C07_body_get_pulse_correlation_control_matrix
#print axioms FFVerif.C18.trace_last
#print axioms FFVerif.C18.trace_head
#print axioms FFVerif.C18.trace_ne_nil
#print axioms FFVerif.C18.abort_preserves_Inv
#print axioms FFVerif.C18.abort_then_fresh
#print axioms FFVerif.C18.stepOutcome_mem
#print axioms FFVerif.C18.stepOutcome_Inv
#print axioms FFVerif.C18.runWithFailures_preserves_Inv
#print axioms FFVerif.C18.failures_reachable_Inv
#print axioms FFVerif.C18.failures_then_fresh
#print axioms FFVerif.C18.runWithFailures_done
#print axioms FFVerif.C18.hstep_other_unchanged
#print axioms FFVerif.C18.hstepOutcome_length
#print axioms FFVerif.C18.hstepEvent_preserves
#print axioms FFVerif.C18.heap_failures_Inv
#print axioms FFVerif.C18.heap_failures_then_fresh
#print axioms FFVerif.C18.async_window_not_coherent
#print axioms FFVerif.C18.frame_all_histories
#print axioms FFVerif.C18.frame_violation_witness
#print axioms FFVerif.C18.frame_iff
#print axioms FFVerif.C18.frame_after_return
#print axioms FFVerif.C18.apiCall_all_complete
#print axioms FFVerif.C18.apiCall_ofName
#print axioms FFVerif.C18.declared_frame_safe
#print axioms FFVerif.C18.inPlace_calls
#print axioms FFVerif.C18.never_returned_or_definition
#print axioms FFVerif.C18.api_history_frame
#print axioms FFVerif.C18.api_history_frame_kind
#print axioms FFVerif.C07.body_get_control_matrix
#print axioms FFVerif.C07.body_cache_control_matrix
#print axioms FFVerif.C07.body_get_filter_function
#print axioms FFVerif.C07.body_cache_filter_function
#print axioms FFVerif.C07.body_get_pulse_correlation_filter_function
#print axioms FFVerif.C07.body_get_filter_function_derivative
#print axioms FFVerif.C07.body_get_total_phases
#print axioms FFVerif.C07.body_cache_total_phases
#print axioms FFVerif.C07.body_diagonalize
#print axioms FFVerif.C07.body_copy
#print axioms FFVerif.C07.body_deepcopy
#print axioms FFVerif.C07.body_get_pulse_correlation_control_matrix
