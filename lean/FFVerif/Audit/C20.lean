import FFVerif.Props.C20
import FFVerif.Pins.pinParseArgs
import FFVerif.Pins.pinParseHamiltonian
import FFVerif.Pins.pinParseOperators
import FFVerif.Pins.pinParseSpectrum
import FFVerif.Pins.pinGetIndices
import FFVerif.Pins.pinHashArray
import FFVerif.Pins.pinAllArrayEqual
import FFVerif.Pins.pinConcatenateHamiltonian
#print axioms FFVerif.C20.parse_hamiltonian_valid_never_rejected
#print axioms FFVerif.C20.parse_hamiltonian_rejects_iff
#print axioms FFVerif.C20.parse_hamiltonian_rejected_invalid
#print axioms FFVerif.C20.parse_args_rejected_invalid
#print axioms FFVerif.C20.parse_hamiltonian_rejection_explained
#print axioms FFVerif.C20.parse_hamiltonian_violation_invalid
#print axioms FFVerif.C20.parse_hamiltonian_class_of_corruption
#print axioms FFVerif.C20.parse_hamiltonian_error_class
#print axioms FFVerif.C20.parse_args_valid_never_rejected
#print axioms FFVerif.C20.parse_args_rejects_iff
#print axioms FFVerif.C20.parse_args_rejection_explained
#print axioms FFVerif.C20.parse_args_violation_invalid
#print axioms FFVerif.C20.parse_args_class_of_corruption
#print axioms FFVerif.C20.parse_args_error_class
#print axioms FFVerif.C20.parse_spectrum_valid_never_rejected
#print axioms FFVerif.C20.parse_spectrum_rejects_iff
#print axioms FFVerif.C20.parse_spectrum_error_class
#print axioms FFVerif.C20.identifiers_reject_iff
#print axioms FFVerif.C20.identifiers_valid_never_rejected
#print axioms FFVerif.C20.identifiers_indices_correct
#print axioms FFVerif.C20.options_reject_iff
#print axioms FFVerif.C20.options_valid_never_rejected
#print axioms FFVerif.C20.options_unlisted_accepted
#print axioms FFVerif.C20.basis_ctor_rejects_iff
#print axioms FFVerif.C20.basis_ctor_valid_never_rejected
#print axioms FFVerif.C20.basis_ctor_elems
#print axioms FFVerif.C20.getitem_rejects_iff
#print axioms FFVerif.C20.concat_without_ff_rejects_iff
#print axioms FFVerif.C20.concat_without_ff_valid_never_rejected
#print axioms FFVerif.C20.concat_without_ff_rejection_explained
#print axioms FFVerif.C20.concat_rejects_iff
#print axioms FFVerif.C20.concat_valid_never_rejected
#print axioms FFVerif.C20.concat_error_class
#print axioms FFVerif.C20.concat_single_unchecked
#print axioms FFVerif.C20.concat_periodic_rejects_iff
#print axioms FFVerif.C20.remap_rejects_iff
#print axioms FFVerif.C20.extend_valid_never_rejected
#print axioms FFVerif.C20.extend_rejects_iff
#print axioms FFVerif.C20.extend_rejection_explained
#print axioms FFVerif.C20.extend_error_class
#print axioms FFVerif.C20.extend_shortcut_unchecked
#print axioms FFVerif.C20.pc_availability
#print axioms FFVerif.C20.pc_rejects_iff
#print axioms FFVerif.C20.pc_availability_agrees_with_cache
#print axioms FFVerif.C20.pc_infidelity_identity_component
#print axioms FFVerif.C20.deriv_shape_rejects_iff
#print axioms FFVerif.C20.cumulant_rejects_iff
#print axioms FFVerif.C20.convergence_rejects_iff
#print axioms FFVerif.C20.remap_shape_rejects_iff
#print axioms FFVerif.C20.remap_shape_ok_iff
#print axioms FFVerif.C20.remap_valid_never_rejected
#print axioms FFVerif.C20.remap_rejects_iff_invalid
#print axioms FFVerif.C20.remap_duplicate_mapped_ids_rejected
#print axioms FFVerif.C20.remap_missing_key_rejected
#print axioms FFVerif.C20.remap_error_class
#print axioms FFVerif.C20.extend_class_of_corruption
#print axioms FFVerif.C20.extend_duplicate_mapped_ids_rejected
#print axioms FFVerif.C20.extend_missing_key_rejected
#print axioms FFVerif.C20.extend_own_duplicates_rejected
#print axioms FFVerif.C20.extend_inner_remap_consistent
#print axioms FFVerif.Pins.pinParseArgs
#print axioms FFVerif.Pins.pinParseHamiltonian
#print axioms FFVerif.Pins.pinParseOperators
#print axioms FFVerif.Pins.pinParseSpectrum
#print axioms FFVerif.Pins.pinGetIndices
#print axioms FFVerif.Pins.pinHashArray
#print axioms FFVerif.Pins.pinAllArrayEqual
#print axioms FFVerif.Pins.pinConcatenateHamiltonian
