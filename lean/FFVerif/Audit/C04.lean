import FFVerif.Props.C04
import FFVerif.Pins.pinConcatenatePeriodic
import FFVerif.Pins.C04_periodic_source_shape
#print axioms FFVerif.C04.geom_series_solve
#print axioms FFVerif.C04.fallback_sum
#print axioms FFVerif.C04.periodic_eq_repetition_sum
#print axioms FFVerif.C04.geomSum_toMatrix
#print axioms FFVerif.C04.accumulate_replicate
#print axioms FFVerif.C04.periodicFallback_eq
#print axioms FFVerif.C04.periodicS_eq_geomSum
#print axioms FFVerif.Pins.pinConcatenatePeriodic
#print axioms FFVerif.C04.periodic_source_shape
