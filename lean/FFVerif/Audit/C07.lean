import FFVerif.Props.C07
import FFVerif.Pins.C07_body_get_control_matrix
import FFVerif.Pins.C07_body_cache_control_matrix
import FFVerif.Pins.C07_body_get_filter_function
import FFVerif.Pins.C07_body_cache_filter_function
import FFVerif.Pins.C07_body_get_pulse_correlation_filter_function
import FFVerif.Pins.C07_body_get_filter_function_derivative
import FFVerif.Pins.C07_body_get_total_phases
import FFVerif.Pins.C07_body_cache_total_phases
import FFVerif.Pins.C07_body_diagonalize
import FFVerif.Pins.C07_body_copy
import FFVerif.Pins.C07_body_deepcopy
import FFVerif.Pins.C07_body_get_pulse_correlation_control_matrix
#print axioms FFVerif.C07.cleanup_freq
#print axioms FFVerif.C07.cleanup_conservative
#print axioms FFVerif.C07.cleanup_greedy
#print axioms FFVerif.C07.cleanup_all
#print axioms FFVerif.C07.inv_init
#print axioms FFVerif.C07.inv_cleanup
#print axioms FFVerif.C07.getCM_spec
#print axioms FFVerif.C07.getPhases_spec
#print axioms FFVerif.C07.getFF_spec
#print axioms FFVerif.C07.cacheFFcomputed_spec
#print axioms FFVerif.C07.at_cacheCM
#print axioms FFVerif.C07.at_cacheFFvalue
#print axioms FFVerif.C07.at_cacheFFfromCM
#print axioms FFVerif.C07.deriv_spec
#print axioms FFVerif.C07.decayAmps_spec
#print axioms FFVerif.C07.cumulant_spec
#print axioms FFVerif.C07.step_preserves_Inv
#print axioms FFVerif.C07.reachable_Inv
#print axioms FFVerif.C07.served_value_is_fresh
#print axioms FFVerif.C07.history_independent
#print axioms FFVerif.C07.copies_independent
#print axioms FFVerif.C07.pc_error_iff
#print axioms FFVerif.C07.hstep_preserves
#print axioms FFVerif.C07.heap_reachable_Inv
#print axioms FFVerif.C07.heap_served_fresh
#print axioms FFVerif.C07.body_get_control_matrix
#print axioms FFVerif.C07.body_cache_control_matrix
#print axioms FFVerif.C07.body_get_filter_function
#print axioms FFVerif.C07.body_cache_filter_function
#print axioms FFVerif.C07.body_get_pulse_correlation_filter_function
#print axioms FFVerif.C07.body_get_filter_function_derivative
#print axioms FFVerif.C07.body_get_total_phases
#print axioms FFVerif.C07.body_cache_total_phases
#print axioms FFVerif.C07.body_diagonalize
#print axioms FFVerif.C07.body_copy
#print axioms FFVerif.C07.body_deepcopy
#print axioms FFVerif.C07.body_get_pulse_correlation_control_matrix
