import FFVerif.Props.C14
import FFVerif.Pins.pinFullFromPartial
import FFVerif.Pins.pinExpand
import FFVerif.Pins.pinBasisArrayFinalize
import FFVerif.Pins.C14_basis_source_shape
#print axioms FFVerif.C14.pauli1_orthoHerm
#print axioms FFVerif.C14.pauli1_complete
#print axioms FFVerif.C14.kron_orthoHerm
#print axioms FFVerif.C14.kron_complete
#print axioms FFVerif.C14.complete_of_orthonormal_card
#print axioms FFVerif.C14.pauliBasis_succ_eq_kron
#print axioms FFVerif.C14.pauliBasis_one
#print axioms FFVerif.C14.pauliBasis_orthoHerm
#print axioms FFVerif.C14.pauliBasis_complete
#print axioms FFVerif.C14.pauliBasis_first_is_identity
#print axioms FFVerif.C14.pauliBasis_traceless_rest
#print axioms FFVerif.C14.ggmBasis_orthoHerm
#print axioms FFVerif.C14.ggmBasis_complete
#print axioms FFVerif.C14.ggmBasis_first_is_identity
#print axioms FFVerif.C14.ggmBasis_traceless_rest
#print axioms FFVerif.C14.expansion_is_inverse
#print axioms FFVerif.C14.pauli_expansion_is_inverse
#print axioms FFVerif.C14.expand_real_of_hermitian
#print axioms FFVerif.C14.ggm_index_bijection
#print axioms FFVerif.C14.ggm_count
#print axioms FFVerif.C14.ggmExpand_eq_expand
#print axioms FFVerif.C14.ggmExpand_hermitian
#print axioms FFVerif.C14.ggmExpand_traceless
#print axioms FFVerif.C14.ggm_expansion_is_inverse
#print axioms FFVerif.C14.from_partial_props
#print axioms FFVerif.C14.from_partial_traceless_props
#print axioms FFVerif.C14.fromPartialCombine_props
#print axioms FFVerif.C14.isOrthonormFlag_single
#print axioms FFVerif.C14.isOrthonormFlag_iff
#print axioms FFVerif.C14.isOrthonormFlag_sound
#print axioms FFVerif.C14.isHermFlag_iff
#print axioms FFVerif.C14.isHermFlag_sound
#print axioms FFVerif.C14.isTracelessFlag_sound
#print axioms FFVerif.C14.isTracelessFlag_sound_entries
#print axioms FFVerif.C14.fromPartial_rejects_nonorthonormal
#print axioms FFVerif.C14.fromPartial_rejects_nontraceless
#print axioms FFVerif.C14.fromPartialGate_ok
#print axioms FFVerif.Pins.pinFullFromPartial
#print axioms FFVerif.Pins.pinExpand
#print axioms FFVerif.Pins.pinBasisArrayFinalize
#print axioms FFVerif.C14.basis_source_shape
