import FFVerif.Props.C09
#print axioms FFVerif.C09.fourElementTraces_entries
#print axioms FFVerif.C09.cumulant_general_eq_commutators
#print axioms FFVerif.C09.cumulant_general_model
#print axioms FFVerif.C09.cumulant_single_qubit_eq_general
#print axioms FFVerif.C09.shortcut_needs_pauli_basis
#print axioms FFVerif.C09.second_order_antisymmetric
#print axioms FFVerif.C09.first_order_symmetric
#print axioms FFVerif.C09.K_row_col_zero
#print axioms FFVerif.C09.cumulant_real
#print axioms FFVerif.C09.cumulant_source_shape
