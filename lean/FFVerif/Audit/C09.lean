import FFVerif.Props.C09
import FFVerif.Pins.pinBasisArrayFinalize
import FFVerif.Pins.pinFourElementTraces
import FFVerif.Pins.pinErrorTransferMatrix
import FFVerif.Pins.C09_cumulant_source_shape
#print axioms FFVerif.C09.fourElementTraces_entries
#print axioms FFVerif.C09.cumulant_general_eq_commutators
#print axioms FFVerif.C09.cumulant_general_model
#print axioms FFVerif.C09.cumulant_single_qubit_eq_general
#print axioms FFVerif.C09.shortcut_needs_pauli_basis
#print axioms FFVerif.C09.second_order_antisymmetric
#print axioms FFVerif.C09.first_order_symmetric
#print axioms FFVerif.C09.K_row_col_zero
#print axioms FFVerif.C09.cumulant_real
#print axioms FFVerif.Pins.pinBasisArrayFinalize
#print axioms FFVerif.Pins.pinFourElementTraces
#print axioms FFVerif.Pins.pinErrorTransferMatrix
#print axioms FFVerif.C09.cumulant_source_shape
