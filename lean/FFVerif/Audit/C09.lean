import FFVerif.Props.C09
import FFVerif.Props.C09Exp
import FFVerif.Props.C09cCP
import FFVerif.Props.C09EtmCP
import FFVerif.Props.C09EtmCPLiou
import FFVerif.Props.C09EtmChoi
import FFVerif.Props.C10Shifts
import FFVerif.Props.C09EtmFn
import FFVerif.Props.C09EtmFnShapes
import FFVerif.Props.C09EtmFnCross
import FFVerif.Pins.pinBasisArrayFinalize
import FFVerif.Pins.pinFourElementTraces
import FFVerif.Pins.pinErrorTransferMatrix
import FFVerif.Pins.C09_cumulant_source_shape
#print axioms FFVerif.C09.fourElementTraces_entries
#print axioms FFVerif.C09.cumulant_general_eq_commutators
#print axioms FFVerif.C09.cumulant_general_model
#print axioms FFVerif.C09.cumulant_single_qubit_eq_general
#print axioms FFVerif.C09.shortcut_needs_pauli_basis
#print axioms FFVerif.C09.second_order_antisymmetric
#print axioms FFVerif.C09.first_order_symmetric
#print axioms FFVerif.C09.K_row_col_zero
#print axioms FFVerif.C09.cumulant_real
#print axioms FFVerif.C09.pow_row_col_zero
#print axioms FFVerif.C09.sum_row_col_zero
#print axioms FFVerif.C09.exp_row_col_unit
#print axioms FFVerif.C09.K_row_col_zero_opt
#print axioms FFVerif.C09.etm_trace_preserving_unital
#print axioms FFVerif.C09.etm_sum_trace_preserving_unital
#print axioms FFVerif.C09.etm_real_sum_trace_preserving_unital
#print axioms FFVerif.C09.trace_preserving_iff_row
#print axioms FFVerif.C09.unital_iff_col
#print axioms FFVerif.C09.verdict_of_posSemidef
#print axioms FFVerif.C09.verdict_false_of_eigenvalue
#print axioms FFVerif.C09.choi_of_linear_map
#print axioms FFVerif.C09.gks_generator_cCP
#print axioms FFVerif.C09.lindblad_eq_gks
#print axioms FFVerif.C09.lindblad_generator_cCP
#print axioms FFVerif.C09.lindblad_cCP_verdict
#print axioms FFVerif.C09.symmetrised_posSemidef
#print axioms FFVerif.C09.cumulant_first_order_cCP
#print axioms FFVerif.C09.cumulant_first_order_cCP_verdict
#print axioms FFVerif.C09.second_order_unitary_part
#print axioms FFVerif.C09.second_order_projected_choi_zero
#print axioms FFVerif.C09.second_order_same_projected_choi
#print axioms FFVerif.C09.cumulant_second_order_cCP
#print axioms FFVerif.C09.cCP_necessary_transition_rates
#print axioms FFVerif.C09.negative_rate_not_cCP
#print axioms FFVerif.C09.cumulant_nonpsd_not_cCP
#print axioms FFVerif.C09.isEigvals_of_isEigh
#print axioms FFVerif.C09.exists_eigenvalue_le_diag
#print axioms FFVerif.C09.verdict_false_of_diag
#print axioms FFVerif.C09.cCP_test_rejects_negative_rate
#print axioms FFVerif.Spec.norm_pow_sub_pow_le
#print axioms FFVerif.Spec.norm_exp_le
#print axioms FFVerif.Spec.norm_exp_sub_one_sub_le
#print axioms FFVerif.Spec.tendsto_pow_exp
#print axioms FFVerif.Spec.tendsto_pow_exp_matrix
#print axioms FFVerif.Spec.exp_mem_cone_of_gks
#print axioms FFVerif.C09.exp_gks_generator_cp
#print axioms FFVerif.C09.exp_lindblad_cp
#print axioms FFVerif.C09.cumulant_general_opt
#print axioms FFVerif.C09.exp_cumulant_cp
#print axioms FFVerif.C09.etm_completely_positive
#print axioms FFVerif.C09.K1_finset_sum
#print axioms FFVerif.C09.K2_finset_sum
#print axioms FFVerif.C09.etm_sum_completely_positive
#print axioms FFVerif.C09.cpCone_isCPLiou
#print axioms FFVerif.C09.etm_isCPLiou
#print axioms FFVerif.C09.etm_sum_isCPLiou
#print axioms FFVerif.Spec.exists_kraus
#print axioms FFVerif.Spec.cpCone_isCPChoi
#print axioms FFVerif.C09.choi_cone
#print axioms FFVerif.C09.choi_posSemidef_iff_kraus
#print axioms FFVerif.C09.etm_choi_posSemidef
#print axioms FFVerif.C09.etm_sum_choi_posSemidef
#print axioms FFVerif.C09.exp_map_ofReal
#print axioms FFVerif.C09.etm_real_sum_choi_posSemidef
#print axioms FFVerif.C09.etm_CP_verdict
#print axioms FFVerif.C09.exp_lindblad_choi_posSemidef
#print axioms FFVerif.C10.cumulant_uses_antisymmetric_part
#print axioms FFVerif.C10.cumulant_single_qubit_uses_antisymmetric_part
#print axioms FFVerif.C10.cumulant_second_order_from_antisymmetric_part
#print axioms FFVerif.C10.frequency_shifts_hermitian_part
#print axioms FFVerif.C10.frequency_shifts_symmetric_part
#print axioms FFVerif.C09.shortcutTaken_iff
#print axioms FFVerif.C09.cumulant_branch_selection
#print axioms FFVerif.C09.etmFn_arg_is_sum_of_cumulants
#print axioms FFVerif.C09.etmFn_modes_agree
#print axioms FFVerif.C09.cumulantFromPulse_ok
#print axioms FFVerif.C09.etmFn_rejects_iff
#print axioms FFVerif.C09.error_transfer_matrix_physical
#print axioms FFVerif.C09.etmFn_arg_is_sum_of_cumulants_single
#print axioms FFVerif.C09.etmFn_arg_is_sum_of_cumulants_cross
#print axioms FFVerif.C09.etm_physical_of_sum
#print axioms FFVerif.C09.error_transfer_matrix_physical_single
#print axioms FFVerif.C09.error_transfer_matrix_physical_cross
#print axioms FFVerif.C09.cumulantFunction_rejects_iff
#print axioms FFVerif.C09.decay_amplitudes_posSemidef
#print axioms FFVerif.C09.summed_decay_amplitudes_posSemidef
#print axioms FFVerif.C09.error_transfer_matrix_physical_of_nonneg_spectrum
#print axioms FFVerif.C09.error_transfer_matrix_physical_of_nonneg_spectrum_single
#print axioms FFVerif.C09.cross_integrand_posSemidef
#print axioms FFVerif.C09.summed_decay_amplitudes3_posSemidef
#print axioms FFVerif.C09.summed_decay_amplitudes_posSemidef_cross
#print axioms FFVerif.C09.error_transfer_matrix_physical_of_psd_cross_spectrum
#print axioms FFVerif.Model.EtmFn.trapz_matrix_posSemidef
#print axioms FFVerif.Model.EtmFn.crossBlock_posSemidef
#print axioms FFVerif.Pins.pinBasisArrayFinalize
#print axioms FFVerif.Pins.pinFourElementTraces
#print axioms FFVerif.Pins.pinErrorTransferMatrix
#print axioms FFVerif.C09.cumulant_source_shape
