import FFVerif.Props.C08
import FFVerif.Props.C08Inv
import FFVerif.Pins.pinIntegrate
import FFVerif.Pins.pinIdentityElementIndex
import FFVerif.Pins.C08_infidelity_source_shape
#print axioms FFVerif.C08.integrate_spec
#print axioms FFVerif.C08.integrate_linear
#print axioms FFVerif.C08.integrate_nonneg
#print axioms FFVerif.C08.decay_amplitudes_entries
#print axioms FFVerif.C08.gammaEntry_eq
#print axioms FFVerif.C08.decay_amplitudes_parsimonious
#print axioms FFVerif.C08.single_spectrum_is_broadcast
#print axioms FFVerif.C08.subset_is_slice
#print axioms FFVerif.C08.trace_tensor_completeness
#print axioms FFVerif.C08.neg_trace_cumulant
#print axioms FFVerif.C08.infidelity_eq_neg_trace_cumulant
#print axioms FFVerif.C08.infidelity_traceless_branch
#print axioms FFVerif.C08.total_infidelity_nonneg
#print axioms FFVerif.C08.pulse_correlations_sum_to_total
#print axioms FFVerif.C08.infidelity_congr_cm
#print axioms FFVerif.C08.infidelity_lipschitz_cm
#print axioms FFVerif.C08.absIntegral_is_integrate
#print axioms FFVerif.C08.infidelity_scaling_law
#print axioms FFVerif.C08.infidelity_perm_opers
#print axioms FFVerif.C08.infidelity_perm_opers_entries
#print axioms FFVerif.C08.infidelity_traceless_noise_opers
#print axioms FFVerif.C08.infidelity_branches_agree
#print axioms FFVerif.Pins.pinIntegrate
#print axioms FFVerif.Pins.pinIdentityElementIndex
#print axioms FFVerif.C08.infidelity_source_shape
