import FFVerif.Props.C08
import FFVerif.Props.C08Inv
import FFVerif.Props.C08Integrand
import FFVerif.Props.C09EtmFnShapes
import FFVerif.Pins.pinIntegrate
import FFVerif.Pins.pinIdentityElementIndex
import FFVerif.Pins.C08_infidelity_source_shape
import FFVerif.Pins.pinGetIntegrand
#print axioms FFVerif.C08.integrate_spec
#print axioms FFVerif.C08.integrate_linear
#print axioms FFVerif.C08.integrate_nonneg
#print axioms FFVerif.C08.decay_amplitudes_entries
#print axioms FFVerif.C08.gammaEntry_eq
#print axioms FFVerif.C08.decay_amplitudes_parsimonious
#print axioms FFVerif.C08.single_spectrum_is_broadcast
#print axioms FFVerif.C08.subset_is_slice
#print axioms FFVerif.C08.trace_tensor_completeness
#print axioms FFVerif.C08.neg_trace_cumulant
#print axioms FFVerif.C08.infidelity_eq_neg_trace_cumulant
#print axioms FFVerif.C08.infidelity_traceless_branch
#print axioms FFVerif.C08.total_infidelity_nonneg
#print axioms FFVerif.C08.pulse_correlations_sum_to_total
#print axioms FFVerif.C08.infidelity_congr_cm
#print axioms FFVerif.C08.infidelity_lipschitz_cm
#print axioms FFVerif.C08.absIntegral_is_integrate
#print axioms FFVerif.C08.infidelity_scaling_law
#print axioms FFVerif.C08.infidelity_perm_opers
#print axioms FFVerif.C08.infidelity_perm_opers_entries
#print axioms FFVerif.C08.infidelity_traceless_noise_opers
#print axioms FFVerif.C08.infidelity_branches_agree
#print axioms FFVerif.C09.decay_amplitudes_posSemidef
#print axioms FFVerif.C09.summed_decay_amplitudes_posSemidef
#print axioms FFVerif.C08Integrand.integrand_entries_cm_total
#print axioms FFVerif.C08Integrand.integrand_entries_cm_correlations_fidelity
#print axioms FFVerif.C08Integrand.integrand_entries_cm_correlations_generalized
#print axioms FFVerif.C08Integrand.integrand_entries_ff_total
#print axioms FFVerif.C08Integrand.integrand_entries_ff_correlations
#print axioms FFVerif.C08Integrand.filter_function_entries
#print axioms FFVerif.C08Integrand.single_spectrum_is_broadcast
#print axioms FFVerif.C08Integrand.integrand_ff_path_eq_cm_path
#print axioms FFVerif.C08Integrand.getIntegrand_ff_path_eq_cm_path
#print axioms FFVerif.C08Integrand.integrand_ff_slice_eq_cm_pair
#print axioms FFVerif.C08Integrand.decay_amplitudes_path_independent
#print axioms FFVerif.C08Integrand.decay_amplitudes_correlations_path_independent
#print axioms FFVerif.C08Integrand.decay_amplitudes_correlations_entries
#print axioms FFVerif.C08Integrand.infidelity_path_independent
#print axioms FFVerif.C08Integrand.infidelityFromCM_eq_cm_path
#print axioms FFVerif.C08Integrand.integrand_correlations_sum_to_total
#print axioms FFVerif.C08Integrand.integrand_ff_correlations_sum_to_total
#print axioms FFVerif.C08Integrand.decay_amplitudes_correlations_sum_to_total
#print axioms FFVerif.C08Integrand.integrand_shape_documented
#print axioms FFVerif.C08Integrand.integrand_rejects_iff
#print axioms FFVerif.C08Integrand.index_check_iff
#print axioms FFVerif.C08Integrand.frequency_axes_rejected_iff
#print axioms FFVerif.C08Integrand.integrand_neither_source
#print axioms FFVerif.C08Integrand.integrand_both_sources_fidelity
#print axioms FFVerif.C08Integrand.einsum_strings
#print axioms FFVerif.Pins.pinIntegrate
#print axioms FFVerif.Pins.pinIdentityElementIndex
#print axioms FFVerif.C08.infidelity_source_shape
#print axioms FFVerif.Pins.pinGetIntegrand
