import FFVerif.Props.C12
import FFVerif.Pins.pinIdentityElementIndex
import FFVerif.Pins.pinGgmExpand
#print axioms FFVerif.C12.cm_energy_offset
#print axioms FFVerif.C12.ff_energy_offset
#print axioms FFVerif.C12.cm_basis_change
#print axioms FFVerif.C12.basisMix_spec
#print axioms FFVerif.C12.ff_basis_independent
#print axioms FFVerif.C12.ff_basis_independent_real
#print axioms FFVerif.C12.cm_frame_covariance
#print axioms FFVerif.C12.ff_frame_independent
#print axioms FFVerif.Pins.pinIdentityElementIndex
#print axioms FFVerif.Pins.pinGgmExpand
