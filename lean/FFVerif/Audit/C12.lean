import FFVerif.Props.C12
import FFVerif.Props.C08Inv
import FFVerif.Props.C12Etm
import FFVerif.Props.C10Shifts
import FFVerif.Props.C12Frame
import FFVerif.Pins.pinIdentityElementIndex
import FFVerif.Pins.pinGgmExpand
#print axioms FFVerif.C12.cm_energy_offset
#print axioms FFVerif.C12.ff_energy_offset
#print axioms FFVerif.C12.cm_basis_change
#print axioms FFVerif.C12.basisMix_spec
#print axioms FFVerif.C12.ff_basis_independent
#print axioms FFVerif.C12.ff_basis_independent_real
#print axioms FFVerif.C12.cm_frame_covariance
#print axioms FFVerif.C12.ff_frame_independent
#print axioms FFVerif.C08.infidelity_energy_offset
#print axioms FFVerif.C08.infidelity_frame_independent
#print axioms FFVerif.C08.infidelity_frame_independent'
#print axioms FFVerif.C08.frame_identity_element
#print axioms FFVerif.C08.infidelity_basis_independent
#print axioms FFVerif.C08.infidelity_basis_change_traceless
#print axioms FFVerif.C08.infidelity_basis_independent_traceless
#print axioms FFVerif.C08.infidelity_branches_agree
#print axioms FFVerif.C12.toComplexMat_toMatrix
#print axioms FFVerif.C12.fn_toComplexMat
#print axioms FFVerif.C12.basis_transition_orthogonal
#print axioms FFVerif.C12.basisTransition_reorder
#print axioms FFVerif.C12.cm_basis_change_real
#print axioms FFVerif.C12.decay_amplitudes_basis_change
#print axioms FFVerif.C12.decay_amplitudes_basis_change_matrix
#print axioms FFVerif.C12.cumulant_basis_change_of_mix
#print axioms FFVerif.C12.cumulant_basis_change_of_mix_opt
#print axioms FFVerif.C12.cumulant_basis_change
#print axioms FFVerif.C12.cumulant_single_qubit_basis_change
#print axioms FFVerif.C12.etm_basis_change
#print axioms FFVerif.C12.etm_sum_basis_change
#print axioms FFVerif.C12.process_fidelity_basis_independent
#print axioms FFVerif.C12.cumulant_trace_basis_independent
#print axioms FFVerif.C12.infidelity_eq_neg_trace_model_cumulant
#print axioms FFVerif.C12.etm_basis_change_from_scratch
#print axioms FFVerif.C12.secondOrderFF_energy_offset
#print axioms FFVerif.C12.secondOrderFF_frame_covariance
#print axioms FFVerif.C12.frequency_shifts_energy_offset
#print axioms FFVerif.C12.frequency_shifts_frame_independent
#print axioms FFVerif.C12.cm_frame_covariance_array
#print axioms FFVerif.C12.cm_energy_offset_array
#print axioms FFVerif.C12.secondOrderFF_frame_covariance_array
#print axioms FFVerif.C12.secondOrderFF_energy_offset_array
#print axioms FFVerif.C12.fourElementTraces_frame_invariant
#print axioms FFVerif.C12.commutator_traces_frame_invariant
#print axioms FFVerif.C12.cumulant_frame_invariant
#print axioms FFVerif.C12.cumulant_single_qubit_frame
#print axioms FFVerif.C12.etm_frame_invariant
#print axioms FFVerif.C12.etm_energy_offset
#print axioms FFVerif.C10.secondOrderFF_loop_basis_change
#print axioms FFVerif.C10.secondOrderFF_basis_change_of_mix
#print axioms FFVerif.C10.secondOrderFF_basis_change
#print axioms FFVerif.C10.frequency_shifts_basis_change
#print axioms FFVerif.C10.frequency_shifts_basis_change_matrix
#print axioms FFVerif.C10.frequency_shifts_basis_change_from_scratch
#print axioms FFVerif.C10.etm_basis_change_second_order_from_scratch
#print axioms FFVerif.Pins.pinIdentityElementIndex
#print axioms FFVerif.Pins.pinGgmExpand
