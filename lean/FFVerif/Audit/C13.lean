import FFVerif.Props.C13
import FFVerif.Props.C08Inv
import FFVerif.Props.C13Prop
import FFVerif.Props.C01Unique
import FFVerif.Props.C13Second
import FFVerif.Props.C13SecondShifts
import FFVerif.Props.C13SecondRefine
import FFVerif.Props.C10Unique
import FFVerif.Pins.pinControlMatrixFromScratch
import FFVerif.Pins.pinDiagonalize
#print axioms FFVerif.C13.segIntegral_split
#print axioms FFVerif.C13.firstOrderEntry_split
#print axioms FFVerif.C13.firstOrderEntry_split_error
#print axioms FFVerif.C13.firstOrderMask_scale
#print axioms FFVerif.C13.firstOrderEntry_scale
#print axioms FFVerif.C13.scale_current
#print axioms FFVerif.C13.absGt_not_scale_covariant
#print axioms FFVerif.C13.cm_scale
#print axioms FFVerif.C13.ff_smul_real
#print axioms FFVerif.C13.ff_scale
#print axioms FFVerif.C13.cm_linear_opers
#print axioms FFVerif.C13.cm_linear_opers_data
#print axioms FFVerif.C13.cm_linear_coeffs
#print axioms FFVerif.C13.cm_linear_coeffs_data
#print axioms FFVerif.C13.cm_zero_dt_segment
#print axioms FFVerif.C13.cm_drop_zero_segments
#print axioms FFVerif.C13.cm_perm_opers
#print axioms FFVerif.C13.ff_perm_opers
#print axioms FFVerif.C13.cm_split_segment_defect
#print axioms FFVerif.C13.cm_split_segment
#print axioms FFVerif.C13.cm_split_segment_error
#print axioms FFVerif.C13.isSegmentCut_exists
#print axioms FFVerif.C08.infidelity_split_segment
#print axioms FFVerif.C08.infidelity_split_segment_error
#print axioms FFVerif.C08.infidelity_zero_dt_segment
#print axioms FFVerif.C08.infidelity_drop_zero_segments
#print axioms FFVerif.C08.infidelity_perm_opers
#print axioms FFVerif.C08.infidelity_perm_opers_entries
#print axioms FFVerif.C08.infidelity_time_unit
#print axioms FFVerif.C08.infidelity_time_unit_fixed_coeffs
#print axioms FFVerif.C08.infidelity_scaling_law
#print axioms FFVerif.C13.segment_propagator_unique
#print axioms FFVerif.C13.piecewise_unique
#print axioms FFVerif.C13.propagators_unique
#print axioms FFVerif.C13.hamiltonian_reindex_opers
#print axioms FFVerif.C13.hamiltonian_perm_opers
#print axioms FFVerif.C13.hamiltonian_zero_amplitude_oper
#print axioms FFVerif.C13.hamiltonian_segment_reindex
#print axioms FFVerif.C13.propagators_split_segment
#print axioms FFVerif.C13.isSplit_exists
#print axioms FFVerif.C13.times_split_segment
#print axioms FFVerif.C13.propagators_zero_dt_segment
#print axioms FFVerif.C13.isZeroInsert_exists
#print axioms FFVerif.C13.times_zero_dt_segment
#print axioms FFVerif.C13.propagators_merge_equal
#print axioms FFVerif.C13.propagators_refine
#print axioms FFVerif.C13.propagators_refine_inner
#print axioms FFVerif.C13.total_propagator_refine
#print axioms FFVerif.C13.eigh_contract_time_unit
#print axioms FFVerif.C13.hamiltonian_time_unit
#print axioms FFVerif.C13.propagators_time_unit
#print axioms FFVerif.C13.propagators_time_unit_eigh
#print axioms FFVerif.C13.times_time_unit
#print axioms FFVerif.C13.tau_time_unit
#print axioms FFVerif.C13.total_propagator_time_unit
#print axioms FFVerif.C13.total_propagator_invariant
#print axioms FFVerif.C13.isSegmentCut_of_model
#print axioms FFVerif.C13.secondOrderEntry_scale
#print axioms FFVerif.C13.secondOrder_masks_scale
#print axioms FFVerif.C13.secondOrder_time_unit_of_guard
#print axioms FFVerif.C13.firstOrderEntry_neZero_scale
#print axioms FFVerif.C13.secondOrder_time_unit
#print axioms FFVerif.C13.secondOrder_time_unit_neZero
#print axioms FFVerif.C13.secondOrder_drop_zero_segments
#print axioms FFVerif.C13.secondOrder_zero_dt_segment
#print axioms FFVerif.C13.secondOrder_zero_dt_segment_congr
#print axioms FFVerif.C13.secondOrder_perm_opers
#print axioms FFVerif.C13.secondOrder_perm_basis
#print axioms FFVerif.C13.secondOrder_split_segment_of_exact
#print axioms FFVerif.C13.secondOrder_split_segment
#print axioms FFVerif.C13.secondOrder_split_segment_masks
#print axioms FFVerif.C13.isCutData_exists
#print axioms FFVerif.C13.secondOrder_split_segment_model
#print axioms FFVerif.C13.secondOrder_merge_equal
#print axioms FFVerif.C13.secondOrder_coeffs_factor
#print axioms FFVerif.C13.secondOrder_scale_coeffs
#print axioms FFVerif.C13.secondOrder_linear_coeffs_left
#print axioms FFVerif.C13.secondOrder_linear_coeffs_right
#print axioms FFVerif.C13.secondOrder_linear_opers_right
#print axioms FFVerif.C13.secondOrder_linear_opers_left
#print axioms FFVerif.C13.shiftEntry_rescale
#print axioms FFVerif.C13.frequency_shifts_rescale
#print axioms FFVerif.C13.frequency_shifts_time_unit
#print axioms FFVerif.C13.frequency_shifts_time_unit_coeffs
#print axioms FFVerif.C13.frequency_shifts_split_segment
#print axioms FFVerif.C13.frequency_shifts_zero_dt_segment
#print axioms FFVerif.C13.secondOrder_refine
#print axioms FFVerif.C10.secondOrderFF_eigh_independent
#print axioms FFVerif.C01.cm_eigh_independent
#print axioms FFVerif.C01.cm_eigh_independent_diagonalize
#print axioms FFVerif.C01.ff_eigh_independent
#print axioms FFVerif.C01.infidelity_eigh_independent
#print axioms FFVerif.Pins.pinControlMatrixFromScratch
#print axioms FFVerif.Pins.pinDiagonalize
