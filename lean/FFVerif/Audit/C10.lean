import FFVerif.Props.C10
import FFVerif.Props.C10Asm
import FFVerif.Props.C07
import FFVerif.Pins.pinFrequencyShifts
import FFVerif.Pins.C10_secondOrder_source_shape
import FFVerif.Pins.C10_secondOrderFF_source_shape
import FFVerif.Pins.C07_body_cache_filter_function
import FFVerif.Pins.C07_body_get_filter_function
import FFVerif.Pins.C07_body_get_control_matrix
#print axioms FFVerif.C10.nested_global
#print axioms FFVerif.C10.secondOrderEntry_unfold
#print axioms FFVerif.C10.secondOrder_case1
#print axioms FFVerif.C10.secondOrder_case2
#print axioms FFVerif.C10.secondOrder_case3
#print axioms FFVerif.C10.secondOrderEntry_eq_nested
#print axioms FFVerif.C10.secondOrderIntegral_eq_nested
#print axioms FFVerif.C10.case1_to_case2_bound
#print axioms FFVerif.C10.case1_to_case2_limit
#print axioms FFVerif.C10.case1_case2_forms
#print axioms FFVerif.C10.nested_integral_swap
#print axioms FFVerif.C10.nested_add_swap
#print axioms FFVerif.C10.nested_conj
#print axioms FFVerif.C10.ff2_plus_adjoint
#print axioms FFVerif.C10.secondOrderEntry_plus_adjoint
#print axioms FFVerif.C10.secondOrderFF_entry
#print axioms FFVerif.C10.secondOrderFF_plus_adjoint_of_segments
#print axioms FFVerif.C10.secondOrderStep_plus_adjoint
#print axioms FFVerif.C10.secondOrderFF_plus_adjoint
#print axioms FFVerif.C10.secondOrderFFFromScratch_plus_adjoint
#print axioms FFVerif.C07.cleanup_freq
#print axioms FFVerif.C07.getFF_spec
#print axioms FFVerif.C07.served_value_is_fresh
#print axioms FFVerif.Pins.pinFrequencyShifts
#print axioms FFVerif.C10.secondOrder_source_shape
#print axioms FFVerif.C10.secondOrderFF_source_shape
#print axioms FFVerif.C07.body_cache_filter_function
#print axioms FFVerif.C07.body_get_filter_function
#print axioms FFVerif.C07.body_get_control_matrix
