import FFVerif.Props.C10
import FFVerif.Props.C10Asm
import FFVerif.Props.C07
import FFVerif.Props.C10Shifts
import FFVerif.Props.C10Unique
import FFVerif.Pins.pinFrequencyShifts
import FFVerif.Pins.C10_secondOrder_source_shape
import FFVerif.Pins.C10_secondOrderFF_source_shape
import FFVerif.Pins.C07_body_cache_filter_function
import FFVerif.Pins.C07_body_get_filter_function
import FFVerif.Pins.C07_body_get_control_matrix
#print axioms FFVerif.C10.nested_global
#print axioms FFVerif.C10.secondOrderEntry_unfold
#print axioms FFVerif.C10.secondOrder_case1
#print axioms FFVerif.C10.secondOrder_case2
#print axioms FFVerif.C10.secondOrder_case3
#print axioms FFVerif.C10.secondOrderEntry_eq_nested
#print axioms FFVerif.C10.secondOrderIntegral_eq_nested
#print axioms FFVerif.C10.case1_to_case2_bound
#print axioms FFVerif.C10.case1_to_case2_limit
#print axioms FFVerif.C10.case1_case2_forms
#print axioms FFVerif.C10.nested_integral_swap
#print axioms FFVerif.C10.nested_add_swap
#print axioms FFVerif.C10.nested_conj
#print axioms FFVerif.C10.ff2_plus_adjoint
#print axioms FFVerif.C10.secondOrderEntry_plus_adjoint
#print axioms FFVerif.C10.secondOrderFF_entry
#print axioms FFVerif.C10.secondOrderFF_plus_adjoint_of_segments
#print axioms FFVerif.C10.secondOrderStep_plus_adjoint
#print axioms FFVerif.C10.secondOrderFF_plus_adjoint
#print axioms FFVerif.C10.secondOrderFFFromScratch_plus_adjoint
#print axioms FFVerif.C07.cleanup_freq
#print axioms FFVerif.C07.getFF_spec
#print axioms FFVerif.C07.served_value_is_fresh
#print axioms FFVerif.C10.so_segment_eigh_independent
#print axioms FFVerif.C10.secondOrderFF_eigh_independent
#print axioms FFVerif.C10.frequency_shifts_entries
#print axioms FFVerif.C10.frequency_shifts_single_spectrum_is_broadcast
#print axioms FFVerif.C10.frequency_shifts_subset_is_slice
#print axioms FFVerif.C10.frequency_shifts_linear_in_spectrum
#print axioms FFVerif.C10.frequency_shifts_congr_intermediates
#print axioms FFVerif.C10.frequency_shifts_congr
#print axioms FFVerif.C10.frequency_shifts_intermediates_reused
#print axioms FFVerif.C10.secondOrderFF_loop_basis_change
#print axioms FFVerif.C10.secondOrderFF_basis_change_of_mix
#print axioms FFVerif.C10.secondOrderFF_basis_change
#print axioms FFVerif.C10.frequency_shifts_basis_change
#print axioms FFVerif.C10.frequency_shifts_basis_change_matrix
#print axioms FFVerif.C10.frequency_shifts_basis_change_from_scratch
#print axioms FFVerif.C10.etm_basis_change_second_order_from_scratch
#print axioms FFVerif.C10.frequency_shifts_hermitian_part
#print axioms FFVerif.C10.frequency_shifts_hermitian_part_from_scratch
#print axioms FFVerif.C10.frequency_shifts_symmetric_part
#print axioms FFVerif.C10.cumulant_uses_antisymmetric_part
#print axioms FFVerif.C10.cumulant_single_qubit_uses_antisymmetric_part
#print axioms FFVerif.C10.cumulant_second_order_from_antisymmetric_part
#print axioms FFVerif.Pins.pinFrequencyShifts
#print axioms FFVerif.C10.secondOrder_source_shape
#print axioms FFVerif.C10.secondOrderFF_source_shape
#print axioms FFVerif.C07.body_cache_filter_function
#print axioms FFVerif.C07.body_get_filter_function
#print axioms FFVerif.C07.body_get_control_matrix
