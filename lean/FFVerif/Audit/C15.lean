import FFVerif.Props.C15
import FFVerif.Pins.pinGgmExpand
import FFVerif.Pins.C15_superop_source_shape
#print axioms FFVerif.C15.swap_identity
#print axioms FFVerif.C15.complete_of_swap
#print axioms FFVerif.C15.liou_real
#print axioms FFVerif.C15.liou_one
#print axioms FFVerif.C15.liou_mul
#print axioms FFVerif.C15.liou_transpose
#print axioms FFVerif.C15.liou_orthogonal
#print axioms FFVerif.C15.liouville_transfer
#print axioms FFVerif.C15.expand_entries
#print axioms FFVerif.C15.expand_inverse
#print axioms FFVerif.C15.liouville_entries
#print axioms FFVerif.C15.liouville_castReal
#print axioms FFVerif.C15.choi_entries
#print axioms FFVerif.C15.choi_of_unitary
#print axioms FFVerif.C15.choi_of_unitary_quadForm
#print axioms FFVerif.C15.choi_of_unitary_posSemidef
#print axioms FFVerif.C15.transpose_choi_entries
#print axioms FFVerif.C15.transpose_not_cp
#print axioms FFVerif.C15.cp_verdict_of_nonneg
#print axioms FFVerif.C15.cp_verdict_false_of_neg
#print axioms FFVerif.Pins.pinGgmExpand
#print axioms FFVerif.C15.superop_source_shape
