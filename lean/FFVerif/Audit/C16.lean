import FFVerif.Props.C16
import FFVerif.Props.C16Kron
import FFVerif.Props.C16KronIns
import FFVerif.Props.C16KronLoop
import FFVerif.Pins.pinTensorInsert
import FFVerif.Pins.pinTensorMerge
import FFVerif.Pins.pinTensorTranspose
#print axioms FFVerif.C16.normPos_ok_iff
#print axioms FFVerif.C16.normPos_rejected
#print axioms FFVerif.C16.positions_rejected_iff_insert
#print axioms FFVerif.C16.insertResult_valueError
#print axioms FFVerif.C16.positions_rejected_iff_merge
#print axioms FFVerif.C16.mixedRadix_decode_encode
#print axioms FFVerif.C16.mixedRadix_encode_decode
#print axioms FFVerif.C16.insertResult_spec
#print axioms FFVerif.C16.insertResult_perm
#print axioms FFVerif.C16.insertResultInt_spec
#print axioms FFVerif.C16.tensorChain_spec
#print axioms FFVerif.C16.mergeSlots_spec
#print axioms FFVerif.C16.mergeResult_spec
#print axioms FFVerif.C16.mergeResult_eq_insertResult
#print axioms FFVerif.C16.mergeResult_valueError_iff_length
#print axioms FFVerif.C16.transposeResult_spec
#print axioms FFVerif.C16.transposeAxes_slots
#print axioms FFVerif.C16.transposeResult_ok_iff
#print axioms FFVerif.C16.transposeResult_rejected
#print axioms FFVerif.C16.transposeResultInt_negative
#print axioms FFVerif.C16.transposeResult_id
#print axioms FFVerif.C16.transposeResult_comp
#print axioms FFVerif.C16.equivalentPauli_spec
#print axioms FFVerif.C16.equivalentPauli_set
#print axioms FFVerif.C16.remapPauli_spec
#print axioms FFVerif.C16.remapPauli_perm
#print axioms FFVerif.C16.insertSubscripts_slots
#print axioms FFVerif.C16.insertSubscripts_slotFactors
#print axioms FFVerif.C16.insertSubscripts_consistent
#print axioms FFVerif.C16.splitInsertIndex_formula
#print axioms FFVerif.C16.splitInsertIndex_bookkeeping
#print axioms FFVerif.C16Kron.mergeSigma_eq_mergeResult
#print axioms FFVerif.C16Kron.tensorMergeNum_isChain'
#print axioms FFVerif.C16Kron.tensorMergeNum_eq_chain
#print axioms FFVerif.C16Kron.insertSpec_single
#print axioms FFVerif.C16Kron.tensorInsertNum_single_isChain'
#print axioms FFVerif.C16Kron.tensorInsertNum_eq_chain_partial
#print axioms FFVerif.C16Kron.singleInsertNum_bookkeeping
#print axioms FFVerif.C16Kron.tensorInsertNum_isChain'
#print axioms FFVerif.C16Kron.tensorInsertNum_eq_chain
#print axioms FFVerif.C16Kron.tensorInsertNum_eq_tensorMergeNum
#print axioms FFVerif.C16Kron.tensorInsertNumInt_isChain'
#print axioms FFVerif.C16Kron.isChain_flatten'
#print axioms FFVerif.C16Kron.kronMat_apply
#print axioms FFVerif.C16Kron.isChain_iff_kronMat
#print axioms FFVerif.C16Kron.tensorChain_eq_kron
#print axioms FFVerif.C16Kron.tensorChain_entry
#print axioms FFVerif.C16Kron.tensorTransposeNum_eq_chain
#print axioms FFVerif.C16Kron.tensorTransposeNum_eq_kron
#print axioms FFVerif.Pins.pinTensorInsert
#print axioms FFVerif.Pins.pinTensorMerge
#print axioms FFVerif.Pins.pinTensorTranspose
