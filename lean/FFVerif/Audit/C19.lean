import FFVerif.Props.C19
#print axioms FFVerif.C19.fid_closed_form
#print axioms FFVerif.C19.se_closed_form
#print axioms FFVerif.C19.pdd_model_eq
#print axioms FFVerif.C19.pdd_closed_form
#print axioms FFVerif.C19.cpmg_model_eq
#print axioms FFVerif.C19.cpmg_closed_form
#print axioms FFVerif.C19.udd_model_eq
#print axioms FFVerif.C19.udd_closed_form
#print axioms FFVerif.C19.cddY_zero
#print axioms FFVerif.C19.cddY_one
#print axioms FFVerif.C19.cddY_two
#print axioms FFVerif.C19.cddY_succ
#print axioms FFVerif.C19.cdd_closed_form
