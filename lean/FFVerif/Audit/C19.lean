import FFVerif.Props.C19
import FFVerif.Props.C19Engine
import FFVerif.Props.C19Width
import FFVerif.Pins.pinFID
import FFVerif.Pins.pinSE
import FFVerif.Pins.pinPDD
import FFVerif.Pins.pinCPMG
import FFVerif.Pins.pinCDD
import FFVerif.Pins.pinUDD
#print axioms FFVerif.C19.fid_closed_form
#print axioms FFVerif.C19.se_closed_form
#print axioms FFVerif.C19.pdd_model_eq
#print axioms FFVerif.C19.pdd_closed_form
#print axioms FFVerif.C19.cpmg_model_eq
#print axioms FFVerif.C19.cpmg_closed_form
#print axioms FFVerif.C19.udd_model_eq
#print axioms FFVerif.C19.udd_closed_form
#print axioms FFVerif.C19.cddY_zero
#print axioms FFVerif.C19.cddY_one
#print axioms FFVerif.C19.cddY_two
#print axioms FFVerif.C19.cddY_succ
#print axioms FFVerif.C19.cdd_closed_form
#print axioms FFVerif.C19.isEigh_zero
#print axioms FFVerif.C19.hamiltonian_no_control
#print axioms FFVerif.C19.propagators_no_control
#print axioms FFVerif.C19.noControl_of_diagonalize
#print axioms FFVerif.C19.mask_current
#print axioms FFVerif.C19.maskThr_nonneg
#print axioms FFVerif.C19.cm_no_control_of_mask
#print axioms FFVerif.C19.cm_no_control
#print axioms FFVerif.C19.cm_no_control_error
#print axioms FFVerif.C19.cm_no_control_closed
#print axioms FFVerif.C19.ff_no_control_sigma_z
#print axioms FFVerif.C19.ff_no_control_sigma_z_error
#print axioms FFVerif.C19.engine_sign_sequence
#print axioms FFVerif.C19.engine_eq_ddF
#print axioms FFVerif.C19.engine_eq_ddF_error
#print axioms FFVerif.C19.engine_fid
#print axioms FFVerif.C19.engine_se
#print axioms FFVerif.C19.engine_pdd
#print axioms FFVerif.C19.engine_cpmg
#print axioms FFVerif.C19.engine_udd
#print axioms FFVerif.C19.engine_cdd
#print axioms FFVerif.C19.se_example_mask
#print axioms FFVerif.C19.se_example
#print axioms FFVerif.C19.cm_toggling_frame
#print axioms FFVerif.C19.cm_finite_width_free
#print axioms FFVerif.C19.cm_finite_width
#print axioms FFVerif.C19.finite_width_tendsto
#print axioms FFVerif.C19.finite_width_tendsto_se
#print axioms FFVerif.C19.finite_width_tendsto_pdd
#print axioms FFVerif.C19.finite_width_tendsto_cpmg
#print axioms FFVerif.C19.finite_width_tendsto_udd
#print axioms FFVerif.C19.sew_mask
#print axioms FFVerif.C19.sew_coeffs
#print axioms FFVerif.C19.se_width_example
#print axioms FFVerif.C19.se_width_tendsto_example
#print axioms FFVerif.C19.finite_width_mask_eventually
#print axioms FFVerif.C19.finite_width_tendsto_strict
#print axioms FFVerif.WidthAux.segProp_pi
#print axioms FFVerif.WidthAux.propagators_width
#print axioms FFVerif.WidthAux.SEW.finiteWidth
#print axioms FFVerif.WidthAux.finiteWidth_free_dur
#print axioms FFVerif.Pins.pinFID
#print axioms FFVerif.Pins.pinSE
#print axioms FFVerif.Pins.pinPDD
#print axioms FFVerif.Pins.pinCPMG
#print axioms FFVerif.Pins.pinCDD
#print axioms FFVerif.Pins.pinUDD
