import FFVerif.Props.C19
import FFVerif.Pins.pinFID
import FFVerif.Pins.pinSE
import FFVerif.Pins.pinPDD
import FFVerif.Pins.pinCPMG
import FFVerif.Pins.pinCDD
import FFVerif.Pins.pinUDD
#print axioms FFVerif.C19.fid_closed_form
#print axioms FFVerif.C19.se_closed_form
#print axioms FFVerif.C19.pdd_model_eq
#print axioms FFVerif.C19.pdd_closed_form
#print axioms FFVerif.C19.cpmg_model_eq
#print axioms FFVerif.C19.cpmg_closed_form
#print axioms FFVerif.C19.udd_model_eq
#print axioms FFVerif.C19.udd_closed_form
#print axioms FFVerif.C19.cddY_zero
#print axioms FFVerif.C19.cddY_one
#print axioms FFVerif.C19.cddY_two
#print axioms FFVerif.C19.cddY_succ
#print axioms FFVerif.C19.cdd_closed_form
#print axioms FFVerif.Pins.pinFID
#print axioms FFVerif.Pins.pinSE
#print axioms FFVerif.Pins.pinPDD
#print axioms FFVerif.Pins.pinCPMG
#print axioms FFVerif.Pins.pinCDD
#print axioms FFVerif.Pins.pinUDD
