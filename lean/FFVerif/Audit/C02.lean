import FFVerif.Props.C02
import FFVerif.Props.C13Prop
import FFVerif.Props.C06Def
import FFVerif.Props.C04Tile
import FFVerif.Props.C01Unique
import FFVerif.Pins.pinDiagonalize
import FFVerif.Pins.pinPropagatorAtArbT
import FFVerif.Pins.pinConcatenate
import FFVerif.Pins.C02_source_shape
#print axioms FFVerif.C02.hamiltonian_entries
#print axioms FFVerif.C02.piecewise_entries
#print axioms FFVerif.C02.segProp_conjTranspose
#print axioms FFVerif.C02.segProp_zero
#print axioms FFVerif.C02.segProp_add
#print axioms FFVerif.C02.segProp_unitary
#print axioms FFVerif.C02.IsEigh.spectral
#print axioms FFVerif.C02.IsEigh.isHermitian
#print axioms FFVerif.C02.piecewise_is_exp
#print axioms FFVerif.C02.segProp_hasDerivAt
#print axioms FFVerif.C02.propagators_zero
#print axioms FFVerif.C02.propagators_succ
#print axioms FFVerif.C02.total_propagator_is_last
#print axioms FFVerif.C02.propagators_unitary
#print axioms FFVerif.C02.total_propagator_unitary
#print axioms FFVerif.C02.propagators_succ_of_dt_zero
#print axioms FFVerif.C02.propagators_succ_exp
#print axioms FFVerif.C02.propagators_eq_timeOrderedProduct
#print axioms FFVerif.C02.times_zero
#print axioms FFVerif.C02.times_succ
#print axioms FFVerif.C02.times_eq_sum
#print axioms FFVerif.C02.tau_eq_sum
#print axioms FFVerif.C02.tauSum_eq_tau
#print axioms FFVerif.C02.times_mono
#print axioms FFVerif.C02.times_strictMono
#print axioms FFVerif.C02.times_mem_Icc
#print axioms FFVerif.C02.times_append_left
#print axioms FFVerif.C02.times_append_right
#print axioms FFVerif.C02.tau_append
#print axioms FFVerif.C02.tau_tile
#print axioms FFVerif.C02.arbUcurr_entries
#print axioms FFVerif.C02.arbIdx_eq
#print axioms FFVerif.C02.arbIdx_eq_zero
#print axioms FFVerif.C02.propagatorAtArbT_spec
#print axioms FFVerif.C02.propagatorAtArbT_spec_zero
#print axioms FFVerif.C02.propagatorAtArbT_at_zero
#print axioms FFVerif.C02.propagatorAtArbT_edge
#print axioms FFVerif.C02.segment_start_value
#print axioms FFVerif.C02.propagatorAtArbT_beyond
#print axioms FFVerif.C02.propagatorAtArbT_isSome
#print axioms FFVerif.C02.propagatorAtArbT_is_exp
#print axioms FFVerif.C02.propagatorAtArbT_hasDerivAt
#print axioms FFVerif.C02.propagatorAtArbT_tendsto_right
#print axioms FFVerif.C06Def.remapDef_times
#print axioms FFVerif.C06Def.extendDef_times
#print axioms FFVerif.C06Def.nDtOf_eq
#print axioms FFVerif.C13.segment_propagator_unique
#print axioms FFVerif.C13.piecewise_unique
#print axioms FFVerif.C13.propagators_unique
#print axioms FFVerif.EighUniqueAux.trans_support
#print axioms FFVerif.EighUniqueAux.eigenvalue_mem
#print axioms FFVerif.EighUniqueAux.eigenvalues_perm
#print axioms FFVerif.C01.eigvals_perm
#print axioms FFVerif.C01.Useg_eigh_independent
#print axioms FFVerif.C01.Useg_eq_exp
#print axioms FFVerif.C04Tile.times_concat
#print axioms FFVerif.C04Tile.tau_concat
#print axioms FFVerif.C04Tile.times_tile
#print axioms FFVerif.C04Tile.tau_tileVec
#print axioms FFVerif.C04Tile.propagators_concat
#print axioms FFVerif.C04Tile.propagators_tile
#print axioms FFVerif.C04Tile.propagators_tile_boundary
#print axioms FFVerif.C04Tile.total_propagator_concat
#print axioms FFVerif.C04Tile.total_propagator_tile
#print axioms FFVerif.Pins.pinDiagonalize
#print axioms FFVerif.Pins.pinPropagatorAtArbT
#print axioms FFVerif.Pins.pinConcatenate
#print axioms FFVerif.C02.source_shape
