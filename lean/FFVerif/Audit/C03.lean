import FFVerif.Props.C03a
import FFVerif.Props.C03c
import FFVerif.Props.C03d
import FFVerif.Props.C04Tile
import FFVerif.Props.C04TileUnique
import FFVerif.Pins.pinConcatenate
import FFVerif.Pins.pinConcatenateWithoutFF
import FFVerif.Pins.pinControlMatrixFromAtomic
import FFVerif.Pins.pinBasisArrayFinalize
import FFVerif.Pins.pinHashArray
import FFVerif.Pins.pinConcatenateHamiltonian
#print axioms FFVerif.C03a.concat_error_is_valueError
#print axioms FFVerif.C03a.concat_errors_iff
#print axioms FFVerif.C03a.concat_sorted
#print axioms FFVerif.C03a.concat_ops_unique
#print axioms FFVerif.C03a.concat_row_ids
#print axioms FFVerif.C03a.concat_ids_unique
#print axioms FFVerif.C03a.concat_ids_unique_general
#print axioms FFVerif.C03a.concat_row_length
#print axioms FFVerif.C03a.concat_places_coeffs
#print axioms FFVerif.C03a.concat_mapping_keys
#print axioms FFVerif.C03a.concat_absent_control_zero
#print axioms FFVerif.C03a.concat_absent_noise_constant
#print axioms FFVerif.C03a.concat_order_of_unique_irrelevant
#print axioms FFVerif.C03a.concat_dt_is_append
#print axioms FFVerif.C03a.concat_basis_mismatch
#print axioms FFVerif.C03c.fromAtomicCorr_entries
#print axioms FFVerif.C03c.fromAtomic_entries
#print axioms FFVerif.C03c.fromAtomic_eq_sum_corr
#print axioms FFVerif.C03c.shifted_pulse_cm
#print axioms FFVerif.C03c.corr_entry_eq_shifted_pulse
#print axioms FFVerif.C03c.fromAtomicCorr_cons
#print axioms FFVerif.C03c.fromAtomic_cons
#print axioms FFVerif.C03c.cm_append_vec
#print axioms FFVerif.C03c.cm_append
#print axioms FFVerif.C03c.cm_empty
#print axioms FFVerif.C03c.cm_shift
#print axioms FFVerif.C03c.atomic_head
#print axioms FFVerif.C03c.atomic_tail
#print axioms FFVerif.C03c.concat_cm_eq_from_scratch
#print axioms FFVerif.C03c.concat_corr_eq_from_scratch
#print axioms FFVerif.C03c.concat_cm_eq_from_scratch_castReal
#print axioms FFVerif.C03c.pc_ff_entries
#print axioms FFVerif.C03c.pc_ff_gen_entries
#print axioms FFVerif.C03c.pc_call_wiring
#print axioms FFVerif.C03c.pc_sums_to_total
#print axioms FFVerif.C03c.pc_gen_sums_to_total
#print axioms FFVerif.C03c.pc_sums_to_total_fromAtomic
#print axioms FFVerif.C03c.fromAtomic_nil
#print axioms FFVerif.C03c.fromAtomic_one
#print axioms FFVerif.C03c.fromAtomic_two
#print axioms FFVerif.C03c.fromAtomic_three
#print axioms FFVerif.C03c.concat_assoc
#print axioms FFVerif.C03c.periodic_eq_from_atomic
#print axioms FFVerif.C03c.periodic_eq_from_atomic_replicate
#print axioms FFVerif.C03c.periodic_code_eq_from_atomic
#print axioms FFVerif.C03c.concat2_cm_eq_from_scratch
#print axioms FFVerif.C03c.pc_sums_to_from_scratch
#print axioms FFVerif.C03c.cm_concat2
#print axioms FFVerif.C03c.cm_concat2_assoc
#print axioms FFVerif.C03c.concat_regroup_left
#print axioms FFVerif.C03c.concat_regroup_right
#print axioms FFVerif.C03c.periodic_eq_from_scratch
#print axioms FFVerif.C03d.decision_grid_sound
#print axioms FFVerif.C03d.forced_never_silently_skipped
#print axioms FFVerif.C03d.single_pulse_copied_iff
#print axioms FFVerif.C03d.disabled_never_computed
#print axioms FFVerif.C03d.auto_iff
#print axioms FFVerif.C03d.auto_iff_of_flag
#print axioms FFVerif.C03d.auto_error_iff
#print axioms FFVerif.C03d.atomic_requires
#print axioms FFVerif.C03d.atomic_pc_flag
#print axioms FFVerif.C03d.tp_set_iff
#print axioms FFVerif.C03d.tp_after_iff
#print axioms FFVerif.C03d.error_iff
#print axioms FFVerif.C03d.error_small
#print axioms FFVerif.C03d.no_other_errors
#print axioms FFVerif.C04Tile.ofDiag_cm_eigh_independent
#print axioms FFVerif.C04Tile.concat_cm_eq_diag_from_scratch'
#print axioms FFVerif.C01.cm_eigh_independent
#print axioms FFVerif.C04Tile.hamiltonian_append
#print axioms FFVerif.C04Tile.hamiltonian_concat_segment
#print axioms FFVerif.C04Tile.propagators_append
#print axioms FFVerif.C04Tile.total_propagator_append
#print axioms FFVerif.C04Tile.concatTotalPropagator_pair
#print axioms FFVerif.C04Tile.propagators_concat
#print axioms FFVerif.C04Tile.total_propagator_concat
#print axioms FFVerif.C04Tile.concatTotalPropagator_eq_from_scratch
#print axioms FFVerif.C04Tile.cumL_eq_liouville_prodTotal
#print axioms FFVerif.C04Tile.concatL_eq_liouville_from_scratch
#print axioms FFVerif.C04Tile.times_concat
#print axioms FFVerif.C04Tile.tau_concat
#print axioms FFVerif.C04Tile.isDiag_concat2
#print axioms FFVerif.C04Tile.isDiag_concatSeq
#print axioms FFVerif.C04Tile.concatSeq_Qtot
#print axioms FFVerif.C04Tile.concatTotalPropagator_eq_concatSeq
#print axioms FFVerif.C04Tile.concatSeq_tau
#print axioms FFVerif.C04Tile.concat2_segments
#print axioms FFVerif.C04Tile.concat_cm_eq_diag_from_scratch
#print axioms FFVerif.TileAux.mdot_toMatrix
#print axioms FFVerif.TileAux.concatTau_eq_sum
#print axioms FFVerif.TileAux.propagators_block
#print axioms FFVerif.TileAux.times_block
#print axioms FFVerif.Pins.pinConcatenate
#print axioms FFVerif.Pins.pinConcatenateWithoutFF
#print axioms FFVerif.Pins.pinControlMatrixFromAtomic
#print axioms FFVerif.Pins.pinBasisArrayFinalize
#print axioms FFVerif.Pins.pinHashArray
#print axioms FFVerif.Pins.pinConcatenateHamiltonian
