import FFVerif.Props.C01
import FFVerif.Props.C01Seg
import FFVerif.Pins.pinControlMatrixFromScratch
#print axioms FFVerif.C01.segIntegral_closed
#print axioms FFVerif.C01.segIntegral_zero
#print axioms FFVerif.C01.firstOrderEntry_exact
#print axioms FFVerif.C01.firstOrderEntry_masked_error
#print axioms FFVerif.C01.firstOrderEntry_error_current
#print axioms FFVerif.C01.firstOrderEntry_zero_dt
#print axioms FFVerif.C01.firstOrderEntry_neg
#print axioms FFVerif.C01.ff_call_wiring
#print axioms FFVerif.C01.ff_generalized_def
#print axioms FFVerif.C01.ff_fidelity_def
#print axioms FFVerif.C01.ff_fidelity_is_trace
#print axioms FFVerif.C01.ff_hermitian
#print axioms FFVerif.C01.ff_gen_hermitian
#print axioms FFVerif.C01.ff_posSemidef
#print axioms FFVerif.C01.ff_diag_nonneg
#print axioms FFVerif.C01.trace_Useg
#print axioms FFVerif.C01.cm_entry
#print axioms FFVerif.C01.segment_trace_integral
#print axioms FFVerif.C01.cm_segment_form
#print axioms FFVerif.C01.cm_segment_form_error
#print axioms FFVerif.Pins.pinControlMatrixFromScratch
