import FFVerif.Props.C01
import FFVerif.Props.C01Seg
import FFVerif.Props.C01Bound
import FFVerif.Pins.pinControlMatrixFromScratch
#print axioms FFVerif.C01.segIntegral_closed
#print axioms FFVerif.C01.segIntegral_zero
#print axioms FFVerif.C01.firstOrderEntry_exact
#print axioms FFVerif.C01.firstOrderEntry_masked_error
#print axioms FFVerif.C01.firstOrderEntry_error_current
#print axioms FFVerif.C01.firstOrderEntry_zero_dt
#print axioms FFVerif.C01.firstOrderEntry_neg
#print axioms FFVerif.C01.ff_call_wiring
#print axioms FFVerif.C01.ff_generalized_def
#print axioms FFVerif.C01.ff_fidelity_def
#print axioms FFVerif.C01.ff_fidelity_is_trace
#print axioms FFVerif.C01.ff_hermitian
#print axioms FFVerif.C01.ff_gen_hermitian
#print axioms FFVerif.C01.ff_posSemidef
#print axioms FFVerif.C01.ff_diag_nonneg
#print axioms FFVerif.C01.trace_Useg
#print axioms FFVerif.C01.cm_entry
#print axioms FFVerif.C01.segment_trace_integral
#print axioms FFVerif.C01.cm_segment_form
#print axioms FFVerif.C01.cm_segment_form_error
#print axioms FFVerif.C01.firstOrderEntry_norm_le
#print axioms FFVerif.C01.firstOrderEntry_norm_masked
#print axioms FFVerif.C01.firstOrderEntry_norm_zero
#print axioms FFVerif.C01.maskThr_nonneg
#print axioms FFVerif.C01.cm_entry_eq_trace
#print axioms FFVerif.C01.cm_entry_norm_le
#print axioms FFVerif.C01.cm_entry_norm_le'
#print axioms FFVerif.C01.ff_fid_eq_frob_sq
#print axioms FFVerif.C01.ff_fid_le
#print axioms FFVerif.C01.ff_fid_re_le
#print axioms FFVerif.C01.ff_fid_offdiag_le
#print axioms FFVerif.C01.herm_sandwich_apply
#print axioms FFVerif.C01.cm_neg_omega
#print axioms FFVerif.C01.cm_neg_omega_map
#print axioms FFVerif.C01.ff_neg_omega
#print axioms FFVerif.C01.ff_neg_omega_diag
#print axioms FFVerif.C01.ff_gen_neg_omega
#print axioms FFVerif.C01.firstOrderEntry_zero_x
#print axioms FFVerif.C01.ff_fid_le_sharp
#print axioms FFVerif.Pins.pinControlMatrixFromScratch
