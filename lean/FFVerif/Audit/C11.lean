import FFVerif.Props.C11
import FFVerif.Props.C11Deriv
import FFVerif.Props.C07
import FFVerif.Props.C11Asm
import FFVerif.Props.C11AsmDeriv
import FFVerif.Props.C11Infid
import FFVerif.Pins.pinGetFFDerivative
import FFVerif.Pins.pinGradControlMatrix
import FFVerif.Pins.pinInfidelityDerivative
import FFVerif.Pins.C11_gradient_source_shape
import FFVerif.Pins.C11_gradient_einsum_shape
#print axioms FFVerif.C11.liouvilleA_matrix_element
#print axioms FFVerif.C11.liouvilleA_exact
#print axioms FFVerif.C11.liouvilleA_masked_error
#print axioms FFVerif.C11.liouvilleA_error
#print axioms FFVerif.C11.liouvilleA_error_current
#print axioms FFVerif.C11.liouvilleA_degenerate
#print axioms FFVerif.C11.liouvilleAMat_degenerate
#print axioms FFVerif.C11.derivativeIntegral_exact
#print axioms FFVerif.C11.derivativeIntegral_get
#print axioms FFVerif.C11.derivIntegralTmp2_error
#print axioms FFVerif.C11.derivIntegralTmp1_error
#print axioms FFVerif.C11.derivativeIntegral_masked_error
#print axioms FFVerif.C11.derivativeIntegral_unmasked_error
#print axioms FFVerif.C11.derivativeIntegral_double_mask_zero
#print axioms FFVerif.C11.derivativeIntegral_grey_zone_counterexample
#print axioms FFVerif.C11.ff_derivative_formula
#print axioms FFVerif.C11.ff_derivative_formula_real
#print axioms FFVerif.C11.ffDerivative_entry
#print axioms FFVerif.C11.ff_derivative_is_derivative
#print axioms FFVerif.C11.infidelity_derivative_linear
#print axioms FFVerif.C11.integrate_trapezoid
#print axioms FFVerif.C11.selection_is_slice
#print axioms FFVerif.C11.gradient_contractions_rowwise
#print axioms FFVerif.C11.indicesFromIdentifiers_examples
#print axioms FFVerif.C11.nCoeffsDerivShapeOk_iff
#print axioms FFVerif.C11.sensitivity_term
#print axioms FFVerif.C11.sensitivity_term_fails_at_zero
#print axioms FFVerif.C11.sensitivity_real
#print axioms FFVerif.C07.cleanup_freq
#print axioms FFVerif.C07.deriv_spec
#print axioms FFVerif.C07.served_value_is_fresh
#print axioms FFVerif.C11.exp_line_hasDerivAt_series_matrix
#print axioms FFVerif.C11.dkA_eq_segIntegral
#print axioms FFVerif.C11.divDiffExp_eq_dkA
#print axioms FFVerif.C11.exp_hasDerivAt_eigenbasis_complex
#print axioms FFVerif.C11.exp_hasDerivAt_eigenbasis
#print axioms FFVerif.C11.segProp_hasDerivAt_amplitude
#print axioms FFVerif.C11.exp_hasDerivAt_eigenbasis_entry
#print axioms FFVerif.C11.liouvilleAMat_is_A
#print axioms FFVerif.C11.liouvilleAMat_sub_A_le
#print axioms FFVerif.C11.segment_propagator_derivative_model
#print axioms FFVerif.C11.segment_propagator_derivative_model_error
#print axioms FFVerif.C11.segment_propagator_eq_ratio
#print axioms FFVerif.C11.cumulative_propagator_derivative
#print axioms FFVerif.C11.cumulative_propagator_derivative_model
#print axioms FFVerif.C11.exists_isEigh
#print axioms FFVerif.C11.eigh_family_exists
#print axioms FFVerif.C11.liouville_derivative_entry
#print axioms FFVerif.C11.liouville_derivative_get
#print axioms FFVerif.C11.liouville_derivative_contraction
#print axioms FFVerif.C11.liouville_derivative_assembly
#print axioms FFVerif.C11.liouville_derivative_of_pulse
#print axioms FFVerif.C11.infidelityDeriv_hasDerivAt
#print axioms FFVerif.C11.infidelityDeriv_uncorrected_hasDerivAt_sens
#print axioms FFVerif.C11.infidelityDeriv_hasDerivAt_sens
#print axioms FFVerif.C11.infidelityDeriv_selection
#print axioms FFVerif.C11.identity_component_independent_of_control
#print axioms FFVerif.C11.fidelityIntegral_vs_numeric_infidelity
#print axioms FFVerif.C11.infidelityDeriv_is_numeric_infidelity_deriv
#print axioms FFVerif.C11.infidelityDeriv_uncorrected_gap
#print axioms FFVerif.C11.identityGap_vanishes
#print axioms FFVerif.C11.identityGap_is_subtracted
#print axioms FFVerif.C11.infidelityDeriv_is_numeric_infidelity_deriv_sens
#print axioms FFVerif.C11.ctrlmatStepM_entry
#print axioms FFVerif.C11.ctrlmatStepM_smul
#print axioms FFVerif.C11.ctrlmatStepDeriv_entry
#print axioms FFVerif.C11.liouvilleDerivative_theta
#print axioms FFVerif.C11.controlMatrixDeriv_entry
#print axioms FFVerif.C11.step_control_matrix_hasDerivAt
#print axioms FFVerif.C11.liouville_derivative_model_hasDerivAt
#print axioms FFVerif.C11.controlMatrixIntegral_hasDerivAt
#print axioms FFVerif.C11.controlMatrixDeriv_hasDerivAt
#print axioms FFVerif.C11.controlMatrixIntegral_hasDerivAt_sens
#print axioms FFVerif.C11.controlMatrixDeriv_hasDerivAt_sens
#print axioms FFVerif.C11.filterFunctionDeriv_hasDerivAt
#print axioms FFVerif.CmDerivAux.segment_integral_hasDerivAt
#print axioms FFVerif.CmDerivAux.Eprop_hasDerivAt
#print axioms FFVerif.Pins.pinGetFFDerivative
#print axioms FFVerif.Pins.pinGradControlMatrix
#print axioms FFVerif.Pins.pinInfidelityDerivative
#print axioms FFVerif.C11.gradient_source_shape
#print axioms FFVerif.C11.gradient_einsum_shape
