import FFVerif.Props.C11
import FFVerif.Props.C07
import FFVerif.Pins.pinGetFFDerivative
import FFVerif.Pins.pinGradControlMatrix
import FFVerif.Pins.pinInfidelityDerivative
import FFVerif.Pins.C11_gradient_source_shape
import FFVerif.Pins.C11_gradient_einsum_shape
#print axioms FFVerif.C11.liouvilleA_matrix_element
#print axioms FFVerif.C11.liouvilleA_exact
#print axioms FFVerif.C11.liouvilleA_masked_error
#print axioms FFVerif.C11.liouvilleA_error
#print axioms FFVerif.C11.liouvilleA_error_current
#print axioms FFVerif.C11.liouvilleA_degenerate
#print axioms FFVerif.C11.liouvilleAMat_degenerate
#print axioms FFVerif.C11.derivativeIntegral_exact
#print axioms FFVerif.C11.derivativeIntegral_get
#print axioms FFVerif.C11.derivIntegralTmp2_error
#print axioms FFVerif.C11.derivIntegralTmp1_error
#print axioms FFVerif.C11.derivativeIntegral_masked_error
#print axioms FFVerif.C11.derivativeIntegral_unmasked_error
#print axioms FFVerif.C11.derivativeIntegral_double_mask_zero
#print axioms FFVerif.C11.derivativeIntegral_grey_zone_counterexample
#print axioms FFVerif.C11.ff_derivative_formula
#print axioms FFVerif.C11.ff_derivative_formula_real
#print axioms FFVerif.C11.ffDerivative_entry
#print axioms FFVerif.C11.ff_derivative_is_derivative
#print axioms FFVerif.C11.infidelity_derivative_linear
#print axioms FFVerif.C11.integrate_trapezoid
#print axioms FFVerif.C11.selection_is_slice
#print axioms FFVerif.C11.gradient_contractions_rowwise
#print axioms FFVerif.C11.indicesFromIdentifiers_examples
#print axioms FFVerif.C11.nCoeffsDerivShapeOk_iff
#print axioms FFVerif.C11.sensitivity_term
#print axioms FFVerif.C11.sensitivity_term_fails_at_zero
#print axioms FFVerif.C11.sensitivity_real
#print axioms FFVerif.C07.cleanup_freq
#print axioms FFVerif.C07.deriv_spec
#print axioms FFVerif.C07.served_value_is_fresh
#print axioms FFVerif.Pins.pinGetFFDerivative
#print axioms FFVerif.Pins.pinGradControlMatrix
#print axioms FFVerif.Pins.pinInfidelityDerivative
#print axioms FFVerif.C11.gradient_source_shape
#print axioms FFVerif.C11.gradient_einsum_shape
