import FFVerif.Props.C05
import FFVerif.Props.C05d
import FFVerif.Props.C05e
import FFVerif.Props.C06Def
import FFVerif.Props.C05Nfold
import FFVerif.Props.C05NfoldAsm
import FFVerif.Pins.pinExtend
import FFVerif.Pins.pinRemap
import FFVerif.Pins.pinMergeAttrs
import FFVerif.Pins.pinInsertAttrs
import FFVerif.Pins.pinDefaultExtendMapping
import FFVerif.Pins.pinMapIdentifiers
#print axioms FFVerif.C05.cross_block_nonzero
#print axioms FFVerif.C05.equivalentPauli_first
#print axioms FFVerif.C05.equivalentPauli_second
#print axioms FFVerif.C05.equivalentPauli_three_qubits
#print axioms FFVerif.C05.equivalentPauli_two_qubits
#print axioms FFVerif.C05.extend_control_matrix
#print axioms FFVerif.C05.extend_control_matrix_model
#print axioms FFVerif.C05.extend_control_matrix_model_trace
#print axioms FFVerif.C05.extend_control_matrix_prod
#print axioms FFVerif.C05.extend_control_matrix_right
#print axioms FFVerif.C05.extend_filter_function_blocks
#print axioms FFVerif.C05.extend_filter_function_model
#print axioms FFVerif.C05.extend_propagators
#print axioms FFVerif.C05.extend_segIntegrand
#print axioms FFVerif.C05.finProd_first_val
#print axioms FFVerif.C05.finProd_second_val
#print axioms FFVerif.C05.kronBasisFin_apply
#print axioms FFVerif.C05.kronBasis_isComplete
#print axioms FFVerif.C05.kronBasis_isOrthoHerm
#print axioms FFVerif.C05.kron_isEigh
#print axioms FFVerif.C05.kron_isEigh_prod
#print axioms FFVerif.C05.kron_liouville
#print axioms FFVerif.C05.kron_propagators
#print axioms FFVerif.C05.kron_propagators_model
#print axioms FFVerif.C05.kron_segProp
#print axioms FFVerif.C05.kron_segProp_of_isEigh
#print axioms FFVerif.C05.kron_total_propagator_model
#print axioms FFVerif.C05.pauliN_ortho_zero
#print axioms FFVerif.C05.pauliN_zero
#print axioms FFVerif.C05.tensorMat_toMatrix
#print axioms FFVerif.C05.tensorSumVec_eq
#print axioms FFVerif.C05.trace_basis_sqrt
#print axioms FFVerif.C05.trace_kronFin_conj
#print axioms FFVerif.C05.trace_kron_basis
#print axioms FFVerif.C06Def.extendDef_sorted
#print axioms FFVerif.C06Def.extendDef_keeps_association
#print axioms FFVerif.C06Def.extendDef_term_mem
#print axioms FFVerif.C06Def.extendDef_operator_placement
#print axioms FFVerif.C06Def.extendDef_single_placement
#print axioms FFVerif.C06Def.extendDef_default_identifier
#print axioms FFVerif.C06Def.extendDef_given_identifier
#print axioms FFVerif.C06Def.extendDef_times
#print axioms FFVerif.C06Def.extendDef_additional_by_identifier
#print axioms FFVerif.C06Def.extendDef_additional_order_irrelevant
#print axioms FFVerif.C06Def.extendDef_errors_iff
#print axioms FFVerif.C06Def.nDtOf_eq
#print axioms FFVerif.C06Def.extendDef_shortcut
#print axioms FFVerif.C06Def.extend_duplicates_rejected
#print axioms FFVerif.C06Def.extendDef_ids_unique
#print axioms FFVerif.C06Def.mapIdentifiers_spec
#print axioms FFVerif.C05d.ff_grid_sound
#print axioms FFVerif.C05d.ff_grid_iff
#print axioms FFVerif.C05d.cached_iff_grid
#print axioms FFVerif.C05d.forced_ff_never_silently_skipped
#print axioms FFVerif.C05d.disabled_ff_never_cached
#print axioms FFVerif.C05d.auto_ff_iff
#print axioms FFVerif.C05d.auto_no_omega_error
#print axioms FFVerif.C05d.extended_requires_pauli
#print axioms FFVerif.C05d.extended_iff
#print axioms FFVerif.C05d.recomputed_iff
#print axioms FFVerif.C05d.diag_wanted_iff
#print axioms FFVerif.C05d.diag_iff
#print axioms FFVerif.C05d.diag_cached_iff
#print axioms FFVerif.C05d.additional_rows
#print axioms FFVerif.C05d.addRows_iff
#print axioms FFVerif.C05d.error_iff
#print axioms FFVerif.C05d.no_other_errors
#print axioms FFVerif.C05d.early_return_nothing
#print axioms FFVerif.C05d.returned_iff
#print axioms FFVerif.C05d.input_side_effects
#print axioms FFVerif.C05d.inputs_untouched_of_not_pauli
#print axioms FFVerif.C05d.remap_keeps_diag
#print axioms FFVerif.C05d.remap_cm_iff
#print axioms FFVerif.C05d.remap_omega_iff
#print axioms FFVerif.C05d.remap_lazy_iff
#print axioms FFVerif.C05d.remap_not_pauli_blocks_auto
#print axioms FFVerif.C05e.bisect_sorted
#print axioms FFVerif.C05e.insort_strict
#print axioms FFVerif.C05e.bisect_le_length
#print axioms FFVerif.C05e.first_step
#print axioms FFVerif.C05e.merge_step
#print axioms FFVerif.C05e.insert_step
#print axioms FFVerif.C05e.insert_keeps_chain_eq_registers
#print axioms FFVerif.C05e.length_mismatch
#print axioms FFVerif.C05e.extend_registers_sorted
#print axioms FFVerif.C05e.unsorted_block_counterexamples
#print axioms FFVerif.C05e.positions_before_merge
#print axioms FFVerif.C05e.slips_counterexamples
#print axioms FFVerif.C05e.idle_order_irrelevant
#print axioms FFVerif.C05Nfold.piKron_isEigh
#print axioms FFVerif.C05Nfold.piKron_segProp
#print axioms FFVerif.C05Nfold.piKron_propagators_model
#print axioms FFVerif.C05Nfold.extend_control_matrix_nfold_trace
#print axioms FFVerif.C05Nfold.extend_control_matrix_nfold
#print axioms FFVerif.C05Nfold.register_data_exist
#print axioms FFVerif.C05Nfold.extend_filter_function_nfold
#print axioms FFVerif.C05Nfold.extend_filter_function_nfold_model
#print axioms FFVerif.C05Nfold.scaling_factor_eq
#print axioms FFVerif.C05Nfold.extendRow_eq_from_scratch
#print axioms FFVerif.C05Nfold.layout_card
#print axioms FFVerif.C05Nfold.extendRow_eq_from_scratch_layout
#print axioms FFVerif.C05Nfold.cm_row_congr
#print axioms FFVerif.C05Nfold.extendControlMatrix_eq_from_scratch
#print axioms FFVerif.C05Nfold.extendFilterFunction_eq_from_scratch
#print axioms FFVerif.RegLayout.pauliBasis_regEquiv
#print axioms FFVerif.RegLayout.equivalentPauli_regEquiv
#print axioms FFVerif.Pins.pinExtend
#print axioms FFVerif.Pins.pinRemap
#print axioms FFVerif.Pins.pinMergeAttrs
#print axioms FFVerif.Pins.pinInsertAttrs
#print axioms FFVerif.Pins.pinDefaultExtendMapping
#print axioms FFVerif.Pins.pinMapIdentifiers
