import FFVerif.Props.C17
import FFVerif.Props.C17Bridge
import FFVerif.Pins.pinJoinEqualSegments
import FFVerif.Pins.pinHashArray
import FFVerif.Pins.pinConcatenateHamiltonian
#print axioms FFVerif.C17.parse_sorted
#print axioms FFVerif.C17.parse_keeps_association
#print axioms FFVerif.C17.parse_given_identifier
#print axioms FFVerif.C17.parse_default_identifier
#print axioms FFVerif.C17.parse_order_irrelevant
#print axioms FFVerif.C17.default_identifiers_distinct
#print axioms FFVerif.C17.join_spec
#print axioms FFVerif.C17.join_output
#print axioms FFVerif.C17.join_pos
#print axioms FFVerif.C17.eq_iff_canon
#print axioms FFVerif.C17.eq_refl
#print axioms FFVerif.C17.eq_symm
#print axioms FFVerif.C17.eq_trans
#print axioms FFVerif.C17.deepcopy_eq
#print axioms FFVerif.C17.eq_iff_same_function
#print axioms FFVerif.C17.eq_implies_same_function
#print axioms FFVerif.C17.eq_same_durations_iff
#print axioms FFVerif.C17.eq_total_duration
#print axioms FFVerif.C17.eq_detects_operator_count
#print axioms FFVerif.C17.eq_detects_basis
#print axioms FFVerif.C17.eq_detects_operator_or_identifier
#print axioms FFVerif.C17.eq_detects_duration
#print axioms FFVerif.C17.eq_detects_term
#print axioms FFVerif.C17.slice_spec
#print axioms FFVerif.C17.slice_entries
#print axioms FFVerif.C17.slice_wf
#print axioms FFVerif.C17.slice_full
#print axioms FFVerif.C17.index_spec
#print axioms FFVerif.C17.slice_concat_roundtrip
#print axioms FFVerif.C17.eq_model_same_function
#print axioms FFVerif.C17.eq_model_same_hamiltonian_function
#print axioms FFVerif.C17.same_function_same_propagators
#print axioms FFVerif.C17.eq_model_same_propagators
#print axioms FFVerif.C17.same_function_same_control_matrix
#print axioms FFVerif.C17.eq_model_same_control_matrix
#print axioms FFVerif.C17.cm_error_sem
#print axioms FFVerif.C17.same_function_same_control_matrix_error
#print axioms FFVerif.C17.eq_model_same_filter_function
#print axioms FFVerif.C17.hamiltonian_function_is_model_array
#print axioms FFVerif.C17BridgeAux.eigh_data_exists
#print axioms FFVerif.Pins.pinJoinEqualSegments
#print axioms FFVerif.Pins.pinHashArray
#print axioms FFVerif.Pins.pinConcatenateHamiltonian
