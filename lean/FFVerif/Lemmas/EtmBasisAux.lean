/-
Helper lemmas for `FFVerif.Props.C12Etm` (basis covariance of decay amplitudes, cumulant function
and error transfer matrix):

* the REAL transition matrix `O_kl = Re tr(C'_k C_l)` between two complete orthonormal Hermitian
  bases: it expands the new basis in the old one and is orthogonal on both sides; two such bases
  have the same number of elements;
* `O M Oᵀ` entrywise, its trace, its real part, its exponential;
* a mixing lemma for 4-linear forms `Q(A, B, X, Y)` (`quad_mix`) and its instances for the two
  nested-commutator traces of the documented cumulant function (`K1_basis_change`,
  `K2_basis_change`);
* the decay amplitude `gammaEntry` under a real change of basis of the control matrix rows.
-/
import Mathlib.Analysis.Normed.Algebra.MatrixExponential
import Mathlib.Tactic.Ring
import Mathlib.Tactic.NormNum
import FFVerif.Lemmas.InfidelityInvAux
import FFVerif.Lemmas.ExpAux

namespace FFVerif.Spec
open Matrix

variable {N N' d : Nat}

/-! ### `O M Oᵀ` -/

/-- a real matrix viewed as a complex one (the implicit upcast of numpy) -/
noncomputable def toCplx {m n : Type} (O : Matrix m n ℝ) : Matrix m n ℂ :=
  O.map Complex.ofReal

@[simp] theorem toCplx_apply {m n : Type} (O : Matrix m n ℝ) (i : m) (j : n) :
    toCplx O i j = ((O i j : ℝ) : ℂ) := rfl

theorem sandwich_apply {R : Type} [CommSemiring R] (O : Matrix (Fin N') (Fin N) R)
    (M : Matrix (Fin N) (Fin N) R) (k l : Fin N') :
    (O * M * Oᵀ) k l = ∑ k', ∑ l', O k k' * M k' l' * O l l' := by
  simp only [Matrix.mul_apply, Matrix.transpose_apply, Finset.sum_mul]
  rw [Finset.sum_comm]

/-- `tr(O M Oᵀ) = tr M` when `Oᵀ O = 1` (rectangular `O` allowed) -/
theorem trace_sandwich {R : Type} [CommSemiring R] (O : Matrix (Fin N') (Fin N) R)
    (hO : Oᵀ * O = 1) (M : Matrix (Fin N) (Fin N) R) : trace (O * M * Oᵀ) = trace M := by
  rw [Matrix.trace_mul_comm, ← Matrix.mul_assoc, hO, Matrix.one_mul]

theorem toCplx_orth (O : Matrix (Fin N') (Fin N) ℝ) (hO : Oᵀ * O = 1) :
    (toCplx O)ᵀ * toCplx O = 1 := by
  ext l l'
  have h := congrFun (congrFun hO l) l'
  simp only [Matrix.mul_apply, Matrix.transpose_apply, Matrix.one_apply] at h
  simp only [Matrix.mul_apply, Matrix.transpose_apply, Matrix.one_apply, toCplx_apply]
  have : ((∑ k, O k l * O k l' : ℝ) : ℂ) = if l = l' then 1 else 0 := by
    rw [h]; split_ifs <;> simp
  push_cast at this
  exact this

theorem toCplx_orth' (O : Matrix (Fin N') (Fin N) ℝ) (hO : O * Oᵀ = 1) :
    toCplx O * (toCplx O)ᵀ = 1 := by
  ext l l'
  have h := congrFun (congrFun hO l) l'
  simp only [Matrix.mul_apply, Matrix.transpose_apply, Matrix.one_apply] at h
  simp only [Matrix.mul_apply, Matrix.transpose_apply, Matrix.one_apply, toCplx_apply]
  have : ((∑ k, O l k * O l' k : ℝ) : ℂ) = if l = l' then 1 else 0 := by
    rw [h]; split_ifs <;> simp
  push_cast at this
  exact this

/-- the real part of `O K Oᵀ` (real `O`, complex `K`) is `O (Re K) Oᵀ` -/
theorem re_sandwich (O : Matrix (Fin N') (Fin N) ℝ) (K : Matrix (Fin N) (Fin N) ℂ)
    (i j : Fin N') :
    ((toCplx O * K * (toCplx O)ᵀ) i j).re
      = (O * (Matrix.of fun a b => (K a b).re) * Oᵀ) i j := by
  rw [sandwich_apply, sandwich_apply, Complex.re_sum]
  refine Finset.sum_congr rfl fun a _ => ?_
  rw [Complex.re_sum]
  refine Finset.sum_congr rfl fun b _ => ?_
  have e : toCplx O i a * K a b * toCplx O j b = ((O i a * O j b : ℝ) : ℂ) * K a b := by
    simp only [toCplx_apply]; push_cast; ring
  rw [e, Complex.re_ofReal_mul, Matrix.of_apply]
  ring

/-- a real matrix that is orthogonal on both sides is square -/
theorem dim_eq_of_orthogonal (O : Matrix (Fin N') (Fin N) ℝ) (h1 : Oᵀ * O = 1)
    (h2 : O * Oᵀ = 1) : N = N' := by
  have h := Matrix.trace_mul_comm Oᵀ O
  rw [h1, h2, trace_one, trace_one, Fintype.card_fin, Fintype.card_fin] at h
  exact_mod_cast h

/-! ### The exponential of `O K O⁻¹` -/

section exp
open NormedSpace

/-- conjugation by an invertible matrix commutes with the matrix exponential (from
`Spec.semiconjBy_exp`; no commutativity of the entries needed) -/
theorem exp_sandwich_sq {n 𝔸 : Type} [Fintype n] [DecidableEq n] [NormedRing 𝔸]
    [NormedAlgebra ℚ 𝔸] [CompleteSpace 𝔸] (O Oi K : Matrix n n 𝔸) (h1 : Oi * O = 1)
    (h2 : O * Oi = 1) : exp (O * K * Oi) = O * exp K * Oi := by
  have h : SemiconjBy O K (O * K * Oi) := by
    rw [SemiconjBy, Matrix.mul_assoc (O * K), h1, Matrix.mul_one]
  have h' := semiconjBy_exp h
  rw [SemiconjBy] at h'
  calc exp (O * K * Oi) = exp (O * K * Oi) * (O * Oi) := by rw [h2, Matrix.mul_one]
    _ = O * exp K * Oi := by rw [← Matrix.mul_assoc, ← h']

/-- real matrices: `exp(O K Oᵀ) = O exp(K) Oᵀ` for `O` orthogonal on both sides -/
theorem exp_sandwich_real (O : Matrix (Fin N') (Fin N) ℝ) (h1 : Oᵀ * O = 1) (h2 : O * Oᵀ = 1)
    (K : Matrix (Fin N) (Fin N) ℝ) : exp (O * K * Oᵀ) = O * exp K * Oᵀ := by
  obtain rfl := dim_eq_of_orthogonal O h1 h2
  exact exp_sandwich_sq O Oᵀ K h1 h2

/-- complex matrices, real orthogonal `O` -/
theorem exp_sandwich_cplx (O : Matrix (Fin N') (Fin N) ℝ) (h1 : Oᵀ * O = 1) (h2 : O * Oᵀ = 1)
    (K : Matrix (Fin N) (Fin N) ℂ) :
    exp (toCplx O * K * (toCplx O)ᵀ) = toCplx O * exp K * (toCplx O)ᵀ := by
  obtain rfl := dim_eq_of_orthogonal O h1 h2
  exact exp_sandwich_sq (toCplx O) (toCplx O)ᵀ K (toCplx_orth O h1) (toCplx_orth' O h2)

end exp

/-! ### The real transition matrix between two complete orthonormal Hermitian bases -/

/-- `O_kl = Re tr(C'_k C_l)` -/
noncomputable def transitionR (C : Fin N → Matrix (Fin d) (Fin d) ℂ)
    (C' : Fin N' → Matrix (Fin d) (Fin d) ℂ) : Matrix (Fin N') (Fin N) ℝ :=
  Matrix.of fun k l => (trace (C' k * C l)).re

theorem transitionR_cast {C : Fin N → Matrix (Fin d) (Fin d) ℂ}
    {C' : Fin N' → Matrix (Fin d) (Fin d) ℂ} (hH : IsOrthoHerm C) (hH' : IsOrthoHerm C')
    (k : Fin N') (l : Fin N) : ((transitionR C C' k l : ℝ) : ℂ) = trace (C' k * C l) := by
  unfold transitionR
  rw [Matrix.of_apply]
  exact Complex.conj_eq_iff_re.mp (trace_mul_herm_conj _ _ (hH'.herm k) (hH.herm l))

/-- the real transition matrix expands the new basis in the old one and is orthogonal on both
sides -/
theorem transitionR_spec {C : Fin N → Matrix (Fin d) (Fin d) ℂ}
    {C' : Fin N' → Matrix (Fin d) (Fin d) ℂ} (hC : IsComplete C) (hH : IsOrthoHerm C)
    (hC' : IsComplete C') (hH' : IsOrthoHerm C') :
    (∀ k, C' k = ∑ l, ((transitionR C C' k l : ℝ) : ℂ) • C l) ∧
    (transitionR C C')ᵀ * transitionR C C' = 1 ∧
    transitionR C C' * (transitionR C C')ᵀ = 1 := by
  obtain ⟨hO, hiso⟩ := basis_transition C C' hC hH hC' hH'
  obtain ⟨_, hiso'⟩ := basis_transition C' C hC' hH' hC hH
  have hc : ∀ (l : Fin N) (k : Fin N'), trace (C l * C' k) = trace (C' k * C l) :=
    fun l k => trace_mul_comm _ _
  refine ⟨fun k => ?_, ?_, ?_⟩
  · conv_lhs => rw [hO k]
    exact Finset.sum_congr rfl fun l _ => by rw [Matrix.of_apply, transitionR_cast hH hH']
  · ext l l'
    have h := congrFun (congrFun hiso l) l'
    simp only [Matrix.mul_apply, Matrix.conjTranspose_apply, Matrix.of_apply, RCLike.star_def,
      Matrix.one_apply] at h
    simp only [← transitionR_cast hH hH', Complex.conj_ofReal] at h
    simp only [Matrix.mul_apply, Matrix.transpose_apply, Matrix.one_apply]
    have h' : ((∑ k, transitionR C C' k l * transitionR C C' k l' : ℝ) : ℂ)
        = ((if l = l' then 1 else 0 : ℝ) : ℂ) := by
      push_cast
      rw [h]
      split_ifs <;> simp
    exact_mod_cast h'
  · ext k k'
    have h := congrFun (congrFun hiso' k) k'
    simp only [Matrix.mul_apply, Matrix.conjTranspose_apply, Matrix.of_apply, RCLike.star_def,
      Matrix.one_apply, hc] at h
    simp only [← transitionR_cast hH hH', Complex.conj_ofReal] at h
    simp only [Matrix.mul_apply, Matrix.transpose_apply, Matrix.one_apply]
    have h' : ((∑ l, transitionR C C' k l * transitionR C C' k' l : ℝ) : ℂ)
        = ((if k = k' then 1 else 0 : ℝ) : ℂ) := by
      push_cast
      rw [h]
      split_ifs <;> simp
    exact_mod_cast h'

/-- two complete orthonormal Hermitian bases of `d × d` matrices have the same length -/
theorem card_eq_of_complete {C : Fin N → Matrix (Fin d) (Fin d) ℂ}
    {C' : Fin N' → Matrix (Fin d) (Fin d) ℂ} (hC : IsComplete C) (hH : IsOrthoHerm C)
    (hC' : IsComplete C') (hH' : IsOrthoHerm C') : N = N' :=
  dim_eq_of_orthogonal _ (transitionR_spec hC hH hC' hH').2.1 (transitionR_spec hC hH hC' hH').2.2

/-! ### Mixing lemmas -/

section mix
variable {C : Fin N → Matrix (Fin d) (Fin d) ℂ} {C' : Fin N' → Matrix (Fin d) (Fin d) ℂ}
  {O : Matrix (Fin N') (Fin N) ℂ}

/-- `C' = O C` and `Oᵀ O = 1` give back `C = Oᵀ C'` -/
theorem mix_back (hC' : ∀ k, C' k = ∑ l, O k l • C l) (hO : Oᵀ * O = 1) (k' : Fin N) :
    ∑ k, O k k' • C' k = C k' := by
  have h : ∀ k, O k k' • C' k = ∑ l, (O k k' * O k l) • C l := by
    intro k
    rw [hC' k, Finset.smul_sum]
    exact Finset.sum_congr rfl fun l _ => by rw [smul_smul]
  rw [Finset.sum_congr rfl fun k _ => h k, Finset.sum_comm]
  have h2 : ∀ l, ∑ k, (O k k' * O k l) • C l = (if k' = l then (1 : ℂ) else 0) • C l := by
    intro l
    rw [← Finset.sum_smul]
    congr 1
    have := congrFun (congrFun hO k') l
    simpa [Matrix.mul_apply, Matrix.transpose_apply, Matrix.one_apply] using this
  rw [Finset.sum_congr rfl fun l _ => h2 l]
  simp

/-- contraction of one index -/
theorem mix_one (hback : ∀ k', ∑ k, O k k' • C' k = C k')
    (f : Matrix (Fin d) (Fin d) ℂ → ℂ)
    (hf : ∀ (c : Fin N' → ℂ) (A : Fin N' → Matrix (Fin d) (Fin d) ℂ),
      f (∑ k, c k • A k) = ∑ k, c k * f (A k))
    (g : Fin N → ℂ) :
    ∑ k, (∑ k', O k k' * g k') * f (C' k) = ∑ k', g k' * f (C k') := by
  have h : ∀ k', f (C k') = ∑ k, O k k' * f (C' k) := fun k' => by
    conv_lhs => rw [← hback k']
    rw [hf]
  have hr : ∑ k', g k' * f (C k') = ∑ k', ∑ k, g k' * (O k k' * f (C' k)) :=
    Finset.sum_congr rfl fun k' _ => by rw [h k', Finset.mul_sum]
  have hl : ∑ k, (∑ k', O k k' * g k') * f (C' k) = ∑ k, ∑ k', O k k' * g k' * f (C' k) :=
    Finset.sum_congr rfl fun k _ => Finset.sum_mul _ _ _
  rw [hr, hl, Finset.sum_comm]
  exact Finset.sum_congr rfl fun k' _ => Finset.sum_congr rfl fun k _ => by ring

/-- contraction of two indices with a matrix transforming as `O Γ Oᵀ` -/
theorem mix_two (hback : ∀ k', ∑ k, O k k' • C' k = C k')
    (Q2 : Matrix (Fin d) (Fin d) ℂ → Matrix (Fin d) (Fin d) ℂ → ℂ)
    (h1 : ∀ (B : Matrix (Fin d) (Fin d) ℂ) (c : Fin N' → ℂ)
      (A : Fin N' → Matrix (Fin d) (Fin d) ℂ), Q2 (∑ k, c k • A k) B = ∑ k, c k * Q2 (A k) B)
    (h2 : ∀ (A : Matrix (Fin d) (Fin d) ℂ) (c : Fin N' → ℂ)
      (B : Fin N' → Matrix (Fin d) (Fin d) ℂ), Q2 A (∑ k, c k • B k) = ∑ k, c k * Q2 A (B k))
    (Γ : Fin N → Fin N → ℂ) :
    ∑ k, ∑ l, (∑ k', ∑ l', O k k' * Γ k' l' * O l l') * Q2 (C' k) (C' l)
      = ∑ k', ∑ l', Γ k' l' * Q2 (C k') (C l') := by
  have e : ∀ k l, (∑ k', ∑ l', O k k' * Γ k' l' * O l l')
      = ∑ l', O l l' * (∑ k', O k k' * Γ k' l') := by
    intro k l
    rw [Finset.sum_comm]
    refine Finset.sum_congr rfl fun l' _ => ?_
    rw [Finset.mul_sum]
    exact Finset.sum_congr rfl fun k' _ => by ring
  have s1 : ∀ k, ∑ l, (∑ l', O l l' * (∑ k', O k k' * Γ k' l')) * Q2 (C' k) (C' l)
      = ∑ l', (∑ k', O k k' * Γ k' l') * Q2 (C' k) (C l') := fun k =>
    mix_one hback (fun B => Q2 (C' k) B) (h2 _) _
  have s2 : ∀ l', ∑ k, (∑ k', O k k' * Γ k' l') * Q2 (C' k) (C l')
      = ∑ k', Γ k' l' * Q2 (C k') (C l') := fun l' =>
    mix_one hback (fun A => Q2 A (C l')) (h1 _) _
  rw [Finset.sum_congr rfl fun k _ => Finset.sum_congr rfl fun l _ => by rw [e k l]]
  rw [Finset.sum_congr rfl fun k _ => s1 k, Finset.sum_comm]
  rw [Finset.sum_congr rfl fun l' _ => s2 l', Finset.sum_comm]

/-- a form `Q(A, B, X, Y)` that is linear in each of its four matrix arguments (in the shape the
proofs need: linear combinations indexed by `Fin n`) -/
structure IsQuadLinear
    (Q : Matrix (Fin d) (Fin d) ℂ → Matrix (Fin d) (Fin d) ℂ → Matrix (Fin d) (Fin d) ℂ →
      Matrix (Fin d) (Fin d) ℂ → ℂ) : Prop where
  l1 : ∀ (n : Nat) (c : Fin n → ℂ) (A : Fin n → Matrix (Fin d) (Fin d) ℂ)
    (B X Y : Matrix (Fin d) (Fin d) ℂ), Q (∑ k, c k • A k) B X Y = ∑ k, c k * Q (A k) B X Y
  l2 : ∀ (n : Nat) (c : Fin n → ℂ) (B : Fin n → Matrix (Fin d) (Fin d) ℂ)
    (A X Y : Matrix (Fin d) (Fin d) ℂ), Q A (∑ k, c k • B k) X Y = ∑ k, c k * Q A (B k) X Y
  l3 : ∀ (n : Nat) (c : Fin n → ℂ) (X : Fin n → Matrix (Fin d) (Fin d) ℂ)
    (A B Y : Matrix (Fin d) (Fin d) ℂ), Q A B (∑ k, c k • X k) Y = ∑ k, c k * Q A B (X k) Y
  l4 : ∀ (n : Nat) (c : Fin n → ℂ) (Y : Fin n → Matrix (Fin d) (Fin d) ℂ)
    (A B X : Matrix (Fin d) (Fin d) ℂ), Q A B X (∑ k, c k • Y k) = ∑ k, c k * Q A B X (Y k)

theorem sum4_comm (F : Fin N → Fin N → Fin N → Fin N → ℂ) :
    ∑ k', ∑ l', ∑ a, ∑ b, F k' l' a b = ∑ a, ∑ b, ∑ k', ∑ l', F k' l' a b := by
  calc ∑ k', ∑ l', ∑ a, ∑ b, F k' l' a b
      = ∑ k', ∑ a, ∑ l', ∑ b, F k' l' a b :=
        Finset.sum_congr rfl fun k' _ => Finset.sum_comm
    _ = ∑ a, ∑ k', ∑ l', ∑ b, F k' l' a b := Finset.sum_comm
    _ = ∑ a, ∑ k', ∑ b, ∑ l', F k' l' a b :=
        Finset.sum_congr rfl fun a _ => Finset.sum_congr rfl fun k' _ => Finset.sum_comm
    _ = ∑ a, ∑ b, ∑ k', ∑ l', F k' l' a b :=
        Finset.sum_congr rfl fun a _ => Finset.sum_comm

/-- **Mixing lemma for 4-linear forms.**  `C' = O C`, `Oᵀ O = 1`, `Γ' = O Γ Oᵀ`:
`Σ_kl Γ'_kl Q(C'_k, C'_l, C'_i, C'_j) = Σ_ab O_ia (Σ_kl Γ_kl Q(C_k, C_l, C_a, C_b)) O_jb`. -/
theorem quad_mix (hC' : ∀ k, C' k = ∑ l, O k l • C l) (hO : Oᵀ * O = 1)
    {Q : Matrix (Fin d) (Fin d) ℂ → Matrix (Fin d) (Fin d) ℂ → Matrix (Fin d) (Fin d) ℂ →
      Matrix (Fin d) (Fin d) ℂ → ℂ} (hQ : IsQuadLinear Q)
    (Γ : Fin N → Fin N → ℂ) (Γ' : Fin N' → Fin N' → ℂ)
    (hΓ : ∀ k l, Γ' k l = ∑ k', ∑ l', O k k' * Γ k' l' * O l l') (i j : Fin N') :
    ∑ k, ∑ l, Γ' k l * Q (C' k) (C' l) (C' i) (C' j)
      = ∑ a, ∑ b, O i a * (∑ k', ∑ l', Γ k' l' * Q (C k') (C l') (C a) (C b)) * O j b := by
  have hback := mix_back hC' hO
  have hx : ∀ A B, Q A B (C' i) (C' j) = ∑ a, ∑ b, O i a * O j b * Q A B (C a) (C b) := by
    intro A B
    conv_lhs => rw [hC' i, hQ.l3]
    refine Finset.sum_congr rfl fun a _ => ?_
    conv_lhs => rw [hC' j, hQ.l4, Finset.mul_sum]
    exact Finset.sum_congr rfl fun b _ => by ring
  rw [Finset.sum_congr rfl fun k _ => Finset.sum_congr rfl fun l _ => by rw [hΓ k l]]
  rw [mix_two hback (fun A B => Q A B (C' i) (C' j)) (fun B c A => hQ.l1 N' c A B _ _)
    (fun A c B => hQ.l2 N' c B A _ _) Γ]
  have lhs : ∑ k', ∑ l', Γ k' l' * Q (C k') (C l') (C' i) (C' j)
      = ∑ k', ∑ l', ∑ a, ∑ b, O i a * (Γ k' l' * Q (C k') (C l') (C a) (C b)) * O j b := by
    refine Finset.sum_congr rfl fun k' _ => Finset.sum_congr rfl fun l' _ => ?_
    rw [hx, Finset.mul_sum]
    refine Finset.sum_congr rfl fun a _ => ?_
    rw [Finset.mul_sum]
    exact Finset.sum_congr rfl fun b _ => by ring
  have rhs : ∑ a, ∑ b, O i a * (∑ k', ∑ l', Γ k' l' * Q (C k') (C l') (C a) (C b)) * O j b
      = ∑ a, ∑ b, ∑ k', ∑ l', O i a * (Γ k' l' * Q (C k') (C l') (C a) (C b)) * O j b := by
    refine Finset.sum_congr rfl fun a _ => Finset.sum_congr rfl fun b _ => ?_
    rw [Finset.mul_sum, Finset.sum_mul]
    refine Finset.sum_congr rfl fun k' _ => ?_
    rw [Finset.mul_sum, Finset.sum_mul]
  rw [lhs, rhs, sum4_comm]

end mix

/-! ### The two nested-commutator forms of the cumulant function -/

theorem comm_sum_left (n : Nat) (c : Fin n → ℂ) (A : Fin n → Matrix (Fin d) (Fin d) ℂ)
    (B : Matrix (Fin d) (Fin d) ℂ) : comm (∑ k, c k • A k) B = ∑ k, c k • comm (A k) B := by
  simp only [comm, Finset.sum_mul, Finset.mul_sum, Matrix.smul_mul, Matrix.mul_smul, smul_sub,
    Finset.sum_sub_distrib]

theorem comm_sum_right (n : Nat) (c : Fin n → ℂ) (B : Fin n → Matrix (Fin d) (Fin d) ℂ)
    (A : Matrix (Fin d) (Fin d) ℂ) : comm A (∑ k, c k • B k) = ∑ k, c k • comm A (B k) := by
  simp only [comm, Finset.sum_mul, Finset.mul_sum, Matrix.smul_mul, Matrix.mul_smul, smul_sub,
    Finset.sum_sub_distrib]

theorem trace_mul_sum_smul (n : Nat) (c : Fin n → ℂ) (Z : Fin n → Matrix (Fin d) (Fin d) ℂ)
    (X : Matrix (Fin d) (Fin d) ℂ) : trace (X * ∑ k, c k • Z k) = ∑ k, c k * trace (X * Z k) := by
  rw [Finset.mul_sum, trace_sum]
  exact Finset.sum_congr rfl fun k _ => by rw [Matrix.mul_smul, trace_smul, smul_eq_mul]

theorem trace_sum_smul_mul (n : Nat) (c : Fin n → ℂ) (X : Fin n → Matrix (Fin d) (Fin d) ℂ)
    (Z : Matrix (Fin d) (Fin d) ℂ) : trace ((∑ k, c k • X k) * Z) = ∑ k, c k * trace (X k * Z) := by
  rw [Finset.sum_mul, trace_sum]
  exact Finset.sum_congr rfl fun k _ => by rw [Matrix.smul_mul, trace_smul, smul_eq_mul]

/-- `Q₁(A, B, X, Y) = tr(X [A, [B, Y]])` -/
def quad1 (A B X Y : Matrix (Fin d) (Fin d) ℂ) : ℂ := trace (X * comm A (comm B Y))

/-- `Q₂(A, B, X, Y) = tr(X [[A, B], Y])` -/
def quad2 (A B X Y : Matrix (Fin d) (Fin d) ℂ) : ℂ := trace (X * comm (comm A B) Y)

theorem quad1_linear : IsQuadLinear (quad1 (d := d)) where
  l1 n c A B X Y := by
    unfold quad1; rw [comm_sum_left, trace_mul_sum_smul]
  l2 n c B A X Y := by
    unfold quad1; rw [comm_sum_left, comm_sum_right, trace_mul_sum_smul]
  l3 n c X A B Y := by
    unfold quad1; rw [trace_sum_smul_mul]
  l4 n c Y A B X := by
    unfold quad1; rw [comm_sum_right, comm_sum_right, trace_mul_sum_smul]

theorem quad2_linear : IsQuadLinear (quad2 (d := d)) where
  l1 n c A B X Y := by
    unfold quad2; rw [comm_sum_left, comm_sum_left, trace_mul_sum_smul]
  l2 n c B A X Y := by
    unfold quad2; rw [comm_sum_right, comm_sum_left, trace_mul_sum_smul]
  l3 n c X A B Y := by
    unfold quad2; rw [trace_sum_smul_mul]
  l4 n c Y A B X := by
    unfold quad2; rw [comm_sum_right, trace_mul_sum_smul]

section K
variable {C : Fin N → Matrix (Fin d) (Fin d) ℂ} {C' : Fin N' → Matrix (Fin d) (Fin d) ℂ}
  {O : Matrix (Fin N') (Fin N) ℂ}

theorem neg_half_sandwich (O : Matrix (Fin N') (Fin N) ℂ) (S : Fin N → Fin N → ℂ) (i j : Fin N') :
    -(1 / 2) * ∑ a, ∑ b, O i a * S a b * O j b = ∑ a, ∑ b, O i a * (-(1 / 2) * S a b) * O j b := by
  rw [Finset.mul_sum]
  refine Finset.sum_congr rfl fun a _ => ?_
  rw [Finset.mul_sum]
  exact Finset.sum_congr rfl fun b _ => by ring

/-- first-order cumulant function under `C' = O C`, `Oᵀ O = 1`, `Γ' = O Γ Oᵀ` (complex `O`
allowed, bases need not be complete): `K1' = O K1 Oᵀ` entrywise -/
theorem K1_basis_change (hC' : ∀ k, C' k = ∑ l, O k l • C l) (hO : Oᵀ * O = 1)
    (Γ : Fin N → Fin N → ℂ) (Γ' : Fin N' → Fin N' → ℂ)
    (hΓ : ∀ k l, Γ' k l = ∑ k', ∑ l', O k k' * Γ k' l' * O l l') (i j : Fin N') :
    K1 C' Γ' i j = ∑ a, ∑ b, O i a * K1 C Γ a b * O j b := by
  have h := quad_mix hC' hO quad1_linear Γ Γ' hΓ i j
  unfold quad1 at h
  unfold K1
  rw [h, neg_half_sandwich]

/-- second-order part under `C' = O C`, `Oᵀ O = 1`, `Δ' = O Δ Oᵀ` -/
theorem K2_basis_change (hC' : ∀ k, C' k = ∑ l, O k l • C l) (hO : Oᵀ * O = 1)
    (Δ : Fin N → Fin N → ℂ) (Δ' : Fin N' → Fin N' → ℂ)
    (hΔ : ∀ k l, Δ' k l = ∑ k', ∑ l', O k k' * Δ k' l' * O l l') (i j : Fin N') :
    K2 C' Δ' i j = ∑ a, ∑ b, O i a * K2 C Δ a b * O j b := by
  have h := quad_mix hC' hO quad2_linear Δ Δ' hΔ i j
  unfold quad2 at h
  unfold K2
  rw [h, neg_half_sandwich]

theorem Kfull_basis_change (hC' : ∀ k, C' k = ∑ l, O k l • C l) (hO : Oᵀ * O = 1)
    (Γ Δ : Fin N → Fin N → ℂ) (Γ' Δ' : Fin N' → Fin N' → ℂ)
    (hΓ : ∀ k l, Γ' k l = ∑ k', ∑ l', O k k' * Γ k' l' * O l l')
    (hΔ : ∀ k l, Δ' k l = ∑ k', ∑ l', O k k' * Δ k' l' * O l l') (i j : Fin N') :
    Kfull C' Γ' Δ' i j = ∑ a, ∑ b, O i a * Kfull C Γ Δ a b * O j b := by
  unfold Kfull
  rw [K1_basis_change hC' hO Γ Γ' hΓ, K2_basis_change hC' hO Δ Δ' hΔ, ← Finset.sum_add_distrib]
  refine Finset.sum_congr rfl fun a _ => ?_
  rw [← Finset.sum_add_distrib]
  exact Finset.sum_congr rfl fun b _ => by ring

end K

end FFVerif.Spec

/-! ### Decay amplitudes -/

namespace FFVerif.Model
open FFVerif Matrix

variable {N N' nO : Nat}

theorem re_mix (r s : ℝ) (a S b : ℂ) :
    (starRingEnd ℂ ((r : ℂ) * a) * S * ((s : ℂ) * b)).re = r * s * (starRingEnd ℂ a * S * b).re := by
  have e : starRingEnd ℂ ((r : ℂ) * a) * S * ((s : ℂ) * b)
      = ((r * s : ℝ) : ℂ) * (starRingEnd ℂ a * S * b) := by
    rw [map_mul, Complex.conj_ofReal]; push_cast; ring
  rw [e, Complex.re_ofReal_mul]

/-- the decay amplitudes of one pair of noise sources transform as `O Γ Oᵀ` when both rows of the
control matrix transform with the REAL matrix `O` (no orthogonality needed) -/
theorem gammaEntry_basis_change (ω : Vec ℝ nO) (Ba Bb : Mat ℂ N nO) (Ba' Bb' : Mat ℂ N' nO)
    (O : Matrix (Fin N') (Fin N) ℝ)
    (hA : ∀ (k : Fin N') (o : Fin nO), Ba'[k][o] = ∑ l : Fin N, (O k l : ℂ) * Ba[l][o])
    (hB : ∀ (k : Fin N') (o : Fin nO), Bb'[k][o] = ∑ l : Fin N, (O k l : ℂ) * Bb[l][o])
    (Sab : Vec ℂ nO) (k l : Fin N') :
    gammaEntry ω Ba' Bb' Sab k l
      = ∑ k' : Fin N, ∑ l' : Fin N, O k k' * gammaEntry ω Ba Bb Sab k' l' * O l l' := by
  have h : gammaIntegrand Ba' Bb' Sab k l
      = Vector.ofFn fun o : Fin nO => ∑ p ∈ (Finset.univ : Finset (Fin N × Fin N)),
          (O k p.1 * O l p.2) * (gammaIntegrand Ba Bb Sab p.1 p.2)[o] := by
    unfold gammaIntegrand
    congr 1
    funext o
    rw [hA, hB, Fintype.sum_prod_type, map_sum, Finset.sum_mul, Finset.sum_mul, Complex.re_sum]
    refine Finset.sum_congr rfl fun k' _ => ?_
    rw [Finset.mul_sum, Complex.re_sum]
    refine Finset.sum_congr rfl fun l' _ => ?_
    simp only [Fin.getElem_fin, Vector.getElem_ofFn]
    rw [re_mix]
  unfold gammaEntry
  rw [h, integrateR_linear, Fintype.sum_prod_type, Finset.sum_div]
  refine Finset.sum_congr rfl fun k' _ => ?_
  rw [Finset.sum_div]
  refine Finset.sum_congr rfl fun l' _ => ?_
  ring

end FFVerif.Model
