/-
Helper lemmas for C08 (pulse correlations): entries of `Model.fidelityFFpc`, additivity of the
infidelity tail in the filter function, and "pulse-correlation infidelities sum to the total".
-/
import FFVerif.Lemmas.FidelityTraceAux

namespace FFVerif.Model
open FFVerif

variable {G nA m N nO q : Nat}

theorem totalControlMatrix_getElem (Bpc : Vector (Ten3 ℂ nA N nO) G) (a : Fin nA) (k : Fin N)
    (o : Fin nO) : (totalControlMatrix Bpc)[a][k][o] = ∑ g : Fin G, Bpc[g][a][k][o] := by
  simp only [totalControlMatrix, Fin.getElem_fin, Vector.getElem_ofFn, fsum_eq_sum]

theorem fidelityFFpc_false_getElem (d : Nat) (Bpc : Vector (Ten3 ℂ nA N nO) G)
    (T : Ten4 ℂ N N N N) (idIdx : Vec (Fin N) 0) (c : Bool) (g h : Fin G) (a b : Fin nA)
    (o : Fin nO) :
    (fidelityFFpc false d Bpc T idIdx c)[g][h][a][b][o]
      = (∑ k : Fin N, ∑ l : Fin N,
          starRingEnd ℂ Bpc[g][a][k][o] * Bpc[h][b][l][o] * (tracesDiag T)[k][l]) / (d : ℂ) := by
  unfold fidelityFFpc
  simp only [Bool.not_false, if_true, ne_eq, not_true_eq_false, false_and, if_false,
    Fin.getElem_fin, Vector.getElem_map]
  simp only [pcTraceContraction, Gen.numeric_infidelity_2, Vector.getElem_ofFn, fsum_eq_sum, conj3, Vector.getElem_map,
    copsConj, copsOfReal, Fin.getElem_fin, Complex.ofReal_natCast]

theorem pcff0_getElem {n_g n_a n_k n_o n_h n_b : Nat} (x0 : Vector (Ten3 ℂ n_a n_k n_o) n_g)
    (x1 : Vector (Ten3 ℂ n_b n_k n_o) n_h) (g : Fin n_g) (h : Fin n_h) (a : Fin n_a) (b : Fin n_b)
    (o : Fin n_o) :
    (Gen.numeric_calculate_pulse_correlation_filter_function_0 x0 x1)[g][h][a][b][o]
      = ∑ k : Fin n_k, x0[g][a][k][o] * x1[h][b][k][o] := by
  simp only [Gen.numeric_calculate_pulse_correlation_filter_function_0, Fin.getElem_fin,
    Vector.getElem_ofFn, fsum_eq_sum]

theorem infid2_getElem {n_g n_a n_k n_o n_h n_b : Nat} (x0 : Vector (Ten3 ℂ n_a n_k n_o) n_g)
    (x1 : Vector (Ten3 ℂ n_b n_k n_o) n_h) (g : Fin n_g) (h : Fin n_h) (a : Fin n_a) (b : Fin n_b)
    (o : Fin n_o) :
    (Gen.numeric_infidelity_3 x0 x1)[g][h][a][b][o]
      = ∑ k : Fin n_k, x0[g][a][k][o] * x1[h][b][k][o] := by
  simp only [Gen.numeric_infidelity_3, Fin.getElem_fin, Vector.getElem_ofFn, fsum_eq_sum]

theorem mapConj3_getElem {n_g n_a n_k n_o : Nat} (x : Vector (Ten3 ℂ n_a n_k n_o) n_g)
    (g : Fin n_g) (a : Fin n_a) (k : Fin n_k) (o : Fin n_o) :
    (Vector.map conj3 x)[g][a][k][o] = starRingEnd ℂ x[g][a][k][o] := by
  simp only [conj3, Fin.getElem_fin, Vector.getElem_map, copsConj]

theorem selectBasis_getElem {n_g n_a n_k n_o : Nat} (x : Vector (Ten3 ℂ n_a n_k n_o) n_g)
    (idIdx : Vec (Fin n_k) q) (g : Fin n_g) (a : Fin n_a) (r : Fin q) (o : Fin n_o) :
    (Vector.map (Vector.map fun Ba : Mat ℂ n_k n_o => Vector.ofFn fun r => Ba[idIdx[r]]) x)[g][a][r][o]
      = x[g][a][idIdx[r]][o] := by
  simp only [Fin.getElem_fin, Vector.getElem_map, Vector.getElem_ofFn]

theorem fidelityFFpc_true_getElem (d : Nat) (Bpc : Vector (Ten3 ℂ nA N nO) G)
    (T : Ten4 ℂ N N N N) (idIdx : Vec (Fin N) q) (g h : Fin G) (a b : Fin nA) (o : Fin nO) :
    (fidelityFFpc true d Bpc T idIdx true)[g][h][a][b][o]
      = (∑ k : Fin N, starRingEnd ℂ Bpc[g][a][k][o] * Bpc[h][b][k][o])
        - ∑ r : Fin q, starRingEnd ℂ Bpc[g][a][idIdx[r]][o] * Bpc[h][b][idIdx[r]][o] := by
  unfold fidelityFFpc
  simp only [Bool.not_true, Bool.false_eq_true, if_false, and_true]
  by_cases hq : q = 0
  · subst hq
    simp only [ne_eq, not_true_eq_false, if_false]
    rw [pcff0_getElem]
    simp only [mapConj3_getElem, Finset.univ_eq_empty, Finset.sum_empty, sub_zero]
  · simp only [ne_eq, hq, not_false_eq_true, if_true]
    simp only [Fin.getElem_fin, Vector.getElem_ofFn]
    have h1 := pcff0_getElem (Vector.map conj3 Bpc) Bpc g h a b o
    have h2 := infid2_getElem (Vector.map conj3
      (Vector.map (Vector.map fun Ba : Mat ℂ N nO => Vector.ofFn fun r => Ba[idIdx[r]]) Bpc))
      (Vector.map (Vector.map fun Ba : Mat ℂ N nO => Vector.ofFn fun r => Ba[idIdx[r]]) Bpc)
      g h a b o
    simp only [mapConj3_getElem, selectBasis_getElem] at h1 h2
    simp only [Fin.getElem_fin] at h1 h2 ⊢
    exact congrArg₂ (fun x y : ℂ => x - y) h1 h2

theorem sum4_swap {α β γ δ M : Type} [Fintype α] [Fintype β] [Fintype γ] [Fintype δ]
    [AddCommMonoid M] (f : α → β → γ → δ → M) :
    ∑ k, ∑ l, ∑ g, ∑ h, f k l g h = ∑ g, ∑ h, ∑ k, ∑ l, f k l g h := by
  calc ∑ k, ∑ l, ∑ g, ∑ h, f k l g h
      = ∑ k, ∑ g, ∑ l, ∑ h, f k l g h := Finset.sum_congr rfl fun k _ => Finset.sum_comm
    _ = ∑ g, ∑ k, ∑ l, ∑ h, f k l g h := Finset.sum_comm
    _ = ∑ g, ∑ k, ∑ h, ∑ l, f k l g h :=
        Finset.sum_congr rfl fun g _ => Finset.sum_congr rfl fun k _ => Finset.sum_comm
    _ = ∑ g, ∑ h, ∑ k, ∑ l, f k l g h := Finset.sum_congr rfl fun g _ => Finset.sum_comm

/-- the infidelity tail is additive in the filter function -/
theorem infidEntry_sum {ι : Type} (s : Finset ι) (ω : Vec ℝ nO) (F : ι → Vec ℂ nO)
    (Ftot Sab : Vec ℂ nO) (d : Nat) (h : ∀ o : Fin nO, Ftot[o] = ∑ p ∈ s, (F p)[o]) :
    infidEntry ω Ftot Sab d = ∑ p ∈ s, infidEntry ω (F p) Sab d := by
  unfold infidEntry
  rw [← Finset.sum_div]
  congr 1
  have e : (Vector.ofFn fun o : Fin nO => (Ftot[o] * Sab[o]).re)
      = Vector.ofFn fun o : Fin nO => ∑ p ∈ s,
          (1 : ℝ) * (Vector.ofFn fun o : Fin nO => ((F p)[o] * Sab[o]).re)[o] := by
    congr 1
    funext o
    rw [h, Finset.sum_mul, Complex.re_sum]
    refine Finset.sum_congr rfl fun p _ => ?_
    simp only [Fin.getElem_fin, Vector.getElem_ofFn, one_mul]
  rw [e, integrateR_linear]
  simp only [one_mul]

/-- **pulse-correlation infidelities sum to the total**, trace-tensor branch -/
theorem infidelityPC3_sum_false (d : Nat) (ω : Vec ℝ nO) (Bpc : Vector (Ten3 ℂ nA N nO) G)
    (T : Ten4 ℂ N N N N) (idIdx : Vec (Fin N) 0) (idIdx' : Vec (Fin N) q) (c : Bool)
    (idx : Vec (Fin nA) m) (S : Ten3 ℂ m m nO) (a b : Fin m) :
    ∑ g : Fin G, ∑ h : Fin G, (infidelityPC3 false d ω Bpc T idIdx c idx S)[g][h][a][b]
      = (infidelityFromCM3 false d ω (totalControlMatrix Bpc) T idIdx' idx S)[a][b] := by
  unfold infidelityPC3 infidelityFromCM3
  simp only [Fin.getElem_fin, Vector.getElem_ofFn]
  simp only [← Fin.getElem_fin, infidelityFull_getElem]
  rw [← Fintype.sum_prod_type' (f := fun g h : Fin G =>
    infidEntry ω (fidelityFFpc false d Bpc T idIdx c)[g][h][idx[a]][idx[b]] S[a][b] d)]
  symm
  apply infidEntry_sum
  intro o
  rw [fidelityFF_false_getElem, Fintype.sum_prod_type]
  simp only [fidelityFFpc_false_getElem, totalControlMatrix_getElem, ← Finset.sum_div]
  congr 1
  rw [← sum4_swap]
  refine Finset.sum_congr rfl fun k _ => Finset.sum_congr rfl fun l _ => ?_
  rw [map_sum, Finset.sum_mul_sum, Finset.sum_mul]
  refine Finset.sum_congr rfl fun g _ => ?_
  rw [Finset.sum_mul]

/-- trace-tensor branch, one spectrum per noise operator -/
theorem infidelityPC2_sum_false (d : Nat) (ω : Vec ℝ nO) (Bpc : Vector (Ten3 ℂ nA N nO) G)
    (T : Ten4 ℂ N N N N) (idIdx : Vec (Fin N) 0) (idIdx' : Vec (Fin N) q) (c : Bool)
    (idx : Vec (Fin nA) m) (S : Mat ℂ m nO) (a : Fin m) :
    ∑ g : Fin G, ∑ h : Fin G, (infidelityPC2 false d ω Bpc T idIdx c idx S)[g][h][a]
      = (infidelityFromCM2 false d ω (totalControlMatrix Bpc) T idIdx' idx S)[a] := by
  unfold infidelityPC2 infidelityFromCM2
  simp only [Fin.getElem_fin, Vector.getElem_ofFn]
  simp only [← Fin.getElem_fin, infidelityDiag_getElem]
  rw [← Fintype.sum_prod_type' (f := fun g h : Fin G =>
    infidEntry ω (fidelityFFpc false d Bpc T idIdx c)[g][h][idx[a]][idx[a]] S[a] d)]
  symm
  apply infidEntry_sum
  intro o
  rw [fidelityFF_false_getElem, Fintype.sum_prod_type]
  simp only [fidelityFFpc_false_getElem, totalControlMatrix_getElem, ← Finset.sum_div]
  congr 1
  rw [← sum4_swap]
  refine Finset.sum_congr rfl fun k _ => Finset.sum_congr rfl fun l _ => ?_
  rw [map_sum, Finset.sum_mul_sum, Finset.sum_mul]
  refine Finset.sum_congr rfl fun g _ => ?_
  rw [Finset.sum_mul]

/-- pointwise identity of the traceless branch -/
theorem fidelityFF_true_total (d : Nat) (Bpc : Vector (Ten3 ℂ nA N nO) G) (T : Ten4 ℂ N N N N)
    (idIdx : Vec (Fin N) q) (a b : Fin nA) (o : Fin nO) :
    (fidelityFF true d (totalControlMatrix Bpc) T idIdx)[a][b][o]
      = ∑ p : Fin G × Fin G, (fidelityFFpc true d Bpc T idIdx true)[p.1][p.2][a][b][o] := by
  rw [fidelityFF_true_getElem, Fintype.sum_prod_type]
  simp only [fidelityFFpc_true_getElem, totalControlMatrix_getElem, Finset.sum_sub_distrib]
  congr 1
  · rw [← sum3_rot]
    refine Finset.sum_congr rfl fun k _ => ?_
    rw [map_sum, Finset.sum_mul_sum]
  · rw [← sum3_rot]
    refine Finset.sum_congr rfl fun k _ => ?_
    rw [map_sum, Finset.sum_mul_sum]

/-- **pulse-correlation infidelities sum to the total**, traceless branch (pulse-correlation
control matrix cached) -/
theorem infidelityPC3_sum_true (d : Nat) (ω : Vec ℝ nO) (Bpc : Vector (Ten3 ℂ nA N nO) G)
    (T : Ten4 ℂ N N N N) (idIdx : Vec (Fin N) q) (idx : Vec (Fin nA) m) (S : Ten3 ℂ m m nO)
    (a b : Fin m) :
    ∑ g : Fin G, ∑ h : Fin G, (infidelityPC3 true d ω Bpc T idIdx true idx S)[g][h][a][b]
      = (infidelityFromCM3 true d ω (totalControlMatrix Bpc) T idIdx idx S)[a][b] := by
  unfold infidelityPC3 infidelityFromCM3
  simp only [Fin.getElem_fin, Vector.getElem_ofFn]
  simp only [← Fin.getElem_fin, infidelityFull_getElem]
  rw [← Fintype.sum_prod_type' (f := fun g h : Fin G =>
    infidEntry ω (fidelityFFpc true d Bpc T idIdx true)[g][h][idx[a]][idx[b]] S[a][b] d)]
  symm
  apply infidEntry_sum
  intro o
  exact fidelityFF_true_total d Bpc T idIdx _ _ o

theorem infidelityPC2_sum_true (d : Nat) (ω : Vec ℝ nO) (Bpc : Vector (Ten3 ℂ nA N nO) G)
    (T : Ten4 ℂ N N N N) (idIdx : Vec (Fin N) q) (idx : Vec (Fin nA) m) (S : Mat ℂ m nO)
    (a : Fin m) :
    ∑ g : Fin G, ∑ h : Fin G, (infidelityPC2 true d ω Bpc T idIdx true idx S)[g][h][a]
      = (infidelityFromCM2 true d ω (totalControlMatrix Bpc) T idIdx idx S)[a] := by
  unfold infidelityPC2 infidelityFromCM2
  simp only [Fin.getElem_fin, Vector.getElem_ofFn]
  simp only [← Fin.getElem_fin, infidelityDiag_getElem]
  rw [← Fintype.sum_prod_type' (f := fun g h : Fin G =>
    infidEntry ω (fidelityFFpc true d Bpc T idIdx true)[g][h][idx[a]][idx[a]] S[a] d)]
  symm
  apply infidEntry_sum
  intro o
  exact fidelityFF_true_total d Bpc T idIdx _ _ o

end FFVerif.Model
