/-
Helper lemmas for C15CP (Choi matrix, Kraus maps, complete positivity).
-/
import Mathlib.LinearAlgebra.Matrix.PosDef
import Mathlib.Analysis.Complex.Order
import Mathlib.Analysis.InnerProductSpace.Positive
import Mathlib.LinearAlgebra.Dual.Lemmas
import Mathlib.Topology.Instances.Matrix
import FFVerif.Spec.Choi
import FFVerif.Lemmas.ExpLimitAux
import FFVerif.Lemmas.LiouvilleAux
import FFVerif.Lemmas.ConcatAux
import FFVerif.Lemmas.DiagAux
import FFVerif.Model.SuperopKraus

namespace FFVerif
open Matrix
open scoped ComplexOrder

/-! ### index pairs ↔ flattened indices -/

/-- row-major flattening of index pairs as an equivalence (`reshape` of the Choi tensor) -/
def flatEquiv (m n : Nat) : Fin m × Fin n ≃ Fin (m * n) where
  toFun p := Fin.flat p.1 p.2
  invFun r := (Fin.hi r, Fin.lo r)
  left_inv p := by simp only [Fin.hi_flat, Fin.lo_flat]
  right_inv r := Fin.flat_hi_lo r

@[simp] theorem flatEquiv_apply {m n : Nat} (p : Fin m × Fin n) :
    flatEquiv m n p = Fin.flat p.1 p.2 := rfl

@[simp] theorem flatEquiv_symm_apply {m n : Nat} (r : Fin (m * n)) :
    (flatEquiv m n).symm r = (Fin.hi r, Fin.lo r) := rfl

/-- reordering of four nested finite sums -/
theorem sum4_comm {α β γ δ M : Type*} [Fintype α] [Fintype β] [Fintype γ] [Fintype δ]
    [AddCommMonoid M] (F : α → β → γ → δ → M) :
    ∑ a, ∑ b, ∑ c, ∑ e, F a b c e = ∑ c, ∑ e, ∑ a, ∑ b, F a b c e := by
  calc ∑ a, ∑ b, ∑ c, ∑ e, F a b c e
      = ∑ a, ∑ c, ∑ b, ∑ e, F a b c e := Finset.sum_congr rfl fun a _ => Finset.sum_comm
    _ = ∑ c, ∑ a, ∑ b, ∑ e, F a b c e := Finset.sum_comm
    _ = ∑ c, ∑ a, ∑ e, ∑ b, F a b c e :=
        Finset.sum_congr rfl fun c _ => Finset.sum_congr rfl fun a _ => Finset.sum_comm
    _ = ∑ c, ∑ e, ∑ a, ∑ b, F a b c e := Finset.sum_congr rfl fun c _ => Finset.sum_comm

namespace Spec
variable {N d : Nat} {C : Fin N → Matrix (Fin d) (Fin d) ℂ}

/-! ### linearity of `choiMatrix` -/

theorem choiMatrix_zero : choiMatrix C 0 = 0 := by
  ext p q; simp [choiMatrix]

theorem choiMatrix_add (S T : Matrix (Fin N) (Fin N) ℂ) :
    choiMatrix C (S + T) = choiMatrix C S + choiMatrix C T := by
  ext p q
  simp only [choiMatrix, Matrix.add_apply, add_mul, Finset.sum_add_distrib]

theorem choiMatrix_smul (c : ℂ) (S : Matrix (Fin N) (Fin N) ℂ) :
    choiMatrix C (c • S) = c • choiMatrix C S := by
  ext p q
  simp only [choiMatrix, Matrix.smul_apply, smul_eq_mul, Finset.mul_sum, mul_assoc]

theorem choiMatrix_sum {ι : Type*} (s : Finset ι) (S : ι → Matrix (Fin N) (Fin N) ℂ) :
    choiMatrix C (∑ m ∈ s, S m) = ∑ m ∈ s, choiMatrix C (S m) := by
  classical
  induction s using Finset.induction_on with
  | empty => simp [choiMatrix_zero]
  | insert a s ha ih => rw [Finset.sum_insert ha, Finset.sum_insert ha, choiMatrix_add, ih]

theorem choiMatrix_sub (S T : Matrix (Fin N) (Fin N) ℂ) :
    choiMatrix C (S - T) = choiMatrix C S - choiMatrix C T := by
  rw [sub_eq_add_neg, sub_eq_add_neg, choiMatrix_add, ← neg_one_smul ℂ T, choiMatrix_smul,
    neg_one_smul]

/-! ### `choiMatrix` is injective for an orthonormal family -/

theorem liouOfChoi_choiMatrix (hO : ∀ i j, trace (C i * C j) = if i = j then 1 else 0)
    (S : Matrix (Fin N) (Fin N) ℂ) : liouOfChoi C (choiMatrix C S) = S := by
  ext i j
  simp only [liouOfChoi, choiMatrix, Finset.sum_mul]
  rw [sum4_comm]
  have hterm : ∀ (i' j' : Fin N),
      ∑ p : Fin d × Fin d, ∑ q : Fin d × Fin d,
        S i' j' * C j' q.1 p.1 * C i' p.2 q.2 * C j p.1 q.1 * C i q.2 p.2
      = S i' j' * (trace (C j' * C j) * trace (C i' * C i)) := by
    intro i' j'
    calc ∑ p : Fin d × Fin d, ∑ q : Fin d × Fin d,
          S i' j' * C j' q.1 p.1 * C i' p.2 q.2 * C j p.1 q.1 * C i q.2 p.2
        = ∑ a, ∑ c, ∑ b, ∑ e, S i' j' * C j' b a * C i' c e * C j a b * C i e c := by
          simp only [Fintype.sum_prod_type]
      _ = ∑ a, ∑ b, ∑ c, ∑ e, S i' j' * C j' b a * C i' c e * C j a b * C i e c :=
          Finset.sum_congr rfl fun a _ => Finset.sum_comm
      _ = ∑ b, ∑ a, ∑ c, ∑ e, S i' j' * C j' b a * C i' c e * C j a b * C i e c :=
          Finset.sum_comm
      _ = S i' j' * (trace (C j' * C j) * trace (C i' * C i)) := by
          rw [mul_comm (trace (C j' * C j))]
          simp only [Matrix.trace, Matrix.diag_apply, Matrix.mul_apply, Finset.sum_mul,
            Finset.mul_sum]
          refine Finset.sum_congr rfl fun b _ => Finset.sum_congr rfl fun a _ =>
            Finset.sum_congr rfl fun c _ => Finset.sum_congr rfl fun e _ => ?_
          ring
  simp only [hterm, hO]
  simp [Finset.sum_ite_eq']

theorem choiMatrix_injective (hO : ∀ i j, trace (C i * C j) = if i = j then 1 else 0) :
    Function.Injective (choiMatrix C) :=
  Function.LeftInverse.injective (liouOfChoi_choiMatrix hO)

/-! ### Kraus maps -/

@[simp] theorem krausVec_krausOfVec (v : Fin d × Fin d → ℂ) : krausVec (krausOfVec v) = v := rfl

@[simp] theorem krausOfVec_krausVec (A : Matrix (Fin d) (Fin d) ℂ) : krausOfVec (krausVec A) = A :=
  rfl

/-- Choi matrix of `ρ ↦ A ρ A†`: the rank-one matrix `|A⟫⟨⟨A|` -/
theorem choiMatrix_liou (hC : IsComplete C) (A : Matrix (Fin d) (Fin d) ℂ) :
    choiMatrix C (liou C A) = vecMulVec (krausVec A) (star (krausVec A)) := by
  ext p q
  simp only [choiMatrix, vecMulVec_apply, Pi.star_apply, krausVec]
  exact choi_sum_liou hC A p.1 q.1 p.2 q.2

theorem choiMatrix_liouKraus (hC : IsComplete C) {ι : Type} [Fintype ι] (w : ι → ℝ)
    (A : ι → Matrix (Fin d) (Fin d) ℂ) :
    choiMatrix C (liouKraus C w A)
      = ∑ m, (w m : ℂ) • vecMulVec (krausVec (A m)) (star (krausVec (A m))) := by
  unfold liouKraus
  rw [choiMatrix_sum]
  exact Finset.sum_congr rfl fun m _ => by rw [choiMatrix_smul, choiMatrix_liou hC]

theorem isCPLiou_liouKraus (hC : IsComplete C) {ι : Type} [Fintype ι] (w : ι → ℝ)
    (hw : ∀ m, 0 ≤ w m) (A : ι → Matrix (Fin d) (Fin d) ℂ) : IsCPLiou C (liouKraus C w A) := by
  unfold IsCPLiou
  rw [choiMatrix_liouKraus hC]
  refine posSemidef_sum _ fun m _ => (posSemidef_vecMulVec_self_star _).smul ?_
  exact_mod_cast hw m

/-- quadratic form of a rank-one matrix `v v†` -/
theorem quadForm_vecMulVec {n : Type*} [Fintype n] (x v : n → ℂ) :
    star x ⬝ᵥ (vecMulVec v (star v) *ᵥ x) = (star x ⬝ᵥ v) * star (star x ⬝ᵥ v) := by
  rw [vecMulVec_mulVec, dotProduct_smul, MulOpposite.smul_eq_mul_unop, MulOpposite.unop_op,
    star_dotProduct v x]

/-- quadratic form of the Choi matrix of a Kraus map: `Σ_m w_m |⟨x|A_m⟫|²` -/
theorem quadForm_choi_liouKraus (hC : IsComplete C) {ι : Type} [Fintype ι] (w : ι → ℝ)
    (A : ι → Matrix (Fin d) (Fin d) ℂ) (x : Fin d × Fin d → ℂ) :
    star x ⬝ᵥ (choiMatrix C (liouKraus C w A) *ᵥ x)
      = ∑ m, (w m : ℂ) * ((star x ⬝ᵥ krausVec (A m)) * star (star x ⬝ᵥ krausVec (A m))) := by
  rw [choiMatrix_liouKraus hC, Matrix.sum_mulVec, dotProduct_sum]
  refine Finset.sum_congr rfl fun m _ => ?_
  rw [Matrix.smul_mulVec, dotProduct_smul, quadForm_vecMulVec, smul_eq_mul]

/-- a linear functional on matrices is the Hilbert–Schmidt pairing with a vector -/
theorem dual_eq_dotProduct (f : Module.Dual ℂ (Matrix (Fin d) (Fin d) ℂ)) :
    ∃ x : Fin d × Fin d → ℂ, ∀ A, f A = star x ⬝ᵥ krausVec A := by
  refine ⟨fun p => star (f (Matrix.single p.2 p.1 1)), fun A => ?_⟩
  have h : ∀ i j, f (Matrix.single i j (A i j)) = f (Matrix.single i j 1) * A i j := by
    intro i j
    have h1 : Matrix.single i j (A i j) = A i j • Matrix.single i j (1 : ℂ) := by
      rw [Matrix.smul_single, smul_eq_mul, mul_one]
    rw [h1, map_smul, smul_eq_mul, mul_comm]
  conv_lhs => rw [Matrix.matrix_eq_sum_single A]
  simp only [map_sum, h, dotProduct, Pi.star_apply, star_star, krausVec, Fintype.sum_prod_type]
  exact Finset.sum_comm

/-- an operator outside the span of the others is separated from them by a vector -/
theorem exists_separating_vec {ι : Type} (A : ι → Matrix (Fin d) (Fin d) ℂ) (m : ι)
    (hm : A m ∉ Submodule.span ℂ (A '' {k | k ≠ m})) :
    ∃ x : Fin d × Fin d → ℂ, (∀ k, k ≠ m → star x ⬝ᵥ krausVec (A k) = 0) ∧
      star x ⬝ᵥ krausVec (A m) ≠ 0 := by
  obtain ⟨f, hf, hp⟩ := Submodule.exists_dual_map_eq_bot_of_notMem hm inferInstance
  obtain ⟨x, hx⟩ := dual_eq_dotProduct f
  refine ⟨x, fun k hk => ?_, by rw [← hx]; exact hf⟩
  rw [← hx]
  have hk' : A k ∈ Submodule.span ℂ (A '' {k | k ≠ m}) :=
    Submodule.subset_span ⟨k, hk, rfl⟩
  have : f (A k) ∈ (Submodule.span ℂ (A '' {k | k ≠ m})).map f := Submodule.mem_map_of_mem hk'
  rw [hp] at this
  exact (Submodule.mem_bot ℂ).mp this

/-! ### positive semidefinite Choi matrix ⇒ Kraus form -/

theorem exists_kraus_of_isCPLiou (hC : IsComplete C)
    (hO : ∀ i j, trace (C i * C j) = if i = j then 1 else 0)
    {S : Matrix (Fin N) (Fin N) ℂ} (hS : IsCPLiou C S) :
    ∃ (n : ℕ) (A : Fin n → Matrix (Fin d) (Fin d) ℂ), S = liouKraus C (fun _ => 1) A := by
  obtain ⟨n, v, hv⟩ := Matrix.posSemidef_iff_eq_sum_vecMulVec.mp hS
  refine ⟨n, fun k => krausOfVec (v k), choiMatrix_injective hO ?_⟩
  rw [hv, choiMatrix_liouKraus hC]
  simp only [krausVec_krausOfVec, Complex.ofReal_one, one_smul]

/-! ### closedness -/

theorem continuous_choiMatrix : Continuous (choiMatrix C) := by
  refine continuous_matrix fun p q => ?_
  unfold choiMatrix
  refine continuous_finsetSum _ fun i _ => continuous_finsetSum _ fun j _ => ?_
  exact ((continuous_id.matrix_elem i j).mul continuous_const).mul continuous_const

theorem isClosed_posSemidef {n : Type*} [Fintype n] :
    IsClosed {M : Matrix n n ℂ | M.PosSemidef} := by
  have h : {M : Matrix n n ℂ | M.PosSemidef}
      = {M | Mᴴ = M} ∩ ⋂ x : n → ℂ, {M | 0 ≤ star x ⬝ᵥ (M *ᵥ x)} := by
    ext M
    simp only [Set.mem_ofPred_eq, Set.mem_inter_iff, Set.mem_iInter,
      posSemidef_iff_dotProduct_mulVec, Matrix.IsHermitian]
  rw [h]
  refine IsClosed.inter (isClosed_eq continuous_id.matrix_conjTranspose continuous_id)
    (isClosed_iInter fun x => isClosed_le continuous_const ?_)
  exact Continuous.dotProduct continuous_const (continuous_id.matrix_mulVec continuous_const)

theorem isClosed_isCPLiou : IsClosed {S : Matrix (Fin N) (Fin N) ℂ | IsCPLiou C S} :=
  isClosed_posSemidef.preimage continuous_choiMatrix

/-! ### generators of Lindblad form -/

theorem lindbladK_conjTranspose {ι : Type} [Fintype ι] (H : Matrix (Fin d) (Fin d) ℂ)
    (hH : Hᴴ = H) (γ : ι → ℝ) (A : ι → Matrix (Fin d) (Fin d) ℂ) :
    (lindbladK H γ A)ᴴ = Complex.I • H - (1 / 2 : ℂ) • ∑ k, (γ k : ℂ) • ((A k)ᴴ * A k) := by
  unfold lindbladK
  simp only [conjTranspose_sub, conjTranspose_neg, conjTranspose_smul, conjTranspose_sum,
    conjTranspose_mul, conjTranspose_conjTranspose, hH, RCLike.star_def, Complex.conj_I,
    Complex.conj_ofReal, neg_smul, neg_neg, map_div₀, map_one, map_ofNat]

theorem lindbladian_eq {ι : Type} [Fintype ι] (H : Matrix (Fin d) (Fin d) ℂ) (hH : Hᴴ = H)
    (γ : ι → ℝ) (A : ι → Matrix (Fin d) (Fin d) ℂ) (X : Matrix (Fin d) (Fin d) ℂ) :
    lindbladian H γ A X
      = lindbladK H γ A * X + X * (lindbladK H γ A)ᴴ + ∑ k, (γ k : ℂ) • (A k * X * (A k)ᴴ) := by
  rw [lindbladK_conjTranspose H hH]
  unfold lindbladian lindbladK
  simp only [smul_sub, Finset.sum_sub_distrib, smul_add, Finset.sum_add_distrib, Matrix.sub_mul,
    Matrix.mul_sub, Matrix.neg_mul, Matrix.smul_mul, Matrix.mul_smul, Matrix.sum_mul,
    Matrix.mul_sum, Finset.smul_sum, smul_smul, mul_comm (1 / 2 : ℂ)]
  abel


theorem lindbladLiou_eq {ι : Type} [Fintype ι] (C : Fin N → Matrix (Fin d) (Fin d) ℂ)
    (H : Matrix (Fin d) (Fin d) ℂ) (hH : Hᴴ = H) (γ : ι → ℝ)
    (A : ι → Matrix (Fin d) (Fin d) ℂ) :
    lindbladLiou C H γ A = liouGen C (lindbladK H γ A) + liouKraus C γ A := by
  ext i j
  simp only [lindbladLiou, lindbladian_eq H hH, liouGen, liouKraus, liou, Matrix.add_apply,
    Matrix.sum_apply, Matrix.smul_apply, smul_eq_mul, Matrix.mul_add, trace_add, Matrix.mul_sum,
    trace_sum, Matrix.mul_smul, trace_smul, Matrix.mul_assoc]

/-- `L(1 + tK) = 1 + t G_K + t² L(K)` for real `t` -/
theorem liou_one_add_smul {C : Fin N → Matrix (Fin d) (Fin d) ℂ} (hH : IsOrthoHerm C) (t : ℝ)
    (K : Matrix (Fin d) (Fin d) ℂ) :
    liou C (1 + (t : ℂ) • K) = 1 + (t : ℂ) • liouGen C K + ((t : ℂ) ^ 2) • liou C K := by
  ext i j
  simp only [liou, liouGen, conjTranspose_add, conjTranspose_one, conjTranspose_smul,
    RCLike.star_def, Complex.conj_ofReal, Matrix.add_apply, Matrix.smul_apply, smul_eq_mul,
    Matrix.one_apply, Matrix.mul_add, Matrix.add_mul, Matrix.mul_one, trace_add,
    Matrix.mul_smul, Matrix.smul_mul, trace_smul, hH.ortho, Matrix.mul_assoc]
  ring

theorem liouGen_smul_real (t : ℝ) (K : Matrix (Fin d) (Fin d) ℂ) :
    liouGen C ((t : ℂ) • K) = (t : ℂ) • liouGen C K := by
  ext i j
  simp only [liouGen, conjTranspose_smul, RCLike.star_def, Complex.conj_ofReal, Matrix.smul_mul,
    Matrix.mul_smul, ← smul_add, trace_smul, Matrix.smul_apply]

theorem liouKraus_smul_real {ι : Type} [Fintype ι] (t : ℝ) (γ : ι → ℝ)
    (A : ι → Matrix (Fin d) (Fin d) ℂ) :
    (t : ℂ) • liouKraus C γ A = liouKraus C (fun k => t * γ k) A := by
  unfold liouKraus
  rw [Finset.smul_sum]
  refine Finset.sum_congr rfl fun k _ => ?_
  rw [smul_smul, Complex.ofReal_mul]


open Filter Topology in
/-- Euler limit for matrices (entrywise topology) -/
theorem matrix_tendsto_pow_exp_of_slope (L : Matrix (Fin N) (Fin N) ℂ)
    (T : ℕ → Matrix (Fin N) (Fin N) ℂ)
    (hT : Tendsto (fun n : ℕ => (n : ℝ) • (T n - 1)) atTop (𝓝 L)) :
    Tendsto (fun n => T n ^ n) atTop (𝓝 (NormedSpace.exp L)) := by
  rcases Nat.eq_zero_or_pos N with h0 | hpos
  · subst h0
    have : ∀ n, T n ^ n = NormedSpace.exp L := fun n => Subsingleton.elim _ _
    simp only [this]
    exact tendsto_const_nhds
  · have : Nonempty (Fin N) := ⟨⟨0, hpos⟩⟩
    open scoped Matrix.Norms.Operator in
    exact tendsto_pow_exp_of_slope L T hT

end Spec

/-! ### the `eigh` contract (unbundled: `M V = V diag(D)`, `V` unitary) and quadratic forms -/

section eigh
variable {n : Type*} [Fintype n] [DecidableEq n] {M V : Matrix n n ℂ} {D : n → ℝ}

/-- eigenvalues returned for a positive semidefinite matrix are non-negative -/
theorem eig_nonneg_of_posSemidef (heig : M * V = V * diagonal fun i => (D i : ℂ))
    (hl : Vᴴ * V = 1) (hM : M.PosSemidef) (i : n) : 0 ≤ D i := by
  have h1 : Vᴴ * M * V = diagonal fun i => (D i : ℂ) := by
    rw [Matrix.mul_assoc, heig, ← Matrix.mul_assoc, hl, Matrix.one_mul]
  have h2 := hM.conjTranspose_mul_mul_same V
  rw [h1, posSemidef_diagonal_iff] at h2
  exact_mod_cast h2 i

theorem quadForm_of_eig (heig : M * V = V * diagonal fun i => (D i : ℂ)) (hr : V * Vᴴ = 1)
    (x : n → ℂ) :
    star x ⬝ᵥ (M *ᵥ x) = ∑ i, (D i : ℂ) * (star ((Vᴴ *ᵥ x) i) * (Vᴴ *ᵥ x) i) := by
  have hM : M = V * (diagonal fun i => (D i : ℂ)) * Vᴴ := by
    rw [← heig, Matrix.mul_assoc, hr, Matrix.mul_one]
  have hs : star x ᵥ* V = star (Vᴴ *ᵥ x) := by
    rw [star_mulVec, conjTranspose_conjTranspose]
  conv_lhs => rw [hM]
  rw [← mulVec_mulVec, ← mulVec_mulVec, dotProduct_mulVec, hs]
  simp only [dotProduct, mulVec_diagonal, Pi.star_apply]
  refine Finset.sum_congr rfl fun i _ => ?_
  ring

theorem norm_of_unitary (hr : V * Vᴴ = 1) (x : n → ℂ) :
    star x ⬝ᵥ x = ∑ i, star ((Vᴴ *ᵥ x) i) * (Vᴴ *ᵥ x) i := by
  have hs : star x ᵥ* V = star (Vᴴ *ᵥ x) := by
    rw [star_mulVec, conjTranspose_conjTranspose]
  calc star x ⬝ᵥ x = star x ⬝ᵥ ((V * Vᴴ) *ᵥ x) := by rw [hr, one_mulVec]
    _ = ∑ i, star ((Vᴴ *ᵥ x) i) * (Vᴴ *ᵥ x) i := by
      rw [← mulVec_mulVec, dotProduct_mulVec, hs]
      simp only [dotProduct, Pi.star_apply]

/-- a vector with Rayleigh quotient below `-atol` forces an eigenvalue below `-atol` -/
theorem exists_eig_lt_of_quadForm (heig : M * V = V * diagonal fun i => (D i : ℂ))
    (hr : V * Vᴴ = 1) (x : n → ℂ) (atol : ℝ)
    (h : (star x ⬝ᵥ (M *ᵥ x)).re < -atol * (star x ⬝ᵥ x).re) : ∃ i, D i < -atol := by
  by_contra hcon
  push Not at hcon
  have hsq : ∀ z : ℂ, star z * z = ((Complex.normSq z : ℝ) : ℂ) := fun z => by
    rw [Complex.normSq_eq_conj_mul_self]; rfl
  rw [quadForm_of_eig heig hr, norm_of_unitary hr] at h
  simp only [hsq, ← Complex.ofReal_mul, ← Complex.ofReal_sum, Complex.ofReal_re,
    Finset.mul_sum] at h
  refine absurd h (not_lt.mpr (Finset.sum_le_sum fun i _ => ?_))
  exact mul_le_mul_of_nonneg_right (hcon i) (Complex.normSq_nonneg _)

omit [DecidableEq n] in
/-- the quadratic form is unchanged by a relabelling of the index set -/
theorem quadForm_submatrix_equiv {m : Type*} [Fintype m] (e : m ≃ n) (M : Matrix n n ℂ)
    (x : n → ℂ) :
    star (x ∘ e) ⬝ᵥ (M.submatrix e e *ᵥ (x ∘ e)) = star x ⬝ᵥ (M *ᵥ x) := by
  rw [submatrix_mulVec_equiv]
  have h1 : (x ∘ e) ∘ e.symm = x := by ext i; simp
  have h2 : star (x ∘ e) = star x ∘ e := rfl
  rw [h1, h2, comp_equiv_dotProduct_comp_equiv]

omit [DecidableEq n] in
theorem star_dotProduct_self_re (x : n → ℂ) :
    (star x ⬝ᵥ x).re = ∑ i, Complex.normSq (x i) := by
  simp only [dotProduct, Pi.star_apply, Complex.re_sum]
  refine Finset.sum_congr rfl fun i _ => ?_
  have : star (x i) * x i = ((Complex.normSq (x i) : ℝ) : ℂ) := by
    rw [Complex.normSq_eq_conj_mul_self]; rfl
  rw [this, Complex.ofReal_re]

end eigh

/-! ### model ↔ specification -/

namespace Model
open FFVerif.Spec
variable {N d : Nat}

/-- `liouville_representation` computes `L(U)` (every `U`, every basis) -/
theorem liouville_toMatrix (U : Mat ℂ d d) (C : Vector (Mat ℂ d d) N) :
    (Model.liouville U C false).toMatrix = Spec.liou (Spec.basisOf C) U.toMatrix := by
  ext i j
  rw [Mat.toMatrix_apply, Fin.getElem_fin, Fin.getElem_fin, Model.liouville_getElem_nat,
    Model.expand_getElem_nat, Model.conjBasis_toMatrix]
  unfold Spec.liou
  simp only [Matrix.mul_assoc]
  rw [trace_mul_comm]
  simp only [Matrix.mul_assoc]

/-- **bridge**: the model's `liouville_to_choi` is `Spec.choiMatrix` with row-major flattened
index pairs -/
theorem choiMatrix_model (S : Mat ℂ N N) (C : Vector (Mat ℂ d d) N) :
    (Model.liouvilleToChoi S C).toMatrix
      = (choiMatrix (basisOf C) S.toMatrix).submatrix (flatEquiv d d).symm (flatEquiv d d).symm := by
  ext r s
  simp only [Mat.toMatrix_apply, submatrix_apply, flatEquiv_symm_apply, choiMatrix, basisOf]
  exact Model.choi_getElem S C r s

theorem liouvilleOfKraus_getElem {n : Nat} (w : Vec ℝ n) (A : Vector (Mat ℂ d d) n)
    (C : Vector (Mat ℂ d d) N) (b : Bool) (i j : Fin N) :
    (Model.liouvilleOfKraus w A C b)[i][j]
      = ∑ m : Fin n, (w[m] : ℂ) * (Model.liouville A[m] C b)[i][j] := by
  simp only [Model.liouvilleOfKraus, Mat.ofFn_getElem, fsum_eq_sum, Fin.getElem_fin,
    Vector.getElem_map, copsOfReal]

theorem liouvilleOfKraus_toMatrix {n : Nat} (w : Vec ℝ n) (A : Vector (Mat ℂ d d) n)
    (C : Vector (Mat ℂ d d) N) :
    (Model.liouvilleOfKraus w A C false).toMatrix
      = liouKraus (basisOf C) (fun m : Fin n => w[m]) (fun m => A[m].toMatrix) := by
  ext i j
  rw [Mat.toMatrix_apply, liouvilleOfKraus_getElem]
  simp only [liouKraus, Matrix.sum_apply, Matrix.smul_apply, smul_eq_mul, ← liouville_toMatrix,
    Mat.toMatrix_apply]

/-! ### stacks -/

section stack
variable {R K : Type}
  [Zero K] [One K] [Add K] [Mul K] [Neg K] [Sub K] [Div K] [CplxOps R K]

omit [One K] [Neg K] [Sub K] [Div K] [CplxOps R K] in
/-- slice `z` of the batch instance of the conjugated-basis einsum is the single-matrix instance
on slice `z` (any scalar type) -/
theorem conjBasis_stack_getElem {Z : Nat} (X Y : Vector (Mat K d d) Z) (C : Vector (Mat K d d) N)
    (z : Nat) (hz : z < Z) :
    (Gen.superoperator_liouville_representation_0_e1 X C Y)[z]
      = Gen.superoperator_liouville_representation_0_e0 X[z] C Y[z] := by
  simp only [Gen.superoperator_liouville_representation_0_e1,
    Gen.superoperator_liouville_representation_0_e0, Vector.getElem_ofFn, Fin.getElem_fin]

omit [One K] [Neg K] [Sub K] [Div K] in
theorem liouvilleStack_getElem {Z : Nat} (Us : Vector (Mat K d d) Z) (C : Vector (Mat K d d) N)
    (b : Bool) (z : Nat) (hz : z < Z) :
    (Model.liouvilleStack Us C b)[z] = Model.liouville Us[z] C b := by
  have h := conjBasis_stack_getElem (Us.map (Mat.map CplxOps.conj)) Us C z hz
  rw [Vector.getElem_map] at h
  unfold Model.liouvilleStack Model.liouville
  rw [Vector.getElem_ofFn]
  simp only [Fin.getElem_fin, h]

end stack

/-! ### `util.mdot` of the reversed list -/

theorem mdotGo_succ {n : Nat} (Q : Vector (Mat ℂ d d) n) (k : Nat) (h : k < n) (acc : Mat ℂ d d) :
    Model.mdotGo Q (k + 1) acc = Model.mdotGo Q k (Mat.mul acc Q[k]) := by
  have : Model.mdotGo Q (k + 1) acc
      = if h : k < n then Model.mdotGo Q k (Mat.mul acc Q[k]) else Model.mdotGo Q k acc := rfl
  rw [this, dif_pos h]

theorem mdotGo_toMatrix {n : Nat} (Q : Vector (Mat ℂ d d) n) (k : Nat) (hk : k ≤ n) :
    ∀ acc : Mat ℂ d d,
      (Model.mdotGo Q k acc).toMatrix = acc.toMatrix * (Model.cumL Q k).toMatrix := by
  induction k with
  | zero =>
    intro acc
    rw [ConcatAux.cumL_zero, Mat.toMatrix_one, Matrix.mul_one]
    rfl
  | succ k ih =>
    intro acc
    rw [mdotGo_succ Q k (by omega), ih (by omega), Mat.toMatrix_mul,
      ConcatAux.cumL_succ Q k (by omega), Mat.toMatrix_mul, Matrix.mul_assoc]

/-- `util.mdot([Q_0, …, Q_{n-1}][::-1])` is the ordered product `Q_{n-1} ⋯ Q_0` (the recursion
`cumL` of `concatenate`, run on the propagators) -/
theorem mdotRev_toMatrix : ∀ {n : Nat} (Q : Vector (Mat ℂ d d) n),
    (Model.mdotRev Q).toMatrix = (Model.cumL Q n).toMatrix
  | 0, Q => by rw [ConcatAux.cumL_zero]; rfl
  | n + 1, Q => by
    have h : Model.mdotRev Q = Model.mdotGo Q n Q[n] := rfl
    rw [h, mdotGo_toMatrix Q n (by omega), ConcatAux.cumL_succ Q n (by omega), Mat.toMatrix_mul]

end Model
end FFVerif
