/-
Helper lemmas for C05Nfold about the executable model `Model/ExtendAsm` at ℝ/ℂ: what the
fancy-index assignment `control_matrix[n_oper_idx, basis_idx] = …` writes where.
-/
import FFVerif.Model.ExtendAsm
import FFVerif.Lemmas.MatBridge
import FFVerif.Lemmas.NfoldAux

namespace FFVerif.ExtendAsmAux
open FFVerif FFVerif.Model.ExtendAsm FFVerif.Model.Tensor FFVerif.NfoldAux

/-- positions that are not listed keep their value -/
theorem scatterSet_not_mem {α : Type} {M n : Nat} (src : Vector α n) (idxs : List Nat) (j0 : Nat)
    (out : Vector α M) (K : Nat) (hK : K < M) (hmem : K ∉ idxs) :
    (scatterSet src idxs j0 out)[K] = out[K] := by
  induction idxs generalizing j0 out with
  | nil => rfl
  | cons k rest ih =>
    rw [List.mem_cons, not_or] at hmem
    rw [scatterSet, ih _ _ hmem.2]
    split
    · rw [Vector.getElem_setIfInBounds_ne hK (fun h => hmem.1 h.symm)]
    · rfl

/-- the `i`-th listed position of a duplicate-free index list receives the `i`-th source entry -/
theorem scatterSet_mem {α : Type} {M n : Nat} (src : Vector α n) (idxs : List Nat) (j0 : Nat)
    (out : Vector α M) (hnd : idxs.Nodup) (hlen : j0 + idxs.length ≤ n) (hM : ∀ k ∈ idxs, k < M)
    (i : Nat) (hi : i < idxs.length) :
    (scatterSet src idxs j0 out)[idxs[i]]'(hM _ (List.getElem_mem hi))
      = src[j0 + i]'(by omega) := by
  induction idxs generalizing j0 out i with
  | nil => simp at hi
  | cons k rest ih =>
    rw [List.nodup_cons] at hnd
    have hj0 : j0 < n := by simp at hlen; omega
    cases i with
    | zero =>
      simp only [List.getElem_cons_zero, Nat.add_zero]
      rw [scatterSet, scatterSet_not_mem _ _ _ _ _ _ hnd.1, dif_pos hj0]
      simp
    | succ i =>
      simp only [List.getElem_cons_succ]
      rw [scatterSet]
      have := ih (j0 + 1) (if h : j0 < n then out.setIfInBounds k src[j0] else out) hnd.2
        (by simp at hlen ⊢; omega) (fun k hk => hM k (List.mem_cons_of_mem _ hk)) i
        (by simpa using hi)
      rw [this]
      congr 1
      omega

section row
variable {nO : Nat}

theorem scaleRow_getElem {m : Nat} (s : ℝ) (row : Mat ℂ m nO) (j : Nat) (hj : j < m) (o : Nat)
    (ho : o < nO) : (scaleRow s row)[j][o] = row[j][o] * (s : ℂ) := by
  simp [scaleRow]

/-- columns outside `basis_idx` stay zero -/
theorem extendRow_not_mem (N : Nat) (idx : List Nat) (row : Mat ℂ (4 ^ idx.length) nO) (K : Nat)
    (hK : K < 4 ^ N) (hmem : K ∉ equivalentPauli idx N) (o : Nat) (ho : o < nO) :
    (extendRow (R := ℝ) N idx row)[K][o] = 0 := by
  unfold extendRow
  rw [scatterSet_not_mem _ _ _ _ K hK hmem]
  simp

/-- column `basis_idx[j]` receives `row[j] * sqrt(scaling_factor)` -/
theorem extendRow_mem (N : Nat) (idx : List Nat) (row : Mat ℂ (4 ^ idx.length) nO)
    (hnd : (equivalentPauli idx N).Nodup) (hlen : (equivalentPauli idx N).length = 4 ^ idx.length)
    (hM : ∀ k ∈ equivalentPauli idx N, k < 4 ^ N) (j : Nat) (hj : j < 4 ^ idx.length) (o : Nat)
    (ho : o < nO) :
    ((extendRow (R := ℝ) N idx row)[(equivalentPauli idx N)[j]'(hlen ▸ hj)]'(hM _
        (List.getElem_mem _)))[o]
      = row[j][o] * ((Real.sqrt ((2 ^ (N - idx.length) : ℕ) : ℝ) : ℝ) : ℂ) := by
  unfold extendRow
  rw [scatterSet_mem _ _ 0 _ hnd (by omega) hM j (hlen ▸ hj)]
  simp only [Nat.zero_add]
  rw [scaleRow_getElem]
  rfl

end row

section labels
variable {P : Type} [Fintype P] [DecidableEq P] {nO : Nat}

/-- **What one assembled row holds at the flattened label tuple `f k`**: if
`equivalent_pauli_basis_elements(ind_p, N)` lists the flattened label tuples that are `z` outside
party `p` (`hidx`), the row of the assembled control matrix holds `√(2^{N-|ind_p|}) · row[k_p]` at
the tuples `k` that are `z_q` on every other party and `0` at all other tuples. -/
theorem extendRow_apply (idx : P → List Nat) (N : Nat)
    (f : (∀ q, Fin (4 ^ (idx q).length)) ≃ Fin (4 ^ N)) (z : ∀ q, Fin (4 ^ (idx q).length)) (p : P)
    (hidx : equivalentPauli (idx p) N
      = List.ofFn fun j : Fin (4 ^ (idx p).length) => (f (Function.update z p j)).1)
    (row : Mat ℂ (4 ^ (idx p).length) nO) (k : ∀ q, Fin (4 ^ (idx q).length)) (o : Fin nO) :
    (extendRow (R := ℝ) N (idx p) row)[f k][o]
      = if ∀ q, q ≠ p → k q = z q then
          ((Real.sqrt ((2 ^ (N - (idx p).length) : ℕ) : ℝ) : ℝ) : ℂ) * row[k p][o]
        else 0 := by
  have hinj : Function.Injective fun j : Fin (4 ^ (idx p).length) =>
      (f (Function.update z p j)).1 := fun j j' h => by
    have h1 := f.injective (Fin.ext h)
    have h2 := congrFun h1 p
    rwa [Function.update_self, Function.update_self] at h2
  have hnd : (equivalentPauli (idx p) N).Nodup := by
    rw [hidx]; exact List.nodup_ofFn.mpr hinj
  have hlen : (equivalentPauli (idx p) N).length = 4 ^ (idx p).length := by
    rw [hidx, List.length_ofFn]
  have hM : ∀ K ∈ equivalentPauli (idx p) N, K < 4 ^ N := by
    intro K hK
    rw [hidx, List.mem_ofFn] at hK
    obtain ⟨j, rfl⟩ := hK
    exact (f _).2
  by_cases hc : ∀ q, q ≠ p → k q = z q
  · rw [if_pos hc]
    have hk : (f k).1 = (equivalentPauli (idx p) N)[(k p).1]'(by rw [hlen]; exact (k p).2) := by
      simp only [hidx, List.getElem_ofFn, Fin.eta]
      rw [← (agree_off_iff p z k).mp hc]
    have := extendRow_mem N (idx p) row hnd hlen hM (k p).1 (k p).2 o.1 o.2
    simp only [Fin.getElem_fin, hk]
    rw [this, mul_comm]
  · rw [if_neg hc]
    have hmem : (f k).1 ∉ equivalentPauli (idx p) N := by
      intro hK
      rw [hidx, List.mem_ofFn] at hK
      obtain ⟨j, hj⟩ := hK
      have h1 := f.injective (Fin.ext hj)
      exact hc (h1 ▸ update_agree_off p z j)
    exact extendRow_not_mem N (idx p) row (f k).1 (f k).2 hmem o.1 o.2

end labels

/-! ### where the rows of pulse `i` sit in the assembled array -/

section rows
variable {nO : Nat}

/-- `n_ops_counter` when the loop reaches pulse `i` -/
def offset : List (MappedPulse ℂ nO) → Nat → Nat
  | [], _ => 0
  | _ :: _, 0 => 0
  | p :: ps, i + 1 => p.nA + offset ps i

theorem offset_add_lt (ps : List (MappedPulse ℂ nO)) (i : Nat) (hi : i < ps.length) (a : Nat)
    (ha : a < ps[i].nA) : offset ps i + a < totalRows ps := by
  induction ps generalizing i with
  | nil => simp at hi
  | cons p ps ih =>
    cases i with
    | zero =>
      simp only [List.getElem_cons_zero] at ha
      simp only [offset, totalRows]; omega
    | succ i =>
      simp only [List.getElem_cons_succ] at ha
      have := ih i (by simpa using hi) ha
      simp only [offset, totalRows]; omega

/-- the block of rows of pulse `i` is `extendRow` of its cached control matrix -/
theorem pulseRows_getElem (N : Nat) (ps : List (MappedPulse ℂ nO)) (i : Nat) (hi : i < ps.length)
    (a : Nat) (ha : a < ps[i].nA) :
    (pulseRows (R := ℝ) N ps)[offset ps i + a]'(offset_add_lt ps i hi a ha)
      = extendRow (R := ℝ) N ps[i].idx ps[i].cm[a] := by
  induction ps generalizing i with
  | nil => simp at hi
  | cons p ps ih =>
    cases i with
    | zero =>
      simp only [List.getElem_cons_zero] at ha
      simp only [pulseRows, offset, Nat.zero_add, List.getElem_cons_zero]
      refine (Vector.getElem_append_left (xs := extendRows (R := ℝ) N p)
        (ys := pulseRows (R := ℝ) N ps) ha).trans ?_
      simp [extendRows]
    | succ i =>
      simp only [List.getElem_cons_succ] at ha
      simp only [pulseRows, offset, List.getElem_cons_succ]
      have hlt := offset_add_lt ps i (by simpa using hi) a ha
      refine (Vector.getElem_append_right (xs := extendRows (R := ℝ) N p)
        (ys := pulseRows (R := ℝ) N ps) (i := p.nA + offset ps i + a) (by omega) (by omega)).trans ?_
      have := ih i (by simpa using hi) ha
      simp only [Nat.add_assoc, Nat.add_sub_cancel_left]
      exact this

/-- every row below `n_ops_counter` belongs to exactly one pulse -/
theorem rows_cover (ps : List (MappedPulse ℂ nO)) (r : Nat) (hr : r < totalRows ps) :
    ∃ (i : Nat) (hi : i < ps.length) (a : Nat), a < ps[i].nA ∧ r = offset ps i + a := by
  induction ps generalizing r with
  | nil => simp [totalRows] at hr
  | cons p ps ih =>
    by_cases h : r < p.nA
    · exact ⟨0, by simp, r, by simpa using h, by simp [offset]⟩
    · simp only [totalRows] at hr
      obtain ⟨i, hi, a, ha, he⟩ := ih (r - p.nA) (by omega)
      exact ⟨i + 1, by simpa using hi, a, by simpa using ha, by simp only [offset]; omega⟩

end rows

end FFVerif.ExtendAsmAux
