/-
Helper lemmas for C14, generalized Gell-Mann basis: the NumPy index arithmetic of `Basis.ggm` /
`ggm_expand` (pairs of the upper triangle), the matrices of the four families, their traces.
-/
import Mathlib.Tactic.Ring
import Mathlib.Tactic.Linarith
import Mathlib.Algebra.Order.Ring.Nat
import Mathlib.Data.List.GetD
import FFVerif.Lemmas.BasisAux

namespace FFVerif.Model

/-! ### Index arithmetic -/

/-- offsets of `np.repeat(np.arange(n), f)`: `offS f j = Σ_{j' < j} f j'` -/
def offS (f : Nat → Nat) : Nat → Nat
  | 0 => 0
  | n + 1 => offS f n + f n

theorem offS_mono (f : Nat → Nat) {i j : Nat} (h : i ≤ j) : offS f i ≤ offS f j := by
  induction j with
  | zero => simp at h; subst h; exact Nat.le_refl _
  | succ j ih =>
    rcases Nat.lt_or_ge i (j + 1) with h' | h'
    · exact Nat.le_trans (ih (by omega)) (by simp [offS])
    · have : i = j + 1 := by omega
      subst this; exact Nat.le_refl _

theorem repeat_length (f : Nat → Nat) (n : Nat) :
    ((List.range n).flatMap fun j => List.replicate (f j) j).length = offS f n := by
  induction n with
  | zero => simp [offS]
  | succ n ih =>
    rw [List.range_succ, List.flatMap_append, List.length_append, ih]
    simp [offS]

/-- entry `offS f j + t` (`t < f j`) of `np.repeat(np.arange(n), f)` is `j` -/
theorem repeat_getD (f : Nat → Nat) (n j t : Nat) (hj : j < n) (ht : t < f j) :
    ((List.range n).flatMap fun j => List.replicate (f j) j).getD (offS f j + t) 0 = j := by
  induction n with
  | zero => omega
  | succ n ih =>
    rw [List.range_succ, List.flatMap_append]
    rcases Nat.lt_or_ge j n with h | h
    · have hlt : offS f j + t < ((List.range n).flatMap fun j => List.replicate (f j) j).length := by
        rw [repeat_length]
        calc offS f j + t < offS f j + f j := by omega
          _ = offS f (j + 1) := rfl
          _ ≤ offS f n := offS_mono f h
      rw [List.getD_append _ _ _ _ hlt]
      exact ih h
    · have hjn : j = n := by omega
      subst hjn
      rw [List.getD_append_right _ _ _ _ (by rw [repeat_length]; omega), repeat_length]
      simp [List.getD_eq_getElem?_getD, ht]

/-- every position below the total length decomposes as `offS f j + t` -/
theorem offS_decomp (f : Nat → Nat) (n p : Nat) (hp : p < offS f n) :
    ∃ j t, j < n ∧ t < f j ∧ p = offS f j + t := by
  induction n with
  | zero => simp [offS] at hp
  | succ n ih =>
    rcases Nat.lt_or_ge p (offS f n) with h | h
    · obtain ⟨j, t, hj, ht, rfl⟩ := ih h
      exact ⟨j, t, by omega, ht, rfl⟩
    · refine ⟨n, p - offS f n, by omega, ?_, by omega⟩
      simp only [offS] at hp
      omega

/-- `2·Σ_{j'<j} (D - j') = j (2D - j + 1)` for `j ≤ D` -/
theorem two_offS (D j : Nat) (hj : j ≤ D) :
    2 * offS (fun j => D - j) j = j * (2 * D + 1 - j) := by
  induction j with
  | zero => simp [offS]
  | succ j ih =>
    obtain ⟨r, rfl⟩ : ∃ r, D = j + 1 + r := ⟨D - j - 1, by omega⟩
    simp only [offS]
    rw [Nat.mul_add, ih (by omega)]
    have h1 : 2 * (j + 1 + r) + 1 - j = j + 3 + 2 * r := by omega
    have h2 : j + 1 + r - j = 1 + r := by omega
    have h3 : 2 * (j + 1 + r) + 1 - (j + 1) = j + 2 + 2 * r := by omega
    rw [h1, h2, h3]
    ring

/-- the offsets in the form that appears in the source: `offS j - j = j (2d - j - 3) / 2` -/
theorem ggmKof_at (d j t : Nat) (hj : j < d - 1) :
    ggmKof d j (offS (fun j => d - 1 - j) j + t) = j + 1 + t := by
  obtain ⟨D, rfl⟩ : ∃ D, d = D + 1 := ⟨d - 1, by omega⟩
  simp only [Nat.add_sub_cancel] at hj ⊢
  have h := two_offS D j (by omega)
  unfold ggmKof
  obtain ⟨r, rfl⟩ : ∃ r, D = j + 1 + r := ⟨D - j - 1, by omega⟩
  have h1 : 2 * (j + 1 + r + 1) - j - 3 = j + 1 + 2 * r := by omega
  have h2 : 2 * (j + 1 + r) + 1 - j = j + 3 + 2 * r := by omega
  rw [h1]
  rw [h2] at h
  have h3 : j * (j + 1 + 2 * r) = 2 * (offS (fun j_1 => j + 1 + r - j_1) j - j) := by
    have : j * (j + 3 + 2 * r) = j * (j + 1 + 2 * r) + 2 * j := by ring
    omega
  rw [h3, Nat.mul_div_cancel_left _ (by norm_num : 0 < 2)]
  have h4 : j ≤ offS (fun j_1 => j + 1 + r - j_1) j := by
    have : j * (j + 3 + 2 * r) = j * (j + 1 + 2 * r) + 2 * j := by ring
    omega
  omega

theorem ggmPair_at (d j t : Nat) (hj : j < d - 1) (ht : t < d - 1 - j) :
    ggmPair d (ggmJ d) (offS (fun j => d - 1 - j) j + t) = (j, j + 1 + t) := by
  unfold ggmPair ggmJ
  simp only
  rw [repeat_getD (fun j => d - 1 - j) (d - 1) j t hj ht, ggmKof_at d j t hj]

theorem nSym_eq (d : Nat) : nSym d = offS (fun j => d - 1 - j) (d - 1) := by
  unfold nSym
  rcases d with _ | D
  · simp [offS]
  · simp only [Nat.add_sub_cancel]
    have h := two_offS D D (Nat.le_refl _)
    have h1 : 2 * D + 1 - D = D + 1 := by omega
    rw [h1] at h
    rw [Nat.mul_comm (D + 1) D, ← h, Nat.mul_div_cancel_left _ (by norm_num : 0 < 2)]


/-- abbreviation: the run lengths `d-1-j` of `np.repeat(np.arange(d - 1), np.arange(d - 1, 0, -1))` -/
abbrev ggmF (d : Nat) : Nat → Nat := fun j => d - 1 - j

/-- every position `p < n_sym` decodes to a pair `(j, k)` with `j < k < d`, via
`p = offS j + t`, `k = j + 1 + t` -/
theorem ggmPair_decomp (d p : Nat) (hp : p < nSym d) :
    ∃ j t, j < d - 1 ∧ t < d - 1 - j ∧ p = offS (ggmF d) j + t ∧
      ggmPair d (ggmJ d) p = (j, j + 1 + t) := by
  rw [nSym_eq] at hp
  obtain ⟨j, t, hj, ht, rfl⟩ := offS_decomp (ggmF d) (d - 1) p hp
  exact ⟨j, t, hj, ht, rfl, ggmPair_at d j t hj ht⟩

theorem ggm_index_range (d p : Nat) (hp : p < nSym d) :
    (ggmPair d (ggmJ d) p).1 < (ggmPair d (ggmJ d) p).2 ∧ (ggmPair d (ggmJ d) p).2 < d := by
  obtain ⟨j, t, hj, ht, -, h⟩ := ggmPair_decomp d p hp
  rw [h]
  constructor <;> simp only <;> omega

theorem ggm_index_inj (d p p' : Nat) (hp : p < nSym d) (hp' : p' < nSym d)
    (h : ggmPair d (ggmJ d) p = ggmPair d (ggmJ d) p') : p = p' := by
  obtain ⟨j, t, -, -, rfl, h1⟩ := ggmPair_decomp d p hp
  obtain ⟨j', t', -, -, rfl, h2⟩ := ggmPair_decomp d p' hp'
  rw [h1, h2] at h
  have hj : j = j' := congrArg Prod.fst h
  have ht : j + 1 + t = j' + 1 + t' := congrArg Prod.snd h
  subst hj
  have : t = t' := by omega
  rw [this]

theorem ggm_index_surj (d j k : Nat) (hjk : j < k) (hk : k < d) :
    ∃ p, p < nSym d ∧ ggmPair d (ggmJ d) p = (j, k) := by
  refine ⟨offS (ggmF d) j + (k - j - 1), ?_, ?_⟩
  · rw [nSym_eq]
    calc offS (ggmF d) j + (k - j - 1) < offS (ggmF d) j + ggmF d j := by
          simp only [ggmF]; omega
      _ = offS (ggmF d) (j + 1) := rfl
      _ ≤ offS (ggmF d) (d - 1) := offS_mono _ (by omega)
  · rw [ggmPair_at d j (k - j - 1) (by omega) (by omega)]
    congr 1; omega

end FFVerif.Model

/-! ### The four families as Mathlib matrices -/

namespace FFVerif.Spec
open Matrix

variable {d : Nat}

/-- two-entry matrix `x E_jk + y E_kj` -/
noncomputable def ggmT (j k : Fin d) (x y : ℂ) : Matrix (Fin d) (Fin d) ℂ :=
  x • Matrix.single j k 1 + y • Matrix.single k j 1

theorem ggmT_apply (j k : Fin d) (x y : ℂ) (a b : Fin d) :
    ggmT j k x y a b = (if j = a ∧ k = b then x else 0) + (if k = a ∧ j = b then y else 0) := by
  simp only [ggmT, Matrix.add_apply, Matrix.smul_apply, Matrix.single_apply, smul_eq_mul, mul_ite,
    mul_one, mul_zero]

theorem trace_ggmT_mul (j k : Fin d) (x y : ℂ) (F : Matrix (Fin d) (Fin d) ℂ) :
    trace (ggmT j k x y * F) = x * F k j + y * F j k := by
  simp only [ggmT, Matrix.add_mul, Matrix.smul_mul, trace_add, trace_smul, trace_single_mul,
    smul_eq_mul, one_mul]

theorem trace_ggmT_mul_ggmT {j k j' k' : Fin d} (hjk : j < k) (hjk' : j' < k') (x y x' y' : ℂ) :
    trace (ggmT j k x y * ggmT j' k' x' y') = if j = j' ∧ k = k' then x * y' + y * x' else 0 := by
  rw [trace_ggmT_mul, ggmT_apply, ggmT_apply]
  have h1 : ¬(j' = k ∧ k' = j) := by
    rintro ⟨h1, h2⟩; subst h1 h2; exact absurd hjk (not_lt.mpr hjk'.le)
  have h2 : ¬(k' = j ∧ j' = k) := fun h => h1 ⟨h.2, h.1⟩
  rw [if_neg h1, if_neg h2]
  by_cases h : j = j' ∧ k = k'
  · obtain ⟨rfl, rfl⟩ := h; simp
  · rw [if_neg h, if_neg (fun h' => h ⟨h'.2.symm, h'.1.symm⟩),
      if_neg (fun h' => h ⟨h'.1.symm, h'.2.symm⟩)]
    simp

theorem conjTranspose_ggmT (j k : Fin d) (x y : ℂ) :
    (ggmT j k x y)ᴴ = ggmT j k (star y) (star x) := by
  ext a b
  simp only [Matrix.conjTranspose_apply, ggmT_apply]
  rw [star_add, add_comm]
  congr 1
  · by_cases h : k = b ∧ j = a
    · rw [if_pos h, if_pos ⟨h.2, h.1⟩]
    · rw [if_neg h, if_neg (fun h' => h ⟨h'.2, h'.1⟩), star_zero]
  · by_cases h : j = b ∧ k = a
    · rw [if_pos h, if_pos ⟨h.2, h.1⟩]
    · rw [if_neg h, if_neg (fun h' => h ⟨h'.2, h'.1⟩), star_zero]

theorem sum_lt_eq (l : Nat) (hl : l ≤ d) (F : ℕ → ℂ) :
    ∑ a : Fin d, (if a.1 < l then F a.1 else 0) = ∑ i : Fin l, F i.1 := by
  rw [Fin.sum_univ_eq_sum_range (fun a => if a < l then F a else 0) d,
    Fin.sum_univ_eq_sum_range F l]
  rw [← Finset.sum_subset (Finset.range_subset_range.mpr hl)]
  · refine Finset.sum_congr rfl fun a ha => ?_
    rw [if_pos (Finset.mem_range.mp ha)]
  · intro a _ ha
    rw [if_neg (fun h => ha (Finset.mem_range.mpr h))]

theorem sum_eq_eq (l : Nat) (hl : l < d) (H : Fin d → ℂ) :
    ∑ a : Fin d, (if a.1 = l then H a else 0) = H ⟨l, hl⟩ := by
  rw [Finset.sum_eq_single (⟨l, hl⟩ : Fin d)]
  · simp
  · intro a _ ha
    rw [if_neg (fun h => ha (Fin.ext h))]
  · intro h; exact absurd (Finset.mem_univ _) h

/-- diagonal of the `l`-th diagonal GGM element with generic values `u` (`a < l`), `v` (`a = l`) -/
def stepFn (l : Nat) (u v : ℂ) (a : Fin d) : ℂ :=
  if a.1 < l then u else if a.1 = l then v else 0

theorem sum_stepFn_mul (l : Nat) (hl : l < d) (u v : ℂ) (w : ℕ → ℂ) :
    ∑ a : Fin d, stepFn l u v a * w a.1 = u * ∑ i : Fin l, w i.1 + v * w l := by
  have h : ∀ a : Fin d, stepFn l u v a * w a.1
      = (if a.1 < l then u * w a.1 else 0) + (if a.1 = l then v * w a.1 else 0) := by
    intro a
    unfold stepFn
    by_cases h1 : a.1 < l
    · rw [if_pos h1, if_pos h1, if_neg (by omega), add_zero]
    · by_cases h2 : a.1 = l
      · rw [if_neg h1, if_pos h2, if_neg h1, if_pos h2, zero_add]
      · rw [if_neg h1, if_neg h2, if_neg h1, if_neg h2, zero_mul, add_zero]
  simp only [h, Finset.sum_add_distrib]
  rw [sum_lt_eq l hl.le (fun a => u * w a), sum_eq_eq l hl (fun a => v * w a.1), Finset.mul_sum]

/-- `1/√x` as a complex number -/
noncomputable def cR (x : ℕ) : ℂ := ((1 / Real.sqrt (x : ℝ) : ℝ) : ℂ)

theorem cR_mul_self (x : ℕ) : cR x * cR x = 1 / (x : ℂ) := by
  unfold cR
  rw [← Complex.ofReal_mul, one_div_mul_one_div, Real.mul_self_sqrt (Nat.cast_nonneg _)]
  push_cast; rfl

theorem star_cR (x : ℕ) : star (cR x) = cR x := by
  unfold cR; exact Complex.conj_ofReal _

/-- the kinds of GGM elements -/
inductive GKind (d : Nat)
  | id
  | sym (j k : Fin d)
  | asym (j k : Fin d)
  | diag (l : Fin d)
  deriving DecidableEq

def GKind.Valid : GKind d → Prop
  | .id => True
  | .sym j k => j < k
  | .asym j k => j < k
  | .diag l => 0 < l.1

/-- values of the `l`-th diagonal element: `1/√(l(l+1))` and `-l/√(l(l+1))` -/
noncomputable def dU (l : ℕ) : ℂ := cR (l * (l + 1)) * 1
noncomputable def dV (l : ℕ) : ℂ := cR (l * (l + 1)) * ((-(l : ℝ) : ℝ) : ℂ)

noncomputable def GKind.mat : GKind d → Matrix (Fin d) (Fin d) ℂ
  | .id => cR d • 1
  | .sym j k => ggmT j k (cR 2) (cR 2)
  | .asym j k => ggmT j k (-Complex.I * cR 2) (Complex.I * cR 2)
  | .diag l => Matrix.diagonal (stepFn l.1 (dU l.1) (dV l.1))

theorem trace_ggmT_mul_scalar {j k : Fin d} (hjk : j ≠ k) (x y c : ℂ) :
    trace (ggmT j k x y * (c • (1 : Matrix (Fin d) (Fin d) ℂ))) = 0 := by
  rw [trace_ggmT_mul, Matrix.smul_apply, Matrix.smul_apply, Matrix.one_apply_ne hjk.symm,
    Matrix.one_apply_ne hjk]
  simp

theorem trace_ggmT_mul_diagonal {j k : Fin d} (hjk : j ≠ k) (x y : ℂ) (f : Fin d → ℂ) :
    trace (ggmT j k x y * Matrix.diagonal f) = 0 := by
  rw [trace_ggmT_mul, Matrix.diagonal_apply_ne _ hjk.symm, Matrix.diagonal_apply_ne _ hjk]
  simp

theorem dU_dV_sum (l : ℕ) : dU l * (l : ℂ) + dV l = 0 := by
  unfold dU dV; push_cast; ring

theorem dU_dV_sq (l : ℕ) (hl : 0 < l) : dU l * dU l * (l : ℂ) + dV l * dV l = 1 := by
  unfold dU dV
  have h := cR_mul_self (l * (l + 1))
  have hne : ((l * (l + 1) : ℕ) : ℂ) ≠ 0 := by
    exact_mod_cast (Nat.mul_pos hl (Nat.succ_pos l)).ne'
  have : cR (l * (l + 1)) * 1 * (cR (l * (l + 1)) * 1) * (l : ℂ)
      + cR (l * (l + 1)) * ((-(l : ℝ) : ℝ) : ℂ) * (cR (l * (l + 1)) * ((-(l : ℝ) : ℝ) : ℂ))
      = (cR (l * (l + 1)) * cR (l * (l + 1))) * ((l * (l + 1) : ℕ) : ℂ) := by
    push_cast; ring
  rw [this, h, one_div, inv_mul_cancel₀ hne]

theorem sum_stepFn (l : Nat) (hl : l < d) (u v : ℂ) :
    ∑ a : Fin d, stepFn l u v a = u * (l : ℂ) + v := by
  have h := sum_stepFn_mul (d := d) l hl u v (fun _ => 1)
  simpa using h

theorem trace_diag_diag_same (l : Fin d) (hl : 0 < l.1) :
    trace (Matrix.diagonal (stepFn l.1 (dU l.1) (dV l.1))
      * Matrix.diagonal (stepFn (d := d) l.1 (dU l.1) (dV l.1))) = 1 := by
  rw [Matrix.diagonal_mul_diagonal, Matrix.trace_diagonal]
  have h : ∀ a : Fin d, stepFn l.1 (dU l.1) (dV l.1) a * stepFn l.1 (dU l.1) (dV l.1) a
      = stepFn l.1 (dU l.1 * dU l.1) (dV l.1 * dV l.1) a := by
    intro a; unfold stepFn
    split
    · rfl
    · split
      · rfl
      · simp
  simp only [h]
  rw [sum_stepFn l.1 l.2, dU_dV_sq l.1 hl]

theorem trace_diag_diag_lt (l l' : Fin d) (hll : l.1 < l'.1) :
    trace (Matrix.diagonal (stepFn l.1 (dU l.1) (dV l.1))
      * Matrix.diagonal (stepFn (d := d) l'.1 (dU l'.1) (dV l'.1))) = 0 := by
  rw [Matrix.diagonal_mul_diagonal, Matrix.trace_diagonal]
  have h : ∀ a : Fin d, stepFn l.1 (dU l.1) (dV l.1) a * stepFn l'.1 (dU l'.1) (dV l'.1) a
      = stepFn l.1 (dU l.1) (dV l.1) a * dU l'.1 := by
    intro a; unfold stepFn
    by_cases h1 : a.1 < l.1
    · rw [if_pos h1, if_pos (by omega)]
    · by_cases h2 : a.1 = l.1
      · rw [if_neg h1, if_pos h2, if_pos (by omega)]
      · rw [if_neg h1, if_neg h2, zero_mul, zero_mul]
  simp only [h, ← Finset.sum_mul]
  rw [sum_stepFn l.1 l.2, dU_dV_sum, zero_mul]

theorem cR2_sq : cR 2 * cR 2 = 1 / 2 := by
  rw [cR_mul_self]; norm_num

theorem GKind.trace_mat_mul_mat (hd : 0 < d) (κ κ' : GKind d) (h : κ.Valid) (h' : κ'.Valid) :
    trace (κ.mat * κ'.mat) = if κ = κ' then 1 else 0 := by
  cases κ with
  | id =>
    cases κ' with
    | id =>
      simp only [GKind.mat, if_true, Matrix.smul_mul, Matrix.mul_smul, Matrix.one_mul, trace_smul,
        Matrix.trace_one, Fintype.card_fin, smul_eq_mul]
      rw [← mul_assoc, cR_mul_self, one_div, inv_mul_cancel₀]
      exact_mod_cast hd.ne'
    | sym j k =>
      rw [trace_mul_comm]
      simp only [GKind.mat, reduceCtorEq, if_false]
      exact trace_ggmT_mul_scalar (ne_of_lt h') _ _ _
    | asym j k =>
      rw [trace_mul_comm]
      simp only [GKind.mat, reduceCtorEq, if_false]
      exact trace_ggmT_mul_scalar (ne_of_lt h') _ _ _
    | diag l =>
      simp only [GKind.mat, reduceCtorEq, if_false, Matrix.smul_mul, Matrix.one_mul, trace_smul,
        Matrix.trace_diagonal]
      rw [sum_stepFn l.1 l.2, dU_dV_sum, smul_zero]
  | sym j k =>
    cases κ' with
    | id =>
      simp only [GKind.mat, reduceCtorEq, if_false]
      exact trace_ggmT_mul_scalar (ne_of_lt h) _ _ _
    | sym j' k' =>
      simp only [GKind.mat, GKind.sym.injEq]
      rw [trace_ggmT_mul_ggmT h h', ← two_mul, cR2_sq]
      norm_num
    | asym j' k' =>
      simp only [GKind.mat, reduceCtorEq, if_false]
      rw [trace_ggmT_mul_ggmT h h']
      split <;> ring
    | diag l =>
      simp only [GKind.mat, reduceCtorEq, if_false]
      exact trace_ggmT_mul_diagonal (ne_of_lt h) _ _ _
  | asym j k =>
    cases κ' with
    | id =>
      simp only [GKind.mat, reduceCtorEq, if_false]
      exact trace_ggmT_mul_scalar (ne_of_lt h) _ _ _
    | sym j' k' =>
      simp only [GKind.mat, reduceCtorEq, if_false]
      rw [trace_ggmT_mul_ggmT h h']
      split <;> ring
    | asym j' k' =>
      simp only [GKind.mat, GKind.asym.injEq]
      rw [trace_ggmT_mul_ggmT h h']
      have : -Complex.I * cR 2 * (Complex.I * cR 2) + Complex.I * cR 2 * (-Complex.I * cR 2) = 1 := by
        have : -Complex.I * cR 2 * (Complex.I * cR 2) + Complex.I * cR 2 * (-Complex.I * cR 2)
            = -(Complex.I * Complex.I) * (2 * (cR 2 * cR 2)) := by ring
        rw [this, Complex.I_mul_I, cR2_sq]; norm_num
      rw [this]
    | diag l =>
      simp only [GKind.mat, reduceCtorEq, if_false]
      exact trace_ggmT_mul_diagonal (ne_of_lt h) _ _ _
  | diag l =>
    cases κ' with
    | id =>
      simp only [GKind.mat, reduceCtorEq, if_false, Matrix.mul_smul, Matrix.mul_one, trace_smul,
        Matrix.trace_diagonal]
      rw [sum_stepFn l.1 l.2, dU_dV_sum, smul_zero]
    | sym j k =>
      rw [trace_mul_comm]
      simp only [GKind.mat, reduceCtorEq, if_false]
      exact trace_ggmT_mul_diagonal (ne_of_lt h') _ _ _
    | asym j k =>
      rw [trace_mul_comm]
      simp only [GKind.mat, reduceCtorEq, if_false]
      exact trace_ggmT_mul_diagonal (ne_of_lt h') _ _ _
    | diag l' =>
      simp only [GKind.mat, GKind.diag.injEq]
      rcases Nat.lt_trichotomy l.1 l'.1 with hlt | heq | hgt
      · rw [if_neg (fun e => by rw [e] at hlt; exact Nat.lt_irrefl _ hlt)]
        exact trace_diag_diag_lt l l' hlt
      · have : l = l' := Fin.ext heq
        subst this
        rw [if_pos rfl]
        exact trace_diag_diag_same l h
      · rw [if_neg (fun e => by rw [e] at hgt; exact Nat.lt_irrefl _ hgt), trace_mul_comm]
        exact trace_diag_diag_lt l' l hgt

theorem star_dU (l : ℕ) : star (dU l) = dU l := by
  unfold dU; rw [star_mul', star_cR, star_one]

theorem star_dV (l : ℕ) : star (dV l) = dV l := by
  unfold dV; rw [star_mul', star_cR]; congr 1; exact Complex.conj_ofReal _

theorem GKind.mat_herm (κ : GKind d) : (κ.mat)ᴴ = κ.mat := by
  cases κ with
  | id => simp only [GKind.mat, Matrix.conjTranspose_smul, star_cR, Matrix.conjTranspose_one]
  | sym j k => simp only [GKind.mat, conjTranspose_ggmT, star_cR]
  | asym j k =>
    simp only [GKind.mat, conjTranspose_ggmT, star_mul', star_cR, star_neg, Complex.star_def,
      Complex.conj_I, neg_neg]
  | diag l =>
    simp only [GKind.mat, Matrix.diagonal_conjTranspose]
    congr 1
    funext a
    simp only [Pi.star_apply, stepFn]
    split
    · exact star_dU _
    · split
      · exact star_dV _
      · exact star_zero _

end FFVerif.Spec

/-! ### Decoding element indices -/

namespace FFVerif.Model
open FFVerif.Spec Matrix

theorem dd_eq (d : Nat) (hd : 0 < d) : d * d = 2 * nSym d + d := by
  obtain ⟨D, rfl⟩ : ∃ D, d = D + 1 := ⟨d - 1, by omega⟩
  rw [nSym_eq]
  simp only [Nat.add_sub_cancel]
  have h := two_offS D D (Nat.le_refl _)
  have h1 : 2 * D + 1 - D = D + 1 := by omega
  rw [h1] at h
  show (D + 1) * (D + 1) = 2 * offS (fun j => D + 1 - 1 - j) D + (D + 1)
  simp only [Nat.add_sub_cancel]
  rw [h]; ring

/-- decode an element index of `Basis.ggm(d)` into its kind -/
def kindOf (d : Nat) (e : Fin (d * d)) : GKind d :=
  if h0 : e.1 = 0 then .id
  else if h1 : e.1 ≤ nSym d then
    .sym ⟨(ggmPair d (ggmJ d) (e.1 - 1)).1, by
        have := ggm_index_range d (e.1 - 1) (by omega); omega⟩
      ⟨(ggmPair d (ggmJ d) (e.1 - 1)).2, by
        have := ggm_index_range d (e.1 - 1) (by omega); omega⟩
  else if h2 : e.1 ≤ 2 * nSym d then
    .asym ⟨(ggmPair d (ggmJ d) (e.1 - 1 - nSym d)).1, by
        have := ggm_index_range d (e.1 - 1 - nSym d) (by omega); omega⟩
      ⟨(ggmPair d (ggmJ d) (e.1 - 1 - nSym d)).2, by
        have := ggm_index_range d (e.1 - 1 - nSym d) (by omega); omega⟩
  else
    .diag ⟨e.1 - 2 * nSym d, by
      have hd : 0 < d := by
        rcases d with _ | d
        · exact absurd e.2 (by simp)
        · omega
      have := dd_eq d hd
      have := e.2
      omega⟩

variable {d : Nat}

theorem two_entry_eq (j k a b : Fin d) (hjk : j ≠ k) (x y : ℂ) :
    (if a.1 = j.1 ∧ b.1 = k.1 then x else if a.1 = k.1 ∧ b.1 = j.1 then y else 0)
      = ggmT j k x y a b := by
  rw [ggmT_apply]
  by_cases h1 : a.1 = j.1 ∧ b.1 = k.1
  · have e1 : j = a := Fin.ext h1.1.symm
    have e2 : k = b := Fin.ext h1.2.symm
    subst e1 e2
    rw [if_pos ⟨rfl, rfl⟩, if_pos ⟨rfl, rfl⟩, if_neg (fun h => hjk h.2), add_zero]
  · have h1' : ¬(j = a ∧ k = b) :=
      fun h => h1 ⟨(congrArg Fin.val h.1).symm, (congrArg Fin.val h.2).symm⟩
    rw [if_neg h1, if_neg h1', zero_add]
    by_cases h2 : a.1 = k.1 ∧ b.1 = j.1
    · rw [if_pos h2, if_pos ⟨Fin.ext h2.1.symm, Fin.ext h2.2.symm⟩]
    · have h2' : ¬(k = a ∧ j = b) :=
        fun h => h2 ⟨(congrArg Fin.val h.1).symm, (congrArg Fin.val h.2).symm⟩
      rw [if_neg h2, if_neg h2']

theorem two_entry_or_eq (j k a b : Fin d) (hjk : j ≠ k) (x : ℂ) :
    (if (a.1 = j.1 ∧ b.1 = k.1) ∨ (a.1 = k.1 ∧ b.1 = j.1) then x else 0)
      = ggmT j k x x a b := by
  rw [← two_entry_eq j k a b hjk]
  by_cases h1 : a.1 = j.1 ∧ b.1 = k.1
  · rw [if_pos (Or.inl h1), if_pos h1]
  · by_cases h2 : a.1 = k.1 ∧ b.1 = j.1
    · rw [if_pos (Or.inr h2), if_neg h1, if_pos h2]
    · rw [if_neg (by tauto), if_neg h1, if_neg h2]

theorem ggmBasis_apply (e : Fin (d * d)) (a b : Fin d) :
    Spec.basisOf (ggmBasis (K := ℂ) d) e a b = ggmEntry (K := ℂ) d (ggmJ d) e.1 a.1 b.1 := by
  simp only [Spec.basisOf, ggmBasis, Mat.toMatrix_apply, Fin.getElem_fin, Vector.getElem_ofFn,
    Mat.ofFn_getElem]

theorem ofReal_invSqrt2 : (CplxOps.ofReal (invSqrt2 (R := ℝ)) : ℂ) = cR 2 := by
  simp only [invSqrt2, copsOfReal, ropsSqrt, cR]

theorem ggmBasis_eq_kind (e : Fin (d * d)) :
    Spec.basisOf (ggmBasis (K := ℂ) d) e = (kindOf d e).mat := by
  ext a b
  rw [ggmBasis_apply]
  unfold kindOf ggmEntry
  by_cases h0 : e.1 = 0
  · simp only [h0, if_true, dif_pos, GKind.mat, Matrix.smul_apply, Matrix.one_apply, smul_eq_mul,
      copsOfReal, ropsSqrt, cR, Fin.ext_iff]
    split <;> simp
  · simp only [h0, if_false, dif_neg, not_false_eq_true]
    by_cases h1 : e.1 ≤ nSym d
    · simp only [h1, if_true, dif_pos, GKind.mat, ofReal_invSqrt2]
      have hr := ggm_index_range d (e.1 - 1) (by omega)
      exact two_entry_or_eq _ _ a b (fun h => absurd (Fin.mk.inj h) (Nat.ne_of_lt hr.1)) _
    · simp only [h1, if_false, dif_neg, not_false_eq_true]
      by_cases h2 : e.1 ≤ 2 * nSym d
      · simp only [h2, if_true, dif_pos, GKind.mat, ofReal_invSqrt2, copsI]
        have hr := ggm_index_range d (e.1 - 1 - nSym d) (by omega)
        exact two_entry_eq _ _ a b (fun h => absurd (Fin.mk.inj h) (Nat.ne_of_lt hr.1)) _ _
      · simp only [h2, if_false, dif_neg, not_false_eq_true, GKind.mat, Matrix.diagonal_apply,
          Fin.ext_iff, stepFn, dU, dV, cR, copsOfReal, ropsSqrt]


theorem kindOf_valid (e : Fin (d * d)) : (kindOf d e).Valid := by
  unfold kindOf
  split
  · trivial
  · split
    · rename_i h0 h1
      have hr := ggm_index_range d (e.1 - 1) (by omega)
      exact hr.1
    · split
      · rename_i h0 h1 h2
        have hr := ggm_index_range d (e.1 - 1 - nSym d) (by omega)
        exact hr.1
      · rename_i h0 h1 h2
        show 0 < e.1 - 2 * nSym d
        omega

theorem kindOf_inj (e e' : Fin (d * d)) (h : kindOf d e = kindOf d e') : e = e' := by
  apply Fin.ext
  unfold kindOf at h
  by_cases h0 : e.1 = 0 <;> by_cases h0' : e'.1 = 0
  · omega
  · exfalso
    simp only [h0, h0', dif_pos, dif_neg, not_false_eq_true] at h
    split at h
    · exact absurd h (by simp)
    · split at h <;> exact absurd h (by simp)
  · exfalso
    simp only [h0, h0', dif_pos, dif_neg, not_false_eq_true] at h
    split at h
    · exact absurd h (by simp)
    · split at h <;> exact absurd h (by simp)
  · simp only [h0, h0', dif_neg, not_false_eq_true] at h
    by_cases h1 : e.1 ≤ nSym d <;> by_cases h1' : e'.1 ≤ nSym d
    · simp only [h1, h1', dif_pos, GKind.sym.injEq, Fin.mk.injEq] at h
      have := ggm_index_inj d (e.1 - 1) (e'.1 - 1) (by omega) (by omega) (Prod.ext h.1 h.2)
      omega
    · exfalso
      simp only [h1, h1', dif_pos, dif_neg, not_false_eq_true] at h
      split at h <;> exact absurd h (by simp)
    · exfalso
      simp only [h1, h1', dif_pos, dif_neg, not_false_eq_true] at h
      split at h <;> exact absurd h (by simp)
    · simp only [h1, h1', dif_neg, not_false_eq_true] at h
      by_cases h2 : e.1 ≤ 2 * nSym d <;> by_cases h2' : e'.1 ≤ 2 * nSym d
      · simp only [h2, h2', dif_pos, GKind.asym.injEq, Fin.mk.injEq] at h
        have := ggm_index_inj d (e.1 - 1 - nSym d) (e'.1 - 1 - nSym d) (by omega) (by omega)
          (Prod.ext h.1 h.2)
        omega
      · exfalso
        simp only [h2, h2', dif_pos, dif_neg, not_false_eq_true] at h
        exact absurd h (by simp)
      · exfalso
        simp only [h2, h2', dif_pos, dif_neg, not_false_eq_true] at h
        exact absurd h (by simp)
      · simp only [h2, h2', dif_neg, not_false_eq_true, GKind.diag.injEq, Fin.mk.injEq] at h
        omega

/-! ### `ggm_expand` -/

theorem matAt_fin (M : Mat ℂ d d) (a b : Fin d) : matAt M a.1 b.1 = M.toMatrix a b := by
  simp only [matAt, a.2, b.2, and_self, dif_pos, Mat.toMatrix_apply, Fin.getElem_fin]

theorem matAt_mk (M : Mat ℂ d d) (a b : Nat) (ha : a < d) (hb : b < d) :
    matAt M a b = M.toMatrix ⟨a, ha⟩ ⟨b, hb⟩ := matAt_fin M ⟨a, ha⟩ ⟨b, hb⟩

theorem castDiv_false (z : ℂ) (s : ℝ) :
    castDiv false z s = ((1 / s : ℝ) : ℂ) * z := by
  simp only [castDiv, Bool.false_eq_true, if_false, copsOfReal]

theorem ggmExpand_getElem (M : Mat ℂ d d) (tl h : Bool) (e : Fin (d * d)) :
    (ggmExpand M tl h)[e] = ggmCoeff M (ggmJ d) tl h e.1 := by
  simp only [ggmExpand, Fin.getElem_fin, Vector.getElem_ofFn]

theorem trace_diagonal_mul (f : Fin d → ℂ) (M : Matrix (Fin d) (Fin d) ℂ) :
    trace (Matrix.diagonal f * M) = ∑ a, f a * M a a := by
  simp only [Matrix.trace, Matrix.diag_apply, Matrix.diagonal_mul]

/-- closed-form coefficient = `tr(C_e M)` for the kind matrix of `e` -/
theorem ggmCoeff_eq_trace (M : Mat ℂ d d) (e : Fin (d * d)) :
    ggmCoeff M (ggmJ d) false false e.1 = trace ((kindOf d e).mat * M.toMatrix) := by
  have hd : 0 < d := by
    rcases d with _ | d
    · exact absurd e.2 (by simp)
    · omega
  unfold ggmCoeff kindOf
  by_cases h0 : e.1 = 0
  · simp only [h0, if_true, dif_pos, Bool.false_eq_true, if_false, castDiv_false, GKind.mat,
      Matrix.smul_mul, Matrix.one_mul, trace_smul, smul_eq_mul, cR, ropsSqrt]
    congr 1
    simp only [Gen.basis_ggm_expand_0_e0, fsum_eq_sum, Matrix.trace, Matrix.diag_apply,
      Mat.toMatrix_apply, Fin.getElem_fin]
  · simp only [h0, if_false, dif_neg, not_false_eq_true]
    by_cases h1 : e.1 ≤ nSym d
    · have hr := ggm_index_range d (e.1 - 1) (by omega)
      simp only [h1, if_true, dif_pos, castDiv_false, GKind.mat, trace_ggmT_mul, ropsSqrt]
      rw [matAt_mk M _ _ (by omega) hr.2, matAt_mk M _ _ hr.2 (by omega)]
      simp only [cR]
      ring
    · simp only [h1, if_false, dif_neg, not_false_eq_true]
      by_cases h2 : e.1 ≤ 2 * nSym d
      · have hr := ggm_index_range d (e.1 - 1 - nSym d) (by omega)
        simp only [h2, if_true, dif_pos, castDiv_false, GKind.mat, trace_ggmT_mul, ropsSqrt, copsI]
        rw [matAt_mk M _ _ (by omega) hr.2, matAt_mk M _ _ hr.2 (by omega)]
        simp only [cR]
        ring
      · have hdd := dd_eq d hd
        have hl : e.1 - 2 * nSym d < d := by have := e.2; omega
        simp only [h2, if_false, dif_neg, not_false_eq_true, castDiv_false, GKind.mat,
          trace_diagonal_mul, ropsSqrt, copsOfReal, fsum_eq_sum]
        have hw : ∀ a : Fin d, M.toMatrix a a = (fun i => matAt M i i) a.1 :=
          fun a => (matAt_fin M a a).symm
        simp only [hw]
        have hs := sum_stepFn_mul (d := d) (e.1 - 2 * nSym d) hl (dU (e.1 - 2 * nSym d))
          (dV (e.1 - 2 * nSym d)) (fun i => matAt M i i)
        beta_reduce at hs
        rw [hs]
        simp only [dU, dV, cR]
        push_cast
        ring

theorem castDiv_true_eq (z : ℂ) (s : ℝ) (hs : 0 < s) (hreal : (castDiv false z s).im = 0) :
    castDiv true z s = castDiv false z s := by
  rw [castDiv_false] at hreal ⊢
  simp only [castDiv, if_true, copsOfReal, copsRe]
  have him : z.im = 0 := by
    rw [Complex.mul_im, Complex.ofReal_re, Complex.ofReal_im, zero_mul, add_zero] at hreal
    rcases mul_eq_zero.mp hreal with h | h
    · exact absurd h (by positivity)
    · exact h
  apply Complex.ext
  · simp [div_eq_inv_mul]
  · simp [him]

theorem gen_trace_eq (M : Mat ℂ d d) : Gen.basis_ggm_expand_0_e0 M = trace M.toMatrix := by
  simp only [Gen.basis_ggm_expand_0_e0, fsum_eq_sum, Matrix.trace, Matrix.diag_apply,
    Mat.toMatrix_apply, Fin.getElem_fin]

theorem castDiv_zero (h : Bool) (s : ℝ) : castDiv h (0 : ℂ) s = 0 := by
  cases h <;> simp [castDiv]

theorem ggmCoeff_hermitian (M : Mat ℂ d d) (tl : Bool) (e : Nat) (hd : 0 < d)
    (hreal : (ggmCoeff M (ggmJ d) tl false e).im = 0) :
    ggmCoeff M (ggmJ d) tl true e = ggmCoeff M (ggmJ d) tl false e := by
  unfold ggmCoeff at hreal ⊢
  simp only [ropsSqrt] at hreal ⊢
  split_ifs at hreal ⊢
  · rfl
  · exact castDiv_true_eq _ _ (Real.sqrt_pos.mpr (by exact_mod_cast hd)) hreal
  · exact castDiv_true_eq _ _ (Real.sqrt_pos.mpr (by norm_num)) hreal
  · exact castDiv_true_eq _ _ (Real.sqrt_pos.mpr (by norm_num)) hreal
  · refine castDiv_true_eq _ _ (Real.sqrt_pos.mpr ?_) hreal
    have : 0 < e - 2 * nSym d := by omega
    exact_mod_cast Nat.mul_pos this (Nat.succ_pos _)

end FFVerif.Model
