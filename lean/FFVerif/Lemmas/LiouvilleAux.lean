/-
Helper lemmas for C15 (Liouville representation, basis expansion, Choi matrix).
-/
import Mathlib.LinearAlgebra.Matrix.Trace
import Mathlib.LinearAlgebra.Matrix.ConjTranspose
import Mathlib.Data.Matrix.Basis
import Mathlib.Analysis.Complex.Basic
import FFVerif.Lemmas.MatBridge
import FFVerif.Spec.Basis
import FFVerif.Model.Superop

namespace FFVerif
open Matrix

/-! ### Flattened indices -/

theorem Fin.hi_flat {m n : Nat} (i : Fin m) (j : Fin n) : Fin.hi (Fin.flat i j) = i := by
  apply Fin.ext
  have hn : 0 < n := Nat.lt_of_le_of_lt (Nat.zero_le _) j.2
  simp only [Fin.hi, Fin.flat]
  rw [Nat.mul_comm, Nat.mul_add_div hn, Nat.div_eq_of_lt j.2, Nat.add_zero]

theorem Fin.lo_flat {m n : Nat} (i : Fin m) (j : Fin n) : Fin.lo (Fin.flat i j) = j := by
  apply Fin.ext
  simp only [Fin.lo, Fin.flat]
  rw [Nat.mul_comm, Nat.mul_add_mod, Nat.mod_eq_of_lt j.2]

theorem Fin.flat_hi_lo {m n : Nat} (r : Fin (m * n)) : Fin.flat (Fin.hi r) (Fin.lo r) = r := by
  apply Fin.ext
  simp only [Fin.hi, Fin.lo, Fin.flat]
  rw [Nat.mul_comm]
  exact Nat.div_add_mod _ _

theorem Fin.flat_inj {m n : Nat} {i i' : Fin m} {j j' : Fin n} :
    Fin.flat i j = Fin.flat i' j' ↔ i = i' ∧ j = j' := by
  constructor
  · intro h
    have h1 := congrArg Fin.hi h
    have h2 := congrArg Fin.lo h
    rw [Fin.hi_flat, Fin.hi_flat] at h1
    rw [Fin.lo_flat, Fin.lo_flat] at h2
    exact ⟨h1, h2⟩
  · rintro ⟨rfl, rfl⟩; rfl

namespace Spec

variable {N d : Nat} {C : Fin N → Matrix (Fin d) (Fin d) ℂ}

/-- expansion of a sandwiched matrix inside a trace -/
theorem trace_expand (hC : IsComplete C) (X A B : Matrix (Fin d) (Fin d) ℂ) :
    trace (A * X * B) = ∑ j, trace (X * C j) * trace (A * C j * B) := by
  conv_lhs => rw [hC X]
  simp only [Matrix.mul_sum, Matrix.sum_mul, trace_sum, Matrix.mul_smul, Matrix.smul_mul,
    trace_smul, smul_eq_mul]

/-- entrywise form of completeness -/
theorem complete_apply (hC : IsComplete C) (M : Matrix (Fin d) (Fin d) ℂ) (a b : Fin d) :
    M a b = ∑ j, trace (M * C j) * C j a b := by
  conv_lhs => rw [hC M]
  simp only [Matrix.sum_apply, Matrix.smul_apply, smul_eq_mul]

theorem trace_single_mul' (a b : Fin d) (M : Matrix (Fin d) (Fin d) ℂ) :
    trace (Matrix.single a b (1 : ℂ) * M) = M b a := by
  rw [trace_single_mul]; simp

/-- double basis sum against the Liouville representation of `U` (Choi matrix entries) -/
theorem choi_sum_liou (hC : IsComplete C) (U : Matrix (Fin d) (Fin d) ℂ) (a b c e : Fin d) :
    ∑ i, ∑ j, liou C U i j * C j b a * C i c e = U c a * star (U e b) := by
  have h1 : ∀ i, ∑ j, liou C U i j * C j b a * C i c e
      = trace (U * Matrix.single a b (1 : ℂ) * Uᴴ * C i) * C i c e := by
    intro i
    rw [← Finset.sum_mul]
    congr 1
    have h := complete_apply hC (Uᴴ * C i * U) b a
    have e1 : trace (U * Matrix.single a b (1 : ℂ) * Uᴴ * C i)
        = trace (Matrix.single a b (1 : ℂ) * (Uᴴ * C i * U)) := by
      simp only [Matrix.mul_assoc]
      rw [trace_mul_comm]
      simp only [Matrix.mul_assoc]
    have hl : ∀ j, liou C U i j = trace (Uᴴ * C i * U * C j) := by
      intro j
      unfold liou
      rw [trace_mul_comm]
      simp only [Matrix.mul_assoc]
    rw [e1, trace_single_mul', h]
    simp only [hl]
  simp only [h1]
  rw [← complete_apply hC]
  simp [Matrix.mul_apply, Matrix.single_apply, Finset.sum_ite_eq, ite_and]

end Spec

/-! ### Unfolding the model -/

namespace Model
open FFVerif.Spec

variable {N d : Nat}

theorem expand_getElem_nat (M : Mat ℂ d d) (C : Vector (Mat ℂ d d) N) (j : Nat) (hj : j < N) :
    (Model.expand M C false)[j] = trace (M.toMatrix * Spec.basisOf C ⟨j, hj⟩) := by
  simp only [Model.expand, Vector.getElem_ofFn, Fin.getElem_fin, fsum_eq_sum, Matrix.trace,
    Matrix.diag_apply, Matrix.mul_apply, Spec.basisOf, Mat.toMatrix_apply, Bool.false_eq_true,
    if_false]

theorem expand_true_getElem_nat (M : Mat ℂ d d) (C : Vector (Mat ℂ d d) N) (j : Nat)
    (hj : j < N) :
    (Model.expand M C true)[j] = (((Model.expand M C false)[j]).re : ℂ) := by
  simp only [Model.expand, Vector.getElem_ofFn, Fin.getElem_fin, if_true, Bool.false_eq_true,
    if_false, copsOfReal, copsRe]

/-- the `conjugated_basis` intermediate of `liouville_representation` is `U† C_i U` -/
theorem conjBasis_toMatrix (U : Mat ℂ d d) (C : Vector (Mat ℂ d d) N) (i : Nat) (hi : i < N) :
    Mat.toMatrix (Gen.superoperator_liouville_representation_0_e0 (Mat.map CplxOps.conj U) C U)[i]
      = U.toMatrixᴴ * Spec.basisOf C ⟨i, hi⟩ * U.toMatrix := by
  ext a b
  simp only [Gen.superoperator_liouville_representation_0_e0, Mat.map, Mat.toMatrix_apply,
    Vector.getElem_ofFn, Fin.getElem_fin, Mat.ofFn_getElem, fsum_eq_sum, copsConj,
    Matrix.mul_apply, Matrix.conjTranspose_apply, Spec.basisOf, Finset.sum_mul, RCLike.star_def]
  exact Finset.sum_comm

theorem liouville_getElem_nat (U : Mat ℂ d d) (C : Vector (Mat ℂ d d) N) (b : Bool) (i : Nat)
    (hi : i < N) :
    (Model.liouville U C b)[i] = Model.expand
      (Gen.superoperator_liouville_representation_0_e0 (Mat.map CplxOps.conj U) C U)[i] C b := by
  simp only [Model.liouville, Vector.getElem_ofFn, Fin.getElem_fin]

/-- entry of the generated contraction `...ij,jba,icd->...acbd` -/
theorem choi_tensor_getElem {K : Type} [Zero K] [Add K] [Mul K] {n_i n_j n_b n_a n_c n_d : Nat}
    (x0 : Mat K n_i n_j) (x1 : Ten3 K n_j n_b n_a) (x2 : Ten3 K n_i n_c n_d)
    (a : Fin n_a) (c : Fin n_c) (b : Fin n_b) (e : Fin n_d) :
    (Gen.superoperator_liouville_to_choi_0_e0 x0 x1 x2)[a][c][b][e]
      = fsum n_i fun i => fsum n_j fun j => x0[i][j] * x1[j][b][a] * x2[i][c][e] := by
  simp only [Gen.superoperator_liouville_to_choi_0_e0, Fin.getElem_fin, Vector.getElem_ofFn]

theorem choi_getElem (S : Mat ℂ N N) (C : Vector (Mat ℂ d d) N) (r s : Fin (d * d)) :
    (Model.liouvilleToChoi S C)[r][s]
      = ∑ i : Fin N, ∑ j : Fin N,
          S[i][j] * C[j][Fin.hi s][Fin.hi r] * C[i][Fin.lo r][Fin.lo s] := by
  unfold Model.liouvilleToChoi
  rw [Mat.ofFn_get, choi_tensor_getElem]
  simp only [fsum_eq_sum]

end Model
end FFVerif
