/-
Helper lemmas for C11Infid, part 3: the identity row of the control matrix along the family of
perturbed pulses, its derivative for a control-dependent sensitivity, and the derivative of the
identity component of the infidelity (the gap between what `infidelity_derivative` differentiates
and `numeric.infidelity` for a noise operator with a trace).
-/
import FFVerif.Lemmas.GradientInfidIdAux

namespace FFVerif.GradientInfidAux
open FFVerif FFVerif.Model FFVerif.GradientAux FFVerif.GradientAsmAux Matrix Complex
open scoped Matrix

section family
variable {nG d nO nA nK : Nat} (kind : MaskKind) (thr : ℝ) (omega : Vec ℝ nO)
  (basis : Vector (Mat ℂ d d) nK) (t : Vec ℝ (nG + 1)) (dt : Vec ℝ nG)
  (nOpers : Vector (Mat ℂ d d) nA)
  {H : Fin nG → Matrix (Fin d) (Fin d) ℂ} {C : Mat ℂ d d} {g' : Fin nG}
  {eigvals : ℝ → Mat ℝ nG d} {eigvecs : ℝ → Vector (Mat ℂ d d) nG}

/-- the identity row of the control matrix of the pulse with parameter `u` -/
theorem family_identity_row (hE : AmplitudeFamily H C g' eigvals eigvecs) (nC : ℝ → Mat ℝ nA nG)
    (k0 : Fin nK) (c : ℂ) (h0 : basis[k0].toMatrix = c • (1 : Matrix (Fin d) (Fin d) ℂ))
    (a : Fin nA) (o : Fin nO) (u : ℝ) :
    (controlMatrixFromScratch kind thr (eigvals u) (eigvecs u)
        (dropLast (propagators (eigvals u) (eigvecs u) dt)) omega basis nOpers (nC u) dt
        (dropLast t))[a][k0][o]
      = ∑ g : Fin nG, Complex.exp (Complex.I * ((omega[o] : ℂ) * ((dropLast t)[g] : ℂ)))
          * ((nC u)[a][g] : ℂ) * (firstOrderEntry kind thr omega[o] dt[g] : ℂ) * c
          * trace nOpers[a].toMatrix :=
  cm_identity_row kind thr (eigvals u) (eigvecs u) _ omega basis nOpers (nC u) dt (dropLast t) k0 c
    h0 (family_unitary hE dt u).1 (family_unitary hE dt u).2 a o

/-- constant sensitivities: the identity row does not depend on `u` -/
theorem family_identity_row_const (hE : AmplitudeFamily H C g' eigvals eigvecs)
    (nCoeffs : Mat ℝ nA nG)
    (k0 : Fin nK) (c : ℂ) (h0 : basis[k0].toMatrix = c • (1 : Matrix (Fin d) (Fin d) ℂ))
    (a : Fin nA) (u : ℝ) :
    (controlMatrixFromScratch kind thr (eigvals u) (eigvecs u)
        (dropLast (propagators (eigvals u) (eigvecs u) dt)) omega basis nOpers nCoeffs dt
        (dropLast t))[a][k0]
      = (controlMatrixFromScratch kind thr (eigvals 0) (eigvecs 0)
        (dropLast (propagators (eigvals 0) (eigvecs 0) dt)) omega basis nOpers nCoeffs dt
        (dropLast t))[a][k0] :=
  vec_ext_fin fun o => by
    rw [family_identity_row kind thr omega basis t dt nOpers hE (fun _ => nCoeffs) k0 c h0 a o u,
      family_identity_row kind thr omega basis t dt nOpers hE (fun _ => nCoeffs) k0 c h0 a o 0]

/-- traceless noise operator: the identity row vanishes for every `u` -/
theorem family_identity_row_traceless (hE : AmplitudeFamily H C g' eigvals eigvecs)
    (nC : ℝ → Mat ℝ nA nG)
    (k0 : Fin nK) (c : ℂ) (h0 : basis[k0].toMatrix = c • (1 : Matrix (Fin d) (Fin d) ℂ))
    (a : Fin nA) (htr : trace nOpers[a].toMatrix = 0) (o : Fin nO) (u : ℝ) :
    (controlMatrixFromScratch kind thr (eigvals u) (eigvecs u)
        (dropLast (propagators (eigvals u) (eigvecs u) dt)) omega basis nOpers (nC u) dt
        (dropLast t))[a][k0][o] = 0 := by
  rw [family_identity_row kind thr omega basis t dt nOpers hE nC k0 c h0 a o u]
  refine Finset.sum_eq_zero fun g _ => ?_
  rw [htr, mul_zero]

/-- the derivative of the identity row for a sensitivity that depends on the varied amplitude:
`e^{iω t_{g'}} · ∂s · I(ω, dt_{g'}) · c · tr(B_a)` -/
theorem family_identity_row_hasDerivAt (hE : AmplitudeFamily H C g' eigvals eigvecs)
    (nC : ℝ → Mat ℝ nA nG)
    (k0 : Fin nK) (c : ℂ) (h0 : basis[k0].toMatrix = c • (1 : Matrix (Fin d) (Fin d) ℂ))
    (a : Fin nA) (ds : ℝ) (hs : LocalSensitivity (fun u => (nC u)[a]) g' ds) (o : Fin nO) :
    HasDerivAt (fun u : ℝ => (controlMatrixFromScratch kind thr (eigvals u) (eigvecs u)
        (dropLast (propagators (eigvals u) (eigvecs u) dt)) omega basis nOpers (nC u) dt
        (dropLast t))[a][k0][o])
      (Complex.exp (Complex.I * ((omega[o] : ℂ) * ((dropLast t)[g'] : ℂ))) * (ds : ℂ)
        * (firstOrderEntry kind thr omega[o] dt[g'] : ℂ) * c * trace nOpers[a].toMatrix) 0 := by
  obtain ⟨hconst, hds, -⟩ := hs
  have hfun : (fun u : ℝ => (controlMatrixFromScratch kind thr (eigvals u) (eigvecs u)
        (dropLast (propagators (eigvals u) (eigvecs u) dt)) omega basis nOpers (nC u) dt
        (dropLast t))[a][k0][o])
      = fun u : ℝ => ∑ g : Fin nG,
          Complex.exp (Complex.I * ((omega[o] : ℂ) * ((dropLast t)[g] : ℂ)))
          * ((nC u)[a][g] : ℂ) * (firstOrderEntry kind thr omega[o] dt[g] : ℂ) * c
          * trace nOpers[a].toMatrix :=
    funext fun u => family_identity_row kind thr omega basis t dt nOpers hE nC k0 c h0 a o u
  rw [hfun]
  have hg : ∀ g : Fin nG, HasDerivAt (fun u : ℝ => (nC u)[a][g]) (if g = g' then ds else 0) 0 := by
    intro g
    by_cases hgg : g = g'
    · subst hgg
      rw [if_pos rfl]
      exact hds
    · rw [if_neg hgg]
      have e : (fun u : ℝ => (nC u)[a][g]) = fun _ : ℝ => (nC 0)[a][g] :=
        funext fun u => hconst u g hgg
      rw [e]
      exact hasDerivAt_const _ _
  have hsum := HasDerivAt.fun_sum (u := Finset.univ) (fun (g : Fin nG) _ =>
    (((((hg g).ofReal_comp).const_mul
      (Complex.exp (Complex.I * ((omega[o] : ℂ) * ((dropLast t)[g] : ℂ))))).mul_const
      (firstOrderEntry kind thr omega[o] dt[g] : ℂ)).mul_const c).mul_const
      (trace nOpers[a].toMatrix))
  refine hsum.congr_deriv ?_
  rw [Finset.sum_eq_single g']
  · rw [if_pos rfl]
  · intro g _ hgg
    rw [if_neg hgg]
    simp
  · intro hn
    exact absurd (Finset.mem_univ g') hn

end family

/-! ### derivative of the identity component of the infidelity -/

/-- the trapezoid integral of `S·|R|²` over `2π·dim` for a `u`-dependent row `R(u)` with
differentiable entries -/
theorem fidelityIntegral_row_hasDerivAt {nO : Nat} (dim : Nat) (omega S : Vec ℝ nO)
    (R : ℝ → Vec ℂ nO) (r' : Fin nO → ℂ)
    (hR : ∀ o : Fin nO, HasDerivAt (fun u : ℝ => (R u)[o]) (r' o) 0) :
    HasDerivAt (fun u : ℝ => fidelityIntegral dim omega S (#v[R u] : Mat ℂ 1 nO))
      (integrate (Vector.ofFn fun o : Fin nO =>
          S[o] * (2 * (starRingEnd ℂ (R 0)[o] * r' o).re)) omega / (2 * Real.pi * dim)) 0 := by
  unfold fidelityIntegral
  refine (hasDerivAt_integrate
    (fun o u => S[o] * ∑ k : Fin 1, Complex.normSq (#v[R u] : Mat ℂ 1 nO)[k][o])
    (fun o => S[o] * (2 * (starRingEnd ℂ (R 0)[o] * r' o).re)) omega 0 (fun o => ?_)).div_const _
  have h := C11.ff_derivative_formula_real (fun (_ : Fin 1) (u : ℝ) => (R u)[o]) (fun _ => r' o) 0
    (fun _ => hR o)
  simp only [Fin.sum_univ_one] at h
  have e : (fun u : ℝ => S[o] * ∑ k : Fin 1, Complex.normSq (#v[R u] : Mat ℂ 1 nO)[k][o])
      = fun u : ℝ => S[o] * Complex.normSq (R u)[o] := by
    funext u
    rw [Fin.sum_univ_one]
    rfl
  rw [e]
  exact h.const_mul _

/-- **The derivative of the identity component of the infidelity** with respect to a control
amplitude on which the sensitivity depends: `util.integrate(S · 2 Re(conj(R0) · r'), ω)/(2π·dim)`
with `R0 = B[a][k0]` the identity row of the unperturbed control matrix and
`r' = e^{iω t_{g'}} · ∂s · I(ω, dt_{g'}) · c · tr(B_a)` its derivative. -/
noncomputable def identityGap {nO : Nat} (kind : MaskKind) (thr : ℝ) (dim : Nat) (omega S : Vec ℝ nO)
    (R0 : Vec ℂ nO) (tg dtg ds : ℝ) (c trB : ℂ) : ℝ :=
  integrate (Vector.ofFn fun o : Fin nO =>
    S[o] * (2 * (starRingEnd ℂ R0[o]
      * (Complex.exp (Complex.I * ((omega[o] : ℂ) * (tg : ℂ))) * (ds : ℂ)
          * (firstOrderEntry kind thr omega[o] dtg : ℂ) * c * trB)).re)) omega
    / (2 * Real.pi * dim)

theorem identityGap_zero {nO : Nat} (kind : MaskKind) (thr : ℝ) (dim : Nat) (omega S : Vec ℝ nO)
    (R0 : Vec ℂ nO) (tg dtg ds : ℝ) (c trB : ℂ) (h : ds = 0 ∨ c = 0 ∨ trB = 0) :
    identityGap kind thr dim omega S R0 tg dtg ds c trB = 0 := by
  unfold identityGap
  have e : (fun o : Fin nO => S[o] * (2 * (starRingEnd ℂ R0[o]
      * (Complex.exp (Complex.I * ((omega[o] : ℂ) * (tg : ℂ))) * (ds : ℂ)
          * (firstOrderEntry kind thr omega[o] dtg : ℂ) * c * trB)).re)) = fun _ => 0 := by
    funext o
    rcases h with h | h | h <;> subst h <;> simp
  rw [e, integrate_eq]
  simp

/-- the model of `numeric.infidelity` (traceless-basis branch, identity element `k0`) along a family
of control matrices: derivative = derivative of `fidelityIntegral` minus derivative of the identity
component -/
theorem numeric_hasDerivAt_of_parts {nAll nA nK nO : Nat} (dim : Nat) (omega : Vec ℝ nO)
    (Bfull : ℝ → Ten3 ℂ nAll nK nO) (T : Ten4 ℂ nK nK nK nK) (k0 : Fin nK)
    (nIdx : Vector (Fin nAll) nA) (S1 : Mat ℝ nA nO) (a : Fin nA) (m gp : ℝ)
    (hmain : HasDerivAt (fun u : ℝ => fidelityIntegral dim omega S1[a] (Bfull u)[nIdx[a]]) m 0)
    (hid : HasDerivAt (fun u : ℝ => fidelityIntegral dim omega S1[a]
      (#v[(Bfull u)[nIdx[a]][k0]] : Mat ℂ 1 nO)) gp 0) :
    HasDerivAt (fun u : ℝ =>
      (infidelityFromCM2 true dim omega (Bfull u) T #v[k0] nIdx (ofRealSpec S1))[a]) (m - gp) 0 := by
  have hfun : (fun u : ℝ =>
        (infidelityFromCM2 true dim omega (Bfull u) T #v[k0] nIdx (ofRealSpec S1))[a])
      = fun u : ℝ => fidelityIntegral dim omega S1[a] (Bfull u)[nIdx[a]]
        - fidelityIntegral dim omega S1[a] (#v[(Bfull u)[nIdx[a]][k0]] : Mat ℂ 1 nO) := by
    funext u
    rw [(infidelityFromCM2_fidelityIntegral dim omega _ T nIdx S1 a).2 k0]
  rw [hfun]
  exact hmain.sub hid

/-- the trapezoid rule on a two-point grid -/
theorem integrate_two (f x : Vec ℝ 2) :
    integrate f x = (f[1] + f[0]) * (x[1] - x[0]) / 2 := by
  rw [integrate_eq]
  show (∑ i : Fin 1, (f[i.1 + 1]'(by omega) + f[i.1]'(by omega))
    * (x[i.1 + 1]'(by omega) - x[i.1]'(by omega))) / 2 = _
  rw [Fin.sum_univ_one]
  rfl

end FFVerif.GradientInfidAux
