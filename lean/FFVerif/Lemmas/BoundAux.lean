/-
Helper lemmas for C01Bound: the Frobenius (Hilbert–Schmidt) norm `frob`, its unitary invariance,
Cauchy–Schwarz for `tr(X C)`, Parseval for a complete Hermitian basis, and the operator
`cmOp(ω)` whose expansion coefficients are the entries of the model's control matrix.
-/
import Mathlib.Analysis.Matrix.Normed
import Mathlib.Analysis.Real.Sqrt
import Mathlib.Analysis.SpecialFunctions.Pow.Real
import FFVerif.Lemmas.Inst
import FFVerif.Lemmas.Bridge
import FFVerif.Lemmas.MatBridge
import FFVerif.Lemmas.LiouvilleAux
import FFVerif.Lemmas.EngineAux
import FFVerif.Spec.Basis
import FFVerif.Model.Numeric
import FFVerif.Props.C01
import FFVerif.Props.C01Seg

namespace FFVerif.BoundAux
open FFVerif FFVerif.Model Complex Matrix

variable {d : Nat}

/-! ### Frobenius norm -/

/-- Frobenius (Hilbert–Schmidt) norm `‖X‖_F = √(Σ_ij |X_ij|²) = √tr(X†X)` -/
noncomputable def frob (X : Matrix (Fin d) (Fin d) ℂ) : ℝ :=
  Real.sqrt (∑ i, ∑ j, ‖X i j‖ ^ 2)

theorem frob_nonneg (X : Matrix (Fin d) (Fin d) ℂ) : 0 ≤ frob X := Real.sqrt_nonneg _

theorem sumSq_nonneg (X : Matrix (Fin d) (Fin d) ℂ) : 0 ≤ ∑ i, ∑ j, ‖X i j‖ ^ 2 :=
  Finset.sum_nonneg fun _ _ => Finset.sum_nonneg fun _ _ => by positivity

theorem frob_sq (X : Matrix (Fin d) (Fin d) ℂ) : frob X ^ 2 = ∑ i, ∑ j, ‖X i j‖ ^ 2 :=
  Real.sq_sqrt (sumSq_nonneg X)

section
open scoped Matrix.Norms.Frobenius

/-- `frob` is Mathlib's Frobenius norm -/
theorem frob_eq_norm (X : Matrix (Fin d) (Fin d) ℂ) : frob X = ‖X‖ := by
  rw [Matrix.frobenius_norm_def, frob, Real.sqrt_eq_rpow]
  simp only [Real.rpow_two]

theorem frob_smul (c : ℂ) (X : Matrix (Fin d) (Fin d) ℂ) : frob (c • X) = ‖c‖ * frob X := by
  rw [frob_eq_norm, frob_eq_norm]
  exact norm_smul c X

theorem frob_sum_le {ι : Type} (s : Finset ι) (X : ι → Matrix (Fin d) (Fin d) ℂ) :
    frob (∑ g ∈ s, X g) ≤ ∑ g ∈ s, frob (X g) := by
  simp only [frob_eq_norm]
  exact norm_sum_le _ _

end

/-- `‖X‖_F² = tr(X†X)` -/
theorem frob_sq_trace (X : Matrix (Fin d) (Fin d) ℂ) :
    ((frob X ^ 2 : ℝ) : ℂ) = Matrix.trace (Xᴴ * X) := by
  rw [frob_sq, Finset.sum_comm]
  simp only [Matrix.trace, Matrix.diag_apply, Matrix.mul_apply, Matrix.conjTranspose_apply]
  push_cast
  refine Finset.sum_congr rfl fun j _ => Finset.sum_congr rfl fun i _ => ?_
  rw [← Complex.conj_mul']
  rfl

theorem frob_eq_of_trace {X Y : Matrix (Fin d) (Fin d) ℂ}
    (h : Matrix.trace (Xᴴ * X) = Matrix.trace (Yᴴ * Y)) : frob X = frob Y := by
  have h2 : frob X ^ 2 = frob Y ^ 2 := by
    have : ((frob X ^ 2 : ℝ) : ℂ) = ((frob Y ^ 2 : ℝ) : ℂ) := by
      rw [frob_sq_trace, frob_sq_trace, h]
    exact_mod_cast this
  calc frob X = Real.sqrt (frob X ^ 2) := (Real.sqrt_sq (frob_nonneg X)).symm
    _ = Real.sqrt (frob Y ^ 2) := by rw [h2]
    _ = frob Y := Real.sqrt_sq (frob_nonneg Y)

/-- left unitary invariance -/
theorem frob_unitary_mul (U X : Matrix (Fin d) (Fin d) ℂ) (hU : Uᴴ * U = 1) :
    frob (U * X) = frob X := by
  apply frob_eq_of_trace
  rw [Matrix.conjTranspose_mul, Matrix.mul_assoc, ← Matrix.mul_assoc Uᴴ, hU, Matrix.one_mul]

/-- right unitary invariance -/
theorem frob_mul_unitary (U X : Matrix (Fin d) (Fin d) ℂ) (hU : U * Uᴴ = 1) :
    frob (X * U) = frob X := by
  apply frob_eq_of_trace
  rw [Matrix.conjTranspose_mul, Matrix.trace_mul_comm, ← Matrix.mul_assoc, Matrix.mul_assoc X,
    hU, Matrix.mul_one, Matrix.trace_mul_comm]

/-- invariance under a unitary change of frame `X ↦ U† X U` -/
theorem frob_conj_unitary (U X : Matrix (Fin d) (Fin d) ℂ) (hU : Uᴴ * U = 1) :
    frob (Uᴴ * X * U) = frob X := by
  have hU' : U * Uᴴ = 1 := _root_.mul_eq_one_comm.mp hU
  rw [frob_mul_unitary U _ hU', frob_unitary_mul Uᴴ X (by rw [Matrix.conjTranspose_conjTranspose, hU'])]

/-- entrywise (Hadamard) multiplication by a matrix with entries bounded by `c` -/
theorem frob_hadamard_le (B : Matrix (Fin d) (Fin d) ℂ) (J : Fin d → Fin d → ℂ) (c : ℝ)
    (hc : 0 ≤ c) (hJ : ∀ m n, ‖J m n‖ ≤ c) :
    frob (Matrix.of fun m n => B m n * J m n) ≤ c * frob B := by
  have h : ∑ i, ∑ j, ‖(Matrix.of fun m n => B m n * J m n) i j‖ ^ 2
      ≤ c ^ 2 * ∑ i, ∑ j, ‖B i j‖ ^ 2 := by
    rw [Finset.mul_sum]
    refine Finset.sum_le_sum fun i _ => ?_
    rw [Finset.mul_sum]
    refine Finset.sum_le_sum fun j _ => ?_
    rw [Matrix.of_apply, norm_mul, mul_pow, mul_comm]
    have := hJ i j
    gcongr
  unfold frob
  calc Real.sqrt (∑ i, ∑ j, ‖(Matrix.of fun m n => B m n * J m n) i j‖ ^ 2)
      ≤ Real.sqrt (c ^ 2 * ∑ i, ∑ j, ‖B i j‖ ^ 2) := Real.sqrt_le_sqrt h
    _ = c * Real.sqrt (∑ i, ∑ j, ‖B i j‖ ^ 2) := by
        rw [Real.sqrt_mul (sq_nonneg c), Real.sqrt_sq hc]

/-- **Cauchy–Schwarz** for the Hilbert–Schmidt pairing: `|tr(X C)| ≤ ‖X‖_F ‖C‖_F` -/
theorem norm_trace_mul_le (X C : Matrix (Fin d) (Fin d) ℂ) :
    ‖Matrix.trace (X * C)‖ ≤ frob X * frob C := by
  have h1 : ‖Matrix.trace (X * C)‖ ≤ ∑ p : Fin d × Fin d, ‖X p.1 p.2‖ * ‖C p.2 p.1‖ := by
    simp only [Matrix.trace, Matrix.diag_apply, Matrix.mul_apply]
    rw [Fintype.sum_prod_type]
    refine (norm_sum_le _ _).trans (Finset.sum_le_sum fun i _ => ?_)
    refine (norm_sum_le _ _).trans (Finset.sum_le_sum fun j _ => ?_)
    rw [norm_mul]
  have h2 := Real.sum_mul_le_sqrt_mul_sqrt (Finset.univ : Finset (Fin d × Fin d))
    (fun p => ‖X p.1 p.2‖) (fun p => ‖C p.2 p.1‖)
  have hX : ∑ p : Fin d × Fin d, ‖X p.1 p.2‖ ^ 2 = ∑ i, ∑ j, ‖X i j‖ ^ 2 :=
    Fintype.sum_prod_type _
  have hC : ∑ p : Fin d × Fin d, ‖C p.2 p.1‖ ^ 2 = ∑ i, ∑ j, ‖C i j‖ ^ 2 := by
    rw [Fintype.sum_prod_type, Finset.sum_comm]
  rw [hX, hC] at h2
  exact h1.trans h2

/-- `‖C‖_F = 1` for a normalised basis element (`tr(C†C) = 1`) -/
theorem frob_eq_one_of_trace {C : Matrix (Fin d) (Fin d) ℂ} (h : Matrix.trace (Cᴴ * C) = 1) :
    frob C = 1 := by
  have h2 : frob C ^ 2 = 1 := by
    have : ((frob C ^ 2 : ℝ) : ℂ) = ((1 : ℝ) : ℂ) := by rw [frob_sq_trace, h]; simp
    exact_mod_cast this
  calc frob C = Real.sqrt (frob C ^ 2) := (Real.sqrt_sq (frob_nonneg C)).symm
    _ = 1 := by rw [h2, Real.sqrt_one]

/-- **Parseval** for a complete family of Hermitian matrices: `Σ_k |tr(X C_k)|² = ‖X‖_F²`. -/
theorem parseval {N : Nat} {C : Fin N → Matrix (Fin d) (Fin d) ℂ} (hC : Spec.IsComplete C)
    (hH : ∀ k, (C k)ᴴ = C k) (X : Matrix (Fin d) (Fin d) ℂ) :
    ∑ k, ‖Matrix.trace (X * C k)‖ ^ 2 = frob X ^ 2 := by
  have h : ((∑ k, ‖Matrix.trace (X * C k)‖ ^ 2 : ℝ) : ℂ) = ((frob X ^ 2 : ℝ) : ℂ) := by
    rw [frob_sq_trace]
    have he := Spec.trace_expand hC X Xᴴ 1
    rw [Matrix.mul_one] at he
    rw [he]
    push_cast
    refine Finset.sum_congr rfl fun k _ => ?_
    rw [Matrix.mul_one, ← Complex.conj_mul', mul_comm]
    congr 1
    have : star (Matrix.trace (X * C k)) = Matrix.trace (Xᴴ * C k) := by
      rw [← Matrix.trace_conjTranspose, Matrix.conjTranspose_mul, hH k, Matrix.trace_mul_comm]
    exact this
  exact_mod_cast h

/-! ### The operator behind the control matrix -/

/-- contribution of one segment, in the laboratory frame: `W (B̃ ∘ I) W†` with `B̃ = V†BV` the noise
operator in the eigenbasis of the segment, `I_mn = firstOrderEntry(ω + λ_m − λ_n, dt)` the matrix
`_first_order_integral` computes (both branches) and `W = Q†V`. -/
noncomputable def segOp (kind : MaskKind) (thr : ℝ) (lam : Fin d → ℝ)
    (V Q B : Matrix (Fin d) (Fin d) ℂ) (ω dt : ℝ) : Matrix (Fin d) (Fin d) ℂ :=
  (Qᴴ * V) * (Matrix.of fun m n => (Vᴴ * B * V) m n *
    (firstOrderEntry kind thr (ω + (lam m - lam n)) dt : ℂ)) * (Qᴴ * V)ᴴ

/-- the operator `X_a(ω) = Σ_g e^{iω t_g} s_a^{(g)} W_g (B̃_a ∘ I_g(ω)) W_g†` whose Hilbert–Schmidt
coefficients `tr(X_a(ω) C_k)` are the entries of the control matrix the model computes. -/
noncomputable def cmOp {nG nO nA : Nat} (kind : MaskKind) (thr : ℝ)
    (eigvals : Mat ℝ nG d) (eigvecs props : Vector (Mat ℂ d d) nG)
    (omega : Vec ℝ nO) (nOpers : Vector (Mat ℂ d d) nA)
    (nCoeffs : Mat ℝ nA nG) (dt t : Vec ℝ nG) (a : Fin nA) (o : Fin nO) :
    Matrix (Fin d) (Fin d) ℂ :=
  ∑ g : Fin nG, (Complex.exp (Complex.I * ((omega[o] : ℂ) * (t[g] : ℂ))) * (nCoeffs[a][g] : ℂ)) •
    segOp kind thr (fun m => eigvals[g][m]) eigvecs[g].toMatrix props[g].toMatrix
      nOpers[a].toMatrix omega[o] dt[g]

theorem trace_segOp_mul (kind : MaskKind) (thr : ℝ) (lam : Fin d → ℝ)
    (V Q B C : Matrix (Fin d) (Fin d) ℂ) (ω dt : ℝ) :
    Matrix.trace (segOp kind thr lam V Q B ω dt * C)
      = ∑ m, ∑ n, (Vᴴ * B * V) m n * (firstOrderEntry kind thr (ω + (lam m - lam n)) dt : ℂ) *
          ((Qᴴ * V)ᴴ * C * (Qᴴ * V)) n m := by
  unfold segOp
  rw [Matrix.mul_assoc, Matrix.mul_assoc, Matrix.trace_mul_comm, Matrix.mul_assoc,
    Matrix.mul_assoc]
  simp only [Matrix.trace, Matrix.diag_apply, Matrix.mul_apply (M := Matrix.of _),
    Matrix.of_apply]

/-- **The control matrix is the list of Hilbert–Schmidt coefficients of `cmOp`** (pure algebra: no
unitarity, Hermiticity or completeness needed; both branches of `_first_order_integral`). -/
theorem cm_entry_trace {nG nO nA nK : Nat} (kind : MaskKind) (thr : ℝ)
    (eigvals : Mat ℝ nG d) (eigvecs props : Vector (Mat ℂ d d) nG)
    (omega : Vec ℝ nO) (basis : Vector (Mat ℂ d d) nK) (nOpers : Vector (Mat ℂ d d) nA)
    (nCoeffs : Mat ℝ nA nG) (dt t : Vec ℝ nG) (a : Fin nA) (k : Fin nK) (o : Fin nO) :
    (controlMatrixFromScratch kind thr eigvals eigvecs props omega basis nOpers nCoeffs dt t)[a][k][o]
      = Matrix.trace (cmOp kind thr eigvals eigvecs props omega nOpers nCoeffs dt t a o *
          basis[k].toMatrix) := by
  rw [C01.cm_entry, cmOp, Matrix.sum_mul, Matrix.trace_sum]
  refine Finset.sum_congr rfl fun g _ => ?_
  rw [Matrix.smul_mul, Matrix.trace_smul, trace_segOp_mul, smul_eq_mul, Finset.mul_sum]
  refine Finset.sum_congr rfl fun m _ => ?_
  rw [Finset.mul_sum]
  refine Finset.sum_congr rfl fun n _ => ?_
  ring

/-- kernel bound, both branches: `|firstOrderEntry(x, dt)| ≤ dt` -/
theorem firstOrderEntry_norm_le (kind : MaskKind) (thr x dt : ℝ) (hthr : 0 ≤ thr) (hdt : 0 ≤ dt) :
    ‖(firstOrderEntry kind thr x dt : ℂ)‖ ≤ dt := by
  by_cases hm : firstOrderMask kind thr x dt = true
  · rw [C01.firstOrderEntry_exact kind thr x dt hthr hm]
    exact EngineAux.norm_segIntegral_le x dt hdt
  · unfold firstOrderEntry
    rw [if_neg hm, copsOfReal, Complex.norm_real, Real.norm_eq_abs, abs_of_nonneg hdt]

/-- one segment: `‖W (B̃ ∘ I) W†‖_F ≤ dt ‖B‖_F` for unitary `V`, `Q` -/
theorem frob_segOp_le (kind : MaskKind) (thr : ℝ) (hthr : 0 ≤ thr) (lam : Fin d → ℝ)
    (V Q B : Matrix (Fin d) (Fin d) ℂ) (ω dt : ℝ) (hdt : 0 ≤ dt)
    (hV : Vᴴ * V = 1) (hQ : Qᴴ * Q = 1) :
    frob (segOp kind thr lam V Q B ω dt) ≤ dt * frob B := by
  have hQ' : Q * Qᴴ = 1 := _root_.mul_eq_one_comm.mp hQ
  have hW : (Qᴴ * V)ᴴ * (Qᴴ * V) = 1 := by
    rw [Matrix.conjTranspose_mul, Matrix.conjTranspose_conjTranspose, Matrix.mul_assoc,
      ← Matrix.mul_assoc Q, hQ', Matrix.one_mul, hV]
  have hW' : (Qᴴ * V) * (Qᴴ * V)ᴴ = 1 := _root_.mul_eq_one_comm.mp hW
  unfold segOp
  rw [frob_mul_unitary _ _ (by rw [Matrix.conjTranspose_conjTranspose]; exact hW),
    frob_unitary_mul _ _ hW]
  refine (frob_hadamard_le _ _ dt hdt fun m n => ?_).trans ?_
  · exact firstOrderEntry_norm_le kind thr _ dt hthr hdt
  · rw [frob_conj_unitary V B hV]

/-- **`‖X_a(ω)‖_F ≤ (Σ_g |s_a^{(g)}| dt_g) ‖B_a‖_F`** for unitary eigenvector matrices and
cumulative propagators, any guard with `thr ≥ 0`, durations `dt_g ≥ 0`. -/
theorem frob_cmOp_le {nG nO nA : Nat} (kind : MaskKind) (thr : ℝ) (hthr : 0 ≤ thr)
    (eigvals : Mat ℝ nG d) (eigvecs props : Vector (Mat ℂ d d) nG)
    (omega : Vec ℝ nO) (nOpers : Vector (Mat ℂ d d) nA)
    (nCoeffs : Mat ℝ nA nG) (dt t : Vec ℝ nG) (a : Fin nA) (o : Fin nO)
    (hdt : ∀ g : Fin nG, 0 ≤ dt[g])
    (hV : ∀ g : Fin nG, (eigvecs[g].toMatrix)ᴴ * eigvecs[g].toMatrix = 1)
    (hQ : ∀ g : Fin nG, (props[g].toMatrix)ᴴ * props[g].toMatrix = 1) :
    frob (cmOp kind thr eigvals eigvecs props omega nOpers nCoeffs dt t a o)
      ≤ (∑ g : Fin nG, |nCoeffs[a][g]| * dt[g]) * frob nOpers[a].toMatrix := by
  unfold cmOp
  refine (frob_sum_le _ _).trans ?_
  rw [Finset.sum_mul]
  refine Finset.sum_le_sum fun g _ => ?_
  rw [frob_smul, norm_mul, EngineAux.norm_expI_mul, one_mul, Complex.norm_real,
    Real.norm_eq_abs, mul_assoc]
  exact mul_le_mul_of_nonneg_left
    (frob_segOp_le kind thr hthr _ _ _ _ _ _ (hdt g) (hV g) (hQ g)) (abs_nonneg _)

end FFVerif.BoundAux
