/-
Helper vocabulary and lemmas for `Props/C16Kron`: the numeric model `Model/TensorNum` of the tensor
helpers versus Kronecker chains.

* `IsMat A`         : `A` is a well-formed two-dimensional array;
* `entry A i j`     : its `(i, j)` element;
* `kronEntry L x y` : `∏ₖ L[k][x[k], y[k]]`, the element of `L[0] ⊗ L[1] ⊗ …` whose row / column
                      index has the mixed-radix digits `x` / `y`;
* `IsChain T L`     : the array `T` is the (row-major flattened) Kronecker chain of the list `L`.
-/
import FFVerif.Model.TensorNum
import FFVerif.Lemmas.TensorAux
import Mathlib.Algebra.BigOperators.Group.List.Basic
import Mathlib.Algebra.Ring.Defs
import Mathlib.Data.List.Forall2
import Mathlib.Tactic.Ring

set_option linter.unusedSectionVars false
set_option linter.unusedSimpArgs false

namespace FFVerif.TensorNumAux
open FFVerif.Model.Tensor FFVerif.Model.TensorNum FFVerif.TensorAux

variable {α : Type} [CommSemiring α]

/-! ### buffers -/

theorem at_eq_getElem (X : NArr α) (n : Nat) (h : n < X.data.size) : X.at n = X.data[n] := by
  simp [NArr.at, Array.getD, h]

theorem at_ofFn (s : List Nat) (f : Nat → α) (n : Nat) (h : n < prod s) :
    (NArr.ofFn s f).at n = f n := by
  simp [NArr.at, NArr.ofFn, Array.getD, h]

@[simp] theorem ofFn_shape (s : List Nat) (f : Nat → α) : (NArr.ofFn s f).shape = s := rfl

@[simp] theorem ofFn_size (s : List Nat) (f : Nat → α) : (NArr.ofFn s f).data.size = prod s := by
  simp [NArr.ofFn]

/-- two arrays with the same shape, the same buffer size and the same elements are equal -/
theorem narr_ext (X Y : NArr α) (hs : X.shape = Y.shape) (hn : X.data.size = Y.data.size)
    (h : ∀ n, n < X.data.size → X.at n = Y.at n) : X = Y := by
  obtain ⟨sx, dx⟩ := X
  obtain ⟨sy, dy⟩ := Y
  simp only at hs hn
  subst hs
  congr 1
  apply Array.ext hn
  intro i h1 h2
  have := h i h1
  rw [at_eq_getElem _ _ h1, at_eq_getElem _ _ h2] at this
  exact this

/-! ### vocabulary -/

/-- a well-formed two-dimensional array -/
def IsMat (A : NArr α) : Prop := A.shape.length = 2 ∧ A.data.size = prod A.shape

def nrows (A : NArr α) : Nat := A.shape.getD 0 0
def ncols (A : NArr α) : Nat := A.shape.getD 1 0

theorem IsMat.shape_eq {A : NArr α} (h : IsMat A) : A.shape = [nrows A, ncols A] := by
  obtain ⟨sh, dat⟩ := A
  match sh, h with
  | [a, b], _ => rfl

/-- element `(i, j)` of a two-dimensional array -/
def entry (A : NArr α) (i j : Nat) : α := A.at (i * ncols A + j)

def rowsOf (L : List (NArr α)) : List Nat := L.map nrows
def colsOf (L : List (NArr α)) : List Nat := L.map ncols

@[simp] theorem rowsOf_length (L : List (NArr α)) : (rowsOf L).length = L.length := by
  simp [rowsOf]
@[simp] theorem colsOf_length (L : List (NArr α)) : (colsOf L).length = L.length := by
  simp [colsOf]
@[simp] theorem rowsOf_append (L M : List (NArr α)) : rowsOf (L ++ M) = rowsOf L ++ rowsOf M := by
  simp [rowsOf]
@[simp] theorem colsOf_append (L M : List (NArr α)) : colsOf (L ++ M) = colsOf L ++ colsOf M := by
  simp [colsOf]

/-- `∏ₖ L[k][x[k], y[k]]` -/
def kronEntry (L : List (NArr α)) (x y : List Nat) : α :=
  ((L.zip (x.zip y)).map fun t => entry t.1 t.2.1 t.2.2).prod

theorem kronEntry_append (L1 L2 : List (NArr α)) (x1 x2 y1 y2 : List Nat)
    (hx : x1.length = L1.length) (hy : y1.length = L1.length) :
    kronEntry (L1 ++ L2) (x1 ++ x2) (y1 ++ y2) = kronEntry L1 x1 y1 * kronEntry L2 x2 y2 := by
  unfold kronEntry
  rw [List.zip_append (by omega : x1.length = y1.length),
    List.zip_append (by simp [List.length_zip, hx, hy]), List.map_append, List.prod_append]

/-- `T` is the Kronecker chain of `L`, flattened row-major -/
structure IsChain (T : NArr α) (L : List (NArr α)) : Prop where
  shape : T.shape = [prod (rowsOf L), prod (colsOf L)]
  size : T.data.size = prod (rowsOf L) * prod (colsOf L)
  entry : ∀ i j, i < prod (rowsOf L) → j < prod (colsOf L) →
    T.at (i * prod (colsOf L) + j)
      = kronEntry L (mixedRadixDecode (rowsOf L) i) (mixedRadixDecode (colsOf L) j)

theorem isChain_single (A : NArr α) (h : IsMat A) : IsChain A [A] := by
  have hs := h.shape_eq
  refine ⟨?_, ?_, ?_⟩
  · simp [rowsOf, colsOf, prod, hs]
  · rw [h.2, hs]; simp [rowsOf, colsOf, prod]
  · intro i j _ _
    simp [rowsOf, colsOf, prod, kronEntry, mixedRadixDecode, entry]

/-- the chain of a list is unique -/
theorem isChain_unique {T T' : NArr α} {L : List (NArr α)} (h : IsChain T L) (h' : IsChain T' L) :
    T = T' := by
  apply narr_ext _ _ (h.shape.trans h'.shape.symm) (h.size.trans h'.size.symm)
  intro n hn
  rw [h.size] at hn
  have hC : 0 < prod (colsOf L) := by
    rcases Nat.eq_zero_or_pos (prod (colsOf L)) with h0 | h0
    · rw [h0] at hn; omega
    · exact h0
  have hi : n / prod (colsOf L) < prod (rowsOf L) := by
    rw [Nat.div_lt_iff_lt_mul hC]; exact hn
  have hj := Nat.mod_lt n hC
  have e := h.entry _ _ hi hj
  have e' := h'.entry _ _ hi hj
  rw [Nat.div_add_mod' n (prod (colsOf L))] at e e'
  rw [e, e']

/-! ### `binary_tensor` -/

theorem decode2 (a c i : Nat) : mixedRadixDecode [a, c] i = [i / c, i % c] := by
  simp [mixedRadixDecode, prod]

theorem decode4 (a c b d i j : Nat) (hi : i < a * c) (hj : j < b * d) :
    mixedRadixDecode [a, c, b, d] (i * (b * d) + j) = [i / c, i % c, j / d, j % d] := by
  have h : i * (b * d) + j < prod ([a, c] ++ [b, d]) := by
    simp only [prod_append, prod, Nat.mul_one]
    calc i * (b * d) + j < i * (b * d) + b * d := by omega
      _ = (i + 1) * (b * d) := by ring
      _ ≤ a * c * (b * d) := Nat.mul_le_mul_right _ hi
  have hpos : 0 < b * d := by omega
  have := decode_append h
  simp only [List.cons_append, List.nil_append] at this
  rw [this]
  have h1 : (i * (b * d) + j) / prod [b, d] = i := by
    simp only [prod, Nat.mul_one]
    rw [Nat.add_comm, Nat.add_mul_div_right _ _ hpos, Nat.div_eq_of_lt hj, Nat.zero_add]
  have h2 : (i * (b * d) + j) % prod [b, d] = j := by
    simp only [prod, Nat.mul_one]
    rw [Nat.add_comm, Nat.add_mul_mod_self_right, Nat.mod_eq_of_lt hj]
  rw [h1, h2, decode2, decode2]; rfl

/-- the buffer entries computed by the einsum `'ab,cd->acbd'` -/
def kronFn (A B : NArr α) (a b c d : Nat) (n : Nat) : α :=
  let dg := mixedRadixDecode [a, c, b, d] n
  A.at (mixedRadixEncode [a, b] [dg.getD 0 0, dg.getD 2 0]) *
  B.at (mixedRadixEncode [c, d] [dg.getD 1 0, dg.getD 3 0])

/-- the einsum `'ab,cd->acbd'` of `binary_tensor` on two matrices -/
theorem einsumOuter_kron (A B : NArr α) (a b c d : Nat) (hA : A.shape = [a, b])
    (hB : B.shape = [c, d]) :
    einsumOuter [0, 1] [2, 3] [0, 2, 1, 3] A B = .ok (NArr.ofFn [a, c, b, d] (kronFn A B a b c d)) := by
  unfold einsumOuter kronFn
  rw [hA, hB]
  simp [List.idxOf_cons]

theorem binaryTensor_eq (A B : NArr α) (a b c d : Nat) (hA : A.shape = [a, b])
    (hB : B.shape = [c, d]) :
    binaryTensor A B = .ok ⟨[a * c, b * d], (NArr.ofFn [a, c, b, d] (kronFn A B a b c d)).data⟩ := by
  obtain ⟨sA, dA⟩ := A
  obtain ⟨sB, dB⟩ := B
  simp only at hA hB
  subst hA hB
  have hE := einsumOuter_kron (⟨[a, b], dA⟩ : NArr α) ⟨[c, d], dB⟩ a b c d rfl rfl
  simp only [binaryTensor, atLeast2, productShape, bind, Except.bind, hE, reshape, ofFn_shape]
  have h : prod [a * c, b * d] = prod [a, c, b, d] := by simp only [prod]; ring
  exact if_pos h

theorem binaryTensor_isChain (A B : NArr α) (L1 L2 : List (NArr α)) (hA : IsChain A L1)
    (hB : IsChain B L2) : ∃ T, binaryTensor A B = .ok T ∧ IsChain T (L1 ++ L2) := by
  have hsA := hA.shape
  have hsB := hB.shape
  set a := prod (rowsOf L1) with ha
  set b := prod (colsOf L1) with hb
  set c := prod (rowsOf L2) with hc'
  set d := prod (colsOf L2) with hd'
  refine ⟨_, binaryTensor_eq A B a b c d hsA hsB, ?_⟩
  · refine ⟨?_, ?_, ?_⟩
    · simp [prod_append, a, b, c, d]
    · simp only [rowsOf_append, colsOf_append, prod_append]
      rw [ofFn_size]; simp only [prod]; ring
    · intro i j hi hj
      simp only [rowsOf_append, colsOf_append, prod_append] at hi hj ⊢
      have hi' : i < a * c := hi
      have hj' : j < b * d := hj
      have hc : 0 < c := by rcases Nat.eq_zero_or_pos c with h | h; · rw [h] at hi'; omega
                            · exact h
      have hd : 0 < d := by rcases Nat.eq_zero_or_pos d with h | h; · rw [h] at hj'; omega
                            · exact h
      have hn : i * (b * d) + j < prod [a, c, b, d] := by
        simp only [prod, Nat.mul_one]
        calc i * (b * d) + j < i * (b * d) + b * d := by omega
          _ = (i + 1) * (b * d) := by ring
          _ ≤ a * c * (b * d) := Nat.mul_le_mul_right _ hi'
          _ = a * (c * (b * d)) := by ring
      show NArr.at (NArr.ofFn [a, c, b, d] _) _ = _
      rw [at_ofFn _ _ _ hn]
      unfold kronFn
      simp only [decode4 a c b d i j hi' hj']
      have hic : i / c < a := by rw [Nat.div_lt_iff_lt_mul hc]; exact hi'
      have hjd : j / d < b := by rw [Nat.div_lt_iff_lt_mul hd]; exact hj'
      have eA := hA.entry (i / c) (j / d) hic hjd
      have eB := hB.entry (i % c) (j % d) (Nat.mod_lt _ hc) (Nat.mod_lt _ hd)
      have e1 : mixedRadixEncode [a, b] [[i / c, i % c, j / d, j % d].getD 0 0,
          [i / c, i % c, j / d, j % d].getD 2 0] = i / c * b + j / d := by
        simp [mixedRadixEncode, prod]
      have e2 : mixedRadixEncode [c, d] [[i / c, i % c, j / d, j % d].getD 1 0,
          [i / c, i % c, j / d, j % d].getD 3 0] = i % c * d + j % d := by
        simp [mixedRadixEncode, prod]
      rw [e1, e2, eA, eB]
      rw [decode_append (d1 := rowsOf L1) (d2 := rowsOf L2) (by rw [prod_append]; exact hi'),
        decode_append (d1 := colsOf L1) (d2 := colsOf L2) (by rw [prod_append]; exact hj'),
        kronEntry_append _ _ _ _ _ _ (by simp [decode_length]) (by simp [decode_length])]

/-! ### the binary tree of `tensor` -/

theorem pairUpNum_isChain : ∀ (l : List (NArr α)) (Ls : List (List (NArr α))),
    List.Forall₂ IsChain l Ls →
    ∃ l', pairUpNum l = .ok l' ∧ List.Forall₂ IsChain l' (pairUp Ls)
  | [], _, h => by cases h; exact ⟨[], rfl, .nil⟩
  | [a], _, h => by
    cases h with
    | cons h1 h2 => cases h2; exact ⟨[a], rfl, .cons h1 .nil⟩
  | a :: b :: rest, _, h => by
    cases h with
    | cons h1 h2 =>
      cases h2 with
      | cons h2 h3 =>
        obtain ⟨T, hT, hc⟩ := binaryTensor_isChain a b _ _ h1 h2
        obtain ⟨r, hr, hrc⟩ := pairUpNum_isChain rest _ h3
        exact ⟨T :: r, by simp [pairUpNum, hT, hr, bind, Except.bind, pure, Except.pure],
          .cons hc hrc⟩

theorem tensorStepNum_isChain (l : List (NArr α)) (Ls : List (List (NArr α)))
    (h : List.Forall₂ IsChain l Ls) :
    ∃ l', tensorStepNum l = .ok l' ∧ List.Forall₂ IsChain l' (tensorStep Ls) := by
  have hlen := h.length_eq
  obtain ⟨r, hr, hrc⟩ := pairUpNum_isChain _ _ (List.forall₂_drop (l.length % 2) h)
  refine ⟨l.take (l.length % 2) ++ r, by simp [tensorStepNum, hr, bind, Except.bind, pure,
    Except.pure], ?_⟩
  unfold tensorStep
  rw [← hlen]
  exact List.rel_append (List.forall₂_take _ h) hrc

theorem tensorLoopNum_isChain (fuel : Nat) (l : List (NArr α)) (Ls : List (List (NArr α)))
    (h : List.Forall₂ IsChain l Ls) :
    ∃ l', tensorLoopNum fuel l = .ok l' ∧ List.Forall₂ IsChain l' (tensorLoop fuel Ls) := by
  induction fuel generalizing l Ls with
  | zero => exact ⟨l, rfl, h⟩
  | succ fuel ih =>
    have hlen := h.length_eq
    simp only [tensorLoopNum, tensorLoop, ← hlen]
    by_cases hl : l.length > 1
    · obtain ⟨l1, h1, hc1⟩ := tensorStepNum_isChain l Ls h
      obtain ⟨l2, h2, hc2⟩ := ih l1 _ hc1
      refine ⟨l2, ?_, ?_⟩
      · simp [hl, h1, h2, bind, Except.bind]
      · simpa [hl] using hc2
    · exact ⟨l, by simp [hl, pure, Except.pure], by simpa [hl] using h⟩

/-- `util.tensor(*L)` on matrices is the Kronecker chain of `L` -/
theorem tensorChainNum_isChain (L : List (NArr α)) (hne : L ≠ []) (hm : ∀ A ∈ L, IsMat A) :
    ∃ T, tensorChainNum L = .ok T ∧ IsChain T L := by
  have h0 : List.Forall₂ IsChain L (L.map fun A => [A]) := by
    induction L with
    | nil => exact .nil
    | cons A L ih =>
      cases L with
      | nil => exact .cons (isChain_single A (hm A (by simp))) .nil
      | cons B L =>
        exact .cons (isChain_single A (hm A (by simp)))
          (ih (by simp) (fun X hX => hm X (List.mem_cons_of_mem _ hX)))
  obtain ⟨l', hl', hc⟩ := tensorLoopNum_isChain L.length L _ h0
  rw [tensorLoop_spec L.length _ (by simp) (by simpa using hne)] at hc
  have hflat : ∀ M : List (NArr α), (M.map fun A => [A]).flatten = M := by
    intro M
    induction M with
    | nil => rfl
    | cons A M ih => simp [ih]
  have hflat := hflat L
  rw [hflat] at hc
  cases hc with
  | cons hT hnil =>
    cases hnil
    exact ⟨_, by simp [tensorChainNum, hl', bind, Except.bind, pure, Except.pure], hT⟩

end FFVerif.TensorNumAux
