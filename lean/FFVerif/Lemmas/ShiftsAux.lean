/-
Helper lemmas for `FFVerif.Props.C10Shifts`: entry lemmas for the model of
`calculate_frequency_shifts` (`Model/Shifts.lean`), the integrand `Re(F2_{ab,kl} S_ab)` under linear
combinations of the spectrum and under a real change of basis, and the Hermitian-part identity of
the integrand.
-/
import Mathlib.Tactic.Ring
import Mathlib.Tactic.LinearCombination
import FFVerif.Lemmas.InfidelityAux
import FFVerif.Model.Shifts

namespace FFVerif.Model
open FFVerif

variable {nA m N M nO : Nat}

/-- the integrand of `Δ_{ab,kl}`: `Re(F2_{ab,kl}(ω) S_ab(ω))` on the frequency grid -/
def shiftIntegrand (Fabkl Sab : Vec ℂ nO) : Vec ℝ nO :=
  Vector.ofFn fun o => (Fabkl[o] * Sab[o]).re

/-- `Δ_kl` of one pair of noise sources: trapezoid of `Re(F2_{ab,kl} S_ab)` over `2π` -/
noncomputable def shiftEntry (ω : Vec ℝ nO) (Fabkl Sab : Vec ℂ nO) : ℝ :=
  integrateR ω (shiftIntegrand Fabkl Sab) / (2 * Real.pi)

theorem ofFn_get' {α : Type} {n : Nat} (f : Fin n → α) (i : Fin n) : (Vector.ofFn f)[i] = f i := by
  simp only [Fin.getElem_fin, Vector.getElem_ofFn]

theorem map_get' {α β : Type} {n : Nat} (f : α → β) (v : Vector α n) (i : Fin n) :
    (Vector.map f v)[i] = f v[i] := by
  simp only [Fin.getElem_fin, Vector.getElem_map]

theorem integrandFF2_getElem (F : Ten5 ℂ nA nA N M nO) (idx : Vec (Fin nA) m) (S : Mat ℂ m nO)
    (a : Fin m) (k : Fin N) (l : Fin M) :
    (integrandFF2 F idx S)[a][k][l] = shiftIntegrand F[idx[a]][idx[a]][k][l] S[a] := by
  unfold integrandFF2
  rw [map_get', map_get', map_get']
  unfold moveNoiseAxisFront
  rw [ofFn_get', ofFn_get', ofFn_get']
  unfold ffTimesSpectrumDiag
  rw [ofFn_get', ofFn_get', ofFn_get']
  unfold shiftIntegrand
  rw [Vector.map_ofFn]
  congr 1
  funext o
  unfold moveNoiseAxesBack
  rw [Function.comp_apply, ofFn_get', ofFn_get', ofFn_get', ofFn_get', copsRe]

theorem integrandFF3_getElem (F : Ten5 ℂ nA nA N M nO) (idx : Vec (Fin nA) m) (S : Ten3 ℂ m m nO)
    (a b : Fin m) (k : Fin N) (l : Fin M) :
    (integrandFF3 F idx S)[a][b][k][l] = shiftIntegrand F[idx[a]][idx[b]][k][l] S[a][b] := by
  unfold integrandFF3
  rw [map_get', map_get', map_get', map_get']
  unfold moveNoiseAxesFront
  rw [ofFn_get', ofFn_get', ofFn_get', ofFn_get']
  unfold ffTimesSpectrumFull
  rw [ofFn_get', ofFn_get', ofFn_get', ofFn_get']
  unfold shiftIntegrand
  rw [Vector.map_ofFn]
  congr 1
  funext o
  unfold moveNoiseAxesBack
  rw [Function.comp_apply, ofFn_get', ofFn_get', ofFn_get', ofFn_get', copsRe]

theorem frequencyShifts2_getElem (ω : Vec ℝ nO) (F : Ten5 ℂ nA nA N N nO) (idx : Vec (Fin nA) m)
    (S : Mat ℂ m nO) (a : Fin m) (k l : Fin N) :
    (frequencyShifts2 ω F idx S)[a][k][l] = shiftEntry ω F[idx[a]][idx[a]][k][l] S[a] := by
  unfold frequencyShifts2 shiftEntry
  simp only [Fin.getElem_fin, Vector.getElem_ofFn]
  have h := integrandFF2_getElem F idx S a k l
  simp only [Fin.getElem_fin] at h
  rw [h, twoPi_real]

theorem frequencyShifts1_getElem (ω : Vec ℝ nO) (F : Ten5 ℂ nA nA N N nO) (idx : Vec (Fin nA) m)
    (S : Vec ℂ nO) (a : Fin m) (k l : Fin N) :
    (frequencyShifts1 ω F idx S)[a][k][l] = shiftEntry ω F[idx[a]][idx[a]][k][l] S := by
  unfold frequencyShifts1
  rw [frequencyShifts2_getElem]
  simp only [Fin.getElem_fin, Vector.getElem_ofFn]

theorem frequencyShifts3_getElem (ω : Vec ℝ nO) (F : Ten5 ℂ nA nA N N nO) (idx : Vec (Fin nA) m)
    (S : Ten3 ℂ m m nO) (a b : Fin m) (k l : Fin N) :
    (frequencyShifts3 ω F idx S)[a][b][k][l] = shiftEntry ω F[idx[a]][idx[b]][k][l] S[a][b] := by
  unfold frequencyShifts3 shiftEntry
  simp only [Fin.getElem_fin, Vector.getElem_ofFn]
  have h := integrandFF3_getElem F idx S a b k l
  simp only [Fin.getElem_fin] at h
  rw [h, twoPi_real]

/-- `shiftEntry` spelled out: the trapezoid sum of `Re(F2 S)` over `2π` -/
theorem shiftEntry_eq (ω : Vec ℝ nO) (Fabkl Sab : Vec ℂ nO) :
    shiftEntry ω Fabkl Sab
      = Spec.trapz (fun r : ℝ => r) (fun o => ω[o]) (fun o => (Fabkl[o] * Sab[o]).re)
        / (2 * Real.pi) := by
  unfold shiftEntry shiftIntegrand
  rw [integrateR_eq_trapz]
  simp only [Fin.getElem_fin, Vector.getElem_ofFn]

/-- `shiftEntry` depends on the filter-function values only -/
theorem shiftEntry_congr (ω : Vec ℝ nO) (F F' Sab : Vec ℂ nO) (h : ∀ o : Fin nO, F[o] = F'[o]) :
    shiftEntry ω F Sab = shiftEntry ω F' Sab := by
  have : F = F' := by
    apply Vector.ext; intro o ho; exact h ⟨o, ho⟩
  rw [this]

/-- real-linear in the spectrum -/
theorem shiftEntry_linear (ω : Vec ℝ nO) (F S S' : Vec ℂ nO) (c : ℝ) :
    shiftEntry ω F (Vector.ofFn fun o => (c : ℂ) * S[o] + S'[o])
      = c * shiftEntry ω F S + shiftEntry ω F S' := by
  simp only [shiftEntry_eq, Fin.getElem_fin, Vector.getElem_ofFn]
  have e : ∀ o : Fin nO, (F[o.1] * ((c : ℂ) * S[o.1] + S'[o.1])).re
      = c * (F[o.1] * S[o.1]).re + (F[o.1] * S'[o.1]).re := by
    intro o
    have : F[o.1] * ((c : ℂ) * S[o.1] + S'[o.1]) = (c : ℂ) * (F[o.1] * S[o.1]) + F[o.1] * S'[o.1] := by
      ring
    rw [this, Complex.add_re, Complex.re_ofReal_mul]
  rw [funext e, Spec.trapz_add, Spec.trapz_smul]
  ring

/-- a finite real-linear combination of filter-function rows goes through `shiftEntry` -/
theorem shiftEntry_sum {ι : Type} (s : Finset ι) (ω : Vec ℝ nO) (c : ι → ℝ) (F : ι → Vec ℂ nO)
    (F' Sab : Vec ℂ nO) (h : ∀ o : Fin nO, F'[o] = ∑ p ∈ s, (c p : ℂ) * (F p)[o]) :
    shiftEntry ω F' Sab = ∑ p ∈ s, c p * shiftEntry ω (F p) Sab := by
  have hI : shiftIntegrand F' Sab
      = Vector.ofFn fun o : Fin nO => ∑ p ∈ s, c p * (shiftIntegrand (F p) Sab)[o] := by
    unfold shiftIntegrand
    congr 1
    funext o
    rw [h o, Finset.sum_mul, Complex.re_sum]
    refine Finset.sum_congr rfl fun p _ => ?_
    simp only [Fin.getElem_fin, Vector.getElem_ofFn]
    rw [mul_assoc, Complex.re_ofReal_mul]
  unfold shiftEntry
  rw [hI, integrateR_linear, Finset.sum_div]
  refine Finset.sum_congr rfl fun p _ => ?_
  ring

/-- **Basis change of one pair of noise sources**: if the second-order filter function transforms
as `F2'_{kl}(ω) = Σ_{k'l'} O_kk' F2_{k'l'}(ω) O_ll'` with a REAL matrix `O`, the frequency shifts
transform in the same way (the real part is taken before integrating; only real factors can be
pulled out). -/
theorem shiftEntry_basis_change {N N' : Nat} (ω : Vec ℝ nO) (F : Mat (Vec ℂ nO) N N)
    (F' : Mat (Vec ℂ nO) N' N') (O : Matrix (Fin N') (Fin N) ℝ) (Sab : Vec ℂ nO) (k l : Fin N')
    (h : ∀ o : Fin nO, F'[k][l][o]
      = ∑ k' : Fin N, ∑ l' : Fin N, (O k k' : ℂ) * F[k'][l'][o] * (O l l' : ℂ)) :
    shiftEntry ω F'[k][l] Sab
      = ∑ k' : Fin N, ∑ l' : Fin N, O k k' * shiftEntry ω F[k'][l'] Sab * O l l' := by
  have h' : ∀ o : Fin nO, F'[k][l][o]
      = ∑ p ∈ (Finset.univ : Finset (Fin N × Fin N)),
          ((O k p.1 * O l p.2 : ℝ) : ℂ) * (F[p.1][p.2])[o] := by
    intro o
    rw [h o, Fintype.sum_prod_type]
    refine Finset.sum_congr rfl fun k' _ => Finset.sum_congr rfl fun l' _ => ?_
    push_cast
    ring
  rw [shiftEntry_sum Finset.univ ω (fun p : Fin N × Fin N => O k p.1 * O l p.2)
    (fun p => F[p.1][p.2]) _ Sab h', Fintype.sum_prod_type]
  refine Finset.sum_congr rfl fun k' _ => Finset.sum_congr rfl fun l' _ => ?_
  ring

/-- **Hermitian part of the integrand.**  If `F_{ab,kl}(ω) + conj F_{ba,lk}(ω) = conj(B_ak) B_bl`
and `S_ba = conj S_ab` at every frequency, then
`Re(F_{ab,kl} S_ab) + Re(F_{ba,lk} S_ba) = Re(conj(B_ak) S_ab B_bl)`. -/
theorem shiftEntry_add_swap (ω : Vec ℝ nO) (Fabkl Fbalk Sab Sba : Vec ℂ nO) {Nk Nl : Nat}
    (Ba : Mat ℂ Nk nO) (Bb : Mat ℂ Nl nO) (k : Fin Nk) (l : Fin Nl)
    (hF : ∀ o : Fin nO, Fabkl[o] + starRingEnd ℂ Fbalk[o] = starRingEnd ℂ Ba[k][o] * Bb[l][o])
    (hS : ∀ o : Fin nO, Sba[o] = starRingEnd ℂ Sab[o]) :
    shiftEntry ω Fabkl Sab + shiftEntry ω Fbalk Sba
      = integrateR ω (gammaIntegrand Ba Bb Sab k l) / (2 * Real.pi) := by
  have hI : gammaIntegrand Ba Bb Sab k l
      = Vector.ofFn fun o : Fin nO => ∑ p : Fin 2,
          (1 : ℝ) * (if p = 0 then shiftIntegrand Fabkl Sab else shiftIntegrand Fbalk Sba)[o] := by
    unfold gammaIntegrand shiftIntegrand
    congr 1
    funext o
    rw [Fin.sum_univ_two]
    simp only [Fin.isValue, if_true, one_mul, Fin.getElem_fin, Vector.getElem_ofFn,
      Fin.one_eq_zero_iff, OfNat.ofNat_ne_one, if_false]
    have h1 := hF o
    have h2 := hS o
    simp only [Fin.getElem_fin] at h1 h2
    have e : starRingEnd ℂ Ba[k.1][o.1] * Sab[o.1] * Bb[l.1][o.1]
        = Fabkl[o.1] * Sab[o.1] + starRingEnd ℂ (Fbalk[o.1] * Sba[o.1]) := by
      rw [map_mul, h2, Complex.conj_conj]
      linear_combination Sab[o.1] * h1.symm
    rw [e, Complex.add_re, Complex.conj_re]
  unfold shiftEntry
  rw [hI, integrateR_linear, Fin.sum_univ_two]
  simp only [Fin.isValue, if_true, one_mul, Fin.one_eq_zero_iff, OfNat.ofNat_ne_one, if_false]
  ring

end FFVerif.Model
