/-
Helper lemmas for C11 (gradient.py): closed forms of the nested segment integral, unfolding
lemmas of the model at ℝ/ℂ, trapezoid-rule linearity.
-/
import Mathlib.Analysis.SpecialFunctions.Integrals.Basic
import Mathlib.Analysis.Complex.Exponential
import Mathlib.Analysis.Complex.RealDeriv
import Mathlib.Analysis.Calculus.Deriv.Star
import Mathlib.Analysis.SpecialFunctions.ExpDeriv
import Mathlib.Analysis.SpecialFunctions.Trigonometric.Bounds
import FFVerif.Lemmas.Inst
import FFVerif.Lemmas.Bridge
import FFVerif.Props.C01
import FFVerif.Model.Gradient

namespace FFVerif.GradientAux
open FFVerif FFVerif.Model Complex MeasureTheory intervalIntegral
open FFVerif.C01 (segIntegral segIntegral_closed segIntegral_zero)

/-! ### masks at ℝ -/

theorem gradMask_iff (thr v : ℝ) : gradMask thr v = true ↔ |v| < thr := by
  simp [gradMask]

theorem gradMask_false_iff (thr v : ℝ) : gradMask thr v = false ↔ thr ≤ |v| := by
  simp [gradMask]

/-- `v` is not in the grey zone of an absolute mask `|v| < thr`: exactly zero, or not masked. -/
def Sharp (thr v : ℝ) : Prop := v = 0 ∨ thr ≤ |v|

theorem Sharp.cases {thr v : ℝ} (hthr : 0 < thr) (h : Sharp thr v) :
    (gradMask thr v = true ∧ v = 0) ∨ (gradMask thr v = false ∧ v ≠ 0) := by
  rcases h with h | h
  · left; subst h; exact ⟨by simp [gradMask, hthr], rfl⟩
  · right
    refine ⟨(gradMask_false_iff _ _).2 h, ?_⟩
    rintro rfl
    simp at h
    linarith

/-! ### the nested integral -/

/-- `∫₀^dt e^{i x t} (∫₀^t e^{i Ω s} ds) dt` -/
noncomputable def nestedIntegral (x Ω dt : ℝ) : ℂ :=
  ∫ t in (0:ℝ)..dt, Complex.exp (Complex.I * x * t) * segIntegral Ω t

theorem hasDerivAt_cexp_mul (c : ℂ) (t : ℝ) :
    HasDerivAt (fun s : ℝ => Complex.exp (c * s)) (c * Complex.exp (c * t)) t := by
  have h1 : HasDerivAt (fun z : ℂ => Complex.exp (c * z)) (Complex.exp (c * (t:ℂ)) * (c * 1))
      (t:ℂ) := ((hasDerivAt_id (t:ℂ)).const_mul c).cexp
  have h2 := h1.comp_ofReal
  convert h2 using 1
  ring

theorem continuous_cexp_mul (c : ℂ) : Continuous fun s : ℝ => Complex.exp (c * s) := by
  fun_prop

/-- `∫₀^dt e^{c t}·t dt = dt e^{c dt}/c − (e^{c dt} − 1)/c²` -/
theorem integral_cexp_mul_id (c : ℂ) (hc : c ≠ 0) (dt : ℝ) :
    ∫ t in (0:ℝ)..dt, Complex.exp (c * t) * t
      = dt * Complex.exp (c * dt) / c - (Complex.exp (c * dt) - 1) / c ^ 2 := by
  have hderiv : ∀ t ∈ Set.uIcc (0:ℝ) dt,
      HasDerivAt (fun s : ℝ => (s:ℂ) * Complex.exp (c * s) / c - Complex.exp (c * s) / c ^ 2)
        (Complex.exp (c * t) * t) t := by
    intro t _
    have h1 := hasDerivAt_cexp_mul c t
    have h0 : HasDerivAt (fun s : ℝ => (s:ℂ)) 1 t := (hasDerivAt_id t).ofReal_comp
    have h2 := ((h0.mul h1).div_const c).sub (h1.div_const (c ^ 2))
    refine HasDerivAt.congr_deriv (f' := _) h2 ?_
    field_simp
    ring
  have hint : IntervalIntegrable (fun t : ℝ => Complex.exp (c * t) * t) volume 0 dt := by
    apply Continuous.intervalIntegrable
    fun_prop
  rw [integral_eq_sub_of_hasDerivAt hderiv hint]
  simp
  field_simp
  ring

theorem nestedIntegral_zero_zero (dt : ℝ) : nestedIntegral 0 0 dt = (dt:ℂ) ^ 2 / 2 := by
  unfold nestedIntegral
  simp only [segIntegral_zero, Complex.ofReal_zero, mul_zero, zero_mul, Complex.exp_zero, one_mul]
  have h : ∀ t ∈ Set.uIcc (0:ℝ) dt, HasDerivAt (fun s : ℝ => (s:ℂ) ^ 2 / 2) (t:ℂ) t := by
    intro t _
    have h0 : HasDerivAt (fun s : ℝ => (s:ℂ)) 1 t := (hasDerivAt_id t).ofReal_comp
    have := (h0.pow 2).div_const 2
    refine HasDerivAt.congr_deriv (f' := _) this ?_
    simp
  rw [integral_eq_sub_of_hasDerivAt h (Continuous.intervalIntegrable (by fun_prop) _ _)]
  simp

theorem nestedIntegral_zero_right (x dt : ℝ) (hx : x ≠ 0) :
    nestedIntegral x 0 dt
      = dt * Complex.exp (Complex.I * x * dt) / (Complex.I * x)
        - (Complex.exp (Complex.I * x * dt) - 1) / (Complex.I * x) ^ 2 := by
  unfold nestedIntegral
  simp only [segIntegral_zero]
  have hc : (Complex.I * (x:ℂ)) ≠ 0 := mul_ne_zero Complex.I_ne_zero (by exact_mod_cast hx)
  exact integral_cexp_mul_id (Complex.I * x) hc dt

/-- for `Ω ≠ 0` the nested integral is a difference of two segment integrals -/
theorem nestedIntegral_ne (x Ω dt : ℝ) (hΩ : Ω ≠ 0) :
    nestedIntegral x Ω dt
      = (segIntegral (x + Ω) dt - segIntegral x dt) / (Complex.I * Ω) := by
  unfold nestedIntegral
  have hc : (Complex.I * (Ω:ℂ)) ≠ 0 := mul_ne_zero Complex.I_ne_zero (by exact_mod_cast hΩ)
  have hpt : ∀ t : ℝ, Complex.exp (Complex.I * x * t) * segIntegral Ω t
      = (Complex.exp (Complex.I * ((x + Ω : ℝ):ℂ) * t) - Complex.exp (Complex.I * x * t))
          / (Complex.I * Ω) := by
    intro t
    rw [segIntegral_closed Ω t hΩ]
    have : Complex.exp (Complex.I * ((x + Ω : ℝ):ℂ) * t)
        = Complex.exp (Complex.I * x * t) * Complex.exp (Complex.I * (Ω * t)) := by
      rw [← Complex.exp_add]; push_cast; congr 1; ring
    rw [this]
    field_simp
  simp only [hpt]
  rw [intervalIntegral.integral_div, intervalIntegral.integral_sub]
  · rfl
  · exact Continuous.intervalIntegrable (by fun_prop) _ _
  · exact Continuous.intervalIntegrable (by fun_prop) _ _

/-! ### the finite-difference bound used for the masked branches -/

theorem norm_cexp_I_sub_one_le (y : ℝ) : ‖Complex.exp (Complex.I * y) - 1‖ ≤ |y| := by
  have := Real.norm_exp_I_mul_ofReal_sub_one_le (x := y)
  simpa using this

end FFVerif.GradientAux

namespace FFVerif.GradientAux
open FFVerif FFVerif.Model Complex

/-! ### unfolding the assembly model at ℝ/ℂ -/

theorem ffDerivative_get {nA nK nO nH nT : Nat} (B : Ten3 ℂ nA nK nO)
    (dB : Vector (Vector (Vector (Vector (Vector ℂ nK) nA) nT) nO) nH)
    (a : Fin nA) (t : Fin nT) (h : Fin nH) (o : Fin nO) :
    (ffDerivative (R := ℝ) B dB)[a][t][h][o]
      = 2 * (∑ k : Fin nK, starRingEnd ℂ B[a][k][o] * dB[h][o][t][a][k]).re := by
  simp only [ffDerivative, Gen.gradient_calculate_filter_function_derivative_0, Fin.getElem_fin,
    Vector.getElem_ofFn, Vector.getElem_map, copsConj, copsRe, fsum_eq_sum, Nat.cast_ofNat]

theorem integrate_eq {nO : Nat} (f x : Vec ℝ nO) :
    integrate f x
      = (∑ i : Fin (nO - 1), (f[i.1 + 1]'(by omega) + f[i.1]'(by omega))
          * (x[i.1 + 1]'(by omega) - x[i.1]'(by omega))) / 2 := by
  simp only [integrate, fsum_eq_sum, Nat.cast_ofNat]

theorem infidTail_get {nT nH nO : Nat} (d : Nat) (omega : Vec ℝ nO) (g : Ten3 ℝ nT nH nO)
    (t : Fin nT) (h : Fin nH) :
    (infidTail d omega g)[t][h] = integrate g[t][h] omega / (2 * Real.pi * d) := by
  simp only [infidTail, Fin.getElem_fin, Vector.getElem_map, ropsPi, Nat.cast_ofNat]

theorem infidelityDerivative0_get {nA nT nH nO : Nat} (d : Nat) (omega S : Vec ℝ nO)
    (dF : Vector (Ten3 ℝ nT nH nO) nA) (a : Fin nA) (t : Fin nT) (h : Fin nH) :
    (infidelityDerivative0 d omega S dF)[a][t][h]
      = integrate (Vector.ofFn fun o : Fin nO => S[o] * dF[a][t][h][o]) omega
          / (2 * Real.pi * d) := by
  simp only [infidelityDerivative0, Fin.getElem_fin, Vector.getElem_map]
  rw [show ∀ (v : Ten3 ℝ nT nH nO), (infidTail d omega v)[t.1][h.1] = (infidTail d omega v)[t][h]
    from fun _ => rfl, infidTail_get]
  simp only [Gen.gradient_infidelity_derivative_1_e0, Fin.getElem_fin, Vector.getElem_ofFn]

theorem infidelityDerivative1_get {nA nT nH nO : Nat} (d : Nat) (omega : Vec ℝ nO)
    (S : Mat ℝ nA nO) (dF : Vector (Ten3 ℝ nT nH nO) nA) (a : Fin nA) (t : Fin nT) (h : Fin nH) :
    (infidelityDerivative1 d omega S dF)[a][t][h]
      = integrate (Vector.ofFn fun o : Fin nO => S[a][o] * dF[a][t][h][o]) omega
          / (2 * Real.pi * d) := by
  simp only [infidelityDerivative1, Fin.getElem_fin, Vector.getElem_map]
  rw [show ∀ (v : Ten3 ℝ nT nH nO), (infidTail d omega v)[t.1][h.1] = (infidTail d omega v)[t][h]
    from fun _ => rfl, infidTail_get]
  simp only [Gen.gradient_infidelity_derivative_1_e1, Fin.getElem_fin, Vector.getElem_ofFn]

theorem selectRows_get {α : Type} {n k : Nat} (idx : Vector (Fin n) k) (v : Vector α n)
    (i : Fin k) : (selectRows idx v)[i] = v[idx[i]] := by
  simp only [selectRows, Fin.getElem_fin, Vector.getElem_ofFn]

/-- the trapezoid rule commutes with differentiation in a parameter -/
theorem hasDerivAt_integrate {nO : Nat} (F : Fin nO → ℝ → ℝ) (dF : Fin nO → ℝ) (x : Vec ℝ nO)
    (u : ℝ) (hF : ∀ o, HasDerivAt (F o) (dF o) u) :
    HasDerivAt (fun v => integrate (Vector.ofFn fun o => F o v) x)
      (integrate (Vector.ofFn dF) x) u := by
  simp only [integrate_eq, Vector.getElem_ofFn]
  refine HasDerivAt.div_const ?_ 2
  refine HasDerivAt.fun_sum fun i _ => ?_
  exact ((hF _).add (hF _)).mul_const _

end FFVerif.GradientAux

namespace FFVerif.GradientAux
open FFVerif FFVerif.Model Complex MeasureTheory intervalIntegral
open FFVerif.C01 (segIntegral segIntegral_closed segIntegral_zero)

/-! ### error bounds for the grey zone of the absolute masks -/

theorem continuous_segIntegral (Ω : ℝ) : Continuous fun t : ℝ => segIntegral Ω t := by
  by_cases h : Ω = 0
  · subst h; simp only [segIntegral_zero]; exact Complex.continuous_ofReal
  · simp only [segIntegral_closed Ω _ h]; fun_prop

theorem norm_cexp_I_mul_mul (x t : ℝ) : ‖Complex.exp (Complex.I * x * t)‖ = 1 := by
  have : Complex.I * (x:ℂ) * t = ((x * t : ℝ):ℂ) * Complex.I := by push_cast; ring
  rw [this, Complex.norm_exp_ofReal_mul_I]

/-- `‖∫₀^t e^{iΩs} ds − t‖ ≤ |Ω| t²` for `|Ω t| ≤ 1`, `t ≥ 0` -/
theorem norm_segIntegral_sub_le (Ω t : ℝ) (ht : 0 ≤ t) (h : |Ω * t| ≤ 1) :
    ‖(t:ℂ) - segIntegral Ω t‖ ≤ |Ω| * t ^ 2 := by
  have hfm : firstOrderMask .absTimesDtGt |Ω * t| Ω t = false := by
    simp [firstOrderMask]
  have h1 := C01.firstOrderEntry_masked_error |Ω * t| Ω t h ht hfm
  have heq : (firstOrderEntry .absTimesDtGt |Ω * t| Ω t : ℂ) = t := by
    unfold firstOrderEntry
    rw [hfm]; simp
  rw [heq] at h1
  refine h1.trans_eq ?_
  rw [abs_mul, abs_of_nonneg ht]; ring

theorem norm_integral_le_cube (f : ℝ → ℂ) (c dt : ℝ) (hdt : 0 ≤ dt)
    (hb : ∀ t, 0 ≤ t → t ≤ dt → ‖f t‖ ≤ c * t ^ 2) :
    ‖∫ t in (0:ℝ)..dt, f t‖ ≤ c * dt ^ 3 / 3 := by
  have h := intervalIntegral.norm_integral_le_of_norm_le (μ := volume) (f := f)
    (g := fun t => c * t ^ 2) hdt
    (Filter.Eventually.of_forall fun t ht => hb t ht.1.le ht.2)
    (Continuous.intervalIntegrable (by fun_prop) _ _)
  refine h.trans_eq ?_
  rw [intervalIntegral.integral_const_mul, integral_pow]
  norm_num
  ring

theorem nestedIntegral_sub_zero_right_le (x Ω dt : ℝ) (hdt : 0 ≤ dt) (h : |Ω| * dt ≤ 1) :
    ‖nestedIntegral x 0 dt - nestedIntegral x Ω dt‖ ≤ |Ω| * dt ^ 3 / 3 := by
  unfold nestedIntegral
  have hc : ∀ Ω', IntervalIntegrable
      (fun t : ℝ => Complex.exp (Complex.I * x * t) * segIntegral Ω' t) volume 0 dt := fun Ω' =>
    Continuous.intervalIntegrable
      ((by fun_prop : Continuous fun t : ℝ => Complex.exp (Complex.I * x * t)).mul
        (continuous_segIntegral Ω')) _ _
  rw [← intervalIntegral.integral_sub (hc 0) (hc Ω)]
  refine norm_integral_le_cube _ _ dt hdt fun t ht0 ht => ?_
  rw [← mul_sub, norm_mul, norm_cexp_I_mul_mul, one_mul, segIntegral_zero]
  refine norm_segIntegral_sub_le Ω t ht0 ?_
  rw [abs_mul, abs_of_nonneg ht0]
  exact (mul_le_mul_of_nonneg_left ht (abs_nonneg _)).trans h

theorem nestedIntegral_zero_right_sub_le (x dt : ℝ) (hdt : 0 ≤ dt) :
    ‖(dt:ℂ) ^ 2 / 2 - nestedIntegral x 0 dt‖ ≤ |x| * dt ^ 3 / 3 := by
  rw [← nestedIntegral_zero_zero]
  unfold nestedIntegral
  have hc : ∀ x' : ℝ, IntervalIntegrable
      (fun t : ℝ => Complex.exp (Complex.I * x' * t) * segIntegral 0 t) volume 0 dt := fun x' =>
    Continuous.intervalIntegrable
      ((by fun_prop : Continuous fun t : ℝ => Complex.exp (Complex.I * x' * t)).mul
        (continuous_segIntegral 0)) _ _
  rw [← intervalIntegral.integral_sub (hc 0) (hc x)]
  refine norm_integral_le_cube _ _ dt hdt fun t ht0 _ => ?_
  rw [← sub_mul, norm_mul, segIntegral_zero, Complex.norm_real, Real.norm_eq_abs,
    abs_of_nonneg ht0, norm_sub_rev]
  have h1 := norm_cexp_I_sub_one_le (x * t)
  have e : Complex.I * ((x * t : ℝ):ℂ) = Complex.I * x * t := by push_cast; ring
  have e0 : Complex.exp (Complex.I * ((0:ℝ):ℂ) * t) = 1 := by simp
  rw [e] at h1
  rw [e0]
  calc ‖Complex.exp (Complex.I * x * t) - 1‖ * t ≤ |x * t| * t :=
        mul_le_mul_of_nonneg_right h1 ht0
    _ = |x| * t ^ 2 := by rw [abs_mul, abs_of_nonneg ht0]; ring

/-- `‖∫₀^dt e^{ixt}∫₀^t e^{iΩs} − dt²/2‖ ≤ (|x| + |Ω|) dt³/3` -/
theorem nestedIntegral_sub_half_sq_le (x Ω dt : ℝ) (hdt : 0 ≤ dt) (h : |Ω| * dt ≤ 1) :
    ‖(dt:ℂ) ^ 2 / 2 - nestedIntegral x Ω dt‖ ≤ (|x| + |Ω|) * dt ^ 3 / 3 := by
  have h1 := nestedIntegral_zero_right_sub_le x dt hdt
  have h2 := nestedIntegral_sub_zero_right_le x Ω dt hdt h
  calc ‖(dt:ℂ) ^ 2 / 2 - nestedIntegral x Ω dt‖
      = ‖((dt:ℂ) ^ 2 / 2 - nestedIntegral x 0 dt)
          + (nestedIntegral x 0 dt - nestedIntegral x Ω dt)‖ := by congr 1; ring
    _ ≤ _ := norm_add_le _ _
    _ ≤ |x| * dt ^ 3 / 3 + |Ω| * dt ^ 3 / 3 := add_le_add h1 h2
    _ = _ := by ring

end FFVerif.GradientAux

namespace FFVerif.GradientAux
open FFVerif FFVerif.Model

/-! ### the noise index is free in every generated contraction of the control-matrix derivative -/

theorem selectRows_getNat {α : Type} {n k : Nat} (idx : Vector (Fin n) k) (v : Vector α n)
    (i : Fin k) : (selectRows idx v)[(i:ℕ)] = v[(idx[(i:ℕ)] : ℕ)] := by
  simp only [selectRows, Fin.getElem_fin, Vector.getElem_ofFn]

theorem rowwise_step0 {K : Type} [Zero K] [Add K] [Mul K] {nAll k nH nP nM nO : Nat}
    (idx : Vector (Fin nAll) k) (i : Fin k)
    (l : Vector (Vector (Vector (Vector K nM) nP) nH) nAll) (i1 : Ten3 K nO nP nM)
    (h : Fin nH) (o : Fin nO) (p : Fin nP) :
    (Gen.gradient__control_matrix_at_timestep_derivative_0 (selectRows idx l) i1)[i][h][o][p]
      = (Gen.gradient__control_matrix_at_timestep_derivative_0 l i1)[idx[i]][h][o][p] := by
  have e : (selectRows idx l)[(i:ℕ)] = l[(idx[(i:ℕ)] : ℕ)] := selectRows_getNat idx l i
  simp only [Gen.gradient__control_matrix_at_timestep_derivative_0, Fin.getElem_fin,
    Vector.getElem_ofFn, e]

theorem rowwise_step1 {K : Type} [Zero K] [Add K] [Mul K] {nAll k nH nP nM nO : Nat}
    (idx : Vector (Fin nAll) k) (i : Fin k)
    (l : Vector (Vector (Vector (Vector K nM) nP) nH) nAll) (i2 : Ten3 K nO nP nM)
    (h : Fin nH) (o : Fin nO) (p : Fin nP) :
    (Gen.gradient__control_matrix_at_timestep_derivative_1 (selectRows idx l) i2)[i][h][o][p]
      = (Gen.gradient__control_matrix_at_timestep_derivative_1 l i2)[idx[i]][h][o][p] := by
  have e : (selectRows idx l)[(i:ℕ)] = l[(idx[(i:ℕ)] : ℕ)] := selectRows_getNat idx l i
  simp only [Gen.gradient__control_matrix_at_timestep_derivative_1, Fin.getElem_fin,
    Vector.getElem_ofFn, e]

theorem rowwise_step2 {K : Type} [Zero K] [Add K] [Mul K] {nAll k nH nO nJ nN nK : Nat}
    (idx : Vector (Fin nAll) k) (i : Fin k) (ph : Vec K nO) (b : Ten3 K nJ nN nK)
    (M : Vector (Vector (Vector (Vector (Vector K nN) nK) nO) nH) nAll)
    (j : Fin nJ) (h : Fin nH) (o : Fin nO) :
    (Gen.gradient__control_matrix_at_timestep_derivative_2 ph b (selectRows idx M))[i][j][h][o]
      = (Gen.gradient__control_matrix_at_timestep_derivative_2 ph b M)[idx[i]][j][h][o] := by
  have e : (selectRows idx M)[(i:ℕ)] = M[(idx[(i:ℕ)] : ℕ)] := selectRows_getNat idx M i
  simp only [Gen.gradient__control_matrix_at_timestep_derivative_2, Fin.getElem_fin,
    Vector.getElem_ofFn, e]

theorem rowwise_scratch0 {K : Type} [Zero K] [Add K] [Mul K] {nAll k nO nJ nC nD : Nat}
    (idx : Vector (Fin nAll) k) (i : Fin k)
    (ph : Vec K nO) (b : Ten3 K nJ nC nD) (nops : Ten3 K nAll nD nC) (I1 : Ten3 K nO nD nC)
    (j : Fin nJ) (o : Fin nO) :
    (Gen.gradient_calculate_derivative_of_control_matrix_from_scratch_0 ph b
        (selectRows idx nops) I1)[i][j][o]
      = (Gen.gradient_calculate_derivative_of_control_matrix_from_scratch_0 ph b nops I1)[idx[i]][j][o] := by
  have e : (selectRows idx nops)[(i:ℕ)] = nops[(idx[(i:ℕ)] : ℕ)] := selectRows_getNat idx nops i
  simp only [Gen.gradient_calculate_derivative_of_control_matrix_from_scratch_0,
    Fin.getElem_fin, Vector.getElem_ofFn, e]

theorem rowwise_scratch1_core {K : Type} [Zero K] [Add K] [Mul K] {nAll k nH nO nJ nK nT nS : Nat}
    (csSel : Vector (Ten3 K k nJ nO) nT) (cs : Vector (Ten3 K nAll nJ nO) nT)
    (i : Fin k) (a' : Fin nAll) (hsel : ∀ t : Fin nT, csSel[t][i] = cs[t][a'])
    (ld : Vector (Vector (Vector (Vector (Vector K nK) nJ) nS) nH) nT)
    (h : Fin nH) (o : Fin nO) (s : Fin nS) (kk : Fin nK) :
    (Gen.gradient_calculate_derivative_of_control_matrix_from_scratch_1 csSel ld)[h][o][s][i][kk]
      = (Gen.gradient_calculate_derivative_of_control_matrix_from_scratch_1 cs ld)[h][o][s][a'][kk] := by
  simp only [Gen.gradient_calculate_derivative_of_control_matrix_from_scratch_1,
    Fin.getElem_fin, Vector.getElem_ofFn]
  refine congrArg _ (funext fun t => ?_)
  have e := hsel t
  simp only [Fin.getElem_fin] at e
  simp only [e]

theorem rowwise_scratch1 {K : Type} [Zero K] [Add K] [Mul K] {nAll k nH nO nJ nK nT nS : Nat}
    (idx : Vector (Fin nAll) k) (i : Fin k)
    (cs : Vector (Ten3 K nAll nJ nO) nT)
    (ld : Vector (Vector (Vector (Vector (Vector K nK) nJ) nS) nH) nT)
    (h : Fin nH) (o : Fin nO) (s : Fin nS) (kk : Fin nK) :
    (Gen.gradient_calculate_derivative_of_control_matrix_from_scratch_1
        (cs.map (selectRows idx)) ld)[h][o][s][i][kk]
      = (Gen.gradient_calculate_derivative_of_control_matrix_from_scratch_1 cs ld)[h][o][s][idx[i]][kk] := by
  apply rowwise_scratch1_core
  intro t
  have e : (Vector.map (selectRows idx) cs)[t] = selectRows idx cs[t] := by
    simp only [Fin.getElem_fin, Vector.getElem_map]
  rw [e]
  exact selectRows_get idx _ i

end FFVerif.GradientAux
