/-
Helper lemmas for `FFVerif.Props.C08Integrand`, second part: the filter-function branches of
`Model.getIntegrand` fed with the filter function of a control matrix against the control-matrix
branches, the slices of the memory-parsimonious loops, sums over pulse pairs.
-/
import Mathlib.Tactic.Ring
import FFVerif.Lemmas.IntegrandAux

namespace FFVerif.Model.IntegrandAux
open FFVerif

variable {G nA m N Nl M nO : Nat}

/-! ### scalar identities -/

theorem re_ff_mul (x y s : ℂ) : (starRingEnd ℂ x * y * s).re = (starRingEnd ℂ x * s * y).re := by
  congr 1
  ring

theorem re_sum_ff_mul (x y : Fin N → ℂ) (s : ℂ) :
    ((∑ k, starRingEnd ℂ (x k) * y k) * s).re = (∑ k, starRingEnd ℂ (x k) * s * y k).re := by
  rw [Finset.sum_mul]
  congr 1
  exact Finset.sum_congr rfl fun k _ => by ring

/-! ### filter function of a control matrix = control-matrix branch (one control matrix) -/

theorem ffFid2_eq_cm (B : Ten3 ℂ nA N nO) (idx : Vec (Fin nA) m) (S : Mat ℂ m nO) :
    (ffIntegrandFid2 (filterFunctionFid B) idx S : Mat ℝ m nO) = cmIntegrandTotalFid2 B B idx S := by
  refine vec_ext_fin fun a => vec_ext_fin fun o => ?_
  rw [ffIntegrandFid2_get, cmIntegrandTotalFid2_get, filterFunctionFid_get, re_sum_ff_mul]

theorem ffFid3_eq_cm (B : Ten3 ℂ nA N nO) (idx : Vec (Fin nA) m) (S : Ten3 ℂ m m nO) :
    (ffIntegrandFid3 (filterFunctionFid B) idx S : Ten3 ℝ m m nO)
      = cmIntegrandTotalFid3 B B idx S := by
  refine vec_ext_fin fun a => vec_ext_fin fun b => vec_ext_fin fun o => ?_
  rw [ffIntegrandFid3_get, cmIntegrandTotalFid3_get, filterFunctionFid_get, re_sum_ff_mul]

theorem ffGen2_eq_cm (B : Ten3 ℂ nA N nO) (idx : Vec (Fin nA) m) (S : Mat ℂ m nO) :
    (ffIntegrandGen2 (filterFunctionGen B) idx S : Ten4 ℝ m N N nO)
      = cmIntegrandTotalGen2 B B idx S := by
  refine vec_ext_fin fun a => vec_ext_fin fun k => vec_ext_fin fun l => vec_ext_fin fun o => ?_
  rw [ffIntegrandGen2_get, cmIntegrandTotalGen2_get, filterFunctionGen_get, re_ff_mul]

theorem ffGen3_eq_cm (B : Ten3 ℂ nA N nO) (idx : Vec (Fin nA) m) (S : Ten3 ℂ m m nO) :
    (ffIntegrandGen3 (filterFunctionGen B) idx S : Ten5 ℝ m m N N nO)
      = cmIntegrandTotalGen3 B B idx S := by
  refine vec_ext_fin fun a => vec_ext_fin fun b => vec_ext_fin fun k => vec_ext_fin fun l =>
    vec_ext_fin fun o => ?_
  rw [ffIntegrandGen3_get, cmIntegrandTotalGen3_get, filterFunctionGen_get, re_ff_mul]

theorem ffCorrFid2_eq_cm (B : Vector (Ten3 ℂ nA N nO) G) (idx : Vec (Fin nA) m) (S : Mat ℂ m nO) :
    (ffIntegrandCorrFid2 (pulseCorrelationFFFid B) idx S : Vector (Vector (Mat ℝ m nO) G) G)
      = cmIntegrandCorrFid2 B B idx S := by
  refine vec_ext_fin fun g => vec_ext_fin fun h => vec_ext_fin fun a => vec_ext_fin fun o => ?_
  rw [ffIntegrandCorrFid2_get, ffIntegrandFid2_get, cmIntegrandCorrFid2_get,
    pulseCorrelationFFFid_get, re_sum_ff_mul]

theorem ffCorrFid3_eq_cm (B : Vector (Ten3 ℂ nA N nO) G) (idx : Vec (Fin nA) m)
    (S : Ten3 ℂ m m nO) :
    (ffIntegrandCorrFid3 (pulseCorrelationFFFid B) idx S : Vector (Vector (Ten3 ℝ m m nO) G) G)
      = cmIntegrandCorrFid3 B B idx S := by
  refine vec_ext_fin fun g => vec_ext_fin fun h => vec_ext_fin fun a => vec_ext_fin fun b =>
    vec_ext_fin fun o => ?_
  rw [ffIntegrandCorrFid3_get, ffIntegrandFid3_get, cmIntegrandCorrFid3_get,
    pulseCorrelationFFFid_get, re_sum_ff_mul]

theorem ffCorrGen2_eq_cm (B : Vector (Ten3 ℂ nA N nO) G) (idx : Vec (Fin nA) m) (S : Mat ℂ m nO) :
    (ffIntegrandCorrGen2 (pulseCorrelationFFGen B) idx S : Vector (Vector (Ten4 ℝ m N N nO) G) G)
      = cmIntegrandCorrGen2 B B idx S := by
  refine vec_ext_fin fun g => vec_ext_fin fun h => vec_ext_fin fun a => vec_ext_fin fun k =>
    vec_ext_fin fun l => vec_ext_fin fun o => ?_
  rw [ffIntegrandCorrGen2_get, ffIntegrandGen2_get, cmIntegrandCorrGen2_get,
    pulseCorrelationFFGen_get, re_ff_mul]

theorem ffCorrGen3_eq_cm (B : Vector (Ten3 ℂ nA N nO) G) (idx : Vec (Fin nA) m)
    (S : Ten3 ℂ m m nO) :
    (ffIntegrandCorrGen3 (pulseCorrelationFFGen B) idx S
        : Vector (Vector (Ten5 ℝ m m N N nO) G) G)
      = cmIntegrandCorrGen3 B B idx S := by
  refine vec_ext_fin fun g => vec_ext_fin fun h => vec_ext_fin fun a => vec_ext_fin fun b =>
    vec_ext_fin fun k => vec_ext_fin fun l => vec_ext_fin fun o => ?_
  rw [ffIntegrandCorrGen3_get, ffIntegrandGen3_get, cmIntegrandCorrGen3_get,
    pulseCorrelationFFGen_get, re_ff_mul]

/-! ### the arguments of the memory-parsimonious loop -/

/-- `filter_function[..., k:k+1, :, :]` of the filter function of `B` gives the integrand of
`control_matrix=[B[..., k:k+1, :], B]` -/
theorem ffGen2_slice_eq_cm_pair (B : Ten3 ℂ nA N nO) (idx : Vec (Fin nA) m) (S : Mat ℂ m nO)
    (k : Fin N) :
    (ffIntegrandGen2 (sliceFF k (filterFunctionGen B)) idx S : Ten4 ℝ m 1 N nO)
      = cmIntegrandTotalGen2 (sliceCM k B) B idx S := by
  refine vec_ext_fin fun a => vec_ext_fin fun z => vec_ext_fin fun l => vec_ext_fin fun o => ?_
  rw [ffIntegrandGen2_get, cmIntegrandTotalGen2_get, sliceFF_get, sliceCM_get,
    filterFunctionGen_get, re_ff_mul]

theorem ffGen3_slice_eq_cm_pair (B : Ten3 ℂ nA N nO) (idx : Vec (Fin nA) m) (S : Ten3 ℂ m m nO)
    (k : Fin N) :
    (ffIntegrandGen3 (sliceFF k (filterFunctionGen B)) idx S : Ten5 ℝ m m 1 N nO)
      = cmIntegrandTotalGen3 (sliceCM k B) B idx S := by
  refine vec_ext_fin fun a => vec_ext_fin fun b => vec_ext_fin fun z => vec_ext_fin fun l =>
    vec_ext_fin fun o => ?_
  rw [ffIntegrandGen3_get, cmIntegrandTotalGen3_get, sliceFF_get, sliceCM_get,
    filterFunctionGen_get, re_ff_mul]

/-- a slice of the integrand is the integrand of the slice: filter-function path -/
theorem ffGen2_slice (F : Ten5 ℂ nA nA N M nO) (idx : Vec (Fin nA) m) (S : Mat ℂ m nO) (k : Fin N)
    (a : Fin m) (l : Fin M) :
    (ffIntegrandGen2 (sliceFF k F) idx S : Ten4 ℝ m 1 M nO)[a][(0 : Fin 1)][l]
      = (ffIntegrandGen2 F idx S : Ten4 ℝ m N M nO)[a][k][l] := by
  refine vec_ext_fin fun o => ?_
  rw [ffIntegrandGen2_get, ffIntegrandGen2_get, sliceFF_get]

theorem ffGen3_slice (F : Ten5 ℂ nA nA N M nO) (idx : Vec (Fin nA) m) (S : Ten3 ℂ m m nO)
    (k : Fin N) (a b : Fin m) (l : Fin M) :
    (ffIntegrandGen3 (sliceFF k F) idx S : Ten5 ℝ m m 1 M nO)[a][b][(0 : Fin 1)][l]
      = (ffIntegrandGen3 F idx S : Ten5 ℝ m m N M nO)[a][b][k][l] := by
  refine vec_ext_fin fun o => ?_
  rw [ffIntegrandGen3_get, ffIntegrandGen3_get, sliceFF_get]

/-- the same on the control-matrix path, pulse correlations -/
theorem cmCorrGen2_slice (B : Vector (Ten3 ℂ nA N nO) G) (idx : Vec (Fin nA) m) (S : Mat ℂ m nO)
    (k : Fin N) (g h : Fin G) (a : Fin m) (l : Fin N) :
    (cmIntegrandCorrGen2 (Vector.map (sliceCM k) B) B idx S
        : Vector (Vector (Ten4 ℝ m 1 N nO) G) G)[g][h][a][(0 : Fin 1)][l]
      = (cmIntegrandCorrGen2 B B idx S : Vector (Vector (Ten4 ℝ m N N nO) G) G)[g][h][a][k][l] := by
  refine vec_ext_fin fun o => ?_
  rw [cmIntegrandCorrGen2_get, cmIntegrandCorrGen2_get, map_get', sliceCM_get]

theorem cmCorrGen3_slice (B : Vector (Ten3 ℂ nA N nO) G) (idx : Vec (Fin nA) m)
    (S : Ten3 ℂ m m nO) (k : Fin N) (g h : Fin G) (a b : Fin m) (l : Fin N) :
    (cmIntegrandCorrGen3 (Vector.map (sliceCM k) B) B idx S
        : Vector (Vector (Ten5 ℝ m m 1 N nO) G) G)[g][h][a][b][(0 : Fin 1)][l]
      = (cmIntegrandCorrGen3 B B idx S
          : Vector (Vector (Ten5 ℝ m m N N nO) G) G)[g][h][a][b][k][l] := by
  refine vec_ext_fin fun o => ?_
  rw [cmIntegrandCorrGen3_get, cmIntegrandCorrGen3_get, map_get', sliceCM_get]

/-! ### the decay-amplitude paths, entry by entry -/

theorem decayAmplitudes2_eq_integ (ω : Vec ℝ nO) (B : Ten3 ℂ nA N nO) (idx : Vec (Fin nA) m)
    (S : Mat ℂ m nO) :
    decayAmplitudes2 ω B idx S = integ4 ω (cmIntegrandTotalGen2 B B idx S) := by
  refine vec_ext_fin fun a => vec_ext_fin fun k => vec_ext_fin fun l => ?_
  rw [integ4_get, ← twoPi_real]
  simp only [decayAmplitudes2, cmIntegrandTotalGen2, Fin.getElem_fin, Vector.getElem_ofFn]

theorem decayAmplitudes3_eq_integ (ω : Vec ℝ nO) (B : Ten3 ℂ nA N nO) (idx : Vec (Fin nA) m)
    (S : Ten3 ℂ m m nO) :
    decayAmplitudes3 ω B idx S = integ5 ω (cmIntegrandTotalGen3 B B idx S) := by
  refine vec_ext_fin fun a => vec_ext_fin fun b => vec_ext_fin fun k => vec_ext_fin fun l => ?_
  rw [integ5_get, ← twoPi_real]
  simp only [decayAmplitudes3, cmIntegrandTotalGen3, Fin.getElem_fin, Vector.getElem_ofFn]

theorem decayAmplitudesFF2Pars_eq (ω : Vec ℝ nO) (F : Ten5 ℂ nA nA N N nO) (idx : Vec (Fin nA) m)
    (S : Mat ℂ m nO) : decayAmplitudesFF2Pars ω F idx S = decayAmplitudesFF2 ω F idx S := by
  refine vec_ext_fin fun a => vec_ext_fin fun k => vec_ext_fin fun l => ?_
  unfold decayAmplitudesFF2Pars decayAmplitudesFF2
  rw [assembleRows2_get, ofFn_get', integ4_get, integ4_get, ffGen2_slice]

theorem decayAmplitudesFF3Pars_eq (ω : Vec ℝ nO) (F : Ten5 ℂ nA nA N N nO) (idx : Vec (Fin nA) m)
    (S : Ten3 ℂ m m nO) : decayAmplitudesFF3Pars ω F idx S = decayAmplitudesFF3 ω F idx S := by
  refine vec_ext_fin fun a => vec_ext_fin fun b => vec_ext_fin fun k => vec_ext_fin fun l => ?_
  unfold decayAmplitudesFF3Pars decayAmplitudesFF3
  rw [assembleRows3_get, ofFn_get', integ5_get, integ5_get, ffGen3_slice]

theorem decayAmplitudesCorr2Pars_eq (ω : Vec ℝ nO) (B : Vector (Ten3 ℂ nA N nO) G)
    (idx : Vec (Fin nA) m) (S : Mat ℂ m nO) :
    decayAmplitudesCorr2Pars ω B idx S = decayAmplitudesCorr2 ω B idx S := by
  refine vec_ext_fin fun g => vec_ext_fin fun h => vec_ext_fin fun a => vec_ext_fin fun k =>
    vec_ext_fin fun l => ?_
  unfold decayAmplitudesCorr2Pars decayAmplitudesCorr2
  rw [ofFn_get', ofFn_get', assembleRows2_get, ofFn_get', ofFn_get', map_get', map_get',
    map_get', map_get', integ4_get, integ4_get, cmCorrGen2_slice]

theorem decayAmplitudesCorr3Pars_eq (ω : Vec ℝ nO) (B : Vector (Ten3 ℂ nA N nO) G)
    (idx : Vec (Fin nA) m) (S : Ten3 ℂ m m nO) :
    decayAmplitudesCorr3Pars ω B idx S = decayAmplitudesCorr3 ω B idx S := by
  refine vec_ext_fin fun g => vec_ext_fin fun h => vec_ext_fin fun a => vec_ext_fin fun b =>
    vec_ext_fin fun k => vec_ext_fin fun l => ?_
  unfold decayAmplitudesCorr3Pars decayAmplitudesCorr3
  rw [ofFn_get', ofFn_get', assembleRows3_get, ofFn_get', ofFn_get', map_get', map_get',
    map_get', map_get', integ5_get, integ5_get, cmCorrGen3_slice]

theorem decayAmplitudesCorrFF2Pars_eq (ω : Vec ℝ nO)
    (F : Vector (Vector (Ten5 ℂ nA nA N N nO) G) G) (idx : Vec (Fin nA) m) (S : Mat ℂ m nO) :
    decayAmplitudesCorrFF2Pars ω F idx S = decayAmplitudesCorrFF2 ω F idx S := by
  refine vec_ext_fin fun g => vec_ext_fin fun h => vec_ext_fin fun a => vec_ext_fin fun k =>
    vec_ext_fin fun l => ?_
  unfold decayAmplitudesCorrFF2Pars decayAmplitudesCorrFF2
  rw [ofFn_get', ofFn_get', assembleRows2_get, ofFn_get', ofFn_get', map_get', map_get',
    map_get', map_get', integ4_get, integ4_get, ffIntegrandCorrGen2_get, ffIntegrandCorrGen2_get,
    map_get', map_get', ffGen2_slice]

theorem decayAmplitudesCorrFF3Pars_eq (ω : Vec ℝ nO)
    (F : Vector (Vector (Ten5 ℂ nA nA N N nO) G) G) (idx : Vec (Fin nA) m) (S : Ten3 ℂ m m nO) :
    decayAmplitudesCorrFF3Pars ω F idx S = decayAmplitudesCorrFF3 ω F idx S := by
  refine vec_ext_fin fun g => vec_ext_fin fun h => vec_ext_fin fun a => vec_ext_fin fun b =>
    vec_ext_fin fun k => vec_ext_fin fun l => ?_
  unfold decayAmplitudesCorrFF3Pars decayAmplitudesCorrFF3
  rw [ofFn_get', ofFn_get', assembleRows3_get, ofFn_get', ofFn_get', map_get', map_get',
    map_get', map_get', integ5_get, integ5_get, ffIntegrandCorrGen3_get, ffIntegrandCorrGen3_get,
    map_get', map_get', ffGen3_slice]

/-! ### sums over pulse pairs -/

theorem sum_pairs_gen (x y : Fin G → ℂ) (s : ℂ) :
    ∑ g, ∑ h, (starRingEnd ℂ (x g) * s * y h).re
      = (starRingEnd ℂ (∑ g, x g) * s * ∑ h, y h).re := by
  rw [map_sum, Finset.sum_mul, Finset.sum_mul, Complex.re_sum]
  refine Finset.sum_congr rfl fun g _ => ?_
  rw [Finset.mul_sum, Complex.re_sum]

theorem sum_pairs_fid (x y : Fin G → Fin N → ℂ) (s : ℂ) :
    ∑ g, ∑ h, (∑ k, starRingEnd ℂ (x g k) * s * y h k).re
      = (∑ k, starRingEnd ℂ (∑ g, x g k) * s * ∑ h, y h k).re := by
  simp only [Complex.re_sum]
  rw [Finset.sum_comm]
  have h1 : ∀ h : Fin G, ∑ g : Fin G, ∑ k : Fin N, (starRingEnd ℂ (x g k) * s * y h k).re
      = ∑ k : Fin N, ∑ g : Fin G, (starRingEnd ℂ (x g k) * s * y h k).re :=
    fun h => Finset.sum_comm
  simp only [h1]
  rw [Finset.sum_comm]
  refine Finset.sum_congr rfl fun k _ => ?_
  rw [Finset.sum_comm]
  exact sum_pairs_gen (fun g => x g k) (fun h => y h k) s

end FFVerif.Model.IntegrandAux
