/-
Access lemmas for the model of `numeric.diagonalize` / `PulseSequence.t` /
`PulseSequence.propagator_at_arb_t` (`FFVerif.Model.Diag`).
-/
import Mathlib.Data.Matrix.Mul
import Mathlib.Analysis.Complex.Basic
import FFVerif.Lemmas.Inst
import FFVerif.Lemmas.Bridge
import FFVerif.Lemmas.MatBridge
import FFVerif.Model.Diag

namespace FFVerif.Model
open FFVerif

/-! ### `scan` -/

section scan
variable {α : Type} {N : Nat} (f : Fin N → α → α) (a0 : α)

theorem scan_getElem_stable : ∀ (n : Nat) (h : n ≤ N) (k : Nat) (hk : k ≤ n),
    (scan f a0 n h)[k] = (scan f a0 k (Nat.le_trans hk h))[k]
  | 0, h, k, hk => by
    obtain rfl : k = 0 := Nat.le_zero.mp hk
    rfl
  | n + 1, h, k, hk => by
    rcases Nat.lt_or_ge k (n + 1) with hlt | hge
    · have ih := scan_getElem_stable n (Nat.le_of_succ_le h) k (Nat.le_of_lt_succ hlt)
      rw [← ih]
      simp only [scan]
      rw [Vector.getElem_push]
      simp [hlt]
    · obtain rfl : k = n + 1 := Nat.le_antisymm hk hge
      rfl

theorem scan_getElem_zero (n : Nat) (h : n ≤ N) : (scan f a0 n h)[0] = a0 := by
  rw [scan_getElem_stable f a0 n h 0 (Nat.zero_le _)]
  rfl

theorem scan_getElem_succ (n : Nat) (h : n ≤ N) (k : Nat) (hk : k < n) :
    (scan f a0 n h)[k + 1] = f ⟨k, Nat.lt_of_lt_of_le hk h⟩ (scan f a0 n h)[k] := by
  rw [scan_getElem_stable f a0 n h (k + 1) hk,
    scan_getElem_stable f a0 n h k (Nat.le_of_lt hk)]
  simp only [scan]
  rw [Vector.getElem_push]
  simp

end scan

/-! ### `times`, `cumulative` (any scalar type) -/

section generic
variable {R K : Type} [Zero R] [Add R] [Zero K] [One K] [Add K] [Mul K]

theorem times_getElem_zero {nG : Nat} (dt : Vec R nG) : (times dt)[0] = 0 :=
  scan_getElem_zero _ _ _ _

theorem times_getElem_succ {nG : Nat} (dt : Vec R nG) (g : Nat) (hg : g < nG) :
    (times dt)[g + 1] = (times dt)[g] + dt[g] :=
  scan_getElem_succ _ _ _ _ g hg

theorem cumulative_getElem_zero {nG d : Nat} (P : Vector (Mat K d d) nG) :
    (cumulative P)[0] = Mat.one :=
  scan_getElem_zero _ _ _ _

theorem cumulative_getElem_succ {nG d : Nat} (P : Vector (Mat K d d) nG) (g : Nat) (hg : g < nG) :
    (cumulative P)[g + 1] = Mat.mul P[g] (cumulative P)[g] :=
  scan_getElem_succ _ _ _ _ g hg

end generic

/-! ### `searchsortedLeft` over ℝ -/

/-- if exactly the first `c` entries are `< x` (true for a sorted array and the right `c`), the
count of entries `< x` among the first `k` is `min k c` -/
theorem countLt_eq_min {n : Nat} (t : Vec ℝ n) (x : ℝ) (c : Nat)
    (hlow : ∀ (i : Nat) (hi : i < n), i < c → t[i] < x)
    (hhigh : ∀ (i : Nat) (hi : i < n), c ≤ i → x ≤ t[i]) :
    ∀ (k : Nat) (hk : k ≤ n), countLt t x k hk = min k c
  | 0, _ => by simp [countLt]
  | k + 1, hk => by
    rw [countLt, countLt_eq_min t x c hlow hhigh k (Nat.le_of_succ_le hk), ropsLt]
    rcases Nat.lt_or_ge k c with h | h
    · have := hlow k hk h
      simp only [this, decide_true, if_true]
      omega
    · have := hhigh k hk h
      have h' : ¬ t[k] < x := not_lt.mpr this
      simp only [h', decide_false]
      simp only [Bool.false_eq_true, if_false]
      omega

theorem searchsortedLeft_eq {n : Nat} (t : Vec ℝ n) (x : ℝ) (c : Nat) (hc : c ≤ n)
    (hlow : ∀ (i : Nat) (hi : i < n), i < c → t[i] < x)
    (hhigh : ∀ (i : Nat) (hi : i < n), c ≤ i → x ≤ t[i]) :
    searchsortedLeft t x = c := by
  unfold searchsortedLeft
  rw [countLt_eq_min t x c hlow hhigh]
  omega

end FFVerif.Model
