/-
Helper lemmas for C08: the trapezoidal rule (`Model.integrateC`, `Model.integrateR` versus
`Spec.trapz`, linearity, positivity), entry lemmas for the decay-amplitude and infidelity models,
and the two branches of `infidelity` expressed through the decay amplitudes.
-/
import Mathlib.Tactic.Ring
import Mathlib.Tactic.Positivity
import FFVerif.Spec.Cumulant
import FFVerif.Model.Cumulant
import FFVerif.Lemmas.MatBridge

namespace FFVerif
open FFVerif

variable {n : Nat}

theorem integrateR_eq_trapz (x f : Vec ℝ n) :
    Model.integrateR x f = Spec.trapz (fun r : ℝ => r) (fun i => x[i]) (fun i => f[i]) := by
  unfold Model.integrateR Model.integrateWith Spec.trapz
  rw [fsum_eq_sum, Finset.sum_div]
  refine Finset.sum_congr rfl fun i _ => ?_
  simp only [Fin.getElem_fin, Nat.cast_ofNat]
  ring

theorem integrate_eq_trapz (x : Vec ℝ n) (f : Vec ℂ n) :
    Model.integrateC x f = Spec.trapz (fun r : ℝ => (r : ℂ)) (fun i => x[i]) (fun i => f[i]) := by
  unfold Model.integrateC Model.integrateWith Spec.trapz
  rw [fsum_eq_sum, Finset.sum_div]
  refine Finset.sum_congr rfl fun i _ => ?_
  simp only [Fin.getElem_fin, copsOfReal, Nat.cast_ofNat, Complex.ofReal_ofNat]
  ring

namespace Spec
variable {F : Type} [Field F] (emb : ℝ → F) (x : Fin n → ℝ)

theorem trapz_add (f g : Fin n → F) :
    trapz emb x (fun i => f i + g i) = trapz emb x f + trapz emb x g := by
  unfold trapz
  rw [← Finset.sum_add_distrib]
  exact Finset.sum_congr rfl fun i _ => by ring

theorem trapz_smul (c : F) (f : Fin n → F) :
    trapz emb x (fun i => c * f i) = c * trapz emb x f := by
  unfold trapz
  rw [Finset.mul_sum]
  exact Finset.sum_congr rfl fun i _ => by ring

theorem trapz_zero : trapz emb x (fun _ => (0 : F)) = 0 := by
  unfold trapz
  simp

theorem trapz_sum {ι : Type} (s : Finset ι) (f : ι → Fin n → F) :
    trapz emb x (fun i => ∑ k ∈ s, f k i) = ∑ k ∈ s, trapz emb x (f k) := by
  classical
  induction s using Finset.induction_on with
  | empty => simp [trapz_zero]
  | insert a s ha ih =>
    simp only [Finset.sum_insert ha]
    rw [trapz_add, ih]

theorem trapz_nonneg (x : Fin n → ℝ) (hx : ∀ i j : Fin n, i ≤ j → x i ≤ x j) (f : Fin n → ℝ)
    (hf : ∀ i, 0 ≤ f i) : 0 ≤ trapz (fun r : ℝ => r) x f := by
  unfold trapz
  refine Finset.sum_nonneg fun i _ => ?_
  have h1 : 0 ≤ x ⟨i.1 + 1, by have := i.2; omega⟩ - x ⟨i.1, by have := i.2; omega⟩ :=
    sub_nonneg.mpr (hx _ _ (by simp [Fin.le_def]))
  have h2 := hf ⟨i.1, by have := i.2; omega⟩
  have h3 := hf ⟨i.1 + 1, by have := i.2; omega⟩
  positivity

end Spec
end FFVerif

namespace FFVerif.Model
open FFVerif

variable {nA m N Nl nO q : Nat}

/-- the integrand of `Γ_{ab,kl}`: `Re(conj(B_ak) S_ab B_bl)` on the frequency grid -/
def gammaIntegrand (Ba : Mat ℂ Nl nO) (Bb : Mat ℂ N nO) (Sab : Vec ℂ nO) (k : Fin Nl) (l : Fin N) :
    Vec ℝ nO :=
  Vector.ofFn fun o => (starRingEnd ℂ Ba[k][o] * Sab[o] * Bb[l][o]).re

theorem integrandGenLR_getElem (Bl : Ten3 ℂ m Nl nO) (Br : Ten3 ℂ m N nO) (S : Mat ℂ m nO)
    (a : Fin m) (k : Fin Nl) (l : Fin N) :
    (integrandGenLR Bl Br S)[a][k][l] = gammaIntegrand Bl[a] Br[a] S[a] k l := by
  unfold integrandGenLR gammaIntegrand
  simp only [Fin.getElem_fin, Vector.getElem_map]
  simp only [Gen.numeric__get_integrand_3_e1, Vector.getElem_ofFn]
  rw [Vector.map_ofFn]
  congr 1
  funext o
  simp only [Function.comp, conj3, Fin.getElem_fin, Vector.getElem_map, copsConj, copsRe]

theorem integrandGen3LR_getElem (Bl : Ten3 ℂ m Nl nO) (Br : Ten3 ℂ m N nO) (S : Ten3 ℂ m m nO)
    (a b : Fin m) (k : Fin Nl) (l : Fin N) :
    (integrandGen3LR Bl Br S)[a][b][k][l] = gammaIntegrand Bl[a] Br[b] S[a][b] k l := by
  unfold integrandGen3LR gammaIntegrand
  simp only [Fin.getElem_fin, Vector.getElem_map]
  simp only [Gen.numeric__get_integrand_7, Vector.getElem_ofFn]
  rw [Vector.map_ofFn]
  congr 1
  funext o
  simp only [Function.comp, conj3, Fin.getElem_fin, Vector.getElem_map, copsConj, copsRe]

theorem selectRows_getElem {α : Type} (idx : Vec (Fin nA) m) (B : Vector α nA) (a : Fin m) :
    (selectRowsC idx B)[a] = B[idx[a]] := by
  simp only [selectRowsC, Fin.getElem_fin, Vector.getElem_ofFn]

theorem twoPi_real : (twoPi : ℝ) = 2 * Real.pi := by
  simp only [twoPi, ropsPi, Nat.cast_ofNat]

theorem decayAmplitudes2_getElem (omega : Vec ℝ nO) (B : Ten3 ℂ nA N nO) (idx : Vec (Fin nA) m)
    (S : Mat ℂ m nO) (a : Fin m) (k l : Fin N) :
    (decayAmplitudes2 omega B idx S)[a][k][l]
      = integrateR omega (gammaIntegrand B[idx[a]] B[idx[a]] S[a] k l) / (2 * Real.pi) := by
  unfold decayAmplitudes2
  simp only [Fin.getElem_fin, Vector.getElem_ofFn]
  have h := integrandGenLR_getElem (selectRowsC idx B) (selectRowsC idx B) S a k l
  rw [selectRows_getElem] at h
  simp only [Fin.getElem_fin] at h
  rw [h, twoPi_real]

theorem decayAmplitudes3_getElem (omega : Vec ℝ nO) (B : Ten3 ℂ nA N nO) (idx : Vec (Fin nA) m)
    (S : Ten3 ℂ m m nO) (a b : Fin m) (k l : Fin N) :
    (decayAmplitudes3 omega B idx S)[a][b][k][l]
      = integrateR omega (gammaIntegrand B[idx[a]] B[idx[b]] S[a][b] k l) / (2 * Real.pi) := by
  unfold decayAmplitudes3
  simp only [Fin.getElem_fin, Vector.getElem_ofFn]
  have h := integrandGen3LR_getElem (selectRowsC idx B) (selectRowsC idx B) S a b k l
  rw [selectRows_getElem, selectRows_getElem] at h
  simp only [Fin.getElem_fin] at h
  rw [h, twoPi_real]

theorem gammaIntegrand_slice (Ba Bb : Mat ℂ N nO) (Sab : Vec ℂ nO) (k l : Fin N) :
    gammaIntegrand (#v[Ba[k]] : Mat ℂ 1 nO) Bb Sab 0 l = gammaIntegrand Ba Bb Sab k l := by
  unfold gammaIntegrand
  congr 1

theorem decayAmplitudes2Pars_getElem (omega : Vec ℝ nO) (B : Ten3 ℂ nA N nO)
    (idx : Vec (Fin nA) m) (S : Mat ℂ m nO) (a : Fin m) (k l : Fin N) :
    (decayAmplitudes2Pars omega B idx S)[a][k][l]
      = integrateR omega (gammaIntegrand B[idx[a]] B[idx[a]] S[a] k l) / (2 * Real.pi) := by
  unfold decayAmplitudes2Pars
  simp only [Fin.getElem_fin, Vector.getElem_ofFn]
  have h := integrandGenLR_getElem
    (selectRowsC idx (Vector.map (fun Ba => (#v[Ba[k]] : Mat ℂ 1 nO)) B)) (selectRowsC idx B) S a 0 l
  rw [selectRows_getElem, selectRows_getElem] at h
  simp only [Fin.getElem_fin, Vector.getElem_map] at h
  have h' := gammaIntegrand_slice B[idx[a]] B[idx[a]] S[a] k l
  simp only [Fin.getElem_fin] at h'
  rw [h'] at h
  simp only [Fin.val_zero] at h
  rw [h, twoPi_real]

theorem tracesDiag_getElem (T : Ten4 ℂ N N N N) (k l : Fin N) :
    (tracesDiag T)[k][l] = (∑ i : Fin N, T[k][l][i][i]) - ∑ i : Fin N, T[k][i][l][i] := by
  unfold tracesDiag
  rw [Mat.ofFn_get]
  simp only [fsum_eq_sum]

theorem fidelityFF_false_getElem (d : Nat) (B : Ten3 ℂ nA N nO) (T : Ten4 ℂ N N N N)
    (idIdx : Vec (Fin N) q) (a b : Fin nA) (o : Fin nO) :
    (fidelityFF false d B T idIdx)[a][b][o]
      = (∑ k : Fin N, ∑ l : Fin N,
          starRingEnd ℂ B[a][k][o] * B[b][l][o] * (tracesDiag T)[k][l]) / (d : ℂ) := by
  unfold fidelityFF
  simp only [Bool.not_false, if_true, Fin.getElem_fin, Vector.getElem_map]
  simp only [Gen.numeric_infidelity_0, Vector.getElem_ofFn, fsum_eq_sum, conj3, Vector.getElem_map,
    copsConj, copsOfReal, Fin.getElem_fin, Complex.ofReal_natCast]

theorem fidelityFF_true_getElem (d : Nat) (B : Ten3 ℂ nA N nO) (T : Ten4 ℂ N N N N)
    (idIdx : Vec (Fin N) q) (a b : Fin nA) (o : Fin nO) :
    (fidelityFF true d B T idIdx)[a][b][o]
      = (∑ k : Fin N, starRingEnd ℂ B[a][k][o] * B[b][k][o])
        - ∑ r : Fin q, starRingEnd ℂ B[a][idIdx[r]][o] * B[b][idIdx[r]][o] := by
  unfold fidelityFF
  simp only [Bool.not_true, Bool.false_eq_true, if_false]
  by_cases hq : q = 0
  · subst hq
    simp only [if_true, filterFunctionFid, Gen.numeric_calculate_filter_function_0,
      Fin.getElem_fin, Vector.getElem_ofFn, fsum_eq_sum, Vector.getElem_map, copsConj,
      Finset.univ_eq_empty, Finset.sum_empty, sub_zero]
  · simp only [hq, if_false, filterFunctionFid, Gen.numeric_calculate_filter_function_0,
      Gen.numeric_infidelity_1, conj3, Fin.getElem_fin, Vector.getElem_ofFn, fsum_eq_sum,
      Vector.getElem_map, copsConj]


theorem integrateR_linear {ι : Type} (s : Finset ι) (ω : Vec ℝ nO) (c : ι → ℝ)
    (f : ι → Vec ℝ nO) :
    integrateR ω (Vector.ofFn fun o => ∑ p ∈ s, c p * (f p)[o])
      = ∑ p ∈ s, c p * integrateR ω (f p) := by
  simp only [integrateR_eq_trapz, Fin.getElem_fin, Vector.getElem_ofFn]
  rw [Spec.trapz_sum]
  refine Finset.sum_congr rfl fun p _ => ?_
  rw [Spec.trapz_smul]


/-- `Γ_kl` of one pair of noise sources: trapezoid of `Re(conj(B_ak) S_ab B_bl)` over `2π` -/
noncomputable def gammaEntry (ω : Vec ℝ nO) (Ba Bb : Mat ℂ N nO) (Sab : Vec ℂ nO) (k l : Fin N) : ℝ :=
  integrateR ω (gammaIntegrand Ba Bb Sab k l) / (2 * Real.pi)

/-- one entry of the tail of `infidelity` -/
noncomputable def infidEntry (ω : Vec ℝ nO) (Fab : Vec ℂ nO) (Sab : Vec ℂ nO) (d : Nat) : ℝ :=
  integrateR ω (Vector.ofFn fun o => (Fab[o] * Sab[o]).re) / (2 * Real.pi * (d : ℝ))

/-- trace-tensor branch: weights `t_kl / d` -/
theorem infidEntry_weighted (ω : Vec ℝ nO) (Ba Bb : Mat ℂ N nO) (Sab Fab : Vec ℂ nO) (d : Nat)
    (t : Fin N → Fin N → ℝ)
    (hF : ∀ o : Fin nO, Fab[o]
      = (∑ k : Fin N, ∑ l : Fin N, starRingEnd ℂ Ba[k][o] * Bb[l][o] * (t k l : ℂ)) / (d : ℂ)) :
    infidEntry ω Fab Sab d
      = 1 / (d : ℝ) ^ 2 * ∑ k, ∑ l, gammaEntry ω Ba Bb Sab k l * t k l := by
  unfold infidEntry gammaEntry
  have h : (Vector.ofFn fun o : Fin nO => (Fab[o] * Sab[o]).re)
      = Vector.ofFn fun o : Fin nO => ∑ p ∈ (Finset.univ : Finset (Fin N × Fin N)),
          (t p.1 p.2 / (d : ℝ)) * (gammaIntegrand Ba Bb Sab p.1 p.2)[o] := by
    congr 1
    funext o
    rw [hF, Fintype.sum_prod_type, Finset.sum_div, Finset.sum_mul, Complex.re_sum]
    refine Finset.sum_congr rfl fun k _ => ?_
    rw [Finset.sum_div, Finset.sum_mul, Complex.re_sum]
    refine Finset.sum_congr rfl fun l _ => ?_
    simp only [gammaIntegrand, Fin.getElem_fin, Vector.getElem_ofFn]
    have e : starRingEnd ℂ Ba[k.1][o.1] * Bb[l.1][o.1] * (t k l : ℂ) / (d : ℂ) * Sab[o.1]
        = ((t k l / (d : ℝ) : ℝ) : ℂ) * (starRingEnd ℂ Ba[k.1][o.1] * Sab[o.1] * Bb[l.1][o.1]) := by
      push_cast; ring
    rw [e, Complex.re_ofReal_mul]
  rw [h, integrateR_linear, Fintype.sum_prod_type, Finset.sum_div, Finset.mul_sum]
  refine Finset.sum_congr rfl fun k _ => ?_
  rw [Finset.sum_div, Finset.mul_sum]
  refine Finset.sum_congr rfl fun l _ => ?_
  ring

theorem decayAmplitudes3Pars_getElem (omega : Vec ℝ nO) (B : Ten3 ℂ nA N nO)
    (idx : Vec (Fin nA) m) (S : Ten3 ℂ m m nO) (a b : Fin m) (k l : Fin N) :
    (decayAmplitudes3Pars omega B idx S)[a][b][k][l]
      = integrateR omega (gammaIntegrand B[idx[a]] B[idx[b]] S[a][b] k l) / (2 * Real.pi) := by
  unfold decayAmplitudes3Pars
  simp only [Fin.getElem_fin, Vector.getElem_ofFn]
  have h := integrandGen3LR_getElem
    (selectRowsC idx (Vector.map (fun Ba => (#v[Ba[k]] : Mat ℂ 1 nO)) B)) (selectRowsC idx B) S
    a b 0 l
  rw [selectRows_getElem, selectRows_getElem] at h
  simp only [Fin.getElem_fin, Vector.getElem_map] at h
  have h' := gammaIntegrand_slice B[idx[a]] B[idx[b]] S[a][b] k l
  simp only [Fin.getElem_fin] at h'
  rw [h'] at h
  simp only [Fin.val_zero] at h
  rw [h, twoPi_real]

/-- traceless branch: `Σ_k F_kk` minus the identity-element terms, over `d` -/
theorem infidEntry_traceless (ω : Vec ℝ nO) (Ba Bb : Mat ℂ N nO) (Sab Fab : Vec ℂ nO) (d : Nat)
    (idIdx : Vec (Fin N) q)
    (hF : ∀ o : Fin nO, Fab[o]
      = (∑ k : Fin N, starRingEnd ℂ Ba[k][o] * Bb[k][o])
        - ∑ r : Fin q, starRingEnd ℂ Ba[idIdx[r]][o] * Bb[idIdx[r]][o]) :
    infidEntry ω Fab Sab d
      = 1 / (d : ℝ) * ((∑ k, gammaEntry ω Ba Bb Sab k k)
          - ∑ r : Fin q, gammaEntry ω Ba Bb Sab idIdx[r] idIdx[r]) := by
  unfold infidEntry gammaEntry
  let c : Fin N ⊕ Fin q → ℝ := fun p => match p with | .inl _ => 1 | .inr _ => -1
  let f : Fin N ⊕ Fin q → Vec ℝ nO := fun p => match p with
    | .inl k => gammaIntegrand Ba Bb Sab k k
    | .inr r => gammaIntegrand Ba Bb Sab idIdx[r] idIdx[r]
  have h : (Vector.ofFn fun o : Fin nO => (Fab[o] * Sab[o]).re)
      = Vector.ofFn fun o : Fin nO => ∑ p ∈ (Finset.univ : Finset (Fin N ⊕ Fin q)),
          c p * (f p)[o] := by
    congr 1
    funext o
    rw [hF, Fintype.sum_sum_type, sub_mul, Complex.sub_re, Finset.sum_mul, Finset.sum_mul,
      Complex.re_sum, Complex.re_sum]
    simp only [c, f, gammaIntegrand, Fin.getElem_fin, Vector.getElem_ofFn, one_mul, neg_mul,
      Finset.sum_neg_distrib, sub_eq_add_neg]
    congr 1
    · exact Finset.sum_congr rfl fun k _ => by congr 1; ring
    · congr 1
      exact Finset.sum_congr rfl fun k _ => by congr 1; ring
  rw [h, integrateR_linear, Fintype.sum_sum_type]
  simp only [c, f, one_mul, neg_mul, Finset.sum_neg_distrib, Fin.getElem_fin]
  rw [← sub_eq_add_neg, ← Finset.sum_div, ← Finset.sum_div]
  ring

theorem infidelityFull_getElem (ω : Vec ℝ nO) (F : Ten3 ℂ nA nA nO) (idx : Vec (Fin nA) m)
    (S : Ten3 ℂ m m nO) (d : Nat) (a b : Fin m) :
    (infidelityFull ω F idx S d)[a][b] = infidEntry ω F[idx[a]][idx[b]] S[a][b] d := by
  unfold infidelityFull infidEntry
  simp only [Fin.getElem_fin, Vector.getElem_ofFn, twoPi_real, copsRe]

theorem infidelityDiag_getElem (ω : Vec ℝ nO) (F : Ten3 ℂ nA nA nO) (idx : Vec (Fin nA) m)
    (S : Mat ℂ m nO) (d : Nat) (a : Fin m) :
    (infidelityDiag ω F idx S d)[a] = infidEntry ω F[idx[a]][idx[a]] S[a] d := by
  unfold infidelityDiag infidEntry
  simp only [Fin.getElem_fin, Vector.getElem_ofFn, twoPi_real, copsRe]

end FFVerif.Model
