import FFVerif.Lemmas.Inst
import FFVerif.Lemmas.Bridge
import FFVerif.Lemmas.MatBridge
import FFVerif.Lemmas.LiouvilleAux
import Mathlib.LinearAlgebra.Matrix.Hadamard
import FFVerif.Model.GradientAsm
import FFVerif.Props.C11Deriv

/-
Helper lemmas for C11Asm: entry (`get`) lemmas of the array model `Model/GradientAsm.lean` at ℂ.
-/
namespace FFVerif.GradientAsmAux
open FFVerif FFVerif.Model Matrix
open scoped Matrix

section get
variable {K : Type}

theorem vget {n : Nat} (F : Fin n → K) (i : Fin n) : (Vector.ofFn F)[i] = F i := by
  simp only [Fin.getElem_fin, Vector.getElem_ofFn]

theorem vmap_get {L : Type} {n : Nat} (f : K → L) (v : Vector K n) (i : Fin n) :
    (v.map f)[i] = f v[i] := by
  simp only [Fin.getElem_fin, Vector.getElem_map]

theorem kronDiag_get {d : Nat} (Km : Mat K (d * d) (d * d)) (i l x : Fin d) :
    (kronDiag Km)[i][l][x] = Km[Fin.flat i x][Fin.flat x l] := by
  simp only [kronDiag, vget]

theorem kronSwap_get {d : Nat} (Km : Mat K (d * d) (d * d)) (r c : Fin (d * d)) :
    (kronSwap Km)[r][c] = Km[Fin.flat (Fin.lo r) (Fin.hi r)][Fin.flat (Fin.lo c) (Fin.hi c)] := by
  simp only [kronSwap, Mat.ofFn_get]

theorem kronMat_get [Mul K] {d : Nat} (A B : Mat K d d) (r c : Fin (d * d)) :
    (kronMat A B)[r][c] = A[Fin.hi r][Fin.hi c] * B[Fin.lo r][Fin.lo c] := by
  simp only [kronMat, Mat.ofFn_get]

theorem derivIntDiag1_get {d : Nat} (DI : Ten4 K d d d d) (p n x : Fin d) :
    (derivIntDiag1 DI)[p][n][x] = DI[p][x][x][n] := by
  simp only [derivIntDiag1, vget]

theorem derivIntDiag2_get {d : Nat} (DI : Ten4 K d d d d) (q m x : Fin d) :
    (derivIntDiag2 DI)[q][m][x] = DI[x][q][m][x] := by
  simp only [derivIntDiag2, vget]

theorem swapAxes23_get {d : Nat} (x : Ten3 K d d d) (i j m : Fin d) :
    (swapAxes23 x)[i][j][m] = x[j][i][m] := by
  simp only [swapAxes23, vget]

theorem reshapeF21_get {d : Nat} (x : Ten3 K d d d) (P : Fin (d * d)) (m : Fin d) :
    (reshapeF21 x)[P][m] = x[Fin.lo P][Fin.hi P][m] := by
  simp only [reshapeF21, Mat.ofFn_get]

theorem reshapeF12_get {d : Nat} (y : Vec K (d * d)) (u v : Fin d) :
    (reshapeF12 y)[u][v] = y[Fin.flat v u] := by
  simp only [reshapeF12, Mat.ofFn_get]

theorem transpose_get {m n : Nat} (A : Mat K m n) (i : Fin n) (j : Fin m) :
    (Mat.transpose A)[i][j] = A[j][i] := by
  simp only [Mat.transpose, Mat.ofFn_get]

end get

theorem step0_get {n_a n_h n_p n_m n_o : Nat}
    (x0 : (Vector (Vector (Vector (Vector ℂ n_m) n_p) n_h) n_a))
    (x1 : (Vector (Vector (Vector ℂ n_m) n_p) n_o)) (a : Fin n_a) (h : Fin n_h) (o : Fin n_o)
    (p : Fin n_p) :
    (Gen.gradient__control_matrix_at_timestep_derivative_0 x0 x1)[a][h][o][p]
      = ∑ m : Fin n_m, x0[a][h][p][m] * x1[o][p][m] := by
  simp only [Gen.gradient__control_matrix_at_timestep_derivative_0, vget, fsum_eq_sum]

theorem step1_get {n_a n_h n_p n_m n_o : Nat}
    (x0 : (Vector (Vector (Vector (Vector ℂ n_m) n_p) n_h) n_a))
    (x1 : (Vector (Vector (Vector ℂ n_m) n_p) n_o)) (a : Fin n_a) (h : Fin n_h) (o : Fin n_o)
    (p : Fin n_p) :
    (Gen.gradient__control_matrix_at_timestep_derivative_1 x0 x1)[a][h][o][p]
      = ∑ m : Fin n_m, x0[a][h][p][m] * x1[o][p][m] := by
  simp only [Gen.gradient__control_matrix_at_timestep_derivative_1, vget, fsum_eq_sum]

theorem ctrlmatStepM_get {nA nH nO d : Nat} (Bt : Vector (Mat ℂ d d) nA)
    (Ct : Vector (Mat ℂ d d) nH) (DI : Vector (Ten4 ℂ d d d d) nO) (a : Fin nA) (h : Fin nH)
    (o : Fin nO) (u v : Fin d) :
    (ctrlmatStepM Bt Ct DI)[a][h][o][u][v]
      = (∑ m : Fin d, Ct[h][u][m] * Bt[a][m][v] * DI[o][u][m][m][v])
        - ∑ n : Fin d, Bt[a][u][n] * Ct[h][n][v] * DI[o][n][v][u][n] := by
  unfold ctrlmatStepM
  simp only [vget, Mat.ofFn_get, transpose_get, reshapeF12_get, step0_get, step1_get, vmap_get,
    reshapeF21_get, swapAxes23_get, kronDiag_get, kronSwap_get, kronMat_get, derivIntDiag1_get,
    derivIntDiag2_get, Fin.hi_flat, Fin.lo_flat]
  congr 1
  refine Finset.sum_congr rfl fun m _ => ?_
  rw [mul_comm (Bt[a][m][v])]

theorem step2_get {n_o n_j n_n n_k n_a n_h : Nat} (x0 : (Vector ℂ n_o))
    (x1 : (Vector (Vector (Vector ℂ n_k) n_n) n_j))
    (x2 : (Vector (Vector (Vector (Vector (Vector ℂ n_n) n_k) n_o) n_h) n_a))
    (a : Fin n_a) (j : Fin n_j) (h : Fin n_h) (o : Fin n_o) :
    (Gen.gradient__control_matrix_at_timestep_derivative_2 x0 x1 x2)[a][j][h][o]
      = ∑ n : Fin n_n, ∑ k : Fin n_k, x0[o] * x1[j][n][k] * x2[a][h][o][k][n] := by
  simp only [Gen.gradient__control_matrix_at_timestep_derivative_2, vget, fsum_eq_sum]

theorem scratch0_get {n_o n_i n_c n_d n_a : Nat} (x0 : (Vector ℂ n_o))
    (x1 : (Vector (Vector (Vector ℂ n_d) n_c) n_i)) (x2 : (Vector (Vector (Vector ℂ n_c) n_d) n_a))
    (x3 : (Vector (Vector (Vector ℂ n_c) n_d) n_o)) (a : Fin n_a) (i : Fin n_i) (o : Fin n_o) :
    (Gen.gradient_calculate_derivative_of_control_matrix_from_scratch_0 x0 x1 x2 x3)[a][i][o]
      = ∑ c : Fin n_c, ∑ e : Fin n_d, x0[o] * x1[i][c][e] * x2[a][e][c] * x3[o][e][c] := by
  simp only [Gen.gradient_calculate_derivative_of_control_matrix_from_scratch_0, vget, fsum_eq_sum]

theorem scratch1_get {n_t n_a n_j n_o n_h n_s n_k : Nat}
    (x0 : (Vector (Vector (Vector (Vector ℂ n_o) n_j) n_a) n_t))
    (x1 : (Vector (Vector (Vector (Vector (Vector ℂ n_k) n_j) n_s) n_h) n_t))
    (h : Fin n_h) (o : Fin n_o) (s : Fin n_s) (a : Fin n_a) (k : Fin n_k) :
    (Gen.gradient_calculate_derivative_of_control_matrix_from_scratch_1 x0 x1)[h][o][s][a][k]
      = ∑ t : Fin n_t, ∑ j : Fin n_j, x0[t][a][j][o] * x1[t][h][s][j][k] := by
  simp only [Gen.gradient_calculate_derivative_of_control_matrix_from_scratch_1, vget, fsum_eq_sum]

theorem ctrlmatStep_get {nA nK nO d : Nat} (ph : Vec ℂ nO) (bT : Vector (Mat ℂ d d) nK)
    (Bt : Vector (Mat ℂ d d) nA) (I1 : Ten3 ℂ nO d d) (a : Fin nA) (j : Fin nK) (o : Fin nO) :
    (ctrlmatStep ph bT Bt I1)[a][j][o]
      = ∑ c : Fin d, ∑ e : Fin d, ph[o] * bT[j][c][e] * Bt[a][e][c] * I1[o][e][c] := by
  unfold ctrlmatStep
  rw [scratch0_get]

theorem smul_get {m n : Nat} (c : ℂ) (A : Mat ℂ m n) (i : Fin m) (j : Fin n) :
    (Mat.smul c A)[i][j] = c * A[i][j] := by
  simp only [Mat.smul, Mat.ofFn_get]

theorem ctrlmatStepDeriv_get_none {nA nH nK nO d : Nat} (ph : Vec ℂ nO)
    (bT : Vector (Mat ℂ d d) nK) (M : Vector (Vector (Vector (Mat ℂ d d) nO) nH) nA)
    (nc : Vec ℝ nA) (cstep : Ten3 ℂ nA nK nO) (a : Fin nA) (j : Fin nK) (h : Fin nH)
    (o : Fin nO) :
    (ctrlmatStepDeriv ph bT M nc none cstep)[a][j][h][o]
      = ∑ n : Fin d, ∑ k : Fin d, ph[o] * (Complex.I * bT[j][n][k]) * M[a][h][o][k][n] := by
  unfold ctrlmatStepDeriv
  simp only [step2_get, vmap_get, smul_get, copsI]

theorem ctrlmatStepDeriv_get_some {nA nH nK nO d : Nat} (ph : Vec ℂ nO)
    (bT : Vector (Mat ℂ d d) nK) (M : Vector (Vector (Vector (Mat ℂ d d) nO) nH) nA)
    (nc : Vec ℝ nA) (ds : Mat ℝ nA nH) (cstep : Ten3 ℂ nA nK nO) (a : Fin nA) (j : Fin nK)
    (h : Fin nH) (o : Fin nO) :
    (ctrlmatStepDeriv ph bT M nc (some ds) cstep)[a][j][h][o]
      = (∑ n : Fin d, ∑ k : Fin d, ph[o] * (Complex.I * bT[j][n][k]) * M[a][h][o][k][n])
        + ((ds[a][h] / nc[a] : ℝ) : ℂ) * cstep[a][j][o] := by
  unfold ctrlmatStepDeriv
  simp only [step2_get, vmap_get, smul_get, copsI, vget, sensitivityTerm, copsOfReal]

/-! ### `_liouville_derivative` -/

theorem hadamardMat_toMatrix {m n : Nat} (A B : Mat ℂ m n) :
    (hadamardMat A B).toMatrix = A.toMatrix ⊙ B.toMatrix := by
  ext i j
  simp only [hadamardMat, Mat.toMatrix_apply, Mat.ofFn_get, Matrix.hadamard_apply]

theorem zeroMat_toMatrix {m n : Nat} : (zeroMat : Mat ℂ m n).toMatrix = 0 := by
  ext i j
  simp only [zeroMat, Mat.toMatrix_apply, Mat.ofFn_get, Matrix.zero_apply]

theorem liouvilleUDeriv_toMatrix {nG nH d : Nat} (thrA : ℝ) (dt : Vec ℝ nG)
    (props : Vector (Mat ℂ d d) (nG + 1)) (eigvecs : Vector (Mat ℂ d d) nG) (eigvals : Mat ℝ nG d)
    (cT : Vector (Vector (Mat ℂ d d) nH) nG) (h : Fin nH) (g : Fin nG) :
    ((liouvilleUDeriv thrA dt props eigvecs eigvals cT)[h][g]).toMatrix
      = (-Complex.I) • ((props[g.1 + 1]'(by omega)).toMatrix * ((props[g.1]'(by omega)).toMatrix)ᴴ
          * eigvecs[g].toMatrix
          * ((liouvilleAMat (K := ℂ) thrA eigvals[g] dt[g]).toMatrix ⊙ cT[g][h].toMatrix)
          * (eigvecs[g].toMatrix)ᴴ) := by
  simp only [liouvilleUDeriv, vget, Mat.toMatrix_smul, Mat.toMatrix_mul, Mat.toMatrix_adjoint,
    hadamardMat_toMatrix, copsI]

theorem liouvilleUDerivTransformed_toMatrix {nG nH d : Nat} (props : Vector (Mat ℂ d d) (nG + 1))
    (Ud : Vector (Vector (Mat ℂ d d) nG) nH) (h : Fin nH) (g : Fin (nG - 1)) :
    ((liouvilleUDerivTransformed props Ud)[h][g]).toMatrix
      = ((props[g.1 + 1]'(by omega)).toMatrix)ᴴ * (Ud[h][g.1]'(by omega)).toMatrix
          * (props[g.1]'(by omega)).toMatrix := by
  simp only [liouvilleUDerivTransformed, vget, Mat.toMatrix_mul, Mat.toMatrix_adjoint]

theorem liouvillePropagatorsDeriv_toMatrix {nG nH d : Nat} (props : Vector (Mat ℂ d d) (nG + 1))
    (UdT : Vector (Vector (Mat ℂ d d) (nG - 1)) nH) (h : Fin nH) (t : Fin (nG - 1)) (s : Fin nG) :
    ((liouvillePropagatorsDeriv props UdT)[h][t][s]).toMatrix
      = if hs : s.1 ≤ t.1 then
          (props[t.1 + 1]'(by omega)).toMatrix * (UdT[h][s.1]'(by omega)).toMatrix
        else 0 := by
  simp only [liouvillePropagatorsDeriv, vget]
  split_ifs with hs
  · rw [Mat.toMatrix_mul]
  · exact zeroMat_toMatrix

theorem map_two_re_get {n1 n2 n3 n4 n5 : Nat}
    (x : Vector (Vector (Vector (Vector (Vector ℂ n5) n4) n3) n2) n1) (i1 : Fin n1) (i2 : Fin n2)
    (i3 : Fin n3) (i4 : Fin n4) (i5 : Fin n5) :
    (x.map (Vector.map (Vector.map (Vector.map (Vector.map
      fun z => ((2 : Nat) : ℝ) * CplxOps.re z)))))[i1][i2][i3][i4][i5]
      = 2 * (x[i1][i2][i3][i4][i5]).re := by
  simp only [vmap_get, copsRe, Nat.cast_ofNat]

theorem map_conj_get {n1 n2 n3 n4 n5 : Nat}
    (x : Vector (Vector (Vector (Vector (Vector ℂ n5) n4) n3) n2) n1) (i1 : Fin n1) (i2 : Fin n2)
    (i3 : Fin n3) (i4 : Fin n4) (i5 : Fin n5) :
    (x.map (Vector.map (Vector.map (Vector.map (Vector.map CplxOps.conj)))))[i1][i2][i3][i4][i5]
      = (starRingEnd ℂ) (x[i1][i2][i3][i4][i5]) := by
  simp only [vmap_get, copsConj]

theorem liouvilleBQB_toMatrix {nG N d : Nat} (props : Vector (Mat ℂ d d) (nG + 1))
    (basis : Vector (Mat ℂ d d) N) (t : Fin (nG - 1)) (j k : Fin N) :
    ((liouvilleBQB props basis)[t][j][k]).toMatrix
      = basis[j].toMatrix * (props[t.1 + 1]'(by omega)).toMatrix * basis[k].toMatrix := by
  unfold liouvilleBQB
  rw [vget]
  simp only []
  rw [vget, vget, vget, Mat.toMatrix_mul, Mat.toMatrix_mul]

theorem liouvilleDerivative_get {nG nH N d : Nat} (thrA : ℝ) (dt : Vec ℝ nG)
    (props : Vector (Mat ℂ d d) (nG + 1)) (basis : Vector (Mat ℂ d d) N)
    (eigvecs : Vector (Mat ℂ d d) nG) (eigvals : Mat ℝ nG d)
    (cT : Vector (Vector (Mat ℂ d d) nH) nG) (t : Fin (nG - 1)) (h : Fin nH) (s : Fin nG)
    (j k : Fin N) :
    (liouvilleDerivative thrA dt props basis eigvecs eigvals cT)[t][h][s][j][k]
      = 2 * (Matrix.trace
          ((((liouvillePD thrA dt props eigvecs eigvals cT)[h][t][s]).toMatrix)ᴴ
            * (basis[j].toMatrix * (props[t.1 + 1]'(by omega)).toMatrix * basis[k].toMatrix))).re := by
  unfold liouvilleDerivative
  rw [map_two_re_get]
  rw [C11.liouville_derivative_contraction _ _ t h s j k
    (((liouvillePD thrA dt props eigvecs eigvals cT)[h][t][s]).toMatrix)
    (basis[j].toMatrix * (props[t.1 + 1]'(by omega)).toMatrix * basis[k].toMatrix)]
  · intro b a
    rw [map_conj_get]
    rfl
  · intro b a
    rw [← liouvilleBQB_toMatrix props basis t j k]
    rfl

theorem liouvillePD_toMatrix {nG nH d : Nat} (thrA : ℝ) (dt : Vec ℝ nG)
    (props : Vector (Mat ℂ d d) (nG + 1)) (eigvecs : Vector (Mat ℂ d d) nG) (eigvals : Mat ℝ nG d)
    (cT : Vector (Vector (Mat ℂ d d) nH) nG) (h : Fin nH) (t : Fin (nG - 1)) (s : Fin nG) :
    ((liouvillePD thrA dt props eigvecs eigvals cT)[h][t][s]).toMatrix
      = if s.1 ≤ t.1 then
          (props[t.1 + 1]'(by omega)).toMatrix
            * (((props[s.1 + 1]'(by omega)).toMatrix)ᴴ
              * ((-Complex.I) • ((props[s.1 + 1]'(by omega)).toMatrix
                  * ((props[s.1]'(by omega)).toMatrix)ᴴ * eigvecs[s].toMatrix
                  * ((liouvilleAMat (K := ℂ) thrA eigvals[s] dt[s]).toMatrix ⊙ cT[s][h].toMatrix)
                  * (eigvecs[s].toMatrix)ᴴ))
              * (props[s.1]'(by omega)).toMatrix)
        else 0 := by
  unfold liouvillePD
  rw [liouvillePropagatorsDeriv_toMatrix]
  split_ifs with hs
  · have hs' : s.1 < nG - 1 := by omega
    have e1 := liouvilleUDerivTransformed_toMatrix props
      (liouvilleUDeriv thrA dt props eigvecs eigvals cT) h ⟨s.1, hs'⟩
    have e2 := liouvilleUDeriv_toMatrix thrA dt props eigvecs eigvals cT h s
    simp only [Fin.getElem_fin] at e1 e2 ⊢
    rw [e1, e2]
  · rfl

theorem liouvilleDerivative_eq_zero_of_lt {nG nH N d : Nat} (thrA : ℝ) (dt : Vec ℝ nG)
    (props : Vector (Mat ℂ d d) (nG + 1)) (basis : Vector (Mat ℂ d d) N)
    (eigvecs : Vector (Mat ℂ d d) nG) (eigvals : Mat ℝ nG d)
    (cT : Vector (Vector (Mat ℂ d d) nH) nG) (t : Fin (nG - 1)) (h : Fin nH) (s : Fin nG)
    (j k : Fin N) (hts : t.1 < s.1) :
    (liouvilleDerivative thrA dt props basis eigvecs eigvals cT)[t][h][s][j][k] = 0 := by
  rw [liouvilleDerivative_get, liouvillePD_toMatrix, if_neg (by omega)]
  simp

/-! ### `calculate_derivative_of_control_matrix_from_scratch` -/

theorem map_ofReal_get {n1 n2 n3 n4 n5 : Nat}
    (x : Vector (Vector (Vector (Vector (Vector ℝ n5) n4) n3) n2) n1) (i1 : Fin n1) (i2 : Fin n2)
    (i3 : Fin n3) (i4 : Fin n4) (i5 : Fin n5) :
    (x.map (Vector.map (Vector.map (Vector.map (Vector.map
      (CplxOps.ofReal : ℝ → ℂ))))))[i1][i2][i3][i4][i5]
      = ((x[i1][i2][i3][i4][i5] : ℝ) : ℂ) := by
  simp only [vmap_get, copsOfReal]

theorem controlMatrixDerivFromScratch_get {nG d nO nA nH nK : Nat} (kind : MaskKind)
    (thrF thrD thrA : ℝ) (castReal : Bool) (omega : Vec ℝ nO) (props : Vector (Mat ℂ d d) (nG + 1))
    (eigvals : Mat ℝ nG d) (eigvecs : Vector (Mat ℂ d d) nG) (basis : Vector (Mat ℂ d d) nK)
    (t : Vec ℝ (nG + 1)) (dt : Vec ℝ nG) (nOpers : Vector (Mat ℂ d d) nA) (nCoeffs : Mat ℝ nA nG)
    (cOpers : Vector (Mat ℂ d d) nH) (nCoeffsDeriv : Option (Vector (Mat ℝ nH nG) nA))
    (h : Fin nH) (o : Fin nO) (g : Fin nG) (a : Fin nA) (k : Fin nK) :
    (controlMatrixDerivFromScratch kind thrF thrD thrA castReal omega props eigvals eigvecs basis t
        dt nOpers nCoeffs cOpers nCoeffsDeriv)[h][o][g][a][k]
      = (∑ j : Fin nK,
          ((cmdSteps kind thrF thrD omega eigvals eigvecs basis t dt nOpers nCoeffs cOpers
              nCoeffsDeriv)[g]).2[a][j][h][o]
            * (liouville (props[g.1]'(by omega)) basis castReal)[j][k])
        + ∑ tt : Fin (nG - 1), ∑ j : Fin nK,
          ((cmdSteps kind thrF thrD omega eigvals eigvecs basis t dt nOpers nCoeffs cOpers
              nCoeffsDeriv)[tt.1 + 1]'(by omega)).1[a][j][o]
            * (((liouvilleDerivative thrA dt props basis eigvecs eigvals
                (cOpersTransformedAll eigvecs cOpers))[tt][h][g][j][k] : ℝ) : ℂ) := by
  unfold controlMatrixDerivFromScratch
  simp only []
  rw [vget, vget, vget, Mat.ofFn_get, vget, vget, vget, Mat.ofFn_get, scratch1_get, fsum_eq_sum]
  congr 1
  · refine Finset.sum_congr rfl fun j _ => ?_
    rw [vget]
  · refine Finset.sum_congr rfl fun tt _ => Finset.sum_congr rfl fun j _ => ?_
    rw [vget, map_ofReal_get]

end FFVerif.GradientAsmAux
