/-
Helper lemmas for `FFVerif.Props.C08Integrand`: entry lemmas that unfold the sixteen branches of
`Model.getIntegrand` (`Model/Integrand.lean`), the filter functions the package computes from a
control matrix, the slices of the memory-parsimonious loop and the integration wrappers.
-/
import Mathlib.Tactic.Ring
import FFVerif.Lemmas.InfidelityAux
import FFVerif.Lemmas.ShiftsAux
import FFVerif.Lemmas.PulseCorrAux
import FFVerif.Model.Integrand

namespace FFVerif.Model.IntegrandAux
open FFVerif

variable {G nA m N Nl M nO : Nat}

/-! ### `.real` -/

theorem re2_get {a b : Nat} (x : Mat ℂ a b) (i : Fin a) (j : Fin b) :
    (re2 x : Mat ℝ a b)[i][j] = (x[i][j]).re := by
  simp only [re2, Fin.getElem_fin, Vector.getElem_map, copsRe]

theorem re3_get {a b c : Nat} (x : Ten3 ℂ a b c) (i : Fin a) (j : Fin b) (k : Fin c) :
    (re3 x : Ten3 ℝ a b c)[i][j][k] = (x[i][j][k]).re := by
  simp only [re3, re2, Fin.getElem_fin, Vector.getElem_map, copsRe]

theorem re4_get {a b c d : Nat} (x : Ten4 ℂ a b c d) (i : Fin a) (j : Fin b) (k : Fin c)
    (l : Fin d) : (re4 x : Ten4 ℝ a b c d)[i][j][k][l] = (x[i][j][k][l]).re := by
  simp only [re4, re3, re2, Fin.getElem_fin, Vector.getElem_map, copsRe]

theorem re5_get {a b c d e : Nat} (x : Ten5 ℂ a b c d e) (i : Fin a) (j : Fin b) (k : Fin c)
    (l : Fin d) (o : Fin e) : (re5 x : Ten5 ℝ a b c d e)[i][j][k][l][o] = (x[i][j][k][l][o]).re := by
  simp only [re5, re4, re3, re2, Fin.getElem_fin, Vector.getElem_map, copsRe]

/-! ### control-matrix branches -/

theorem cmIntegrandTotalFid2_get (Bl Br : Ten3 ℂ nA N nO) (idx : Vec (Fin nA) m) (S : Mat ℂ m nO)
    (a : Fin m) (o : Fin nO) :
    (cmIntegrandTotalFid2 Bl Br idx S : Mat ℝ m nO)[a][o]
      = (∑ k : Fin N, starRingEnd ℂ Bl[idx[a]][k][o] * S[a][o] * Br[idx[a]][k][o]).re := by
  unfold cmIntegrandTotalFid2
  rw [re2_get]
  simp only [Gen.numeric__get_integrand_2_e1, selectRowsC, conj3, Fin.getElem_fin,
    Vector.getElem_map, Vector.getElem_ofFn, fsum_eq_sum, copsConj]

theorem cmIntegrandTotalGen2_get (Bl : Ten3 ℂ nA Nl nO) (Br : Ten3 ℂ nA N nO)
    (idx : Vec (Fin nA) m) (S : Mat ℂ m nO) (a : Fin m) (k : Fin Nl) (l : Fin N) (o : Fin nO) :
    (cmIntegrandTotalGen2 Bl Br idx S : Ten4 ℝ m Nl N nO)[a][k][l][o]
      = (starRingEnd ℂ Bl[idx[a]][k][o] * S[a][o] * Br[idx[a]][l][o]).re := by
  unfold cmIntegrandTotalGen2
  rw [integrandGenLR_getElem, selectRows_getElem, selectRows_getElem]
  simp only [gammaIntegrand, Fin.getElem_fin, Vector.getElem_ofFn]

theorem cmIntegrandTotalFid3_get (Bl Br : Ten3 ℂ nA N nO) (idx : Vec (Fin nA) m)
    (S : Ten3 ℂ m m nO) (a b : Fin m) (o : Fin nO) :
    (cmIntegrandTotalFid3 Bl Br idx S : Ten3 ℝ m m nO)[a][b][o]
      = (∑ k : Fin N, starRingEnd ℂ Bl[idx[a]][k][o] * S[a][b][o] * Br[idx[b]][k][o]).re := by
  unfold cmIntegrandTotalFid3
  rw [re3_get]
  simp only [Gen.numeric__get_integrand_6, selectRowsC, conj3, Fin.getElem_fin,
    Vector.getElem_map, Vector.getElem_ofFn, fsum_eq_sum, copsConj]

theorem cmIntegrandTotalGen3_get (Bl : Ten3 ℂ nA Nl nO) (Br : Ten3 ℂ nA N nO)
    (idx : Vec (Fin nA) m) (S : Ten3 ℂ m m nO) (a b : Fin m) (k : Fin Nl) (l : Fin N)
    (o : Fin nO) :
    (cmIntegrandTotalGen3 Bl Br idx S : Ten5 ℝ m m Nl N nO)[a][b][k][l][o]
      = (starRingEnd ℂ Bl[idx[a]][k][o] * S[a][b][o] * Br[idx[b]][l][o]).re := by
  unfold cmIntegrandTotalGen3
  rw [integrandGen3LR_getElem, selectRows_getElem, selectRows_getElem]
  simp only [gammaIntegrand, Fin.getElem_fin, Vector.getElem_ofFn]

theorem conj3_get {a b c : Nat} (B : Ten3 ℂ a b c) (i : Fin a) (j : Fin b) (k : Fin c) :
    (conj3 B)[i][j][k] = starRingEnd ℂ B[i][j][k] := by
  unfold conj3
  rw [map_get', map_get', map_get', copsConj]

theorem conj4_get {g a b c : Nat} (B : Vector (Ten3 ℂ a b c) g) (p : Fin g) (i : Fin a)
    (j : Fin b) (k : Fin c) : (conj4 B)[p][i][j][k] = starRingEnd ℂ B[p][i][j][k] := by
  unfold conj4
  rw [map_get', conj3_get]

theorem selectOpsPc_get (idx : Vec (Fin nA) m) (B : Vector (Ten3 ℂ nA N nO) G) (g : Fin G)
    (a : Fin m) : (selectOpsPc idx B)[g][a] = B[g][idx[a]] := by
  unfold selectOpsPc
  rw [map_get', selectRows_getElem]

theorem gen0e1_get {n_g n_Z n_k n_o n_h : Nat} (x0 : Vector (Ten3 ℂ n_Z n_k n_o) n_g)
    (x1 : Mat ℂ n_Z n_o) (x2 : Vector (Ten3 ℂ n_Z n_k n_o) n_h) (g : Fin n_g) (h : Fin n_h)
    (a : Fin n_Z) (o : Fin n_o) :
    (Gen.numeric__get_integrand_0_e1 x0 x1 x2)[g][h][a][o]
      = ∑ k : Fin n_k, x0[g][a][k][o] * x1[a][o] * x2[h][a][k][o] := by
  unfold Gen.numeric__get_integrand_0_e1
  rw [ofFn_get', ofFn_get', ofFn_get', ofFn_get', fsum_eq_sum]

theorem gen1e1_get {n_g n_Z n_k n_o n_h n_l : Nat} (x0 : Vector (Ten3 ℂ n_Z n_k n_o) n_g)
    (x1 : Mat ℂ n_Z n_o) (x2 : Vector (Ten3 ℂ n_Z n_l n_o) n_h) (g : Fin n_g) (h : Fin n_h)
    (a : Fin n_Z) (k : Fin n_k) (l : Fin n_l) (o : Fin n_o) :
    (Gen.numeric__get_integrand_1_e1 x0 x1 x2)[g][h][a][k][l][o]
      = x0[g][a][k][o] * x1[a][o] * x2[h][a][l][o] := by
  unfold Gen.numeric__get_integrand_1_e1
  rw [ofFn_get', ofFn_get', ofFn_get', ofFn_get', ofFn_get', ofFn_get']

theorem gen4_get {n_g n_a n_k n_o n_b n_h : Nat} (x0 : Vector (Ten3 ℂ n_a n_k n_o) n_g)
    (x1 : Ten3 ℂ n_a n_b n_o) (x2 : Vector (Ten3 ℂ n_b n_k n_o) n_h) (g : Fin n_g) (h : Fin n_h)
    (a : Fin n_a) (b : Fin n_b) (o : Fin n_o) :
    (Gen.numeric__get_integrand_4 x0 x1 x2)[g][h][a][b][o]
      = ∑ k : Fin n_k, x0[g][a][k][o] * x1[a][b][o] * x2[h][b][k][o] := by
  unfold Gen.numeric__get_integrand_4
  rw [ofFn_get', ofFn_get', ofFn_get', ofFn_get', ofFn_get', fsum_eq_sum]

theorem gen5_get {n_g n_a n_k n_o n_b n_h n_l : Nat} (x0 : Vector (Ten3 ℂ n_a n_k n_o) n_g)
    (x1 : Ten3 ℂ n_a n_b n_o) (x2 : Vector (Ten3 ℂ n_b n_l n_o) n_h) (g : Fin n_g) (h : Fin n_h)
    (a : Fin n_a) (b : Fin n_b) (k : Fin n_k) (l : Fin n_l) (o : Fin n_o) :
    (Gen.numeric__get_integrand_5 x0 x1 x2)[g][h][a][b][k][l][o]
      = x0[g][a][k][o] * x1[a][b][o] * x2[h][b][l][o] := by
  unfold Gen.numeric__get_integrand_5
  rw [ofFn_get', ofFn_get', ofFn_get', ofFn_get', ofFn_get', ofFn_get', ofFn_get']

theorem cmIntegrandCorrFid2_get (Bl Br : Vector (Ten3 ℂ nA N nO) G) (idx : Vec (Fin nA) m)
    (S : Mat ℂ m nO) (g h : Fin G) (a : Fin m) (o : Fin nO) :
    (cmIntegrandCorrFid2 Bl Br idx S : Vector (Vector (Mat ℝ m nO) G) G)[g][h][a][o]
      = (∑ k : Fin N, starRingEnd ℂ Bl[g][idx[a]][k][o] * S[a][o] * Br[h][idx[a]][k][o]).re := by
  unfold cmIntegrandCorrFid2
  rw [map_get', map_get', re2_get, gen0e1_get]
  simp only [selectOpsPc_get, conj4_get]

theorem cmIntegrandCorrGen2_get (Bl : Vector (Ten3 ℂ nA Nl nO) G) (Br : Vector (Ten3 ℂ nA N nO) G)
    (idx : Vec (Fin nA) m) (S : Mat ℂ m nO) (g h : Fin G) (a : Fin m) (k : Fin Nl) (l : Fin N)
    (o : Fin nO) :
    (cmIntegrandCorrGen2 Bl Br idx S : Vector (Vector (Ten4 ℝ m Nl N nO) G) G)[g][h][a][k][l][o]
      = (starRingEnd ℂ Bl[g][idx[a]][k][o] * S[a][o] * Br[h][idx[a]][l][o]).re := by
  unfold cmIntegrandCorrGen2
  rw [map_get', map_get', re4_get, gen1e1_get, selectOpsPc_get, selectOpsPc_get, conj4_get]

theorem cmIntegrandCorrFid3_get (Bl Br : Vector (Ten3 ℂ nA N nO) G) (idx : Vec (Fin nA) m)
    (S : Ten3 ℂ m m nO) (g h : Fin G) (a b : Fin m) (o : Fin nO) :
    (cmIntegrandCorrFid3 Bl Br idx S : Vector (Vector (Ten3 ℝ m m nO) G) G)[g][h][a][b][o]
      = (∑ k : Fin N,
          starRingEnd ℂ Bl[g][idx[a]][k][o] * S[a][b][o] * Br[h][idx[b]][k][o]).re := by
  unfold cmIntegrandCorrFid3
  rw [map_get', map_get', re3_get, gen4_get]
  simp only [selectOpsPc_get, conj4_get]

theorem cmIntegrandCorrGen3_get (Bl : Vector (Ten3 ℂ nA Nl nO) G) (Br : Vector (Ten3 ℂ nA N nO) G)
    (idx : Vec (Fin nA) m) (S : Ten3 ℂ m m nO) (g h : Fin G) (a b : Fin m) (k : Fin Nl)
    (l : Fin N) (o : Fin nO) :
    (cmIntegrandCorrGen3 Bl Br idx S
        : Vector (Vector (Ten5 ℝ m m Nl N nO) G) G)[g][h][a][b][k][l][o]
      = (starRingEnd ℂ Bl[g][idx[a]][k][o] * S[a][b][o] * Br[h][idx[b]][l][o]).re := by
  unfold cmIntegrandCorrGen3
  rw [map_get', map_get', re5_get, gen5_get, selectOpsPc_get, selectOpsPc_get, conj4_get]

/-! ### filter-function branches -/

theorem ffIntegrandFid2_get (F : Ten3 ℂ nA nA nO) (idx : Vec (Fin nA) m) (S : Mat ℂ m nO)
    (a : Fin m) (o : Fin nO) :
    (ffIntegrandFid2 F idx S : Mat ℝ m nO)[a][o] = (F[idx[a]][idx[a]][o] * S[a][o]).re := by
  unfold ffIntegrandFid2
  rw [re2_get]
  simp only [Fin.getElem_fin, Vector.getElem_ofFn]

theorem ffIntegrandFid3_get (F : Ten3 ℂ nA nA nO) (idx : Vec (Fin nA) m) (S : Ten3 ℂ m m nO)
    (a b : Fin m) (o : Fin nO) :
    (ffIntegrandFid3 F idx S : Ten3 ℝ m m nO)[a][b][o]
      = (F[idx[a]][idx[b]][o] * S[a][b][o]).re := by
  unfold ffIntegrandFid3
  rw [re3_get]
  simp only [Fin.getElem_fin, Vector.getElem_ofFn]

theorem ffIntegrandGen2_get (F : Ten5 ℂ nA nA Nl N nO) (idx : Vec (Fin nA) m) (S : Mat ℂ m nO)
    (a : Fin m) (k : Fin Nl) (l : Fin N) (o : Fin nO) :
    (ffIntegrandGen2 F idx S : Ten4 ℝ m Nl N nO)[a][k][l][o]
      = (F[idx[a]][idx[a]][k][l][o] * S[a][o]).re := by
  unfold ffIntegrandGen2
  rw [integrandFF2_getElem]
  simp only [shiftIntegrand, Fin.getElem_fin, Vector.getElem_ofFn]

theorem ffIntegrandGen3_get (F : Ten5 ℂ nA nA Nl N nO) (idx : Vec (Fin nA) m) (S : Ten3 ℂ m m nO)
    (a b : Fin m) (k : Fin Nl) (l : Fin N) (o : Fin nO) :
    (ffIntegrandGen3 F idx S : Ten5 ℝ m m Nl N nO)[a][b][k][l][o]
      = (F[idx[a]][idx[b]][k][l][o] * S[a][b][o]).re := by
  unfold ffIntegrandGen3
  rw [integrandFF3_getElem]
  simp only [shiftIntegrand, Fin.getElem_fin, Vector.getElem_ofFn]

theorem ffIntegrandCorrFid2_get (F : Vector (Vector (Ten3 ℂ nA nA nO) G) G) (idx : Vec (Fin nA) m)
    (S : Mat ℂ m nO) (g h : Fin G) :
    (ffIntegrandCorrFid2 F idx S : Vector (Vector (Mat ℝ m nO) G) G)[g][h]
      = ffIntegrandFid2 F[g][h] idx S := by
  simp only [ffIntegrandCorrFid2, Fin.getElem_fin, Vector.getElem_map]

theorem ffIntegrandCorrFid3_get (F : Vector (Vector (Ten3 ℂ nA nA nO) G) G) (idx : Vec (Fin nA) m)
    (S : Ten3 ℂ m m nO) (g h : Fin G) :
    (ffIntegrandCorrFid3 F idx S : Vector (Vector (Ten3 ℝ m m nO) G) G)[g][h]
      = ffIntegrandFid3 F[g][h] idx S := by
  simp only [ffIntegrandCorrFid3, Fin.getElem_fin, Vector.getElem_map]

theorem ffIntegrandCorrGen2_get (F : Vector (Vector (Ten5 ℂ nA nA Nl N nO) G) G)
    (idx : Vec (Fin nA) m) (S : Mat ℂ m nO) (g h : Fin G) :
    (ffIntegrandCorrGen2 F idx S : Vector (Vector (Ten4 ℝ m Nl N nO) G) G)[g][h]
      = ffIntegrandGen2 F[g][h] idx S := by
  simp only [ffIntegrandCorrGen2, Fin.getElem_fin, Vector.getElem_map]

theorem ffIntegrandCorrGen3_get (F : Vector (Vector (Ten5 ℂ nA nA Nl N nO) G) G)
    (idx : Vec (Fin nA) m) (S : Ten3 ℂ m m nO) (g h : Fin G) :
    (ffIntegrandCorrGen3 F idx S : Vector (Vector (Ten5 ℝ m m Nl N nO) G) G)[g][h]
      = ffIntegrandGen3 F[g][h] idx S := by
  simp only [ffIntegrandCorrGen3, Fin.getElem_fin, Vector.getElem_map]

/-! ### the filter functions computed from a control matrix -/

theorem filterFunctionFid_get (B : Ten3 ℂ nA N nO) (a b : Fin nA) (o : Fin nO) :
    (filterFunctionFid B)[a][b][o] = ∑ k : Fin N, starRingEnd ℂ B[a][k][o] * B[b][k][o] := by
  simp only [filterFunctionFid, Gen.numeric_calculate_filter_function_0, Fin.getElem_fin,
    Vector.getElem_map, Vector.getElem_ofFn, fsum_eq_sum, copsConj]

theorem filterFunctionGen_get (B : Ten3 ℂ nA N nO) (a b : Fin nA) (k l : Fin N) (o : Fin nO) :
    (filterFunctionGen B)[a][b][k][l][o] = starRingEnd ℂ B[a][k][o] * B[b][l][o] := by
  simp only [filterFunctionGen, Gen.numeric_calculate_filter_function_1, Fin.getElem_fin,
    Vector.getElem_map, Vector.getElem_ofFn, copsConj]

theorem conjPc_get {g a b c : Nat} (B : Vector (Ten3 ℂ a b c) g) (p : Fin g) (i : Fin a)
    (j : Fin b) (k : Fin c) : (conjPc B)[p][i][j][k] = starRingEnd ℂ B[p][i][j][k] := by
  unfold conjPc
  rw [map_get', map_get', map_get', map_get', copsConj]

theorem pulseCorrelationFFFid_get (B : Vector (Ten3 ℂ nA N nO) G) (g h : Fin G) (a b : Fin nA)
    (o : Fin nO) :
    (pulseCorrelationFFFid B)[g][h][a][b][o]
      = ∑ k : Fin N, starRingEnd ℂ B[g][a][k][o] * B[h][b][k][o] := by
  unfold pulseCorrelationFFFid Gen.numeric_calculate_pulse_correlation_filter_function_0
  rw [ofFn_get', ofFn_get', ofFn_get', ofFn_get', ofFn_get', fsum_eq_sum]
  simp only [conjPc_get]

theorem pulseCorrelationFFGen_get (B : Vector (Ten3 ℂ nA N nO) G) (g h : Fin G) (a b : Fin nA)
    (k l : Fin N) (o : Fin nO) :
    (pulseCorrelationFFGen B)[g][h][a][b][k][l][o]
      = starRingEnd ℂ B[g][a][k][o] * B[h][b][l][o] := by
  unfold pulseCorrelationFFGen Gen.numeric_calculate_pulse_correlation_filter_function_1
  rw [ofFn_get', ofFn_get', ofFn_get', ofFn_get', ofFn_get', ofFn_get', ofFn_get', conjPc_get]

/-! ### slices of the loop, assembly, integration -/

theorem sliceCM_get (k : Fin N) (B : Ten3 ℂ nA N nO) (a : Fin nA) (z : Fin 1) :
    (sliceCM k B)[a][z] = B[a][k] := by
  have hz : z = 0 := Subsingleton.elim _ _
  subst hz
  simp only [sliceCM, Fin.getElem_fin, Vector.getElem_map]
  rfl

theorem sliceFF_get (k : Fin N) (F : Ten5 ℂ nA nA N M nO) (a b : Fin nA) (z : Fin 1) :
    (sliceFF k F)[a][b][z] = F[a][b][k] := by
  have hz : z = 0 := Subsingleton.elim _ _
  subst hz
  simp only [sliceFF, Fin.getElem_fin, Vector.getElem_map]
  rfl

theorem assembleRows2_get (rows : Vector (Ten3 ℝ m 1 N) N) (a : Fin m) (k l : Fin N) :
    (assembleRows2 rows)[a][k][l] = rows[k][a][(0 : Fin 1)][l] := by
  simp only [assembleRows2, Fin.getElem_fin, Vector.getElem_ofFn]
  rfl

theorem assembleRows3_get (rows : Vector (Ten4 ℝ m m 1 N) N) (a b : Fin m) (k l : Fin N) :
    (assembleRows3 rows)[a][b][k][l] = rows[k][a][b][(0 : Fin 1)][l] := by
  simp only [assembleRows3, Fin.getElem_fin, Vector.getElem_ofFn]
  rfl

theorem integ4_get (ω : Vec ℝ nO) (I : Ten4 ℝ m Nl N nO) (a : Fin m) (k : Fin Nl) (l : Fin N) :
    (integ4 ω I)[a][k][l] = integrateR ω I[a][k][l] / (2 * Real.pi) := by
  simp only [integ4, integ, Fin.getElem_fin, Vector.getElem_map, twoPi_real]

theorem integ5_get (ω : Vec ℝ nO) (I : Ten5 ℝ m m Nl N nO) (a b : Fin m) (k : Fin Nl)
    (l : Fin N) : (integ5 ω I)[a][b][k][l] = integrateR ω I[a][b][k][l] / (2 * Real.pi) := by
  simp only [integ5, integ4, integ, Fin.getElem_fin, Vector.getElem_map, twoPi_real]

/-- extensionality on the last axis through entries indexed by `Fin` -/
theorem vec_ext_fin {α : Type} {n : Nat} {v w : Vector α n} (h : ∀ i : Fin n, v[i] = w[i]) :
    v = w := by
  apply Vector.ext
  intro i hi
  exact h ⟨i, hi⟩

end FFVerif.Model.IntegrandAux
