/-
Finite-sum algebra behind the assembly of the second-order filter function
(`calculate_second_order_filter_function`): index reversal of a four-fold sum, the per-segment
"step + adjoint" identity from the kernel identity, and the telescoping of the cumulative
control-matrix sums.
-/
import Mathlib.Algebra.BigOperators.Fin
import Mathlib.Algebra.BigOperators.Ring.Finset
import Mathlib.Algebra.BigOperators.Intervals
import Mathlib.Data.Complex.BigOperators
import Mathlib.Tactic.LinearCombination
import FFVerif.Lemmas.Bridge
import FFVerif.Lemmas.Inst
import FFVerif.Model.SecondOrder

namespace FFVerif.SecondOrderAsm
open FFVerif FFVerif.Model Complex Finset

/-- reversal `(i,j,m,n) ↦ (n,m,j,i)` of a four-fold sum -/
theorem sum4_rev {d : ℕ} (f : Fin d → Fin d → Fin d → Fin d → ℂ) :
    (∑ i, ∑ j, ∑ m, ∑ n, f i j m n) = ∑ i, ∑ j, ∑ m, ∑ n, f n m j i := by
  let e : (Fin d × Fin d × Fin d × Fin d) ≃ (Fin d × Fin d × Fin d × Fin d) :=
    { toFun := fun x => (x.2.2.2, x.2.2.1, x.2.1, x.1)
      invFun := fun x => (x.2.2.2, x.2.2.1, x.2.1, x.1)
      left_inv := fun _ => rfl
      right_inv := fun _ => rfl }
  have h := Fintype.sum_equiv e (fun x => f x.2.2.2 x.2.2.1 x.2.1 x.1)
    (fun x => f x.1 x.2.1 x.2.2.1 x.2.2.2) (fun _ => rfl)
  simp only [Fintype.sum_prod_type] at h
  exact h.symm

/-- **Per-segment identity, abstractly.**  `u = N_{αk}`, `v = N_{βl}` (Hermitian in `(i,j)`),
`J` the second-order kernel, `c` the first-order kernel with `J_ijmn + conj J_nmji =
conj(c_ji) c_mn`, and a unimodular phase `p`. -/
theorem step_plus_adjoint_alg {d : ℕ} (u v c : Fin d → Fin d → ℂ)
    (J : Fin d → Fin d → Fin d → Fin d → ℂ) (p : ℂ)
    (hu : ∀ i j, (starRingEnd ℂ) (u i j) = u j i) (hv : ∀ i j, (starRingEnd ℂ) (v i j) = v j i)
    (hJ : ∀ i j m n, J i j m n + (starRingEnd ℂ) (J n m j i) = (starRingEnd ℂ) (c j i) * c m n)
    (hp : (starRingEnd ℂ) p * p = 1) :
    (∑ i, ∑ j, ∑ m, ∑ n, J i j m n * u i j * v m n)
        + (starRingEnd ℂ) (∑ i, ∑ j, ∑ m, ∑ n, J i j m n * v i j * u m n)
      = (starRingEnd ℂ) (∑ m, ∑ n, p * u m n * c m n) * ∑ m, ∑ n, p * v m n * c m n := by
  have h1 : (starRingEnd ℂ) (∑ i, ∑ j, ∑ m, ∑ n, J i j m n * v i j * u m n)
      = ∑ i, ∑ j, ∑ m, ∑ n, (starRingEnd ℂ) (J n m j i) * v m n * u i j := by
    simp only [map_sum, map_mul, hu, hv]
    exact sum4_rev (fun i j m n => (starRingEnd ℂ) (J i j m n) * v j i * u n m)
  have h2 : (starRingEnd ℂ) (∑ m, ∑ n, p * u m n * c m n)
      = (starRingEnd ℂ) p * ∑ i, ∑ j, u i j * (starRingEnd ℂ) (c j i) := by
    simp only [map_sum, map_mul, hu]
    rw [Finset.sum_comm]
    simp only [Finset.mul_sum]
    refine Finset.sum_congr rfl fun i _ => Finset.sum_congr rfl fun j _ => ?_
    ring
  have h3 : (∑ m, ∑ n, p * v m n * c m n) = p * ∑ m, ∑ n, v m n * c m n := by
    simp only [Finset.mul_sum]
    refine Finset.sum_congr rfl fun i _ => Finset.sum_congr rfl fun j _ => ?_
    ring
  rw [h1, h2, h3]
  have h4 : (starRingEnd ℂ) p * (∑ i, ∑ j, u i j * (starRingEnd ℂ) (c j i))
      * (p * ∑ m, ∑ n, v m n * c m n)
      = (∑ i, ∑ j, u i j * (starRingEnd ℂ) (c j i)) * ∑ m, ∑ n, v m n * c m n := by
    linear_combination ((∑ i, ∑ j, u i j * (starRingEnd ℂ) (c j i))
      * ∑ m, ∑ n, v m n * c m n) * hp
  have h5 : ∀ A B : Fin d → Fin d → ℂ, (∑ i, ∑ j, A i j) * (∑ m, ∑ n, B m n)
      = ∑ i, ∑ j, ∑ m, ∑ n, A i j * B m n := by
    intro A B
    rw [Finset.sum_mul]; refine Finset.sum_congr rfl fun i _ => ?_
    rw [Finset.sum_mul]; refine Finset.sum_congr rfl fun j _ => ?_
    rw [Finset.mul_sum]; refine Finset.sum_congr rfl fun m _ => ?_
    rw [Finset.mul_sum]
  rw [h4, h5]
  simp only [← Finset.sum_add_distrib]
  refine Finset.sum_congr rfl fun i _ => Finset.sum_congr rfl fun j _ =>
    Finset.sum_congr rfl fun m _ => Finset.sum_congr rfl fun n _ => ?_
  linear_combination (u i j * v m n) * hJ i j m n

/-- **Telescoping of the cumulative sums**:
`Σ_g x_g Σ_{g'<g} y_g' + Σ_g y_g Σ_{g'<g} x_g' + Σ_g x_g y_g = (Σ x)(Σ y)`. -/
theorem cumulative_telescope (x y : ℕ → ℂ) (n : ℕ) :
    (∑ g ∈ range n, x g * ∑ g' ∈ range g, y g') + (∑ g ∈ range n, y g * ∑ g' ∈ range g, x g')
      + ∑ g ∈ range n, x g * y g = (∑ g ∈ range n, x g) * ∑ g ∈ range n, y g := by
  induction n with
  | zero => simp
  | succ n ih =>
    simp only [Finset.sum_range_succ]
    linear_combination ih

/-- `step_plus_adjoint_alg` in the factor order produced by the einsums of the source -/
theorem step_plus_adjoint_alg' {d : ℕ} (s t s' t' c : Fin d → Fin d → ℂ)
    (J : Fin d → Fin d → Fin d → Fin d → ℂ) (p : ℂ)
    (hs : ∀ i j, (starRingEnd ℂ) (s i j) = s j i) (ht : ∀ i j, (starRingEnd ℂ) (t i j) = t j i)
    (hs' : ∀ i j, (starRingEnd ℂ) (s' i j) = s' j i)
    (ht' : ∀ i j, (starRingEnd ℂ) (t' i j) = t' j i)
    (hJ : ∀ i j m n, J i j m n + (starRingEnd ℂ) (J n m j i) = (starRingEnd ℂ) (c j i) * c m n)
    (hp : (starRingEnd ℂ) p * p = 1) :
    (∑ i, ∑ j, ∑ m, ∑ n, J i j m n * (s i j * t j i) * (s' m n * t' n m))
        + (starRingEnd ℂ) (∑ i, ∑ j, ∑ m, ∑ n, J i j m n * (s' i j * t' j i) * (s m n * t n m))
      = (starRingEnd ℂ) (∑ m, ∑ n, p * s m n * c m n * t n m)
          * ∑ m, ∑ n, p * s' m n * c m n * t' n m := by
  have key := step_plus_adjoint_alg (fun i j => s i j * t j i) (fun i j => s' i j * t' j i) c J p
    (fun i j => by rw [map_mul, hs, ht]) (fun i j => by rw [map_mul, hs', ht']) hJ hp
  have e : ∀ s t : Fin d → Fin d → ℂ, (∑ m, ∑ n, p * s m n * c m n * t n m)
      = ∑ m, ∑ n, p * (s m n * t n m) * c m n := by
    intro s t
    refine Finset.sum_congr rfl fun m _ => Finset.sum_congr rfl fun n _ => ?_
    ring
  rw [e s t, e s' t']
  exact key

/-- the telescoping identity in the shape produced by the loop (`Fin`-indexed segments) -/
theorem ff_telescope_fin (nG : ℕ) (S1 S2 z y : Fin nG → ℂ)
    (hseg : ∀ g, S1 g + (starRingEnd ℂ) (S2 g) = (starRingEnd ℂ) (z g) * y g) :
    (∑ g : Fin nG, (S1 g + (starRingEnd ℂ) (z g)
          * ∑ g' : Fin g.1, y ⟨g'.1, Nat.lt_trans g'.2 g.2⟩))
      + (starRingEnd ℂ) (∑ g : Fin nG, (S2 g + (starRingEnd ℂ) (y g)
          * ∑ g' : Fin g.1, z ⟨g'.1, Nat.lt_trans g'.2 g.2⟩))
      = (starRingEnd ℂ) (∑ g, z g) * ∑ g, y g := by
  let X : ℕ → ℂ := fun n => if h : n < nG then (starRingEnd ℂ) (z ⟨n, h⟩) else 0
  let Y : ℕ → ℂ := fun n => if h : n < nG then y ⟨n, h⟩ else 0
  have hX : ∀ g : Fin nG, (starRingEnd ℂ) (z g) = X g.1 := by
    intro g; simp only [X, dif_pos g.2]
  have hY : ∀ g : Fin nG, y g = Y g.1 := by
    intro g; simp only [Y, dif_pos g.2]
  have hXs : ∀ g : Fin nG,
      (∑ g' : Fin g.1, (starRingEnd ℂ) (z ⟨g'.1, Nat.lt_trans g'.2 g.2⟩))
        = ∑ g' ∈ range g.1, X g' := by
    intro g
    rw [← Fin.sum_univ_eq_sum_range]
    exact Finset.sum_congr rfl fun g' _ => hX ⟨g'.1, Nat.lt_trans g'.2 g.2⟩
  have hYs : ∀ g : Fin nG, (∑ g' : Fin g.1, y ⟨g'.1, Nat.lt_trans g'.2 g.2⟩)
        = ∑ g' ∈ range g.1, Y g' := by
    intro g
    rw [← Fin.sum_univ_eq_sum_range]
    exact Finset.sum_congr rfl fun g' _ => hY ⟨g'.1, Nat.lt_trans g'.2 g.2⟩
  rw [map_sum, ← Finset.sum_add_distrib]
  have hterm : ∀ g : Fin nG,
      (S1 g + (starRingEnd ℂ) (z g) * ∑ g' : Fin g.1, y ⟨g'.1, Nat.lt_trans g'.2 g.2⟩)
        + (starRingEnd ℂ) (S2 g + (starRingEnd ℂ) (y g)
            * ∑ g' : Fin g.1, z ⟨g'.1, Nat.lt_trans g'.2 g.2⟩)
      = (fun n : ℕ => X n * (∑ g' ∈ range n, Y g') + Y n * (∑ g' ∈ range n, X g') + X n * Y n)
          g.1 := by
    intro g
    rw [map_add, map_mul, map_sum, Complex.conj_conj, hXs g, hYs g]
    have h1 := hseg g
    rw [hX g, hY g] at h1
    rw [hX g, hY g]
    linear_combination h1
  rw [Finset.sum_congr rfl fun g _ => hterm g, Fin.sum_univ_eq_sum_range
    (fun n : ℕ => X n * (∑ g' ∈ range n, Y g') + Y n * (∑ g' ∈ range n, X g') + X n * Y n) nG]
  have hXt : (starRingEnd ℂ) (∑ g : Fin nG, z g) = ∑ g ∈ range nG, X g := by
    rw [map_sum, ← Fin.sum_univ_eq_sum_range]
    exact Finset.sum_congr rfl fun g _ => hX g
  have hYt : (∑ g : Fin nG, y g) = ∑ g ∈ range nG, Y g := by
    rw [← Fin.sum_univ_eq_sum_range]
    exact Finset.sum_congr rfl fun g _ => hY g
  rw [hXt, hYt, ← cumulative_telescope X Y nG, Finset.sum_add_distrib, Finset.sum_add_distrib]

/-! ### entry-wise unfolding of the model of the assembly loop -/

theorem vec_ofFn_get {K : Type} {n : Nat} (F : Fin n → K) (i : Fin n) : (Vector.ofFn F)[i] = F i := by
  simp only [Fin.getElem_fin, Vector.getElem_ofFn]

theorem einsum0_entry {n_o n_i n_j n_m n_n n_a n_k n_b n_l : Nat}
    (x0 : (Vector (Vector (Vector (Vector (Vector ℂ n_n) n_m) n_j) n_i) n_o))
    (x1 : (Vector (Vector (Vector (Vector ℂ n_j) n_i) n_k) n_a))
    (x2 : (Vector (Vector (Vector (Vector ℂ n_n) n_m) n_l) n_b))
    (a : Fin n_a) (b : Fin n_b) (k : Fin n_k) (l : Fin n_l) (o : Fin n_o) :
    (Gen.numeric_calculate_second_order_filter_function_0 x0 x1 x2)[a][b][k][l][o]
      = ∑ i : Fin n_i, ∑ j : Fin n_j, ∑ m : Fin n_m, ∑ n : Fin n_n,
          x0[o][i][j][m][n] * x1[a][k][i][j] * x2[b][l][m][n] := by
  simp only [Gen.numeric_calculate_second_order_filter_function_0, fsum_eq_sum, Fin.getElem_fin,
    Vector.getElem_ofFn]

theorem einsum1_entry {n_a n_k n_l n_i : Nat}
    (x0 : (Vector (Vector (Vector ℂ n_l) n_k) n_a)) (x1 : (Vector (Vector (Vector ℂ n_k) n_l) n_i))
    (a : Fin n_a) (i : Fin n_i) (k : Fin n_k) (l : Fin n_l) :
    (Gen.numeric_calculate_second_order_filter_function_1 x0 x1)[a][i][k][l]
      = x0[a][k][l] * x1[i][l][k] := by
  simp only [Gen.numeric_calculate_second_order_filter_function_1, Fin.getElem_fin,
    Vector.getElem_ofFn]

theorem einsum2_entry {n_a n_k n_o n_b n_l : Nat}
    (x0 : (Vector (Vector (Vector ℂ n_o) n_k) n_a)) (x1 : (Vector (Vector (Vector ℂ n_o) n_l) n_b))
    (a : Fin n_a) (b : Fin n_b) (k : Fin n_k) (l : Fin n_l) (o : Fin n_o) :
    (Gen.numeric_calculate_second_order_filter_function_2 x0 x1)[a][b][k][l][o]
      = x0[a][k][o] * x1[b][l][o] := by
  simp only [Gen.numeric_calculate_second_order_filter_function_2, Fin.getElem_fin,
    Vector.getElem_ofFn]

theorem secondOrderStep_get {d nO nA nK : ℕ} (I2 : Vector (Ten4 ℂ d d d d) nO) (nT : Ten3 ℂ nA d d)
    (bT : Ten3 ℂ nK d d) (a b : Fin nA) (k l : Fin nK) (o : Fin nO) :
    (secondOrderStep I2 nT bT)[a][b][k][l][o]
      = ∑ i : Fin d, ∑ j : Fin d, ∑ m : Fin d, ∑ n : Fin d,
          I2[o][i][j][m][n] * (nT[a][i][j] * bT[k][j][i]) * (nT[b][m][n] * bT[l][n][m]) := by
  unfold secondOrderStep
  rw [einsum0_entry]
  refine Finset.sum_congr rfl fun i _ => Finset.sum_congr rfl fun j _ =>
    Finset.sum_congr rfl fun m _ => Finset.sum_congr rfl fun n _ => ?_
  rw [einsum1_entry, einsum1_entry]

theorem conj_map_get {nA nK nO : ℕ} (x : Ten3 ℂ nA nK nO) (a : Fin nA) (k : Fin nK) (o : Fin nO) :
    (Vector.map (Vector.map (Vector.map (CplxOps.conj (K := ℂ)))) x)[a][k][o]
      = (starRingEnd ℂ) x[a][k][o] := by
  simp only [Fin.getElem_fin, Vector.getElem_map, copsConj]

theorem ctrlmatCumulative_get {nG nO nA nK : ℕ} (cm : Vector (Ten3 ℂ nA nK nO) nG) (g : Fin nG)
    (b : Fin nA) (l : Fin nK) (o : Fin nO) :
    (ctrlmatCumulative cm g)[b][l][o]
      = ∑ g' : Fin g.1, (cm[g'.1]'(Nat.lt_trans g'.2 g.2))[b][l][o] := by
  unfold ctrlmatCumulative
  rw [vec_ofFn_get, vec_ofFn_get, vec_ofFn_get, fsum_eq_sum]

theorem secondOrderCross_get {nG nO nA nK : ℕ} (cm : Vector (Ten3 ℂ nA nK nO) nG) (g : Fin nG)
    (a b : Fin nA) (k l : Fin nK) (o : Fin nO) :
    (secondOrderCross cm g)[a][b][k][l][o]
      = (starRingEnd ℂ) (cm[g][a][k][o])
        * ∑ g' : Fin g.1, (cm[g'.1]'(Nat.lt_trans g'.2 g.2))[b][l][o] := by
  unfold secondOrderCross
  rw [einsum2_entry, conj_map_get, ctrlmatCumulative_get]

theorem foldl_step_cross (n : ℕ) (s c : Fin n → ℂ) (hc0 : ∀ g : Fin n, g.1 = 0 → c g = 0) :
    Fin.foldl n (fun acc g => if 0 < g.1 then acc + s g + c g else acc + s g) 0
      = ∑ g, (s g + c g) := by
  have h : (fun (acc : ℂ) (g : Fin n) => if 0 < g.1 then acc + s g + c g else acc + s g)
      = fun acc g => acc + (s g + c g) := by
    funext acc g
    split_ifs with h
    · ring
    · rw [hc0 g (by omega)]; ring
  rw [h]
  exact fsum_eq_sum n _

theorem secondOrderFF_get {nG d nO nA nK : ℕ} (ints : Vector (Vector (Ten4 ℂ d d d d) nO) nG)
    (nT : Vector (Ten3 ℂ nA d d) nG) (bT : Vector (Ten3 ℂ nK d d) nG)
    (cm : Vector (Ten3 ℂ nA nK nO) nG) (a b : Fin nA) (k l : Fin nK) (o : Fin nO) :
    (secondOrderFF ints nT bT cm)[a][b][k][l][o]
      = ∑ g, ((secondOrderStep ints[g] nT[g] bT[g])[a][b][k][l][o]
          + (secondOrderCross cm g)[a][b][k][l][o]) := by
  unfold secondOrderFF
  rw [vec_ofFn_get, vec_ofFn_get, vec_ofFn_get, vec_ofFn_get, vec_ofFn_get]
  have h := foldl_step_cross nG
    (fun g => (secondOrderStep ints[g] nT[g] bT[g])[a][b][k][l][o])
    (fun g => (secondOrderCross cm g)[a][b][k][l][o]) (by
      intro g hg
      have he : IsEmpty (Fin g.1) := by rw [hg]; infer_instance
      rw [secondOrderCross_get, Finset.univ_eq_empty, Finset.sum_empty, mul_zero])
  rw [← h]
  congr 1
  funext acc g
  rw [vec_ofFn_get, vec_ofFn_get]
theorem secondOrderIntegral_get {nO d : ℕ} (E : Vec ℝ nO) (ev : Vec ℝ d) (dt : ℝ)
    (o : Fin nO) (i j m n : Fin d) :
    (secondOrderIntegral E ev dt : Vector (Ten4 ℂ d d d d) nO)[o][i][j][m][n]
      = secondOrderEntry E[o] (ev[i] - ev[j]) (ev[m] - ev[n]) dt := by
  simp only [secondOrderIntegral, Fin.getElem_fin, Vector.getElem_ofFn]

end FFVerif.SecondOrderAsm
