/-
Helper lemmas for `FFVerif.Props.C17Bridge`: the bridge between the discrete model of pulse
equality (`Model/Pulse.lean`, `Lemmas/PulseAux.lean`) and the numeric models (`Model/Diag.lean`,
`Model/Numeric.lean`).

Route: every numeric output of a pulse (cumulative / total propagators, the time-domain integral of
the control matrix) is a left fold of a "segment step" over the list of segments
`(segment value, duration)`; a step over a duration `a + b` is the step over `a` followed by the step
over `b` (same segment value), a step of duration `0` does nothing.  Hence the fold over the
segments is the fold over the unit-step unrolling `unrollPulse`, and pulses with the same
unrolling have the same outputs.
-/
import Mathlib.Analysis.Normed.Algebra.MatrixExponential
import Mathlib.Analysis.Matrix.Spectrum
import Mathlib.MeasureTheory.Integral.IntervalIntegral.Basic
import FFVerif.Lemmas.PulseAux
import FFVerif.Props.C01Unique

namespace FFVerif.C17BridgeAux
open FFVerif FFVerif.Model FFVerif.Model.Pulse FFVerif.C02 FFVerif.PropInvAux Matrix Complex
  MeasureTheory intervalIntegral

/-! ### 1. folds over segments and over the unit-step unrolling -/

section Fold
variable {σ β : Type}

/-- the fold over `n` unit steps with the same value is one step of duration `n` -/
theorem foldl_replicate_unit (step : σ → β × Int → σ)
    (hzero : ∀ s v, step s (v, 0) = s)
    (hadd : ∀ s v (a b : Int), 0 ≤ a → 0 ≤ b → step (step s (v, a)) (v, b) = step s (v, a + b))
    (v : β) (n : Nat) (s : σ) :
    ((List.replicate n v).map fun x => (x, (1 : Int))).foldl step s = step s (v, (n : Int)) := by
  induction n generalizing s with
  | zero => simp [hzero]
  | succ n ih =>
    rw [List.replicate_succ, List.map_cons, List.foldl_cons, ih, hadd _ _ _ _ (by omega) (by omega)]
    congr 2
    push_cast
    omega

/-- **fold over segments = fold over the unit-step unrolling** (durations `≥ 0`) -/
theorem foldl_zip_eq_unroll (step : σ → β × Int → σ)
    (hzero : ∀ s v, step s (v, 0) = s)
    (hadd : ∀ s v (a b : Int), 0 ≤ a → 0 ≤ b → step (step s (v, a)) (v, b) = step s (v, a + b))
    (V : List β) (ds : List Int) (hd : ∀ d ∈ ds, 0 ≤ d) (s : σ) :
    (V.zip ds).foldl step s = ((unroll V ds).map fun x => (x, (1 : Int))).foldl step s := by
  induction V generalizing ds s with
  | nil => simp
  | cons v r ih =>
    cases ds with
    | nil => simp
    | cons d ds =>
      have hd0 := hd d (List.mem_cons_self ..)
      rw [List.zip_cons_cons, List.foldl_cons, unroll_cons, List.map_append, List.foldl_append,
        foldl_replicate_unit step hzero hadd, Int.toNat_of_nonneg hd0]
      exact ih ds (fun x hx => hd x (List.mem_cons_of_mem _ hx)) _

omit σ in
theorem length_unroll (V : List β) (ds : List Int) (hl : V.length = ds.length)
    (hd : ∀ d ∈ ds, 0 ≤ d) : ((unroll V ds).length : Int) = ds.sum := by
  induction V generalizing ds with
  | nil =>
    have : ds = [] := List.eq_nil_of_length_eq_zero hl.symm
    subst this; simp
  | cons v r ih =>
    match ds, hl with
    | d :: ds, hl =>
      have hd0 := hd d (List.mem_cons_self ..)
      rw [unroll_cons, List.length_append, List.length_replicate, List.sum_cons]
      push_cast
      rw [ih ds (by simpa using hl) (fun x hx => hd x (List.mem_cons_of_mem _ hx)),
        Int.toNat_of_nonneg hd0]

omit σ in
/-- the unrolling of the first `i` segments is the prefix of the unrolling that ends at the edge
time `dt[0] + … + dt[i-1]` -/
theorem unroll_take (V : List β) (ds : List Int) (hl : V.length = ds.length)
    (hd : ∀ d ∈ ds, 0 ≤ d) (i : Nat) :
    unroll (V.take i) (ds.take i) = (unroll V ds).take ((ds.take i).sum.toNat) := by
  have hsplit : unroll V ds = unroll (V.take i) (ds.take i) ++ unroll (V.drop i) (ds.drop i) := by
    unfold unroll
    rw [← List.flatMap_append, ← List.zip_append (by simp [hl]), List.take_append_drop,
      List.take_append_drop]
  have hlen := length_unroll (V.take i) (ds.take i) (by simp [hl])
    (fun x hx => hd x (List.mem_of_mem_take hx))
  conv_rhs => rw [hsplit]
  rw [← hlen, Int.toNat_natCast, List.take_left']
  rfl

end Fold

/-! ### 2. `exp(-i s H)` is continuous in `s`; the segment integral and its splitting -/

section SegInt
variable {d : Nat}

set_option backward.isDefEq.respectTransparency false in
theorem continuous_expSeg (H : Matrix (Fin d) (Fin d) ℂ) : Continuous fun s : ℝ => expSeg H s := by
  unfold expSeg
  open scoped Norms.Operator in
  exact NormedSpace.exp_continuous.comp (by fun_prop)

/-- `exp(-i(s+a)H) = exp(-isH) exp(-iaH)` -/
theorem expSeg_add' (H : Matrix (Fin d) (Fin d) ℂ) (s a : ℝ) :
    expSeg H (s + a) = expSeg H s * expSeg H a := expSeg_add H s a

/-- the time-domain integrand of one control-matrix entry on a segment with Hamiltonian `H` that
starts at time `t0` with the cumulative propagator `Q` (noise operator `B`, basis element `C`,
sensitivity `c`), in the local time `s`: `e^{iω(t0+s)} c tr(U(s)† B U(s) C)`, `U(s) = exp(-isH) Q`.
No eigen-data. -/
noncomputable def segF (B C : Matrix (Fin d) (Fin d) ℂ) (ω : ℝ) (H Q : Matrix (Fin d) (Fin d) ℂ)
    (t0 c : ℝ) (s : ℝ) : ℂ :=
  Complex.exp (Complex.I * ((ω : ℂ) * ((t0 + s : ℝ) : ℂ))) * (c : ℂ) *
    Matrix.trace ((expSeg H s * Q)ᴴ * B * (expSeg H s * Q) * C)

theorem continuous_segF (B C : Matrix (Fin d) (Fin d) ℂ) (ω : ℝ) (H Q : Matrix (Fin d) (Fin d) ℂ)
    (t0 c : ℝ) : Continuous (segF B C ω H Q t0 c) := by
  have hE := continuous_expSeg H
  unfold segF
  refine Continuous.mul (Continuous.mul (by fun_prop) continuous_const) ?_
  have hU : Continuous fun s : ℝ => expSeg H s * Q := hE.matrix_mul continuous_const
  have h1 : Continuous fun s : ℝ => (expSeg H s * Q)ᴴ := hU.matrix_conjTranspose
  exact Continuous.matrix_trace
    (((h1.matrix_mul continuous_const).matrix_mul hU).matrix_mul continuous_const)

/-- the segment integral `∫₀^τ e^{iω(t0+s)} c tr(U(s)† B U(s) C) ds` -/
noncomputable def segInt (B C : Matrix (Fin d) (Fin d) ℂ) (ω : ℝ) (H Q : Matrix (Fin d) (Fin d) ℂ)
    (t0 c τ : ℝ) : ℂ := ∫ s in (0:ℝ)..τ, segF B C ω H Q t0 c s

theorem segInt_zero (B C : Matrix (Fin d) (Fin d) ℂ) (ω : ℝ) (H Q : Matrix (Fin d) (Fin d) ℂ)
    (t0 c : ℝ) : segInt B C ω H Q t0 c 0 = 0 := by
  unfold segInt; exact intervalIntegral.integral_same

/-- **splitting a segment integral**: the integral over `a + b` is the integral over `a` plus the
integral over `b` of the segment that starts at `t0 + a` with the propagator `exp(-iaH) Q`
(`a`, `b` of any sign) -/
theorem segInt_add (B C : Matrix (Fin d) (Fin d) ℂ) (ω : ℝ) (H Q : Matrix (Fin d) (Fin d) ℂ)
    (t0 c a b : ℝ) :
    segInt B C ω H Q t0 c (a + b)
      = segInt B C ω H Q t0 c a + segInt B C ω H (expSeg H a * Q) (t0 + a) c b := by
  have hshift : ∀ s : ℝ, segF B C ω H (expSeg H a * Q) (t0 + a) c s = segF B C ω H Q t0 c (s + a) := by
    intro s
    unfold segF
    have e : t0 + a + s = t0 + (s + a) := by ring
    rw [expSeg_add' H s a, e]
    simp only [Matrix.mul_assoc]
  unfold segInt
  simp only [hshift]
  rw [intervalIntegral.integral_comp_add_right (fun s => segF B C ω H Q t0 c s) a, zero_add,
    add_comm b a]
  exact (intervalIntegral.integral_add_adjacent_intervals
    ((continuous_segF B C ω H Q t0 c).intervalIntegrable _ _)
    ((continuous_segF B C ω H Q t0 c).intervalIntegrable _ _)).symm

end SegInt

/-! ### 3. interpretation of an abstract pulse as numeric data -/

/-- **Assignment of numeric data to the tokens of the discrete model** `Model/Pulse.lean`:
a `d × d` matrix for every operator token, a real value for every (integer) coefficient entry, and
the duration `unit` of one time step — the integer durations `n` of the model stand for the real
durations `unit · n` (durations must be interpreted ADDITIVELY because `_join_equal_segments` adds
them; coefficient entries are only ever compared, so any map `cv` will do). -/
structure Interp (d : Nat) where
  op : Nat → Mat ℂ d d
  cv : Int → ℝ
  unit : ℝ

section Interp
variable {d : Nat} (I : Interp d)

/-- `pulse.c_opers` (in the stored order of the pulse) -/
def cOpersOf (p : PulseData) : Ten3 ℂ p.cTerms.length d d :=
  Vector.ofFn fun i => I.op (p.cTerms[i.1]).op

/-- `pulse.c_coeffs` -/
def cCoeffsOf (p : PulseData) : Mat ℝ p.cTerms.length p.dt.length :=
  Mat.ofFn fun i g => I.cv ((p.cTerms[i.1]).coeffs.getD g.1 0)

/-- `pulse.n_opers` (in the stored order of the pulse) -/
def nOpersOf (p : PulseData) : Vector (Mat ℂ d d) p.nTerms.length :=
  Vector.ofFn fun i => I.op (p.nTerms[i.1]).op

/-- `pulse.n_coeffs` -/
def nCoeffsOf (p : PulseData) : Mat ℝ p.nTerms.length p.dt.length :=
  Mat.ofFn fun i g => I.cv ((p.nTerms[i.1]).coeffs.getD g.1 0)

/-- `pulse.dt` -/
def dtOf (p : PulseData) : Vec ℝ p.dt.length :=
  Vector.ofFn fun g => I.unit * ((p.dt[g.1] : Int) : ℝ)

/-- the control Hamiltonian on segment `g`: `Σ_terms cv(coeff_g) · op` -/
noncomputable def Hterms (ts : List Term) (g : Nat) : Matrix (Fin d) (Fin d) ℂ :=
  (ts.map fun t => ((I.cv (t.coeffs.getD g 0) : ℝ) : ℂ) • (I.op t.op).toMatrix).sum

/-- the control Hamiltonian as a function of the operator tokens and of the column of coefficient
entries of a segment -/
noncomputable def Hval (ops : List Nat) (col : List Int) : Matrix (Fin d) (Fin d) ℂ :=
  (List.zipWith (fun o c => ((I.cv c : ℝ) : ℂ) • (I.op o).toMatrix) ops col).sum

/-- the operator tokens of the control Hamiltonian in identifier order -/
def sortedOps (p : PulseData) : List Nat := (sortBy (·.id) p.cTerms).map (·.op)

theorem hamiltonian_eq_Hterms (p : PulseData) (g : Nat) (hg : g < p.dt.length) :
    Mat.toMatrix (hamiltonian (cOpersOf I p) (cCoeffsOf I p))[g] = Hterms I p.cTerms g := by
  rw [hamiltonian_entries]
  unfold Hterms
  rw [← Fin.sum_univ_fun_getElem p.cTerms
    (fun t => ((I.cv (t.coeffs.getD g 0) : ℝ) : ℂ) • (I.op t.op).toMatrix)]
  refine Finset.sum_congr rfl fun i _ => ?_
  simp only [cOpersOf, cCoeffsOf, Fin.getElem_fin, Vector.getElem_ofFn, Mat.ofFn_getElem]

theorem Hterms_perm {ts us : List Term} (h : ts.Perm us) (g : Nat) :
    Hterms I ts g = Hterms I us g := (h.map _).sum_eq

theorem Hterms_eq_Hval (ts : List Term) (g : Nat) :
    Hterms I ts g = Hval I (ts.map (·.op)) (colAt (ts.map (·.coeffs)) g) := by
  unfold Hterms Hval colAt
  induction ts with
  | nil => rfl
  | cons t ts ih =>
    simp only [List.map_cons, List.zipWith_cons_cons, List.sum_cons] at ih ⊢
    rw [ih]

/-- the Hamiltonian of segment `g` in the stored order is the function `Hval` of the identifier-
sorted operator tokens and of the segment value of the identifier-sorted pulse -/
theorem Hterms_eq_Hval_sorted (p : PulseData) (g : Nat) :
    Hterms I p.cTerms g = Hval I (sortedOps p) (segVal (sortedP p) g).1 := by
  rw [Hterms_perm I (sortBy_perm (·.id) p.cTerms).symm g, Hterms_eq_Hval]
  rfl

/-! ### 4. propagators as a fold -/

/-- one segment step of the cumulative propagator: `Q ↦ exp(-i (unit·n) H(v)) Q` -/
noncomputable def pstep (K : List Nat) (Q : Matrix (Fin d) (Fin d) ℂ)
    (x : (List Int × List Int) × Int) : Matrix (Fin d) (Fin d) ℂ :=
  expSeg (Hval I K x.1.1) (I.unit * ((x.2 : Int) : ℝ)) * Q

theorem pstep_zero (K : List Nat) (Q : Matrix (Fin d) (Fin d) ℂ) (v : List Int × List Int) :
    pstep I K Q (v, 0) = Q := by
  simp [pstep, expSeg_zero]

theorem pstep_add (K : List Nat) (Q : Matrix (Fin d) (Fin d) ℂ) (v : List Int × List Int)
    (a b : Int) : pstep I K (pstep I K Q (v, a)) (v, b) = pstep I K Q (v, a + b) := by
  simp only [pstep]
  rw [← Matrix.mul_assoc, ← expSeg_add]
  congr 2
  push_cast
  ring

/-- the segments `(value, duration)` of the identifier-sorted pulse -/
def segsOf (p : PulseData) : List ((List Int × List Int) × Int) := (segVals (sortedP p)).zip p.dt

theorem length_segsOf (p : PulseData) : (segsOf p).length = p.dt.length := by
  unfold segsOf
  rw [List.length_zip, length_segVals]
  exact Nat.min_self _

theorem segsOf_getElem (p : PulseData) (g : Nat) (hg : g < p.dt.length) :
    (segsOf p)[g]'(by rw [length_segsOf]; exact hg) = (segVal (sortedP p) g, p.dt[g]) := by
  unfold segsOf segVals
  rw [List.getElem_zip, List.getElem_map, List.getElem_range]

theorem dtOf_getElem (p : PulseData) (g : Nat) (hg : g < p.dt.length) :
    (dtOf I p)[g] = I.unit * ((p.dt[g] : Int) : ℝ) := by
  simp only [dtOf, Vector.getElem_ofFn]

/-- **the `k`-th cumulative propagator of the model of `diagonalize` is the fold of the segment
steps over the first `k` segments** — for any output of `eigh` satisfying the contract -/
theorem propagators_eq_foldl (p : PulseData)
    (eigvals : Mat ℝ p.dt.length d) (eigvecs : Vector (Mat ℂ d d) p.dt.length)
    (hE : ∀ g : Fin p.dt.length,
      IsEigh (Mat.toMatrix (hamiltonian (cOpersOf I p) (cCoeffsOf I p))[g.1])
        (fun j => eigvals[g.1][j]) eigvecs[g.1].toMatrix)
    (k : Nat) (hk : k ≤ p.dt.length) :
    (propagators eigvals eigvecs (dtOf I p))[k].toMatrix
      = ((segsOf p).take k).foldl (pstep I (sortedOps p)) 1 := by
  induction k with
  | zero => rw [propagators_zero]; rfl
  | succ k ih =>
    have hk' : k < p.dt.length := hk
    rw [propagators_step_exp eigvals eigvecs (dtOf I p) _ k hk' (hE ⟨k, hk'⟩),
      ih (Nat.le_of_succ_le hk),
      List.take_succ_eq_append_getElem (by rw [length_segsOf]; exact hk'), List.foldl_append,
      segsOf_getElem p k hk', List.foldl_cons, List.foldl_nil, hamiltonian_eq_Hterms I p k hk',
      Hterms_eq_Hval_sorted, dtOf_getElem]
    rfl

/-- the propagator after the unit steps `u` (operator tokens `K`) -/
noncomputable def propSem (K : List Nat) (u : List (List Int × List Int)) :
    Matrix (Fin d) (Fin d) ℂ :=
  (u.map fun x => (x, (1 : Int))).foldl (pstep I K) 1

theorem take_segsOf (p : PulseData) (k : Nat) :
    (segsOf p).take k = ((segVals (sortedP p)).take k).zip (p.dt.take k) := by
  unfold segsOf
  simp only [List.zip, List.take_zipWith]

/-- **cumulative propagators in terms of the unit-step unrolling**: the `k`-th cumulative
propagator is the propagator after the first `dt[0] + … + dt[k-1]` unit steps of
`unrollPulse (sortedP p)` -/
theorem propagators_eq_propSem (p : PulseData) (hnn : ∀ x ∈ p.dt, 0 ≤ x)
    (eigvals : Mat ℝ p.dt.length d) (eigvecs : Vector (Mat ℂ d d) p.dt.length)
    (hE : ∀ g : Fin p.dt.length,
      IsEigh (Mat.toMatrix (hamiltonian (cOpersOf I p) (cCoeffsOf I p))[g.1])
        (fun j => eigvals[g.1][j]) eigvecs[g.1].toMatrix)
    (k : Nat) (hk : k ≤ p.dt.length) :
    (propagators eigvals eigvecs (dtOf I p))[k].toMatrix
      = propSem I (sortedOps p) ((unrollPulse (sortedP p)).take ((p.dt.take k).sum.toNat)) := by
  rw [propagators_eq_foldl I p eigvals eigvecs hE k hk, take_segsOf,
    foldl_zip_eq_unroll _ (fun s v => pstep_zero I _ s v) (fun s v a b _ _ => pstep_add I _ s v a b)
      _ _ (fun x hx => hnn x (List.mem_of_mem_take hx)),
    unroll_take (segVals (sortedP p)) p.dt (length_segVals (sortedP p)) hnn k]
  rfl

end Interp

/-! ### 5. "the same piecewise constant functions" -/

/-- Two pulses describe the same piecewise constant control and noise Hamiltonians on the same
basis: same basis token, same `(operator, identifier)` lists in identifier order, same unit-step
unrolling of the identifier-sorted coefficient tables.  This is what `pulseEq A B = true` implies
(`C17.eq_implies_same_function`; equivalent to it for positive durations,
`C17.eq_iff_same_function`); it also holds for pulses that differ by zero-length segments, which
`__eq__` does not identify. -/
def SameFunction (A B : PulseData) : Prop :=
  A.basis = B.basis ∧
  opIds (sortBy (·.id) A.cTerms) = opIds (sortBy (·.id) B.cTerms) ∧
  opIds (sortBy (·.id) A.nTerms) = opIds (sortBy (·.id) B.nTerms) ∧
  unrollPulse (sortedP A) = unrollPulse (sortedP B)

theorem sortedOps_eq (p : PulseData) :
    sortedOps p = (opIds (sortBy (·.id) p.cTerms)).map (·.1) := by
  simp [sortedOps, opIds, List.map_map, Function.comp_def]

theorem SameFunction.sortedOps {A B : PulseData} (h : SameFunction A B) :
    sortedOps A = sortedOps B := by
  rw [sortedOps_eq, sortedOps_eq, h.2.1]

theorem length_unrollPulse_sorted (p : PulseData) (hnn : ∀ x ∈ p.dt, 0 ≤ x) :
    ((unrollPulse (sortedP p)).length : Int) = p.dt.sum :=
  length_unroll (segVals (sortedP p)) p.dt (length_segVals (sortedP p)) hnn

theorem SameFunction.total_duration {A B : PulseData} (h : SameFunction A B)
    (pA : ∀ x ∈ A.dt, 0 ≤ x) (pB : ∀ x ∈ B.dt, 0 ≤ x) : A.dt.sum = B.dt.sum := by
  rw [← length_unrollPulse_sorted A pA, ← length_unrollPulse_sorted B pB, h.2.2.2]

/-! ### 6. the control-matrix integral as a fold -/

section CM
variable {d : Nat} (I : Interp d)

/-- one segment step of the control-matrix integral; state `(t, Q, acc)` = (start time of the
segment, cumulative propagator before it, integral accumulated so far); `j` is the position of the
noise operator in identifier order (its sensitivity on a segment with value `v` is `cv (v.2[j])`) -/
noncomputable def cmstep (K : List Nat) (B C : Matrix (Fin d) (Fin d) ℂ) (ω : ℝ) (j : Nat)
    (s : ℝ × Matrix (Fin d) (Fin d) ℂ × ℂ) (x : (List Int × List Int) × Int) :
    ℝ × Matrix (Fin d) (Fin d) ℂ × ℂ :=
  (s.1 + I.unit * ((x.2 : Int) : ℝ),
   expSeg (Hval I K x.1.1) (I.unit * ((x.2 : Int) : ℝ)) * s.2.1,
   s.2.2 + segInt B C ω (Hval I K x.1.1) s.2.1 s.1 (I.cv (x.1.2.getD j 0))
     (I.unit * ((x.2 : Int) : ℝ)))

theorem cmstep_zero (K : List Nat) (B C : Matrix (Fin d) (Fin d) ℂ) (ω : ℝ) (j : Nat)
    (s : ℝ × Matrix (Fin d) (Fin d) ℂ × ℂ) (v : List Int × List Int) :
    cmstep I K B C ω j s (v, 0) = s := by
  simp [cmstep, expSeg_zero, segInt_zero]

theorem cmstep_add (K : List Nat) (B C : Matrix (Fin d) (Fin d) ℂ) (ω : ℝ) (j : Nat)
    (s : ℝ × Matrix (Fin d) (Fin d) ℂ × ℂ) (v : List Int × List Int) (a b : Int) :
    cmstep I K B C ω j (cmstep I K B C ω j s (v, a)) (v, b) = cmstep I K B C ω j s (v, a + b) := by
  have e : I.unit * ((a + b : Int) : ℝ) = I.unit * (a : ℝ) + I.unit * (b : ℝ) := by
    push_cast; ring
  simp only [cmstep, e]
  refine Prod.ext (add_assoc _ _ _) (Prod.ext ?_ ?_)
  · simp only
    rw [← Matrix.mul_assoc, ← expSeg_add, add_comm]
  · simp only
    rw [segInt_add, add_assoc]

/-- the control-matrix integral over the unit steps `u` -/
noncomputable def cmSem (K : List Nat) (B C : Matrix (Fin d) (Fin d) ℂ) (ω : ℝ) (j : Nat)
    (u : List (List Int × List Int)) : ℂ :=
  ((u.map fun x => (x, (1 : Int))).foldl (cmstep I K B C ω j) (0, 1, 0)).2.2

/-- `propagators[:-1]`, the argument `propagators` of `calculate_control_matrix_from_scratch` as
`PulseSequence.get_control_matrix` passes it -/
noncomputable def propsOf {nG : Nat} (eigvals : Mat ℝ nG d) (eigvecs : Vector (Mat ℂ d d) nG) (dt : Vec ℝ nG) :
    Vector (Mat ℂ d d) nG :=
  Vector.ofFn fun g : Fin nG => (propagators eigvals eigvecs dt)[g.1]

/-- `t[:-1]`, the start times of the segments -/
noncomputable def startTimes {nG : Nat} (dt : Vec ℝ nG) : Vec ℝ nG := Vector.ofFn fun g : Fin nG => (times dt)[g.1]

theorem segVal_sorted_noise (p : PulseData) (j : Nat) (t : Term)
    (hj : (sortBy (·.id) p.nTerms)[j]? = some t) (g : Nat) :
    (segVal (sortedP p) g).2.getD j 0 = t.coeffs.getD g 0 := by
  simp [segVal, colAt, sortedP, List.getD, List.getElem?_map, hj]

/-- the fold of the control-matrix steps over the first `k` segments: time, cumulative propagator and
the sum of the segment integrals of the model -/
theorem cm_foldl_take (p : PulseData) (t : Term) (j : Nat)
    (hj : (sortBy (·.id) p.nTerms)[j]? = some t)
    (B C : Matrix (Fin d) (Fin d) ℂ) (ω : ℝ)
    (eigvals : Mat ℝ p.dt.length d) (eigvecs : Vector (Mat ℂ d d) p.dt.length)
    (hE : ∀ g : Fin p.dt.length,
      IsEigh (Mat.toMatrix (hamiltonian (cOpersOf I p) (cCoeffsOf I p))[g.1])
        (fun j => eigvals[g.1][j]) eigvecs[g.1].toMatrix)
    (k : Nat) (hk : k ≤ p.dt.length) :
    ((segsOf p).take k).foldl (cmstep I (sortedOps p) B C ω j) (0, 1, 0)
      = ((times (dtOf I p))[k], (propagators eigvals eigvecs (dtOf I p))[k].toMatrix,
          ∑ g ∈ Finset.range k, if h : g < p.dt.length then
            segInt B C ω (Mat.toMatrix (hamiltonian (cOpersOf I p) (cCoeffsOf I p))[g])
              (propagators eigvals eigvecs (dtOf I p))[g].toMatrix (times (dtOf I p))[g]
              (I.cv (t.coeffs.getD g 0)) (dtOf I p)[g] else 0) := by
  induction k with
  | zero =>
    rw [propagators_zero, times_zero]
    rfl
  | succ k ih =>
    have hk' : k < p.dt.length := hk
    rw [List.take_succ_eq_append_getElem (by rw [length_segsOf]; exact hk'), List.foldl_append,
      ih (Nat.le_of_succ_le hk), segsOf_getElem p k hk', List.foldl_cons, List.foldl_nil,
      Finset.sum_range_succ, dif_pos hk',
      propagators_step_exp eigvals eigvecs (dtOf I p) _ k hk' (hE ⟨k, hk'⟩),
      times_succ (dtOf I p) k hk', hamiltonian_eq_Hterms I p k hk', Hterms_eq_Hval_sorted,
      dtOf_getElem]
    simp only [cmstep, segVal_sorted_noise p j t hj k]

/-- **The time-domain integral of a control-matrix entry as a fold.**  The sum of the segment
integrals `Σ_g ∫₀^{dt_g} e^{iω(t_g+s)} s_a^{(g)} tr(U_g(s)† B_a U_g(s) C_k) ds` (the right-hand side of
`C01.cm_segment_form` / `C01.cm_segment_form_error`), written with ANY output of `eigh` satisfying
the contract, is the fold of the segment integrals over the segments of the pulse. -/
theorem cm_integral_eq_foldl {nO nK : Nat} (p : PulseData) (a : Fin p.nTerms.length) (j : Nat)
    (hj : (sortBy (·.id) p.nTerms)[j]? = some p.nTerms[a.1])
    (eigvals : Mat ℝ p.dt.length d) (eigvecs : Vector (Mat ℂ d d) p.dt.length)
    (hE : ∀ g : Fin p.dt.length,
      IsEigh (Mat.toMatrix (hamiltonian (cOpersOf I p) (cCoeffsOf I p))[g.1])
        (fun j => eigvals[g.1][j]) eigvecs[g.1].toMatrix)
    (omega : Vec ℝ nO) (basis : Vector (Mat ℂ d d) nK) (k : Fin nK) (o : Fin nO) :
    (∑ g : Fin p.dt.length, ∫ s in (0:ℝ)..(dtOf I p)[g],
        C01.segIntegrand (fun m => eigvals[g][m]) eigvecs[g].toMatrix
          (propsOf eigvals eigvecs (dtOf I p))[g].toMatrix (nOpersOf I p)[a].toMatrix
          basis[k].toMatrix omega[o] (startTimes (dtOf I p))[g] (nCoeffsOf I p)[a][g] s)
      = ((segsOf p).foldl (cmstep I (sortedOps p) (I.op (p.nTerms[a.1]).op).toMatrix
          basis[k].toMatrix omega[o] j) (0, 1, 0)).2.2 := by
  have hU : ∀ (g : Fin p.dt.length) (s : ℝ),
      C01.Useg (fun m => eigvals[g][m]) eigvecs[g].toMatrix
          (propsOf eigvals eigvecs (dtOf I p))[g].toMatrix s
        = expSeg (Mat.toMatrix (hamiltonian (cOpersOf I p) (cCoeffsOf I p))[g.1]) s
          * (propsOf eigvals eigvecs (dtOf I p))[g].toMatrix :=
    fun g s => C01.Useg_eq_exp (hE g) _ s
  simp only [C01.segIntegrand, hU]
  have hfold := cm_foldl_take I p p.nTerms[a.1] j hj (I.op (p.nTerms[a.1]).op).toMatrix
    basis[k].toMatrix omega[o] eigvals eigvecs hE p.dt.length (Nat.le_refl _)
  rw [List.take_of_length_le (by rw [length_segsOf])] at hfold
  rw [hfold, Finset.sum_range]
  refine Finset.sum_congr rfl fun g _ => ?_
  rw [dif_pos g.2]
  simp only [propsOf, startTimes, nOpersOf, nCoeffsOf, Fin.getElem_fin, Vector.getElem_ofFn,
    Mat.ofFn_getElem]
  rfl

/-- **Segment form of the model's control matrix as a fold** (exact branch of
`_first_order_integral` at the frequency considered; any guard shape, `thr ≥ 0`): the entry for the
noise operator `a` (position `j` in identifier order), basis element `k`, frequency `o` computed by
the model of `calculate_control_matrix_from_scratch` from ANY output of `eigh` satisfying the
contract is the fold of the segment integrals over the segments of the pulse. -/
theorem cm_eq_foldl {nO nK : Nat} (p : PulseData) (a : Fin p.nTerms.length) (j : Nat)
    (hj : (sortBy (·.id) p.nTerms)[j]? = some p.nTerms[a.1])
    (kind : MaskKind) (thr : ℝ) (hthr : 0 ≤ thr)
    (eigvals : Mat ℝ p.dt.length d) (eigvecs : Vector (Mat ℂ d d) p.dt.length)
    (hE : ∀ g : Fin p.dt.length,
      IsEigh (Mat.toMatrix (hamiltonian (cOpersOf I p) (cCoeffsOf I p))[g.1])
        (fun j => eigvals[g.1][j]) eigvecs[g.1].toMatrix)
    (omega : Vec ℝ nO) (basis : Vector (Mat ℂ d d) nK) (k : Fin nK) (o : Fin nO)
    (hmask : ∀ (g : Fin p.dt.length) (m n : Fin d),
      firstOrderMask kind thr (omega[o] + (eigvals[g][m] - eigvals[g][n])) (dtOf I p)[g] = true) :
    (controlMatrixFromScratch kind thr eigvals eigvecs (propsOf eigvals eigvecs (dtOf I p)) omega
        basis (nOpersOf I p) (nCoeffsOf I p) (dtOf I p) (startTimes (dtOf I p)))[a][k][o]
      = ((segsOf p).foldl (cmstep I (sortedOps p) (I.op (p.nTerms[a.1]).op).toMatrix
          basis[k].toMatrix omega[o] j) (0, 1, 0)).2.2 := by
  rw [C01.cm_segment_form kind thr hthr eigvals eigvecs _ omega basis _ _ _ _ a k o hmask]
  exact cm_integral_eq_foldl I p a j hj eigvals eigvecs hE omega basis k o

theorem foldl_segs_eq_cmSem (p : PulseData) (hnn : ∀ x ∈ p.dt, 0 ≤ x)
    (B C : Matrix (Fin d) (Fin d) ℂ) (ω : ℝ) (j : Nat) :
    ((segsOf p).foldl (cmstep I (sortedOps p) B C ω j) (0, 1, 0)).2.2
      = cmSem I (sortedOps p) B C ω j (unrollPulse (sortedP p)) := by
  unfold segsOf cmSem
  rw [foldl_zip_eq_unroll _ (fun s v => cmstep_zero I _ _ _ _ _ s v)
    (fun s v a b _ _ => cmstep_add I _ _ _ _ _ s v a b) _ _ hnn]
  rfl

/-- … and over the unit-step unrolling (durations `≥ 0`) -/
theorem cm_eq_cmSem {nO nK : Nat} (p : PulseData) (hnn : ∀ x ∈ p.dt, 0 ≤ x)
    (a : Fin p.nTerms.length) (j : Nat)
    (hj : (sortBy (·.id) p.nTerms)[j]? = some p.nTerms[a.1])
    (kind : MaskKind) (thr : ℝ) (hthr : 0 ≤ thr)
    (eigvals : Mat ℝ p.dt.length d) (eigvecs : Vector (Mat ℂ d d) p.dt.length)
    (hE : ∀ g : Fin p.dt.length,
      IsEigh (Mat.toMatrix (hamiltonian (cOpersOf I p) (cCoeffsOf I p))[g.1])
        (fun j => eigvals[g.1][j]) eigvecs[g.1].toMatrix)
    (omega : Vec ℝ nO) (basis : Vector (Mat ℂ d d) nK) (k : Fin nK) (o : Fin nO)
    (hmask : ∀ (g : Fin p.dt.length) (m n : Fin d),
      firstOrderMask kind thr (omega[o] + (eigvals[g][m] - eigvals[g][n])) (dtOf I p)[g] = true) :
    (controlMatrixFromScratch kind thr eigvals eigvecs (propsOf eigvals eigvecs (dtOf I p)) omega
        basis (nOpersOf I p) (nCoeffsOf I p) (dtOf I p) (startTimes (dtOf I p)))[a][k][o]
      = cmSem I (sortedOps p) (I.op (p.nTerms[a.1]).op).toMatrix basis[k].toMatrix omega[o] j
          (unrollPulse (sortedP p)) := by
  rw [cm_eq_foldl I p a j hj kind thr hthr eigvals eigvecs hE omega basis k o hmask]
  exact foldl_segs_eq_cmSem I p hnn _ _ _ _

end CM

/-! ### 7. matching the noise operators of two pulses -/

/-- noise operators of two pulses describing the same functions that carry the same identifier sit
at the same position `j` of the identifier order and are the same operator (identifiers of one
pulse pairwise distinct, as the constructor enforces) -/
theorem noise_row_match {A B : PulseData} (h : SameFunction A B)
    (hnd : (A.nTerms.map (·.id)).Nodup) (a : Fin A.nTerms.length) (a' : Fin B.nTerms.length)
    (hid : (A.nTerms[a.1]).id = (B.nTerms[a'.1]).id) :
    ∃ j : Nat, (sortBy (·.id) A.nTerms)[j]? = some A.nTerms[a.1] ∧
      (sortBy (·.id) B.nTerms)[j]? = some B.nTerms[a'.1] ∧
      (A.nTerms[a.1]).op = (B.nTerms[a'.1]).op := by
  obtain ⟨j, hj⟩ := List.mem_iff_getElem?.mp
    ((mem_sortBy (·.id)).mpr (List.getElem_mem a.2) : A.nTerms[a.1] ∈ sortBy (·.id) A.nTerms)
  obtain ⟨j', hj'⟩ := List.mem_iff_getElem?.mp
    ((mem_sortBy (·.id)).mpr (List.getElem_mem a'.2) : B.nTerms[a'.1] ∈ sortBy (·.id) B.nTerms)
  have hop : ((sortBy (·.id) A.nTerms).map fun t => (t.op, t.id))[j']?
      = ((sortBy (·.id) B.nTerms).map fun t => (t.op, t.id))[j']? := by
    have := h.2.2.1
    unfold opIds at this
    rw [this]
  rw [List.getElem?_map, List.getElem?_map, hj'] at hop
  cases hx : (sortBy (·.id) A.nTerms)[j']? with
  | none => rw [hx] at hop; simp at hop
  | some x =>
    rw [hx] at hop
    simp only [Option.map_some, Option.some.injEq, Prod.mk.injEq] at hop
    have hnd' : ((sortBy (·.id) A.nTerms).map (·.id)).Nodup :=
      ((sortBy_perm (·.id) A.nTerms).map (·.id)).nodup_iff.mpr hnd
    have hjlt : j < ((sortBy (·.id) A.nTerms).map (·.id)).length := by
      rw [List.length_map]
      exact (List.getElem?_eq_some_iff.mp hj).1
    have hjj : j = j' := by
      apply (List.getElem?_inj hjlt hnd').mp
      rw [List.getElem?_map, List.getElem?_map, hj, hx]
      simp only [Option.map_some, Option.some.injEq]
      rw [hop.2, hid]
    subst hjj
    rw [hj] at hx
    cases hx
    exact ⟨j, hj, hj', hop.1⟩

/-! ### 8. H(t) and s_a(t) on the unit-step grid; existence of `eigh` outputs -/

section Fun
variable {d : Nat} (I : Interp d)

/-- the control Hamiltonian during the unit step `n` (time `unit·n … unit·(n+1)`); `none` beyond the
end of the pulse -/
noncomputable def hamAtStep (p : PulseData) (n : Nat) : Option (Matrix (Fin d) (Fin d) ℂ) :=
  (unrollPulse (sortedP p))[n]?.map fun v => Hval I (sortedOps p) v.1

/-- the sensitivity of the noise operator at position `j` of the identifier order during the unit
step `n` -/
def sensAtStep (p : PulseData) (j n : Nat) : Option ℝ :=
  (unrollPulse (sortedP p))[n]?.map fun v => I.cv (v.2.getD j 0)

/-- the contract of `eigh` can be met for every Hermitian matrix (spectral theorem) -/
theorem exists_isEigh (A : Matrix (Fin d) (Fin d) ℂ) (hA : A.IsHermitian) :
    ∃ (D : Fin d → ℝ) (V : Matrix (Fin d) (Fin d) ℂ), IsEigh A D V := by
  refine ⟨hA.eigenvalues, (hA.eigenvectorUnitary : Matrix (Fin d) (Fin d) ℂ), ?_, ?_, ?_⟩
  · have h := hA.spectral_theorem
    rw [Unitary.conjStarAlgAut_apply] at h
    have hl : star (hA.eigenvectorUnitary : Matrix (Fin d) (Fin d) ℂ)
        * (hA.eigenvectorUnitary : Matrix (Fin d) (Fin d) ℂ) = 1 := Unitary.coe_star_mul_self _
    generalize (hA.eigenvectorUnitary : Matrix (Fin d) (Fin d) ℂ) = U at h hl
    generalize hA.eigenvalues = ev at h
    subst h
    rw [Matrix.mul_assoc, hl, Matrix.mul_one]
    rfl
  · rw [← Matrix.star_eq_conjTranspose]; exact Unitary.coe_star_mul_self _
  · rw [← Matrix.star_eq_conjTranspose]; exact Unitary.coe_mul_star_self _

theorem Hterms_isHermitian (hH : ∀ u, (I.op u).toMatrix.IsHermitian) (ts : List Term) (g : Nat) :
    (Hterms I ts g).IsHermitian := by
  unfold Hterms
  induction ts with
  | nil => simp
  | cons t ts ih =>
    rw [List.map_cons, List.sum_cons]
    refine Matrix.IsHermitian.add ?_ ih
    unfold Matrix.IsHermitian
    rw [Matrix.conjTranspose_smul, (hH t.op).eq]
    simp

/-- **the `eigh` hypotheses of the bridge theorems are satisfiable**: for every pulse and every
interpretation by Hermitian operators there is an output of `eigh` meeting the contract on every
segment -/
theorem eigh_data_exists (hH : ∀ u, (I.op u).toMatrix.IsHermitian) (p : PulseData) :
    ∃ (ev : Mat ℝ p.dt.length d) (vec : Vector (Mat ℂ d d) p.dt.length),
      ∀ g : Fin p.dt.length,
        IsEigh (Mat.toMatrix (hamiltonian (cOpersOf I p) (cCoeffsOf I p))[g.1])
          (fun j => ev[g.1][j]) vec[g.1].toMatrix := by
  have hh : ∀ g : Fin p.dt.length,
      (Mat.toMatrix (hamiltonian (cOpersOf I p) (cCoeffsOf I p))[g.1]).IsHermitian := by
    intro g
    rw [hamiltonian_eq_Hterms I p g.1 g.2]
    exact Hterms_isHermitian I hH _ _
  choose D V hDV using fun g : Fin p.dt.length => exists_isEigh _ (hh g)
  refine ⟨Mat.ofFn fun g j => D g j, Vector.ofFn fun g => Mat.ofFn fun i j => V g i j, fun g => ?_⟩
  have h1 : (fun j : Fin d => (Mat.ofFn fun g j => D g j : Mat ℝ p.dt.length d)[g.1][j]) = D g := by
    funext j
    simp only [Fin.getElem_fin, Mat.ofFn_getElem]
  have h2 : (Vector.ofFn fun g => Mat.ofFn fun i j => V g i j :
      Vector (Mat ℂ d d) p.dt.length)[g.1].toMatrix = V g := by
    rw [Vector.getElem_ofFn, Mat.toMatrix_ofFn]
    rfl
  rw [h1, h2]
  exact hDV g

end Fun

/-! ### 9. example pulses (used by the non-vacuity examples of `Props/C17Bridge`) -/

/-- two control operators `X`, `Y`, one noise operator `N`; the first segment (duration 3) is written
split in two segments of durations 1 and 2 -/
def exSplit : PulseData :=
  ⟨[⟨1, "X", [1, 1, 2]⟩, ⟨2, "Y", [0, 0, 3]⟩], [⟨3, "N", [1, 1, 1]⟩], [1, 2, 3], 0⟩

/-- the same pulse written with merged segments and the control operators listed in the other
order -/
def exMerged : PulseData :=
  ⟨[⟨2, "Y", [0, 3]⟩, ⟨1, "X", [1, 2]⟩], [⟨3, "N", [1, 1]⟩], [3, 3], 0⟩

/-! ### 10. the unit-step functions on a segment are the model's arrays -/

theorem unroll_getElem? {β : Type} (V : List β) (ds : List Int) (hd : ∀ d ∈ ds, 0 ≤ d)
    (g : Nat) (hg : g < V.length) (hg' : g < ds.length) (n : Nat)
    (h1 : (ds.take g).sum ≤ (n : Int)) (h2 : (n : Int) < (ds.take (g + 1)).sum) :
    (unroll V ds)[n]? = some V[g] := by
  induction V generalizing ds g n with
  | nil => simp at hg
  | cons v r ih =>
    match ds, hg' with
    | d :: ds, hg' =>
      have hd0 := hd d (List.mem_cons_self ..)
      rw [unroll_cons]
      cases g with
      | zero =>
        simp only [List.take_succ_cons, List.take_zero, List.sum_cons, List.sum_nil, add_zero] at h2
        rw [List.getElem?_append_left (by rw [List.length_replicate]; omega),
          List.getElem?_replicate, if_pos (by omega)]
        rfl
      | succ g =>
        simp only [List.take_succ_cons, List.sum_cons] at h1 h2
        have hnn : 0 ≤ (ds.take g).sum :=
          List.sum_nonneg fun x hx => hd x (List.mem_cons_of_mem _ (List.mem_of_mem_take hx))
        rw [List.getElem?_append_right (by rw [List.length_replicate]; omega), List.length_replicate]
        have := ih ds (fun x hx => hd x (List.mem_cons_of_mem _ hx)) g (by simpa using hg)
          (by simpa using hg') (n - d.toNat) (by omega) (by omega)
        rw [this]
        rfl

section Seg
variable {d : Nat} (I : Interp d)

/-- **during segment `g` the unit-step Hamiltonian is the model's `hamiltonian[g]`**: for every unit
step `n` with `t_g ≤ n < t_{g+1}` (integer edge times) -/
theorem hamAtStep_segment (p : PulseData) (hnn : ∀ x ∈ p.dt, 0 ≤ x) (g : Nat) (hg : g < p.dt.length)
    (n : Nat) (h1 : (p.dt.take g).sum ≤ (n : Int)) (h2 : (n : Int) < (p.dt.take (g + 1)).sum) :
    hamAtStep I p n = some (Mat.toMatrix (hamiltonian (cOpersOf I p) (cCoeffsOf I p))[g]) := by
  unfold hamAtStep unrollPulse
  show Option.map (fun v => Hval I (sortedOps p) v.1) (unroll (segVals (sortedP p)) p.dt)[n]? = _
  rw [unroll_getElem? (segVals (sortedP p)) p.dt hnn g (by rw [length_segVals]; exact hg) hg n h1 h2,
    hamiltonian_eq_Hterms I p g hg, Hterms_eq_Hval_sorted]
  simp [segVals]

end Seg

end FFVerif.C17BridgeAux
