/-
Bridge from the Mathlib-free finite sums / nested vectors of the model to `Finset.sum`.
-/
import Mathlib.Algebra.BigOperators.Fin
import FFVerif.Core.Mat

namespace FFVerif

theorem fsum_eq_sum {K : Type} [AddCommMonoid K] (n : Nat) (f : Fin n → K) :
    fsum n f = ∑ i, f i := by
  unfold fsum
  induction n with
  | zero => simp [Fin.foldl_zero]
  | succ n ih =>
    rw [Fin.foldl_succ_last, Fin.sum_univ_castSucc]
    congr 1
    exact ih (fun i => f i.castSucc)

end FFVerif
