/-
Proof instance of the scalar interface: ℝ and ℂ with Mathlib's operations.
-/
import Mathlib.Analysis.SpecialFunctions.Integrals.Basic
import Mathlib.Analysis.SpecialFunctions.Trigonometric.Basic
import FFVerif.Core.Scalars

namespace FFVerif
open Complex

noncomputable instance instRealOpsReal : RealOps ℝ where
  abs x := |x|
  sqrt := Real.sqrt
  lt a b := decide (a < b)
  le a b := decide (a ≤ b)
  sin := Real.sin
  cos := Real.cos
  tan := Real.tan
  pi := Real.pi

noncomputable instance instCplxOpsComplex : CplxOps ℝ ℂ where
  ofReal := Complex.ofReal
  conj := starRingEnd ℂ
  re := Complex.re
  im := Complex.im
  I := Complex.I
  expI x := Complex.exp (Complex.I * x)

@[simp] theorem ropsAbs (x : ℝ) : RealOps.abs x = |x| := rfl
@[simp] theorem ropsSqrt (x : ℝ) : RealOps.sqrt x = Real.sqrt x := rfl
@[simp] theorem ropsLt (a b : ℝ) : RealOps.lt a b = decide (a < b) := rfl
@[simp] theorem ropsLe (a b : ℝ) : RealOps.le a b = decide (a ≤ b) := rfl
@[simp] theorem ropsSin (x : ℝ) : RealOps.sin x = Real.sin x := rfl
@[simp] theorem ropsCos (x : ℝ) : RealOps.cos x = Real.cos x := rfl
@[simp] theorem ropsTan (x : ℝ) : RealOps.tan x = Real.tan x := rfl
@[simp] theorem ropsPi : (RealOps.pi : ℝ) = Real.pi := rfl
@[simp] theorem copsOfReal (x : ℝ) : (CplxOps.ofReal x : ℂ) = (x : ℂ) := rfl
@[simp] theorem copsConj (z : ℂ) : CplxOps.conj z = starRingEnd ℂ z := rfl
@[simp] theorem copsRe (z : ℂ) : CplxOps.re z = z.re := rfl
@[simp] theorem copsIm (z : ℂ) : CplxOps.im z = z.im := rfl
@[simp] theorem copsI : (CplxOps.I : ℂ) = Complex.I := rfl
@[simp] theorem copsExpI (x : ℝ) : (CplxOps.expI x : ℂ) = Complex.exp (Complex.I * x) := rfl

end FFVerif
